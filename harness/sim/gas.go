package sim

import storetypes "cosmossdk.io/store/types"

func newGas(limit uint64) storetypes.GasMeter { return storetypes.NewGasMeter(limit) }
