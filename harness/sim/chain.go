// Package sim runs the real sunrise application in-process (MemDB), the way the real binary's `init`
// makes its genesis, and exposes signed-transaction delivery, block production with arbitrary
// nanosecond time steps, direct message-router execution and state reads.
package sim

import (
	"crypto/sha256"
	"encoding/binary"
	"encoding/json"
	"fmt"
	"math/rand"
	"time"

	"cosmossdk.io/log"
	sdkmath "cosmossdk.io/math"
	banktypes "cosmossdk.io/x/bank/types"
	slashingtypes "cosmossdk.io/x/slashing/types"
	stakingtypes "cosmossdk.io/x/staking/types"
	abci "github.com/cometbft/cometbft/abci/types"
	cmtproto "github.com/cometbft/cometbft/api/cometbft/types/v1"
	cmttypes "github.com/cometbft/cometbft/types"
	dbm "github.com/cosmos/cosmos-db"
	"github.com/cosmos/cosmos-sdk/baseapp"
	codectypes "github.com/cosmos/cosmos-sdk/codec/types"
	cryptocodec "github.com/cosmos/cosmos-sdk/crypto/codec"
	"github.com/cosmos/cosmos-sdk/crypto/keys/ed25519"
	"github.com/cosmos/cosmos-sdk/crypto/keys/secp256k1"
	simtestutil "github.com/cosmos/cosmos-sdk/testutil/sims"
	sdk "github.com/cosmos/cosmos-sdk/types"
	authtypes "github.com/cosmos/cosmos-sdk/x/auth/types"

	"github.com/sunriselayer/sunrise/app"
	"github.com/sunriselayer/sunrise/app/custom"
)

const ChainID = "verif-1"

type Acc struct {
	Priv *secp256k1.PrivKey
	Addr sdk.AccAddress
}

type Val struct {
	Priv  *ed25519.PrivKey
	Cons  sdk.ConsAddress
	Oper  sdk.ValAddress
	Power int64
}

type Config struct {
	NumAccs   int
	ValPowers []int64 // one validator per entry, power in units of 1e6 bond tokens
	// Balance of every account, per denom
	Balances sdk.Coins
	// GenesisMut may edit the genesis state (module name -> raw json) before InitChain
	GenesisMut func(cdc Codec, gs map[string]json.RawMessage)
	Start      time.Time
	// BaseAppOptions are appended to the baseapp options of app.New (what the binary's server.DefaultBaseappOptions adds from
	// app.toml, e.g. an application-side mempool)
	BaseAppOptions []func(*baseapp.BaseApp)
}

type Codec interface {
	MustMarshalJSON(o interface{ ProtoMessage() }) []byte
}

type Chain struct {
	App     *app.App
	Accs    []Acc
	Vals    []Val
	Height  int64
	Time    time.Time
	pending [][]byte
	Halted  string // non-empty after FinalizeBlock returned an error or panicked
	// NoProposalPhases: deliver blocks with FinalizeBlock only (no PrepareProposal / ProcessProposal)
	NoProposalPhases bool
}

func seedBytes(tag string, i int) []byte {
	h := sha256.Sum256([]byte(fmt.Sprintf("%s/%d", tag, i)))
	return h[:]
}

func DefaultConfig() Config {
	return Config{
		NumAccs:   4,
		ValPowers: []int64{100},
		Balances: sdk.NewCoins(
			sdk.NewCoin("urise", sdkmath.NewInt(1_000_000_000_000)),
			sdk.NewCoin("uvrise", sdkmath.NewInt(1_000_000_000_000)),
			sdk.NewCoin("uaaa", sdkmath.NewIntWithDecimal(1, 40)),
			sdk.NewCoin("ubbb", sdkmath.NewIntWithDecimal(1, 40)),
			sdk.NewCoin("uccc", sdkmath.NewIntWithDecimal(1, 40)),
		),
		Start: time.Date(2025, 6, 1, 0, 0, 0, 0, time.UTC),
	}
}

// New builds the application and runs InitChain + the first block.
func New(cfg Config) (*Chain, error) {
	a := app.New(log.NewNopLogger(), dbm.NewMemDB(), nil, true, simtestutil.EmptyAppOptions{}, append([]func(*baseapp.BaseApp){baseapp.SetChainID(ChainID)}, cfg.BaseAppOptions...)...)
	custom.ReplaceCustomModules(a.ModuleManager, a.AppCodec())
	gs := a.DefaultGenesis()
	cdc := a.AppCodec()

	c := &Chain{App: a, Time: cfg.Start}
	var genAccs []authtypes.GenesisAccount
	var balances []banktypes.Balance
	for i := 0; i < cfg.NumAccs; i++ {
		priv := secp256k1.GenPrivKeyFromSecret(seedBytes("acc", i))
		addr := sdk.AccAddress(priv.PubKey().Address())
		c.Accs = append(c.Accs, Acc{Priv: priv, Addr: addr})
		genAccs = append(genAccs, authtypes.NewBaseAccount(addr, priv.PubKey(), uint64(i), 0))
		balances = append(balances, banktypes.Balance{Address: addr.String(), Coins: cfg.Balances})
	}
	authGenesis := authtypes.NewGenesisState(authtypes.DefaultParams(), genAccs)
	gs[authtypes.ModuleName] = cdc.MustMarshalJSON(authGenesis)

	// validators: operator i is account i (mod NumAccs); self-delegation = power * 1e6
	var validators []stakingtypes.Validator
	var delegations []stakingtypes.Delegation
	var signing []slashingtypes.SigningInfo
	var cmtVals []*cmttypes.Validator
	bonded := sdkmath.ZeroInt()
	for i, p := range cfg.ValPowers {
		priv := ed25519.GenPrivKeyFromSecret(seedBytes("val", i))
		pk := priv.PubKey()
		pkAny, err := codectypes.NewAnyWithValue(pk)
		if err != nil {
			return nil, err
		}
		cmtPk, err := cryptocodec.ToCmtPubKeyInterface(pk)
		if err != nil {
			return nil, err
		}
		cmtVals = append(cmtVals, cmttypes.NewValidator(cmtPk, p))
		oper := sdk.ValAddress(c.Accs[i%len(c.Accs)].Addr)
		if i >= len(c.Accs) {
			return nil, fmt.Errorf("need at least as many accounts as validators")
		}
		tokens := sdkmath.NewInt(p).MulRaw(1_000_000)
		bonded = bonded.Add(tokens)
		cons := sdk.ConsAddress(pk.Address())
		c.Vals = append(c.Vals, Val{Priv: priv, Cons: cons, Oper: oper, Power: p})
		validators = append(validators, stakingtypes.Validator{
			OperatorAddress: oper.String(), ConsensusPubkey: pkAny, Jailed: false, Status: stakingtypes.Bonded,
			Tokens: tokens, DelegatorShares: sdkmath.LegacyNewDecFromInt(tokens), Description: stakingtypes.Description{},
			UnbondingHeight: 0, UnbondingTime: time.Unix(0, 0).UTC(),
			Commission:        stakingtypes.NewCommission(sdkmath.LegacyZeroDec(), sdkmath.LegacyZeroDec(), sdkmath.LegacyZeroDec()),
			MinSelfDelegation: sdkmath.ZeroInt(),
		})
		delegations = append(delegations, stakingtypes.NewDelegation(c.Accs[i].Addr.String(), oper.String(), sdkmath.LegacyNewDecFromInt(tokens)))
		signing = append(signing, slashingtypes.SigningInfo{
			Address:              cons.String(),
			ValidatorSigningInfo: slashingtypes.NewValidatorSigningInfo(cons.String(), 0, time.Unix(0, 0).UTC(), false, 0),
		})
	}
	stParams := stakingtypes.DefaultParams()
	stParams.BondDenom = "uvrise"
	// keep the staking params the custom staking module's default genesis chose, if any
	var stDefault stakingtypes.GenesisState
	if err := json.Unmarshal(gs[stakingtypes.ModuleName], &stDefault); err == nil && stDefault.Params.BondDenom != "" {
		cdc.MustUnmarshalJSON(gs[stakingtypes.ModuleName], &stDefault)
		stParams = stDefault.Params
	}
	gs[stakingtypes.ModuleName] = cdc.MustMarshalJSON(stakingtypes.NewGenesisState(stParams, validators, delegations))

	var slGen slashingtypes.GenesisState
	cdc.MustUnmarshalJSON(gs[slashingtypes.ModuleName], &slGen)
	slGen.SigningInfos = signing
	gs[slashingtypes.ModuleName] = cdc.MustMarshalJSON(&slGen)

	// bank: keep send-enabled table and metadata of the custom default genesis
	var bankGen banktypes.GenesisState
	cdc.MustUnmarshalJSON(gs[banktypes.ModuleName], &bankGen)
	balances = append(balances, banktypes.Balance{
		Address: authtypes.NewModuleAddress(stakingtypes.BondedPoolName).String(),
		Coins:   sdk.NewCoins(sdk.NewCoin(stParams.BondDenom, bonded)),
	})
	total := sdk.NewCoins()
	for _, b := range balances {
		total = total.Add(b.Coins...)
	}
	bankGen.Balances = balances
	bankGen.Supply = total
	gs[banktypes.ModuleName] = cdc.MustMarshalJSON(&bankGen)

	if cfg.GenesisMut != nil {
		cfg.GenesisMut(nil, gs)
	}
	stateBytes, err := json.MarshalIndent(gs, "", " ")
	if err != nil {
		return nil, err
	}
	valSet := cmttypes.NewValidatorSet(cmtVals)
	_ = valSet
	var updates []abci.ValidatorUpdate
	for i, v := range c.Vals {
		cmtPk, _ := cryptocodec.ToCmtPubKeyInterface(v.Priv.PubKey())
		_ = cmtPk
		updates = append(updates, abci.ValidatorUpdate{PubKeyType: "ed25519", PubKeyBytes: v.Priv.PubKey().Bytes(), Power: cfg.ValPowers[i]})
	}
	_, err = a.InitChain(&abci.InitChainRequest{
		ChainId:         ChainID,
		Validators:      []abci.ValidatorUpdate{},
		ConsensusParams: simtestutil.DefaultConsensusParams,
		AppStateBytes:   stateBytes,
		Time:            cfg.Start,
		InitialHeight:   1,
	})
	if err != nil {
		return nil, fmt.Errorf("InitChain: %w", err)
	}
	c.Height = 0
	if _, err := c.NextBlock(0); err != nil {
		return nil, fmt.Errorf("first block: %w", err)
	}
	return c, nil
}

func (c *Chain) header() cmtproto.Header {
	return cmtproto.Header{ChainID: ChainID, Height: c.Height, Time: c.Time}
}

// Ctx returns a context over the committed state (reads; writes go straight to the root store and are
// committed with the next block).
func (c *Chain) Ctx() sdk.Context {
	return c.App.NewUncachedContext(false, c.header())
}

func (c *Chain) votes() abci.CommitInfo {
	var vs []abci.VoteInfo
	for _, v := range c.Vals {
		vs = append(vs, abci.VoteInfo{
			Validator:   abci.Validator{Address: v.Priv.PubKey().Address(), Power: v.Power},
			BlockIdFlag: cmtproto.BlockIDFlagCommit,
		})
	}
	return abci.CommitInfo{Round: 0, Votes: vs}
}

type BlockResult struct {
	Txs   []*abci.ExecTxResult
	Err   error
	Panic any
}

// NextBlock advances time by dt, delivers the pending transactions in one FinalizeBlock and commits.
func (c *Chain) NextBlock(dt time.Duration) (res BlockResult, err error) {
	if c.Halted != "" {
		return BlockResult{Err: fmt.Errorf("halted: %s", c.Halted)}, fmt.Errorf("halted: %s", c.Halted)
	}
	c.Height++
	c.Time = c.Time.Add(dt)
	txs := c.pending
	c.pending = nil
	func() {
		defer func() {
			if r := recover(); r != nil {
				res.Panic = r
				err = fmt.Errorf("FinalizeBlock panic: %v", r)
			}
		}()
		// the block goes through the application's proposal phases as on a node: the proposer's PrepareProposal (which may add
		// entries of its own), every validator's ProcessProposal (a refusal of the honest proposal means no block is ever
		// produced again), then FinalizeBlock on the prepared list.  Transactions that do not decode never reach a proposal on
		// a node (CheckTx); a block that carries such bytes is delivered as it is.
		nUser := len(txs)
		if !c.NoProposalPhases && c.AllDecode(txs) {
			proposer := c.Vals[0].Priv.PubKey().Address()
			pp, perr := c.App.PrepareProposal(&abci.PrepareProposalRequest{Height: c.Height, Time: c.Time, Txs: txs, MaxTxBytes: 1 << 24,
				LocalLastCommit: abci.ExtendedCommitInfo{}, ProposerAddress: proposer})
			if perr != nil {
				err = fmt.Errorf("PrepareProposal failed: %w", perr)
				return
			}
			// the node's own ABCI calls between proposals are not ordered: a validator may process proposals it has not seen
			// prepared, more than once, or none at all (block replay); here: once, plus once more every third block
			for k := 0; k < 1+int(c.Height%3)/2; k++ {
				pr, perr := c.App.ProcessProposal(&abci.ProcessProposalRequest{Height: c.Height, Time: c.Time, Txs: pp.Txs,
					ProposedLastCommit: c.votes(), ProposerAddress: proposer, Hash: []byte(fmt.Sprintf("%032d", c.Height))})
				if perr != nil {
					err = fmt.Errorf("ProcessProposal failed: %w", perr)
					return
				}
				if pr.Status != abci.PROCESS_PROPOSAL_STATUS_ACCEPT {
					err = fmt.Errorf("ProcessProposal rejected the block prepared by PrepareProposal (status %s)", pr.Status)
					return
				}
			}
			if len(pp.Txs) < nUser {
				nUser = len(pp.Txs)
			}
			txs = pp.Txs
		}
		var fb *abci.FinalizeBlockResponse
		fb, err = c.App.FinalizeBlock(&abci.FinalizeBlockRequest{
			Height:            c.Height,
			Time:              c.Time,
			Txs:               txs,
			DecidedLastCommit: c.votes(),
			ProposerAddress:   c.Vals[0].Priv.PubKey().Address(),
		})
		if err == nil {
			// entries appended by PrepareProposal are not user transactions: their results are not reported
			res.Txs = fb.TxResults
			if len(res.Txs) > nUser {
				res.Txs = res.Txs[:nUser]
			}
			_, err = c.App.Commit()
		}
	}()
	if err != nil {
		res.Err = err
		c.Halted = err.Error()
	}
	return res, err
}

func (c *Chain) AllDecode(txs [][]byte) bool {
	dec := c.App.TxConfig().TxDecoder()
	for _, bz := range txs {
		if _, err := dec(bz); err != nil {
			return false
		}
	}
	return true
}

// QueueTx signs msgs with account i and queues the transaction for the next block.
func (c *Chain) QueueTx(i int, fee sdk.Coins, gas uint64, msgs ...sdk.Msg) error {
	bz, err := c.SignTx(i, fee, gas, msgs...)
	if err != nil {
		return err
	}
	c.pending = append(c.pending, bz)
	return nil
}

var seqBump = map[string]uint64{}

func (c *Chain) SignTx(i int, fee sdk.Coins, gas uint64, msgs ...sdk.Msg) ([]byte, error) {
	acc := c.App.AuthKeeper.GetAccount(c.Ctx(), c.Accs[i].Addr)
	if acc == nil {
		return nil, fmt.Errorf("account %d not found", i)
	}
	// several txs of one signer in the same block: bump the sequence locally
	key := fmt.Sprintf("%p/%d/%d", c, c.Height, i)
	seq := acc.GetSequence() + seqBump[key]
	seqBump[key]++
	tx, err := simtestutil.GenSignedMockTx(rand.New(rand.NewSource(1)), c.App.TxConfig(), msgs, fee, gas, ChainID,
		[]uint64{acc.GetAccountNumber()}, []uint64{seq}, c.Accs[i].Priv)
	if err != nil {
		return nil, err
	}
	return c.App.TxConfig().TxEncoder()(tx)
}

// Exec runs one message through the application's message router on a branch of the committed state and
// writes the branch only if the handler succeeds (transaction atomicity), with panic recovery.
func (c *Chain) Exec(msg sdk.Msg) (resp any, err error, panicked any) {
	defer func() {
		if r := recover(); r != nil {
			panicked = r
			err = fmt.Errorf("panic: %v", r)
		}
	}()
	h := c.App.MsgServiceRouter().Handler(msg)
	if h == nil {
		return nil, fmt.Errorf("no handler for %T", msg), nil
	}
	ctx, write := c.Ctx().CacheContext()
	ctx = ctx.WithGasMeter(newGas(50_000_000))
	r, e := h(ctx, msg)
	if e != nil {
		return nil, e, nil
	}
	write()
	if r != nil && len(r.MsgResponses) > 0 {
		var m sdk.Msg
		if err := c.App.InterfaceRegistry().UnpackAny(r.MsgResponses[0], &m); err == nil {
			return m, nil, nil
		}
	}
	return r, nil, nil
}

// ExecDry runs the message handler like Exec on a branch of the committed state and discards the branch in every case.
func (c *Chain) ExecDry(msg sdk.Msg) (err error, panicked any) {
	defer func() {
		if r := recover(); r != nil {
			panicked = r
			err = fmt.Errorf("panic: %v", r)
		}
	}()
	h := c.App.MsgServiceRouter().Handler(msg)
	if h == nil {
		return fmt.Errorf("no handler for %T", msg), nil
	}
	ctx, _ := c.Ctx().CacheContext()
	ctx = ctx.WithGasMeter(newGas(50_000_000))
	_, e := h(ctx, msg)
	return e, nil
}

// Call runs fn on a branch of the committed state; the branch is written only if fn returns nil.
func (c *Chain) Call(fn func(ctx sdk.Context) error) (err error, panicked any) {
	defer func() {
		if r := recover(); r != nil {
			panicked = r
			err = fmt.Errorf("panic: %v", r)
		}
	}()
	ctx, write := c.Ctx().CacheContext()
	ctx = ctx.WithGasMeter(newGas(50_000_000))
	if e := fn(ctx); e != nil {
		return e, nil
	}
	write()
	return nil, nil
}

// CallKeep runs fn on a branch of the committed state and writes the branch whether fn fails or not (a panic writes
// nothing): what a block hook does that calls a keeper without a cache context and only logs the error.
func (c *Chain) CallKeep(fn func(ctx sdk.Context) error) (err error, panicked any) {
	defer func() {
		if r := recover(); r != nil {
			panicked = r
			err = fmt.Errorf("panic: %v", r)
		}
	}()
	ctx, write := c.Ctx().CacheContext()
	ctx = ctx.WithGasMeter(newGas(50_000_000))
	e := fn(ctx)
	write()
	return e, nil
}

func (c *Chain) Bal(addr sdk.AccAddress, denom string) sdkmath.Int {
	return c.App.BankKeeper.GetBalance(c.Ctx(), addr, denom).Amount
}

func U64(b []byte) uint64 { return binary.BigEndian.Uint64(b) }
