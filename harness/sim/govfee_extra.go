package sim

// additive helper (C18): queue an already encoded transaction for the next block
func (c *Chain) QueueRawTx(bz []byte) { c.pending = append(c.pending, bz) }
