package main

// svk: kernel-level differential generator. Calls the real package functions of /repo on seeded random
// operands and prints `<op line>\t<expected>`; the Lean driver evaluates the op line on the model /
// regenerated kernels and the outputs are compared byte for byte.

import (
	"bufio"
	"flag"
	"fmt"
	"math/big"
	"os"
	"strings"

	"cosmossdk.io/math"
	lpkeeper "github.com/sunriselayer/sunrise/x/liquiditypool/keeper"
	lptypes "github.com/sunriselayer/sunrise/x/liquiditypool/types"
)

type rng struct{ s uint64 }

func (r *rng) next() uint64 {
	r.s += 0x9E3779B97F4A7C15
	z := r.s
	z = (z ^ (z >> 30)) * 0xBF58476D1CE4E5B9
	z = (z ^ (z >> 27)) * 0x94D049BB133111EB
	return z ^ (z >> 31)
}
func (r *rng) n(k int) int { return int(r.next() % uint64(k)) }

// random non-negative big integer with up to `digits` decimal digits
func (r *rng) bigDigits(digits int) *big.Int {
	d := 1 + r.n(digits)
	var sb strings.Builder
	for i := 0; i < d; i++ {
		sb.WriteByte(byte('0' + r.n(10)))
	}
	v, _ := new(big.Int).SetString(sb.String(), 10)
	return v
}

var prec = new(big.Int).Exp(big.NewInt(10), big.NewInt(18), nil)

// raw value of a Dec: structured mix
func (r *rng) decRaw(maxDigits int, allowNeg bool) *big.Int {
	var v *big.Int
	switch r.n(10) {
	case 0:
		v = big.NewInt(int64(r.n(3))) // 0,1,2 ulp
	case 1:
		v = new(big.Int).Mul(big.NewInt(int64(r.n(1000))), prec) // integer
	case 2:
		// x.5 exactly (banker's ties downstream)
		v = new(big.Int).Mul(big.NewInt(int64(r.n(100))), prec)
		v.Add(v, new(big.Int).Div(prec, big.NewInt(2)))
	case 3:
		// near one
		v = new(big.Int).Add(prec, big.NewInt(int64(r.n(2000000)-1000000)))
	default:
		v = r.bigDigits(maxDigits)
	}
	if allowNeg && r.n(5) == 0 {
		v.Neg(v)
	}
	return v
}

func dec(raw *big.Int) math.LegacyDec { return math.LegacyNewDecFromBigIntWithPrec(raw, 18) }
func rawOf(d math.LegacyDec) string   { return d.BigInt().String() }

// isRangePanic: the panic values of cosmossdk.io/math's range assertions — LegacyDec.assertInValidRange ("Int overflow"),
// Int.Add/Sub/Mul (the error ErrIntOverflow, "integer overflow"), NewIntFromBigInt(Mut) behind TruncateInt/RoundInt
// ("NewIntFromBigInt() out of bound"), Int64()/TruncateInt64()/RoundInt64() ("Int64() out of bound"), Uint64() ("Uint64() out of bounds").
func isRangePanic(r any) bool {
	msg := ""
	switch v := r.(type) {
	case string:
		msg = v
	case error:
		msg = v.Error()
	}
	return msg == "Int overflow" || msg == "integer overflow" || strings.Contains(msg, "out of bound")
}

func guard(f func() string) (out string) {
	defer func() {
		if r := recover(); r != nil {
			out = "panic"
			if isRangePanic(r) {
				out = "range" // compared with the kernel's `_rng` guard (R line of the driver); skipped only for ops without one
			}
		}
	}()
	return f()
}

var (
	two256   = new(big.Int).Lsh(big.NewInt(1), 256)
	decRange = new(big.Int).Mul(two256, prec) // 2^256 * 10^18: valid raw values are strictly inside (-decRange, decRange)
)

// jitter: v + d with a small signed d (mostly within +-3, sometimes larger)
func (r *rng) jitter(v *big.Int) *big.Int {
	d := int64(r.n(7) - 3)
	if r.n(4) == 0 {
		d = int64(r.n(2000001) - 1000000)
	}
	return new(big.Int).Add(v, big.NewInt(d))
}

// edgeRaw: magnitudes next to the library's bounds: 2^63, 2^64, 2^127, 2^128, 2^255, 2^256, 2^256*10^18 (raw Dec bound),
// their square roots scaled for products, and 2^k(1+x) for k up to 320
func (r *rng) edgeRaw(allowNeg bool) *big.Int {
	var v *big.Int
	switch r.n(8) {
	case 0:
		ks := []uint{63, 64, 127, 128, 160, 192, 255, 256, 257, 315, 316}
		v = r.jitter(new(big.Int).Lsh(big.NewInt(1), ks[r.n(len(ks))]))
	case 1:
		v = r.jitter(decRange)
	case 2:
		v = r.jitter(new(big.Int).Mul(new(big.Int).Lsh(big.NewInt(1), uint(250+r.n(8))), prec))
	case 3:
		v = r.jitter(new(big.Int).Sqrt(new(big.Int).Mul(decRange, prec))) // x*x/10^18 ~ bound
	default:
		k := uint(r.n(321))
		v = new(big.Int).Lsh(big.NewInt(1), k)
		v.Add(v, new(big.Int).Rsh(new(big.Int).Mul(v, big.NewInt(int64(r.n(1<<20)))), 20))
		v = r.jitter(v)
	}
	if v.Sign() < 0 && !allowNeg {
		v.Neg(v)
	}
	if allowNeg && r.n(4) == 0 {
		v.Neg(v)
	}
	return v
}

// edgeInt: a VALID math.Int (|i| < 2^256) next to the Int / int64 bounds
func (r *rng) edgeInt(allowNeg bool) *big.Int {
	for {
		v := r.edgeRaw(allowNeg)
		if v.BitLen() <= 256 {
			return v
		}
		if r.n(2) == 0 {
			return new(big.Int).Sub(two256, big.NewInt(int64(1+r.n(3))))
		}
	}
}

// mulEdge: (x, y) with x*y/10^18 within a few units of +-bound; quoEdge: (x, y) with x*10^18/y next to it
func (r *rng) mulEdge(bound *big.Int) (*big.Int, *big.Int) {
	x := new(big.Int).Add(r.bigDigits(60), big.NewInt(1))
	y := new(big.Int).Quo(new(big.Int).Mul(bound, prec), x)
	y = r.jitter(y)
	if r.n(4) == 0 {
		x.Neg(x)
	}
	if r.n(4) == 0 {
		y.Neg(y)
	}
	return x, y
}

func (r *rng) quoEdge(bound *big.Int) (*big.Int, *big.Int) {
	y := new(big.Int).Add(r.bigDigits(30), big.NewInt(1))
	x := new(big.Int).Quo(new(big.Int).Mul(bound, y), prec)
	x = r.jitter(x)
	if r.n(4) == 0 {
		x.Neg(x)
	}
	if r.n(4) == 0 {
		y.Neg(y)
	}
	return x, y
}

func b2s(b bool) string {
	if b {
		return "1"
	}
	return "0"
}

type setFn func(r *rng, n int, emit func(op string, exp string))

var kernelSets = map[string]setFn{}

func registerSet(name string, f setFn) { kernelSets[name] = f }

func main() {
	n := flag.Int("n", 2000, "cases per kernel")
	seed := flag.Uint64("seed", 1, "seed")
	which := flag.String("set", "dec,cl", "kernel sets")
	flag.Parse()
	r := &rng{s: *seed * 0x51ED27}
	w := bufio.NewWriter(os.Stdout)
	defer w.Flush()
	emit := func(op string, exp string) { fmt.Fprintf(w, "%s\t%s\n", op, exp) }
	for _, s := range strings.Split(*which, ",") {
		f, ok := kernelSets[s]
		if !ok {
			fmt.Fprintln(os.Stderr, "unknown kernel set", s)
			os.Exit(2)
		}
		f(r, *n, emit)
	}
}

func init() {
	registerSet("dec", setDec)
	registerSet("cl", setCL)
}

func setDec(r *rng, np int, emit func(op string, exp string)) {
	n := &np
	{
		type bin struct {
			name string
			f    func(a, b math.LegacyDec) math.LegacyDec
		}
		bins := []bin{
			{"mul", math.LegacyDec.Mul}, {"mulTruncate", math.LegacyDec.MulTruncate}, {"mulRoundUp", math.LegacyDec.MulRoundUp},
			{"quo", math.LegacyDec.Quo}, {"quoTruncate", math.LegacyDec.QuoTruncate}, {"quoRoundUp", math.LegacyDec.QuoRoundUp},
		}
		for i := 0; i < *n; i++ {
			for bi, b := range bins {
				x, y := r.decRaw(45, true), r.decRaw(45, true)
				emit(fmt.Sprintf("D %s %s %s", b.name, x, y), guard(func() string { return rawOf(b.f(dec(x), dec(y))) }))
				// range assertion of the result: operand pairs whose result lies within a few units of +-2^256*10^18
				if i%2 == 0 {
					var ex, ey *big.Int
					if bi < 3 {
						ex, ey = r.mulEdge(decRange)
					} else {
						ex, ey = r.quoEdge(decRange)
					}
					if r.n(4) == 0 {
						ex, ey = r.edgeRaw(true), r.edgeRaw(true)
						if ey.Sign() == 0 {
							ey = big.NewInt(1)
						}
					}
					emit(fmt.Sprintf("D %s %s %s", b.name, ex, ey), guard(func() string { return rawOf(b.f(dec(ex), dec(ey))) }))
				}
			}
			if i%2 == 0 {
				// Add / Sub / MulInt / Ceil / TruncateInt / RoundInt / *Int64 / Int.Add,Sub,Mul / Int64() / Uint64() at their bounds
				a1 := r.jitter(new(big.Int).Quo(decRange, big.NewInt(int64(1+r.n(3)))))
				a2 := new(big.Int).Sub(decRange, a1)
				a2 = r.jitter(a2)
				if r.n(2) == 0 {
					a1.Neg(a1)
					a2.Neg(a2)
				}
				emit(fmt.Sprintf("D add %s %s", a1, a2), guard(func() string { return rawOf(dec(a1).Add(dec(a2))) }))
				na2 := new(big.Int).Neg(a2)
				emit(fmt.Sprintf("D sub %s %s", a1, na2), guard(func() string { return rawOf(dec(a1).Sub(dec(na2))) }))
				e1, e2 := r.edgeRaw(true), r.edgeRaw(true)
				emit(fmt.Sprintf("D add %s %s", e1, e2), guard(func() string { return rawOf(dec(e1).Add(dec(e2))) }))
				emit(fmt.Sprintf("D sub %s %s", e1, e2), guard(func() string { return rawOf(dec(e1).Sub(dec(e2))) }))
				k := r.edgeInt(true)
				m := r.jitter(new(big.Int).Quo(decRange, new(big.Int).Add(new(big.Int).Abs(k), big.NewInt(1))))
				emit(fmt.Sprintf("D mulInt %s %s", m, k), guard(func() string { return rawOf(dec(m).MulInt(math.NewIntFromBigInt(k))) }))
				c := r.edgeRaw(true)
				if r.n(2) == 0 {
					c = r.jitter(new(big.Int).Sub(decRange, prec))
				}
				emit(fmt.Sprintf("D ceil %s", c), guard(func() string { return rawOf(dec(c).Ceil()) }))
				t := r.jitter(new(big.Int).Mul(r.edgeInt(true), prec))
				if r.n(3) == 0 {
					t = new(big.Int).Sub(decRange, new(big.Int).Quo(prec, big.NewInt(int64(1+r.n(4)))))
				}
				if r.n(5) == 0 { // an out-of-range Dec (constructors do not assert): TruncateInt's own 256-bit assertion
					t = r.jitter(new(big.Int).Add(decRange, r.bigDigits(20)))
				}
				emit(fmt.Sprintf("D truncateInt %s", t), guard(func() string { return dec(t).TruncateInt().String() }))
				emit(fmt.Sprintf("D roundInt %s", t), guard(func() string { return dec(t).RoundInt().String() }))
				t64 := r.jitter(new(big.Int).Mul(r.jitter(new(big.Int).Lsh(big.NewInt(1), 63)), prec))
				if r.n(2) == 0 {
					t64.Neg(t64)
				}
				if r.n(3) == 0 {
					t64 = new(big.Int).Sub(new(big.Int).Mul(new(big.Int).Lsh(big.NewInt(1), 63), prec), new(big.Int).Quo(prec, big.NewInt(2)))
					t64 = r.jitter(t64)
				}
				emit(fmt.Sprintf("D truncateInt64 %s", t64), guard(func() string { return fmt.Sprint(dec(t64).TruncateInt64()) }))
				emit(fmt.Sprintf("D roundInt64 %s", t64), guard(func() string { return fmt.Sprint(dec(t64).RoundInt64()) }))
				i1, i2 := r.edgeInt(true), r.edgeInt(true)
				emit(fmt.Sprintf("D iadd %s %s", i1, i2), guard(func() string { return math.NewIntFromBigInt(i1).Add(math.NewIntFromBigInt(i2)).String() }))
				emit(fmt.Sprintf("D isub %s %s", i1, i2), guard(func() string { return math.NewIntFromBigInt(i1).Sub(math.NewIntFromBigInt(i2)).String() }))
				j1 := r.edgeInt(true)
				j2 := r.jitter(new(big.Int).Quo(two256, new(big.Int).Add(new(big.Int).Abs(j1), big.NewInt(1))))
				if j2.BitLen() > 256 {
					j2 = big.NewInt(2)
				}
				emit(fmt.Sprintf("D imul %s %s", j1, j2), guard(func() string { return math.NewIntFromBigInt(j1).Mul(math.NewIntFromBigInt(j2)).String() }))
				emit(fmt.Sprintf("D int64 %s", i1), guard(func() string { return fmt.Sprint(math.NewIntFromBigInt(i1).Int64()) }))
				u := r.jitter(new(big.Int).Lsh(big.NewInt(1), uint(63+r.n(2))))
				if r.n(5) == 0 {
					u = big.NewInt(int64(r.n(3) - 1))
				}
				emit(fmt.Sprintf("D int64 %s", u), guard(func() string { return fmt.Sprint(math.NewIntFromBigInt(u).Int64()) }))
				emit(fmt.Sprintf("D uint64 %s", u), guard(func() string { return fmt.Sprint(math.NewIntFromBigInt(u).Uint64()) }))
			}
			x := r.decRaw(45, true)
			emit(fmt.Sprintf("D ceil %s", x), guard(func() string { return rawOf(dec(x).Ceil()) }))
			emit(fmt.Sprintf("D truncateInt %s", x), guard(func() string { return dec(x).TruncateInt().String() }))
			emit(fmt.Sprintf("D roundInt %s", x), guard(func() string { return dec(x).RoundInt().String() }))
			emit(fmt.Sprintf("D string %s", x), guard(func() string { return dec(x).String() }))
			k := int64(r.n(7)) - 1
			if k == 0 {
				k = 3
			}
			emit(fmt.Sprintf("D quoInt %s %d", x, k), guard(func() string { return rawOf(dec(x).QuoInt64(k)) }))
			if i%4 == 0 {
				y := r.decRaw(22, false)
				p := uint64(r.n(40))
				emit(fmt.Sprintf("D power %s %d", y, p), guard(func() string { return rawOf(dec(y).Power(p)) }))
				// a base whose p-th power is next to the bound: y ~ (2^256)^(1/p)
				if p >= 2 {
					f := new(big.Float).SetPrec(600).SetInt(two256)
					for it := uint64(1); it < p && it < 8; it++ {
						f.Sqrt(f) // repeated square roots: (2^256)^(1/2^k), k < 8
					}
					yb, _ := f.Int(nil)
					yb = r.jitter(new(big.Int).Mul(yb, prec))
					pp := uint64(1) << min(p-1, 7)
					emit(fmt.Sprintf("D power %s %d", yb, pp), guard(func() string { return rawOf(dec(yb).Power(pp)) }))
				}
				z := r.decRaw(40, false)
				emit(fmt.Sprintf("D approxSqrt %s", z), guard(func() string {
					s, err := dec(z).ApproxSqrt()
					if err != nil {
						return "err"
					}
					return rawOf(s)
				}))
			}
		}
	}
}

func setCL(r *rng, np int, emit func(op string, exp string)) {
	n := &np
	{
		for i := 0; i < *n; i++ {
			// every third iteration draws its operands next to the library's range bounds (2^63 … 2^256, 2^256*10^18, 2^k up to
			// k = 320), so that the range assertions inside the kernels fire and the `_rng` guards are compared on both sides
			ext := i%3 == 2
			decRaw := func(d int, neg bool) *big.Int {
				if ext {
					return r.edgeRaw(neg)
				}
				return r.decRaw(d, neg)
			}
			bigDigits := func(d int) *big.Int {
				if ext {
					return r.edgeInt(false)
				}
				return r.bigDigits(d)
			}
			// sqrt prices: positive, various magnitudes, often close together
			pa := decRaw(30, false)
			pb := decRaw(30, false)
			if r.n(3) == 0 {
				pb = new(big.Int).Add(pa, big.NewInt(int64(r.n(1000))))
			}
			if ext && r.n(2) == 0 { // realistic prices, extreme amounts
				pa, pb = r.decRaw(30, false), r.decRaw(30, false)
			}
			liq := decRaw(40, r.n(4) == 0)
			amt := bigDigits(30)
			ru := r.n(2) == 0
			emit(fmt.Sprintf("K LiquidityBase %s %s %s", amt, pa, pb), guard(func() string {
				return rawOf(lptypes.LiquidityBase(math.NewIntFromBigInt(amt), dec(pa), dec(pb)))
			}))
			emit(fmt.Sprintf("K LiquidityQuote %s %s %s", amt, pa, pb), guard(func() string {
				return rawOf(lptypes.LiquidityQuote(math.NewIntFromBigInt(amt), dec(pa), dec(pb)))
			}))
			emit(fmt.Sprintf("K CalcAmountBaseDelta %s %s %s %s", liq, pa, pb, b2s(ru)), guard(func() string {
				return rawOf(lptypes.CalcAmountBaseDelta(dec(liq), dec(pa), dec(pb), ru))
			}))
			emit(fmt.Sprintf("K CalcAmountQuoteDelta %s %s %s %s", liq, pa, pb, b2s(ru)), guard(func() string {
				return rawOf(lptypes.CalcAmountQuoteDelta(dec(liq), dec(pa), dec(pb), ru))
			}))
			if ext {
				// directed: only the LAST assertion of the kernel (Ceil) decides — price gap exactly 1, liquidity within one unit
				// below the bound, so Mul is exact and in range and Ceil steps over 2^256*10^18 (or lands on a whole number below)
				qa := r.decRaw(30, false)
				qb := new(big.Int).Add(qa, prec)
				ql := new(big.Int).Sub(decRange, big.NewInt(1+int64(r.n(1000000))))
				switch r.n(3) {
				case 0:
					ql = new(big.Int).Sub(decRange, new(big.Int).Mul(prec, big.NewInt(int64(1+r.n(3))))) // whole number: Ceil is the identity
				case 1:
					ql = new(big.Int).Sub(ql, prec) // one below: Ceil stays in range
				}
				for _, up := range []bool{true, false} {
					emit(fmt.Sprintf("K CalcAmountQuoteDelta %s %s %s %s", ql, qa, qb, b2s(up)), guard(func() string {
						return rawOf(lptypes.CalcAmountQuoteDelta(dec(ql), dec(qa), dec(qb), up))
					}))
				}
			}
			rem := decRaw(35, false)
			pl := decRaw(40, false)
			emit(fmt.Sprintf("K SquareRoundUp %s", pa), guard(func() string { return rawOf(lptypes.SquareRoundUp(dec(pa))) }))
			emit(fmt.Sprintf("K SquareTruncate %s", pa), guard(func() string { return rawOf(lptypes.SquareTruncate(dec(pa))) }))
			emit(fmt.Sprintf("K NextBaseIn %s %s %s", pa, pl, rem), guard(func() string {
				return rawOf(lptypes.GetNextSqrtPriceFromAmountBaseInRoundingUp(dec(pa), dec(pl), dec(rem)))
			}))
			emit(fmt.Sprintf("K NextBaseOut %s %s %s", pa, pl, rem), guard(func() string {
				return rawOf(lptypes.GetNextSqrtPriceFromAmountBaseOutRoundingUp(dec(pa), dec(pl), dec(rem)))
			}))
			emit(fmt.Sprintf("K NextQuoteIn %s %s %s", pa, pl, rem), guard(func() string {
				return rawOf(lptypes.GetNextSqrtPriceFromAmountQuoteInRoundingDown(dec(pa), dec(pl), dec(rem)))
			}))
			emit(fmt.Sprintf("K NextQuoteOut %s %s %s", pa, pl, rem), guard(func() string {
				return rawOf(lptypes.GetNextSqrtPriceFromAmountQuoteOutRoundingDown(dec(pa), dec(pl), dec(rem)))
			}))
			tk := int64(r.next())
			if r.n(3) == 0 {
				tk = int64(r.n(2001) - 1000)
			}
			emit(fmt.Sprintf("K TickIndexToBytes %d", tk), guard(func() string {
				bz := lptypes.TickIndexToBytes(tk)
				parts := []string{}
				for _, b := range bz {
					parts = append(parts, fmt.Sprint(int(b)))
				}
				return strings.Join(parts, " ")
			}))
			tc, tl := int64(r.n(41)-20), int64(r.n(41)-20)
			th := tl + int64(r.n(10))
			emit(fmt.Sprintf("K IsCurrentTickInRange %d %d %d", tc, tl, th), guard(func() string {
				return b2s(lptypes.Pool{CurrentTick: tc}.IsCurrentTickInRange(tl, th))
			}))
			// tick <-> price conversions (hand-written loops in tick.go; model Model/TickMath.lean), incl. prices exactly on and
			// one ulp around tick boundaries, which exercise the +-1 correction branches of CalculateSqrtPriceToTick
			if i%3 == 0 {
				ratios := []string{"1.0001", "1.01", "1.1", "2", "1.000001"}
				offs := []string{"0", "0.5", "0.25", "0.999"}
				tp := lptypes.TickParams{PriceRatio: ratios[r.n(len(ratios))], BaseOffset: offs[r.n(len(offs))]}
				if tp.BaseOffset != "0" && tp.BaseOffset != "0.5" && (tp.PriceRatio == "2" || tp.PriceRatio == "1.1") {
					tp.BaseOffset = "0.5"
				}
				tick := int64(r.n(4001) - 2000)
				if tp.PriceRatio == "2" {
					tick = int64(r.n(101) - 50)
				}
				rr, ro := math.LegacyMustNewDecFromStr(tp.PriceRatio), math.LegacyMustNewDecFromStr(tp.BaseOffset)
				var spRaw *big.Int
				emit(fmt.Sprintf("K TickToSqrtPrice %d %s %s", tick, rawOf(rr), rawOf(ro)), guard(func() string {
					sp, err := lptypes.TickToSqrtPrice(tick, tp)
					if err != nil {
						return "err"
					}
					spRaw = sp.BigInt()
					return rawOf(sp)
				}))
				if spRaw != nil {
					for _, d := range []int64{0, 1, -1, int64(r.n(1000000))} {
						q := new(big.Int).Add(spRaw, big.NewInt(d))
						if q.Sign() <= 0 {
							continue
						}
						emit(fmt.Sprintf("K SqrtPriceToTick %s %s %s", q, rawOf(rr), rawOf(ro)), guard(func() string {
							t, err := lptypes.CalculateSqrtPriceToTick(dec(q), tp)
							if err != nil {
								return "err"
							}
							return fmt.Sprint(t)
						}))
					}
				}
			}
			amtQ := bigDigits(30)
			pc := decRaw(30, false)
			emit(fmt.Sprintf("K GetLiquidityFromAmounts %s %s %s %s %s", pc, pa, pb, amt, amtQ), guard(func() string {
				return rawOf(lptypes.GetLiquidityFromAmounts(dec(pc), dec(pa), dec(pb), math.NewIntFromBigInt(amt), math.NewIntFromBigInt(amtQ)))
			}))
			// bucket steps: realistic: cur, target on the right side, liquidity positive, fee in [0,1)
			fee := new(big.Int).Mod(r.decRaw(18, false), prec)
			if r.n(4) == 0 {
				fee = big.NewInt(0)
			}
			if r.n(50) == 0 {
				fee = new(big.Int).Neg(big.NewInt(int64(1 + r.n(5)))) // negative fee: explicit panic path
			}
			cur := new(big.Int).Add(r.decRaw(24, false), big.NewInt(1))
			span := r.bigDigits(1 + r.n(22))
			lo := new(big.Int).Sub(cur, span)
			if lo.Sign() <= 0 {
				lo = big.NewInt(1)
			}
			hi := new(big.Int).Add(cur, span)
			lq := new(big.Int).Add(r.bigDigits(36), big.NewInt(1))
			remI := new(big.Int).Mul(r.bigDigits(20), prec) // integral remaining (first step)
			if r.n(3) == 0 {
				remI = r.decRaw(36, false) // non-integral remaining (later steps)
			}
			if ext { // liquidity / remaining amount next to the bounds (prices stay realistic in half of the cases)
				if r.n(2) == 0 {
					lq = new(big.Int).Add(r.edgeRaw(false), big.NewInt(1))
				}
				if r.n(2) == 0 {
					remI = r.edgeRaw(false)
				}
				if r.n(4) == 0 {
					cur = new(big.Int).Add(r.edgeRaw(false), big.NewInt(1))
					lo, hi = new(big.Int).Rsh(cur, 1), new(big.Int).Lsh(cur, 1)
					if lo.Sign() == 0 {
						lo = big.NewInt(1)
					}
				}
			}
			for _, bfq := range []bool{true, false} {
				tgt := hi
				if bfq {
					tgt = lo
				}
				if r.n(20) == 0 { // wrong-side target
					if bfq {
						tgt = hi
					} else {
						tgt = lo
					}
				}
				h := lpkeeper.New(bfq, dec(tgt), dec(fee))
				tag := "qfb"
				if bfq {
					tag = "bfq"
				}
				emit(fmt.Sprintf("K %s_OutGivenIn %s %s %s %s %s %s", tag, tgt, fee, cur, tgt, lq, remI), guard(func() string {
					a, b, c, d := h.ComputeSwapWithinBucketOutGivenIn(dec(cur), dec(tgt), dec(lq), dec(remI))
					return rawOf(a) + " " + rawOf(b) + " " + rawOf(c) + " " + rawOf(d)
				}))
				emit(fmt.Sprintf("K %s_InGivenOut %s %s %s %s %s %s", tag, tgt, fee, cur, tgt, lq, remI), guard(func() string {
					a, b, c, d := h.ComputeSwapWithinBucketInGivenOut(dec(cur), dec(tgt), dec(lq), dec(remI))
					return rawOf(a) + " " + rawOf(b) + " " + rawOf(c) + " " + rawOf(d)
				}))
				emit(fmt.Sprintf("K %s_GetSqrtTargetPrice %s %s %s", tag, tgt, fee, cur), guard(func() string {
					return rawOf(h.GetSqrtTargetPrice(dec(cur)))
				}))
				emit(fmt.Sprintf("K %s_ValidateSqrtPrice %s %s %s %s", tag, tgt, fee, pa, cur), guard(func() string {
					if h.ValidateSqrtPrice(dec(pa), dec(cur)) != nil {
						return "err"
					}
					return "ok"
				}))
				tk := int64(r.n(2000) - 1000)
				emit(fmt.Sprintf("K %s_NextTickAfterCrossing %s %s %d", tag, tgt, fee, tk), guard(func() string {
					return fmt.Sprint(h.NextTickAfterCrossing(tk))
				}))
				emit(fmt.Sprintf("K %s_GetLiquidityDeltaSign %s %s %s", tag, tgt, fee, liq), guard(func() string {
					return rawOf(h.GetLiquidityDeltaSign(dec(liq)))
				}))
			}
		}
	}
}
