package main

// svk: kernel-level differential generator. Calls the real package functions of /repo on seeded random
// operands and prints `<op line>\t<expected>`; the Lean driver evaluates the op line on the model /
// regenerated kernels and the outputs are compared byte for byte.

import (
	"bufio"
	"flag"
	"fmt"
	"math/big"
	"os"
	"strings"

	"cosmossdk.io/math"
	lpkeeper "github.com/sunriselayer/sunrise/x/liquiditypool/keeper"
	lptypes "github.com/sunriselayer/sunrise/x/liquiditypool/types"
)

type rng struct{ s uint64 }

func (r *rng) next() uint64 {
	r.s += 0x9E3779B97F4A7C15
	z := r.s
	z = (z ^ (z >> 30)) * 0xBF58476D1CE4E5B9
	z = (z ^ (z >> 27)) * 0x94D049BB133111EB
	return z ^ (z >> 31)
}
func (r *rng) n(k int) int { return int(r.next() % uint64(k)) }

// random non-negative big integer with up to `digits` decimal digits
func (r *rng) bigDigits(digits int) *big.Int {
	d := 1 + r.n(digits)
	var sb strings.Builder
	for i := 0; i < d; i++ {
		sb.WriteByte(byte('0' + r.n(10)))
	}
	v, _ := new(big.Int).SetString(sb.String(), 10)
	return v
}

var prec = new(big.Int).Exp(big.NewInt(10), big.NewInt(18), nil)

// raw value of a Dec: structured mix
func (r *rng) decRaw(maxDigits int, allowNeg bool) *big.Int {
	var v *big.Int
	switch r.n(10) {
	case 0:
		v = big.NewInt(int64(r.n(3))) // 0,1,2 ulp
	case 1:
		v = new(big.Int).Mul(big.NewInt(int64(r.n(1000))), prec) // integer
	case 2:
		// x.5 exactly (banker's ties downstream)
		v = new(big.Int).Mul(big.NewInt(int64(r.n(100))), prec)
		v.Add(v, new(big.Int).Div(prec, big.NewInt(2)))
	case 3:
		// near one
		v = new(big.Int).Add(prec, big.NewInt(int64(r.n(2000000)-1000000)))
	default:
		v = r.bigDigits(maxDigits)
	}
	if allowNeg && r.n(5) == 0 {
		v.Neg(v)
	}
	return v
}

func dec(raw *big.Int) math.LegacyDec { return math.LegacyNewDecFromBigIntWithPrec(raw, 18) }
func rawOf(d math.LegacyDec) string   { return d.BigInt().String() }

func guard(f func() string) (out string) {
	defer func() {
		if r := recover(); r != nil {
			out = "panic"
			if s, ok := r.(string); ok && strings.Contains(s, "overflow") {
				out = "overflow" // 2^256·10^18 range assertion: outside the model, skipped by the comparator
			}
		}
	}()
	return f()
}

func b2s(b bool) string {
	if b {
		return "1"
	}
	return "0"
}

type setFn func(r *rng, n int, emit func(op string, exp string))

var kernelSets = map[string]setFn{}

func registerSet(name string, f setFn) { kernelSets[name] = f }

func main() {
	n := flag.Int("n", 2000, "cases per kernel")
	seed := flag.Uint64("seed", 1, "seed")
	which := flag.String("set", "dec,cl", "kernel sets")
	flag.Parse()
	r := &rng{s: *seed * 0x51ED27}
	w := bufio.NewWriter(os.Stdout)
	defer w.Flush()
	emit := func(op string, exp string) { fmt.Fprintf(w, "%s\t%s\n", op, exp) }
	for _, s := range strings.Split(*which, ",") {
		f, ok := kernelSets[s]
		if !ok {
			fmt.Fprintln(os.Stderr, "unknown kernel set", s)
			os.Exit(2)
		}
		f(r, *n, emit)
	}
}

func init() {
	registerSet("dec", setDec)
	registerSet("cl", setCL)
}

func setDec(r *rng, np int, emit func(op string, exp string)) {
	n := &np
	{
		type bin struct {
			name string
			f    func(a, b math.LegacyDec) math.LegacyDec
		}
		bins := []bin{
			{"mul", math.LegacyDec.Mul}, {"mulTruncate", math.LegacyDec.MulTruncate}, {"mulRoundUp", math.LegacyDec.MulRoundUp},
			{"quo", math.LegacyDec.Quo}, {"quoTruncate", math.LegacyDec.QuoTruncate}, {"quoRoundUp", math.LegacyDec.QuoRoundUp},
		}
		for i := 0; i < *n; i++ {
			for _, b := range bins {
				x, y := r.decRaw(45, true), r.decRaw(45, true)
				emit(fmt.Sprintf("D %s %s %s", b.name, x, y), guard(func() string { return rawOf(b.f(dec(x), dec(y))) }))
			}
			x := r.decRaw(45, true)
			emit(fmt.Sprintf("D ceil %s", x), guard(func() string { return rawOf(dec(x).Ceil()) }))
			emit(fmt.Sprintf("D truncateInt %s", x), guard(func() string { return dec(x).TruncateInt().String() }))
			emit(fmt.Sprintf("D roundInt %s", x), guard(func() string { return dec(x).RoundInt().String() }))
			emit(fmt.Sprintf("D string %s", x), guard(func() string { return dec(x).String() }))
			k := int64(r.n(7)) - 1
			if k == 0 {
				k = 3
			}
			emit(fmt.Sprintf("D quoInt %s %d", x, k), guard(func() string { return rawOf(dec(x).QuoInt64(k)) }))
			if i%4 == 0 {
				y := r.decRaw(22, false)
				p := uint64(r.n(40))
				emit(fmt.Sprintf("D power %s %d", y, p), guard(func() string { return rawOf(dec(y).Power(p)) }))
				z := r.decRaw(40, false)
				emit(fmt.Sprintf("D approxSqrt %s", z), guard(func() string {
					s, err := dec(z).ApproxSqrt()
					if err != nil {
						return "err"
					}
					return rawOf(s)
				}))
			}
		}
	}
}

func setCL(r *rng, np int, emit func(op string, exp string)) {
	n := &np
	{
		for i := 0; i < *n; i++ {
			// sqrt prices: positive, various magnitudes, often close together
			pa := r.decRaw(30, false)
			pb := r.decRaw(30, false)
			if r.n(3) == 0 {
				pb = new(big.Int).Add(pa, big.NewInt(int64(r.n(1000))))
			}
			liq := r.decRaw(40, r.n(4) == 0)
			amt := r.bigDigits(30)
			ru := r.n(2) == 0
			emit(fmt.Sprintf("K LiquidityBase %s %s %s", amt, pa, pb), guard(func() string {
				return rawOf(lptypes.LiquidityBase(math.NewIntFromBigInt(amt), dec(pa), dec(pb)))
			}))
			emit(fmt.Sprintf("K LiquidityQuote %s %s %s", amt, pa, pb), guard(func() string {
				return rawOf(lptypes.LiquidityQuote(math.NewIntFromBigInt(amt), dec(pa), dec(pb)))
			}))
			emit(fmt.Sprintf("K CalcAmountBaseDelta %s %s %s %s", liq, pa, pb, b2s(ru)), guard(func() string {
				return rawOf(lptypes.CalcAmountBaseDelta(dec(liq), dec(pa), dec(pb), ru))
			}))
			emit(fmt.Sprintf("K CalcAmountQuoteDelta %s %s %s %s", liq, pa, pb, b2s(ru)), guard(func() string {
				return rawOf(lptypes.CalcAmountQuoteDelta(dec(liq), dec(pa), dec(pb), ru))
			}))
			rem := r.decRaw(35, false)
			pl := r.decRaw(40, false)
			emit(fmt.Sprintf("K NextBaseIn %s %s %s", pa, pl, rem), guard(func() string {
				return rawOf(lptypes.GetNextSqrtPriceFromAmountBaseInRoundingUp(dec(pa), dec(pl), dec(rem)))
			}))
			emit(fmt.Sprintf("K NextBaseOut %s %s %s", pa, pl, rem), guard(func() string {
				return rawOf(lptypes.GetNextSqrtPriceFromAmountBaseOutRoundingUp(dec(pa), dec(pl), dec(rem)))
			}))
			emit(fmt.Sprintf("K NextQuoteIn %s %s %s", pa, pl, rem), guard(func() string {
				return rawOf(lptypes.GetNextSqrtPriceFromAmountQuoteInRoundingDown(dec(pa), dec(pl), dec(rem)))
			}))
			emit(fmt.Sprintf("K NextQuoteOut %s %s %s", pa, pl, rem), guard(func() string {
				return rawOf(lptypes.GetNextSqrtPriceFromAmountQuoteOutRoundingDown(dec(pa), dec(pl), dec(rem)))
			}))
			tk := int64(r.next())
			if r.n(3) == 0 {
				tk = int64(r.n(2001) - 1000)
			}
			emit(fmt.Sprintf("K TickIndexToBytes %d", tk), guard(func() string {
				bz := lptypes.TickIndexToBytes(tk)
				parts := []string{}
				for _, b := range bz {
					parts = append(parts, fmt.Sprint(int(b)))
				}
				return strings.Join(parts, " ")
			}))
			tc, tl := int64(r.n(41)-20), int64(r.n(41)-20)
			th := tl + int64(r.n(10))
			emit(fmt.Sprintf("K IsCurrentTickInRange %d %d %d", tc, tl, th), guard(func() string {
				return b2s(lptypes.Pool{CurrentTick: tc}.IsCurrentTickInRange(tl, th))
			}))
			// tick <-> price conversions (hand-written loops in tick.go; model Model/TickMath.lean), incl. prices exactly on and
			// one ulp around tick boundaries, which exercise the +-1 correction branches of CalculateSqrtPriceToTick
			if i%3 == 0 {
				ratios := []string{"1.0001", "1.01", "1.1", "2", "1.000001"}
				offs := []string{"0", "0.5", "0.25", "0.999"}
				tp := lptypes.TickParams{PriceRatio: ratios[r.n(len(ratios))], BaseOffset: offs[r.n(len(offs))]}
				if tp.BaseOffset != "0" && tp.BaseOffset != "0.5" && (tp.PriceRatio == "2" || tp.PriceRatio == "1.1") {
					tp.BaseOffset = "0.5"
				}
				tick := int64(r.n(4001) - 2000)
				if tp.PriceRatio == "2" {
					tick = int64(r.n(101) - 50)
				}
				rr, ro := math.LegacyMustNewDecFromStr(tp.PriceRatio), math.LegacyMustNewDecFromStr(tp.BaseOffset)
				var spRaw *big.Int
				emit(fmt.Sprintf("K TickToSqrtPrice %d %s %s", tick, rawOf(rr), rawOf(ro)), guard(func() string {
					sp, err := lptypes.TickToSqrtPrice(tick, tp)
					if err != nil {
						return "err"
					}
					spRaw = sp.BigInt()
					return rawOf(sp)
				}))
				if spRaw != nil {
					for _, d := range []int64{0, 1, -1, int64(r.n(1000000))} {
						q := new(big.Int).Add(spRaw, big.NewInt(d))
						if q.Sign() <= 0 {
							continue
						}
						emit(fmt.Sprintf("K SqrtPriceToTick %s %s %s", q, rawOf(rr), rawOf(ro)), guard(func() string {
							t, err := lptypes.CalculateSqrtPriceToTick(dec(q), tp)
							if err != nil {
								return "err"
							}
							return fmt.Sprint(t)
						}))
					}
				}
			}
			amtQ := r.bigDigits(30)
			pc := r.decRaw(30, false)
			emit(fmt.Sprintf("K GetLiquidityFromAmounts %s %s %s %s %s", pc, pa, pb, amt, amtQ), guard(func() string {
				return rawOf(lptypes.GetLiquidityFromAmounts(dec(pc), dec(pa), dec(pb), math.NewIntFromBigInt(amt), math.NewIntFromBigInt(amtQ)))
			}))
			// bucket steps: realistic: cur, target on the right side, liquidity positive, fee in [0,1)
			fee := new(big.Int).Mod(r.decRaw(18, false), prec)
			if r.n(4) == 0 {
				fee = big.NewInt(0)
			}
			if r.n(50) == 0 {
				fee = new(big.Int).Neg(big.NewInt(int64(1 + r.n(5)))) // negative fee: explicit panic path
			}
			cur := new(big.Int).Add(r.decRaw(24, false), big.NewInt(1))
			span := r.bigDigits(1 + r.n(22))
			lo := new(big.Int).Sub(cur, span)
			if lo.Sign() <= 0 {
				lo = big.NewInt(1)
			}
			hi := new(big.Int).Add(cur, span)
			lq := new(big.Int).Add(r.bigDigits(36), big.NewInt(1))
			remI := new(big.Int).Mul(r.bigDigits(20), prec) // integral remaining (first step)
			if r.n(3) == 0 {
				remI = r.decRaw(36, false) // non-integral remaining (later steps)
			}
			for _, bfq := range []bool{true, false} {
				tgt := hi
				if bfq {
					tgt = lo
				}
				if r.n(20) == 0 { // wrong-side target
					if bfq {
						tgt = hi
					} else {
						tgt = lo
					}
				}
				h := lpkeeper.New(bfq, dec(tgt), dec(fee))
				tag := "qfb"
				if bfq {
					tag = "bfq"
				}
				emit(fmt.Sprintf("K %s_OutGivenIn %s %s %s %s %s %s", tag, tgt, fee, cur, tgt, lq, remI), guard(func() string {
					a, b, c, d := h.ComputeSwapWithinBucketOutGivenIn(dec(cur), dec(tgt), dec(lq), dec(remI))
					return rawOf(a) + " " + rawOf(b) + " " + rawOf(c) + " " + rawOf(d)
				}))
				emit(fmt.Sprintf("K %s_InGivenOut %s %s %s %s %s %s", tag, tgt, fee, cur, tgt, lq, remI), guard(func() string {
					a, b, c, d := h.ComputeSwapWithinBucketInGivenOut(dec(cur), dec(tgt), dec(lq), dec(remI))
					return rawOf(a) + " " + rawOf(b) + " " + rawOf(c) + " " + rawOf(d)
				}))
				emit(fmt.Sprintf("K %s_GetSqrtTargetPrice %s %s %s", tag, tgt, fee, cur), guard(func() string {
					return rawOf(h.GetSqrtTargetPrice(dec(cur)))
				}))
				emit(fmt.Sprintf("K %s_ValidateSqrtPrice %s %s %s %s", tag, tgt, fee, pa, cur), guard(func() string {
					if h.ValidateSqrtPrice(dec(pa), dec(cur)) != nil {
						return "err"
					}
					return "ok"
				}))
				tk := int64(r.n(2000) - 1000)
				emit(fmt.Sprintf("K %s_NextTickAfterCrossing %s %s %d", tag, tgt, fee, tk), guard(func() string {
					return fmt.Sprint(h.NextTickAfterCrossing(tk))
				}))
				emit(fmt.Sprintf("K %s_GetLiquidityDeltaSign %s %s %s", tag, tgt, fee, liq), guard(func() string {
					return rawOf(h.GetLiquidityDeltaSign(dec(liq)))
				}))
			}
		}
	}
}
