package main

// Kernel set "share": cosmossdk.io/math.Dec primitives as used by x/shareclass and the four pure kernels of
// x/shareclass/types/types.go, evaluated by the real Go code. Decimals travel as `<signed coeff> <exp>`.

import (
	"fmt"
	"math/big"
	"strconv"
	"strings"

	"cosmossdk.io/math"
	sctypes "github.com/sunriselayer/sunrise/x/shareclass/types"
)

func init() { registerSet("share", setShare) }

// exact representation (signed coefficient, exponent) of a math.Dec: the 'e' format shows every digit
func d34repr(d math.Dec) string {
	s := d.Text('e')
	neg := strings.HasPrefix(s, "-")
	s = strings.TrimPrefix(s, "-")
	i := strings.IndexByte(s, 'e')
	mant, es := s[:i], s[i+1:]
	e, _ := strconv.Atoi(es)
	digits := strings.ReplaceAll(mant, ".", "")
	exp := e - (len(digits) - 1)
	c, _ := new(big.Int).SetString(digits, 10)
	if neg && c.Sign() != 0 {
		c.Neg(c)
	}
	return fmt.Sprintf("%se%d", c, exp)
}

func mkD34(c *big.Int, e int) math.Dec {
	d, err := math.NewDecFromString(fmt.Sprintf("%sE%d", c, e))
	if err != nil {
		panic(err)
	}
	return d
}

var ten = big.NewInt(10)

func pow10(k int) *big.Int { return new(big.Int).Exp(ten, big.NewInt(int64(k)), nil) }

// structured integer operands: small, log-uniform, powers of ten ±1, repeated 9s/3s/6s (carry and tie patterns)
func (r *rng) shareInt(maxDigits int) *big.Int {
	switch r.n(12) {
	case 0:
		return big.NewInt(int64(r.n(4)))
	case 1:
		return big.NewInt(int64(1 + r.n(20)))
	case 2:
		return pow10(r.n(maxDigits))
	case 3:
		return new(big.Int).Sub(pow10(1+r.n(maxDigits)), big.NewInt(1))
	case 4:
		return new(big.Int).Add(pow10(1+r.n(maxDigits)), big.NewInt(1))
	case 5:
		// d repeated
		d := byte('1' + r.n(9))
		v, _ := new(big.Int).SetString(strings.Repeat(string(d), 1+r.n(maxDigits)), 10)
		return v
	case 6:
		// k * 2^j * 5^i : exact quotients and exact halves
		v := big.NewInt(int64(1 + r.n(999)))
		v.Mul(v, new(big.Int).Exp(big.NewInt(2), big.NewInt(int64(r.n(40))), nil))
		v.Mul(v, new(big.Int).Exp(big.NewInt(5), big.NewInt(int64(r.n(20))), nil))
		return v
	default:
		d := 1 + r.n(maxDigits)
		var sb strings.Builder
		sb.WriteByte(byte('1' + r.n(9)))
		for i := 1; i < d; i++ {
			sb.WriteByte(byte('0' + r.n(10)))
		}
		v, _ := new(big.Int).SetString(sb.String(), 10)
		return v
	}
}

func (r *rng) shareDec(maxDigits int, neg bool) (*big.Int, int) {
	c := r.shareInt(maxDigits)
	if neg && r.n(6) == 0 {
		c = new(big.Int).Neg(c)
	}
	e := 0
	switch r.n(4) {
	case 0:
		e = 0
	case 1:
		e = -r.n(40)
	case 2:
		e = -r.n(80)
	default:
		e = r.n(12) - 4
	}
	return c, e
}

func intRes(v math.Int, err error) string {
	if err != nil {
		if strings.Contains(err.Error(), "non-integral") {
			return "overflow"
		}
		return "err"
	}
	return v.String()
}

func decRes(v math.Dec, err error) string {
	if err != nil {
		return "err"
	}
	return d34repr(v)
}

func setShare(r *rng, n int, emit func(op string, exp string)) {
	for i := 0; i < n; i++ {
		xc, xe := r.shareDec(50, true)
		yc, ye := r.shareDec(50, true)
		x, y := mkD34(xc, xe), mkD34(yc, ye)
		emit(fmt.Sprintf("KS quo %s %d %s %d", xc, xe, yc, ye), guard(func() string { return decRes(x.Quo(y)) }))
		emit(fmt.Sprintf("KS mul %s %d %s %d", xc, xe, yc, ye), guard(func() string { return decRes(x.Mul(y)) }))
		emit(fmt.Sprintf("KS add %s %d %s %d", xc, xe, yc, ye), guard(func() string { return decRes(x.Add(y)) }))
		emit(fmt.Sprintf("KS sub %s %d %s %d", xc, xe, yc, ye), guard(func() string { return decRes(x.Sub(y)) }))
		emit(fmt.Sprintf("KS trim %s %d", xc, xe), guard(func() string { return intRes(x.SdkIntTrim()) }))
		if xc.Sign() >= 0 {
			emit(fmt.Sprintf("KS reparse %s %d", xc, xe), guard(func() string { return decRes(math.NewDecFromString(x.String())) }))
		}
		// integer quotients (how shareclass uses Quo)
		a, b := r.shareInt(60), r.shareInt(60)
		emit(fmt.Sprintf("KS quo %s 0 %s 0", a, b), guard(func() string { return decRes(mkD34(a, 0).Quo(mkD34(b, 0))) }))

		// kernels
		maxd := 30
		if r.n(4) == 0 {
			maxd = 45
		}
		ts, tb, am := r.shareInt(maxd), r.shareInt(maxd), r.shareInt(maxd)
		if r.n(3) == 0 {
			// near 1:1 exchange rate (after a small slash)
			tb = new(big.Int).Sub(ts, big.NewInt(int64(r.n(1000))))
			if tb.Sign() < 0 {
				tb = big.NewInt(0)
			}
		}
		emit(fmt.Sprintf("KS ShareByAmount %s %s %s", ts, tb, am), guard(func() string {
			return intRes(sctypes.CalculateShareByAmount(math.NewIntFromBigInt(ts), math.NewIntFromBigInt(tb), math.NewIntFromBigInt(am)))
		}))
		emit(fmt.Sprintf("KS AmountByShare %s %s %s", ts, tb, am), guard(func() string {
			return intRes(sctypes.CalculateAmountByShare(math.NewIntFromBigInt(ts), math.NewIntFromBigInt(tb), math.NewIntFromBigInt(am)))
		}))
		// multipliers: built the way the keeper builds them (sums of reward/totalShare quotients)
		mOld := math.NewDecFromInt64(0)
		steps := r.n(4)
		for k := 0; k < steps; k++ {
			var err error
			mOld, err = sctypes.CalculateRewardMultiplierNew(mOld, math.NewIntFromBigInt(r.shareInt(25)), math.NewIntFromBigInt(new(big.Int).Add(r.shareInt(25), big.NewInt(1))))
			if err != nil {
				mOld = math.NewDecFromInt64(0)
			}
		}
		rew, tot := r.shareInt(maxd), r.shareInt(maxd)
		mo := strings.Replace(d34repr(mOld), "e", " ", 1)
		var mNew math.Dec
		var mErr error
		emit(fmt.Sprintf("KS MultNew %s %s %s", mo, rew, tot), guard(func() string {
			mNew, mErr = sctypes.CalculateRewardMultiplierNew(mOld, math.NewIntFromBigInt(rew), math.NewIntFromBigInt(tot))
			return decRes(mNew, mErr)
		}))
		if mErr == nil {
			mn := strings.Replace(d34repr(mNew), "e", " ", 1)
			sh := r.shareInt(maxd)
			emit(fmt.Sprintf("KS Reward %s %s %s", mn, mo, sh), guard(func() string {
				return intRes(sctypes.CalculateReward(mNew, mOld, math.NewIntFromBigInt(sh)))
			}))
			emit(fmt.Sprintf("KS Reward %s %s %s", mn, mn, sh), guard(func() string {
				return intRes(sctypes.CalculateReward(mNew, mNew, math.NewIntFromBigInt(sh)))
			}))
		}
	}
}
