package main

import (
	"fmt"
	authtypes "github.com/cosmos/cosmos-sdk/x/auth/types"
	"math/big"
	"sort"
	"strings"

	sdkmath "cosmossdk.io/math"
	sdk "github.com/cosmos/cosmos-sdk/types"
	lptypes "github.com/sunriselayer/sunrise/x/liquiditypool/types"

	"svh/sim"
)

func init() { register("cl", suiteCL) }

// Concentrated-liquidity suite (C02, C04, C05, C06): histories of pool creation, position changes, swaps both ways,
// claims, incentives and a final drain in random order, on the real application with real balances.
// Every state-changing op is followed by a canonical dump of the pool's stores and balances, which the Lean model
// must reproduce, and by oracle verdicts computed from the queried state only.

type clPos struct {
	id     uint64
	pool   uint64
	owner  int
	lo, hi int64
}

type clH struct {
	e          *Env
	c          *sim.Chain
	pools      []uint64
	denoms     map[uint64][2]string
	pos        []clPos
	feeIn      map[string]*big.Int // fee account inflow per pool/denom (from balance deltas)
	lastErr    string
	fp         *clForcedPos // directed script: next createPosition uses these values
	fs         string       // directed script: next swap is "tofee" (base in, lands on the next tick, pool fee on) or ""
	lastToTick bool         // the previous swap was aimed exactly at the next initialised tick
	lastDir    int
	dustDir    int                          // ≥ 0: the next swap is a dust swap in this direction
	poolMin    map[uint64]sdkmath.LegacyDec // smallest sqrt price seen in the pool: current price after every operation, tick prices of every stored tick
	spCache    map[string]sdkmath.LegacyDec
}

type clForcedPos struct {
	lo, hi int64
	ab, aq sdkmath.Int
}

func accName(i int) string { return fmt.Sprintf("a%d", i) }

func (h *clH) addrName(a string) string {
	for i, x := range h.c.Accs {
		if x.Addr.String() == a {
			return accName(i)
		}
	}
	return a
}

func decCoinsStr(dc sdk.DecCoins) string {
	parts := []string{}
	for _, c := range dc {
		parts = append(parts, c.Denom+":"+c.Amount.BigInt().String())
	}
	return "[" + strings.Join(parts, ",") + "]"
}

func coinsStr(cs sdk.Coins) string {
	if len(cs) == 0 {
		return "-"
	}
	parts := []string{}
	for _, c := range cs.Sort() {
		parts = append(parts, c.Denom+":"+c.Amount.String())
	}
	return strings.Join(parts, ",")
}

func (h *clH) allDenoms() []string {
	seen := map[string]bool{"urise": true}
	out := []string{"urise"}
	ids := append([]uint64{}, h.pools...)
	sort.Slice(ids, func(i, j int) bool { return ids[i] < ids[j] })
	for _, id := range ids {
		for _, d := range h.denoms[id] {
			if !seen[d] {
				seen[d] = true
				out = append(out, d)
			}
		}
	}
	return out
}

func (h *clH) balLine(name string, addr sdk.AccAddress) string {
	parts := []string{name}
	for _, d := range h.allDenoms() {
		parts = append(parts, d+"="+h.c.Bal(addr, d).String())
	}
	return strings.Join(parts, " ")
}

// dump prints the canonical state of one pool and runs the bookkeeping oracles on it
func (h *clH) dump(id uint64) {
	e, c := h.e, h.c
	e.In("dump %d", id)
	ctx := c.Ctx()
	k := c.App.LiquiditypoolKeeper
	p, found, _ := k.GetPool(ctx, id)
	if !found {
		e.Obs("pool %d absent", id)
		return
	}
	sp := sdkmath.LegacyMustNewDecFromStr(p.CurrentSqrtPrice)
	liq := sdkmath.LegacyMustNewDecFromStr(p.CurrentTickLiquidity)
	e.Obs("pool %d tick=%d sqrtP=%s liq=%s", id, p.CurrentTick, sp, liq)
	ticks := k.GetAllInitializedTicksForPool(ctx, id)
	h.notePrices(id, p, sp, ticks)
	for _, t := range ticks {
		e.Obs("tick %d gross=%s net=%s fg=%s", t.TickIndex, sdkmath.LegacyMustNewDecFromStr(t.LiquidityGross), sdkmath.LegacyMustNewDecFromStr(t.LiquidityNet), decCoinsStr(t.FeeGrowth))
	}
	all, _ := k.GetAllPositions(ctx)
	sumInRange := sdkmath.LegacyZeroDec()
	sumAll := sdkmath.LegacyZeroDec()
	gross := map[int64]sdkmath.LegacyDec{}
	net := map[int64]sdkmath.LegacyDec{}
	addTo := func(m map[int64]sdkmath.LegacyDec, t int64, v sdkmath.LegacyDec) {
		if cur, ok := m[t]; ok {
			m[t] = cur.Add(v)
		} else {
			m[t] = v
		}
	}
	npos := 0
	for _, q := range all {
		if q.PoolId != id {
			continue
		}
		npos++
		l := sdkmath.LegacyMustNewDecFromStr(q.Liquidity)
		e.Obs("pos %d owner=%s lo=%d hi=%d liq=%s", q.Id, h.addrName(q.Address), q.LowerTick, q.UpperTick, l)
		sumAll = sumAll.Add(l)
		if p.CurrentTick >= q.LowerTick && p.CurrentTick < q.UpperTick {
			sumInRange = sumInRange.Add(l)
		}
		addTo(gross, q.LowerTick, l)
		addTo(gross, q.UpperTick, l)
		addTo(net, q.LowerTick, l)
		addTo(net, q.UpperTick, l.Neg())
	}
	acc, err := k.GetFeeAccumulator(ctx, id)
	if err != nil {
		e.Obs("accum absent")
	} else {
		e.Obs("accum value=%s shares=%s", decCoinsStr(acc.AccumValue), sdkmath.LegacyMustNewDecFromStr(acc.TotalShares))
	}
	aps := k.GetAllAccumulatorPositions(ctx)
	type apl struct {
		id   uint64
		line string
	}
	var apls []apl
	for _, ap := range aps {
		if ap.Name != lptypes.KeyFeePoolAccumulator(id) {
			continue
		}
		var pid uint64
		fmt.Sscanf(ap.Index[strings.LastIndex(ap.Index, "|")+1:], "%d", &pid)
		apls = append(apls, apl{pid, fmt.Sprintf("accpos %d shares=%s per=%s unclaimed=%s", pid, sdkmath.LegacyMustNewDecFromStr(ap.NumShares), decCoinsStr(ap.AccumValuePerShare), decCoinsStr(ap.UnclaimedRewardsTotal))})
	}
	// the model lists accumulator positions in creation order = position id order
	sort.Slice(apls, func(i, j int) bool { return apls[i].id < apls[j].id })
	for _, a := range apls {
		e.Obs("%s", a.line)
	}
	e.Obs("%s", h.balLine(fmt.Sprintf("pool:%d", id), p.GetAddress()))
	e.Obs("%s", h.balLine(fmt.Sprintf("poolfees:%d", id), p.GetFeesAddress()))
	for i, a := range c.Accs {
		e.Obs("%s", h.balLine(accName(i), a.Addr))
	}
	// the model evaluates the executable form of the accrual invariant (CLAccrual.Inv: fees backed, checkpoints below the
	// growth inside, tick sums) on the abstraction of its state, which the lines above have just tied to the application
	e.Obs("inv ok")
	// ---- C04 oracles (from queried state only)
	if npos > 0 {
		e.Oracle("active_liquidity_eq", liq.Equal(sumInRange), "pool=%d liq=%s sum=%s", id, liq, sumInRange)
	}
	okTicks := true
	detail := ""
	seen := map[int64]bool{}
	for _, t := range ticks {
		seen[t.TickIndex] = true
		g, ok := gross[t.TickIndex]
		if !ok {
			okTicks, detail = false, fmt.Sprintf("tick %d bounds no position", t.TickIndex)
			break
		}
		if !g.Equal(sdkmath.LegacyMustNewDecFromStr(t.LiquidityGross)) || !net[t.TickIndex].Equal(sdkmath.LegacyMustNewDecFromStr(t.LiquidityNet)) {
			okTicks, detail = false, fmt.Sprintf("tick %d gross/net mismatch", t.TickIndex)
			break
		}
	}
	for t := range gross {
		if !seen[t] {
			okTicks, detail = false, fmt.Sprintf("tick %d missing", t)
		}
	}
	e.Oracle("tick_gross_net_eq", okTicks, "pool=%d %s", id, detail)
	if err == nil {
		e.Oracle("accumulator_shares_eq", sdkmath.LegacyMustNewDecFromStr(acc.TotalShares).Equal(sumAll), "pool=%d shares=%s sum=%s", id, acc.TotalShares, sumAll)
	}
	if npos > 0 {
		lo, e1 := lptypes.TickToSqrtPrice(p.CurrentTick, p.TickParams)
		hi, e2 := lptypes.TickToSqrtPrice(p.CurrentTick+1, p.TickParams)
		if e1 == nil && e2 == nil {
			e.Oracle("price_in_tick_interval", sp.GTE(lo) && sp.LTE(hi), "pool=%d tick=%d sqrtP=%s lo=%s hi=%s", id, p.CurrentTick, sp, lo, hi)
		}
	} else {
		e.Oracle("reset_is_fresh", sp.IsZero() && p.CurrentTick == 0 && liq.IsZero() && len(ticks) == 0, "pool=%d tick=%d sqrtP=%s liq=%s ticks=%d", id, p.CurrentTick, sp, liq, len(ticks))
	}
}

func (h *clH) amount(maxDigits int) sdkmath.Int {
	return sdkmath.NewIntFromBigInt(h.e.R.Big(maxDigits))
}

// amountToNextTick: the whole-unit input that moves the price exactly onto the next initialised tick (base in: downwards)
func (h *clH) amountToNextTick(id uint64, baseIn bool) (sdkmath.Int, bool) {
	ctx := h.c.Ctx()
	k := h.c.App.LiquiditypoolKeeper
	p, found, _ := k.GetPool(ctx, id)
	if !found {
		return sdkmath.Int{}, false
	}
	liq, err1 := sdkmath.LegacyNewDecFromStr(p.CurrentTickLiquidity)
	cur, err2 := sdkmath.LegacyNewDecFromStr(p.CurrentSqrtPrice)
	if err1 != nil || err2 != nil || !liq.IsPositive() || !cur.IsPositive() {
		return sdkmath.Int{}, false
	}
	var best *int64
	for _, t := range k.GetAllInitializedTicksForPool(ctx, id) {
		ti := t.TickIndex
		if baseIn && ti <= p.CurrentTick && (best == nil || ti > *best) {
			best = &ti
		}
		if !baseIn && ti > p.CurrentTick && (best == nil || ti < *best) {
			best = &ti
		}
	}
	if best == nil {
		return sdkmath.Int{}, false
	}
	var out sdkmath.Int
	ok := false
	func() {
		defer func() { recover() }()
		tp, err := lptypes.TickToSqrtPrice(*best, p.TickParams)
		if err != nil || tp.Equal(cur) {
			return
		}
		if baseIn {
			out = lptypes.CalcAmountBaseDelta(liq, tp, cur, true).TruncateInt()
		} else {
			out = lptypes.CalcAmountQuoteDelta(liq, tp, cur, true).TruncateInt()
		}
		ok = out.IsPositive()
	}()
	return out, ok
}

// minSqrtPrice: the smallest of the pool's current sqrt price and the sqrt prices of the position's two ticks
func (h *clH) minSqrtPrice(pool uint64, q clPos) sdkmath.LegacyDec {
	p, found, _ := h.c.App.LiquiditypoolKeeper.GetPool(h.c.Ctx(), pool)
	m := sdkmath.LegacyZeroDec()
	if !found {
		return m
	}
	func() {
		defer func() { recover() }()
		if cur, err := sdkmath.LegacyNewDecFromStr(p.CurrentSqrtPrice); err == nil && cur.IsPositive() {
			m = cur
		}
		for _, t := range []int64{q.lo, q.hi} {
			if sp, err := lptypes.TickToSqrtPrice(t, p.TickParams); err == nil && sp.IsPositive() && (m.IsZero() || sp.LT(m)) {
				m = sp
			}
		}
	}()
	return m
}

// notePrices keeps the smallest sqrt price the pool has seen (current price and the prices of its stored ticks)
func (h *clH) notePrices(id uint64, p lptypes.Pool, cur sdkmath.LegacyDec, ticks []lptypes.TickInfo) {
	if h.poolMin == nil {
		h.poolMin = map[uint64]sdkmath.LegacyDec{}
		h.spCache = map[string]sdkmath.LegacyDec{}
	}
	upd := func(v sdkmath.LegacyDec) {
		if !v.IsPositive() {
			return
		}
		if m, ok := h.poolMin[id]; !ok || v.LT(m) {
			h.poolMin[id] = v
		}
	}
	upd(cur)
	for _, t := range ticks {
		key := fmt.Sprintf("%d/%d", id, t.TickIndex)
		v, ok := h.spCache[key]
		if !ok {
			func() {
				defer func() { recover() }()
				if x, err := lptypes.TickToSqrtPrice(t.TickIndex, p.TickParams); err == nil {
					v = x
				}
			}()
			if v.IsNil() {
				v = sdkmath.LegacyZeroDec()
			}
			h.spCache[key] = v
		}
		upd(v)
	}
}

func (h *clH) curTick(id uint64) int64 {
	p, _, _ := h.c.App.LiquiditypoolKeeper.GetPool(h.c.Ctx(), id)
	return p.CurrentTick
}

func (h *clH) livePositions(pool uint64) []clPos {
	ctx := h.c.Ctx()
	out := []clPos{}
	for _, q := range h.pos {
		if q.pool != pool {
			continue
		}
		if _, found, _ := h.c.App.LiquiditypoolKeeper.GetPosition(ctx, q.id); found {
			out = append(out, q)
		}
	}
	return out
}

func suiteCL(e *Env) {
	if e.Replay != "" {
		clReplay(e, e.Replay)
		return
	}
	feeRates := []string{"0", "0.003", "0.01", "0.3", "0.000000000000000001"}
	ratios := []string{"1.0001", "1.01", "1.1", "2"}
	offsets := []string{"0", "0.5", "0.3", "0.999"}
	for hi := 0; hi < e.N; hi++ {
		c, err := sim.New(sim.DefaultConfig())
		if err != nil {
			e.Obs("setup-error %v", err)
			return
		}
		h := &clH{e: e, c: c, denoms: map[uint64][2]string{}, feeIn: map[string]*big.Int{}, dustDir: -1}
		var sb strings.Builder
		for i, a := range c.Accs {
			fmt.Fprintf(&sb, " a%d=uaaa:%s,ubbb:%s,uccc:%s,urise:%s", i, c.Bal(a.Addr, "uaaa"), c.Bal(a.Addr, "ubbb"), c.Bal(a.Addr, "uccc"), c.Bal(a.Addr, "urise"))
		}
		e.In("reset%s", sb.String())
		npools := 1 + e.R.N(2)
		for pi := 0; pi < npools; pi++ {
			fee, ratio, off := feeRates[e.R.N(len(feeRates))], ratios[e.R.N(len(ratios))], offsets[e.R.N(len(offsets))]
			scripted := hi%6 == 0 && pi == 0
			if scripted {
				fee, ratio, off = "0.01", "1.0001", "0.5"
			}
			if !scripted && e.R.N(12) == 0 {
				// invalid parameters (rejected since MsgCreatePool validates them)
				switch e.R.N(4) {
				case 0:
					ratio = e.R.Pick("1", "0.5", "0", "-2")
				case 1:
					fee = e.R.Pick("1", "-0.1", "1.5")
				case 2:
					off = e.R.Pick("1", "-0.5", "7")
				}
			}
			if (off == "0.3" || off == "0.999") && (ratio == "2" || ratio == "1.1") {
				// (1+x)^0.3 by the unmetered PowApprox series needs ~10^6 iterations per tick conversion for x = 1:
				// slow but terminating; exercised by the C01 check, kept out of the bulk histories
				off = "0.5"
			}
			base, quote := "uaaa", "ubbb"
			if pi == 1 {
				base, quote = "ubbb", "uccc"
			}
			e.In("createPool a0 %s %s %s %s %s", base, quote, fee, ratio, off)
			resp, err, p := c.Exec(&lptypes.MsgCreatePool{Authority: c.Accs[0].Addr.String(), DenomBase: base, DenomQuote: quote, FeeRate: fee, PriceRatio: ratio, BaseOffset: off})
			if cls := class(err, p); cls != "ok" {
				e.Obs("%s", cls)
				continue
			}
			id := resp.(*lptypes.MsgCreatePoolResponse).Id
			e.Obs("ok id=%d", id)
			h.pools = append(h.pools, id)
			h.denoms[id] = [2]string{base, quote}
		}
		if len(h.pools) == 0 {
			continue
		}
		if hi%6 == 0 {
			h.tickLandingScript(h.pools[0])
		}
		nops := 14 + e.R.N(18)
		if e.Tier == "thorough" {
			nops = 20 + e.R.N(60)
		}
		for op := 0; op < nops; op++ {
			h.step()
		}
		h.drain()
	}
}

func (h *clH) createPosition(pool uint64) {
	e, c := h.e, h.c
	d := h.denoms[pool]
	who := e.R.N(len(c.Accs))
	cur := h.curTick(pool)
	width := []int64{1, 2, 5, 20, 100, 500}[e.R.N(6)]
	var lo, hi int64
	switch e.R.N(6) {
	case 0: // above the current tick
		lo = cur + 1 + int64(e.R.N(50))
		hi = lo + width
	case 1: // below
		hi = cur - int64(e.R.N(50))
		lo = hi - width
	case 2: // share an endpoint with an existing position
		if len(h.pos) > 0 {
			q := h.pos[e.R.N(len(h.pos))]
			lo, hi = q.hi, q.hi+width
			if e.R.Bool() {
				lo, hi = q.lo-width, q.lo
			}
			break
		}
		fallthrough
	default: // around the current tick
		lo = cur - int64(e.R.N(int(width))) - int64(e.R.N(2))
		hi = cur + 1 + int64(e.R.N(int(width)))
		// boundary cases of the half-open range test and of the initial fee growth of a new tick
		switch e.R.N(8) {
		case 0:
			lo = cur // lower tick exactly on the cursor: in range, fresh tick starts with the global growth
		case 1:
			hi = cur + 1 // upper tick just above the cursor
		case 2:
			hi, lo = cur, cur-width // upper tick exactly on the cursor: out of range (above)
		}
	}
	if e.R.N(25) == 0 {
		lo, hi = hi, lo // invalid order
	}
	ab, aq := h.amount(20), h.amount(20)
	if e.R.N(6) == 0 {
		// deep liquidity (18-decimals tokens): a remainder of a few units then no longer moves the 18-digit sqrt price
		d := 22 + e.R.N(6)
		ab, aq = sdkmath.NewIntFromBigInt(new(big.Int).Exp(big.NewInt(10), big.NewInt(int64(d)), nil)).MulRaw(int64(1+e.R.N(9))), sdkmath.NewIntFromBigInt(new(big.Int).Exp(big.NewInt(10), big.NewInt(int64(d)), nil)).MulRaw(int64(1+e.R.N(9)))
		e.Stat("position.deep")
	}
	if e.R.N(10) == 0 {
		ab = sdkmath.ZeroInt()
	}
	if e.R.N(10) == 0 {
		aq = sdkmath.ZeroInt()
	}
	minB, minQ := sdkmath.ZeroInt(), sdkmath.ZeroInt()
	if e.R.N(12) == 0 {
		minB = ab // often unreachable
	}
	if h.fp != nil {
		lo, hi, ab, aq, minB = h.fp.lo, h.fp.hi, h.fp.ab, h.fp.aq, sdkmath.ZeroInt()
		h.fp = nil
	}
	e.In("createPosition %s %d %d %d %s %s %s %s %s %s", accName(who), pool, lo, hi, d[0], ab, d[1], aq, minB, minQ)
	resp, err, p := c.Exec(&lptypes.MsgCreatePosition{Sender: c.Accs[who].Addr.String(), PoolId: pool, LowerTick: lo, UpperTick: hi,
		TokenBase: sdk.NewCoin(d[0], ab), TokenQuote: sdk.NewCoin(d[1], aq), MinAmountBase: minB, MinAmountQuote: minQ})
	cls := class(err, p)
	h.undoIf(cls)
	e.Stat("createPosition." + cls)
	e.Oracle("no_panic", cls != "panic", "createPosition")
	if cls != "ok" {
		e.Obs("%s", cls)
		return
	}
	r := resp.(*lptypes.MsgCreatePositionResponse)
	e.Obs("ok id=%d base=%s quote=%s liq=%s", r.Id, r.AmountBase, r.AmountQuote, sdkmath.LegacyMustNewDecFromStr(r.Liquidity))
	h.pos = append(h.pos, clPos{r.Id, pool, who, lo, hi})
	// a position earns nothing from what happened before it existed: its claimable fees right after creation are empty
	e.In("claimable %d", r.Id)
	var cf sdk.Coins
	cerr, cp := c.Call(func(ctx sdk.Context) error {
		var err error
		cf, err = c.App.LiquiditypoolKeeper.GetClaimableFees(ctx, r.Id)
		return err
	})
	if ccls := class(cerr, cp); ccls == "ok" {
		e.Obs("ok fees=%s", coinsStr(cf))
		e.Oracle("fresh_position_claims_nothing", cf.IsZero(), "position %d claimable=%s right after creation", r.Id, coinsStr(cf))
	} else {
		e.Obs("%s", ccls)
	}
	if !(r.AmountBase.LTE(ab) && r.AmountQuote.LTE(aq)) {
		e.Stat("deposit_above_desired") // observed: rounding up can charge desired+1; not part of any listed property
	}
}

// tickLandingScript: two nested deep positions, then a base-in swap with the pool fee whose net part reaches the inner
// position's lower tick exactly (the few units left are consumed by a zero-progress step AFTER the crossing), then dust swaps
// on the pool resting on the crossed tick.  Every bookkeeping convention around a crossing is visible in the dumps.
func (h *clH) tickLandingScript(pool uint64) {
	e := h.e
	deep := func() sdkmath.Int {
		return sdkmath.NewIntFromBigInt(new(big.Int).Exp(big.NewInt(10), big.NewInt(int64(22+e.R.N(4))), nil)).MulRaw(int64(1 + e.R.N(9)))
	}
	w := int64(5 + e.R.N(20))
	a := deep()
	h.fp = &clForcedPos{-w, w, a, a}
	h.createPosition(pool)
	h.dump(pool)
	b := deep()
	h.fp = &clForcedPos{-5 * w, 5 * w, b, b}
	h.createPosition(pool)
	h.dump(pool)
	h.fs = "tofee"
	h.swap(pool)
	h.dump(pool)
	// the price now rests exactly on the crossed tick t (cursor t−1): a position whose UPPER bound is t is in range by the
	// cursor while its base amount is zero (and one with LOWER bound t is out of range) — "in range" is decided by the tick,
	// not by which amounts the deposit takes
	if pl, found, _ := h.c.App.LiquiditypoolKeeper.GetPool(h.c.Ctx(), pool); found && h.lastToTick {
		c := deep()
		h.fp = &clForcedPos{pl.CurrentTick - 3*w, pl.CurrentTick + 1, c, c}
		h.createPosition(pool)
		h.dump(pool)
		h.fp = &clForcedPos{pl.CurrentTick + 1, pl.CurrentTick + 1 + 2*w, c, c}
		h.createPosition(pool)
		h.dump(pool)
		e.Stat("script.position_bounded_by_resting_tick")
	}
	for k := 0; k < 2; k++ {
		h.dustDir = 0
		h.swap(pool)
		h.dustDir = -1
		h.dump(pool)
	}
	e.Stat("script.tick_landing")
}

func (h *clH) poolLiq(pool uint64) sdkmath.LegacyDec {
	p, _, _ := h.c.App.LiquiditypoolKeeper.GetPool(h.c.Ctx(), pool)
	return sdkmath.LegacyMustNewDecFromStr(p.CurrentTickLiquidity)
}

func (h *clH) swap(pool uint64) {
	e, c := h.e, h.c
	d := h.denoms[pool]
	who := e.R.N(len(c.Accs))
	dir := e.R.N(2)
	fe := e.R.N(5) > 0
	amt := h.amount(1 + e.R.N(22))
	dust := h.dustDir >= 0
	if dust {
		dir, fe, amt = h.dustDir, e.R.N(4) > 0, sdkmath.NewInt(int64(1+e.R.N(3)))
		e.Stat("swap.dust_after_tick")
	}
	din, dout := d[dir], d[1-dir]
	k := c.App.LiquiditypoolKeeper
	forced := h.fs == "tofee"
	if forced {
		dir, din, dout = 0, d[0], d[1]
		h.fs = ""
	}
	h.lastToTick, h.lastDir = false, dir
	if !dust && (forced || e.R.N(4) == 0) {
		// land exactly on the next initialised tick in the direction of the trade (no fee): the step reaches its target with
		// nothing left, so the crossing conventions (cursor t-1 / t, ±net) are what the next operation sees
		if a, ok := h.amountToNextTick(pool, dir == 0); ok {
			amt, fe = a, false
			if !forced && e.R.N(3) == 0 {
				amt = amt.AddRaw(int64(e.R.N(3)) - 1) // one unit short of / beyond the tick
			}
			if forced || e.R.N(2) == 0 {
				// with the pool fee: the gross amount whose net part just reaches the tick; the few units left over are consumed
				// by a zero-progress step AFTER the crossing
				if pl, found, _ := k.GetPool(c.Ctx(), pool); found {
					if fr, err := sdkmath.LegacyNewDecFromStr(pl.FeeRate); err == nil && fr.IsPositive() && fr.LT(sdkmath.LegacyOneDec()) {
						amt = sdkmath.LegacyNewDecFromInt(a).Quo(sdkmath.LegacyOneDec().Sub(fr)).Ceil().TruncateInt().AddRaw(int64(e.R.N(3)))
						fe = true
						e.Stat("swap.to_next_tick_with_fee")
					}
				}
			}
			e.Stat("swap.to_next_tick")
			h.lastToTick = true
		}
	}
	feB := "0"
	if fe {
		feB = "1"
	}
	sender := c.Accs[who].Addr
	if e.R.N(3) > 0 {
		// quote on the pre-state, then execute: response must equal the quote
		e.In("quoteIn %d %s %s %s %s", pool, din, amt, dout, feB)
		var q sdkmath.Int
		qerr, qp := c.Call(func(ctx sdk.Context) error {
			p, _, _ := k.GetPool(ctx, pool)
			var err error
			q, err = k.CalculateResultExactAmountIn(ctx, p, sdk.NewCoin(din, amt), dout, fe)
			return err
		})
		qcls := class(qerr, qp)
		if qcls == "ok" {
			e.Obs("ok out=%s", q)
		} else {
			e.Obs("%s", qcls)
		}
		exact, exactSteps := exactSwapExactIn(c.Ctx(), k, pool, dir == 0, amt, fe)
		preIn, preOut := c.Bal(sender, din), c.Bal(sender, dout)
		e.In("swapIn %s %d %s %s %s %s", accName(who), pool, din, amt, dout, feB)
		var out sdkmath.Int
		err, p := c.Call(func(ctx sdk.Context) error {
			pl, _, _ := k.GetPool(ctx, pool)
			var err error
			out, err = k.SwapExactAmountIn(ctx, sender, pl, sdk.NewCoin(din, amt), dout, fe)
			return err
		})
		cls := class(err, p)
		if cls == "err" && qcls == "ok" {
			e.Note("swapIn refused after a successful quote: %v", err)
		}
		h.undoIf(cls)
		e.Stat("swapIn." + cls)
		e.Oracle("no_panic", cls != "panic", "swapIn %s", strings.ReplaceAll(lastPanic, "\n", " "))
		if cls == "ok" {
			e.Obs("ok out=%s", out)
			dIn, dOut := preIn.Sub(c.Bal(sender, din)), c.Bal(sender, dout).Sub(preOut)
			e.Oracle("swap_in_debit_le_stated", dIn.LTE(amt) && dIn.IsPositive(), "stated=%s debited=%s", amt, dIn)
			e.Oracle("swap_out_eq_response", dOut.Equal(out), "resp=%s credited=%s", out, dOut)
			e.Oracle("quote_eq_execute", qcls == "ok" && q.Equal(out), "quote=%s(%s) out=%s", q, qcls, out)
			if exact != nil {
				// never better than the exact curve (rounded up to a whole unit), and within a stated bound of it:
				// one unit per step for the truncations plus one for the final TruncateInt
				ce := ratCeilInt(exact)
				e.Oracle("out_le_exact_curve", out.BigInt().Cmp(ce) <= 0, "out=%s exact=%s steps=%d", out, exact.FloatString(6), exactSteps)
				e.Stat("exact_reference_compared")
			}
			// trade back what was received: must not return more than was put in (no fee: still ≤)
			if e.R.N(2) == 0 && out.IsPositive() {
				pre := c.Bal(sender, din)
				e.In("swapIn %s %d %s %s %s %s", accName(who), pool, dout, out, din, feB)
				var back sdkmath.Int
				err, p := c.Call(func(ctx sdk.Context) error {
					pl, _, _ := k.GetPool(ctx, pool)
					var err error
					back, err = k.SwapExactAmountIn(ctx, sender, pl, sdk.NewCoin(dout, out), din, fe)
					return err
				})
				cls := class(err, p)
				h.undoIf(cls)
				h.undoIf(cls)
				e.Oracle("no_panic", cls != "panic", "swapIn-back")
				if cls == "ok" {
					e.Obs("ok out=%s", back)
					got := c.Bal(sender, din).Sub(pre)
					e.Oracle("roundtrip_no_profit", got.LTE(dIn), "in=%s back=%s", dIn, got)
				} else {
					e.Obs("%s", cls)
				}
			}
		} else {
			e.Obs("%s", cls)
		}
	} else {
		e.In("quoteOut %d %s %s %s %s", pool, dout, amt, din, feB)
		var q sdkmath.Int
		qerr, qp := c.Call(func(ctx sdk.Context) error {
			p, _, _ := k.GetPool(ctx, pool)
			var err error
			q, err = k.CalculateResultExactAmountOut(ctx, p, sdk.NewCoin(dout, amt), din, fe)
			return err
		})
		qcls := class(qerr, qp)
		if qcls == "ok" {
			e.Obs("ok in=%s", q)
		} else {
			e.Obs("%s", qcls)
		}
		exactIn, exactSteps := exactSwapExactOut(c.Ctx(), k, pool, dir == 0, amt, fe)
		preIn, preOut := c.Bal(sender, din), c.Bal(sender, dout)
		e.In("swapOut %s %d %s %s %s %s", accName(who), pool, dout, amt, din, feB)
		var in sdkmath.Int
		err, p := c.Call(func(ctx sdk.Context) error {
			pl, _, _ := k.GetPool(ctx, pool)
			var err error
			in, err = k.SwapExactAmountOut(ctx, sender, pl, sdk.NewCoin(dout, amt), din, fe)
			return err
		})
		cls := class(err, p)
		h.undoIf(cls)
		e.Stat("swapOut." + cls)
		e.Oracle("no_panic", cls != "panic", "swapOut")
		if cls == "ok" {
			e.Obs("ok in=%s", in)
			dIn, dOut := preIn.Sub(c.Bal(sender, din)), c.Bal(sender, dout).Sub(preOut)
			e.Oracle("swap_in_eq_response", dIn.Equal(in), "resp=%s debited=%s", in, dIn)
			e.Oracle("swap_out_le_stated", dOut.LTE(amt) && dOut.IsPositive(), "stated=%s credited=%s", amt, dOut)
			e.Oracle("quote_eq_execute", qcls == "ok" && q.Equal(in), "quote=%s(%s) in=%s", q, qcls, in)
			if exactIn != nil && dOut.Equal(amt) {
				// the input charged is at least the exact amount (rounded down to a whole unit)
				e.Oracle("in_ge_exact_curve", in.BigInt().Cmp(ratFloorInt(exactIn)) >= 0 && (exactIn.IsInt() || in.BigInt().Cmp(ratCeilInt(exactIn)) >= 0),
					"in=%s exact=%s steps=%d", in, exactIn.FloatString(6), exactSteps)
				e.Stat("exact_reference_compared_out")
			}
		} else {
			e.Obs("%s", cls)
		}
	}
}

func (h *clH) decrease(q clPos, who int, full bool) string {
	e, c := h.e, h.c
	pos, found, _ := c.App.LiquiditypoolKeeper.GetPosition(c.Ctx(), q.id)
	liq := sdkmath.LegacyZeroDec()
	if found {
		liq = sdkmath.LegacyMustNewDecFromStr(pos.Liquidity)
	}
	amt := liq
	if !full {
		switch e.R.N(5) {
		case 4:
			// leave a dust residue: the withdrawal of the residue later pays nothing but must still clean up the ticks
			dust := sdkmath.LegacyNewDecWithPrec(int64(1+e.R.N(999)), int64(6+e.R.N(13)))
			if liq.GT(dust) {
				amt = liq.Sub(dust)
				e.Stat("decrease.to_dust")
			}
		case 0:
			amt = liq.QuoInt64(2)
		case 1:
			amt = liq.Add(sdkmath.LegacySmallestDec()) // more than owned
		case 2:
			amt = sdkmath.LegacyNewDecFromBigIntWithPrec(e.R.Big(30), 18)
		}
		if e.R.N(12) == 0 {
			// malformed stream: a negative (or zero) amount of liquidity to withdraw
			amt = amt.Neg()
			if e.R.N(3) == 0 {
				amt = sdkmath.LegacyZeroDec()
			}
		}
	}
	pre := h.snapshot()
	e.In("decrease %s %d %s", accName(who), q.id, amt)
	resp, err, p := c.Exec(&lptypes.MsgDecreaseLiquidity{Sender: c.Accs[who].Addr.String(), Id: q.id, Liquidity: amt.String()})
	cls := class(err, p)
	h.lastErr = ""
	if err != nil {
		h.lastErr = err.Error()
	}
	h.undoIf(cls)
	e.Stat("decrease." + cls)
	e.Oracle("no_panic", cls != "panic", "decrease")
	if cls == "ok" {
		r := resp.(*lptypes.MsgDecreaseLiquidityResponse)
		e.Obs("ok base=%s quote=%s", r.AmountBase, r.AmountQuote)
	} else {
		e.Obs("%s", cls)
	}
	if who != q.owner {
		e.Oracle("owner_only", cls == "err" && pre == h.snapshot(), "decrease by a%d of position %d owned by a%d: %s", who, q.id, q.owner, cls)
	}
	return cls
}

// undoIf: after a LegacyDec range-assertion panic the model (unbounded) may have changed state; tell it to roll back
func (h *clH) undoIf(cls string) {
	if cls == "overflow" {
		h.e.In("undo")
		h.e.Stat("overflow")
	}
}

func (h *clH) snapshot() string {
	var sb strings.Builder
	for i, a := range h.c.Accs {
		sb.WriteString(h.balLine(accName(i), a.Addr))
	}
	return sb.String()
}

func (h *clH) claim(q clPos, who int, twice bool) {
	e, c := h.e, h.c
	pre := h.snapshot()
	e.In("claim %s %d", accName(who), q.id)
	resp, err, p := c.Exec(&lptypes.MsgClaimRewards{Sender: c.Accs[who].Addr.String(), PositionIds: []uint64{q.id}})
	cls := class(err, p)
	h.undoIf(cls)
	e.Stat("claim." + cls)
	e.Oracle("no_panic", cls != "panic", "claim")
	if cls == "ok" {
		e.Obs("ok fees=%s", coinsStr(resp.(*lptypes.MsgClaimRewardsResponse).CollectedFees))
	} else {
		e.Obs("%s", cls)
	}
	if who != q.owner {
		e.Oracle("owner_only", cls == "err" && pre == h.snapshot(), "claim by a%d of position %d owned by a%d: %s", who, q.id, q.owner, cls)
		return
	}
	if _, found, _ := c.App.LiquiditypoolKeeper.GetPosition(c.Ctx(), q.id); found {
		e.Oracle("claim_succeeds", cls == "ok", "owner claim of live position %d: %s", q.id, cls)
	}
	if twice && cls == "ok" {
		e.In("claim %s %d", accName(who), q.id)
		resp, err, p := c.Exec(&lptypes.MsgClaimRewards{Sender: c.Accs[who].Addr.String(), PositionIds: []uint64{q.id}})
		cls2 := class(err, p)
		h.undoIf(cls2)
		if cls2 == "ok" {
			f := resp.(*lptypes.MsgClaimRewardsResponse).CollectedFees
			e.Obs("ok fees=%s", coinsStr(f))
			e.Oracle("second_claim_zero", f.IsZero(), "position %d second claim %s", q.id, coinsStr(f))
		} else {
			e.Obs("%s", cls2)
		}
	}
}

func (h *clH) step() {
	e, c := h.e, h.c
	pool := h.pools[e.R.N(len(h.pools))]
	live := h.livePositions(pool)
	r := e.R.N(100)
	switch {
	case len(live) == 0 || r < 22:
		h.createPosition(pool)
	case r < 55:
		h.swap(pool)
		if h.lastToTick && e.R.N(2) == 0 {
			// a dust-sized swap in the same direction on a pool resting exactly on a crossed tick (zero-progress step)
			h.dustDir = h.lastDir
			h.swap(pool)
			h.dustDir = -1
		}
	case r < 67:
		q := live[e.R.N(len(live))]
		who := q.owner
		if e.R.N(6) == 0 {
			who = (q.owner + 1) % len(c.Accs)
		}
		h.decrease(q, who, e.R.N(3) == 0)
	case r < 77:
		q := live[e.R.N(len(live))]
		who := q.owner
		if e.R.N(6) == 0 {
			who = (q.owner + 1) % len(c.Accs)
		}
		h.claim(q, who, e.R.N(2) == 0)
	case r < 87:
		q := live[e.R.N(len(live))]
		who := q.owner
		if e.R.N(8) == 0 {
			who = (q.owner + 1) % len(c.Accs)
		}
		ab, aq := h.amount(18), h.amount(18)
		e.In("increase %s %d %s %s 0 0", accName(who), q.id, ab, aq)
		resp, err, p := c.Exec(&lptypes.MsgIncreaseLiquidity{Sender: c.Accs[who].Addr.String(), Id: q.id, AmountBase: ab, AmountQuote: aq, MinAmountBase: sdkmath.ZeroInt(), MinAmountQuote: sdkmath.ZeroInt()})
		cls := class(err, p)
		h.undoIf(cls)
		e.Stat("increase." + cls)
		e.Oracle("no_panic", cls != "panic", "increase")
		if cls == "ok" {
			rr := resp.(*lptypes.MsgIncreaseLiquidityResponse)
			e.Obs("ok id=%d base=%s quote=%s", rr.PositionId, rr.AmountBase, rr.AmountQuote)
			h.pos = append(h.pos, clPos{rr.PositionId, pool, who, q.lo, q.hi})
		} else {
			e.Obs("%s", cls)
		}
	default:
		d := h.denoms[pool]
		who := e.R.N(len(c.Accs))
		coins := sdk.NewCoins(sdk.NewCoin(e.R.Pick(d[0], d[1], "urise"), h.amount(16)))
		sender, senderName := c.Accs[who].Addr, accName(who)
		call := c.Call
		if e.R.N(5) == 0 {
			// the only caller on the chain, x/liquidityincentive's begin-blocker, has no cache context and only logs a failure:
			// whatever a failing allocation wrote stays.  Sender without funds, state kept on failure.
			sender, senderName = authtypes.NewModuleAddress("svh-unfunded"), "nobody"
			call = c.CallKeep
			e.Stat("incentive.unfunded_kept")
		}
		e.In("incentive %d %s %s", pool, senderName, coinsStr(coins))
		err, p := call(func(ctx sdk.Context) error {
			return c.App.LiquiditypoolKeeper.AllocateIncentive(ctx, pool, sender, coins)
		})
		cls := class(err, p)
		h.undoIf(cls)
		e.Stat("incentive." + cls)
		if cls == "ok" {
			e.Obs("ok ")
		} else {
			e.Obs("%s", cls)
		}
	}
	h.dump(pool)
}

// drain: every owner withdraws everything and claims, in random order; then the pool must be empty and reset
func (h *clH) drain() {
	e := h.e
	for _, pool := range h.pools {
		live := h.livePositions(pool)
		// random permutation
		for i := len(live) - 1; i > 0; i-- {
			j := e.R.N(i + 1)
			live[i], live[j] = live[j], live[i]
		}
		for _, q := range live {
			if e.R.Bool() {
				h.claim(q, q.owner, false)
			}
			minP := h.minSqrtPrice(pool, q)
			if m, ok := h.poolMin[pool]; ok && m.IsPositive() && (minP.IsZero() || m.LT(minP)) {
				minP = m // the pool's balance is what ALL its positions and swaps left behind: the smallest price it ever saw counts
			}
			cls := h.decrease(q, q.owner, true)
			// class of a failing exit: `low_price_rounding` = the pool account is short of the computed amount and the
			// sqrt prices involved are below 1e-9, where the fixed-point evaluation of the base formula loses whole coins
			fc := ""
			if cls != "ok" {
				fc = "class=other"
				if strings.Contains(h.lastErr, "insufficient funds") && minP.IsPositive() && minP.LT(sdkmath.LegacyNewDecWithPrec(1, 9)) {
					fc = "class=low_price_rounding"
				}
			}
			e.Oracle("drain_succeeds", cls == "ok", "%s full withdrawal of position %d in pool %d: %s min_sqrt_price=%s %s", fc, q.id, pool, cls, minP, h.lastErr)
		}
		h.dump(pool)
	}
}
