package main

// C13 (transfer ban, dynamic part): every message kind that can move a user's coins to another account is attempted on
// the real application with the bond token (uvrise), with a non-voting share token, and — as a positive control that the
// attempt itself is well-formed — with a transferable denom.  Oracle: banned denom ⇒ rejected and nobody's balance of that
// denom changed; control denom ⇒ accepted.

import (
	"fmt"
	"strings"
	"time"

	accountsv1 "cosmossdk.io/x/accounts/v1"
	"cosmossdk.io/x/authz"
	sdkmath "cosmossdk.io/math"
	banktypes "cosmossdk.io/x/bank/types"
	codectypes "github.com/cosmos/cosmos-sdk/codec/types"
	sdk "github.com/cosmos/cosmos-sdk/types"
	authtypes "github.com/cosmos/cosmos-sdk/x/auth/types"
	transfertypes "github.com/cosmos/ibc-go/v9/modules/apps/transfer/types"
	clienttypes "github.com/cosmos/ibc-go/v9/modules/core/02-client/types"
	channeltypes "github.com/cosmos/ibc-go/v9/modules/core/04-channel/types"

	nvlock "github.com/sunriselayer/sunrise/x/accounts/non_voting_delegatable_lockup"
	nvlockv1 "github.com/sunriselayer/sunrise/x/accounts/non_voting_delegatable_lockup/v1"
	lptypes "github.com/sunriselayer/sunrise/x/liquiditypool/types"
	sctypes "github.com/sunriselayer/sunrise/x/shareclass/types"
	swaptypes "github.com/sunriselayer/sunrise/x/swap/types"

	"svh/sim"
)

func init() { register("ban", suiteBan) }

func suiteBan(e *Env) {
	e.R = NewRng(e.Seed*1000003 + 4242)
	for h := 0; h < e.N; h++ {
		if !banHistory(e, h) {
			return
		}
	}
}

func banHistory(e *Env, h int) bool {
	r := e.R
	c, err := sim.New(sim.DefaultConfig())
	if err != nil {
		e.Obs("setup-error %v", err)
		return false
	}
	must := func(what string, msg sdk.Msg) bool {
		_, err, p := c.Exec(msg)
		if err != nil || p != nil {
			e.Obs("setup-error %s: %v %v", what, err, p)
			return false
		}
		return true
	}
	A := func(i int) string { return c.Accs[i].Addr.String() }
	valAddr := c.Vals[0].Oper.String()
	// a share token for a1
	if !must("nonvoting delegate", &sctypes.MsgNonVotingDelegate{Sender: A(1), ValidatorAddress: valAddr, Amount: sdk.NewInt64Coin("urise", 5_000_000)}) {
		return false
	}
	share := sctypes.NonVotingShareTokenDenom(valAddr)
	if !c.Bal(c.Accs[1].Addr, share).IsPositive() {
		e.Obs("setup-error no share tokens minted")
		return false
	}
	// IBC localhost channel transfer/channel-0 <-> transfer/channel-1
	hops := []string{"connection-localhost"}
	ph := clienttypes.NewHeight(1, uint64(c.Height))
	ibcOK := must("chanOpenInit", channeltypes.NewMsgChannelOpenInit("transfer", "ics20-1", channeltypes.UNORDERED, hops, "transfer", A(0))) &&
		must("chanOpenTry", channeltypes.NewMsgChannelOpenTry("transfer", "ics20-1", channeltypes.UNORDERED, hops, "transfer", "channel-0", "ics20-1", []byte{0x01}, ph, A(0))) &&
		must("chanOpenAck", channeltypes.NewMsgChannelOpenAck("transfer", "channel-0", "channel-1", "ics20-1", []byte{0x01}, ph, A(0))) &&
		must("chanOpenConfirm", channeltypes.NewMsgChannelOpenConfirm("transfer", "channel-1", []byte{0x01}, ph, A(0)))
	if !ibcOK {
		return false
	}
	// pools: 0 = control (uaaa/ubbb) with liquidity, 1 = uvrise/urise, 2 = share/urise, 3 = urise/uvrise (banned denom as quote)
	mkPool := func(base, quote string) bool {
		return must("create pool "+base+"/"+quote, &lptypes.MsgCreatePool{Authority: authtypes.NewModuleAddress("gov").String(), DenomBase: base, DenomQuote: quote,
			FeeRate: "0.01", PriceRatio: "1.0001", BaseOffset: "0.5"})
	}
	if !(mkPool("uaaa", "ubbb") && mkPool("uvrise", "urise") && mkPool(share, "urise") && mkPool("urise", "uvrise")) {
		return false
	}
	position := func(i int, pool uint64, base, quote string, amt int64) sdk.Msg {
		return &lptypes.MsgCreatePosition{Sender: A(i), PoolId: pool, LowerTick: -4155, UpperTick: 4054,
			TokenBase: sdk.NewInt64Coin(base, amt), TokenQuote: sdk.NewInt64Coin(quote, amt), MinAmountBase: sdkmath.ZeroInt(), MinAmountQuote: sdkmath.ZeroInt()}
	}
	if !must("control liquidity", position(0, 0, "uaaa", "ubbb", 1_000_000_000)) {
		return false
	}
	if _, err := c.NextBlock(6e9); err != nil {
		e.Oracle("no_halt", false, "%v", err)
		return false
	}
	// authz: a2 may send on behalf of a1 and a0
	for _, g := range []int{0, 1} {
		auth := banktypes.NewSendAuthorization(sdk.NewCoins(sdk.NewInt64Coin("uvrise", 1e9), sdk.NewInt64Coin("uaaa", 1e9), sdk.NewInt64Coin(share, 1e9)), nil, c.App.AuthKeeper.AddressCodec())
		exp := c.Time.Add(24 * time.Hour)
		gm, err := authz.NewMsgGrant(A(g), A(2), auth, &exp)
		if err != nil || !must("authz grant", gm) {
			e.Obs("setup-error authz %v", err)
			return false
		}
	}
	// a lockup account owned by a1 (funded with transferable coins); its address comes from the account_creation event
	lockAddr := ""
	{
		im, _ := codectypes.NewAnyWithValue(&nvlockv1.MsgInitNonVotingDelegatableLockupAccount{Owner: A(1), StartTime: c.Time.Add(-time.Hour), EndTime: c.Time.Add(time.Minute)})
		resp, err, p := c.Exec(&accountsv1.MsgInit{Sender: A(1), AccountType: nvlock.CONTINUOUS_LOCKING_ACCOUNT, Message: im, Funds: sdk.NewCoins(sdk.NewInt64Coin("uaaa", 5_000_000))})
		if err != nil || p != nil {
			e.Obs("setup-error lockup init: %v %v", err, p)
			return false
		}
		if r, ok := resp.(*accountsv1.MsgInitResponse); ok {
			lockAddr = r.AccountAddress
		}
		if lockAddr == "" {
			e.Obs("setup-error lockup address unknown (%T)", resp)
			return false
		}
	}
	lockAcc, _ := sdk.AccAddressFromBech32(lockAddr)
	pools := []string{}
	for id := uint64(0); id < 4; id++ {
		p, found, _ := c.App.LiquiditypoolKeeper.GetPool(c.Ctx(), id)
		if found {
			pools = append(pools, p.GetAddress().String(), p.GetFeesAddress().String())
		}
	}
	watch := []sdk.AccAddress{}
	for _, a := range c.Accs {
		watch = append(watch, a.Addr)
	}
	for _, p := range pools {
		a, _ := sdk.AccAddressFromBech32(p)
		watch = append(watch, a)
	}
	watch = append(watch, authtypes.NewModuleAddress("transfer"), transfertypes.GetEscrowAddress("transfer", "channel-0"), lockAcc)
	snap := func(d string) string {
		s := ""
		for _, a := range watch {
			s += c.Bal(a, d).String() + ","
		}
		return s
	}
	type attempt struct {
		kind string
		mk   func(from int, denom string, amt int64) sdk.Msg
	}
	attempts := []attempt{
		{"send", func(f int, d string, a int64) sdk.Msg {
			return &banktypes.MsgSend{FromAddress: A(f), ToAddress: A(3), Amount: sdk.NewCoins(sdk.NewInt64Coin(d, a))}
		}},
		{"multisend", func(f int, d string, a int64) sdk.Msg {
			return &banktypes.MsgMultiSend{Inputs: []banktypes.Input{{Address: A(f), Coins: sdk.NewCoins(sdk.NewInt64Coin(d, a))}},
				Outputs: []banktypes.Output{{Address: A(3), Coins: sdk.NewCoins(sdk.NewInt64Coin(d, a-a/2))}, {Address: A(2), Coins: sdk.NewCoins(sdk.NewInt64Coin(d, a/2))}}}
		}},
		{"authz_exec_send", func(f int, d string, a int64) sdk.Msg {
			inner := &banktypes.MsgSend{FromAddress: A(f), ToAddress: A(3), Amount: sdk.NewCoins(sdk.NewInt64Coin(d, a))}
			any, _ := codectypes.NewAnyWithValue(inner)
			return &authz.MsgExec{Grantee: A(2), Msgs: []*codectypes.Any{any}}
		}},
		{"ibc_transfer", func(f int, d string, a int64) sdk.Msg {
			return transfertypes.NewMsgTransfer("transfer", "channel-0", sdk.NewCoins(sdk.NewInt64Coin(d, a)), A(f), A(3), clienttypes.ZeroHeight(),
				uint64(c.Time.Add(time.Hour).UnixNano()), "", nil)
		}},
		{"pool_deposit_base", func(f int, d string, a int64) sdk.Msg {
			switch d {
			case "uvrise":
				return position(f, 1, "uvrise", "urise", a)
			case "uaaa":
				return position(f, 0, "uaaa", "ubbb", a)
			}
			return position(f, 2, d, "urise", a)
		}},
		{"pool_deposit_quote", func(f int, d string, a int64) sdk.Msg {
			switch d {
			case "uvrise":
				return position(f, 3, "urise", "uvrise", a)
			case "uaaa":
				return &lptypes.MsgCreatePosition{Sender: A(f), PoolId: 0, LowerTick: -4155, UpperTick: 4054, TokenBase: sdk.NewInt64Coin("uaaa", a),
					TokenQuote: sdk.NewInt64Coin("ubbb", a), MinAmountBase: sdkmath.ZeroInt(), MinAmountQuote: sdkmath.ZeroInt()}
			}
			return nil
		}},
		{"account_init_funds", func(f int, d string, a int64) sdk.Msg {
			// funding a NEW lockup account owned by somebody else (a3) moves the coins out of the sender's control
			im, _ := codectypes.NewAnyWithValue(&nvlockv1.MsgInitNonVotingDelegatableLockupAccount{Owner: A(3), StartTime: c.Time.Add(-time.Hour), EndTime: c.Time.Add(time.Minute)})
			return &accountsv1.MsgInit{Sender: A(f), AccountType: nvlock.CONTINUOUS_LOCKING_ACCOUNT, Message: im, Funds: sdk.NewCoins(sdk.NewInt64Coin(d, a))}
		}},
		{"lockup_send", func(f int, d string, a int64) sdk.Msg {
			// the lockup account (owner a1) sends what it holds; for the banned denoms it holds nothing transferable, the
			// attempt must fail either way and move nothing
			sm, _ := codectypes.NewAnyWithValue(&nvlockv1.MsgSend{Sender: A(1), ToAddress: A(3), Amount: sdk.NewCoins(sdk.NewInt64Coin(d, a))})
			return &accountsv1.MsgExecute{Sender: A(1), Target: lockAddr, Message: sm}
		}},
		{"swap_in", func(f int, d string, a int64) sdk.Msg {
			pool, out := uint64(1), "urise"
			switch d {
			case "uaaa":
				pool, out = 0, "ubbb"
			case "uvrise":
			default:
				pool = 2
			}
			return &swaptypes.MsgSwapExactAmountIn{Sender: A(f), InterfaceProvider: A(3), Route: swaptypes.Route{DenomIn: d, DenomOut: out,
				Strategy: &swaptypes.Route_Pool{Pool: &swaptypes.RoutePool{PoolId: pool}}}, AmountIn: sdkmath.NewInt(a), MinAmountOut: sdkmath.OneInt()}
		}},
		// routes that touch no pool (no pool-side send check runs): from a denom to itself through a series / a parallel
		// without members; the interface fee would still be sent from the sender to the provider.  Invalid for EVERY denom.
		{"swap_nopool_series_in", func(f int, d string, a int64) sdk.Msg {
			return &swaptypes.MsgSwapExactAmountIn{Sender: A(f), InterfaceProvider: A(3), Route: swaptypes.Route{DenomIn: d, DenomOut: d,
				Strategy: &swaptypes.Route_Series{Series: &swaptypes.RouteSeries{}}}, AmountIn: sdkmath.NewInt(a), MinAmountOut: sdkmath.OneInt()}
		}},
		{"swap_nopool_series_out", func(f int, d string, a int64) sdk.Msg {
			return &swaptypes.MsgSwapExactAmountOut{Sender: A(f), InterfaceProvider: A(3), Route: swaptypes.Route{DenomIn: d, DenomOut: d,
				Strategy: &swaptypes.Route_Series{Series: &swaptypes.RouteSeries{}}}, AmountOut: sdkmath.NewInt(a), MaxAmountIn: sdkmath.NewInt(2 * a)}
		}},
		{"swap_nopool_parallel_in", func(f int, d string, a int64) sdk.Msg {
			return &swaptypes.MsgSwapExactAmountIn{Sender: A(f), InterfaceProvider: A(3), Route: swaptypes.Route{DenomIn: d, DenomOut: d,
				Strategy: &swaptypes.Route_Parallel{Parallel: &swaptypes.RouteParallel{}}}, AmountIn: sdkmath.NewInt(a), MinAmountOut: sdkmath.OneInt()}
		}},
	}
	for _, at := range attempts {
		for _, d := range []string{"uvrise", share, "uaaa"} {
			from := 1
			if d == "uvrise" && r.Bool() {
				from = 0
			}
			amt := int64(1000 + r.N(100000))
			if r.N(4) == 0 {
				amt = 1 + int64(r.N(3))
				if at.kind == "multisend" {
					amt = 2
				}
			}
			if at.kind == "swap_in" || at.kind == "pool_deposit_base" || at.kind == "pool_deposit_quote" {
				amt += 100000
			}
			msg := at.mk(from, d, amt)
			if msg == nil {
				continue
			}
			pre := snap(d)
			_, err, p := c.Exec(msg)
			cls := class(err, p)
			post := snap(d)
			dn := d
			if d == share {
				dn = "share"
			}
			e.In("attempt kind=%s denom=%s from=a%d amt=%d", at.kind, dn, from, amt)
			e.Obs("%s", cls)
			e.Stat(fmt.Sprintf("%s.%s.%s", at.kind, dn, cls))
			e.Oracle("no_panic", cls != "panic", "kind=%s denom=%s", at.kind, dn)
			if strings.HasPrefix(at.kind, "swap_nopool") {
				e.Oracle("ban_"+at.kind, cls == "err" && pre == post, "denom=%s from=a%d amt=%d cls=%s", dn, from, amt, cls)
			} else if d == "uaaa" {
				e.Oracle("control_accepted", cls == "ok" && pre != post, "kind=%s amt=%d err=%v", at.kind, amt, err)
			} else {
				e.Oracle("ban_"+at.kind, cls == "err" && pre == post, "denom=%s from=a%d amt=%d cls=%s", dn, from, amt, cls)
			}
		}
	}
	if _, err := c.NextBlock(6e9); err != nil {
		e.Oracle("no_halt", false, "%v", err)
		return false
	}
	return true
}
