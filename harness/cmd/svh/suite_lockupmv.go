// Suite "lockupmv": GENERATED multi-validator histories of the lockup accounts (C12), in the multi-validator trace format of
// suite_lockup.go (`lkNewHistMV`): validators are named v0, v1, … in the order of their operator address strings,
// nvDelegate / nvUndelegate name their validator, the observation line carries one share balance per validator and the
// account's share-class unbondings.  The Lean suite `lockupmv` (lean/Driver/LockupMV.lean over Model/LockupMV.lean) reproduces it.
//
// What the generator aims at: delegations to several validators, undelegations from several validators — also several in ONE
// block for the same and for different validators (the account merges entries of one validator with equal creation height and
// completion time) —, and block times at and around the completion instants of the pending share-class unbondings, including
// the part of the completion's Unix second that lies BEFORE the completion (the share-class end-blocker must skip such an
// entry, not fail the block).  Block times are therefore NOT passed through `safeTime` here.
package main

import (
	"strconv"
	"strings"
	"time"

	sdkmath "cosmossdk.io/math"
	sctypes "github.com/sunriselayer/sunrise/x/shareclass/types"
)

func init() { register("lockupmv", suiteLockupMV) }

type lkMVGen struct {
	h         *lkHist
	queue     []string        // validators to undelegate from next (burst inside one block)
	delegated map[string]bool // validators that received a successful delegation
	undel     map[string]bool // validators with a successful undelegation
	recorded  []time.Time     // completion times of the successful undelegations (= the account's unbond entries)
}

func (g *lkMVGen) shareBal(name string) sdkmath.Int {
	return g.h.bal("lock", sctypes.NonVotingShareTokenDenom(g.h.vaddr[name]))
}

func (g *lkMVGen) pending() []sctypes.Unbonding {
	if g.h.lock == nil {
		return nil
	}
	us, _ := g.h.c.App.ShareclassKeeper.GetUnbondingsByAddress(g.h.c.Ctx(), g.h.lock)
	return us
}

// some recorded unbonding has matured (the end-blocker has paid it back: block time ≥ completion)
func (g *lkMVGen) matured() bool {
	for _, t := range g.recorded {
		if !t.After(g.h.c.Time) {
			return true
		}
	}
	return false
}

func (g *lkMVGen) randVal(r *Rng) string { return g.h.vnames[r.N(len(g.h.vnames))] }

// callers as in lkHist.genOp: mostly the owner, sometimes a plain non-owner or a spoofing pair
func (g *lkMVGen) callers(r *Rng) (string, string) {
	h := g.h
	caller, sender := h.owner, h.owner
	switch r.N(14) {
	case 0:
		caller, sender = "a1", "a1"
	case 1:
		other := "a1"
		if h.owner == "a1" {
			other = "a2"
		}
		caller, sender = other, h.owner
	case 2:
		caller, sender = h.owner, "a1"
	}
	return caller, sender
}

func (g *lkMVGen) undelegateOp(r *Rng, name string) []string {
	caller, sender := g.callers(r)
	amt := strconv.Itoa(1 + r.N(50))
	if sh := g.shareBal(name); sh.IsPositive() {
		switch r.N(8) {
		case 0:
			amt = sh.AddRaw(int64(r.N(3)) - 1).String() // balance-1, balance, balance+1
		case 1:
			amt = sdkmath.NewInt(1 + int64(r.N(int(min64(sh.Int64(), 20))))).String()
		default:
			amt = sdkmath.NewInt(1 + int64(r.N(int(min64(sh.Int64(), 1<<40))))).String()
			if r.N(2) == 0 {
				// leave something for the following undelegations
				amt = sdkmath.NewInt(1 + int64(r.N(int(min64(sh.QuoRaw(3).Int64()+1, 1<<40))))).String()
			}
		}
	} else if r.N(6) == 0 {
		amt = strconv.Itoa(r.N(3) - 1)
	}
	return []string{"nvUndelegate", caller, sender, name, r.Pick("urise", "urise", "urise", "urise", "urise", "urise", "urise", "uvrise"), amt}
}

// early = first part of a history: short steps only and no aiming at the completions, so that delegations and undelegations to
// several validators accumulate before the first unbonding matures (from then on Send / Delegate of the account are refused)
func (g *lkMVGen) blockOp(r *Rng, early bool) []string {
	h := g.h
	dt := []time.Duration{time.Nanosecond, 300 * time.Millisecond, time.Second, time.Second, 5 * time.Second, 5 * time.Second, 21 * time.Second}[r.N(7)]
	if early {
		dt = []time.Duration{time.Nanosecond, 300 * time.Millisecond, 700 * time.Millisecond, time.Second, time.Second, 1700 * time.Millisecond, 5 * time.Second}[r.N(7)]
	}
	t := h.c.Time.Add(dt)
	us := g.pending()
	if early && r.N(8) > 0 {
		us = nil
	}
	switch k := r.N(10); {
	case k < 6 && len(us) > 0:
		// aim at the completion of a pending share-class unbonding of the account
		ct := us[r.N(len(us))].CompletionTime
		if r.N(3) > 0 {
			ct = us[0].CompletionTime
		}
		switch r.N(7) {
		case 0:
			t = ct.Add(-time.Nanosecond)
		case 1:
			t = ct
		case 2:
			t = ct.Add(time.Nanosecond)
		case 3, 4:
			t = ct.Truncate(time.Second) // inside [floor_second(completion), completion) unless the completion is a whole second
			if r.N(3) == 0 && ct.After(t) {
				t = t.Add(time.Duration(r.N(int(ct.Sub(t)))))
			}
		case 5:
			t = ct.Add(time.Second)
		default:
			t = ct.Add(-time.Second)
		}
	case k == 5:
		// the schedule's instants
		if s := time.Unix(0, h.startNs.Int64()); s.After(h.c.Time) {
			t = s.Add(time.Duration(r.N(3)-1) * time.Nanosecond)
		} else if s := time.Unix(0, h.endNs.Int64()); s.After(h.c.Time) && r.N(3) == 0 {
			t = s.Add(time.Duration(r.N(3)-1) * time.Nanosecond)
		}
	}
	if !t.After(h.c.Time) {
		t = h.c.Time.Add(time.Nanosecond)
	}
	return []string{"block", strconv.FormatInt(t.UnixNano(), 10)}
}

func (g *lkMVGen) genOp(r *Rng, early bool) []string {
	h := g.h
	if len(g.queue) > 0 {
		name := g.queue[0]
		g.queue = g.queue[1:]
		return g.undelegateOp(r, name)
	}
	reuse := 35
	if h.variant != "nv" {
		reuse = 80 // the self-delegatable account has no per-validator handler: mostly the single-validator activity
	}
	if r.N(100) < reuse {
		op := h.genOp(r)
		switch op[0] {
		case "block":
			return g.blockOp(r, early) // genOp's block times avoid the completion second (safeTime)
		case "nvDelegate", "nvUndelegate":
			if op[3] == "1" {
				op[3] = g.randVal(r)
				if op[0] == "nvUndelegate" && r.N(3) > 0 {
					// genOp sized the amount by the share balance of the validator used last
					for _, n := range h.vnames {
						if h.vaddr[n] == h.val {
							op[3] = n
						}
					}
				}
			} else {
				op[3] = "bad"
			}
		}
		return op
	}
	caller, sender := g.callers(r)
	k := r.N(100)
	if h.variant == "nv" && !g.matured() && r.N(10) < 6 {
		// spread the stake first: the owner delegates a good part of the balance to a validator the account holds no shares of
		var without []string
		for _, n := range h.vnames {
			if !g.shareBal(n).IsPositive() {
				without = append(without, n)
			}
		}
		if bal := h.bal("lock", "urise"); len(without)*2 > len(h.vnames) && bal.GTE(sdkmath.NewInt(8)) {
			amt := bal.QuoRaw(int64(2 + r.N(3))).AddRaw(int64(r.N(5)))
			return []string{"nvDelegate", h.owner, h.owner, without[r.N(len(without))], "urise", amt.String()}
		}
	}
	switch {
	case k < 24:
		name := g.randVal(r)
		if r.N(12) == 0 {
			name = r.Pick("bad", "v9", "1")
		}
		amt := h.amount(r)
		if r.N(4) == 0 {
			amt = strconv.Itoa(1 + r.N(30))
		}
		return []string{"nvDelegate", caller, sender, name, r.Pick("urise", "urise", "urise", "urise", "urise", "urise", "urise", "uvrise"), amt}
	case k < 50:
		var with, without []string
		for _, n := range h.vnames {
			if g.shareBal(n).IsPositive() {
				with = append(with, n)
			} else {
				without = append(without, n)
			}
		}
		name := g.randVal(r)
		if len(with) > 0 && r.N(8) > 0 {
			name = with[r.N(len(with))]
		} else if len(without) > 0 && r.N(2) == 0 {
			name = without[r.N(len(without))] // a validator the account holds no shares of
		}
		if r.N(20) == 0 {
			name = "bad"
		}
		// several undelegations in the same block: the same validator again and / or other ones
		if len(with) > 0 && r.N(5) < 3 {
			for n := 1 + r.N(3); n > 0; n-- {
				if r.N(2) == 0 {
					g.queue = append(g.queue, name)
				} else {
					g.queue = append(g.queue, with[r.N(len(with))])
				}
			}
		}
		return g.undelegateOp(r, name)
	case k < 62:
		to := r.Pick("a1", "a2")
		amt := strconv.Itoa(1 + r.N(40))
		switch r.N(4) {
		case 0:
			if in := h.info(); in.ok {
				amt = lkInt(in.spend).AddRaw(int64(r.N(3)) - 1).String()
			}
		case 1:
			amt = h.bal("lock", "urise").AddRaw(int64(r.N(3)) - 1).String()
		case 2:
			amt = h.amount(r)
		}
		dn := "urise"
		if r.N(12) == 0 {
			dn = r.Pick("share", "share/v1", "share/"+g.randVal(r), "uvrise")
		}
		return []string{"send", caller, sender, to, dn, amt}
	case k < 68:
		return []string{"deposit", r.Pick("a1", "a2"), "lock", "urise", strconv.Itoa(1 + r.N(400))}
	default:
		return g.blockOp(r, early)
	}
}

func lkMVPowers(n int) []int64 {
	if n <= 2 {
		return []int64{100, 80}
	}
	return []int64{100, 80, 60}
}

func suiteLockupMV(e *Env) {
	if e.Replay != "" {
		lkReplay(e, func(reset []string) (*lkHist, error) {
			n := 3
			for _, t := range reset {
				if v, ok := strings.CutPrefix(t, "vals="); ok {
					n = len(strings.Split(v, ","))
				}
			}
			return lkNewHistMV(e, lkMVPowers(n))
		})
		return
	}
	e.R = NewRng(e.Seed*0x9E3779B1 + 1234567)
	r := e.R
	nops := 40
	if e.Tier == "thorough" {
		nops = 60
	}
	for i := 0; i < e.N; i++ {
		nv := 3
		if r.N(4) == 0 {
			nv = 2
		}
		h, err := lkNewHistMV(e, lkMVPowers(nv))
		if err != nil {
			e.Obs("setup-error %v", err)
			return
		}
		g := &lkMVGen{h: h, delegated: map[string]bool{}, undel: map[string]bool{}}
		// init
		variant := "nv"
		if r.N(100) >= 85 {
			variant = "sd"
		}
		owner := "a0"
		if r.N(6) == 0 {
			owner = "a2"
		}
		lo := int64(1000)
		for k := r.N(8); k > 0; k-- {
			lo *= 10
		}
		funds := lo + int64(r.N(int(min64(9*lo, 1<<40))))
		if funds > 10_000_000_000 {
			funds = 10_000_000_000
		}
		now := h.c.Time
		start := now.Add(time.Duration(r.N(30)-10) * time.Second).Add(time.Duration(r.N(4)) * 250 * time.Millisecond)
		end := start.Add(time.Duration(20+r.N(181)) * time.Second).Add(time.Duration(r.N(3)) * 333 * time.Millisecond)
		ss := strconv.FormatInt(start.UnixNano(), 10)
		if r.N(6) == 0 {
			ss = "zero"
		}
		h.exec([]string{"init", variant, "a1", owner, strconv.FormatInt(funds, 10), ss, strconv.FormatInt(end.UnixNano(), 10)})
		if !h.created {
			h.exec([]string{"init", variant, "a1", "a0", strconv.Itoa(1000 + r.N(1000000)),
				strconv.FormatInt(now.Add(5*time.Second).UnixNano(), 10), strconv.FormatInt(now.Add(65*time.Second).UnixNano(), 10)})
		}
		if !h.created {
			continue
		}
		e.Stat("lockupmv.histories")
		e.Stat("lockupmv.validators_" + strconv.Itoa(nv))
		sendAfterPayback := false
		windowHit := false
		for k := 0; k < nops && h.c.Halted == ""; k++ {
			op := g.genOp(r, k < nops*2/5)
			inWindow := false
			if op[0] == "block" {
				t := time.Unix(0, lkInt(op[1]).Int64()).UTC()
				for _, u := range g.pending() {
					ct := u.CompletionTime
					if !t.Before(ct.Truncate(time.Second)) && t.Before(ct) {
						inWindow = true
					}
				}
			}
			matured := g.matured()
			h.exec(op)
			ownerOp := len(op) > 2 && op[1] == h.owner && op[2] == h.owner
			switch op[0] {
			case "block":
				if inWindow {
					e.Stat("lockupmv.block_in_second_window")
					if h.lastCls == "ok" {
						windowHit = true
					}
				}
			case "nvDelegate":
				if h.lastCls == "ok" {
					g.delegated[op[3]] = true
				} else if matured && ownerOp && h.variant == "nv" && h.lastCls == "err" {
					e.Stat("lockupmv.blocked_after_maturity")
				}
			case "nvUndelegate":
				if h.lastCls == "ok" {
					g.undel[op[3]] = true
					g.recorded = append(g.recorded, h.c.Time.Add(lkUT))
					if matured {
						e.Stat("lockupmv.undelegate_ok_after_maturity")
					}
				}
			case "send":
				if h.lastCls == "ok" && matured {
					sendAfterPayback = true
					e.Stat("lockupmv.send_ok_after_payback")
				} else if matured && ownerOp && h.lastCls == "err" {
					e.Stat("lockupmv.blocked_after_maturity")
				}
			}
		}
		_ = sendAfterPayback
		if len(g.delegated) >= 2 {
			e.Stat("lockupmv.vals_used_2plus")
		}
		if len(g.undel) >= 2 {
			e.Stat("lockupmv.undelegated_2plus")
		}
		if windowHit {
			e.Stat("lockupmv.histories_with_window_block")
		}
		if g.matured() {
			e.Stat("lockupmv.histories_with_matured_unbonding")
		}
		if h.c.Halted != "" {
			e.Stat("lockupmv.halted")
		}
	}
}
