package main

// C18 — fees.  Three ways into the real fee decorator, one trace format:
//   via=direct : feeante.DeductFeeDecorator.AnteHandle on a branch of committed state with the app's real keepers
//                (auth, bank, feegrant, fee); every exec mode and header height, arbitrary fee coin sets
//   via=checktx: the real BaseApp.CheckTx (whole ante chain of app/ante.go, signed tx, node min-gas-prices)
//   via=block  : the real FinalizeBlock (signed tx delivered in a block)
// plus Keeper.Burn through a direct keeper call.  Oracles evaluate the property on balances/supply only.

import (
	"context"
	"encoding/json"
	"fmt"
	"math/big"
	"sort"
	"strings"

	"cosmossdk.io/x/feegrant"
	sdkmath "cosmossdk.io/math"
	banktypes "cosmossdk.io/x/bank/types"
	txsigning "cosmossdk.io/x/tx/signing"
	abci "github.com/cometbft/cometbft/abci/types"
	"github.com/cosmos/cosmos-sdk/baseapp"
	codectypes "github.com/cosmos/cosmos-sdk/codec/types"
	sdk "github.com/cosmos/cosmos-sdk/types"
	"github.com/cosmos/cosmos-sdk/types/tx/signing"
	authsign "github.com/cosmos/cosmos-sdk/x/auth/signing"
	authtypes "github.com/cosmos/cosmos-sdk/x/auth/types"
	"google.golang.org/protobuf/types/known/anypb"

	feeante "github.com/sunriselayer/sunrise/x/fee/ante"
	feetypes "github.com/sunriselayer/sunrise/x/fee/types"

	"svh/sim"
)

func init() { register("fee", suiteFee) }

var feeDenoms = []string{"uaaa", "ubbb", "urise", "uvrise", "uzzz"}

type feeWorld struct {
	e         *Env
	c         *sim.Chain
	feeDenom  string
	bypass    []string
	burnRatio sdkmath.LegacyDec
	collector sdk.AccAddress
	feeMod    sdk.AccAddress
	grants    map[[2]int]bool // (granter, grantee) unlimited allowance
	minGas    sdk.DecCoins    // node config currently in force for CheckTx
}

func (w *feeWorld) names() []string {
	n := []string{}
	for i := range w.c.Accs {
		n = append(n, fmt.Sprintf("a%d", i))
	}
	return append(n, "module:fee_collector", "module:fee")
}

func (w *feeWorld) addr(name string) sdk.AccAddress {
	switch name {
	case "module:fee_collector":
		return w.collector
	case "module:fee":
		return w.feeMod
	}
	var i int
	fmt.Sscanf(name, "a%d", &i)
	return w.c.Accs[i].Addr
}

// balances of every named account in every tracked denom + supplies, read from ctx
type feeSnap struct {
	bal map[string]map[string]sdkmath.Int
	sup map[string]sdkmath.Int
}

func (w *feeWorld) snap(ctx sdk.Context) feeSnap {
	s := feeSnap{bal: map[string]map[string]sdkmath.Int{}, sup: map[string]sdkmath.Int{}}
	for _, n := range w.names() {
		s.bal[n] = map[string]sdkmath.Int{}
		for _, d := range feeDenoms {
			s.bal[n][d] = w.c.App.BankKeeper.GetBalance(ctx, w.addr(n), d).Amount
		}
	}
	for _, d := range feeDenoms {
		s.sup[d] = w.c.App.BankKeeper.GetSupply(ctx, d).Amount
	}
	return s
}

func (s feeSnap) String() string {
	var sb strings.Builder
	names := []string{}
	for n := range s.bal {
		names = append(names, n)
	}
	sort.Strings(names)
	for _, n := range names {
		fmt.Fprintf(&sb, "%s=", n)
		for i, d := range feeDenoms {
			if i > 0 {
				sb.WriteByte(',')
			}
			fmt.Fprintf(&sb, "%s", s.bal[n][d])
		}
		sb.WriteByte(' ')
	}
	sb.WriteString("supply=")
	for i, d := range feeDenoms {
		if i > 0 {
			sb.WriteByte(',')
		}
		fmt.Fprintf(&sb, "%s", s.sup[d])
	}
	return sb.String()
}

func (s feeSnap) equal(t feeSnap) bool { return s.String() == t.String() }

func feeCoinsStr(cs sdk.Coins) string {
	if len(cs) == 0 {
		return "-"
	}
	p := []string{}
	for _, c := range cs {
		p = append(p, fmt.Sprintf("%s:%s", c.Denom, c.Amount))
	}
	return strings.Join(p, ",")
}

func feeDecCoinsStr(cs sdk.DecCoins) string {
	if len(cs) == 0 {
		return "-"
	}
	p := []string{}
	for _, c := range cs {
		p = append(p, fmt.Sprintf("%s:%s", c.Denom, c.Amount.BigInt()))
	}
	return strings.Join(p, ",")
}

func (w *feeWorld) reset(ctx sdk.Context) {
	by := strings.Join(w.bypass, ",")
	if by == "" {
		by = "-"
	}
	w.e.In("reset feeDenom=%s bypass=%s burnRatio=%s denoms=%s %s", w.feeDenom, by, w.burnRatio.BigInt(), strings.Join(feeDenoms, ","), w.snap(ctx))
}

// a fee coin set as a user could write it into a tx (possibly not a valid sdk.Coins)
func (w *feeWorld) genFee(payer int, wellFormed bool, gas uint64, mg sdk.DecCoins) sdk.Coins {
	r := w.e.R
	if r.N(5) < 2 {
		// aimed at the admission boundary: one allowed denom, amount around ⌈price·gas⌉
		allowed := append([]string{w.feeDenom}, w.bypass...)
		d := allowed[r.N(len(allowed))]
		if d == "stake" {
			d = w.feeDenom
		}
		if len(mg) > 0 && r.N(3) == 0 {
			d = mg[r.N(len(mg))].Denom
		}
		req := mg.AmountOf(d).MulInt64(int64(gas)).Ceil().TruncateInt()
		a := req.AddRaw(int64(r.N(3)) - 1)
		if r.N(4) == 0 {
			a = req.MulRaw(2).AddRaw(7)
		}
		if a.IsNegative() {
			a = sdkmath.ZeroInt()
		}
		return sdk.Coins{{Denom: d, Amount: a}}
	}
	amt := func(d string) sdkmath.Int {
		switch r.N(8) {
		case 0:
			return sdkmath.ZeroInt()
		case 1:
			return w.c.Bal(w.c.Accs[payer].Addr, d).AddRaw(int64(r.N(3)) - 1) // around the balance
		case 2:
			if !wellFormed {
				return sdkmath.NewInt(-int64(r.N(5)) - 1)
			}
			return sdkmath.NewInt(int64(r.N(5)))
		case 3, 4:
			return sdkmath.NewInt(int64(r.N(3000))) // around typical required fees
		default:
			return sdkmath.NewIntFromBigInt(r.Big(10))
		}
	}
	pick := func() string {
		switch r.N(6) {
		case 0, 1, 2:
			return w.feeDenom
		case 3:
			if len(w.bypass) > 0 {
				return w.bypass[r.N(len(w.bypass))]
			}
		}
		return feeDenoms[r.N(len(feeDenoms))]
	}
	var cs sdk.Coins
	switch r.N(10) {
	case 0:
		return sdk.Coins{}
	case 1, 2: // several
		n := 2 + r.N(2)
		for i := 0; i < n; i++ {
			d := pick()
			cs = append(cs, sdk.Coin{Denom: d, Amount: amt(d)})
		}
		if wellFormed || r.N(3) > 0 {
			// sorted, unique denoms
			sort.Slice(cs, func(i, j int) bool { return cs[i].Denom < cs[j].Denom })
			out := sdk.Coins{}
			for i, c := range cs {
				if i == 0 || c.Denom != cs[i-1].Denom {
					out = append(out, c)
				}
			}
			cs = out
		}
	default:
		d := pick()
		cs = sdk.Coins{{Denom: d, Amount: amt(d)}}
	}
	return cs
}

func (w *feeWorld) genMinGas() sdk.DecCoins {
	r := w.e.R
	price := func() sdkmath.LegacyDec {
		switch r.N(5) {
		case 0:
			return sdkmath.LegacyNewDecWithPrec(25, 3)
		case 1:
			return sdkmath.LegacyNewDecWithPrec(1, 18)
		case 2:
			return sdkmath.LegacyNewDecWithPrec(int64(1+r.N(999999)), 9)
		case 3:
			return sdkmath.LegacyNewDec(int64(1 + r.N(3)))
		default:
			return sdkmath.LegacyNewDecWithPrec(int64(1+r.N(99)), 4)
		}
	}
	switch r.N(5) {
	case 0:
		return sdk.NewDecCoins()
	case 1:
		o := feeDenoms[r.N(2)]
		if o == w.feeDenom {
			o = "uvrise"
		}
		return sdk.NewDecCoins(sdk.NewDecCoinFromDec(w.feeDenom, price()), sdk.NewDecCoinFromDec(o, price()))
	case 2:
		return sdk.NewDecCoins(sdk.NewDecCoinFromDec(feeDenoms[r.N(len(feeDenoms))], price()))
	default:
		return sdk.NewDecCoins(sdk.NewDecCoinFromDec(w.feeDenom, price()))
	}
}

func (w *feeWorld) genGas() uint64 {
	switch w.e.R.N(8) {
	case 0:
		return 0
	case 1:
		return 1
	case 2:
		return uint64(1 + w.e.R.N(1000))
	default:
		return uint64(200000 + w.e.R.N(800000))
	}
}

// build a tx; signed when sign is true (signers: payer and, if different, nobody else: fee payer = first signer)
func (w *feeWorld) buildTx(ctx sdk.Context, payer int, granter int, fee sdk.Coins, gas uint64, sign bool, seqOff uint64) (sdk.Tx, []byte, error) {
	_ = abci.CHECK_TX_TYPE_CHECK
	c := w.c
	txc := c.App.TxConfig()
	b := txc.NewTxBuilder()
	from := c.Accs[payer].Addr.String()
	msg := &banktypes.MsgSend{FromAddress: from, ToAddress: from, Amount: sdk.NewCoins(sdk.NewInt64Coin("uccc", 1))}
	if err := b.SetMsgs(msg); err != nil {
		return nil, nil, err
	}
	b.SetFeeAmount(fee)
	b.SetGasLimit(gas)
	if granter >= 0 {
		b.SetFeeGranter(c.Accs[granter].Addr)
	}
	if !sign {
		return b.GetTx(), nil, nil
	}
	acc := c.App.AuthKeeper.GetAccount(ctx, c.Accs[payer].Addr)
	priv := c.Accs[payer].Priv
	seq := acc.GetSequence() + seqOff
	mode := txc.SignModeHandler().DefaultMode()
	sig := signing.SignatureV2{PubKey: priv.PubKey(), Data: &signing.SingleSignatureData{SignMode: mode}, Sequence: seq}
	if err := b.SetSignatures(sig); err != nil {
		return nil, nil, err
	}
	anyPk, err := codectypes.NewAnyWithValue(priv.PubKey())
	if err != nil {
		return nil, nil, err
	}
	sd := txsigning.SignerData{Address: from, ChainID: sim.ChainID, AccountNumber: acc.GetAccountNumber(), Sequence: seq,
		PubKey: &anypb.Any{TypeUrl: anyPk.TypeUrl, Value: anyPk.Value}}
	bz, err := authsign.GetSignBytesAdapter(context.Background(), txc.SignModeHandler(), mode, sd, b.GetTx())
	if err != nil {
		return nil, nil, err
	}
	sg, err := priv.Sign(bz)
	if err != nil {
		return nil, nil, err
	}
	sig.Data.(*signing.SingleSignatureData).Signature = sg
	if err := b.SetSignatures(sig); err != nil {
		return nil, nil, err
	}
	raw, err := txc.TxEncoder()(b.GetTx())
	return b.GetTx(), raw, err
}

// a FeeTx whose fee set is exactly what the generator chose (the SDK's tx wrapper normalises the declared fee:
// zero coins dropped, duplicates merged, sorted) — used on the direct path only
type rawFeeTx struct {
	sdk.FeeTx
	fee sdk.Coins
}

func (t rawFeeTx) GetFee() sdk.Coins { return t.fee }

// the fee set the chain sees for an encoded tx
func (w *feeWorld) decodedFee(raw []byte) (sdk.Coins, error) {
	tx, err := w.c.App.TxConfig().TxDecoder()(raw)
	if err != nil {
		return nil, err
	}
	return tx.(sdk.FeeTx).GetFee(), nil
}

func (w *feeWorld) grantFlag(payer, granter int) int {
	if granter < 0 || granter == payer {
		return 0
	}
	if w.grants[[2]int{granter, payer}] {
		return 1
	}
	return 0
}

func granterName(g int) string {
	if g < 0 {
		return "-"
	}
	return fmt.Sprintf("a%d", g)
}

// property oracle for one ante execution, from balances only
func (w *feeWorld) anteOracle(via string, mode string, height int64, minGas sdk.DecCoins, payer, granter int, fee sdk.Coins, gas uint64, cls string, pre, post feeSnap) {
	e := w.e
	desc := fmt.Sprintf("via=%s mode=%s height=%d fee=%s gas=%d mingas=%s payer=a%d granter=%s", via, mode, height, feeCoinsStr(fee), gas, feeDecCoinsStr(minGas), payer, granterName(granter))
	if via == "direct" && height <= 0 && gas == 0 {
		// getTxPriority divides by the gas limit; the zero-gas guard only applies at height > 0. Not reachable through
		// CheckTx/FinalizeBlock after genesis (and baseapp recovers ante panics), so noted, not failed.
		if cls == "panic" {
			e.Stat("note.priority_div_zero_at_height0")
		}
	} else {
		e.Oracle("no_panic", cls != "panic", "%s", desc)
	}
	if cls != "ok" {
		e.Oracle("rejected_without_charge", pre.equal(post), "%s", desc)
		return
	}
	// accepted: the declared fee moved in full from payer/granter to the collector, nothing else moved
	src := fmt.Sprintf("a%d", payer)
	if granter >= 0 {
		src = fmt.Sprintf("a%d", granter)
	}
	ok := true
	for _, n := range w.names() {
		for _, d := range feeDenoms {
			want := pre.bal[n][d]
			f := sdkmath.ZeroInt()
			for _, c := range fee {
				if c.Denom == d {
					f = f.Add(c.Amount)
				}
			}
			if n == src {
				want = want.Sub(f)
			}
			if n == "module:fee_collector" {
				want = want.Add(f)
			}
			if !post.bal[n][d].Equal(want) {
				ok = false
			}
		}
	}
	for _, d := range feeDenoms {
		if !post.sup[d].Equal(pre.sup[d]) {
			ok = false
		}
	}
	e.Oracle("fee_moved_in_full", ok, "%s", desc)
	if mode == "check" && height > 0 {
		adm := len(fee) == 1
		if adm {
			adm = fee[0].Denom == w.feeDenom
			for _, b := range w.bypass {
				if fee[0].Denom == b {
					adm = true
				}
			}
		}
		e.Oracle("admitted_one_allowed_denom", adm, "%s", desc)
		// min gas price: some fee coin ≥ ⌈price·gas⌉ > 0 for its denom (big.Int arithmetic, independent of LegacyDec)
		if !minGas.IsZero() {
			meets := false
			for _, c := range fee {
				for _, p := range minGas {
					if p.Denom != c.Denom {
						continue
					}
					prod := new(big.Int).Mul(p.Amount.BigInt(), new(big.Int).SetUint64(gas)) // 18-decimal raw
					one := new(big.Int).Exp(big.NewInt(10), big.NewInt(18), nil)
					req, rem := new(big.Int).QuoRem(prod, one, new(big.Int))
					if rem.Sign() > 0 {
						req.Add(req, big.NewInt(1))
					}
					if req.Sign() > 0 && c.Amount.BigInt().Cmp(req) >= 0 {
						meets = true
					}
				}
			}
			e.Oracle("admitted_meets_min_gas_price", meets, "%s", desc)
		}
	}
}

func suiteFee(e *Env) {
	e.R = NewRng(e.Seed*1000003 + 77) // NewRng(s) and NewRng(s+1) are the same stream shifted by one draw
	for h := 0; h < e.N; h++ {
		if !feeHistory(e, h) {
			return
		}
	}
}

func feeHistory(e *Env, h int) bool {
	r := e.R
	w := &feeWorld{e: e, grants: map[[2]int]bool{}}
	ratios := []string{"0", "1", "0.5", "0.000000000000000001", "0.333333333333333333", "0.999999999999999999", "0.1"}
	ratio := ratios[r.N(len(ratios))]
	if r.N(3) == 0 {
		ratio = sdkmath.LegacyNewDecWithPrec(int64(r.N(1000000)), 6).String()
	}
	w.burnRatio = sdkmath.LegacyMustNewDecFromStr(ratio)
	w.feeDenom = "urise"
	if r.N(5) == 0 {
		w.feeDenom = "uaaa"
	}
	switch r.N(4) {
	case 0:
		w.bypass = nil
	case 1:
		w.bypass = []string{"ubbb"}
	case 2:
		w.bypass = []string{"uvrise", "uzzz"}
	default:
		w.bypass = []string{"stake"}
	}
	cfg := sim.DefaultConfig()
	cfg.GenesisMut = func(_ sim.Codec, gs map[string]json.RawMessage) {
		by := w.bypass
		if by == nil {
			by = []string{}
		}
		p := map[string]any{"params": map[string]any{"fee_denom": w.feeDenom, "burn_ratio": w.burnRatio.String(), "bypass_denoms": by}}
		bz, _ := json.Marshal(p)
		gs[feetypes.ModuleName] = bz
	}
	c, err := sim.New(cfg)
	if err != nil {
		e.Obs("setup-error %v", err)
		return false
	}
	w.c = c
	w.collector = authtypes.NewModuleAddress(authtypes.FeeCollectorName)
	w.feeMod = authtypes.NewModuleAddress(feetypes.ModuleName)
	// check the params really are what we asked for
	if p, err := c.App.FeeKeeper.Params.Get(c.Ctx()); err != nil || p.FeeDenom != w.feeDenom || len(p.BypassDenoms) != len(w.bypass) {
		e.Obs("setup-error fee params %v %v", p, err)
		return false
	}
	// unlimited fee allowances
	for k := 0; k < 3; k++ {
		g, t := r.N(len(c.Accs)), r.N(len(c.Accs))
		if g == t {
			continue
		}
		al, _ := feegrant.NewMsgGrantAllowance(&feegrant.BasicAllowance{}, c.Accs[g].Addr.String(), c.Accs[t].Addr.String())
		if _, err, p := c.Exec(al); err == nil && p == nil {
			w.grants[[2]int{g, t}] = true
		}
	}
	dec := feeante.NewDeductFeeDecorator(c.App.AuthKeeper, c.App.BankKeeper, c.App.FeeGrantKeeper, c.App.FeeKeeper)
	modes := []struct {
		name string
		m    sdk.ExecMode
	}{{"check", sdk.ExecModeCheck}, {"check", sdk.ExecModeCheck}, {"check", sdk.ExecModeCheck}, {"recheck", sdk.ExecModeReCheck}, {"simulate", sdk.ExecModeSimulate}, {"finalize", sdk.ExecModeFinalize}}

	for round := 0; round < 2; round++ {
		if round == 1 && r.N(3) > 0 {
			// governance changes the fee denom / bypass list while the node keeps running: the same decorator instances (the
			// one built above and the one inside the application's ante chain) must follow the stored params
			nd := w.feeDenom
			nb := w.bypass
			switch r.N(3) {
			case 0:
				nd = map[string]string{"urise": "uaaa", "uaaa": "urise"}[w.feeDenom]
			case 1:
				nb = nil
			default:
				nd = map[string]string{"urise": "uaaa", "uaaa": "urise"}[w.feeDenom]
				nb = []string{w.feeDenom}
			}
			by := nb
			if by == nil {
				by = []string{}
			}
			gov := authtypes.NewModuleAddress("gov").String()
			_, err, p := c.Exec(&feetypes.MsgUpdateParams{Authority: gov, Params: feetypes.Params{FeeDenom: nd, BurnRatio: w.burnRatio.String(), BypassDenoms: by}})
			if err == nil && p == nil {
				w.feeDenom, w.bypass = nd, nb
				e.Stat("fee.params_updated")
			} else {
				e.Note("fee MsgUpdateParams: %v %v", err, p)
			}
		}
		// ---------------- phase A: the decorator itself, on committed state
		w.reset(c.Ctx())
		for k := 0; k < 14; k++ {
			payer := r.N(len(c.Accs))
			granter := -1
			if r.N(3) == 0 {
				granter = r.N(len(c.Accs))
			}
			gas := w.genGas()
			mg := w.genMinGas()
			fee := w.genFee(payer, false, gas, mg)
			md := modes[r.N(len(modes))]
			height := []int64{0, 1, c.Height}[r.N(3)]
			if r.N(4) > 0 {
				height = c.Height
			}
			btx, _, err := w.buildTx(c.Ctx(), payer, granter, sdk.Coins{}, gas, false, 0)
			if err != nil {
				e.Note("buildTx: %v", err)
				continue
			}
			tx := rawFeeTx{FeeTx: btx.(sdk.FeeTx), fee: fee}
			pre := w.snap(c.Ctx())
			e.In("ante via=direct mode=%s height=%d mingas=%s fee=%s gas=%d payer=a%d granter=%s grant=%d others=1", md.name, height, feeDecCoinsStr(mg), feeCoinsStr(fee), gas, payer, granterName(granter), w.grantFlag(payer, granter))
			err, p := c.Call(func(ctx sdk.Context) error {
				hi := ctx.HeaderInfo()
				hi.Height = height
				ctx = ctx.WithIsCheckTx(md.m == sdk.ExecModeCheck || md.m == sdk.ExecModeReCheck).WithExecMode(md.m).WithBlockHeight(height).WithHeaderInfo(hi).WithMinGasPrices(mg)
				_, err := dec.AnteHandle(ctx, tx, md.m == sdk.ExecModeSimulate, func(ctx sdk.Context, _ sdk.Tx, _ bool) (sdk.Context, error) { return ctx, nil })
				return err
			})
			cls := class(err, p)
			post := w.snap(c.Ctx())
			e.Stat("direct." + md.name + "." + cls)
			e.Obs("%s %s", cls, post)
			w.anteOracle("direct", md.name, height, mg, payer, granter, fee, gas, cls, pre, post)
		}
		// ---------------- Burn
		// the x/fee module account is not necessarily empty when a burn runs: somebody sends it coins of the fee denom and of
		// another denom first (every second history); a burn must still destroy exactly floor(ratio x amount) of the fee denom
		if h%2 == 1 {
			dep := sdk.NewCoins(sdk.NewInt64Coin(w.feeDenom, int64(1000+r.N(100000))))
			for _, d := range feeDenoms {
				if d != w.feeDenom && r.N(2) == 0 {
					dep = dep.Add(sdk.NewInt64Coin(d, int64(1+r.N(5000))))
				}
			}
			e.In("send a0 module:fee coins=%s", feeCoinsStr(dep))
			err, p := c.Call(func(ctx sdk.Context) error { return c.App.BankKeeper.SendCoins(ctx, c.Accs[0].Addr, w.addr("module:fee"), dep) })
			e.Obs("%s %s", class(err, p), w.snap(c.Ctx()))
			e.Stat("deposit_into_fee_module." + class(err, p))
		}
		for k := 0; k < 5; k++ {
			var cs sdk.Coins
			n := 1 + r.N(2)
			for i := 0; i < n; i++ {
				d := w.feeDenom
				if r.N(3) == 0 {
					d = feeDenoms[r.N(len(feeDenoms))]
				}
				var a sdkmath.Int
				switch r.N(5) {
				case 0:
					a = c.Bal(w.collector, d).AddRaw(int64(r.N(3)) - 1)
				case 1:
					a = sdkmath.NewInt(int64(r.N(4)))
				case 2:
					a = c.Bal(w.collector, d).QuoRaw(int64(1 + r.N(5)))
				default:
					a = sdkmath.NewIntFromBigInt(r.Big(12))
				}
				if a.IsNegative() {
					a = sdkmath.ZeroInt()
				}
				cs = append(cs, sdk.Coin{Denom: d, Amount: a})
			}
			pre := w.snap(c.Ctx())
			e.In("burn coins=%s", feeCoinsStr(cs))
			err, p := c.Call(func(ctx sdk.Context) error { return c.App.FeeKeeper.Burn(ctx, cs) })
			cls := class(err, p)
			post := w.snap(c.Ctx())
			e.Stat("burn." + cls)
			e.Obs("%s %s", cls, post)
			e.Oracle("no_panic", cls != "panic", "burn %s", feeCoinsStr(cs))
			if cls != "ok" {
				e.Oracle("burn_failed_no_change", pre.equal(post), "burn %s", feeCoinsStr(cs))
			} else {
				want := sdkmath.ZeroInt()
				one := new(big.Int).Exp(big.NewInt(10), big.NewInt(18), nil)
				for _, co := range cs {
					if co.Denom == w.feeDenom {
						q := new(big.Int).Mul(w.burnRatio.BigInt(), co.Amount.BigInt())
						want = want.Add(sdkmath.NewIntFromBigInt(q.Quo(q, one)))
					}
				}
				ok := true
				for _, n := range w.names() {
					for _, d := range feeDenoms {
						x := pre.bal[n][d]
						if n == "module:fee_collector" && d == w.feeDenom {
							x = x.Sub(want)
						}
						if !post.bal[n][d].Equal(x) {
							ok = false
						}
					}
				}
				for _, d := range feeDenoms {
					x := pre.sup[d]
					if d == w.feeDenom {
						x = x.Sub(want)
					}
					if !post.sup[d].Equal(x) {
						ok = false
					}
				}
				e.Oracle("burn_exact", ok, "burn %s ratio=%s floor=%s", feeCoinsStr(cs), w.burnRatio, want)
			}
		}
		// ---------------- phase B: real CheckTx against the node's min gas prices
		w.minGas = w.genMinGas()
		baseapp.SetMinGasPrices(w.minGas.String())(c.App.BaseApp)
		if _, err := c.NextBlock(6e9); err != nil {
			e.Oracle("no_halt", false, "block: %v", err)
			return false
		}
		w.reset(c.App.NewContext(true))
		seqOff := map[int]uint64{}
		for k := 0; k < 10; k++ {
			payer := r.N(len(c.Accs))
			granter := -1
			if r.N(3) == 0 {
				granter = r.N(len(c.Accs))
			}
			gas := w.genGas()
			fee := w.genFee(payer, true, gas, w.minGas)
			cctx := c.App.NewContext(true)
			declared := fee
			var raw []byte
			err := func() (err error) {
				defer func() {
					if r := recover(); r != nil {
						err = fmt.Errorf("panic: %v", r)
					}
				}()
				_, raw, err = w.buildTx(cctx, payer, granter, fee, gas, true, 0)
				if err == nil {
					fee, err = w.decodedFee(raw)
				}
				return err
			}()
			if err != nil {
				e.Stat("checktx.undecodable")
				continue
			}
			e.Note("declared fee=%s seen by the chain as %s", feeCoinsStr(declared), feeCoinsStr(fee))
			pre := w.snap(cctx)
			var res *abci.CheckTxResponse
			var pn any
			func() {
				defer func() { pn = recover() }()
				res, err = c.App.CheckTx(&abci.CheckTxRequest{Tx: raw, Type: abci.CHECK_TX_TYPE_CHECK})
			}()
			cls := "ok"
			others := 1
			if pn != nil {
				cls = "panic"
			} else if err != nil || res.Code != 0 {
				cls = "err"
				// out of gas (code 11) comes from the gas meter of the surrounding decorators, not from the fee decorator
				if res != nil && res.Codespace == "sdk" && res.Code == 11 {
					others = 0
				}
			}
			e.In("ante via=checktx mode=check height=%d mingas=%s fee=%s gas=%d payer=a%d granter=%s grant=%d others=%d", c.Height, feeDecCoinsStr(w.minGas), feeCoinsStr(fee), gas, payer, granterName(granter), w.grantFlag(payer, granter), others)
			post := w.snap(c.App.NewContext(true))
			e.Stat("checktx." + cls)
			e.Obs("%s %s", cls, post)
			w.anteOracle("checktx", "check", c.Height, w.minGas, payer, granter, fee, gas, cls, pre, post)
			_ = seqOff
		}
		// ---------------- phase C: real FinalizeBlock, one tx per block
		for k := 0; k < 3; k++ {
			payer := r.N(len(c.Accs))
			granter := -1
			if r.N(3) == 0 {
				granter = r.N(len(c.Accs))
			}
			gas := uint64(300000 + r.N(500000))
			fee := w.genFee(payer, true, gas, nil)
			var raw []byte
			err := func() (err error) {
				defer func() {
					if r := recover(); r != nil {
						err = fmt.Errorf("panic: %v", r)
					}
				}()
				_, raw, err = w.buildTx(c.Ctx(), payer, granter, fee, gas, true, 0)
				if err == nil {
					fee, err = w.decodedFee(raw)
				}
				return err
			}()
			if err != nil {
				e.Stat("block.undecodable")
				continue
			}
			w.reset(c.Ctx())
			pre := w.snap(c.Ctx())
			c.QueueRawTx(raw)
			br, err := c.NextBlock(6e9)
			if err != nil || len(br.Txs) != 1 {
				e.Oracle("no_halt", false, "block: %v", err)
				return false
			}
			cls := "ok"
			if br.Txs[0].Code != 0 {
				cls = "err"
			}
			post := w.snap(c.Ctx())
			// the collector and supplies are also touched by begin/end blockers (mint, distribution): users only
			e.In("ante via=block mode=finalize height=%d mingas=- fee=%s gas=%d payer=a%d granter=%s grant=%d others=1", c.Height, feeCoinsStr(fee), gas, payer, granterName(granter), w.grantFlag(payer, granter))
			var sb strings.Builder
			for i := range c.Accs {
				n := fmt.Sprintf("a%d", i)
				fmt.Fprintf(&sb, " %s=", n)
				for j, d := range feeDenoms {
					if j > 0 {
						sb.WriteByte(',')
					}
					fmt.Fprintf(&sb, "%s", post.bal[n][d])
				}
			}
			e.Stat("block." + cls)
			e.Obs("%s users%s", cls, sb.String())
			// oracle: users' balances: src lost the fee iff ok; the collector received it (transfer event of the tx)
			src := fmt.Sprintf("a%d", payer)
			if granter >= 0 {
				src = fmt.Sprintf("a%d", granter)
			}
			ok := true
			for i := range c.Accs {
				n := fmt.Sprintf("a%d", i)
				for _, d := range feeDenoms {
					want := pre.bal[n][d]
					if cls == "ok" && n == src {
						want = want.Sub(fee.AmountOf(d))
					}
					if !post.bal[n][d].Equal(want) {
						ok = false
					}
				}
			}
			e.Oracle("block_fee_moved_or_nothing", ok, "fee=%s payer=a%d granter=%s cls=%s", feeCoinsStr(fee), payer, granterName(granter), cls)
			if cls == "ok" && !fee.IsZero() {
				got := false
				for _, ev := range br.Txs[0].Events {
					if ev.Type != "transfer" {
						continue
					}
					var rc, am string
					for _, a := range ev.Attributes {
						if a.Key == "recipient" {
							rc = a.Value
						}
						if a.Key == "amount" {
							am = a.Value
						}
					}
					if rc == w.collector.String() && am == fee.String() {
						got = true
					}
				}
				e.Oracle("block_collector_received_fee", got, "fee=%s", fee)
			}
		}
	}
	return true
}
