package main

// Independent reference for C05: exact concentrated-liquidity arithmetic over big rationals on the SAME tick grid
// (tick -> sqrt price as the implementation's TickToSqrtPrice gives it), computed from the queried pool / tick state.

import (
	"math/big"
	"sort"

	sdkmath "cosmossdk.io/math"
	lpkeeper "github.com/sunriselayer/sunrise/x/liquiditypool/keeper"
	lptypes "github.com/sunriselayer/sunrise/x/liquiditypool/types"
	sdk "github.com/cosmos/cosmos-sdk/types"
)

func clRatOfDec(d sdkmath.LegacyDec) *big.Rat {
	return new(big.Rat).SetFrac(d.BigInt(), new(big.Int).Exp(big.NewInt(10), big.NewInt(18), nil))
}

type exactTick struct {
	tick  int64
	price *big.Rat
	net   *big.Rat
}

// exactSwapExactIn returns the exact output (rational) of swapping `amount` of the in-denom, or nil when the exact path
// runs out of ticks / liquidity (then the implementation is expected to fail as well and nothing is compared).
func exactSwapExactIn(ctx sdk.Context, k lpkeeper.Keeper, poolId uint64, baseForQuote bool, amount sdkmath.Int, feeEnabled bool) (*big.Rat, int) {
	p, found, _ := k.GetPool(ctx, poolId)
	if !found {
		return nil, 0
	}
	fee := new(big.Rat)
	if feeEnabled {
		fee = clRatOfDec(sdkmath.LegacyMustNewDecFromStr(p.FeeRate))
	}
	one := big.NewRat(1, 1)
	oneMinusFee := new(big.Rat).Sub(one, fee)
	P := clRatOfDec(sdkmath.LegacyMustNewDecFromStr(p.CurrentSqrtPrice))
	L := clRatOfDec(sdkmath.LegacyMustNewDecFromStr(p.CurrentTickLiquidity))
	var ticks []exactTick
	for _, t := range k.GetAllInitializedTicksForPool(ctx, poolId) {
		sp, err := lptypes.TickToSqrtPrice(t.TickIndex, p.TickParams)
		if err != nil {
			return nil, 0
		}
		ticks = append(ticks, exactTick{t.TickIndex, clRatOfDec(sp), clRatOfDec(sdkmath.LegacyMustNewDecFromStr(t.LiquidityNet))})
	}
	sort.Slice(ticks, func(i, j int) bool { return ticks[i].tick < ticks[j].tick })
	var path []exactTick
	if baseForQuote {
		for i := len(ticks) - 1; i >= 0; i-- {
			if ticks[i].tick <= p.CurrentTick {
				path = append(path, ticks[i])
			}
		}
	} else {
		for _, t := range ticks {
			if t.tick > p.CurrentTick {
				path = append(path, t)
			}
		}
	}
	rem := new(big.Rat).SetInt(amount.BigInt())
	out := new(big.Rat)
	steps := 0
	for _, t := range path {
		if rem.Sign() <= 0 {
			break
		}
		steps++
		T := t.price
		a := new(big.Rat).Mul(rem, oneMinusFee) // available after fee
		if L.Sign() > 0 && P.Cmp(T) != 0 {
			if baseForQuote {
				// max base in to reach T (< P): L (P - T) / (P T)
				maxIn := new(big.Rat).Quo(new(big.Rat).Mul(L, new(big.Rat).Sub(P, T)), new(big.Rat).Mul(P, T))
				if a.Cmp(maxIn) >= 0 {
					out.Add(out, new(big.Rat).Mul(L, new(big.Rat).Sub(P, T)))
					used := new(big.Rat).Quo(maxIn, oneMinusFee)
					rem.Sub(rem, used)
					P = T
				} else {
					next := new(big.Rat).Quo(new(big.Rat).Mul(L, P), new(big.Rat).Add(L, new(big.Rat).Mul(a, P)))
					out.Add(out, new(big.Rat).Mul(L, new(big.Rat).Sub(P, next)))
					rem.SetInt64(0)
					P = next
					break
				}
			} else {
				maxIn := new(big.Rat).Mul(L, new(big.Rat).Sub(T, P))
				if a.Cmp(maxIn) >= 0 {
					out.Add(out, new(big.Rat).Quo(new(big.Rat).Mul(L, new(big.Rat).Sub(T, P)), new(big.Rat).Mul(P, T)))
					used := new(big.Rat).Quo(maxIn, oneMinusFee)
					rem.Sub(rem, used)
					P = T
				} else {
					next := new(big.Rat).Add(P, new(big.Rat).Quo(a, L))
					out.Add(out, new(big.Rat).Quo(new(big.Rat).Mul(L, new(big.Rat).Sub(next, P)), new(big.Rat).Mul(P, next)))
					rem.SetInt64(0)
					P = next
					break
				}
			}
		} else {
			P = T
		}
		// cross the tick
		if baseForQuote {
			L = new(big.Rat).Sub(L, t.net)
		} else {
			L = new(big.Rat).Add(L, t.net)
		}
	}
	if rem.Sign() > 0 {
		return nil, steps // ran out of ticks: the implementation must fail too
	}
	return out, steps
}

// exactSwapExactOut returns the exact input (rational, fee included) needed to take `amount` of the out-denom out of the
// pool, or nil when the exact path runs out of ticks.
func exactSwapExactOut(ctx sdk.Context, k lpkeeper.Keeper, poolId uint64, baseForQuote bool, amount sdkmath.Int, feeEnabled bool) (*big.Rat, int) {
	p, found, _ := k.GetPool(ctx, poolId)
	if !found {
		return nil, 0
	}
	fee := new(big.Rat)
	if feeEnabled {
		fee = clRatOfDec(sdkmath.LegacyMustNewDecFromStr(p.FeeRate))
	}
	one := big.NewRat(1, 1)
	oneMinusFee := new(big.Rat).Sub(one, fee)
	P := clRatOfDec(sdkmath.LegacyMustNewDecFromStr(p.CurrentSqrtPrice))
	L := clRatOfDec(sdkmath.LegacyMustNewDecFromStr(p.CurrentTickLiquidity))
	var ticks []exactTick
	for _, t := range k.GetAllInitializedTicksForPool(ctx, poolId) {
		sp, err := lptypes.TickToSqrtPrice(t.TickIndex, p.TickParams)
		if err != nil {
			return nil, 0
		}
		ticks = append(ticks, exactTick{t.TickIndex, clRatOfDec(sp), clRatOfDec(sdkmath.LegacyMustNewDecFromStr(t.LiquidityNet))})
	}
	sort.Slice(ticks, func(i, j int) bool { return ticks[i].tick < ticks[j].tick })
	var path []exactTick
	if baseForQuote {
		for i := len(ticks) - 1; i >= 0; i-- {
			if ticks[i].tick <= p.CurrentTick {
				path = append(path, ticks[i])
			}
		}
	} else {
		for _, t := range ticks {
			if t.tick > p.CurrentTick {
				path = append(path, t)
			}
		}
	}
	rem := new(big.Rat).SetInt(amount.BigInt())
	in := new(big.Rat)
	steps := 0
	for _, t := range path {
		if rem.Sign() <= 0 {
			break
		}
		steps++
		T := t.price
		if L.Sign() > 0 && P.Cmp(T) != 0 {
			if baseForQuote { // base in, quote out, price falls
				maxOut := new(big.Rat).Mul(L, new(big.Rat).Sub(P, T))
				if rem.Cmp(maxOut) >= 0 {
					in.Add(in, new(big.Rat).Quo(new(big.Rat).Quo(maxOut, new(big.Rat).Mul(P, T)), oneMinusFee))
					rem.Sub(rem, maxOut)
					P = T
				} else {
					next := new(big.Rat).Sub(P, new(big.Rat).Quo(rem, L))
					in.Add(in, new(big.Rat).Quo(new(big.Rat).Quo(new(big.Rat).Mul(L, new(big.Rat).Sub(P, next)), new(big.Rat).Mul(P, next)), oneMinusFee))
					rem.SetInt64(0)
					break
				}
			} else { // quote in, base out, price rises
				maxOut := new(big.Rat).Quo(new(big.Rat).Mul(L, new(big.Rat).Sub(T, P)), new(big.Rat).Mul(P, T))
				if rem.Cmp(maxOut) >= 0 {
					in.Add(in, new(big.Rat).Quo(new(big.Rat).Mul(L, new(big.Rat).Sub(T, P)), oneMinusFee))
					rem.Sub(rem, maxOut)
					P = T
				} else {
					den := new(big.Rat).Sub(L, new(big.Rat).Mul(rem, P))
					if den.Sign() <= 0 {
						return nil, steps
					}
					next := new(big.Rat).Quo(new(big.Rat).Mul(L, P), den)
					in.Add(in, new(big.Rat).Quo(new(big.Rat).Mul(L, new(big.Rat).Sub(next, P)), oneMinusFee))
					rem.SetInt64(0)
					break
				}
			}
		} else {
			P = T
		}
		if baseForQuote {
			L = new(big.Rat).Sub(L, t.net)
		} else {
			L = new(big.Rat).Add(L, t.net)
		}
	}
	if rem.Sign() > 0 {
		return nil, steps
	}
	return in, steps
}

func ratFloorInt(r *big.Rat) *big.Int { return new(big.Int).Quo(r.Num(), r.Denom()) }

func ratCeilInt(r *big.Rat) *big.Int {
	q := new(big.Int).Quo(r.Num(), r.Denom())
	if new(big.Rat).SetInt(q).Cmp(r) < 0 {
		q.Add(q, big.NewInt(1))
	}
	return q
}
