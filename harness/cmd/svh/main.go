package main

// svh: executes generated histories on the real application (in-process) and prints traces.
// Trace protocol: lines starting with "> " are inputs for the Lean model (operations and recorded boundary
// results); lines starting with "# " are comments/statistics; every other line is an observation that the
// model must reproduce byte for byte; lines starting with "! " are oracle verdicts on the implementation.

import (
	"sync"
	"time"
	"bufio"
	"flag"
	"fmt"
	"os"
	"sort"
)

type suiteFn func(e *Env)

var suites = map[string]suiteFn{}

func register(name string, f suiteFn) { suites[name] = f }

type Env struct {
	W      *bufio.Writer
	Seed   uint64
	N      int
	Tier   string
	Replay string
	R      *Rng
	Stats  map[string]int
	mu     sync.Mutex
	lastOp string
	lastAt time.Time
}

func (e *Env) In(f string, a ...any) {
	e.mu.Lock()
	e.lastOp, e.lastAt = fmt.Sprintf(f, a...), time.Now()
	fmt.Fprintf(e.W, "> "+f+"\n", a...)
	e.W.Flush()
	e.mu.Unlock()
}
func (e *Env) Obs(f string, a ...any) {
	e.mu.Lock()
	e.lastAt = time.Now()
	fmt.Fprintf(e.W, f+"\n", a...)
	e.W.Flush()
	e.mu.Unlock()
}

// watchdog: an operation of the real application that does not come back (an unmetered loop) would block the suite until the
// framework's time limit; report it as the hang it is, with the history so far, and end the run
func (e *Env) watchdog(limit time.Duration) {
	for {
		time.Sleep(5 * time.Second)
		e.mu.Lock()
		if !e.lastAt.IsZero() && time.Since(e.lastAt) > limit {
			fmt.Fprintf(e.W, "! no_hang FAIL operation did not return within %s: %s\n", limit, e.lastOp)
			e.W.Flush()
			os.Exit(0)
		}
		e.mu.Unlock()
	}
}
func (e *Env) Note(f string, a ...any) { fmt.Fprintf(e.W, "# "+f+"\n", a...) }
func (e *Env) Oracle(check string, ok bool, f string, a ...any) {
	v := "ok"
	if !ok {
		v = "FAIL"
	}
	fmt.Fprintf(e.W, "! %s %s "+f+"\n", append([]any{check, v}, a...)...)
	e.W.Flush()
}
func (e *Env) Stat(k string) { e.Stats[k]++ }

func main() {
	seed := flag.Uint64("seed", 1, "seed")
	n := flag.Int("n", 20, "histories")
	tier := flag.String("tier", "quick", "tier")
	replay := flag.String("replay", "", "replay file (suite specific)")
	flag.Parse()
	if flag.NArg() < 1 {
		names := []string{}
		for k := range suites {
			names = append(names, k)
		}
		sort.Strings(names)
		fmt.Println("usage: svh [flags] <suite>; suites:", names)
		os.Exit(2)
	}
	f, ok := suites[flag.Arg(0)]
	if !ok {
		fmt.Println("unknown suite", flag.Arg(0))
		os.Exit(2)
	}
	e := &Env{W: bufio.NewWriterSize(os.Stdout, 1<<16), Seed: *seed, N: *n, Tier: *tier, Replay: *replay, R: NewRng(*seed), Stats: map[string]int{}}
	if wd := os.Getenv("SVH_WATCHDOG"); wd != "off" && flag.Arg(0) != "halt" {
		lim := 300 * time.Second
		if d, err := time.ParseDuration(wd); err == nil && d > 0 {
			lim = d
		}
		go e.watchdog(lim)
	}
	f(e)
	keys := []string{}
	for k := range e.Stats {
		keys = append(keys, k)
	}
	sort.Strings(keys)
	for _, k := range keys {
		e.Note("stat %s=%d", k, e.Stats[k])
	}
	e.W.Flush()
}
