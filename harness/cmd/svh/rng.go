package main

import (
	"math/big"
	"strings"
)

type Rng struct{ s uint64 }

// NewRng: the seed is hashed first, so that consecutive seeds give unrelated streams (SplitMix64 advances its state by
// the golden-ratio constant: an affine seed mapping would make seed+1 the same stream shifted by one draw).
func NewRng(seed uint64) *Rng {
	z := seed + 0x632BE59BD9B4E019
	z = (z ^ (z >> 30)) * 0xBF58476D1CE4E5B9
	z = (z ^ (z >> 27)) * 0x94D049BB133111EB
	return &Rng{s: z ^ (z >> 31)}
}
func (r *Rng) Next() uint64 {
	r.s += 0x9E3779B97F4A7C15
	z := r.s
	z = (z ^ (z >> 30)) * 0xBF58476D1CE4E5B9
	z = (z ^ (z >> 27)) * 0x94D049BB133111EB
	return z ^ (z >> 31)
}
func (r *Rng) N(k int) int { return int(r.Next() % uint64(k)) }
func (r *Rng) Bool() bool  { return r.Next()&1 == 1 }

// log-uniform positive integer with up to maxDigits digits
func (r *Rng) Big(maxDigits int) *big.Int {
	d := 1 + r.N(maxDigits)
	var sb strings.Builder
	sb.WriteByte(byte('1' + r.N(9)))
	for i := 1; i < d; i++ {
		sb.WriteByte(byte('0' + r.N(10)))
	}
	v, _ := new(big.Int).SetString(sb.String(), 10)
	return v
}
func (r *Rng) Pick(xs ...string) string { return xs[r.N(len(xs))] }

// Perm returns a random permutation of 0..n-1 (Fisher–Yates from the one PRNG state)
func (r *Rng) Perm(n int) []int {
	p := make([]int, n)
	for i := range p {
		p[i] = i
	}
	for i := n - 1; i > 0; i-- {
		j := r.N(i + 1)
		p[i], p[j] = p[j], p[i]
	}
	return p
}
