package main

// C14 dynamic part.  `svh -replay gen=<file>,focus=<all|da|gauge|gov> determinism` builds ONE seeded history on the real application
// (several DA proofs / invalidities / fault validators, gauge votes by several validators and delegators over many pools, a
// governance proposal with several voters, series + parallel swap routes), records every block as raw transaction bytes and prints
// one digest line per block.  `svh -replay run=<file> determinism` re-executes the recorded bytes in a fresh process and prints the
// same digest lines; the check runs it N times (Go randomises map iteration per process) and compares every line.

import (
	"encoding/base64"
	"encoding/json"
	"os"
	"strings"
	"time"

	"svh/sim"
)

func init() { register("determinism", suiteDeterminism) }

func buildHistory(d *hdrv, r *Rng, focus string) {
	switch focus {
	case "da":
		stepDA(d, r, 3, true)
		stepDA(d, r, 2, true)
	case "gauge":
		stepPools(d, r, 8)
		stepStake(d, r)
		stepGauge(d, r, 8)
		stepGauge(d, r, 8)
	case "gov":
		stepStake(d, r)
		stepGov(d, r)
	default:
		stepPools(d, r, 8)
		stepStake(d, r)
		stepSwaps(d, r, 8)
		stepGauge(d, r, 8)
		stepDA(d, r, 2, true)
		stepGov(d, r)
		stepShareclassMore(d, r)
		stepSwaps(d, r, 8)
		stepGauge(d, r, 8)
	}
}

func suiteDeterminism(e *Env) {
	opts := map[string]string{}
	for _, kv := range strings.Split(e.Replay, ",") {
		if i := strings.Index(kv, "="); i > 0 {
			opts[kv[:i]] = kv[i+1:]
		}
	}
	if path, ok := opts["run"]; ok {
		bz, err := os.ReadFile(path)
		if err != nil {
			e.Obs("setup-error %v", err)
			return
		}
		var h histFile
		if err := json.Unmarshal(bz, &h); err != nil {
			e.Obs("setup-error %v", err)
			return
		}
		c, err := sim.New(factsConfig(h.Genesis))
		if err != nil {
			e.Obs("setup-error %v", err)
			return
		}
		mode := 0
		if m, ok := opts["pp"]; ok {
			mode = int(m[0] - '0')
		}
		d := &hdrv{c: c, replaying: true, ppMode: mode}
		for _, b := range h.Blocks {
			for _, t := range b.Txs {
				raw, _ := base64.StdEncoding.DecodeString(t)
				d.pend = append(d.pend, raw)
			}
			d.userTxs = b.User
			d.block(time.Duration(b.Dt))
		}
		for _, l := range d.lines {
			e.Obs("%s", l)
		}
		return
	}
	path := opts["gen"]
	focus := opts["focus"]
	if focus == "" {
		focus = "all"
	}
	dg, err := daGenesis()
	if err != nil {
		e.Obs("setup-error %v", err)
		return
	}
	h := &histFile{Seed: e.Seed, Focus: focus, Genesis: map[string]string{"da": dg}}
	c, err := sim.New(factsConfig(h.Genesis))
	if err != nil {
		e.Obs("setup-error %v", err)
		return
	}
	d := &hdrv{c: c, rec: h}
	buildHistory(d, e.R, focus)
	h.Cover = histCover(d)
	for _, l := range d.lines {
		e.Obs("%s", l)
	}
	for _, f := range d.fails {
		e.Note("builder: %s", f)
	}
	for _, k := range sortedKeys(h.Cover) {
		e.Note("cover %s=%d", k, h.Cover[k])
	}
	e.Note("blocks=%d", len(h.Blocks))
	if path != "" {
		bz, _ := json.Marshal(h)
		if err := os.WriteFile(path, bz, 0o644); err != nil {
			e.Obs("setup-error %v", err)
		}
	}
}
