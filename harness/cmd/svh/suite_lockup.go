package main

// C12 — lockup accounts never release locked funds early.
// Real x/accounts on the real application: lockup accounts are created with accountsv1.MsgInit, every handler goes
// through accountsv1.MsgExecute from owner, non-owner and "spoofing" signers (outer sender ≠ inner sender field),
// the self-delegation proxy and the x/selfdelegation messages are driven both through a lockup account and through a
// base-account delegator; time crosses start, end and unbonding completion; third parties deposit; rewards come from
// real blocks.  One fresh chain per history.
//
// Boundary results recorded for the model (`ext=…` on the op line): shareclass reward claim and share amount, staking /
// distribution / accounts-query failures (classified by their error text, which is never part of the compared trace).
// The oracle evaluates the property from balances and staking state only.

import (
	"bufio"
	"encoding/json"
	"fmt"
	"math/big"
	"os"
	"sort"
	"strconv"
	"strings"
	"time"

	sdkmath "cosmossdk.io/math"
	accountsv1 "cosmossdk.io/x/accounts/v1"
	banktypes "cosmossdk.io/x/bank/types"
	codectypes "github.com/cosmos/cosmos-sdk/codec/types"
	sdk "github.com/cosmos/cosmos-sdk/types"
	"github.com/cosmos/gogoproto/proto"

	nvlock "github.com/sunriselayer/sunrise/x/accounts/non_voting_delegatable_lockup"
	nvtypes "github.com/sunriselayer/sunrise/x/accounts/non_voting_delegatable_lockup/v1"
	sdlock "github.com/sunriselayer/sunrise/x/accounts/self_delegatable_lockup"
	sdtypes "github.com/sunriselayer/sunrise/x/accounts/self_delegatable_lockup/v1"
	proxytypes "github.com/sunriselayer/sunrise/x/accounts/self_delegation_proxy/v1"
	sdmtypes "github.com/sunriselayer/sunrise/x/selfdelegation/types"
	sctypes "github.com/sunriselayer/sunrise/x/shareclass/types"

	"svh/sim"
)

func init() { register("lockup", suiteLockup) }

const lkUT = 20 * time.Second // staking unbonding time of the harness genesis

func mustAddr(s string) sdk.AccAddress {
	a, err := sdk.AccAddressFromBech32(s)
	if err != nil {
		panic(err)
	}
	return a
}

func lkAny(m proto.Message) *codectypes.Any {
	a, err := codectypes.NewAnyWithValue(m)
	if err != nil {
		panic(err)
	}
	return a
}

type lkHist struct {
	e       *Env
	c       *sim.Chain
	variant string
	owner   string // a0 | a2
	lock    sdk.AccAddress
	val     string
	shareDn string
	extraVals []string // further validators the account delegated to (directed two-validator histories)
	ol      *big.Int
	startNs *big.Int // effective start
	endNs   *big.Int
	created bool
	// oracle accumulators
	c0      *big.Int
	cumIn   *big.Int
	cumOut  *big.Int
	undelOK *big.Int // Σ amounts of successful non-voting undelegations (= recorded unbond entries)
	// multi-validator trace format (suites lockup2 / lockupmv, Lean suite `lockupmv`): nvDelegate / nvUndelegate name their
	// validator, the dump carries one share balance per validator and the account's shareclass unbondings
	mv      bool
	lastCls string // outcome class of the last executed op (for the generators' statistics)
	vnames []string          // v0, v1, … = the validators in the order of their operator address strings
	vaddr  map[string]string // name → operator bech32
}

func (h *lkHist) addr(name string) sdk.AccAddress {
	switch name {
	case "a0", "a1", "a2", "a3":
		return h.c.Accs[int(name[1]-'0')].Addr
	case "lock":
		return h.lock
	case "plock":
		if h.lock == nil {
			return nil
		}
		p, err := h.c.App.SelfdelegationKeeper.SelfDelegationProxies.Get(h.c.Ctx(), h.lock)
		if err != nil {
			return nil
		}
		return sdk.AccAddress(p)
	case "pown":
		p, err := h.c.App.SelfdelegationKeeper.SelfDelegationProxies.Get(h.c.Ctx(), h.c.Accs[0].Addr)
		if err != nil {
			return nil
		}
		return sdk.AccAddress(p)
	}
	return nil
}

func (h *lkHist) bal(name, denom string) sdkmath.Int {
	a := h.addr(name)
	if a == nil {
		return sdkmath.ZeroInt()
	}
	return h.c.Bal(a, denom)
}

func (h *lkHist) stake(name string) sdkmath.Int {
	a := h.addr(name)
	if a == nil {
		return sdkmath.ZeroInt()
	}
	v, err := h.c.App.StakingKeeper.GetDelegatorBonded(h.c.Ctx(), a)
	if err != nil {
		return sdkmath.NewInt(-1)
	}
	return v
}

func (h *lkHist) ubd(name string) sdkmath.Int {
	a := h.addr(name)
	if a == nil {
		return sdkmath.ZeroInt()
	}
	v, err := h.c.App.StakingKeeper.GetDelegatorUnbonding(h.c.Ctx(), a)
	if err != nil {
		return sdkmath.NewInt(-1)
	}
	return v
}

func (h *lkHist) scUnb() sdkmath.Int {
	t := sdkmath.ZeroInt()
	if h.lock == nil {
		return t
	}
	us, _ := h.c.App.ShareclassKeeper.GetUnbondingsByAddress(h.c.Ctx(), h.lock)
	for _, u := range us {
		t = t.Add(u.Amount.Amount)
	}
	return t
}

type lkInfo struct {
	dv, df, locked, unlocked string
	spend                    string
	dvI, dfI                 sdkmath.Int
	lockedI, unlockedI       sdkmath.Int
	ok                       bool
}

func (h *lkHist) query(m proto.Message) (resp proto.Message, cls string) {
	defer func() {
		if r := recover(); r != nil {
			cls = "panic"
		}
	}()
	ctx, _ := h.c.Ctx().CacheContext()
	r, err := h.c.App.AccountsKeeper.Query(ctx, h.lock, m)
	if err != nil {
		return nil, "err"
	}
	return r, "ok"
}

func (h *lkHist) info() lkInfo {
	in := lkInfo{dv: "-", df: "-", locked: "-", unlocked: "-", spend: "-"}
	if !h.created {
		return in
	}
	var r, sp proto.Message
	var cls, cls2 string
	if h.variant == "nv" {
		r, cls = h.query(&nvtypes.QueryLockupAccountInfoRequest{})
		sp, cls2 = h.query(&nvtypes.QuerySpendableAmountRequest{})
	} else {
		r, cls = h.query(&sdtypes.QueryLockupAccountInfoRequest{})
		sp, cls2 = h.query(&sdtypes.QuerySpendableAmountRequest{})
	}
	if cls != "ok" {
		in.dv, in.df, in.locked, in.unlocked = cls, cls, cls, cls
	} else {
		var dv, df, lo, un sdk.Coins
		switch x := r.(type) {
		case *nvtypes.QueryLockupAccountInfoResponse:
			dv, df, lo, un = x.DelegatedLocking, x.DelegatedFree, x.LockedCoins, x.UnlockedCoins
		case *sdtypes.QueryLockupAccountInfoResponse:
			dv, df, lo, un = x.DelegatedLocking, x.DelegatedFree, x.LockedCoins, x.UnlockedCoins
		}
		in.dvI, in.dfI, in.lockedI, in.unlockedI = dv.AmountOf("urise"), df.AmountOf("urise"), lkAmountOf(lo, "urise"), lkAmountOf(un, "urise")
		in.dv, in.df, in.locked, in.unlocked = in.dvI.String(), in.dfI.String(), in.lockedI.String(), in.unlockedI.String()
		in.ok = true
	}
	if cls2 != "ok" {
		in.spend = cls2
	} else {
		switch x := sp.(type) {
		case *nvtypes.QuerySpendableAmountResponse:
			in.spend = x.SpendableTokens.AmountOf("urise").String()
		case *sdtypes.QuerySpendableAmountResponse:
			in.spend = x.SpendableTokens.AmountOf("urise").String()
		}
	}
	return in
}

// AmountOf that tolerates the zero-value coins (`sdk.Coin{}`, nil amount) the schedule puts into its results
func lkAmountOf(cs sdk.Coins, denom string) sdkmath.Int {
	for _, c := range cs {
		if c.Denom == denom && !c.Amount.IsNil() {
			return c.Amount
		}
	}
	return sdkmath.ZeroInt()
}

func (h *lkHist) dump(in lkInfo) string {
	if h.mv {
		sh := make([]string, len(h.vnames))
		for i, n := range h.vnames {
			sh[i] = h.bal("lock", sctypes.NonVotingShareTokenDenom(h.vaddr[n])).String()
		}
		scl := "-"
		if h.lock != nil {
			us, _ := h.c.App.ShareclassKeeper.GetUnbondingsByAddress(h.c.Ctx(), h.lock)
			var xs []string
			for _, u := range us {
				xs = append(xs, fmt.Sprintf("%d:%s", u.CompletionTime.UnixNano(), u.Amount.Amount))
			}
			if len(xs) > 0 {
				scl = strings.Join(xs, ",")
			}
		}
		return fmt.Sprintf("lock=%s:%s sh=%s plock=%s:%s pown=%s:%s a0=%s a1=%s a2=%s DV=%s DF=%s st.plock=%s st.pown=%s ubd.plock=%s ubd.pown=%s scunb=%s scl=%s locked=%s unlocked=%s spendable=%s",
			h.bal("lock", "urise"), h.bal("lock", "uvrise"), strings.Join(sh, ":"),
			h.bal("plock", "urise"), h.bal("plock", "uvrise"), h.bal("pown", "urise"), h.bal("pown", "uvrise"),
			h.bal("a0", "urise"), h.bal("a1", "urise"), h.bal("a2", "urise"),
			in.dv, in.df, h.stake("plock"), h.stake("pown"), h.ubd("plock"), h.ubd("pown"), h.scUnb(), scl, in.locked, in.unlocked, in.spend)
	}
	return fmt.Sprintf("lock=%s:%s:%s plock=%s:%s pown=%s:%s a0=%s a1=%s a2=%s DV=%s DF=%s st.plock=%s st.pown=%s ubd.plock=%s ubd.pown=%s scunb=%s locked=%s unlocked=%s spendable=%s",
		h.bal("lock", "urise"), h.bal("lock", "uvrise"), h.bal("lock", h.shareDn),
		h.bal("plock", "urise"), h.bal("plock", "uvrise"), h.bal("pown", "urise"), h.bal("pown", "uvrise"),
		h.bal("a0", "urise"), h.bal("a1", "urise"), h.bal("a2", "urise"),
		in.dv, in.df, h.stake("plock"), h.stake("pown"), h.ubd("plock"), h.ubd("pown"), h.scUnb(), in.locked, in.unlocked, in.spend)
}

// value of the custody set in fee-denom units, from balances and staking/shareclass state only
func (h *lkHist) custody() *big.Int {
	if !h.created {
		return big.NewInt(0)
	}
	t := h.bal("lock", "urise")
	if h.variant == "nv" {
		t = t.Add(h.shareValue()).Add(h.scUnb())
	} else {
		t = t.Add(h.bal("plock", "uvrise")).Add(h.stake("plock")).Add(h.ubd("plock"))
	}
	return t.BigInt()
}

// value of the account's share tokens of every validator it delegated to
func (h *lkHist) shareValue() sdkmath.Int {
	t := sdkmath.ZeroInt()
	seen := map[string]bool{}
	for _, v := range append([]string{h.val}, h.extraVals...) {
		if seen[v] {
			continue
		}
		seen[v] = true
		sh := h.bal("lock", sctypes.NonVotingShareTokenDenom(v))
		if sh.IsPositive() {
			if a, err := h.c.App.ShareclassKeeper.CalculateAmountByShare(h.c.Ctx(), v, sh); err == nil {
				sh = a
			}
		}
		t = t.Add(sh)
	}
	return t
}

func floorDiv(a *big.Int, b int64) *big.Int {
	q, m := new(big.Int).DivMod(a, big.NewInt(b), new(big.Int))
	_ = m
	return q
}

// the exact schedule, computed independently of the code: ceil of OL·x/y (the code's two roundings can only move the
// result to one of the two neighbouring integers). ok=false where the code itself panics (zero-length second window).
func (h *lkHist) unlockedCeil() (*big.Int, *big.Int, bool) {
	now := big.NewInt(h.c.Time.UnixNano())
	if now.Cmp(h.startNs) < 0 {
		return big.NewInt(0), big.NewInt(0), true
	}
	if now.Cmp(h.endNs) > 0 {
		return new(big.Int).Set(h.ol), new(big.Int).Set(h.ol), true
	}
	x := new(big.Int).Sub(floorDiv(now, 1e9), floorDiv(h.startNs, 1e9))
	y := new(big.Int).Sub(floorDiv(h.endNs, 1e9), floorDiv(h.startNs, 1e9))
	if y.Sign() == 0 {
		return nil, nil, false
	}
	num := new(big.Int).Mul(h.ol, x)
	fl, m := new(big.Int).DivMod(num, y, new(big.Int))
	ce := new(big.Int).Set(fl)
	if m.Sign() != 0 {
		ce.Add(ce, big.NewInt(1))
	}
	return fl, ce, true
}

func lkExtErr(err error) bool {
	if err == nil {
		return false
	}
	s := err.Error()
	for _, p := range []string{"no handler for message", "validator does not exist", "too many unbonding", "no delegation for (address, validator) tuple",
		"cosmos.staking.v1beta1.Delegation", "invalid shares amount", "no delegation distribution info", "no validator distribution info", "decoding bech32 failed", "invalid bech32"} {
		if strings.Contains(s, p) {
			return true
		}
	}
	return false
}

func lkInt(s string) sdkmath.Int {
	v, ok := sdkmath.NewIntFromString(s)
	if !ok {
		return sdkmath.ZeroInt()
	}
	return v
}

// exec runs one op (token list without ext fields), prints the `>` line with the recorded boundary, the observation and
// the oracle verdicts.
func (h *lkHist) exec(op []string) {
	e, c := h.e, h.c
	pre := h.custody()
	preDump := ""
	if h.created {
		preDump = h.dump(h.info())
	}
	ownerAddr := ""
	if h.created {
		ownerAddr = h.addr(h.owner).String()
	}
	valStr := func(ok string) string {
		if ok == "1" {
			return h.val
		}
		return "sunrisevaloper1bogus"
	}
	execute := func(callerName, target string, m proto.Message) (any, error, any) {
		return c.Exec(&accountsv1.MsgExecute{Sender: h.addr(callerName).String(), Target: target, Message: lkAny(m)})
	}
	sname := func(n string) string { return h.addr(n).String() }
	var err error
	var p any
	var resp any
	ext := ""
	inflow := big.NewInt(0) // value expected to enter the custody set from outside by this op
	unauthorized := false
	stakeFwd := false
	switch op[0] {
	case "init":
		// init variant funder owner funds start end
		h.variant, h.owner = op[1], op[3]
		funds := lkInt(op[4])
		var st, en time.Time
		if op[5] != "zero" {
			st = time.Unix(0, lkInt(op[5]).Int64()).UTC()
		}
		if op[6] != "zero" {
			en = time.Unix(0, lkInt(op[6]).Int64()).UTC()
		}
		var coins sdk.Coins
		if !funds.IsZero() {
			coins = sdk.Coins{sdk.Coin{Denom: "urise", Amount: funds}}
		}
		var m *accountsv1.MsgInit
		if h.variant == "nv" {
			m = &accountsv1.MsgInit{Sender: sname(op[2]), AccountType: nvlock.CONTINUOUS_LOCKING_ACCOUNT,
				Message: lkAny(&nvtypes.MsgInitNonVotingDelegatableLockupAccount{Owner: sname(op[3]), StartTime: st, EndTime: en}), Funds: coins}
		} else {
			m = &accountsv1.MsgInit{Sender: sname(op[2]), AccountType: sdlock.CONTINUOUS_LOCKING_ACCOUNT,
				Message: lkAny(&sdtypes.MsgInitSelfDelegatableLockupAccount{Owner: sname(op[3]), StartTime: st, EndTime: en}), Funds: coins}
		}
		resp, err, p = c.Exec(m)
		if err == nil && p == nil {
			h.lock = mustAddr(resp.(*accountsv1.MsgInitResponse).AccountAddress)
			h.created = true
			h.ol = funds.BigInt()
			if op[5] == "zero" {
				h.startNs = big.NewInt(c.Time.UnixNano())
			} else {
				h.startNs = lkInt(op[5]).BigInt()
			}
			h.endNs = lkInt(op[6]).BigInt()
			h.c0 = funds.BigInt()
			pre = funds.BigInt() // the funding itself is the initial custody, not an inflow
		}
	case "deposit":
		// deposit src dst denom amt
		dst := h.addr(op[2])
		if dst == nil {
			return // no such proxy yet
		}
		resp, err, p = c.Exec(&banktypes.MsgSend{FromAddress: sname(op[1]), ToAddress: dst.String(), Amount: sdk.Coins{sdk.Coin{Denom: op[3], Amount: lkInt(op[4])}}})
		if err == nil && op[2] == "lock" && op[3] == "urise" {
			inflow = lkInt(op[4]).BigInt()
		}
	case "block":
		t := time.Unix(0, lkInt(op[1]).Int64()).UTC()
		_, err = c.NextBlock(t.Sub(c.Time))
	case "send":
		// send caller sender to denom amt
		unauthorized = op[1] != h.owner || op[2] != h.owner
		amt := sdk.Coins{sdk.Coin{Denom: h.denom(op[4]), Amount: lkInt(op[5])}}
		if h.variant == "nv" {
			resp, err, p = execute(op[1], h.lock.String(), &nvtypes.MsgSend{Sender: sname(op[2]), ToAddress: sname(op[3]), Amount: amt})
		} else {
			resp, err, p = execute(op[1], h.lock.String(), &sdtypes.MsgSend{Sender: sname(op[2]), ToAddress: sname(op[3]), Amount: amt})
		}
	case "nvDelegate", "nvUndelegate":
		// nvDelegate caller sender valOk denom amt
		unauthorized = op[1] != h.owner || op[2] != h.owner
		coin := sdk.Coin{Denom: h.denom(op[4]), Amount: lkInt(op[5])}
		valKnown, valAddr := op[3] == "1", valStr(op[3])
		if h.mv {
			// op[3] names the validator; anything that is not a validator of the chain = a validator that does not exist
			if a, ok := h.vaddr[op[3]]; ok {
				h.val, h.shareDn = a, sctypes.NonVotingShareTokenDenom(a)
				valKnown, valAddr = true, a
			} else {
				valKnown, valAddr = false, valStr("0")
			}
		}
		// boundary: what the shareclass claim will pay, and whether the reward saver can pay it
		claim := sdk.NewCoins()
		claimFail := false
		if valKnown {
			vb, _ := sdk.ValAddressFromBech32(h.val)
			cl, cerr := c.App.ShareclassKeeper.GetClaimableRewards(c.Ctx(), h.lock, vb)
			if cerr == nil {
				claim = cl
				saver := c.App.BankKeeper.GetAllBalances(c.Ctx(), sctypes.RewardSaverAddress(h.val))
				claimFail = !saver.IsAllGTE(cl)
			}
		}
		// boundary: the share amount the shareclass keeper computes for this amount (price of the validator's share token)
		shPre := sdkmath.ZeroInt()
		shFail := false
		if valKnown && coin.Amount.IsPositive() {
			if v, serr := c.App.ShareclassKeeper.CalculateShareByAmount(c.Ctx(), h.val, coin.Amount); serr == nil {
				shPre = v
			} else {
				shFail = true
			}
		}
		if op[0] == "nvDelegate" {
			resp, err, p = execute(op[1], h.lock.String(), &nvtypes.MsgDelegate{Sender: sname(op[2]), ValidatorAddress: valAddr, Amount: coin})
		} else {
			resp, err, p = execute(op[1], h.lock.String(), &nvtypes.MsgUndelegate{Sender: sname(op[2]), ValidatorAddress: valAddr, Amount: coin})
		}
		if err == nil {
			ext = fmt.Sprintf(" ext=ok rf=%s rb=%s sh=%s", claim.AmountOf("urise"), claim.AmountOf("uvrise"), shPre)
			inflow = claim.AmountOf("urise").BigInt()
			if op[0] == "nvUndelegate" {
				h.undelOK.Add(h.undelOK, coin.Amount.BigInt())
			}
		} else if lkExtErr(err) || ((claimFail || shFail) && p == nil) {
			ext = fmt.Sprintf(" ext=err rf=0 rb=0 sh=%s", shPre)
		} else {
			ext = fmt.Sprintf(" ext=ok rf=%s rb=%s sh=%s", claim.AmountOf("urise"), claim.AmountOf("uvrise"), shPre)
		}
	case "nvWithdrawReward":
		unauthorized = op[1] != h.owner || op[2] != h.owner
		preF, preB := h.bal("lock", "urise"), h.bal("lock", "uvrise")
		resp, err, p = execute(op[1], h.lock.String(), &nvtypes.MsgWithdrawReward{Sender: sname(op[2]), ValidatorAddress: h.val})
		if err == nil {
			rf := h.bal("lock", "urise").Sub(preF)
			ext = fmt.Sprintf(" ext=ok rf=%s rb=%s", rf, h.bal("lock", "uvrise").Sub(preB))
			inflow = rf.BigInt()
		} else if lkExtErr(err) {
			ext = " ext=err rf=0 rb=0"
		} else {
			ext = " ext=ok rf=0 rb=0"
		}
	case "sdSelfDelegate":
		unauthorized = op[1] != h.owner || op[2] != h.owner
		preF, preB := h.bal("plock", "urise"), h.bal("plock", "uvrise")
		resp, err, p = execute(op[1], h.lock.String(), &sdtypes.MsgSelfDelegate{Sender: sname(op[2]), Amount: lkInt(op[3])})
		ext = " ext=ok rf=0 rb=0"
		if lkExtErr(err) {
			ext = " ext=err rf=0 rb=0"
		} else if err == nil {
			// the staking hooks withdraw the proxy's pending rewards on every delegation
			rb := h.bal("plock", "uvrise").Sub(preB)
			ext = fmt.Sprintf(" ext=ok rf=%s rb=%s", h.bal("plock", "urise").Sub(preF), rb)
			inflow = rb.BigInt()
		}
	case "sdWithdraw":
		unauthorized = op[1] != h.owner || op[2] != h.owner
		resp, err, p = execute(op[1], h.lock.String(), &sdtypes.MsgWithdrawSelfDelegationUnbonded{Sender: sname(op[2]), Amount: lkInt(op[3])})
	case "pxUndelegate", "pxWithdrawReward", "pxSend":
		// px* d caller sender ...
		px := h.addr(map[string]string{"lock": "plock", "a0": "pown"}[op[1]])
		root := "a0"
		if op[1] == "lock" {
			root = h.owner
		}
		unauthorized = op[2] != root || op[3] != root
		if px == nil {
			// no such account yet: MsgExecute to an address that is not an account
			px = sdk.AccAddress(make([]byte, 32))
		}
		pxName := map[string]string{"lock": "plock", "a0": "pown"}[op[1]]
		switch op[0] {
		case "pxUndelegate":
			preF, preB := h.bal(pxName, "urise"), h.bal(pxName, "uvrise")
			resp, err, p = execute(op[2], px.String(), &proxytypes.MsgUndelegate{Sender: sname(op[3]), Amount: lkInt(op[4])})
			ext = " ext=ok rf=0 rb=0"
			if lkExtErr(err) {
				ext = " ext=err rf=0 rb=0"
			} else if err == nil {
				rb := h.bal(pxName, "uvrise").Sub(preB)
				ext = fmt.Sprintf(" ext=ok rf=%s rb=%s", h.bal(pxName, "urise").Sub(preF), rb)
				if op[1] == "lock" {
					inflow = rb.BigInt()
				}
			}
		case "pxWithdrawReward":
			preF, preB := h.bal(pxName, "urise"), h.bal(pxName, "uvrise")
			resp, err, p = execute(op[2], px.String(), &proxytypes.MsgWithdrawReward{Sender: sname(op[3]), ValidatorAddress: valStr(op[4])})
			if err == nil {
				rb := h.bal(pxName, "uvrise").Sub(preB)
				ext = fmt.Sprintf(" ext=ok rf=%s rb=%s", h.bal(pxName, "urise").Sub(preF), rb)
				if op[1] == "lock" {
					inflow = rb.BigInt()
				}
			} else if lkExtErr(err) {
				ext = " ext=err rf=0 rb=0"
			} else {
				ext = " ext=ok rf=0 rb=0"
			}
		case "pxSend":
			// pxSend d caller sender to denom amt
			stakeFwd = op[5] == "uvrise"
			resp, err, p = execute(op[2], px.String(), &proxytypes.MsgSend{Sender: sname(op[3]), ToAddress: sname(op[4]), Amount: sdk.Coins{sdk.Coin{Denom: h.denom(op[5]), Amount: lkInt(op[6])}}})
		}
	case "modSelfDelegate":
		preF, preB := h.bal("pown", "urise"), h.bal("pown", "uvrise")
		resp, err, p = c.Exec(&sdmtypes.MsgSelfDelegate{Sender: sname(op[1]), Amount: lkInt(op[2])})
		ext = " ext=ok rf=0 rb=0"
		if lkExtErr(err) {
			ext = " ext=err rf=0 rb=0"
		} else if err == nil {
			ext = fmt.Sprintf(" ext=ok rf=%s rb=%s", h.bal("pown", "urise").Sub(preF), h.bal("pown", "uvrise").Sub(preB))
		}
	case "modWithdraw":
		resp, err, p = c.Exec(&sdmtypes.MsgWithdrawSelfDelegationUnbonded{Sender: sname(op[1]), Amount: lkInt(op[2])})
	default:
		e.Obs("bad-op %v", op)
		return
	}
	_ = resp
	cls := class(err, p)
	if op[0] == "block" {
		if err != nil {
			cls = "halt"
		} else {
			cls = "ok"
		}
	}
	h.lastCls = cls
	e.In("%s%s", strings.Join(op, " "), ext)
	e.Stat(op[0] + "." + cls)
	if os.Getenv("LK_DEBUG") != "" && err != nil {
		e.Note("err %s: %v", op[0], err)
	}
	in := h.info()
	d := h.dump(in)
	e.Obs("%s %s", cls, d)
	if cls == "halt" {
		return
	}
	if cls == "panic" {
		e.Stat("panic_class")
	}
	// ---- oracle
	if unauthorized && ownerAddr != "" {
		e.Oracle("owner_only", cls == "err" && d == preDump, "%s caller=%s sender=%s owner=%s class=%s", op[0], opCaller(op), opSender(op), h.owner, cls)
		e.Stat("unauthorized." + cls)
	}
	if stakeFwd {
		e.Oracle("proxy_cannot_forward_stake", cls == "err" && d == preDump, "proxy Send of the bond denom class=%s", cls)
	}
	if cls != "ok" && op[0] != "block" && preDump != "" {
		e.Oracle("failed_message_changes_nothing", d == preDump, "%s class=%s", op[0], cls)
	}
	if h.created {
		post := h.custody()
		delta := new(big.Int).Sub(post, pre)
		adj := new(big.Int).Sub(delta, inflow)
		h.cumIn.Add(h.cumIn, inflow)
		if adj.Sign() < 0 {
			h.cumOut.Sub(h.cumOut, adj)
		} else {
			h.cumIn.Add(h.cumIn, adj) // value that entered from outside without being requested (e.g. rewards)
		}
		fl, ce, ok := h.unlockedCeil()
		if ok {
			bound := new(big.Int).Add(ce, h.cumIn)
			e.Oracle("outflow_bound", h.cumOut.Cmp(bound) <= 0, "cumulativeOutflow=%s unlocked<=%s inflows=%s custody=%s op=%s", h.cumOut, ce, h.cumIn, post, op[0])
			if in.ok {
				un := in.unlockedI.BigInt()
				lk := in.lockedI.BigInt()
				e.Oracle("schedule_exact", un.Cmp(fl) >= 0 && un.Cmp(ce) <= 0 && new(big.Int).Add(un, lk).Cmp(h.ol) == 0, "unlocked=%s exact in [%s,%s] locked=%s ol=%s", un, fl, ce, lk, h.ol)
			}
		}
		if in.ok {
			tracked := in.dvI.Add(in.dfI).BigInt()
			var actual *big.Int
			if h.variant == "nv" {
				actual = new(big.Int).Add(h.shareValue().BigInt(), h.undelOK)
			} else {
				actual = h.stake("plock").Add(h.ubd("plock")).Add(h.bal("plock", "uvrise")).BigInt()
			}
			e.Oracle("tracked_le_actual", tracked.Cmp(actual) <= 0 && !in.dvI.IsNegative() && !in.dfI.IsNegative(), "DV+DF=%s actual=%s", tracked, actual)
		}
	}
}

func opCaller(op []string) string {
	if strings.HasPrefix(op[0], "px") {
		return op[2]
	}
	return op[1]
}
func opSender(op []string) string {
	if strings.HasPrefix(op[0], "px") {
		return op[3]
	}
	return op[2]
}

func (h *lkHist) denom(d string) string {
	if h.mv {
		// "share" = share token of v0, "share/<name>" = share token of that validator
		if d == "share" && len(h.vnames) > 0 {
			return sctypes.NonVotingShareTokenDenom(h.vaddr[h.vnames[0]])
		}
		if n, ok := strings.CutPrefix(d, "share/"); ok {
			if a, ok := h.vaddr[n]; ok {
				return sctypes.NonVotingShareTokenDenom(a)
			}
		}
		return d
	}
	if d == "share" {
		return h.shareDn
	}
	return d
}

func lkNewHist(e *Env) (*lkHist, error) { return lkNewHistVals(e, nil) }

func lkNewHistVals(e *Env, valPowers []int64) (*lkHist, error) { return lkNewHistX(e, valPowers, false) }

// multi-validator trace format: validators are named v0, v1, … in the order of their operator address STRINGS (the key order
// of the account's UnbondEntries map); the reset line carries the names
func lkNewHistMV(e *Env, valPowers []int64) (*lkHist, error) { return lkNewHistX(e, valPowers, true) }

func lkNewHistX(e *Env, valPowers []int64, mv bool) (*lkHist, error) {
	cfg := sim.DefaultConfig()
	if valPowers != nil {
		cfg.ValPowers = valPowers
	}
	cfg.GenesisMut = func(_ sim.Codec, gs map[string]json.RawMessage) {
		var st map[string]json.RawMessage
		_ = json.Unmarshal(gs["staking"], &st)
		var p map[string]json.RawMessage
		_ = json.Unmarshal(st["params"], &p)
		p["unbonding_time"] = json.RawMessage(fmt.Sprintf(`"%ds"`, int(lkUT.Seconds())))
		st["params"], _ = json.Marshal(p)
		gs["staking"], _ = json.Marshal(st)
	}
	c, err := sim.New(cfg)
	if err != nil {
		return nil, err
	}
	h := &lkHist{e: e, c: c, val: c.Vals[0].Oper.String(), cumIn: big.NewInt(0), cumOut: big.NewInt(0), undelOK: big.NewInt(0), ol: big.NewInt(0)}
	h.shareDn = sctypes.NonVotingShareTokenDenom(h.val)
	valsField := ""
	if mv {
		var addrs []string
		for _, v := range c.Vals {
			addrs = append(addrs, v.Oper.String())
		}
		sort.Strings(addrs)
		h.mv, h.vaddr, h.extraVals = true, map[string]string{}, addrs
		for i, a := range addrs {
			n := "v" + strconv.Itoa(i)
			h.vnames = append(h.vnames, n)
			h.vaddr[n] = a
		}
		h.val, h.shareDn = addrs[0], sctypes.NonVotingShareTokenDenom(addrs[0])
		valsField = " vals=" + strings.Join(h.vnames, ",")
	}
	e.In("reset now=%d height=%d ut=%d a0=%s:%s a1=%s:%s a2=%s:%s%s", c.Time.UnixNano(), c.Height, lkUT.Nanoseconds(),
		h.bal("a0", "urise"), h.bal("a0", "uvrise"), h.bal("a1", "urise"), h.bal("a1", "uvrise"), h.bal("a2", "urise"), h.bal("a2", "uvrise"), valsField)
	return h, nil
}

// next block time: never inside [floor_second(completion), completion) of a pending shareclass unbonding (that is the
// known end-block halt S9 of C01/C10, not a C12 matter)
func (h *lkHist) safeTime(t time.Time) time.Time {
	us, _ := h.c.App.ShareclassKeeper.GetAllUnbondings(h.c.Ctx())
	for _, u := range us {
		ct := u.CompletionTime
		if !t.Before(ct.Truncate(time.Second)) && t.Before(ct) {
			t = ct
		}
	}
	if !t.After(h.c.Time) {
		t = h.c.Time.Add(time.Nanosecond)
	}
	return t
}

func (h *lkHist) amount(r *Rng) string {
	bal := h.bal("lock", "urise")
	switch r.N(10) {
	case 0:
		return strconv.Itoa(r.N(3) - 1) // -1,0,1
	case 1:
		return bal.AddRaw(int64(r.N(3)) - 1).String()
	case 2:
		in := h.info()
		if in.ok {
			sp := lkInt(in.spend)
			return sp.AddRaw(int64(r.N(3)) - 1).String()
		}
		return "1"
	case 3:
		return sdkmath.NewIntFromBigInt(r.Big(14)).String()
	default:
		if !bal.IsPositive() {
			return strconv.Itoa(1 + r.N(50))
		}
		return sdkmath.NewInt(int64(1 + r.N(int(min64(bal.Int64(), 1<<40))))).String()
	}
}

func min64(a, b int64) int64 {
	if a < b {
		return a
	}
	return b
}

func (h *lkHist) genOp(r *Rng) []string {
	caller, sender := h.owner, h.owner
	switch r.N(12) {
	case 0:
		caller, sender = "a1", "a1" // plain non-owner
	case 1:
		other := "a1"
		if h.owner == "a1" {
			other = "a2"
		}
		caller, sender = other, h.owner // spoof: signs as somebody else, names the owner in the message field
	case 2:
		caller, sender = h.owner, "a1" // owner signs, field names somebody else
	}
	to := r.Pick("a1", "a2", "a0")
	k := r.N(100)
	if k < 22 {
		dt := []time.Duration{time.Nanosecond, 300 * time.Millisecond, time.Second, 1700 * time.Millisecond, 5 * time.Second, 21 * time.Second, 21 * time.Second, 60 * time.Second}[r.N(8)]
		t := h.c.Time.Add(dt)
		// aim at the schedule's and the unbondings' instants
		switch r.N(6) {
		case 0:
			if s := time.Unix(0, h.startNs.Int64()); s.After(h.c.Time) {
				t = s.Add(time.Duration(r.N(3)-1) * time.Nanosecond)
			}
		case 1:
			if s := time.Unix(0, h.endNs.Int64()); s.After(h.c.Time) {
				t = s.Add(time.Duration(r.N(3)-1) * time.Nanosecond)
			}
		}
		return []string{"block", strconv.FormatInt(h.safeTime(t).UnixNano(), 10)}
	}
	if k < 30 {
		return []string{"deposit", r.Pick("a1", "a2"), r.Pick("lock", "lock", "plock", "pown"), r.Pick("urise", "urise", "urise", "uvrise"), strconv.Itoa(1 + r.N(400))}
	}
	if k < 45 {
		return []string{"send", caller, sender, to, r.Pick("urise", "urise", "urise", "urise", "uvrise", "share", "uaaa"), h.amount(r)}
	}
	valOk := "1"
	if r.N(12) == 0 {
		valOk = "0"
	}
	if h.variant == "nv" {
		switch {
		case k < 62:
			return []string{"nvDelegate", caller, sender, valOk, r.Pick("urise", "urise", "urise", "urise", "urise", "uvrise"), h.amount(r)}
		case k < 76:
			sh := h.bal("lock", h.shareDn)
			amt := h.amount(r)
			if sh.IsPositive() && r.N(4) > 0 {
				amt = sdkmath.NewInt(1 + int64(r.N(int(min64(sh.Int64(), 1<<40))))).String()
				if r.N(5) == 0 {
					amt = sh.AddRaw(int64(r.N(3)) - 1).String()
				}
			}
			return []string{"nvUndelegate", caller, sender, valOk, r.Pick("urise", "urise", "urise", "urise", "urise", "uvrise"), amt}
		case k < 80:
			return []string{"nvWithdrawReward", caller, sender}
		case k < 84:
			return []string{"sdSelfDelegate", caller, sender, h.amount(r)} // wrong account type
		}
	} else {
		switch {
		case k < 58:
			return []string{"sdSelfDelegate", caller, sender, h.amount(r)}
		case k < 66:
			amt := h.amount(r)
			if b := h.bal("plock", "uvrise"); b.IsPositive() && r.N(3) > 0 {
				amt = b.AddRaw(int64(r.N(3)) - 1).String()
			}
			return []string{"sdWithdraw", caller, sender, amt}
		case k < 68:
			return []string{"nvDelegate", caller, sender, valOk, "urise", h.amount(r)} // wrong account type
		}
	}
	// proxy + module messages (delegator: the lockup or the base account a0)
	d := r.Pick("lock", "a0", "a0")
	if h.stake("plock").IsPositive() || h.bal("plock", "uvrise").IsPositive() || h.ubd("plock").IsPositive() {
		// the lockup has a live proxy: drive it (undelegate / withdraw the unbonded funds back / try to forward them)
		d = r.Pick("lock", "lock", "lock", "a0")
		if b := h.bal("plock", "uvrise"); b.IsPositive() && r.N(2) == 0 {
			amt := b.AddRaw(int64(r.N(3)) - 1).String()
			if r.N(3) == 0 {
				amt = sdkmath.NewInt(1 + int64(r.N(int(min64(b.Int64(), 1<<40))))).String()
			}
			return []string{"sdWithdraw", caller, sender, amt}
		}
	}
	root := "a0"
	if d == "lock" {
		root = h.owner
	}
	pc, ps := root, root
	switch r.N(8) {
	case 0:
		pc, ps = "a1", "a1"
	case 1:
		pc, ps = "a1", root
		if root == "a1" {
			pc = "a2"
		}
	case 2:
		pc, ps = "lock", "lock"
		if !h.created {
			pc, ps = "a2", "a2"
		}
	}
	pxName := map[string]string{"lock": "plock", "a0": "pown"}[d]
	switch r.N(7) {
	case 0, 1:
		amt := strconv.Itoa(1 + r.N(5000))
		if r.N(6) == 0 {
			amt = strconv.Itoa(r.N(3) - 1)
		}
		return []string{"modSelfDelegate", "a0", amt}
	case 2:
		amt := strconv.Itoa(1 + r.N(300))
		if b := h.bal("pown", "uvrise"); b.IsPositive() && r.N(2) == 0 {
			amt = b.AddRaw(int64(r.N(3)) - 1).String()
		}
		return []string{"modWithdraw", "a0", amt}
	case 3, 4:
		st := h.stake(pxName)
		amt := strconv.Itoa(r.N(4) - 1)
		if st.IsPositive() && r.N(5) > 0 {
			amt = sdkmath.NewInt(1 + int64(r.N(int(min64(st.Int64(), 1<<40))))).String()
			if r.N(5) == 0 {
				amt = st.AddRaw(int64(r.N(3)) - 1).String()
			}
		}
		return []string{"pxUndelegate", d, pc, ps, amt}
	case 5:
		return []string{"pxWithdrawReward", d, pc, ps, valOk}
	default:
		dn := r.Pick("urise", "uvrise", "uvrise")
		b := h.bal(pxName, dn)
		amt := strconv.Itoa(1 + r.N(100))
		if b.IsPositive() && r.N(3) > 0 {
			amt = b.AddRaw(int64(r.N(3)) - 1).String()
		}
		return []string{"pxSend", d, pc, ps, to, dn, amt}
	}
}

func (h *lkHist) genInit(r *Rng) []string {
	variant := r.Pick("nv", "sd")
	owner := "a0"
	if r.N(5) == 0 {
		owner = "a2"
	}
	now := h.c.Time
	funds := sdkmath.NewIntFromBigInt(r.Big(10)).String()
	if r.N(12) == 0 {
		funds = "0"
	}
	start := now.Add(time.Duration(r.N(90)-30) * time.Second).Add(time.Duration(r.N(4)) * 250 * time.Millisecond)
	length := time.Duration(1+r.N(150)) * time.Second
	if r.N(10) == 0 {
		length = time.Duration(1+r.N(900)) * time.Millisecond // may fall into one Unix second
	}
	end := start.Add(length).Add(time.Duration(r.N(3)) * 333 * time.Millisecond)
	ss, es := strconv.FormatInt(start.UnixNano(), 10), strconv.FormatInt(end.UnixNano(), 10)
	switch r.N(9) {
	case 0, 3:
		ss = "zero" // start time omitted: the account must default it to the block time
	case 1:
		es = "zero"
	case 2:
		ss, es = es, ss
	}
	return []string{"init", variant, "a1", owner, funds, ss, es}
}

// replay of a recorded / hand-written history file; newHist makes the chain for a `reset` line (its tokens are passed)
func lkReplay(e *Env, newHist func(reset []string) (*lkHist, error)) {
	{
		f, err := os.Open(e.Replay)
		if err != nil {
			e.Obs("replay-error %v", err)
			return
		}
		defer f.Close()
		var h *lkHist
		sc := bufio.NewScanner(f)
		sc.Buffer(make([]byte, 1<<20), 1<<20)
		for sc.Scan() {
			line := strings.TrimSpace(strings.TrimPrefix(strings.TrimSpace(sc.Text()), ">"))
			if line == "" || strings.HasPrefix(line, "#") {
				continue
			}
			toks := []string{}
			for _, t := range strings.Fields(line) {
				if strings.HasPrefix(t, "ext=") || strings.HasPrefix(t, "rf=") || strings.HasPrefix(t, "rb=") || strings.HasPrefix(t, "sh=") {
					continue
				}
				toks = append(toks, t)
			}
			if toks[0] == "reset" {
				h, err = newHist(toks)
				if err != nil {
					e.Obs("setup-error %v", err)
					return
				}
				continue
			}
			if h == nil {
				continue
			}
			if toks[0] == "block" && len(toks) == 2 && strings.HasPrefix(toks[1], "+") {
				// relative block time in a hand-written history
				d, _ := strconv.ParseInt(toks[1][1:], 10, 64)
				toks[1] = strconv.FormatInt(h.c.Time.UnixNano()+d, 10)
			}
			for i, t := range toks {
				// times relative to the chain start in hand-written histories: @+<ns>
				if strings.HasPrefix(t, "@") {
					d, _ := strconv.ParseInt(t[1:], 10, 64)
					toks[i] = strconv.FormatInt(h.c.Time.UnixNano()+d, 10)
				}
			}
			h.exec(toks)
			if h.c.Halted != "" {
				h = nil
			}
		}
	}
}

func suiteLockup(e *Env) {
	if e.Replay != "" {
		lkReplay(e, func([]string) (*lkHist, error) { return lkNewHist(e) })
		return
	}
	// the shared Rng's streams for consecutive seeds are the same stream shifted by one draw: spread the seeds
	e.R = NewRng(e.Seed*0x9E3779B1 + 77)
	nops := 30
	if e.Tier == "thorough" {
		nops = 45
	}
	for i := 0; i < e.N; i++ {
		h, err := lkNewHist(e)
		if err != nil {
			e.Obs("setup-error %v", err)
			return
		}
		// a few blocks and base-account activity may precede the account
		if e.R.N(3) == 0 {
			h.exec([]string{"modSelfDelegate", "a0", strconv.Itoa(1000 + e.R.N(100000))})
		}
		h.exec(h.genInit(e.R))
		if !h.created {
			// rejected init: try once more with a plain schedule so that the history is not wasted
			now := h.c.Time
			h.exec([]string{"init", e.R.Pick("nv", "sd"), "a1", "a0", strconv.Itoa(1000 + e.R.N(1000000)),
				strconv.FormatInt(now.Add(5*time.Second).UnixNano(), 10), strconv.FormatInt(now.Add(65*time.Second).UnixNano(), 10)})
		}
		if !h.created {
			continue
		}
		for k := 0; k < nops && h.c.Halted == ""; k++ {
			h.exec(h.genOp(e.R))
		}
	}
}
