package main

// C03 — swaps honour stated amounts and limits on every route shape.
// Real pools with real liquidity on the real application; generated route trees (pool | series | parallel | nil,
// depth <= 4, width <= 4, arbitrary positive weights, plus malformed ones); Msg/SwapExactAmountIn|Out through the real
// message router; both quote queries on the pre-state. The pool keeper is the modelled boundary: every pool quote that
// the route walk asks for on the pre-state is recorded as `> ext pool ...` (the model looks results up by
// (pool, direction, denoms, amount); a lookup that was not recorded is a disagreement).

import (
	"crypto/sha256"
	"encoding/json"
	"fmt"
	"sort"
	"strings"

	sdkmath "cosmossdk.io/math"
	sdk "github.com/cosmos/cosmos-sdk/types"
	authtypes "github.com/cosmos/cosmos-sdk/x/auth/types"
	lptypes "github.com/sunriselayer/sunrise/x/liquiditypool/types"
	swapkeeper "github.com/sunriselayer/sunrise/x/swap/keeper"
	swaptypes "github.com/sunriselayer/sunrise/x/swap/types"

	"svh/sim"
)

func init() { register("route", suiteRoute) }

var routeDenoms = []string{"uaaa", "ubbb", "uccc", "uddd"}

type rpool struct {
	id          uint64
	base, quote string
}

type routeWorld struct {
	e     *Env
	c     *sim.Chain
	pools []rpool
	rate  string
	qs    swaptypes.QueryServer
}

// ---------------------------------------------------------------- encoding (shared with lean/Driver/Route.lean)

func encWeight(w string) string {
	if w == "" {
		return "~"
	}
	return w
}

func encRoute(r swaptypes.Route) string {
	switch s := r.Strategy.(type) {
	case *swaptypes.Route_Pool:
		return fmt.Sprintf("P(%s,%s,%d)", r.DenomIn, r.DenomOut, s.Pool.PoolId)
	case *swaptypes.Route_Series:
		var sb strings.Builder
		fmt.Fprintf(&sb, "S(%s,%s", r.DenomIn, r.DenomOut)
		for _, x := range s.Series.Routes {
			sb.WriteString(";" + encRoute(x))
		}
		return sb.String() + ")"
	case *swaptypes.Route_Parallel:
		var sb strings.Builder
		ws := make([]string, len(s.Parallel.Weights))
		for i, w := range s.Parallel.Weights {
			ws[i] = encWeight(w)
		}
		fmt.Fprintf(&sb, "L(%s,%s;%s", r.DenomIn, r.DenomOut, strings.Join(ws, ","))
		for _, x := range s.Parallel.Routes {
			sb.WriteString(";" + encRoute(x))
		}
		return sb.String() + ")"
	}
	return fmt.Sprintf("N(%s,%s)", r.DenomIn, r.DenomOut)
}

func encResult(r swaptypes.RouteResult) string {
	head := fmt.Sprintf("%s:%s>%s:%s", r.TokenIn.Denom, r.TokenIn.Amount, r.TokenOut.Denom, r.TokenOut.Amount)
	switch s := r.Strategy.(type) {
	case *swaptypes.RouteResult_Pool:
		return fmt.Sprintf("P[%s#%d]", head, s.Pool.PoolId)
	case *swaptypes.RouteResult_Series:
		var sb strings.Builder
		sb.WriteString("S[" + head)
		for _, x := range s.Series.RouteResults {
			sb.WriteString(";" + encResult(x))
		}
		return sb.String() + "]"
	case *swaptypes.RouteResult_Parallel:
		var sb strings.Builder
		sb.WriteString("L[" + head)
		for _, x := range s.Parallel.RouteResults {
			sb.WriteString(";" + encResult(x))
		}
		return sb.String() + "]"
	}
	return "N[]"
}

// leaves of a result tree: pool id -> (tokenIn, tokenOut)
func resultLeaves(r swaptypes.RouteResult, f func(id uint64, in, out sdk.Coin)) {
	switch s := r.Strategy.(type) {
	case *swaptypes.RouteResult_Pool:
		f(s.Pool.PoolId, r.TokenIn, r.TokenOut)
	case *swaptypes.RouteResult_Series:
		for _, x := range s.Series.RouteResults {
			resultLeaves(x, f)
		}
	case *swaptypes.RouteResult_Parallel:
		for _, x := range s.Parallel.RouteResults {
			resultLeaves(x, f)
		}
	}
}

// ---------------------------------------------------------------- route generation

func poolRoute(din, dout string, id uint64) swaptypes.Route {
	return swaptypes.Route{DenomIn: din, DenomOut: dout, Strategy: &swaptypes.Route_Pool{Pool: &swaptypes.RoutePool{PoolId: id}}}
}

func (w *routeWorld) randWeight() string {
	r := w.e.R
	switch r.N(7) {
	case 0:
		return "1"
	case 3:
		if r.N(4) > 0 {
			return fmt.Sprintf("%d", 1+r.N(9))
		}
		return "0.000000000000000001"
	case 1:
		return fmt.Sprintf("%d", 1+r.N(100))
	case 2:
		return fmt.Sprintf("0.%d", 1+r.N(999))
	case 4:
		return fmt.Sprintf("%d.%018d", r.N(1000), 1+r.N(999999999))
	case 5:
		return fmt.Sprintf("%s.5", r.Big(11))
	}
	return fmt.Sprintf("%d.%d", r.N(10), 1+r.N(99))
}

// gen builds a valid route din -> dout from pools not in `used`; nil if it cannot.
func (w *routeWorld) gen(din, dout string, depth int, used map[uint64]bool) *swaptypes.Route {
	r := w.e.R
	kind := 0 // 0 pool, 1 series, 2 parallel
	if depth > 0 {
		switch r.N(8) {
		case 0:
			kind = 0
		case 1, 2, 3:
			kind = 1
		default:
			kind = 2
		}
	}
	if din == dout && kind == 0 {
		if depth == 0 {
			return nil
		}
		kind = 1
	}
	trial := map[uint64]bool{}
	for k := range used {
		trial[k] = true
	}
	commit := func() {
		for k := range trial {
			used[k] = true
		}
	}
	switch kind {
	case 1:
		n := 1 + r.N(4)
		if n == 1 && (din == dout || r.N(3) > 0) {
			n = 2
		}
		den := []string{din}
		for i := 1; i < n; i++ {
			d := routeDenoms[r.N(len(routeDenoms))]
			if depth <= 1 && d == den[len(den)-1] {
				d = routeDenoms[(indexOf(routeDenoms, d)+1+r.N(len(routeDenoms)-1))%len(routeDenoms)]
			}
			den = append(den, d)
		}
		if depth <= 1 && n >= 2 && den[n-1] == dout {
			// the last hop would be a pool with equal denoms: pick another intermediate
			for _, d := range routeDenoms {
				if d != dout && (n < 3 || d != den[n-2]) {
					den[n-1] = d
					break
				}
			}
		}
		den = append(den, dout)
		var rs []swaptypes.Route
		for i := 0; i < n; i++ {
			x := w.gen(den[i], den[i+1], depth-1, trial)
			if x == nil {
				rs = nil
				break
			}
			rs = append(rs, *x)
		}
		if rs != nil {
			commit()
			return &swaptypes.Route{DenomIn: din, DenomOut: dout, Strategy: &swaptypes.Route_Series{Series: &swaptypes.RouteSeries{Routes: rs}}}
		}
	case 2:
		n := 1 + r.N(4)
		if n == 1 && r.N(3) > 0 {
			n = 2
		}
		var rs []swaptypes.Route
		var ws []string
		for i := 0; i < n; i++ {
			x := w.gen(din, dout, depth-1, trial)
			if x == nil {
				break
			}
			rs = append(rs, *x)
			ws = append(ws, w.randWeight())
		}
		if len(rs) > 0 {
			commit()
			return &swaptypes.Route{DenomIn: din, DenomOut: dout, Strategy: &swaptypes.Route_Parallel{Parallel: &swaptypes.RouteParallel{Routes: rs, Weights: ws}}}
		}
	}
	if din == dout {
		return nil
	}
	var cand []uint64
	for _, p := range w.pools {
		if !used[p.id] && ((p.base == din && p.quote == dout) || (p.base == dout && p.quote == din)) {
			cand = append(cand, p.id)
		}
	}
	if len(cand) == 0 {
		return nil
	}
	id := cand[r.N(len(cand))]
	used[id] = true
	x := poolRoute(din, dout, id)
	return &x
}

func indexOf(xs []string, x string) int {
	for i, y := range xs {
		if y == x {
			return i
		}
	}
	return 0
}

// all nodes of a route tree (pointers into the tree, pre-order)
func routeNodes(r *swaptypes.Route, out *[]*swaptypes.Route) {
	*out = append(*out, r)
	switch s := r.Strategy.(type) {
	case *swaptypes.Route_Series:
		for i := range s.Series.Routes {
			routeNodes(&s.Series.Routes[i], out)
		}
	case *swaptypes.Route_Parallel:
		for i := range s.Parallel.Routes {
			routeNodes(&s.Parallel.Routes[i], out)
		}
	}
}

// malform applies one defect to a valid route; returns its name ("" if not applicable)
func (w *routeWorld) malform(rt *swaptypes.Route) string {
	r := w.e.R
	var nodes []*swaptypes.Route
	routeNodes(rt, &nodes)
	var pars, sers, leaves []*swaptypes.Route
	for _, n := range nodes {
		switch n.Strategy.(type) {
		case *swaptypes.Route_Parallel:
			pars = append(pars, n)
		case *swaptypes.Route_Series:
			sers = append(sers, n)
		case *swaptypes.Route_Pool:
			leaves = append(leaves, n)
		}
	}
	switch r.N(14) {
	case 12, 13: // the whole route is a series WITHOUT hops from a denom to itself (nothing to connect, so the denom chain "matches")
		d := rt.DenomIn
		if r.Bool() {
			d = rt.DenomOut
		}
		*rt = swaptypes.Route{DenomIn: d, DenomOut: d, Strategy: &swaptypes.Route_Series{Series: &swaptypes.RouteSeries{Routes: nil}}}
		return "emptysame"
	case 10, 11: // a parallel branch that is a perfectly executable route of its own, but to (or from) ANOTHER denom than its parent
		if len(pars) > 0 {
			pn := pars[r.N(len(pars))]
			p := pn.Strategy.(*swaptypes.Route_Parallel).Parallel
			usedIds := map[uint64]bool{}
			for _, l := range leaves {
				usedIds[l.Strategy.(*swaptypes.Route_Pool).Pool.PoolId] = true
			}
			for _, pl := range w.pools {
				if usedIds[pl.id] {
					continue
				}
				var other string
				switch {
				case pl.base == pn.DenomIn && pl.quote != pn.DenomOut:
					other = pl.quote
				case pl.quote == pn.DenomIn && pl.base != pn.DenomOut:
					other = pl.base
				default:
					continue
				}
				if len(p.Routes) == 0 {
					break
				}
				p.Routes[r.N(len(p.Routes))] = swaptypes.Route{DenomIn: pn.DenomIn, DenomOut: other,
					Strategy: &swaptypes.Route_Pool{Pool: &swaptypes.RoutePool{PoolId: pl.id}}}
				return "branchdenom"
			}
		}
	case 0, 1: // reused pool
		if len(leaves) >= 2 {
			i := r.N(len(leaves))
			j := (i + 1 + r.N(len(leaves)-1)) % len(leaves)
			leaves[j].Strategy.(*swaptypes.Route_Pool).Pool.PoolId = leaves[i].Strategy.(*swaptypes.Route_Pool).Pool.PoolId
			return "reuse"
		}
	case 2, 3: // bad weight
		if len(pars) > 0 {
			p := pars[r.N(len(pars))].Strategy.(*swaptypes.Route_Parallel).Parallel
			p.Weights[r.N(len(p.Weights))] = r.Pick("0", "0.0", "-1", "-0.5", "abc", "", "1.0000000000000000001", "1e3")
			return "badweight"
		}
	case 4: // weights/routes length mismatch
		if len(pars) > 0 {
			p := pars[r.N(len(pars))].Strategy.(*swaptypes.Route_Parallel).Parallel
			if r.Bool() {
				p.Weights = p.Weights[:len(p.Weights)-1]
			} else {
				p.Weights = append(p.Weights, "1")
			}
			return "lenmismatch"
		}
	case 5: // empty series / parallel
		if len(sers) > 0 && r.Bool() {
			sers[r.N(len(sers))].Strategy.(*swaptypes.Route_Series).Series.Routes = nil
			return "empty"
		}
		if len(pars) > 0 {
			p := pars[r.N(len(pars))].Strategy.(*swaptypes.Route_Parallel).Parallel
			p.Routes, p.Weights = nil, nil
			return "empty"
		}
	case 6, 7: // nil strategy
		nodes[r.N(len(nodes))].Strategy = nil
		return "nil"
	case 8: // denom mismatch inside
		if len(nodes) > 1 {
			n := nodes[1+r.N(len(nodes)-1)]
			if r.Bool() {
				n.DenomIn = routeDenoms[(indexOf(routeDenoms, n.DenomIn)+1)%len(routeDenoms)]
			} else {
				n.DenomOut = routeDenoms[(indexOf(routeDenoms, n.DenomOut)+1)%len(routeDenoms)]
			}
			return "denommismatch"
		}
	case 9: // pool that does not exist (structurally valid)
		if len(leaves) > 0 {
			leaves[r.N(len(leaves))].Strategy.(*swaptypes.Route_Pool).Pool.PoolId = uint64(len(w.pools) + r.N(3))
			return "nopool"
		}
	}
	return ""
}

// ---------------------------------------------------------------- state reads

func (w *routeWorld) poolBal(id uint64, d string) sdkmath.Int {
	return w.c.Bal(lptypes.NewPoolAddress(id), d).Add(w.c.Bal(lptypes.NewPoolFeesAddress(id), d))
}

type snap map[string]sdkmath.Int // "name.denom" -> balance

func (w *routeWorld) snapshot(named map[string]sdk.AccAddress) snap {
	s := snap{}
	for n, a := range named {
		for _, d := range routeDenoms {
			s[n+"."+d] = w.c.Bal(a, d)
		}
	}
	for _, p := range w.pools {
		for _, d := range routeDenoms {
			s[fmt.Sprintf("p%d.%s", p.id, d)] = w.poolBal(p.id, d)
		}
	}
	return s
}

func deltas(pre, post snap) (string, map[string]sdkmath.Int) {
	keys := []string{}
	d := map[string]sdkmath.Int{}
	for k := range post {
		x := post[k].Sub(pre[k])
		d[k] = x
		if !x.IsZero() {
			keys = append(keys, k)
		}
	}
	sort.Strings(keys)
	parts := []string{}
	for _, k := range keys {
		parts = append(parts, k+"="+d[k].String())
	}
	if len(parts) == 0 {
		return "-", d
	}
	return strings.Join(parts, " "), d
}

// record the pool quotes a walk over `rt` asks for on the committed state (real InspectRoute, real pool keeper)
func (w *routeWorld) recordExt(rt swaptypes.Route, amount sdkmath.Int, reverse bool) {
	defer func() { _ = recover() }()
	ctx, _ := w.c.Ctx().CacheContext()
	seen := map[string]bool{}
	lp := w.c.App.LiquiditypoolKeeper
	cb := func(din, dout string, p swaptypes.RoutePool, a sdkmath.Int) (res sdkmath.Int, err error) {
		pool, found, err := lp.GetPool(ctx, p.PoolId)
		if err != nil || !found {
			return sdkmath.Int{}, fmt.Errorf("not found")
		}
		if a.IsNil() || a.IsNegative() {
			return sdkmath.Int{}, fmt.Errorf("negative")
		}
		dir := "in"
		if reverse {
			dir = "out"
		}
		key := fmt.Sprintf("%s id=%d din=%s dout=%s amt=%s", dir, p.PoolId, din, dout, a)
		// q: the read-only quote
		func() {
			defer func() {
				if r := recover(); r != nil {
					err = fmt.Errorf("panic %v", r)
				}
			}()
			if !reverse {
				res, err = lp.CalculateResultExactAmountIn(ctx, pool, sdk.NewCoin(din, a), dout, true)
			} else {
				res, err = lp.CalculateResultExactAmountOut(ctx, pool, sdk.NewCoin(dout, a), din, true)
			}
		}()
		// x: dry-run of the swap itself on the pre-state with a sender that holds everything (discarded)
		var xres sdkmath.Int
		var xerr error
		func() {
			defer func() {
				if r := recover(); r != nil {
					xerr = fmt.Errorf("panic %v", r)
				}
			}()
			dry, _ := ctx.CacheContext()
			if !reverse {
				xres, xerr = lp.SwapExactAmountIn(dry, w.c.Accs[3].Addr, pool, sdk.NewCoin(din, a), dout, true)
			} else {
				xres, xerr = lp.SwapExactAmountOut(dry, w.c.Accs[3].Addr, pool, sdk.NewCoin(dout, a), din, true)
			}
		}()
		if !seen[key] {
			seen[key] = true
			if err != nil {
				w.e.In("ext pool q %s r=err", key)
			} else {
				w.e.In("ext pool q %s r=%s", key, res)
			}
			if xerr != nil {
				w.e.In("ext pool x %s r=err", key)
			} else {
				w.e.In("ext pool x %s r=%s", key, xres)
			}
			// pool contract used by the theorems: a swap that succeeds returns what the quote said
			if xerr == nil {
				w.e.Oracle("pool_swap_eq_quote", err == nil && res.Equal(xres), "pool %s quote=%v swap=%s", key, res, xres)
			}
		}
		return res, err
	}
	gen := func(din, dout string, a, b sdkmath.Int) (sdk.Coin, sdk.Coin) { return sdk.Coin{}, sdk.Coin{} }
	_, _, _ = rt.InspectRoute(amount, cb, gen, reverse)
}

func safeValidate(rt swaptypes.Route) (cls string) {
	defer func() {
		if r := recover(); r != nil {
			cls = "panic"
		}
	}()
	if err := rt.Validate(); err != nil {
		return "err"
	}
	return "ok"
}

func hasReuse(rt swaptypes.Route) bool {
	seen := map[uint64]bool{}
	dup := false
	var nodes []*swaptypes.Route
	routeNodes(&rt, &nodes)
	for _, n := range nodes {
		if p, ok := n.Strategy.(*swaptypes.Route_Pool); ok {
			if seen[p.Pool.PoolId] {
				dup = true
			}
			seen[p.Pool.PoolId] = true
		}
	}
	return dup
}

// ---------------------------------------------------------------- setup

func freshAddr(tag string, h, k int) sdk.AccAddress {
	x := sha256.Sum256([]byte(fmt.Sprintf("route/%s/%d/%d", tag, h, k)))
	return sdk.AccAddress(x[:20])
}

func (w *routeWorld) setup(h int) error {
	r := w.e.R
	cfg := sim.DefaultConfig()
	big := sdkmath.NewIntWithDecimal(1, 40)
	cfg.Balances = sdk.NewCoins(sdk.NewCoin("urise", sdkmath.NewInt(1_000_000_000_000)), sdk.NewCoin("uvrise", sdkmath.NewInt(1_000_000_000_000)))
	for _, d := range routeDenoms {
		cfg.Balances = cfg.Balances.Add(sdk.NewCoin(d, big))
	}
	w.rate = []string{"0.010000000000000000", "0.010000000000000000", "0.000000000000000000", "0.003000000000000000", "0.250000000000000000", "0.000000000000000001", "0.999999999999999999"}[r.N(7)]
	rate := w.rate
	cfg.GenesisMut = func(_ sim.Codec, gs map[string]json.RawMessage) {
		var m map[string]json.RawMessage
		_ = json.Unmarshal(gs["swap"], &m)
		if m == nil {
			m = map[string]json.RawMessage{}
		}
		m["params"] = json.RawMessage(fmt.Sprintf(`{"interface_fee_rate":"%s"}`, rate))
		gs["swap"], _ = json.Marshal(m)
	}
	c, err := sim.New(cfg)
	if err != nil {
		return err
	}
	w.c = c
	w.pools = nil
	w.qs = swapkeeper.NewQueryServerImpl(c.App.SwapKeeper)
	lpAddr := c.Accs[0].Addr.String()
	np := 12 + r.N(7)
	pairs := [][2]int{}
	for i := range routeDenoms {
		for j := range routeDenoms {
			if i != j {
				pairs = append(pairs, [2]int{i, j})
			}
		}
	}
	for i := 0; i < np; i++ {
		a := r.N(len(routeDenoms))
		b := (a + 1 + r.N(len(routeDenoms)-1)) % len(routeDenoms)
		if i < 6 {
			// every unordered pair gets at least one pool (random orientation)
			k := 0
			for _, pr := range pairs {
				if pr[0] < pr[1] {
					if k == i {
						a, b = pr[0], pr[1]
						if r.Bool() {
							a, b = b, a
						}
					}
					k++
				}
			}
		}
		fee := r.Pick("0", "0.003", "0.01", "0.0005", "0.003")
		resp, err, p := c.Exec(&lptypes.MsgCreatePool{Authority: lpAddr, DenomBase: routeDenoms[a], DenomQuote: routeDenoms[b], FeeRate: fee, PriceRatio: "1.0001", BaseOffset: r.Pick("0.5", "0", "0.5")})
		if err != nil || p != nil {
			return fmt.Errorf("create pool: %v %v", err, p)
		}
		id := resp.(*lptypes.MsgCreatePoolResponse).Id
		w.pools = append(w.pools, rpool{id, routeDenoms[a], routeDenoms[b]})
		// first position: wide range around the initial price
		baseAmt := sdkmath.NewIntFromBigInt(r.Big(9)).MulRaw(1_000_000).Add(sdkmath.NewInt(1_000_000_000_000))
		num := int64(1 + r.N(4))
		den := int64(1 + r.N(4))
		quoteAmt := baseAmt.MulRaw(num).QuoRaw(den)
		_, err, p = c.Exec(&lptypes.MsgCreatePosition{Sender: lpAddr, PoolId: id, LowerTick: -40000, UpperTick: 40000,
			TokenBase: sdk.NewCoin(routeDenoms[a], baseAmt), TokenQuote: sdk.NewCoin(routeDenoms[b], quoteAmt), MinAmountBase: sdkmath.ZeroInt(), MinAmountQuote: sdkmath.ZeroInt()})
		if err != nil || p != nil {
			return fmt.Errorf("create position: %v %v", err, p)
		}
		pool, _, _ := c.App.LiquiditypoolKeeper.GetPool(c.Ctx(), id)
		// narrower positions around the current tick so that swaps cross initialised ticks
		for k := r.N(3); k > 0; k-- {
			lo := pool.CurrentTick - int64(1+r.N(300))
			hi := pool.CurrentTick + int64(1+r.N(300))
			amt := baseAmt.QuoRaw(int64(1 + r.N(20)))
			_, err, p = c.Exec(&lptypes.MsgCreatePosition{Sender: lpAddr, PoolId: id, LowerTick: lo, UpperTick: hi,
				TokenBase: sdk.NewCoin(routeDenoms[a], amt), TokenQuote: sdk.NewCoin(routeDenoms[b], amt.MulRaw(num).QuoRaw(den)), MinAmountBase: sdkmath.ZeroInt(), MinAmountQuote: sdkmath.ZeroInt()})
			if err != nil || p != nil {
				w.e.Note("narrow position failed: %v %v", err, p)
			}
		}
	}
	// prior trading: move the pools
	trader := c.Accs[2].Addr.String()
	for i := 0; i < 2*np; i++ {
		p := w.pools[r.N(len(w.pools))]
		din, dout := p.base, p.quote
		if r.Bool() {
			din, dout = dout, din
		}
		amt := sdkmath.NewIntFromBigInt(r.Big(10))
		_, err, pn := c.Exec(&swaptypes.MsgSwapExactAmountIn{Sender: trader, Route: poolRoute(din, dout, p.id), AmountIn: amt, MinAmountOut: sdkmath.OneInt()})
		if pn != nil {
			w.e.Note("prior trade panic: %v", pn)
		}
		if err == nil {
			w.e.Stat("prior.ok")
		} else {
			w.e.Stat("prior.err")
		}
	}
	if _, err := c.NextBlock(6e9); err != nil {
		return err
	}
	return nil
}

// ---------------------------------------------------------------- the suite

// partialFillScenario: a pool whose only position reaches down to the extreme tick, and a swap larger than the pool can take:
// the swap loop stops at the price limit with part of the stated amount left over.  The message must either move exactly the
// stated amount or fail (C03-P1, fixed by 6584aed: it used to succeed with a partial fill).  Oracle only, own chain.
func partialFillScenario(e *Env) {
	c, err := sim.New(sim.DefaultConfig())
	if err != nil {
		e.Note("partial-fill scenario: setup error %v", err)
		return
	}
	lp, tr := c.Accs[0].Addr.String(), c.Accs[1].Addr
	resp, err, pn := c.Exec(&lptypes.MsgCreatePool{Authority: lp, DenomBase: "uaaa", DenomQuote: "ubbb", FeeRate: "0.003", PriceRatio: "10", BaseOffset: "0.5"})
	if err != nil || pn != nil {
		e.Note("partial-fill scenario: create pool %v %v", err, pn)
		return
	}
	id := resp.(*lptypes.MsgCreatePoolResponse).Id
	if _, err, pn = c.Exec(&lptypes.MsgCreatePosition{Sender: lp, PoolId: id, LowerTick: lptypes.TICK_MIN, UpperTick: 2,
		TokenBase: sdk.NewInt64Coin("uaaa", 1000), TokenQuote: sdk.NewInt64Coin("ubbb", 1000), MinAmountBase: sdkmath.ZeroInt(), MinAmountQuote: sdkmath.ZeroInt()}); err != nil || pn != nil {
		e.Note("partial-fill scenario: create position %v %v", err, pn)
		return
	}
	e.Stat("scenario.partial_fill_at_price_limit")
	big, _ := sdkmath.NewIntFromString("10000000000000000000000000")
	for _, amt := range []sdkmath.Int{big, sdkmath.NewInt(5000)} {
		a0, b0 := c.Bal(tr, "uaaa"), c.Bal(tr, "ubbb")
		r, err, pn := c.Exec(&swaptypes.MsgSwapExactAmountIn{Sender: tr.String(), Route: poolRoute("uaaa", "ubbb", id), AmountIn: amt, MinAmountOut: sdkmath.OneInt()})
		deb, cred := a0.Sub(c.Bal(tr, "uaaa")), c.Bal(tr, "ubbb").Sub(b0)
		e.Oracle("no_panic", pn == nil, "scenario=partial_fill_at_price_limit swapIn %s: %v", amt, pn)
		if err == nil && pn == nil {
			rr := r.(*swaptypes.MsgSwapExactAmountInResponse)
			e.Oracle("in_debit_exact", deb.Equal(amt), "scenario=partial_fill_at_price_limit swapIn stated=%s debited=%s credited=%s", amt, deb, cred)
			e.Oracle("response_eq_moved", rr.Result.TokenIn.Amount.Equal(deb) && rr.AmountOut.Equal(cred), "scenario=partial_fill_at_price_limit swapIn response in=%s out=%s moved in=%s out=%s", rr.Result.TokenIn.Amount, rr.AmountOut, deb, cred)
			e.Stat("scenario.partial_fill.swapIn.ok")
		} else {
			e.Oracle("in_debit_exact", deb.IsZero() && cred.IsZero(), "scenario=partial_fill_at_price_limit failed swapIn moved %s/%s", deb, cred)
			e.Stat("scenario.partial_fill.swapIn.err")
		}
	}
	for _, amt := range []sdkmath.Int{sdkmath.NewInt(2000), sdkmath.NewInt(100)} {
		a0, b0 := c.Bal(tr, "uaaa"), c.Bal(tr, "ubbb")
		_, err, pn := c.Exec(&swaptypes.MsgSwapExactAmountOut{Sender: tr.String(), Route: poolRoute("uaaa", "ubbb", id), MaxAmountIn: big, AmountOut: amt})
		deb, cred := a0.Sub(c.Bal(tr, "uaaa")), c.Bal(tr, "ubbb").Sub(b0)
		e.Oracle("no_panic", pn == nil, "scenario=partial_fill_at_price_limit swapOut %s: %v", amt, pn)
		if err == nil && pn == nil {
			e.Oracle("out_credit_exact", cred.Equal(amt), "scenario=partial_fill_at_price_limit swapOut stated=%s credited=%s debited=%s", amt, cred, deb)
			e.Stat("scenario.partial_fill.swapOut.ok")
		} else {
			e.Oracle("out_credit_exact", deb.IsZero() && cred.IsZero(), "scenario=partial_fill_at_price_limit failed swapOut moved %s/%s", deb, cred)
			e.Stat("scenario.partial_fill.swapOut.err")
		}
	}
}

func suiteRoute(e *Env) {
	partialFillScenario(e)
	w := &routeWorld{e: e}
	for h := 0; h < e.N; h++ {
		if err := w.setup(h); err != nil {
			e.Obs("setup-error %v", err)
			return
		}
		w.history(h)
	}
}

func (w *routeWorld) history(h int) {
	e, c, r := w.e, w.c, w.e.R
	prov := c.Accs[1].Addr
	// reset: everything the model needs
	{
		ps := []string{}
		for _, p := range w.pools {
			bs := []string{}
			for _, d := range routeDenoms {
				bs = append(bs, w.poolBal(p.id, d).String())
			}
			ps = append(ps, fmt.Sprintf("%d:%s", p.id, strings.Join(bs, ":")))
		}
		bs := []string{}
		for _, d := range routeDenoms {
			bs = append(bs, c.Bal(prov, d).String())
		}
		rate, _ := sdkmath.LegacyNewDecFromStr(w.rate)
		e.In("reset rate=%s denoms=%s prov=%s pools=%s", rate.BigInt(), strings.Join(routeDenoms, ","), strings.Join(bs, ":"), strings.Join(ps, ","))
	}
	nops := 10
	if e.Tier == "thorough" {
		nops = 16
	}
	for k := 0; k < nops; k++ {
		// ---- route
		var rt *swaptypes.Route
		var din, dout string
		for try := 0; try < 50 && rt == nil; try++ {
			din = routeDenoms[r.N(len(routeDenoms))]
			dout = routeDenoms[r.N(len(routeDenoms))]
			depth := 1 + r.N(4)
			if r.N(7) == 0 {
				depth = 0
			}
			rt = w.gen(din, dout, depth, map[uint64]bool{})
		}
		if rt == nil {
			e.Note("no route")
			continue
		}
		kind := "valid"
		if r.N(10) < 3 {
			if m := w.malform(rt); m != "" {
				kind = m
			}
		}
		route := *rt
		exactIn := r.N(2) == 0
		withProv := r.N(2) == 0
		provStr := ""
		provName := "-"
		if withProv {
			provStr = prov.String()
			provName = "a1"
		}
		var amount sdkmath.Int
		switch r.N(8) {
		case 0:
			amount = sdkmath.NewInt(int64(1 + r.N(3)))
		case 1:
			amount = sdkmath.NewIntFromBigInt(r.Big(22))
		default:
			amount = sdkmath.NewIntFromBigInt(r.Big(10))
		}
		sender := freshAddr("s", h, k)
		sname := fmt.Sprintf("s%d", k)
		e.Stat("kind." + kind)
		dir := "In"
		if !exactIn {
			dir = "Out"
		}
		e.Stat("dir." + dir)
		enc := encRoute(route)

		// ---- boundary: pool quotes on the pre-state for the amounts the walk will ask for
		structurallyValid := kind == "valid" || kind == "reuse" || kind == "nopool"
		var quoteAmount sdkmath.Int
		if structurallyValid {
			if exactIn {
				w.recordExt(route, amount, false)
			} else {
				quoteAmount = amount
				if withProv {
					one := sdkmath.LegacyOneDec()
					rate, _ := sdkmath.LegacyNewDecFromStr(w.rate)
					quoteAmount = sdkmath.LegacyNewDecFromInt(amount).Quo(one.Sub(rate)).TruncateInt()
				}
				w.recordExt(route, quoteAmount, true)
			}
		}

		// ---- quote on the pre-state (only structurally valid routes: the query does not validate, see C15)
		type quote struct {
			ok          bool
			res         string
			fee, amount sdkmath.Int // amount = net out (exact-in) / amount in (exact-out)
			rr          swaptypes.RouteResult
		}
		var q quote
		if structurallyValid {
			has := 0
			if withProv {
				has = 1
			}
			e.In("quote%s has=%d amt=%s route=%s", dir, has, amount, enc)
			var qerr error
			var qp any
			func() {
				defer func() {
					if x := recover(); x != nil {
						qp = x
					}
				}()
				ctx, _ := c.Ctx().CacheContext()
				if exactIn {
					resp, err := w.qs.CalculationSwapExactAmountIn(ctx, &swaptypes.QueryCalculationSwapExactAmountInRequest{HasInterfaceFee: withProv, Route: &route, AmountIn: amount.String()})
					qerr = err
					if err == nil {
						q = quote{true, encResult(resp.Result), resp.InterfaceProviderFee, resp.AmountOut, resp.Result}
					}
				} else {
					resp, err := w.qs.CalculationSwapExactAmountOut(ctx, &swaptypes.QueryCalculationSwapExactAmountOutRequest{HasInterfaceFee: withProv, Route: &route, AmountOut: amount.String()})
					qerr = err
					if err == nil {
						q = quote{true, encResult(resp.Result), resp.InterfaceProviderFee, resp.AmountIn, resp.Result}
					}
				}
			}()
			cls := class(qerr, qp)
			e.Stat("quote." + cls)
			if q.ok {
				e.Obs("q ok amt=%s fee=%s res=%s", q.amount, q.fee, q.res)
			} else {
				e.Obs("q %s", cls)
			}
			e.Oracle("quote_no_panic", cls != "panic", "quote%s kind=%s route=%s amt=%s", dir, kind, enc, amount)
		}

		// ---- limit and funding around the quoted result
		var limit sdkmath.Int
		if q.ok {
			switch r.N(6) {
			case 0:
				limit = q.amount.SubRaw(1)
			case 1:
				limit = q.amount.AddRaw(1)
			case 2:
				limit = q.amount
			case 3:
				if exactIn {
					limit = sdkmath.OneInt()
				} else {
					limit = q.amount.MulRaw(2)
				}
			case 4:
				limit = sdkmath.NewIntFromBigInt(r.Big(12))
			default:
				limit = q.amount
			}
		} else {
			limit = sdkmath.NewIntFromBigInt(r.Big(12))
		}
		if r.N(25) == 0 {
			limit = sdkmath.NewInt(int64(r.N(2)) - 1) // 0 / -1: static validation
		}
		need := amount
		if !exactIn {
			need = limit
			if q.ok {
				need = q.amount
			}
		}
		fund := map[string]sdkmath.Int{}
		fundKind := "exact"
		switch r.N(8) {
		case 0:
			fundKind = "short"
			fund[din] = need.SubRaw(1)
		case 1:
			fundKind = "rich"
			for _, d := range routeDenoms {
				fund[d] = need.MulRaw(3).AddRaw(7)
			}
		default:
			fund[din] = need
		}
		coins := sdk.NewCoins()
		fs := []string{}
		for _, d := range routeDenoms {
			if x, ok := fund[d]; ok && x.IsPositive() {
				coins = coins.Add(sdk.NewCoin(d, x))
				fs = append(fs, d+"="+x.String())
			}
		}
		if len(coins) > 0 {
			if err, p := c.Call(func(ctx sdk.Context) error { return c.App.BankKeeper.SendCoins(ctx, c.Accs[3].Addr, sender, coins) }); err != nil || p != nil {
				e.Obs("fund-error %v %v", err, p)
				return
			}
		}
		e.In("fund %s %s", sname, strings.Join(fs, " "))
		e.Stat("fund." + fundKind)

		// ---- execute
		named := map[string]sdk.AccAddress{sname: sender, "a1": prov, "module:swap": sdk.AccAddress(authAddr("swap"))}
		pre := w.snapshot(named)
		var resp any
		var err error
		var pn any
		if exactIn {
			e.In("swapIn s=%s prov=%s amt=%s min=%s route=%s", sname, provName, amount, limit, enc)
			resp, err, pn = c.Exec(&swaptypes.MsgSwapExactAmountIn{Sender: sender.String(), InterfaceProvider: provStr, Route: route, AmountIn: amount, MinAmountOut: limit})
		} else {
			e.In("swapOut s=%s prov=%s amt=%s max=%s route=%s", sname, provName, amount, limit, enc)
			resp, err, pn = c.Exec(&swaptypes.MsgSwapExactAmountOut{Sender: sender.String(), InterfaceProvider: provStr, Route: route, MaxAmountIn: limit, AmountOut: amount})
		}
		cls := class(err, pn)
		e.Stat("swap" + dir + "." + cls)
		post := w.snapshot(named)
		dstr, d := deltas(pre, post)
		desc := fmt.Sprintf("swap%s h=%d k=%d kind=%s prov=%s fund=%s amt=%s limit=%s route=%s", dir, h, k, kind, provName, fundKind, amount, limit, enc)
		e.Oracle("no_panic", cls != "panic", "%s %v", desc, pn)
		if kind != "valid" && kind != "nopool" {
			e.Oracle("invalid_route_rejected", cls == "err", "%s got=%s", desc, cls)
		}
		if kind == "reuse" {
			v := safeValidate(route)
			e.Oracle("validate_reuse_is_error", v == "err", "Route.Validate on reused pool: %s route=%s", v, enc)
		}
		if cls != "ok" {
			e.Obs("%s | %s", cls, dstr)
			if err != nil {
				e.Note("err: %.160s", strings.ReplaceAll(err.Error(), "\n", " "))
			}
			// liveness half of the property: the quote succeeded within the limit, the sender holds the input amount
			// of the input denom (and possibly nothing else) => the swap must go through
			if q.ok && kind == "valid" && fundKind != "short" && limit.IsPositive() {
				within := (exactIn && q.amount.GTE(limit)) || (!exactIn && q.amount.LTE(limit))
				zeroLeg := false
				resultLeaves(q.rr, func(id uint64, in, out sdk.Coin) {
					if !in.Amount.IsPositive() || !out.Amount.IsPositive() {
						zeroLeg = true
					}
				})
				if within && !zeroLeg {
					e.Oracle("input_denom_suffices", false, "%s quote=%s err=%.120s", desc, q.amount, fmt.Sprint(err))
				} else if within {
					// the pool keeper refuses a swap whose computed amount is zero, the quote does not
					e.Oracle("zero_leg_executes", false, "%s quote=%s err=%.120s", desc, q.amount, fmt.Sprint(err))
				}
			}
			continue
		}
		// ---- success: the property's predicate on balance deltas
		var rres swaptypes.RouteResult
		var rfee, rout sdkmath.Int
		if exactIn {
			x := resp.(*swaptypes.MsgSwapExactAmountInResponse)
			rres, rfee, rout = x.Result, x.InterfaceProviderFee, x.AmountOut
		} else {
			x := resp.(*swaptypes.MsgSwapExactAmountOutResponse)
			rres, rfee, rout = x.Result, x.InterfaceProviderFee, x.AmountOut
		}
		e.Obs("ok out=%s fee=%s res=%s | %s", rout, rfee, encResult(rres), dstr)
		// expected sender deltas from the response; compare with the real ones
		dIn := d[sname+"."+din]
		dOut := d[sname+"."+dout]
		var debited, credited sdkmath.Int
		if din != dout {
			debited, credited = dIn.Neg(), dOut
		} else {
			// same denom in and out: only the net movement is observable; use the response for the split
			debited = rres.TokenIn.Amount
			credited = dIn.Add(debited)
		}
		if exactIn {
			e.Oracle("in_debit_exact", debited.Equal(amount), "%s debited=%s", desc, debited)
			e.Oracle("in_min_out", credited.GTE(limit), "%s credited=%s", desc, credited)
		} else {
			e.Oracle("out_credit_exact", credited.Equal(amount), "%s credited=%s", desc, credited)
			e.Oracle("out_max_in", debited.LTE(limit), "%s debited=%s", desc, debited)
		}
		other := true
		for _, dd := range routeDenoms {
			if dd != din && dd != dout && !d[sname+"."+dd].IsZero() {
				other = false
			}
		}
		e.Oracle("no_other_sender_balance", other, "%s deltas=%s", desc, dstr)
		// response = amounts moved
		okResp := rres.TokenIn.Denom == din && rres.TokenOut.Denom == dout && rres.TokenIn.Amount.Equal(debited) &&
			rout.Equal(credited) && rres.TokenOut.Amount.Equal(credited.Add(rfee))
		provOK := true
		for _, dd := range routeDenoms {
			want := sdkmath.ZeroInt()
			if dd == dout && withProv {
				want = rfee
			}
			if !d["a1."+dd].Equal(want) {
				provOK = false
			}
		}
		if !withProv && !rfee.IsZero() {
			provOK = false
		}
		e.Oracle("response_eq_moved", okResp && provOK, "%s resp(out=%s fee=%s in=%s) deltas=%s", desc, rout, rfee, rres.TokenIn.Amount, dstr)
		// every pool named in the result tree moved exactly what its leaf says; nobody else moved
		leafOK := true
		exp := map[string]sdkmath.Int{}
		add := func(k string, x sdkmath.Int) {
			if v, ok := exp[k]; ok {
				exp[k] = v.Add(x)
			} else {
				exp[k] = x
			}
		}
		resultLeaves(rres, func(id uint64, in, out sdk.Coin) {
			add(fmt.Sprintf("p%d.%s", id, in.Denom), in.Amount)
			add(fmt.Sprintf("p%d.%s", id, out.Denom), out.Amount.Neg())
		})
		for _, p := range w.pools {
			for _, dd := range routeDenoms {
				k := fmt.Sprintf("p%d.%s", p.id, dd)
				want, ok := exp[k]
				if !ok {
					want = sdkmath.ZeroInt()
				}
				if !d[k].Equal(want) {
					leafOK = false
				}
			}
		}
		for _, dd := range routeDenoms {
			if !d["module:swap."+dd].IsZero() {
				leafOK = false
			}
		}
		e.Oracle("pools_moved_as_reported", leafOK, "%s deltas=%s res=%s", desc, dstr, encResult(rres))
		// conservation over everybody we watch
		cons := true
		for _, dd := range routeDenoms {
			sum := sdkmath.ZeroInt()
			for k, x := range d {
				if strings.HasSuffix(k, "."+dd) {
					sum = sum.Add(x)
				}
			}
			if !sum.IsZero() {
				cons = false
			}
		}
		e.Oracle("conservation", cons, "%s deltas=%s", desc, dstr)
		// quote on the pre-state = response
		if structurallyValid {
			same := q.ok && q.res == encResult(rres) && q.fee.Equal(rfee)
			if exactIn {
				same = same && q.amount.Equal(rout)
			} else {
				same = same && q.amount.Equal(rres.TokenIn.Amount)
			}
			e.Oracle("quote_eq_execute", same, "%s quote(ok=%v amt=%s fee=%s res=%s) resp(out=%s fee=%s res=%s)", desc, q.ok, q.amount, q.fee, q.res, rout, rfee, encResult(rres))
		}
	}
}

func authAddr(module string) []byte { return authtypes.NewModuleAddress(module) }
