package main

// C15: state set-up, reflection-driven fuzzing of every Msg and every Query method of the custom modules.

import (
	"bytes"
	"context"
	"encoding/base64"
	"encoding/json"
	"fmt"
	"os"
	"reflect"
	"sort"
	"strings"
	"time"

	sdkmath "cosmossdk.io/math"
	groth16bn254 "github.com/consensys/gnark/backend/groth16/bn254"
	codectypes "github.com/cosmos/cosmos-sdk/codec/types"
	cryptocodec "github.com/cosmos/cosmos-sdk/crypto/codec"
	"github.com/cosmos/cosmos-sdk/crypto/keys/ed25519"
	sdk "github.com/cosmos/cosmos-sdk/types"
	"github.com/cosmos/gogoproto/proto"
	transfertypes "github.com/cosmos/ibc-go/v9/modules/apps/transfer/types"
	"google.golang.org/protobuf/encoding/protowire"

	dakeeper "github.com/sunriselayer/sunrise/x/da/keeper"
	datypes "github.com/sunriselayer/sunrise/x/da/types"
	feekeeper "github.com/sunriselayer/sunrise/x/fee/keeper"
	likeeper "github.com/sunriselayer/sunrise/x/liquidityincentive/keeper"
	litypes "github.com/sunriselayer/sunrise/x/liquidityincentive/types"
	lpkeeper "github.com/sunriselayer/sunrise/x/liquiditypool/keeper"
	lptypes "github.com/sunriselayer/sunrise/x/liquiditypool/types"
	sdkeeper "github.com/sunriselayer/sunrise/x/selfdelegation/keeper"
	sdtypes "github.com/sunriselayer/sunrise/x/selfdelegation/types"
	sckeeper "github.com/sunriselayer/sunrise/x/shareclass/keeper"
	sctypes "github.com/sunriselayer/sunrise/x/shareclass/types"
	swapkeeper "github.com/sunriselayer/sunrise/x/swap/keeper"
	swaptypes "github.com/sunriselayer/sunrise/x/swap/types"
	tckeeper "github.com/sunriselayer/sunrise/x/tokenconverter/keeper"
	tctypes "github.com/sunriselayer/sunrise/x/tokenconverter/types"

	"svh/sim"
)

var customPrefixes = []string{"/sunrise.da.", "/sunrise.fee.", "/sunrise.liquidityincentive.", "/sunrise.liquiditypool.", "/sunrise.selfdelegation.", "/sunrise.shareclass.", "/sunrise.swap.", "/sunrise.tokenconverter."}

func isCustom(url string) bool {
	for _, p := range customPrefixes {
		if strings.HasPrefix(url, p) {
			return true
		}
	}
	return false
}

func (u *U) must(what string, msg sdk.Msg) {
	_, err, p := u.c.Exec(msg)
	if err != nil || p != nil {
		u.e.Note("setup %s: err=%v panic=%v", what, err, p)
	}
}

func coin(d string, a int64) sdk.Coin { return sdk.NewCoin(d, sdkmath.NewInt(a)) }

func (u *U) setupState() {
	c := u.c
	a := func(i int) string { return c.Accs[i].Addr.String() }
	if mw, ok := c.App.IBCKeeper.PortKeeper.Route("transfer"); ok {
		u.mw = mw
	}
	// a voucher denom: plain transfer (no memo) of uxyz over transfer/channel-0
	if u.mw != nil {
		cls, pv := u.recv(u.ftData("uxyz", "1000000000000000000", "cosmos1sender", a(0), ""), 1)
		if cls == "ok" {
			u.ibcDenom = transfertypes.ExtractDenomFromPath("transfer/channel-0/uxyz").IBCDenom()
		}
		u.e.Note("setup voucher: %s %v denom=%s bal=%s", cls, pv, u.ibcDenom, c.Bal(c.Accs[0].Addr, u.ibcDenom))
	}
	pools := [][2]string{{"uaaa", "ubbb"}, {"ubbb", "uccc"}, {"uaaa", "uccc"}}
	if u.ibcDenom != "" {
		pools = append(pools, [2]string{u.ibcDenom, "uaaa"}, [2]string{u.ibcDenom, "uaaa"})
	}
	for i, p := range pools {
		u.must("pool", &lptypes.MsgCreatePool{Authority: a(0), DenomBase: p[0], DenomQuote: p[1], FeeRate: "0.01", PriceRatio: "1.0001", BaseOffset: "0.5"})
		u.must("position", &lptypes.MsgCreatePosition{Sender: a(0), PoolId: uint64(i), LowerTick: -4000, UpperTick: 4000,
			TokenBase: coin(p[0], 1_000_000_000), TokenQuote: coin(p[1], 1_000_000_000), MinAmountBase: sdkmath.ZeroInt(), MinAmountQuote: sdkmath.ZeroInt()})
	}
	u.must("position2", &lptypes.MsgCreatePosition{Sender: a(1), PoolId: 0, LowerTick: -100, UpperTick: 200,
		TokenBase: coin("uaaa", 5_000_000), TokenQuote: coin("ubbb", 5_000_000), MinAmountBase: sdkmath.ZeroInt(), MinAmountQuote: sdkmath.ZeroInt()})
	// pool states the calculation queries must also survive: positions entirely above / below the price (one-sided), a pool
	// that never had a position, and a pool whose only position was withdrawn (reset)
	u.must("position-above", &lptypes.MsgCreatePosition{Sender: a(2), PoolId: 2, LowerTick: 500, UpperTick: 700,
		TokenBase: coin("uaaa", 5_000_000), TokenQuote: coin("uccc", 0), MinAmountBase: sdkmath.ZeroInt(), MinAmountQuote: sdkmath.ZeroInt()})
	u.must("position-below", &lptypes.MsgCreatePosition{Sender: a(2), PoolId: 2, LowerTick: -700, UpperTick: -500,
		TokenBase: coin("uaaa", 0), TokenQuote: coin("uccc", 5_000_000), MinAmountBase: sdkmath.ZeroInt(), MinAmountQuote: sdkmath.ZeroInt()})
	u.emptyPool = uint64(len(pools))
	u.must("pool-empty", &lptypes.MsgCreatePool{Authority: a(0), DenomBase: "ubbb", DenomQuote: "uaaa", FeeRate: "0.003", PriceRatio: "1.0001", BaseOffset: "0.5"})
	u.resetPool = u.emptyPool + 1
	u.must("pool-reset", &lptypes.MsgCreatePool{Authority: a(0), DenomBase: "uccc", DenomQuote: "ubbb", FeeRate: "0.003", PriceRatio: "1.0001", BaseOffset: "0.5"})
	if resp, err, p := c.Exec(&lptypes.MsgCreatePosition{Sender: a(3), PoolId: u.resetPool, LowerTick: -50, UpperTick: 50,
		TokenBase: coin("uccc", 1_000_000), TokenQuote: coin("ubbb", 1_000_000), MinAmountBase: sdkmath.ZeroInt(), MinAmountQuote: sdkmath.ZeroInt()}); err == nil && p == nil {
		r := resp.(*lptypes.MsgCreatePositionResponse)
		u.must("pool-reset-withdraw", &lptypes.MsgDecreaseLiquidity{Sender: a(3), Id: r.Id, Liquidity: r.Liquidity})
	} else {
		u.e.Note("setup pool-reset: %v %v", err, p)
	}
	// DA
	hashes := [][]byte{bytes.Repeat([]byte{1}, 32), bytes.Repeat([]byte{2}, 32), bytes.Repeat([]byte{3}, 32)}
	for _, uri := range []string{"ipfs://d1", "ipfs://d2"} {
		u.must("publish", &datypes.MsgPublishData{Sender: a(1), MetadataUri: uri, ParityShardCount: 1, ShardDoubleHashes: hashes, DataSourceInfo: "x"})
		u.uris = append(u.uris, uri)
	}
	err, p := c.Call(func(ctx sdk.Context) error {
		d, found, err := c.App.DaKeeper.GetPublishedData(ctx, "ipfs://d2")
		if err != nil || !found {
			return fmt.Errorf("d2 not found: %v", err)
		}
		d.Status = datypes.Status_STATUS_CHALLENGING
		return c.App.DaKeeper.SetPublishedData(ctx, d)
	})
	if err != nil || p != nil {
		u.e.Note("setup challenging: %v %v", err, p)
	}
	u.must("deputy", &datypes.MsgRegisterProofDeputy{Sender: a(0), DeputyAddress: a(1)})
	u.must("invalidity", &datypes.MsgSubmitInvalidity{Sender: a(2), MetadataUri: "ipfs://d1", Indices: []int64{0}})
	var buf bytes.Buffer
	if _, err := (&groth16bn254.Proof{}).WriteTo(&buf); err == nil {
		u.proofBz = buf.Bytes()
	}
	u.must("vote", &litypes.MsgVoteGauge{Sender: a(0), PoolWeights: []litypes.PoolWeight{{PoolId: 0, Weight: "0.5"}}})
	u.must("nvdelegate", &sctypes.MsgNonVotingDelegate{Sender: a(1), ValidatorAddress: c.Vals[0].Oper.String(), Amount: coin("urise", 1_000_000)})
	if _, err := c.NextBlock(6 * time.Second); err != nil {
		u.e.Note("setup block: %v", err)
	}
}

// ------------------------------------------------------------------------------------------------ value fuzzer

var numStrings = []string{"", "0", "1", "-1", "2", "1000", "0.5", "0.01", "1.0001", "2", "-0.5", "1.000000000000000000000001", "abc", "1e5", "NaN", "+1", "--1", "1.", ".5", " 1",
	"9223372036854775807", "9223372036854775808", "-9223372036854775808", "-9223372036854775809", "18446744073709551615", "18446744073709551616", "4000", "-4000", "7", "-7",
	"100000000000000000000000000000000000000000000000000000000000000000000000000000000",
	"115792089237316195423570985008687907853269984665640564039457584007913129639935", "115792089237316195423570985008687907853269984665640564039457584007913129639936",
	"66749594872528440074844428317798503581334516323645399060845050244444366430645.017188217565216768", "0.000000000000000001", "0.999999999999999999", "1.5", "10"}

func (u *U) fuzzString(hint string) string {
	h := strings.ToLower(hint)
	c := u.c
	switch {
	case strings.Contains(h, "validator"):
		return u.r.Pick(c.Vals[0].Oper.String(), c.Vals[0].Oper.String(), sdk.ValAddress(c.Accs[1].Addr).String(), c.Accs[0].Addr.String(), "", "sunrisevaloper1xyz", strings.Repeat("v", 5000))
	case strings.Contains(h, "sender"), strings.Contains(h, "authority"), strings.Contains(h, "address"), strings.Contains(h, "owner"), strings.Contains(h, "recipient"), strings.Contains(h, "provider"), strings.Contains(h, "deputy"), strings.Contains(h, "receiver"):
		gov := sdk.AccAddress(crypto20("gov")).String()
		return u.r.Pick(c.Accs[0].Addr.String(), c.Accs[1].Addr.String(), c.Accs[2].Addr.String(), c.Accs[3].Addr.String(), "", "garbage", "cosmos1qqqqqqqqqqqqqqqqqqqqqqqqqqqqqqqqnrql8a", c.Vals[0].Oper.String(), gov, u.authority(), strings.Repeat("a", 10000))
	case strings.Contains(h, "denom"):
		return u.r.Pick("uaaa", "ubbb", "uccc", "urise", "uvrise", u.ibcDenom, "", "x", "UPPER", "a/b", strings.Repeat("d", 200), "nonvoting/share/x")
	case strings.Contains(h, "uri"):
		return u.r.Pick("ipfs://d1", "ipfs://d2", "ipfs://new", "", strings.Repeat("u", 100000), fmt.Sprintf("ipfs://r%d", u.r.N(1000)))
	case strings.Contains(h, "weight"), strings.Contains(h, "rate"), strings.Contains(h, "ratio"), strings.Contains(h, "offset"), strings.Contains(h, "liquidity"), strings.Contains(h, "amount"), strings.Contains(h, "tick"),
		strings.Contains(h, "count"), strings.Contains(h, "price"), strings.Contains(h, "threshold"), strings.Contains(h, "fraction"), strings.Contains(h, "factor"), strings.Contains(h, "share"):
		return numStrings[u.r.N(len(numStrings))]
	}
	switch u.r.N(6) {
	case 0:
		return ""
	case 1:
		return numStrings[u.r.N(len(numStrings))]
	case 2:
		return strings.Repeat("x", u.r.N(20000))
	case 3:
		return u.fuzzString("sender")
	case 4:
		return u.fuzzString("denom")
	}
	return u.r.Pick("a", "\x00", "é", "moniker", "ipfs://d1")
}

func crypto20(s string) []byte { b := make([]byte, 20); copy(b, s); return b }

func (u *U) authority() string {
	return sdk.AccAddress(u.c.App.SwapKeeper.GetAuthority()).String()
}

var intPool = []int64{0, 1, 2, 3, 7, 100, 4000, -1, -2, -4000, 1 << 31, 1<<31 - 1, 1 << 32, 1<<63 - 1, -1 << 63, 1 << 62, 443636, -443636, 887272, -887272}

func (u *U) fuzzInt() sdkmath.Int {
	switch u.r.N(9) {
	case 0:
		return sdkmath.Int{} // nil: the field is absent on the wire
	case 1:
		return sdkmath.ZeroInt()
	case 2:
		return sdkmath.NewInt(-1 - int64(u.r.N(1000)))
	case 3:
		v, _ := sdkmath.NewIntFromString("115792089237316195423570985008687907853269984665640564039457584007913129639935")
		return v
	case 4:
		v, _ := sdkmath.NewIntFromString("-115792089237316195423570985008687907853269984665640564039457584007913129639935")
		return v
	case 5:
		return sdkmath.NewIntFromBigInt(u.r.Big(40))
	}
	return sdkmath.NewIntFromBigInt(u.r.Big(9))
}

var (
	tInt      = reflect.TypeOf(sdkmath.Int{})
	tDec      = reflect.TypeOf(sdkmath.LegacyDec{})
	tTime     = reflect.TypeOf(time.Time{})
	tDuration = reflect.TypeOf(time.Duration(0))
	tAny      = reflect.TypeOf(&codectypes.Any{})
	tRoute    = reflect.TypeOf(swaptypes.Route{})
)

func (u *U) fuzzValue(t reflect.Type, hint string, depth int) reflect.Value {
	switch t {
	case tInt:
		return reflect.ValueOf(u.fuzzInt())
	case tDec:
		if u.r.N(4) == 0 {
			return reflect.ValueOf(sdkmath.LegacyDec{})
		}
		d, err := sdkmath.LegacyNewDecFromStr(numStrings[u.r.N(len(numStrings))])
		if err != nil {
			d = sdkmath.LegacyNewDec(int64(u.r.N(5)) - 1)
		}
		return reflect.ValueOf(d)
	case tTime:
		return reflect.ValueOf(time.Unix(int64(u.r.N(4_000_000_000)), 0).UTC())
	case tDuration:
		return reflect.ValueOf(time.Duration(intPool[u.r.N(len(intPool))]))
	case tAny:
		switch u.r.N(4) {
		case 0:
			return reflect.Zero(t)
		case 1:
			return reflect.ValueOf(&codectypes.Any{TypeUrl: u.r.Pick("/x", "", "/cosmos.crypto.ed25519.PubKey", "/sunrise.swap.v1.MsgSwapExactAmountIn"), Value: []byte(u.fuzzString(""))})
		}
		pk := ed25519.GenPrivKeyFromSecret([]byte(fmt.Sprint(u.r.N(5)))).PubKey()
		a, _ := codectypes.NewAnyWithValue(pk)
		return reflect.ValueOf(a)
	case tRoute:
		var ctr uint64
		r := u.goRoute(u.r.Pick("uaaa", "ubbb", u.ibcDenom), u.r.Pick("ubbb", "uccc", "uaaa"), u.r.N(3), &ctr, u.r.Bool())
		if u.r.N(3) == 0 { // live pools: 0 uaaa/ubbb, 1 ubbb/uccc, 2 uaaa/uccc
			r = u.liveRoute()
		}
		return reflect.ValueOf(r)
	}
	switch t.Kind() {
	case reflect.String:
		return reflect.ValueOf(u.fuzzString(hint)).Convert(t)
	case reflect.Bool:
		return reflect.ValueOf(u.r.Bool()).Convert(t)
	case reflect.Int64, reflect.Int32, reflect.Int:
		v := reflect.New(t).Elem()
		v.SetInt(intPool[u.r.N(len(intPool))])
		if t.Kind() == reflect.Int32 {
			v.SetInt(int64(int32(intPool[u.r.N(len(intPool))])))
		}
		return v
	case reflect.Uint64, reflect.Uint32, reflect.Uint8, reflect.Uint:
		v := reflect.New(t).Elem()
		x := uint64(intPool[u.r.N(len(intPool))])
		if u.r.N(3) == 0 {
			x = uint64(u.r.N(6))
		}
		switch t.Kind() {
		case reflect.Uint32:
			x = uint64(uint32(x))
		case reflect.Uint8:
			x = uint64(uint8(x))
		}
		v.SetUint(x)
		return v
	case reflect.Float64, reflect.Float32:
		return reflect.Zero(t)
	case reflect.Slice:
		if t.Elem().Kind() == reflect.Uint8 {
			var b []byte
			switch u.r.N(6) {
			case 0:
				b = nil
			case 1:
				b = []byte{}
			case 2:
				b = u.proofBz
			case 3:
				b = bytes.Repeat([]byte{byte(u.r.N(256))}, 32)
			case 4:
				b = bytes.Repeat([]byte{0xff}, u.r.N(20000))
			default:
				b = make([]byte, u.r.N(300))
				for i := range b {
					b[i] = byte(u.r.N(256))
				}
			}
			return reflect.ValueOf(b).Convert(t)
		}
		n := u.r.N(4)
		if u.r.N(30) == 0 {
			n = 2000
		}
		if depth <= 0 {
			n = 0
		}
		s := reflect.MakeSlice(t, 0, n)
		for i := 0; i < n; i++ {
			s = reflect.Append(s, u.fuzzValue(t.Elem(), hint, depth-1))
		}
		if n == 0 && u.r.Bool() {
			return reflect.Zero(t)
		}
		return s
	case reflect.Ptr:
		if u.r.N(3) == 0 || depth <= 0 {
			return reflect.Zero(t)
		}
		p := reflect.New(t.Elem())
		p.Elem().Set(u.fuzzValue(t.Elem(), hint, depth-1))
		return p
	case reflect.Struct:
		v := reflect.New(t).Elem()
		u.fuzzStruct(v, depth)
		return v
	}
	return reflect.Zero(t)
}

func (u *U) fuzzStruct(v reflect.Value, depth int) {
	t := v.Type()
	var wrappers []any
	if m, ok := v.Addr().Interface().(interface{ XXX_OneofWrappers() []interface{} }); ok {
		wrappers = m.XXX_OneofWrappers()
	}
	for i := 0; i < t.NumField(); i++ {
		f := t.Field(i)
		if !f.IsExported() || strings.HasPrefix(f.Name, "XXX_") {
			continue
		}
		u.setField(v.Field(i), f, wrappers, depth)
	}
}

func (u *U) setField(fv reflect.Value, f reflect.StructField, wrappers []any, depth int) {
	if f.Type.Kind() == reflect.Interface {
		var cands []reflect.Type
		for _, w := range wrappers {
			wt := reflect.TypeOf(w)
			if wt.Implements(f.Type) {
				cands = append(cands, wt)
			}
		}
		if len(cands) == 0 || u.r.N(5) == 0 {
			fv.Set(reflect.Zero(f.Type))
			return
		}
		wt := cands[u.r.N(len(cands))]
		w := reflect.New(wt.Elem())
		if depth > 0 {
			w.Elem().Field(0).Set(u.fuzzValue(wt.Elem().Field(0).Type, wt.Elem().Field(0).Name, depth-1))
		}
		fv.Set(w)
		return
	}
	fv.Set(u.fuzzValue(f.Type, f.Name, depth))
}

// mutate 1 random leaf of a struct (descending into nested messages)
func (u *U) mutateStruct(v reflect.Value, depth int) {
	t := v.Type()
	var idx []int
	for i := 0; i < t.NumField(); i++ {
		if t.Field(i).IsExported() && !strings.HasPrefix(t.Field(i).Name, "XXX_") {
			idx = append(idx, i)
		}
	}
	if len(idx) == 0 {
		return
	}
	i := idx[u.r.N(len(idx))]
	f, fv := t.Field(i), v.Field(i)
	if f.Type.Kind() == reflect.Struct && f.Type != tInt && f.Type != tDec && f.Type != tTime && u.r.N(3) > 0 && depth > 0 {
		u.mutateStruct(fv, depth-1)
		return
	}
	var wrappers []any
	if m, ok := v.Addr().Interface().(interface{ XXX_OneofWrappers() []interface{} }); ok {
		wrappers = m.XXX_OneofWrappers()
	}
	u.setField(fv, f, wrappers, depth)
}

func (u *U) liveRoute() swaptypes.Route {
	pool := func(in, out string, id uint64) swaptypes.Route {
		return swaptypes.Route{DenomIn: in, DenomOut: out, Strategy: &swaptypes.Route_Pool{Pool: &swaptypes.RoutePool{PoolId: id}}}
	}
	switch u.r.N(4) {
	case 0:
		return pool("uaaa", "ubbb", 0)
	case 1:
		return pool("ubbb", "uaaa", 0)
	case 2:
		return swaptypes.Route{DenomIn: "uaaa", DenomOut: "uccc", Strategy: &swaptypes.Route_Series{Series: &swaptypes.RouteSeries{Routes: []swaptypes.Route{pool("uaaa", "ubbb", 0), pool("ubbb", "uccc", 1)}}}}
	}
	return swaptypes.Route{DenomIn: "uaaa", DenomOut: "uccc", Strategy: &swaptypes.Route_Parallel{Parallel: &swaptypes.RouteParallel{
		Routes:  []swaptypes.Route{pool("uaaa", "uccc", 2), {DenomIn: "uaaa", DenomOut: "uccc", Strategy: &swaptypes.Route_Series{Series: &swaptypes.RouteSeries{Routes: []swaptypes.Route{pool("uaaa", "ubbb", 0), pool("ubbb", "uccc", 1)}}}}},
		Weights: []string{u.r.Pick("1", "0.5", "0", "-1", ""), u.r.Pick("1", "2", "0")}}}}
}

// ------------------------------------------------------------------------------------------------ messages

// valid seeds per message type (mutated afterwards); types without a seed are generated by reflection only
func (u *U) seedMsg(url string) sdk.Msg {
	c := u.c
	a := func(i int) string { return c.Accs[i].Addr.String() }
	val := c.Vals[0].Oper.String()
	i := u.r.N(3)
	switch url {
	case "/sunrise.swap.v1.MsgSwapExactAmountIn":
		return &swaptypes.MsgSwapExactAmountIn{Sender: a(i), InterfaceProvider: u.r.Pick("", a(3)), Route: u.liveRoute(), AmountIn: sdkmath.NewInt(int64(1 + u.r.N(100000))), MinAmountOut: sdkmath.NewInt(1)}
	case "/sunrise.swap.v1.MsgSwapExactAmountOut":
		return &swaptypes.MsgSwapExactAmountOut{Sender: a(i), InterfaceProvider: u.r.Pick("", a(3)), Route: u.liveRoute(), MaxAmountIn: sdkmath.NewInt(1_000_000_000), AmountOut: sdkmath.NewInt(int64(1 + u.r.N(100000)))}
	case "/sunrise.swap.v1.MsgUpdateParams":
		return &swaptypes.MsgUpdateParams{Authority: u.authority(), Params: swaptypes.Params{InterfaceFeeRate: u.r.Pick("0.01", "0", "0.5", "1", "0.999999999999999999")}}
	case "/sunrise.liquiditypool.v1.MsgCreatePool":
		return &lptypes.MsgCreatePool{Authority: a(i), DenomBase: "uaaa", DenomQuote: "ubbb", FeeRate: "0.01", PriceRatio: "1.0001", BaseOffset: "0.5"}
	case "/sunrise.liquiditypool.v1.MsgCreatePosition":
		return &lptypes.MsgCreatePosition{Sender: a(i), PoolId: uint64(u.r.N(3)), LowerTick: -int64(1 + u.r.N(4000)), UpperTick: int64(1 + u.r.N(4000)),
			TokenBase: coin([]string{"uaaa", "ubbb", "uaaa"}[u.r.N(1)], 1_000_000), TokenQuote: coin("ubbb", 1_000_000), MinAmountBase: sdkmath.ZeroInt(), MinAmountQuote: sdkmath.ZeroInt()}
	case "/sunrise.liquiditypool.v1.MsgIncreaseLiquidity":
		return &lptypes.MsgIncreaseLiquidity{Sender: a(0), Id: uint64(u.r.N(6)), AmountBase: sdkmath.NewInt(1000), AmountQuote: sdkmath.NewInt(1000), MinAmountBase: sdkmath.ZeroInt(), MinAmountQuote: sdkmath.ZeroInt()}
	case "/sunrise.liquiditypool.v1.MsgDecreaseLiquidity":
		return &lptypes.MsgDecreaseLiquidity{Sender: a(0), Id: uint64(u.r.N(6)), Liquidity: u.r.Pick("1", "1000", "0.5")}
	case "/sunrise.liquiditypool.v1.MsgClaimRewards":
		return &lptypes.MsgClaimRewards{Sender: a(0), PositionIds: []uint64{uint64(u.r.N(6))}}
	case "/sunrise.da.v1.MsgPublishData":
		return &datypes.MsgPublishData{Sender: a(i), MetadataUri: fmt.Sprintf("ipfs://m%d", u.r.N(100000)), ParityShardCount: 1, ShardDoubleHashes: [][]byte{bytes.Repeat([]byte{1}, 32), bytes.Repeat([]byte{2}, 32)}}
	case "/sunrise.da.v1.MsgSubmitInvalidity":
		return &datypes.MsgSubmitInvalidity{Sender: a(i), MetadataUri: "ipfs://d1", Indices: []int64{int64(u.r.N(6)) - 1}}
	case "/sunrise.da.v1.MsgSubmitValidityProof":
		return &datypes.MsgSubmitValidityProof{Sender: a(u.r.N(2)), ValidatorAddress: val, MetadataUri: "ipfs://d2", Indices: []int64{int64(u.r.N(6)) - 1}, Proofs: [][]byte{u.proofBz}} // d2 has 3 shards: -1 … 4 straddles both ends
	case "/sunrise.da.v1.MsgRegisterProofDeputy":
		return &datypes.MsgRegisterProofDeputy{Sender: a(i), DeputyAddress: a(3)}
	case "/sunrise.da.v1.MsgUnregisterProofDeputy":
		return &datypes.MsgUnregisterProofDeputy{Sender: a(i)}
	case "/sunrise.liquidityincentive.v1.MsgVoteGauge":
		return &litypes.MsgVoteGauge{Sender: a(i), PoolWeights: []litypes.PoolWeight{{PoolId: 0, Weight: "0.5"}, {PoolId: 1, Weight: "0.25"}}}
	case "/sunrise.shareclass.v1.MsgNonVotingDelegate":
		return &sctypes.MsgNonVotingDelegate{Sender: a(i), ValidatorAddress: val, Amount: coin("urise", 1000)}
	case "/sunrise.shareclass.v1.MsgNonVotingUndelegate":
		return &sctypes.MsgNonVotingUndelegate{Sender: a(1), ValidatorAddress: val, Amount: coin("urise", 10), Recipient: u.r.Pick("", a(2))}
	case "/sunrise.shareclass.v1.MsgClaimRewards":
		return &sctypes.MsgClaimRewards{Sender: a(1), ValidatorAddress: val}
	case "/sunrise.tokenconverter.v1.MsgConvert":
		return &tctypes.MsgConvert{Sender: a(i), Amount: sdkmath.NewInt(5)}
	case "/sunrise.selfdelegation.v1.MsgSelfDelegate":
		return &sdtypes.MsgSelfDelegate{Sender: a(0), Amount: sdkmath.NewInt(1000)}
	case "/sunrise.selfdelegation.v1.MsgWithdrawSelfDelegationUnbonded":
		return &sdtypes.MsgWithdrawSelfDelegationUnbonded{Sender: a(0), Amount: sdkmath.NewInt(1)}
	}
	return nil
}

// wire round trip: only protobuf-decodable values count as inputs
func (u *U) roundTrip(m proto.Message) (out sdk.Msg, bz []byte, ok bool) {
	defer func() {
		if r := recover(); r != nil {
			ok = false
		}
	}()
	bz, err := proto.Marshal(m)
	if err != nil {
		return nil, nil, false
	}
	// absent fields (non-nullable custom types always marshal, so "absent" exists on the wire only)
	for k := u.r.N(4); k >= 3 || (k == 2 && u.r.Bool()); k-- {
		bz = u.dropField(bz, 2)
	}
	n := reflect.New(reflect.TypeOf(m).Elem()).Interface().(proto.Message)
	if err := proto.Unmarshal(bz, n); err != nil {
		return nil, bz, false
	}
	if err := codectypes.UnpackInterfaces(n, u.c.App.InterfaceRegistry()); err != nil {
		return nil, bz, false // the tx decoder rejects it
	}
	return n, bz, true
}

// dropField removes one random field occurrence from a protobuf message encoding (descending into sub-messages)
func (u *U) dropField(bz []byte, depth int) []byte {
	type fld struct{ start, vstart, end int; wt protowire.Type }
	var fs []fld
	for i := 0; i < len(bz); {
		_, wt, n := protowire.ConsumeTag(bz[i:])
		if n < 0 {
			return bz
		}
		m := protowire.ConsumeFieldValue(0, wt, bz[i+n:])
		if m < 0 {
			return bz
		}
		fs = append(fs, fld{i, i + n, i + n + m, wt})
		i += n + m
	}
	if len(fs) == 0 {
		return bz
	}
	f := fs[u.r.N(len(fs))]
	if f.wt == protowire.BytesType && depth > 0 && u.r.Bool() {
		inner, k := protowire.ConsumeBytes(bz[f.vstart:])
		if k > 0 && len(inner) > 0 {
			ni := u.dropField(append([]byte(nil), inner...), depth-1)
			if !bytes.Equal(ni, inner) {
				out := append([]byte(nil), bz[:f.vstart]...)
				out = protowire.AppendBytes(out, ni)
				return append(out, bz[f.end:]...)
			}
		}
	}
	return append(append([]byte(nil), bz[:f.start]...), bz[f.end:]...)
}

func shortName(url string) string {
	p := strings.Split(strings.TrimPrefix(url, "/sunrise."), ".")
	return p[0] + "." + p[len(p)-1]
}

func (u *U) msgTypes() []string {
	var out []string
	for _, url := range u.c.App.InterfaceRegistry().ListImplementations(sdk.MsgInterfaceProtoName) {
		if isCustom(url) {
			out = append(out, url)
		}
	}
	sort.Strings(out)
	return out
}

func (u *U) execMsg(url string, m sdk.Msg) {
	rt, bz, ok := u.roundTrip(m)
	if !ok {
		u.e.Stat("msg.undecodable")
		return
	}
	via := "Msg/" + shortName(url)
	input := append([]byte(url+":"), bz...)
	if vb, ok := rt.(interface{ ValidateBasic() error }); ok {
		cls, pv := u.guarded(func() error { return vb.ValidateBasic() })
		u.report(via+".ValidateBasic", cls, pv, input, "")
	}
	cls, pv := u.guarded(func() error {
		var err error
		var p any
		if u.dry {
			err, p = u.c.ExecDry(rt)
		} else {
			_, err, p = u.c.Exec(rt)
		}
		if p != nil {
			panic(p)
		}
		return err
	})
	u.report(via, cls, pv, input, "")
}

func (u *U) msgSection(n int) {
	types := u.msgTypes()
	u.e.Note("msg types: %d", len(types))
	for _, url := range types {
		u.e.Note("entry Msg %s", shortName(url))
	}
	blocks := 0
	for i := 0; i < n && !u.aborted; i++ {
		url := types[i%len(types)]
		inst, err := u.c.App.InterfaceRegistry().Resolve(url)
		if err != nil {
			continue
		}
		var m sdk.Msg
		seed := u.seedMsg(url)
		switch k := u.r.N(10); {
		case seed != nil && k < 1:
			m = seed
		case seed != nil && k < 7:
			m = seed
			for j := 0; j <= u.r.N(2); j++ {
				u.mutateStruct(reflect.ValueOf(m).Elem(), 3)
			}
		default:
			v := reflect.New(reflect.TypeOf(inst).Elem())
			if u.r.N(20) > 0 {
				u.fuzzStruct(v.Elem(), 3)
			} // else: the empty message (every field absent)
			m = v.Interface().(sdk.Msg)
		}
		u.execMsg(url, m)
		if i%500 == 499 && blocks < 20 { // let Begin/EndBlock see whatever state the accepted messages produced
			blocks++
			if _, err := u.c.NextBlock(6 * time.Second); err != nil {
				u.e.Note("chain halted during msg section: %v (fresh chain)", err)
				c, err := newChain()
				if err != nil {
					return
				}
				u.c = c
				u.setupState()
			}
		}
	}
}

func newChain() (*sim.Chain, error) { return sim.New(sim.DefaultConfig()) }

// ------------------------------------------------------------------------------------------------ queries

type qsrv struct {
	mod string
	srv any
}

func (u *U) queryServers() []qsrv {
	a := u.c.App
	return []qsrv{
		{"da", dakeeper.NewQueryServerImpl(a.DaKeeper)},
		{"fee", feekeeper.NewQueryServerImpl(a.FeeKeeper)},
		{"liquidityincentive", likeeper.NewQueryServerImpl(a.LiquidityincentiveKeeper)},
		{"liquiditypool", lpkeeper.NewQueryServerImpl(a.LiquiditypoolKeeper)},
		{"selfdelegation", sdkeeper.NewQueryServerImpl(a.SelfdelegationKeeper)},
		{"shareclass", sckeeper.NewQueryServerImpl(a.ShareclassKeeper)},
		{"swap", swapkeeper.NewQueryServerImpl(a.SwapKeeper)},
		{"tokenconverter", tckeeper.NewQueryServerImpl(a.TokenconverterKeeper)},
	}
}

type qmethod struct {
	name string
	fn   reflect.Value
	req  reflect.Type
}

var ctxType = reflect.TypeOf((*context.Context)(nil)).Elem()

func (u *U) queryMethods() []qmethod {
	var out []qmethod
	for _, s := range u.queryServers() {
		v := reflect.ValueOf(s.srv)
		t := v.Type()
		for i := 0; i < t.NumMethod(); i++ {
			m := t.Method(i)
			ft := m.Type // (recv, ctx, *Req) (*Resp, error)
			if ft.NumIn() != 3 || ft.NumOut() != 2 || !ft.In(1).Implements(ctxType) && ft.In(1) != ctxType || ft.In(2).Kind() != reflect.Ptr {
				continue
			}
			out = append(out, qmethod{name: "Query/" + s.mod + "." + m.Name, fn: v.Method(i), req: ft.In(2)})
		}
	}
	sort.Slice(out, func(i, j int) bool { return out[i].name < out[j].name })
	return out
}

func (u *U) callQuery(q qmethod, req reflect.Value) {
	var input []byte
	if !req.IsNil() {
		if pm, ok := req.Interface().(proto.Message); ok {
			func() {
				defer func() { recover() }()
				bz, _ := proto.Marshal(pm)
				input = bz
			}()
		}
	}
	input = append([]byte(q.name+":"), input...)
	cls, pv := u.guarded(func() error {
		ctx, _ := u.c.Ctx().CacheContext()
		out := q.fn.Call([]reflect.Value{reflect.ValueOf(context.Context(ctx)), req})
		if e, ok := out[1].Interface().(error); ok && e != nil {
			return e
		}
		return nil
	})
	extra := ""
	if strings.Contains(q.name, "swap.Calculation") && !req.IsNil() {
		if f := req.Elem().FieldByName("Route"); f.IsValid() && !f.IsNil() {
			extra = "deep" // the request carried a route: a nil dereference is not the nil-route head
		}
	}
	u.report(q.name, cls, pv, input, extra)
}

func (u *U) querySection(n int) {
	qs := u.queryMethods()
	u.e.Note("query methods: %d", len(qs))
	for _, q := range qs {
		u.e.Note("entry %s", strings.Replace(q.name, "/", " ", 1))
		u.callQuery(q, reflect.Zero(q.req))             // nil request
		u.callQuery(q, reflect.New(q.req.Elem()))       // zero request
	}
	for i := 0; i < n && !u.aborted; i++ {
		q := qs[i%len(qs)]
		req := reflect.New(q.req.Elem())
		u.fuzzStruct(req.Elem(), 3)
		if strings.HasSuffix(q.name, "ValidatorShardIndices") || strings.HasSuffix(q.name, "ZkpProofThreshold") {
			// counts that are cheap in any case; the expensive ones are in the heavy section
			f := req.Elem().FieldByName("ShardCount")
			if f.Uint() > 1<<20 && f.Uint() < 1<<62 {
				f.SetUint(uint64(u.r.N(1 << 16)))
			}
		}
		if strings.Contains(q.name, "swap.Calculation") && u.r.Bool() {
			r := u.liveRoute()
			req.Elem().FieldByName("Route").Set(reflect.ValueOf(&r))
			if f := req.Elem().FieldByName("AmountIn"); f.IsValid() {
				f.SetString(u.r.Pick("1000", "1", "0", "-5", "100000000000000000000"))
			}
			if f := req.Elem().FieldByName("AmountOut"); f.IsValid() {
				f.SetString(u.r.Pick("1000", "1", "0", "-5", "100000000000000000000"))
			}
		}
		if strings.Contains(q.name, "liquiditypool.CalculationCreatePosition") && u.r.N(3) > 0 {
			req.Elem().FieldByName("PoolId").SetUint(uint64(u.r.N(3)))
		}
		u.callQuery(q, req)
	}
}

// liquiditypool calculation queries, structured: every pool state of setupState (in range, one-sided above / below, never
// used, reset) x denoms x tick ranges x amounts; every position x denoms x amounts.  Deterministic grid, always run.
func (u *U) lpCalcSection() {
	var create, increase *qmethod
	qs := u.queryMethods()
	for i := range qs {
		if strings.HasSuffix(qs[i].name, "liquiditypool.CalculationCreatePosition") {
			create = &qs[i]
		}
		if strings.HasSuffix(qs[i].name, "liquiditypool.CalculationIncreaseLiquidity") {
			increase = &qs[i]
		}
	}
	denoms := []string{"uaaa", "ubbb", "uccc", "zzz", ""}
	ticks := [][2]string{{"-10", "10"}, {"500", "700"}, {"-700", "-500"}, {"0", "1"}, {"-1", "0"}, {"-4000", "4000"}, {"10", "-10"}, {"600", "650"}}
	amounts := []string{"0", "1", "1000", "1000000000000000000000000000000", "-1"}
	n := 0
	if create != nil {
		for pool := uint64(0); pool <= u.resetPool+1; pool++ {
			for _, d := range denoms {
				for _, t := range ticks {
					for _, a := range amounts {
						req := &lptypes.QueryCalculationCreatePositionRequest{PoolId: pool, LowerTick: t[0], UpperTick: t[1], Amount: a, Denom: d}
						u.callQuery(*create, reflect.ValueOf(req))
						n++
					}
				}
			}
		}
	}
	if increase != nil {
		for id := uint64(0); id < 12; id++ {
			for _, d := range denoms {
				for _, a := range amounts {
					req := &lptypes.QueryCalculationIncreaseLiquidityRequest{Id: id, AmountIn: a, DenomIn: d}
					u.callQuery(*increase, reflect.ValueOf(req))
					n++
				}
			}
		}
	}
	u.e.Stats["lpcalc.queries"] += n
}

// liquiditypool position messages, structured: every pool state of setupState (in range, one-sided, never used, reset)
// x tick ranges x (base, quote) amount pairs including one-sided and empty ones; every position x amount pairs.  Each
// message runs on a branch of the state that is discarded, so every grid point meets the same pool states.
func (u *U) lpMsgSection() {
	a := func(i int) string { return u.c.Accs[i].Addr.String() }
	ticks := [][2]int64{{-10, 10}, {500, 700}, {-700, -500}, {0, 1}, {-1, 0}, {-4000, 4000}, {600, 650}}
	amounts := []int64{0, 1, 1000, 1_000_000_000}
	u.dry = true
	defer func() { u.dry = false }()
	n := 0
	for pool := uint64(0); pool <= u.resetPool; pool++ {
		pl, found, err := u.c.App.LiquiditypoolKeeper.GetPool(u.c.Ctx(), pool)
		if err != nil || !found {
			continue
		}
		for _, t := range ticks {
			for _, ab := range amounts {
				for _, aq := range amounts {
					m := &lptypes.MsgCreatePosition{Sender: a(0), PoolId: pool, LowerTick: t[0], UpperTick: t[1],
						TokenBase:  sdk.Coin{Denom: pl.DenomBase, Amount: sdkmath.NewInt(ab)},
						TokenQuote: sdk.Coin{Denom: pl.DenomQuote, Amount: sdkmath.NewInt(aq)}, MinAmountBase: sdkmath.ZeroInt(), MinAmountQuote: sdkmath.ZeroInt()}
					u.execMsg("/sunrise.liquiditypool.v1.MsgCreatePosition", m)
					n++
				}
			}
		}
	}
	for id := uint64(0); id < 8; id++ {
		pos, found, err := u.c.App.LiquiditypoolKeeper.GetPosition(u.c.Ctx(), id)
		if err != nil || !found {
			continue
		}
		// negative amounts too: the handler adds them to what the full withdrawal of the position returned before it validates
		for _, ab := range append([]int64{-1, -1_000_000_000_000_000}, amounts...) {
			for _, aq := range append([]int64{-1, -1_000_000_000_000_000}, amounts...) {
				u.execMsg("/sunrise.liquiditypool.v1.MsgIncreaseLiquidity", &lptypes.MsgIncreaseLiquidity{Sender: pos.Address, Id: id,
					AmountBase: sdkmath.NewInt(ab), AmountQuote: sdkmath.NewInt(aq), MinAmountBase: sdkmath.ZeroInt(), MinAmountQuote: sdkmath.ZeroInt()})
				n++
			}
		}
	}
	u.e.Stats["lpmsg.messages"] += n
}

// inputs whose cost can be unbounded; an "unbounded" verdict ends the run, so they come last
func (u *U) heavySection() {
	qs := u.queryMethods()
	val := u.c.Vals[0].Oper.String()
	for _, q := range qs {
		if !strings.HasSuffix(q.name, "ValidatorShardIndices") && !strings.HasSuffix(q.name, "ZkpProofThreshold") {
			continue
		}
		for _, n := range []uint64{1 << 20, 1 << 24, 1 << 63, 1<<63 + 5, ^uint64(0), 1<<63 - 1, 1 << 40, 1 << 33} {
			req := reflect.New(q.req.Elem())
			if f := req.Elem().FieldByName("ValidatorAddress"); f.IsValid() {
				f.SetString(val)
			}
			req.Elem().FieldByName("ShardCount").SetUint(n)
			u.callQuery(q, req)
			if u.aborted {
				return
			}
		}
	}
}

// ------------------------------------------------------------------------------------------------ replay

// replay file: JSON {"via": "...", "input": "<base64>"} as printed in the oracle line
func (u *U) replay(path string) {
	bz, err := os.ReadFile(path)
	if err != nil {
		u.e.Obs("replay: %v", err)
		return
	}
	var rp struct{ Via, Input string }
	if err := json.Unmarshal(bz, &rp); err != nil {
		u.e.Obs("replay: %v", err)
		return
	}
	in, _ := base64.StdEncoding.DecodeString(rp.Input)
	u.e.In("reset")
	switch {
	case rp.Via == "DecodeSwapMetadata" || rp.Via == "SwapMetadata.Validate":
		u.runMemo(in)
	case rp.Via == "IBCMiddleware.OnRecvPacket":
		u.setupState()
		cls, pv := u.recv(in, 7)
		u.report(rp.Via, cls, pv, in, "")
		u.e.Note("replayed: %s %v", cls, pv)
	case strings.HasPrefix(rp.Via, "Msg/"):
		u.setupState()
		i := bytes.IndexByte(in, ':')
		url := string(in[:i])
		inst, err := u.c.App.InterfaceRegistry().Resolve(url)
		if err != nil {
			u.e.Obs("replay: %v", err)
			return
		}
		m := reflect.New(reflect.TypeOf(inst).Elem()).Interface().(proto.Message)
		if err := proto.Unmarshal(in[i+1:], m); err != nil {
			u.e.Obs("replay: %v", err)
			return
		}
		u.execMsg(url, m.(sdk.Msg))
	case strings.HasPrefix(rp.Via, "Query/"):
		u.setupState()
		i := bytes.IndexByte(in, ':')
		for _, q := range u.queryMethods() {
			if q.name == string(in[:i]) {
				req := reflect.New(q.req.Elem())
				if err := proto.Unmarshal(in[i+1:], req.Interface().(proto.Message)); err != nil {
					u.e.Obs("replay: %v", err)
					return
				}
				u.callQuery(q, req)
			}
		}
	default:
		u.e.Note("replay of %s: re-run the suite with the same seed", rp.Via)
	}
	for k, v := range u.fails {
		u.e.Note("failclass %s n=%d", k, v)
	}
}

var _ = cryptocodec.ToCmtPubKeyInterface
