package main

import (
	"fmt"
	"strings"

	sdkmath "cosmossdk.io/math"
	sdk "github.com/cosmos/cosmos-sdk/types"
	tctypes "github.com/sunriselayer/sunrise/x/tokenconverter/types"

	"svh/sim"
)

func init() { register("convert", suiteConvert) }

// C13 (conversion part): Msg/Convert through the real message router and Keeper.ConvertReverse directly,
// on the real bank; observed: outcome class, both balances of every account, both supplies.
func suiteConvert(e *Env) {
	c, err := sim.New(sim.DefaultConfig())
	if err != nil {
		e.Obs("setup-error %v", err)
		return
	}
	show := func() string {
		var sb strings.Builder
		for i, a := range c.Accs {
			fmt.Fprintf(&sb, "a%d.urise=%s a%d.uvrise=%s ", i, c.Bal(a.Addr, "urise"), i, c.Bal(a.Addr, "uvrise"))
		}
		ctx := c.Ctx()
		fmt.Fprintf(&sb, "supply.urise=%s supply.uvrise=%s", c.App.BankKeeper.GetSupply(ctx, "urise").Amount, c.App.BankKeeper.GetSupply(ctx, "uvrise").Amount)
		return sb.String()
	}
	reset := func() {
		var sb strings.Builder
		for i, a := range c.Accs {
			fmt.Fprintf(&sb, "a%d=%s:%s ", i, c.Bal(a.Addr, "urise"), c.Bal(a.Addr, "uvrise"))
		}
		ctx := c.Ctx()
		fmt.Fprintf(&sb, "supply=%s:%s", c.App.BankKeeper.GetSupply(ctx, "urise").Amount, c.App.BankKeeper.GetSupply(ctx, "uvrise").Amount)
		e.In("reset %s", sb.String())
	}
	reset()
	for h := 0; h < e.N; h++ {
		for k := 0; k < 12; k++ {
			i := e.R.N(len(c.Accs))
			var amt sdkmath.Int
			switch e.R.N(6) {
			case 0:
				amt = sdkmath.NewInt(int64(e.R.N(3)) - 1) // -1, 0, 1
			case 1:
				amt = c.Bal(c.Accs[i].Addr, e.R.Pick("urise", "uvrise")).AddRaw(int64(e.R.N(3)) - 1) // around the balance
			default:
				amt = sdkmath.NewIntFromBigInt(e.R.Big(14))
			}
			pre := [2]sdkmath.Int{c.Bal(c.Accs[i].Addr, "urise"), c.Bal(c.Accs[i].Addr, "uvrise")}
			var cls string
			if e.R.N(3) > 0 {
				e.In("convert a%d %s", i, amt)
				_, err, p := c.Exec(&tctypes.MsgConvert{Sender: c.Accs[i].Addr.String(), Amount: amt})
				cls = class(err, p)
				e.Stat("convert." + cls)
				e.Oracle("no_panic", cls != "panic", "Msg/Convert a%d amt=%s", i, amt)
			} else {
				e.In("convertReverse a%d %s", i, amt)
				err, p := c.Call(func(ctx sdk.Context) error { return c.App.TokenconverterKeeper.ConvertReverse(ctx, amt, c.Accs[i].Addr) })
				cls = class(err, p)
				e.Stat("convertReverse." + cls)
			}
			e.Obs("%s %s", cls, show())
			post := [2]sdkmath.Int{c.Bal(c.Accs[i].Addr, "urise"), c.Bal(c.Accs[i].Addr, "uvrise")}
			e.Oracle("convert_combined_balance", pre[0].Add(pre[1]).Equal(post[0].Add(post[1])), "a%d amt=%s", i, amt)
			_ = 0
		}
		if _, err := c.NextBlock(6e9); err != nil {
			e.Obs("halt %v", err)
			return
		}
		reset()
	}
}

var lastPanic string

func class(err error, p any) string {
	if p != nil {
		if s, ok := p.(string); ok && strings.Contains(s, "Int overflow") {
			return "overflow" // LegacyDec range assertion (2^256*10^18): outside the unbounded model
		}
		lastPanic = fmt.Sprint(p)
		return "panic"
	}
	if err != nil {
		return "err"
	}
	return "ok"
}
