package main

// C13 (mint part): real blocks at irregular intervals on the real application (x/epochs `minute` epoch → x/mint hook →
// app/mint.ProvideMintFn), start times before/after the mint Genesis date and around year boundaries, supplies near the
// cap set through genesis, staking_reward_ratio in [0,1].  Observed: both supplies and the minter's last-mint time after
// every block.  Whether the `minute` epoch fired in a block is x/epochs' business (recorded boundary input).

import (
	"encoding/binary"
	"encoding/json"
	"fmt"
	"math/big"
	"time"

	sdkmath "cosmossdk.io/math"
	sdk "github.com/cosmos/cosmos-sdk/types"

	authtypes "github.com/cosmos/cosmos-sdk/x/auth/types"

	appmint "github.com/sunriselayer/sunrise/app/mint"
	litypes "github.com/sunriselayer/sunrise/x/liquidityincentive/types"

	"svh/sim"
)

func init() { register("mint", suiteMint) }

const mintYear = int64(31536000)

func suiteMint(e *Env) {
	e.R = NewRng(e.Seed*1000003 + 1313)
	for h := 0; h < e.N; h++ {
		if !mintHistory(e, h) {
			return
		}
	}
}

func mintHistory(e *Env, h int) bool {
	r := e.R
	cfg := sim.DefaultConfig()
	// start time: before the mint genesis date, at it, around year boundaries k = 1..30, far future
	gen := appmint.Genesis
	switch r.N(6) {
	case 0:
		cfg.Start = gen.Add(-time.Duration(1+r.N(400)) * 24 * time.Hour)
	case 1:
		cfg.Start = gen.Add(time.Duration(r.N(3)-1) * time.Second)
	case 2, 3:
		k := int64(1 + r.N(30))
		cfg.Start = gen.Add(time.Duration(k*mintYear)*time.Second + time.Duration(r.N(400)-200)*time.Second)
	case 4:
		cfg.Start = gen.Add(time.Duration(int64(r.N(40))*mintYear+int64(r.N(int(mintYear)))) * time.Second)
	default:
		cfg.Start = gen.Add(time.Duration(r.N(int(mintYear))) * time.Second)
	}
	cfg.Start = cfg.Start.Add(time.Duration(r.N(1000)) * time.Millisecond)
	// supplies: total of both tokens relative to the cap
	capI := appmint.SupplyCap
	bonded := sdkmath.NewInt(100_000_000) // one validator, power 100
	var total sdkmath.Int
	switch r.N(7) {
	case 0:
		total = capI.SubRaw(int64(r.N(5))) // at / just below the cap
	case 1:
		total = capI.AddRaw(int64(1 + r.N(1000))) // above the cap (possible through genesis)
	case 2:
		total = capI.MulRaw(int64(90 + r.N(10))).QuoRaw(100) // annual provision clipped by the cap
	case 3:
		total = capI.MulRaw(100).QuoRaw(int64(102 + r.N(9))).AddRaw(int64(r.N(2000)) - 1000) // around cap/(1+rate)
	case 4:
		total = sdkmath.NewIntFromBigInt(r.Big(13)).AddRaw(1_000_000_000)
	default:
		total = capI.MulRaw(int64(1 + r.N(89))).QuoRaw(100)
	}
	// split the rest between urise and uvrise over 4 accounts
	rest := total.Sub(bonded)
	vr := rest.MulRaw(int64(r.N(101))).QuoRaw(100).QuoRaw(4)
	ur := rest.Sub(vr.MulRaw(4)).QuoRaw(4)
	if !vr.IsPositive() {
		vr = sdkmath.OneInt()
	}
	if !ur.IsPositive() {
		ur = sdkmath.OneInt()
	}
	cfg.Balances = sdk.NewCoins(sdk.NewCoin("urise", ur), sdk.NewCoin("uvrise", vr), sdk.NewCoin("uaaa", sdkmath.NewInt(1000)))
	ratios := []string{"0", "1", "0.5", "0.000000000000000001", "0.333333333333333333", "0.999999999999999999"}
	ratio := ratios[r.N(len(ratios))]
	if r.N(2) == 0 {
		ratio = sdkmath.LegacyNewDecWithPrec(int64(r.N(1000001)), 6).String()
	}
	genesisTotal := sdkmath.ZeroInt() // urise + uvrise in the bank genesis (balances), for the first-mint oracle
	cfg.GenesisMut = func(_ sim.Codec, gs map[string]json.RawMessage) {
		var bg struct {
			Balances []struct {
				Coins sdk.Coins `json:"coins"`
			} `json:"balances"`
		}
		if json.Unmarshal(gs["bank"], &bg) == nil {
			for _, b := range bg.Balances {
				genesisTotal = genesisTotal.Add(b.Coins.AmountOf("urise")).Add(b.Coins.AmountOf("uvrise"))
			}
		}
		var m map[string]any
		_ = json.Unmarshal(gs["liquidityincentive"], &m)
		if m == nil {
			m = map[string]any{}
		}
		p, _ := m["params"].(map[string]any)
		if p == nil {
			p = map[string]any{"epoch_blocks": "5"}
		}
		p["staking_reward_ratio"] = ratio
		m["params"] = p
		bz, _ := json.Marshal(m)
		gs["liquidityincentive"] = bz
	}
	c, err := sim.New(cfg)
	if err != nil {
		e.Obs("setup-error %v", err)
		return false
	}
	ratioDec := sdkmath.LegacyMustNewDecFromStr(ratio)
	if p, err := c.App.LiquidityincentiveKeeper.Params.Get(c.Ctx()); err != nil || !sdkmath.LegacyMustNewDecFromStr(p.StakingRewardRatio).Equal(ratioDec) {
		e.Obs("setup-error ratio %v %v", p, err)
		return false
	}
	sup := func() (sdkmath.Int, sdkmath.Int) {
		ctx := c.Ctx()
		return c.App.BankKeeper.GetSupply(ctx, "urise").Amount, c.App.BankKeeper.GetSupply(ctx, "uvrise").Amount
	}
	last := func() string {
		m, err := c.App.MintKeeper.Minter.Get(c.Ctx())
		if err != nil || m.Data == nil || len(m.Data) != 8 {
			return "-"
		}
		return fmt.Sprintf("%d", int64(binary.BigEndian.Uint64(m.Data)))
	}
	minuteEpoch := func() int64 {
		ei, err := c.App.EpochsKeeper.EpochInfo.Get(c.Ctx(), "minute")
		if err != nil {
			return -1
		}
		return ei.CurrentEpoch
	}
	u0, v0 := sup()
	// the very first mint (in the block sim.New produced) covers at most 60 s: the chain's default genesis must leave the
	// minter uninitialised, so that the first call starts the clock instead of minting for the time since 1970
	if genesisTotal.IsPositive() {
		minted := u0.Add(v0).Sub(genesisTotal)
		bound := appmint.InflationRateCapInitial.MulInt(genesisTotal).MulInt64(60).QuoInt64(31536000).Ceil().TruncateInt().AddRaw(2)
		e.Oracle("first_mint_prorated", !minted.IsNegative() && minted.LTE(bound), "first block minted %s of a genesis supply %s (60 s at the initial cap allow %s)", minted, genesisTotal, bound)
		e.Stat("first_mint_checked")
	}
	e.In("reset ratio=%s supply=%s:%s last=%s genesis=%d", ratioDec.BigInt(), u0, v0, last(), appmint.Genesis.UnixNano())
	steps := 14
	// time of the last block in which the mint function ran (the `minute` epoch fired), tracked by the harness itself:
	// sim.New has produced the first block at cfg.Start, where the first mint call initialises the minter to start−60 s
	lastRun := c.Time.Unix()
	if last() == "-" {
		lastRun = -1
	}
	for k := 0; k < steps; k++ {
		// governance changes the ratio at run time (values on both sides of both ends of [0,1]): a refused update leaves the
		// ratio alone; an accepted one governs every later mint
		if k == 3 || k == 9 {
			nr := []string{"-0.5", "-0.000000000000000001", "0", "1", "1.000000000000000001", "1.5", "3", "0.25", "-1"}[r.N(9)]
			nrDec := sdkmath.LegacyMustNewDecFromStr(nr)
			lp, _ := c.App.LiquidityincentiveKeeper.Params.Get(c.Ctx())
			lp.StakingRewardRatio = nr
			e.In("setratio %s", nrDec.BigInt())
			_, err, p := c.Exec(&litypes.MsgUpdateParams{Authority: authtypes.NewModuleAddress("gov").String(), Params: lp})
			if err == nil && p == nil {
				e.Obs("ok")
				ratio, ratioDec = nr, nrDec
			} else {
				e.Obs("err")
			}
			e.Stat("setratio." + nr)
		}
		var dt time.Duration
		switch r.N(12) {
		case 0:
			dt = time.Duration(r.N(1000)) * time.Millisecond
		case 1:
			dt = time.Second
		case 2, 3:
			dt = time.Duration(5000+r.N(2000)) * time.Millisecond
		case 4:
			dt = time.Duration(59+r.N(3)) * time.Second
		case 5:
			dt = time.Duration(1+r.N(3600)) * time.Second
		case 6:
			dt = time.Duration(1+r.N(30)) * 24 * time.Hour
		case 7:
			dt = time.Duration(mintYear+int64(r.N(3))-1) * time.Second // one year −1 s, exact, +1 s
		case 8:
			dt = time.Duration(mintYear*int64(2+r.N(8))) * time.Second // several years in one step
		case 9:
			dt = time.Duration(int64(r.N(int(mintYear)))) * time.Second
		default:
			dt = time.Duration(60+r.N(5)) * time.Second
		}
		preU, preV := sup()
		preLast := last()
		preEpoch := minuteEpoch()
		if _, err := c.NextBlock(dt); err != nil {
			e.Oracle("no_halt", false, "block dt=%s: %v", dt, err)
			return false
		}
		fired := 0
		if minuteEpoch() != preEpoch {
			fired = 1
		}
		e.In("block time=%d fired=%d", c.Time.UnixNano(), fired)
		postU, postV := sup()
		e.Obs("supply=%s:%s last=%s", postU, postV, last())
		e.Stat(fmt.Sprintf("fired.%d", fired))
		prevRun := lastRun
		if fired == 1 {
			lastRun = c.Time.Unix()
		}
		// ------------- oracles on supplies only
		dU, dV := postU.Sub(preU), postV.Sub(preV)
		minted := dU.Add(dV)
		preT, postT := preU.Add(preV), postU.Add(postV)
		desc := fmt.Sprintf("t=%d dt=%s pre=%s:%s minted=%s:%s ratio=%s last=%s", c.Time.Unix(), dt, preU, preV, dU, dV, ratio, preLast)
		e.Oracle("mint_nonneg", !dU.IsNegative() && !dV.IsNegative(), "%s", desc)
		gap := "le1y"
		if dt > time.Duration(mintYear)*time.Second {
			gap = "gt1y"
		}
		e.Oracle("never_above_cap", preT.GT(capI) || postT.LTE(capI), "gap=%s %s", gap, desc)
		if preT.GT(capI) {
			e.Oracle("no_mint_above_cap", minted.IsZero(), "%s", desc)
		}
		if minted.IsPositive() {
			e.Stat("minted.blocks")
			if postT.Equal(capI) {
				e.Stat("minted.to_cap")
			}
			// split: fee part = ⌊ratio·minted⌋, rest in the bond denom, nothing lost
			q := new(big.Int).Mul(ratioDec.BigInt(), minted.BigInt())
			q.Quo(q, new(big.Int).Exp(big.NewInt(10), big.NewInt(18), nil))
			e.Oracle("split_exact", dU.BigInt().Cmp(q) == 0, "want urise=%s %s", q, desc)
			// pro-rated annual cap: minted ≤ supply · rateCap(t) · Δs / secondsPerYear, rateCap = max(0.02, 0.1·0.92^years) (+1e-17 slack
			// for the 18-digit power), Δs from the minter's stored time
			if prevRun >= 0 {
				ds := c.Time.Unix() - prevRun
				years := int64(0)
				if !c.Time.Before(appmint.Genesis) {
					years = c.Time.Sub(appmint.Genesis).Milliseconds() / 31536000000
				}
				rate := big.NewRat(1, 10)
				for i := int64(0); i < years && i < 400; i++ {
					rate.Mul(rate, big.NewRat(92, 100))
				}
				if rate.Cmp(big.NewRat(2, 100)) < 0 {
					rate = big.NewRat(2, 100)
				}
				rate.Add(rate, big.NewRat(1, 100000000000000000))
				bound := new(big.Rat).Mul(new(big.Rat).SetInt(preT.BigInt()), rate)
				bound.Mul(bound, big.NewRat(ds, mintYear))
				e.Oracle("le_prorated_annual_cap", new(big.Rat).SetInt(minted.BigInt()).Cmp(bound) <= 0, "ds=%d years=%d %s", ds, years, desc)
			}
		}
	}
	return true
}
