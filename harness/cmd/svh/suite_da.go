package main

// C07/C08/C09: the x/da challenge state machine, collateral escrow and tally on the REAL application.
// Messages go through the real MsgServiceRouter (c.Exec), end-blockers run inside real blocks (c.NextBlock),
// validity proofs are REAL Groth16 proofs made with the module's own proving key (no hook needed).
//
// Trace protocol (see AGENT_GUIDE): `> …` inputs for the Lean model, `! …` oracle verdicts, other lines observations.
// Boundary (recorded `> val` / `> assign` lines, and the per-proof verification flag): staking validator status,
// types.ShardIndicesForValidator (with the keeper's GetZkpThreshold), Groth16 verification.

import (
	stakingtypes "cosmossdk.io/x/staking/types"
	"bytes"
	"encoding/json"
	"fmt"
	"math/big"
	"sort"
	"strings"
	"time"

	sdkmath "cosmossdk.io/math"
	"github.com/consensys/gnark-crypto/ecc"
	native_mimc "github.com/consensys/gnark-crypto/ecc/bn254/fr/mimc"
	"github.com/consensys/gnark/backend/groth16"
	"github.com/consensys/gnark/frontend"
	"github.com/consensys/gnark/frontend/cs/r1cs"
	gnarklogger "github.com/consensys/gnark/logger"
	sdk "github.com/cosmos/cosmos-sdk/types"
	authtypes "github.com/cosmos/cosmos-sdk/x/auth/types"
	datypes "github.com/sunriselayer/sunrise/x/da/types"
	"github.com/sunriselayer/sunrise/x/da/zkp"

	"svh/sim"
)

func init() { register("da", suiteDA) }

var daDenoms = []string{"uaaa", "urise"}

// ---------------------------------------------------------------- real proofs
type daZk struct {
	hash  [2][]byte // double hashes (public input) of the two preimages
	proof [2][]byte // valid proof for hash[k]
}

func daMakeProofs() (*daZk, error) {
	gnarklogger.Disable()
	params := datypes.DefaultParams()
	ccs, err := frontend.Compile(ecc.BN254.ScalarField(), r1cs.NewBuilder, &zkp.ValidityProofCircuit{})
	if err != nil {
		return nil, err
	}
	pk, err := zkp.UnmarshalProvingKey(params.ZkpProvingKey)
	if err != nil {
		return nil, err
	}
	z := &daZk{}
	for k, pre := range []int64{111, 222} {
		p := big.NewInt(pre)
		m := native_mimc.NewMiMC()
		m.Write(p.Bytes())
		h := m.Sum(nil)
		w, err := frontend.NewWitness(&zkp.ValidityProofCircuit{ShardHash: p, ShardDoubleHash: h}, ecc.BN254.ScalarField())
		if err != nil {
			return nil, err
		}
		pr, err := groth16.Prove(ccs, pk, w)
		if err != nil {
			return nil, err
		}
		bz, err := zkp.MarshalProof(pr)
		if err != nil {
			return nil, err
		}
		z.hash[k], z.proof[k] = h, bz
	}
	return z, nil
}

// ---------------------------------------------------------------- params
type daParams struct {
	thr, rf, sft, frac *big.Int // LegacyDec raw (×10^18)
	epoch              uint64
	cp, pp, rrp, vrp   int64 // ns
	pub, inv           sdk.Coins
}

var e18 = new(big.Int).Exp(big.NewInt(10), big.NewInt(18), nil)

func decOf(raw *big.Int) sdkmath.LegacyDec { return sdkmath.LegacyNewDecFromBigIntWithPrec(raw, 18) }

func daCoinsStr(cs sdk.Coins) string {
	if len(cs) == 0 {
		return "-"
	}
	var p []string
	for _, c := range cs {
		p = append(p, c.Denom+":"+c.Amount.String())
	}
	return strings.Join(p, ",")
}

func (p daParams) line() string {
	return fmt.Sprintf("thr=%s rf=%s epoch=%d sft=%s frac=%s cp=%d pp=%d rrp=%d vrp=%d pub=%s inv=%s",
		p.thr, p.rf, p.epoch, p.sft, p.frac, p.cp, p.pp, p.rrp, p.vrp, daCoinsStr(p.pub), daCoinsStr(p.inv))
}

func (p daParams) real() datypes.Params {
	d := datypes.DefaultParams()
	d.ChallengeThreshold = decOf(p.thr).String()
	d.ReplicationFactor = decOf(p.rf).String()
	d.SlashEpoch = p.epoch
	d.SlashFaultThreshold = decOf(p.sft).String()
	d.SlashFraction = decOf(p.frac).String()
	d.ChallengePeriod = time.Duration(p.cp)
	d.ProofPeriod = time.Duration(p.pp)
	d.RejectedRemovalPeriod = time.Duration(p.rrp)
	d.VerifiedRemovalPeriod = time.Duration(p.vrp)
	d.PublishDataCollateral = p.pub
	d.SubmitInvalidityCollateral = p.inv
	return d
}

func bi(s string) *big.Int { v, _ := new(big.Int).SetString(s, 10); return v }

func daRandParams(r *Rng, valid bool) daParams {
	pickB := func(xs ...string) *big.Int { return bi(xs[r.N(len(xs))]) }
	pickI := func(xs ...int64) int64 { return xs[r.N(len(xs))] }
	coin := func(d string, a int64) sdk.Coin { return sdk.Coin{Denom: d, Amount: sdkmath.NewInt(a)} }
	pubs := []sdk.Coins{{}, {coin("urise", 1)}, {coin("urise", 1000000007)}, {coin("uaaa", 7), coin("urise", 10)}, {coin("urise", 1000)}, {coin("uaaa", 1000003)}}
	invs := []sdk.Coins{{}, {coin("urise", 1)}, {coin("urise", 100000000)}, {coin("uaaa", 3), coin("urise", 5)}, {coin("urise", 250)}}
	p := daParams{
		thr:   pickB("0", "1", "330000000000000000", "330000000000000000", "500000000000000000", "1000000000000000000", "200000000000000000"),
		rf:    pickB("1", "500000000000000000", "1000000000000000000", "1000000000000000000", "2000000000000000000", "5000000000000000000", "1500000000000000000"),
		epoch: uint64(pickI(1, 2, 3, 5, 7, 1000000)),
		sft:   pickB("0", "500000000000000000", "1000000000000000000", "250000000000000000"),
		frac:  pickB("0", "1000000000000000", "500000000000000000"),
		cp:    pickI(1, 1e9, 2500000000, 4e9, 4e9, 240e9),
		pp:    pickI(1, 1e9, 3300000000, 6e9, 6e9, 600e9),
		rrp:   pickI(1, 3e9, 10e9, 72*3600e9),
		vrp:   pickI(1, 3e9, 10e9, 336*3600e9),
		pub:   pubs[r.N(len(pubs))],
		inv:   invs[r.N(len(invs))],
	}
	if !valid {
		switch r.N(8) {
		case 0:
			p.cp = 0
		case 1:
			p.thr = bi("1000000000000000001")
		case 2:
			p.rf = bi("0")
		case 3:
			p.epoch = 0
		case 4:
			p.pub = sdk.Coins{coin("urise", 5), coin("uaaa", 5)} // unsorted
		case 5:
			p.inv = sdk.Coins{coin("urise", 0)}
		case 6:
			p.sft = bi("-1")
		case 7:
			p.pp = -1
		}
	}
	return p
}

// daInvalidParams: the parameter set `b` with ONE field pushed just outside (and further outside) what Params.Validate
// accepts: every one of them must be refused; an accepted one becomes the parameter set of the rest of the history
func daInvalidParams(b daParams) []daParams {
	coin := func(d string, a int64) sdk.Coin { return sdk.Coin{Denom: d, Amount: sdkmath.NewInt(a)} }
	var out []daParams
	mk := func(f func(p *daParams)) { p := b; f(&p); out = append(out, p) }
	one := "1000000000000000000"
	for _, v := range []string{"-1", "-500000000000000000", "-" + one, "1000000000000000001", "2000000000000000000"} {
		v := v
		mk(func(p *daParams) { p.thr = bi(v) })
		mk(func(p *daParams) { p.sft = bi(v) })
		mk(func(p *daParams) { p.frac = bi(v) })
	}
	for _, v := range []string{"0", "-1", "-" + one} {
		v := v
		mk(func(p *daParams) { p.rf = bi(v) })
	}
	mk(func(p *daParams) { p.epoch = 0 })
	for _, v := range []int64{0, -1, -6e9} {
		v := v
		mk(func(p *daParams) { p.cp = v })
		mk(func(p *daParams) { p.pp = v })
		mk(func(p *daParams) { p.rrp = v })
		mk(func(p *daParams) { p.vrp = v })
	}
	mk(func(p *daParams) { p.pub = sdk.Coins{coin("urise", 5), coin("uaaa", 5)} })
	mk(func(p *daParams) { p.inv = sdk.Coins{coin("urise", 5), coin("uaaa", 5)} })
	mk(func(p *daParams) { p.pub = sdk.Coins{coin("urise", 0)} })
	mk(func(p *daParams) { p.inv = sdk.Coins{coin("urise", 0)} })
	mk(func(p *daParams) { p.pub = sdk.Coins{coin("urise", 1), coin("urise", 2)} })
	mk(func(p *daParams) { p.inv = sdk.Coins{{Denom: "urise", Amount: sdkmath.NewInt(-3)}} })
	return out
}

// ---------------------------------------------------------------- snapshot of the DA state (queried, canonical)
type daIt struct {
	uri, status, publisher string
	ts                     int64
	shards, parity         int
	pub, inv               sdk.Coins
}
type daRec struct {
	uri, sender string
	idx         []int64
}
type daSnap struct {
	items   map[string]daIt
	invs    []daRec
	proofs  []daRec
	deps    [][2]string
	faults  map[string]uint64
	chal    uint64
	bal     map[string]map[string]sdkmath.Int // name -> denom -> amount
	jailed  map[string]bool
	bonded  map[string]bool
	nowNs   int64
	heightH int64
}

func daIdxStr(ix []int64) string {
	if len(ix) == 0 {
		return "-"
	}
	var p []string
	for _, i := range ix {
		p = append(p, fmt.Sprint(i))
	}
	return strings.Join(p, ".")
}

func stName(s datypes.Status) string {
	switch s {
	case datypes.Status_STATUS_CHALLENGE_PERIOD:
		return "CP"
	case datypes.Status_STATUS_CHALLENGING:
		return "CH"
	case datypes.Status_STATUS_VERIFIED:
		return "VER"
	case datypes.Status_STATUS_REJECTED:
		return "REJ"
	}
	return "UNSPEC"
}

type daWorld struct {
	e     *Env
	c     *sim.Chain
	zk    *daZk
	name  map[string]string // bech32 acc address -> a<rank>
	accOf map[string]sim.Acc
	names []string // a0.. in rank order
	nv    int
	vals  []string // names of validators (sim order)
	par   daParams
	dust  map[string]*big.Int // accumulated division dust per denom (oracle bookkeeping)
	shard map[string][]int    // uri -> which hash (0/1) each shard carries
}

func (w *daWorld) snap() daSnap {
	c := w.c
	ctx := c.Ctx()
	k := c.App.DaKeeper
	s := daSnap{items: map[string]daIt{}, faults: map[string]uint64{}, bal: map[string]map[string]sdkmath.Int{}, jailed: map[string]bool{}, bonded: map[string]bool{}}
	s.nowNs, s.heightH = c.Time.UnixNano(), c.Height
	all, _ := k.GetAllPublishedData(ctx)
	for _, d := range all {
		s.items[d.MetadataUri] = daIt{uri: d.MetadataUri, status: stName(d.Status), publisher: w.name[d.Publisher], ts: d.Timestamp.UnixNano(),
			shards: len(d.ShardDoubleHashes), parity: int(d.ParityShardCount), pub: d.PublishDataCollateral, inv: d.SubmitInvalidityCollateral}
	}
	invs, _ := k.GetAllInvalidities(ctx)
	for _, x := range invs {
		s.invs = append(s.invs, daRec{x.MetadataUri, w.name[x.Sender], x.Indices})
	}
	prs, _ := k.GetAllProofs(ctx)
	for _, x := range prs {
		s.proofs = append(s.proofs, daRec{x.MetadataUri, w.name[x.Sender], x.Indices})
	}
	less := func(a, b daRec) bool {
		if a.uri != b.uri {
			return a.uri < b.uri
		}
		return a.sender < b.sender
	}
	sort.Slice(s.invs, func(i, j int) bool { return less(s.invs[i], s.invs[j]) })
	sort.Slice(s.proofs, func(i, j int) bool { return less(s.proofs[i], s.proofs[j]) })
	_ = k.ProofDeputies.Walk(ctx, nil, func(key []byte, v []byte) (bool, error) {
		s.deps = append(s.deps, [2]string{w.name[sdk.AccAddress(key).String()], w.name[sdk.AccAddress(v).String()]})
		return false, nil
	})
	sort.Slice(s.deps, func(i, j int) bool { return s.deps[i][0] < s.deps[j][0] })
	k.IterateFaultCounters(ctx, func(op sdk.ValAddress, n uint64) bool {
		s.faults[w.name[sdk.AccAddress(op).String()]] = n
		return false
	})
	s.chal = k.GetChallengeCounter(ctx)
	get := func(nm string, a sdk.AccAddress) {
		s.bal[nm] = map[string]sdkmath.Int{}
		for _, d := range daDenoms {
			s.bal[nm][d] = c.Bal(a, d)
		}
	}
	get("da", authtypes.NewModuleAddress(datypes.ModuleName))
	for _, n := range w.names {
		get(n, w.accOf[n].Addr)
	}
	for i := 0; i < w.nv; i++ {
		v, err := c.App.StakingKeeper.GetValidator(ctx, c.Vals[i].Oper)
		if err == nil {
			s.jailed[w.vals[i]] = v.Jailed
			s.bonded[w.vals[i]] = v.IsBonded()
		}
	}
	return s
}

func (s daSnap) line(w *daWorld) string {
	var sb strings.Builder
	uris := []string{}
	for u := range s.items {
		uris = append(uris, u)
	}
	sort.Strings(uris)
	list := func(tag string, xs []string) {
		if len(xs) == 0 {
			xs = []string{"-"}
		}
		fmt.Fprintf(&sb, "%s=%s ", tag, strings.Join(xs, ","))
	}
	var xs []string
	for _, u := range uris {
		it := s.items[u]
		xs = append(xs, fmt.Sprintf("%s:%s:%d", u, it.status, it.ts))
	}
	list("items", xs)
	xs = nil
	for _, r := range s.invs {
		xs = append(xs, fmt.Sprintf("%s/%s:%s", r.uri, r.sender, daIdxStr(r.idx)))
	}
	list("invs", xs)
	xs = nil
	for _, r := range s.proofs {
		xs = append(xs, fmt.Sprintf("%s/%s:%s", r.uri, r.sender, daIdxStr(r.idx)))
	}
	list("proofs", xs)
	xs = nil
	for _, d := range s.deps {
		xs = append(xs, d[0]+">"+d[1])
	}
	list("deps", xs)
	xs = nil
	for _, n := range w.names {
		if v, ok := s.faults[n]; ok {
			xs = append(xs, fmt.Sprintf("%s:%d", n, v))
		}
	}
	list("faults", xs)
	fmt.Fprintf(&sb, "chal=%d ", s.chal)
	xs = nil
	for _, n := range append([]string{"da"}, w.names...) {
		p := []string{n}
		for _, d := range daDenoms {
			p = append(p, s.bal[n][d].String())
		}
		xs = append(xs, strings.Join(p, ":"))
	}
	list("bal", xs)
	return strings.TrimSpace(sb.String())
}

func amt(cs sdk.Coins, d string) *big.Int {
	t := new(big.Int)
	for _, c := range cs {
		if c.Denom == d {
			t.Add(t, c.Amount.BigInt())
		}
	}
	return t
}

func unixFloor(ns int64) int64 {
	q := ns / 1e9
	if ns%1e9 < 0 {
		q--
	}
	return q
}

// distinct submitted indices of the invalidities of uri
func distinctIdx(recs []daRec, uri string) int {
	seen := map[int64]bool{}
	for _, r := range recs {
		if r.uri == uri {
			for _, i := range r.idx {
				seen[i] = true
			}
		}
	}
	return len(seen)
}

func countRecs(recs []daRec, uri string) int {
	n := 0
	for _, r := range recs {
		if r.uri == uri {
			n++
		}
	}
	return n
}

// ---------------------------------------------------------------- oracles
// escrow equation (C08): bal(da) = Σ_{unresolved} (publish collateral + #recorded challengers × invalidity collateral) + dust
func (w *daWorld) oracleEscrow(s daSnap, where string) {
	for _, d := range daDenoms {
		want := new(big.Int).Set(w.dust[d])
		for u, it := range s.items {
			if it.status == "CP" || it.status == "CH" {
				want.Add(want, amt(it.pub, d))
				n := big.NewInt(int64(countRecs(s.invs, u)))
				want.Add(want, n.Mul(n, amt(it.inv, d)))
			}
		}
		got := s.bal["da"][d].BigInt()
		w.e.Oracle("escrow_eq", got.Cmp(want) == 0, "%s denom=%s module=%s expected=%s", where, d, got, want)
	}
	// challenge/proof records exist only for unresolved items
	for _, r := range s.invs {
		it, ok := s.items[r.uri]
		w.e.Oracle("records_only_unresolved", ok && (it.status == "CP" || it.status == "CH"), "%s invalidity %s/%s item=%v/%s", where, r.uri, r.sender, ok, it.status)
	}
	for _, r := range s.proofs {
		it, ok := s.items[r.uri]
		w.e.Oracle("records_only_unresolved", ok && it.status == "CH", "%s proof %s/%s item=%v/%s", where, r.uri, r.sender, ok, it.status)
	}
}

var daEdges = map[string]bool{"CP>CH": true, "CP>VER": true, "CH>VER": true, "CH>REJ": true}

type daAssign map[string]map[string][]int64 // uri -> validator name -> assigned indices

// after a block: graph, deadlines, reference tally, payouts, faults, slashing (C07/C08/C09), all from queried state
func (w *daWorld) oracleBlock(pre, post daSnap, par daParams, asg daAssign, active []string, slashedObs []string) {
	e := w.e
	t := post.nowNs
	expect := map[string]map[string]*big.Int{} // name -> denom -> expected delta
	add := func(nm string, cs sdk.Coins, mul int64) {
		if expect[nm] == nil {
			expect[nm] = map[string]*big.Int{}
		}
		for _, d := range daDenoms {
			if expect[nm][d] == nil {
				expect[nm][d] = new(big.Int)
			}
			expect[nm][d].Add(expect[nm][d], new(big.Int).Mul(amt(cs, d), big.NewInt(mul)))
		}
	}
	faultInc := map[string]uint64{}
	tallied := uint64(0)
	uris := []string{}
	for u := range pre.items {
		uris = append(uris, u)
	}
	sort.Strings(uris)
	for _, u := range uris {
		a := pre.items[u]
		b, still := post.items[u]
		thrMet := func() bool {
			n := new(big.Int).Mul(big.NewInt(int64(distinctIdx(pre.invs, u))), e18)
			return n.Cmp(new(big.Int).Mul(par.thr, big.NewInt(int64(a.shards)))) >= 0
		}
		if !still {
			per := par.vrp
			if a.status == "REJ" {
				per = par.rrp
			}
			ok := (a.status == "VER" || a.status == "REJ") && unixFloor(a.ts) <= unixFloor(t-per)
			e.Oracle("pruned_only_after_retention", ok, "%s %s ts=%d t=%d", u, a.status, a.ts, t)
			continue
		}
		// the path of the item through the phases of this end-block (to-challenging, to-verified, tally); with a
		// sub-second proof period an item can be opened and tallied in the same end-block (second-granular index)
		n := countRecs(pre.invs, u)
		path := []string{a.status}
		st, ts := a.status, a.ts
		if st == "CP" && thrMet() && n > 0 {
			st, ts = "CH", t
			path = append(path, st)
		}
		expiredCP := st == "CP" && unixFloor(ts) <= unixFloor(t-par.cp)
		tally := st == "CH" && unixFloor(ts) <= unixFloor(t-par.pp)
		if a.status != b.status {
			if len(path) == 2 && b.status != "CH" {
				e.Oracle("status_graph", daEdges[a.status+">CH"] && daEdges["CH>"+b.status] && tally, "%s %s>CH>%s in one block", u, a.status, b.status)
				e.Stat("edge." + a.status + ">CH>" + b.status)
			} else {
				e.Oracle("status_graph", daEdges[a.status+">"+b.status], "%s %s>%s", u, a.status, b.status)
				e.Stat("edge." + a.status + ">" + b.status)
			}
			e.Oracle("transition_stamps_time", b.ts == t, "%s ts=%d t=%d", u, b.ts, t)
		} else {
			e.Oracle("timestamp_stable", a.ts == b.ts, "%s %s", u, a.status)
		}
		switch a.status {
		case "VER", "REJ":
			e.Oracle("terminal_is_final", a.status == b.status, "%s %s>%s", u, a.status, b.status)
			continue
		case "CP":
			if b.status != "CP" && len(path) == 1 && b.status != "VER" {
				e.Oracle("to_challenging_only_at_threshold", false, "%s distinct=%d shards=%d challengers=%d", u, distinctIdx(pre.invs, u), a.shards, n)
				if b.status == "CH" {
					e.Oracle("challenging_has_challenger", n > 0, "%s challengers=%d", u, n)
				}
			}
			if len(path) == 2 {
				e.Oracle("to_challenging_at_first_block", b.status != "CP", "%s distinct=%d shards=%d status=%s", u, distinctIdx(pre.invs, u), a.shards, b.status)
				if distinctIdxInRange(pre.invs, u, a.shards) == 0 {
					e.Stat("to_ch_only_out_of_range_indices")
				}
			}
			if b.status == "VER" && len(path) == 1 {
				e.Oracle("expiry_not_early", a.ts+par.cp < t+1e9 && expiredCP, "%s ts=%d cp=%d t=%d", u, a.ts, par.cp, t)
				// payout rule, unchallenged expiry: publisher refunded, recorded challengers refunded
				add(a.publisher, a.pub, 1)
				for _, r := range pre.invs {
					if r.uri == u {
						add(r.sender, a.inv, 1)
					}
				}
			}
			if b.status == "CP" {
				e.Oracle("resolves_on_time", !(a.ts+par.cp <= t), "%s CP ts=%d cp=%d t=%d", u, a.ts, par.cp, t)
			}
		}
		if st == "CH" {
			if b.status == "CH" {
				e.Oracle("resolves_on_time", !(ts+par.pp <= t), "%s CH ts=%d pp=%d t=%d", u, ts, par.pp, t)
				continue
			}
			if b.status == "CP" {
				continue
			}
			e.Oracle("expiry_not_early", ts+par.pp < t+1e9 && tally, "%s ts=%d pp=%d t=%d", u, ts, par.pp, t)
			tallied++
			// reference tally: distinct validators per index
			provers := map[int64]map[string]bool{}
			for _, r := range pre.proofs {
				if r.uri == u {
					for _, i := range r.idx {
						if provers[i] == nil {
							provers[i] = map[string]bool{}
						}
						provers[i][r.sender] = true
					}
				}
			}
			// threshold expression: rf*(n-p)/n*2/3, truncated at each division as LegacyDec.QuoInt64 does
			x := new(big.Int).Mul(par.rf, big.NewInt(int64(a.shards-a.parity)))
			x.Quo(x, big.NewInt(int64(a.shards)))
			x.Mul(x, big.NewInt(2))
			x.Quo(x, big.NewInt(3))
			safe := map[int64]bool{}
			for i, ps := range provers {
				if new(big.Int).Mul(big.NewInt(int64(len(ps))), e18).Cmp(x) >= 0 {
					safe[i] = true
				}
			}
			rejected := len(safe)+a.parity < a.shards
			want := "VER"
			if rejected {
				want = "REJ"
			}
			e.Oracle("verdict_ref", b.status == want, "%s safe=%d parity=%d shards=%d got=%s want=%s", u, len(safe), a.parity, a.shards, b.status, want)
			e.Stat("verdict." + b.status)
			for _, v := range active {
				f := false
				for _, i := range asg[u][v] {
					if safe[i] && !provers[i][v] {
						f = true
					}
				}
				if f {
					faultInc[v]++
				}
			}
			// payout rule
			var ch []daRec
			for _, r := range pre.invs {
				if r.uri == u {
					ch = append(ch, r)
				}
			}
			if rejected && len(ch) > 0 {
				allWrong := true
				for _, r := range ch {
					hit := false
					for _, i := range r.idx {
						if safe[i] {
							hit = true
						}
					}
					allWrong = allWrong && hit
				}
				if allWrong {
					e.Stat("tally.rejected_every_challenger_flagged_a_safe_shard")
				}
			}
			if rejected {
				n := int64(len(ch))
				for _, d := range daDenoms {
					p := amt(a.pub, d)
					if n > 0 {
						q := new(big.Int).Quo(p, big.NewInt(n))
						for _, r := range ch {
							if expect[r.sender] == nil {
								expect[r.sender] = map[string]*big.Int{}
							}
							if expect[r.sender][d] == nil {
								expect[r.sender][d] = new(big.Int)
							}
							expect[r.sender][d].Add(expect[r.sender][d], q)
						}
						rem := new(big.Int).Sub(p, new(big.Int).Mul(q, big.NewInt(n)))
						e.Oracle("dust_bound", rem.Sign() >= 0 && rem.Cmp(big.NewInt(n)) < 0, "%s denom=%s dust=%s n=%d", u, d, rem, n)
						w.dust[d].Add(w.dust[d], rem)
					}
				}
				for _, r := range ch {
					add(r.sender, a.inv, 1)
				}
			} else {
				add(a.publisher, a.pub, 1)
				for _, r := range ch {
					correct := true
					for _, i := range r.idx {
						if safe[i] {
							correct = false
						}
					}
					if correct {
						add(r.sender, a.inv, 1)
					} else {
						add(a.publisher, a.inv, 1)
					}
				}
			}
		}
	}
	for u, b := range post.items {
		if _, ok := pre.items[u]; !ok {
			e.Oracle("status_graph", false, "item %s appeared in a block with status %s", u, b.status)
		}
	}
	// payouts: every account's balance moved by exactly the documented amounts
	for _, nme := range w.names {
		for _, d := range daDenoms {
			got := new(big.Int).Sub(post.bal[nme][d].BigInt(), pre.bal[nme][d].BigInt())
			want := new(big.Int)
			if expect[nme] != nil && expect[nme][d] != nil {
				want = expect[nme][d]
			}
			e.Oracle("payout_rule", got.Cmp(want) == 0, "%s denom=%s delta=%s expected=%s", nme, d, got, want)
		}
	}
	// fault counters and slashing epoch
	epochEnd := par.epoch > 0 && post.heightH%int64(par.epoch) == 0
	chalAfterTally := pre.chal + tallied
	if !epochEnd {
		e.Oracle("challenge_counter", post.chal == chalAfterTally, "got=%d want=%d", post.chal, chalAfterTally)
		for _, v := range w.names {
			want := pre.faults[v] + faultInc[v]
			e.Oracle("fault_ref", post.faults[v] == want, "%s got=%d want=%d (inc %d over %d tallied)", v, post.faults[v], want, faultInc[v], tallied)
		}
	} else {
		e.Stat("epoch_end")
		e.Oracle("challenge_counter", post.chal == 0, "after epoch got=%d", post.chal)
		e.Oracle("fault_reset", len(post.faults) == 0, "counters left after epoch: %v", post.faults)
		// threshold = ceil(sft * challenges)
		th := new(big.Int).Mul(par.sft, new(big.Int).SetUint64(chalAfterTally))
		th.Add(th, new(big.Int).Sub(e18, big.NewInt(1)))
		th.Quo(th, e18)
		var want []string
		for _, v := range w.names {
			cnt := pre.faults[v] + faultInc[v]
			isActive := false
			for _, a := range active {
				if a == v {
					isActive = true
				}
			}
			if cnt > 0 && isActive && !pre.jailed[v] && new(big.Int).SetUint64(cnt).Cmp(th) > 0 {
				want = append(want, v)
			}
			if cnt > 0 && !isActive && !pre.jailed[v] {
				e.Stat("epoch_end.not_bonded_unjailed_with_faults")
				if new(big.Int).SetUint64(cnt).Cmp(th) > 0 {
					e.Stat("epoch_end.not_bonded_unjailed_above_threshold")
				}
			}
		}
		e.Oracle("slash_ref", strings.Join(want, ",") == strings.Join(slashedObs, ","), "slashed=%v want=%v threshold=%s challenges=%d", slashedObs, want, th, chalAfterTally)
		if len(want) > 0 {
			e.Stat("slashed")
		}
	}
	w.oracleEscrow(post, "block")
}

func distinctIdxInRange(recs []daRec, uri string, shards int) int {
	seen := map[int64]bool{}
	for _, r := range recs {
		if r.uri == uri {
			for _, i := range r.idx {
				if i >= 0 && i < int64(shards) {
					seen[i] = true
				}
			}
		}
	}
	return len(seen)
}

// ---------------------------------------------------------------- the suite
func suiteDA(e *Env) {
	zk, err := daMakeProofs()
	if err != nil {
		e.Obs("setup-error proofs %v", err)
		return
	}
	daScenarioDuplicateIndex(e, zk)
	for h := 0; h < e.N; h++ {
		daHistory(e, zk, h)
	}
}

// daSetup builds a fresh chain with `nv` validators and the given DA params, names the accounts, prints the reset block
func daSetup(e *Env, zk *daZk, nv int, par daParams) (w *daWorld, s0 daSnap, ok bool) {
	r := e.R
	cfg := sim.DefaultConfig()
	cfg.NumAccs = 6
	cfg.ValPowers = nil
	for i := 0; i < nv; i++ {
		cfg.ValPowers = append(cfg.ValPowers, int64(50+10*i))
	}
	cfg.Start = cfg.Start.Add(time.Duration(r.N(1_000_000_000))) // sub-second genesis offset
	realPar := par.real()
	capVals := nv >= 3 && r.N(3) == 0
	if capVals {
		e.Stat("setup.validator_outside_max_validators")
	}
	cfg.GenesisMut = func(_ sim.Codec, gs map[string]json.RawMessage) {
		var g map[string]json.RawMessage
		_ = json.Unmarshal(gs[datypes.ModuleName], &g)
		var pm map[string]json.RawMessage
		_ = json.Unmarshal(g["params"], &pm)
		for k, v := range daParamsJSON(realPar) {
			pm[k], _ = json.Marshal(v)
		}
		g["params"], _ = json.Marshal(pm)
		gs[datypes.ModuleName], _ = json.Marshal(g)
	}
	c, err := sim.New(cfg)
	if err != nil {
		e.Obs("setup-error %v", err)
		return nil, daSnap{}, false
	}
	if capVals {
		// governance lowers max_validators below the number of validators: at the next staking end-block the weakest one
		// starts unbonding - it keeps its tokens and its entry in the staking power index, but is no longer bonded
		sp, _ := c.App.StakingKeeper.Params.Get(c.Ctx())
		sp.MaxValidators = uint32(nv - 1)
		sp.KeyRotationFee = sdk.NewCoin(sp.BondDenom, sp.KeyRotationFee.Amount) // the handler validates it against the bond denom
		gov := authtypes.NewModuleAddress("gov").String()
		if _, err, p := c.Exec(&stakingtypes.MsgUpdateParams{Authority: gov, Params: sp}); err != nil || p != nil {
			e.Note("staking MsgUpdateParams: %v %v", err, p)
		}
		if _, err := c.NextBlock(time.Second); err != nil {
			e.Note("setup block: %v", err)
		}
	}
	w = &daWorld{e: e, c: c, zk: zk, name: map[string]string{}, accOf: map[string]sim.Acc{}, nv: nv, par: par, dust: map[string]*big.Int{}, shard: map[string][]int{}}
	for _, d := range daDenoms {
		w.dust[d] = new(big.Int)
	}
	// account names in address-byte order (the order of every (uri, sender)-keyed store)
	idx := []int{}
	for i := range c.Accs {
		idx = append(idx, i)
	}
	sort.Slice(idx, func(a, b int) bool { return bytes.Compare(c.Accs[idx[a]].Addr, c.Accs[idx[b]].Addr) < 0 })
	nameOfIdx := map[int]string{}
	for rank, i := range idx {
		n := fmt.Sprintf("a%d", rank)
		w.names = append(w.names, n)
		w.name[c.Accs[i].Addr.String()] = n
		w.accOf[n] = c.Accs[i]
		nameOfIdx[i] = n
	}
	for i := 0; i < nv; i++ {
		w.vals = append(w.vals, nameOfIdx[i])
	}
	// the genesis params must be what we asked for
	gotPar, _ := c.App.DaKeeper.Params.Get(c.Ctx())
	if gotPar.ChallengeThreshold != realPar.ChallengeThreshold || gotPar.ChallengePeriod != realPar.ChallengePeriod || !gotPar.PublishDataCollateral.Equal(realPar.PublishDataCollateral) {
		e.Obs("setup-error genesis params not applied: %v", gotPar.ChallengeThreshold)
		return nil, daSnap{}, false
	}
	s0 = w.snap()
	e.In("reset now=%d height=%d denoms=%s vals=%s", s0.nowNs, s0.heightH, strings.Join(daDenoms, ","), strings.Join(w.vals, ","))
	for _, n := range w.names {
		p := []string{}
		for _, d := range daDenoms {
			p = append(p, s0.bal[n][d].String())
		}
		e.In("acc %s %s", n, strings.Join(p, " "))
	}
	e.In("initparams %s", par.line())
	e.Obs("st %s", s0.line(w))

	return w, s0, true
}

func daHistory(e *Env, zk *daZk, h int) {
	r := e.R
	nv := 1 + r.N(5)
	if h%7 == 3 {
		nv = 1
	}
	par := daRandParams(r, true)
	if h%5 == 1 { // the shipped defaults scaled down in time
		par = daParams{thr: bi("330000000000000000"), rf: bi("1000000000000000000"), epoch: uint64(2 + r.N(6)), sft: bi("500000000000000000"), frac: bi("1000000000000000"),
			cp: 4e9, pp: 6e9, rrp: 9e9, vrp: 12e9,
			pub: sdk.NewCoins(sdk.NewCoin("urise", sdkmath.NewInt(1_000_000_000))), inv: sdk.NewCoins(sdk.NewCoin("urise", sdkmath.NewInt(100_000_000)))}
	}
	w, s0, ok := daSetup(e, zk, nv, par)
	if !ok {
		return
	}
	c := w.c
	nextURI := 0
	uris := []string{}
	pickAcc := func() string { return w.names[r.N(len(w.names))] }
	cur := s0
	steps := 26 + r.N(16)
	if e.Tier == "thorough" {
		steps += 20
	}
	blocksSinceMsg := 0
	// the names of the items are not in the order of their publication (the stores are ordered by name)
	uriPerm := r.Perm(100)
	// directed: every way ONE parameter can be out of range, a different third of them in each history
	{
		bad := daInvalidParams(w.par)
		auth, _ := c.App.AuthKeeper.AddressCodec().BytesToString(c.App.DaKeeper.GetAuthority())
		for i := h % 3; i < len(bad); i += 3 {
			np := bad[i]
			pre := cur
			e.In("setparams %s", np.line())
			_, err, p := c.Exec(&datypes.MsgUpdateParams{Authority: auth, Params: np.real()})
			cls := class(err, p)
			if cls == "ok" {
				w.par = np
			}
			w.afterMsg("setparams", cls, pre, &cur, nil)
			e.Stat("setparams.directed_invalid." + cls)
		}
	}
	lowered := false
	for k := 0; k < steps; k++ {
		// in the middle of some histories governance lowers max_validators by one: at the next staking end-block the weakest
		// bonded validator starts UNBONDING (not jailed) with the fault counters it has collected so far; at the epoch end it
		// is not a bonded validator any more
		// ... as soon as the weakest validator (the one that will leave the set) has collected a fault in the current epoch, or
		// at a fixed step otherwise
		weakest := w.vals[0]
		if !lowered && nv >= 3 && h%2 == 0 && ((cur.faults[weakest] > 0 && cur.bonded[weakest] && !cur.jailed[weakest]) || k == steps/3+(h%3)*steps/6) {
			lowered = true
			sp, _ := c.App.StakingKeeper.Params.Get(c.Ctx())
			if sp.MaxValidators > 1 {
				bondedNow := uint32(0)
				for _, b := range cur.bonded {
					if b {
						bondedNow++
					}
				}
				if bondedNow > 1 {
					sp.MaxValidators = bondedNow - 1
					sp.KeyRotationFee = sdk.NewCoin(sp.BondDenom, sp.KeyRotationFee.Amount)
					gov := authtypes.NewModuleAddress("gov").String()
					_, err, p := c.Exec(&stakingtypes.MsgUpdateParams{Authority: gov, Params: sp})
					e.Stat("midhistory.max_validators_lowered." + class(err, p))
					if cur.faults[weakest] > 0 && err == nil && p == nil {
						// ... and the slash threshold share becomes 0, so that the fault it has collected is above the threshold at
						// the epoch end: the validator that has just left the bonded set must NOT be slashed
						np := w.par
						np.sft = new(big.Int)
						auth, _ := c.App.AuthKeeper.AddressCodec().BytesToString(c.App.DaKeeper.GetAuthority())
						pre := cur
						e.In("setparams %s", np.line())
						_, err, p := c.Exec(&datypes.MsgUpdateParams{Authority: auth, Params: np.real()})
						cls := class(err, p)
						if cls == "ok" {
							w.par = np
						}
						w.afterMsg("setparams", cls, pre, &cur, nil)
						e.Stat("midhistory.slash_threshold_zero." + cls)
					}
				}
			}
		}
		pre := cur
		// choose an operation kind by what the state offers
		var cpItems, chItems, termItems []string
		for u, it := range pre.items {
			switch it.status {
			case "CP":
				cpItems = append(cpItems, u)
			case "CH":
				chItems = append(chItems, u)
			default:
				termItems = append(termItems, u)
			}
		}
		sort.Strings(cpItems)
		sort.Strings(chItems)
		sort.Strings(termItems)
		pickItem := func(pref []string) string {
			if len(pref) > 0 && r.N(8) != 0 {
				return pref[r.N(len(pref))]
			}
			if len(uris) > 0 && r.N(4) != 0 {
				return uris[r.N(len(uris))]
			}
			return "nope"
		}
		kind := r.N(100)
		// every third history opens with two items published, challenged and proved side by side (the kinds are forced,
		// the choices inside each operation stay random): several disputed items hold proofs at the same time
		if script := []int{0, 0, 20, 20, 20, 20, 20, 90, 50, 50, 50, 50, 50, 50, 50, 90}; h%3 == 2 && k < len(script) {
			kind = script[k]
		}
		switch {
		case kind < 14 || len(pre.items) == 0 && kind < 50: // publish
			pubr := pickAcc()
			var uri string
			if len(uris) > 0 && r.N(6) == 0 {
				uri = uris[r.N(len(uris))] // duplicate, or re-publication of a pruned uri
			} else {
				uri = fmt.Sprintf("u%d", uriPerm[nextURI%100])
				nextURI++
				uris = append(uris, uri)
			}
			shards := 1 + r.N(8)
			parity := r.N(shards)
			if r.N(10) == 0 {
				parity = shards + r.N(2)
			}
			if r.N(12) == 0 {
				shards, parity = 0, 0
			}
			hs := make([][]byte, shards)
			pat := make([]int, shards)
			for i := range hs {
				pat[i] = r.N(2)
				hs[i] = zk.hash[pat[i]]
			}
			e.In("publish %s %s shards=%d parity=%d", pubr, uri, shards, parity)
			_, err, p := c.Exec(&datypes.MsgPublishData{Sender: w.accOf[pubr].Addr.String(), MetadataUri: uri, ParityShardCount: uint64(parity), ShardDoubleHashes: hs})
			cls := class(err, p)
			if cls == "ok" {
				w.shard[uri] = pat
			}
			w.afterMsg("publish", cls, pre, &cur, func(post daSnap) {
				_, existed := pre.items[uri]
				e.Oracle("publish_accept", (cls == "ok") == (!existed && parity < shards && w.canPay(pre, pubr, w.par.pub)), "%s existed=%v parity=%d shards=%d", uri, existed, parity, shards)
				if cls == "ok" {
					it := post.items[uri]
					e.Oracle("publish_starts_in_challenge_period", it.status == "CP" && it.ts == post.nowNs && it.pub.Equal(w.par.pub) && it.inv.Equal(w.par.inv), "%s %s", uri, it.status)
				}
			})
		case kind < 40: // submit invalidity
			uri := pickItem(cpItems)
			sender := pickAcc()
			it := pre.items[uri]
			var ix []int64
			n := 1 + r.N(4)
			if r.N(14) == 0 {
				n = 0
			}
			for i := 0; i < n; i++ {
				switch r.N(12) {
				case 0:
					ix = append(ix, int64(it.shards+r.N(3))) // out of range
				case 1:
					ix = append(ix, -1-int64(r.N(2)))
				case 2:
					if len(ix) > 0 {
						ix = append(ix, ix[0]) // duplicate
						break
					}
					fallthrough
				default:
					ix = append(ix, int64(r.N(max(it.shards, 1))))
				}
			}
			if r.N(5) == 0 && it.shards > 0 {
				// a blanket challenge: every shard is flagged, so every shard that turns out safe makes this challenger wrong
				ix = nil
				for i := 0; i < it.shards; i++ {
					ix = append(ix, int64(i))
				}
			}
			e.In("invalid %s %s %s", sender, uri, daIdxStr(ix))
			_, err, p := c.Exec(&datypes.MsgSubmitInvalidity{Sender: w.accOf[sender].Addr.String(), MetadataUri: uri, Indices: ix})
			cls := class(err, p)
			already := false
			for _, x := range pre.invs {
				if x.uri == uri && x.sender == sender {
					already = true
				}
			}
			if already {
				e.Stat("invalid.repeat." + cls)
			}
			w.afterMsg("invalid", cls, pre, &cur, func(post daSnap) {
				_, found := pre.items[uri]
				inWindow := found && it.status == "CP" && !(it.ts+w.par.cp < pre.nowNs)
				if cls == "ok" {
					e.Oracle("invalidity_accept_window", inWindow && len(ix) > 0, "%s status=%s ts=%d now=%d cp=%d n=%d", uri, it.status, it.ts, pre.nowNs, w.par.cp, len(ix))
				} else if cls == "err" {
					// rejected although the documented conditions hold: only lack of funds or (fixed code) a repeated challenge may explain it
					e.Oracle("invalidity_reject_reason", !(inWindow && len(ix) > 0 && w.canPay(pre, sender, it.inv) && !already), "%s rejected without reason", uri)
				}
			})
		case kind < 62: // submit validity proof
			uri := pickItem(chItems)
			it := pre.items[uri]
			val := pickAcc()
			if len(w.vals) > 0 && r.N(8) != 0 {
				val = w.vals[r.N(len(w.vals))]
			}
			sender := val
			var dep string
			for _, d := range pre.deps {
				if d[0] == val {
					dep = d[1]
				}
			}
			switch r.N(6) {
			case 0:
				sender = pickAcc()
			case 1, 2:
				if dep != "" {
					sender = dep
				}
			}
			// indices: mostly what the validator is assigned
			var ix []int64
			var flags []string
			assigned := w.assignedNow(uri, val, it.shards)
			base := assigned
			if len(base) == 0 || r.N(5) == 0 {
				base = nil
				for i := 0; i < it.shards; i++ {
					if r.N(2) == 0 {
						base = append(base, int64(i))
					}
				}
			}
			for _, i := range base {
				if r.N(6) != 0 {
					ix = append(ix, i)
				}
			}
			if r.N(8) == 0 && len(ix) > 0 {
				ix = append(ix, ix[r.N(len(ix))]) // duplicate index inside one proof
			}
			if r.N(16) == 0 {
				ix = append(ix, int64(it.shards+r.N(2)))
			}
			if r.N(16) == 0 {
				ix = append(ix, -1)
			}
			var proofs [][]byte
			for _, i := range ix {
				f := "1"
				if r.N(25) == 0 {
					f = "0"
				} else if r.N(40) == 0 {
					f = "x"
				}
				which := 0
				if i >= 0 && int(i) < len(w.shard[uri]) {
					which = w.shard[uri][i]
				}
				switch f {
				case "1":
					proofs = append(proofs, zk.proof[which])
				case "0":
					proofs = append(proofs, zk.proof[1-which])
				default:
					proofs = append(proofs, []byte{0})
				}
				flags = append(flags, fmt.Sprintf("%d:%s", i, f))
			}
			mismatch := 0
			if r.N(30) == 0 {
				proofs = append(proofs, zk.proof[0])
				mismatch = 1
			}
			exists, bonded := 0, 0
			if v, err := c.App.StakingKeeper.GetValidator(c.Ctx(), sdk.ValAddress(w.accOf[val].Addr)); err == nil {
				exists = 1
				if v.IsBonded() {
					bonded = 1
				}
			}
			fl := strings.Join(flags, ",")
			if fl == "" {
				fl = "-"
			}
			e.In("proof %s %s %s %s extra=%d exists=%d bonded=%d", sender, val, uri, fl, mismatch, exists, bonded)
			_, err, p := c.Exec(&datypes.MsgSubmitValidityProof{Sender: w.accOf[sender].Addr.String(), ValidatorAddress: sdk.ValAddress(w.accOf[val].Addr).String(),
				MetadataUri: uri, Indices: ix, Proofs: proofs})
			cls := class(err, p)
			w.afterMsg("proof", cls, pre, &cur, func(post daSnap) {
				if cls == "ok" {
					auth := sender == val || (dep != "" && dep == sender)
					_, found := pre.items[uri]
					good := true
					for _, f := range flags {
						if !strings.HasSuffix(f, ":1") {
							good = false
						}
					}
					for _, i := range ix {
						if i < 0 || int(i) >= it.shards {
							good = false
						}
					}
					e.Oracle("proof_accept_conditions", found && it.status == "CH" && !(it.ts+w.par.pp < pre.nowNs) && auth && bonded == 1 && good && mismatch == 0,
						"%s status=%s auth=%v bonded=%d good=%v", uri, it.status, auth, bonded, good)
				}
			})
		case kind < 70: // deputies
			v := pickAcc()
			if len(w.vals) > 0 && r.N(3) != 0 {
				v = w.vals[r.N(len(w.vals))]
			}
			if r.N(3) != 0 {
				d := pickAcc()
				e.In("regdep %s %s", v, d)
				_, err, p := c.Exec(&datypes.MsgRegisterProofDeputy{Sender: w.accOf[v].Addr.String(), DeputyAddress: w.accOf[d].Addr.String()})
				w.afterMsg("regdep", class(err, p), pre, &cur, nil)
			} else {
				e.In("unregdep %s", v)
				_, err, p := c.Exec(&datypes.MsgUnregisterProofDeputy{Sender: w.accOf[v].Addr.String()})
				w.afterMsg("unregdep", class(err, p), pre, &cur, nil)
			}
		case kind < 74: // params change between publication and resolution
			np := daRandParams(r, r.N(4) != 0)
			e.In("setparams %s", np.line())
			auth, _ := c.App.AuthKeeper.AddressCodec().BytesToString(c.App.DaKeeper.GetAuthority())
			_, err, p := c.Exec(&datypes.MsgUpdateParams{Authority: auth, Params: np.real()})
			cls := class(err, p)
			if cls == "ok" {
				w.par = np
			}
			w.afterMsg("setparams", cls, pre, &cur, nil)
		default: // a block
			blocksSinceMsg++
			dt := w.pickDt(pre)
			active, asg, slashed, halted := w.block(pre, dt, &cur)
			if halted {
				return
			}
			_ = active
			_ = asg
			_ = slashed
			if len(active) == 0 {
				e.Note("no bonded validator left; history ends")
				return
			}
		}
	}
	// drain: run blocks until everything is resolved, to exercise every deadline of the history
	for i := 0; i < 6; i++ {
		open := false
		for _, it := range cur.items {
			if it.status == "CP" || it.status == "CH" {
				open = true
			}
		}
		if !open {
			break
		}
		active, _, _, halted := w.block(cur, w.pickDt(cur), &cur)
		if halted || len(active) == 0 {
			return
		}
	}
}

func (w *daWorld) canPay(s daSnap, who string, cs sdk.Coins) bool {
	for _, d := range daDenoms {
		if s.bal[who][d].BigInt().Cmp(amt(cs, d)) < 0 {
			return false
		}
	}
	return true
}

// after a message: outcome line + state line, generic oracles
func (w *daWorld) afterMsg(op, cls string, pre daSnap, cur *daSnap, extra func(post daSnap)) {
	e := w.e
	e.Stat(op + "." + cls)
	post := w.snap()
	e.Obs("%s %s", op, cls)
	e.Obs("st %s", post.line(w))
	e.Oracle("no_panic", cls != "panic", "Msg %s", op)
	// messages never move an existing item's status or timestamp, never delete one
	for u, a := range pre.items {
		b, ok := post.items[u]
		e.Oracle("status_graph", ok && a.status == b.status && a.ts == b.ts, "message %s changed item %s %s>%s", op, u, a.status, b.status)
	}
	if cls != "ok" {
		e.Oracle("failed_msg_no_change", pre.line(w) == post.line(w), "%s", op)
	}
	if extra != nil {
		extra(post)
	}
	w.oracleEscrow(post, op)
	*cur = post
}

func (w *daWorld) assignedNow(uri, val string, shards int) []int64 {
	if shards <= 0 {
		return nil
	}
	thr, err := w.safeThreshold(uint64(shards))
	if err != nil {
		return nil
	}
	return datypes.ShardIndicesForValidator(sdk.ValAddress(w.accOf[val].Addr), int64(thr), int64(shards))
}

// refThreshold: clamp(ceil(replication_factor * shards / #bonded), 1, shards), the quotient truncated at 18 decimals as
// LegacyDec.QuoInt64 does
func (w *daWorld) refThreshold(shards int, bonded int) int64 {
	if bonded <= 0 || shards <= 0 {
		return 0
	}
	e18 := new(big.Int).Exp(big.NewInt(10), big.NewInt(18), nil)
	q := new(big.Int).Mul(w.par.rf, big.NewInt(int64(shards)))
	q.Quo(q, big.NewInt(int64(bonded)))
	c, m := new(big.Int).QuoRem(q, e18, new(big.Int))
	if m.Sign() > 0 {
		c.Add(c, big.NewInt(1))
	}
	t := c.Int64()
	if t < 1 {
		t = 1
	}
	if t > int64(shards) {
		t = int64(shards)
	}
	return t
}

func (w *daWorld) safeThreshold(shards uint64) (thr uint64, err error) {
	defer func() {
		if r := recover(); r != nil {
			err = fmt.Errorf("panic %v", r)
		}
	}()
	return w.c.App.DaKeeper.GetZkpThreshold(w.c.Ctx(), shards)
}

// dt: land before / exactly on / after one of the pending deadlines, with sub-second offsets
func (w *daWorld) pickDt(s daSnap) int64 {
	r := w.e.R
	var deadlines []int64
	for _, it := range s.items {
		switch it.status {
		case "CP":
			deadlines = append(deadlines, it.ts+w.par.cp)
		case "CH":
			deadlines = append(deadlines, it.ts+w.par.pp)
		case "VER":
			deadlines = append(deadlines, it.ts+w.par.vrp)
		case "REJ":
			deadlines = append(deadlines, it.ts+w.par.rrp)
		}
	}
	sort.Slice(deadlines, func(i, j int) bool { return deadlines[i] < deadlines[j] })
	small := []int64{0, 1, 300000000, 999999999, 1000000000, 1000000001, 2500000000, 5000000000}
	if len(deadlines) == 0 || r.N(4) == 0 {
		return small[r.N(len(small))]
	}
	d := deadlines[r.N(len(deadlines))] - s.nowNs
	offs := []int64{-1000000000, -999999999, -500000000, -1, 0, 0, 1, 300000000, 999999999, 1000000000, 1000000001}
	dt := d + offs[r.N(len(offs))]
	if dt < 0 || dt > 3600e9 {
		return small[r.N(len(small))]
	}
	return dt
}

// one real block; records the boundary values the DA end-blocker saw, prints observation, runs the block oracles
func (w *daWorld) block(pre daSnap, dt int64, cur *daSnap) (active []string, asg daAssign, slashed []string, halted bool) {
	e, c := w.e, w.c
	par := w.par
	// Boundary values the DA end-blocker of the coming block will see, taken from the committed state: a validator
	// jailed earlier has left the power index already and is unbonded by staking's end-blocker, which runs first;
	// x/da's own jailing happens after its tally. (GetZkpThreshold counts the same set.)
	// A change of the staking parameters (max_validators lowered) makes staking's end-blocker of the coming block — which runs
	// before x/da's — unbond a validator that is still bonded in the committed state: the bonded set x/da will see is read from
	// a throw-away branch on which staking's end-blocker has run.
	willBeBonded := map[string]bool{}
	setChanges := false
	{
		ctx, _ := c.Ctx().CacheContext()
		var perr error
		func() {
			defer func() {
				if r := recover(); r != nil {
					perr = fmt.Errorf("%v", r)
				}
			}()
			_, perr = c.App.StakingKeeper.EndBlocker(ctx)
		}()
		for i, v := range w.vals {
			willBeBonded[v] = pre.bonded[v]
			if perr == nil && i < len(c.Vals) {
				if val, err := c.App.StakingKeeper.GetValidator(ctx, c.Vals[i].Oper); err == nil {
					willBeBonded[v] = val.IsBonded()
				}
			}
			if willBeBonded[v] != pre.bonded[v] {
				setChanges = true
				e.Stat("block.bonded_set_changes_in_this_block")
			}
		}
	}
	var ext []string
	for _, v := range w.vals {
		b, j := 0, 0
		if pre.jailed[v] {
			j = 1
		}
		if willBeBonded[v] && !pre.jailed[v] {
			b = 1
			active = append(active, v)
		}
		ext = append(ext, fmt.Sprintf("val %s bonded=%d jailed=%d", v, b, j))
	}
	asg = daAssign{}
	var chs []string
	for u, it := range pre.items {
		if it.status == "CH" || it.status == "CP" {
			chs = append(chs, u)
		}
	}
	sort.Strings(chs)
	for _, u := range chs {
		it := pre.items[u]
		asg[u] = map[string][]int64{}
		if len(active) == 0 {
			continue
		}
		// the assignment threshold by its definition, from the number of BONDED validators the harness sees (not from the keeper:
		// the keeper's GetZkpThreshold is compared with it below)
		thr := w.refThreshold(it.shards, len(active))
		if got, err := w.safeThreshold(uint64(it.shards)); err == nil && !setChanges { // the keeper is asked on the committed state
			e.Oracle("threshold_ref", int64(got) == thr, "item %s shards=%d bonded=%d GetZkpThreshold=%d definition=%d", u, it.shards, len(active), got, thr)
		}
		for _, v := range active {
			ix := datypes.ShardIndicesForValidator(sdk.ValAddress(w.accOf[v].Addr), int64(thr), int64(it.shards))
			asg[u][v] = ix
			ext = append(ext, fmt.Sprintf("assign %s %s %s", u, v, daIdxStr(ix)))
		}
	}
	if len(active) == 0 {
		// every validator has been jailed (by x/da's own slashing): the chain has no validator set left, and
		// GetZkpThreshold would divide by zero; the history ends before this block
		e.Note("no bonded validator left; history ends")
		e.Stat("history_ended_no_validators")
		return nil, nil, nil, false
	}
	{ // how many challenged items hold validity proofs at the same time
		with := map[string]bool{}
		for _, pr := range pre.proofs {
			with[pr.uri] = true
		}
		n := len(with)
		if n > 3 {
			n = 3
		}
		e.Stat(fmt.Sprintf("block.items_with_proofs.%d", n))
	}
	_, err := c.NextBlock(time.Duration(dt))
	if err != nil {
		for _, l := range ext {
			e.In("%s", l)
		}
		e.In("block %d", dt)
		e.Obs("block halt")
		e.Oracle("no_halt", false, "FinalizeBlock failed: %.200s", err.Error())
		return nil, nil, nil, true
	}
	e.Stat("block")
	post := w.snap()
	for _, l := range ext {
		e.In("%s", l)
	}
	for _, v := range w.vals {
		if post.jailed[v] && !pre.jailed[v] {
			slashed = append(slashed, v)
		}
	}
	sort.Strings(slashed)
	e.In("block %d", dt)
	sl := strings.Join(slashed, ",")
	if sl == "" {
		sl = "-"
	}
	e.Obs("block ok height=%d now=%d slashed=%s", post.heightH, post.nowNs, sl)
	e.Obs("st %s", post.line(w))
	w.oracleBlock(pre, post, par, asg, active, slashed)
	*cur = post
	return active, asg, slashed, false
}

// JSON form of the params as the module's genesis expects them (amino/proto JSON of types.Params)
func daParamsJSON(p datypes.Params) map[string]any {
	coins := func(cs sdk.Coins) []map[string]string {
		out := []map[string]string{}
		for _, c := range cs {
			out = append(out, map[string]string{"denom": c.Denom, "amount": c.Amount.String()})
		}
		return out
	}
	dur := func(d time.Duration) string { return fmt.Sprintf("%d.%09ds", int64(d)/1e9, int64(d)%1e9) }
	return map[string]any{
		"challenge_threshold": p.ChallengeThreshold, "replication_factor": p.ReplicationFactor, "slash_epoch": fmt.Sprint(p.SlashEpoch),
		"slash_fault_threshold": p.SlashFaultThreshold, "slash_fraction": p.SlashFraction,
		"challenge_period": dur(p.ChallengePeriod), "proof_period": dur(p.ProofPeriod),
		"rejected_removal_period": dur(p.RejectedRemovalPeriod), "verified_removal_period": dur(p.VerifiedRemovalPeriod),
		"publish_data_collateral": coins(p.PublishDataCollateral), "submit_invalidity_collateral": coins(p.SubmitInvalidityCollateral),
	}
}

// Directed history for S12 (always run first): one validator proves every shard twice inside ONE proof; with
// replication factor 2 a shard needs two distinct validators, so the item must be REJECTED (reference tally).
func daScenarioDuplicateIndex(e *Env, zk *daZk) {
	par := daParams{thr: bi("1"), rf: bi("2000000000000000000"), epoch: 1000000, sft: bi("500000000000000000"), frac: bi("1000000000000000"),
		cp: 4e9, pp: 6e9, rrp: 9e9, vrp: 12e9,
		pub: sdk.NewCoins(sdk.NewCoin("urise", sdkmath.NewInt(1000))), inv: sdk.NewCoins(sdk.NewCoin("urise", sdkmath.NewInt(100)))}
	w, cur, ok := daSetup(e, zk, 2, par)
	if !ok {
		return
	}
	c := w.c
	pubr, chal, val := w.names[5], w.names[4], w.vals[0]
	e.In("publish %s u0 shards=2 parity=0", pubr)
	_, err, p := c.Exec(&datypes.MsgPublishData{Sender: w.accOf[pubr].Addr.String(), MetadataUri: "u0", ParityShardCount: 0, ShardDoubleHashes: [][]byte{zk.hash[0], zk.hash[0]}})
	w.shard["u0"] = []int{0, 0}
	w.afterMsg("publish", class(err, p), cur, &cur, nil)
	e.In("invalid %s u0 0", chal)
	_, err, p = c.Exec(&datypes.MsgSubmitInvalidity{Sender: w.accOf[chal].Addr.String(), MetadataUri: "u0", Indices: []int64{0}})
	w.afterMsg("invalid", class(err, p), cur, &cur, nil)
	if _, _, _, halted := w.block(cur, 1e9, &cur); halted {
		return
	}
	e.In("proof %s %s u0 0:1,0:1,1:1,1:1 extra=0 exists=1 bonded=1", val, val)
	_, err, p = c.Exec(&datypes.MsgSubmitValidityProof{Sender: w.accOf[val].Addr.String(), ValidatorAddress: sdk.ValAddress(w.accOf[val].Addr).String(),
		MetadataUri: "u0", Indices: []int64{0, 0, 1, 1}, Proofs: [][]byte{zk.proof[0], zk.proof[0], zk.proof[0], zk.proof[0]}})
	w.afterMsg("proof", class(err, p), cur, &cur, nil)
	e.Stat("scenario.duplicate_index")
	w.block(cur, 7e9, &cur)
}
