package main

// C10 — non-voting delegation (x/shareclass) on the real application: real staking, distribution, bank,
// tokenconverter. Several delegators, 3 validators, rewards accrue through real block production (blocks carry
// votes), unbonding time shortened in genesis so that unbondings complete inside a history at arbitrary
// sub-second offsets.
//
// Boundary (recorded in the `> ` lines, consumed by the Lean model as inputs):
//   staked=   module account's delegation balance at the validator (staking QueryDelegation) before the op
//   stake=    outcome of the staking message alone (dry run on a scratch branch), completion= its completion time
//   hook=     coins the distribution hooks paid into the module account during the op (distribution account delta)
//   block: matured= bond tokens staking released to the module account in this block (mature unbonding entries,
//          read from staking before the block), reward.vN= coins withdrawn from distribution and forwarded to the
//          reward saver of validator N in this block (saver balance delta)
// Everything else on observation lines is predicted by the model.

import (
	"encoding/json"
	"fmt"
	"math/big"
	"sort"
	"strings"
	"time"

	sdkmath "cosmossdk.io/math"
	distrtypes "cosmossdk.io/x/distribution/types"
	stakingkeeper "cosmossdk.io/x/staking/keeper"
	stakingtypes "cosmossdk.io/x/staking/types"
	sdk "github.com/cosmos/cosmos-sdk/types"
	authtypes "github.com/cosmos/cosmos-sdk/x/auth/types"
	banktypes "cosmossdk.io/x/bank/types"
	sckeeper "github.com/sunriselayer/sunrise/x/shareclass/keeper"
	sctypes "github.com/sunriselayer/sunrise/x/shareclass/types"

	"svh/sim"
)

func init() { register("share", suiteShare) }

const shareUnbond = 20 * time.Second

type shUnb struct {
	rcpt       int
	amount     sdkmath.Int
	completion time.Time
	paid       bool
}

type shareRun struct {
	e        *Env
	c        *sim.Chain
	vals     []string // validator operator addresses (bech32)
	mod      sdk.AccAddress
	distr    sdk.AccAddress
	unb      []*shUnb
	blockNo  int
	lastTouch map[[2]int]int          // (acc,val) -> block number of the last successful claim/delegate/undelegate
	lastRew  map[int]int              // val -> block number of the last reward arrival
	claimed  map[[3]int]*big.Int      // cumulative reward claimed per (acc,val,denom)
	entitled map[[3]int]*big.Rat      // exact pro-rata entitlement per (acc,val,denom)
	received map[[2]int]*big.Int      // cumulative reward received by the saver of (val,denom)
	claimedV map[[2]int]*big.Int
	slashed  bool
	feats    map[string]bool
}

var shDenoms = []string{"urise", "uvrise"}

func (r *shareRun) bal2(a sdk.AccAddress) [2]sdkmath.Int {
	return [2]sdkmath.Int{r.c.Bal(a, "urise"), r.c.Bal(a, "uvrise")}
}

func sub2(a, b [2]sdkmath.Int) [2]sdkmath.Int { return [2]sdkmath.Int{a[0].Sub(b[0]), a[1].Sub(b[1])} }
func str2(a [2]sdkmath.Int) string {
	cs := sdk.Coins{}
	for d := range shDenoms {
		if !a[d].IsZero() {
			cs = append(cs, sdk.Coin{Denom: shDenoms[d], Amount: a[d]})
		}
	}
	return coinsStr(cs)
}

func (r *shareRun) acc(i int) sdk.AccAddress { return r.c.Accs[i].Addr }
func (r *shareRun) saver(v int) sdk.AccAddress { return sctypes.RewardSaverAddress(r.vals[v]) }
func (r *shareRun) shareDenom(v int) string   { return sctypes.NonVotingShareTokenDenom(r.vals[v]) }

// canonical state: every balance the model predicts
func (r *shareRun) show() string {
	var sb strings.Builder
	ctx := r.c.Ctx()
	for i := range r.c.Accs {
		fmt.Fprintf(&sb, "a%d=%s/%s", i, r.c.Bal(r.acc(i), "urise"), r.c.Bal(r.acc(i), "uvrise"))
		for v := range r.vals {
			fmt.Fprintf(&sb, "/%s", r.c.Bal(r.acc(i), r.shareDenom(v)))
		}
		sb.WriteByte(' ')
	}
	for v := range r.vals {
		fmt.Fprintf(&sb, "saver%d=%s/%s sup%d=%s ", v, r.c.Bal(r.saver(v), "urise"), r.c.Bal(r.saver(v), "uvrise"), v, r.c.App.BankKeeper.GetSupply(ctx, r.shareDenom(v)).Amount)
	}
	fmt.Fprintf(&sb, "mod=%s/%s", r.c.Bal(r.mod, "urise"), r.c.Bal(r.mod, "uvrise"))
	return sb.String()
}

func (r *shareRun) staked(v int) string {
	q := stakingkeeper.NewQuerier(r.c.App.StakingKeeper)
	res, err := q.Delegation(r.c.Ctx(), &stakingtypes.QueryDelegationRequest{DelegatorAddr: r.mod.String(), ValidatorAddr: r.vals[v]})
	if err != nil || res.DelegationResponse == nil {
		return "none"
	}
	return res.DelegationResponse.Balance.Amount.String()
}

type discard struct{}

func (discard) Error() string { return "discard" }

// dry run of the staking message alone on a scratch branch
func (r *shareRun) dryUndelegate(v int, amt sdkmath.Int) (bool, time.Time) {
	ok := false
	var ct time.Time
	r.c.Call(func(ctx sdk.Context) error {
		h := r.c.App.MsgServiceRouter().Handler(&stakingtypes.MsgUndelegate{})
		res, err := h(ctx, &stakingtypes.MsgUndelegate{DelegatorAddress: r.mod.String(), ValidatorAddress: r.vals[v], Amount: sdk.Coin{Denom: "uvrise", Amount: amt}})
		if err == nil && res != nil && len(res.MsgResponses) > 0 {
			var m sdk.Msg
			if r.c.App.InterfaceRegistry().UnpackAny(res.MsgResponses[0], &m) == nil {
				if ur, k := m.(*stakingtypes.MsgUndelegateResponse); k {
					ok, ct = true, ur.CompletionTime
				}
			}
		}
		return discard{}
	})
	return ok, ct
}

func (r *shareRun) dryDelegate(v int, amt sdkmath.Int) bool {
	ok := false
	r.c.Call(func(ctx sdk.Context) error {
		if amt.IsPositive() {
			cs := sdk.NewCoins(sdk.NewCoin("uvrise", amt))
			if err := r.c.App.BankKeeper.MintCoins(ctx, sctypes.ModuleName, cs); err != nil {
				return discard{}
			}
		}
		h := r.c.App.MsgServiceRouter().Handler(&stakingtypes.MsgDelegate{})
		_, err := h(ctx, &stakingtypes.MsgDelegate{DelegatorAddress: r.mod.String(), ValidatorAddress: r.vals[v], Amount: sdk.Coin{Denom: "uvrise", Amount: amt}})
		ok = err == nil
		return discard{}
	})
	return ok
}

func okStr(b bool) string {
	if b {
		return "ok"
	}
	return "err"
}

func (r *shareRun) touch(i, v int) { r.lastTouch[[2]int{i, v}] = r.blockNo }

// property predicates on a reward payment `paid` (urise, uvrise) to (i,v), computed from balances only
func (r *shareRun) checkClaim(i, v int, paid [2]sdkmath.Int, what string) {
	lt, touched := r.lastTouch[[2]int{i, v}]
	if touched && lt == r.blockNo {
		// claimed/delegated/undelegated already since the last block: nothing new can have accrued
		r.e.Oracle("second_claim_zero", paid[0].IsZero() && paid[1].IsZero(), "%s a%d v%d paid=%s with no reward since the previous claim", what, i, v, str2(paid))
	}
	for d := range shDenoms {
		k := [3]int{i, v, d}
		kv := [2]int{v, d}
		if r.claimed[k] == nil {
			r.claimed[k] = new(big.Int)
		}
		r.claimed[k].Add(r.claimed[k], paid[d].BigInt())
		if r.claimedV[kv] == nil {
			r.claimedV[kv] = new(big.Int)
		}
		r.claimedV[kv].Add(r.claimedV[kv], paid[d].BigInt())
		ent := r.entitled[k]
		if ent == nil {
			ent = new(big.Rat)
		}
		cum := new(big.Rat).SetInt(r.claimed[k])
		r.e.Oracle("claim_le_entitlement", cum.Cmp(ent) <= 0, "a%d v%d %s cumulative=%s entitlement=%s", i, v, shDenoms[d], r.claimed[k], ent.FloatString(3))
		rec := r.received[kv]
		if rec == nil {
			rec = new(big.Int)
		}
		r.e.Oracle("claims_le_received", r.claimedV[kv].Cmp(rec) <= 0, "v%d %s claimed=%s received=%s", v, shDenoms[d], r.claimedV[kv], rec)
	}
}

func (r *shareRun) delegate(i, v int, amt sdkmath.Int, denom string) string {
	e, c := r.e, r.c
	st := r.staked(v)
	sok := r.dryDelegate(v, amt)
	pre := r.bal2(r.acc(i))
	dpre := r.bal2(r.distr)
	_, err, p := c.Exec(&sctypes.MsgNonVotingDelegate{Sender: r.acc(i).String(), ValidatorAddress: r.vals[v], Amount: sdk.Coin{Denom: denom, Amount: amt}})
	cls := class(err, p)
	hook := str2(sub2(dpre, r.bal2(r.distr)))
	e.In("delegate a%d v%d %s denom=%s staked=%s stake=%s hook=%s", i, v, amt, denom, st, okStr(sok), hook)
	e.Obs("%s %s", cls, r.show())
	e.Stat("delegate." + cls)
	e.Oracle("no_panic", cls != "panic", "delegate a%d v%d %s", i, v, amt)
	if cls == "ok" {
		paid := sub2(r.bal2(r.acc(i)), pre)
		paid[0] = paid[0].Add(amt)
		r.checkClaim(i, v, paid, "delegate")
		r.touch(i, v)
	} else if denom == "urise" && amt.IsPositive() && pre[0].GTE(amt) && sok {
		e.Oracle("not_blocked", false, "delegate a%d v%d %s failed although funds and staking allow it: %v", i, v, amt, err)
	}
	return cls
}

func (r *shareRun) undelegate(i, v int, amt sdkmath.Int, rcpt int) string {
	e, c := r.e, r.c
	st := r.staked(v)
	sok, ct := r.dryUndelegate(v, amt)
	// shares the handler will ask for (the module's own query), to decide whether failure is legitimate
	need := sdkmath.ZeroInt()
	needOk := false
	if res, err := sckeeper.NewQueryServerImpl(c.App.ShareclassKeeper).CalculateShare(c.Ctx(), &sctypes.QueryCalculateShareRequest{ValidatorAddress: r.vals[v], Amount: amt}); err == nil {
		need, needOk = res.Share, true
	}
	have := c.Bal(r.acc(i), r.shareDenom(v))
	pre := r.bal2(r.acc(i))
	dpre := r.bal2(r.distr)
	rs := ""
	ri := i
	if rcpt >= 0 {
		rs, ri = r.acc(rcpt).String(), rcpt
	}
	resp, err, p := c.Exec(&sctypes.MsgNonVotingUndelegate{Sender: r.acc(i).String(), ValidatorAddress: r.vals[v], Amount: sdk.Coin{Denom: "urise", Amount: amt}, Recipient: rs})
	cls := class(err, p)
	hook := str2(sub2(dpre, r.bal2(r.distr)))
	comp := int64(0)
	if sok {
		comp = ct.UnixNano()
	}
	e.In("undelegate a%d v%d %s rcpt=a%d staked=%s stake=%s completion=%d hook=%s", i, v, amt, ri, st, okStr(sok), comp, hook)
	e.Obs("%s %s", cls, r.show())
	e.Stat("undelegate." + cls)
	e.Oracle("no_panic", cls != "panic", "undelegate a%d v%d %s", i, v, amt)
	if cls == "ok" {
		r.checkClaim(i, v, sub2(r.bal2(r.acc(i)), pre), "undelegate")
		r.touch(i, v)
		ur, _ := resp.(*sctypes.MsgNonVotingUndelegateResponse)
		if ur != nil {
			r.unb = append(r.unb, &shUnb{rcpt: ri, amount: amt, completion: ur.CompletionTime})
			e.Oracle("completion_from_staking", ur.CompletionTime.Equal(ct), "response completion %d vs staking %d", ur.CompletionTime.UnixNano(), ct.UnixNano())
		}
	} else if amt.IsPositive() && sok && needOk && have.GTE(need) {
		e.Oracle("not_blocked", false, "undelegate a%d v%d %s failed although shares (%s>=%s) and staking allow it: %v", i, v, amt, have, need, err)
	}
	return cls
}

func (r *shareRun) claim(i, v int) string {
	e, c := r.e, r.c
	pre := r.bal2(r.acc(i))
	// what the query promises
	qc := "err"
	if res, err := sckeeper.NewQueryServerImpl(c.App.ShareclassKeeper).ClaimableRewards(c.Ctx(), &sctypes.QueryClaimableRewardsRequest{Address: r.acc(i).String(), ValidatorAddress: r.vals[v]}); err == nil {
		qc = coinsStr(res.Amount)
	}
	resp, err, p := c.Exec(&sctypes.MsgClaimRewards{Sender: r.acc(i).String(), ValidatorAddress: r.vals[v]})
	cls := class(err, p)
	e.In("claim a%d v%d", i, v)
	got := "-"
	if cr, ok := resp.(*sctypes.MsgClaimRewardsResponse); ok && cr != nil {
		got = coinsStr(cr.Amount)
	}
	e.Obs("%s claimable=%s paid=%s %s", cls, qc, got, r.show())
	e.Stat("claim." + cls)
	e.Oracle("no_panic", cls != "panic", "claim a%d v%d", i, v)
	if cls == "ok" {
		r.checkClaim(i, v, sub2(r.bal2(r.acc(i)), pre), "claim")
		r.touch(i, v)
	} else {
		// a claim has no legitimate reason to fail
		e.Oracle("not_blocked", false, "claim a%d v%d failed: %v", i, v, err)
	}
	return cls
}

func (r *shareRun) queries(i int) {
	c := r.c
	res, err := sckeeper.NewQueryServerImpl(c.App.ShareclassKeeper).AddressUnbonding(c.Ctx(), &sctypes.QueryAddressUnbondingRequest{Address: r.acc(i).String()})
	r.e.In("query unbondings a%d", i)
	if err != nil {
		r.e.Obs("err")
		return
	}
	parts := []string{}
	for _, u := range res.Unbondings {
		parts = append(parts, fmt.Sprintf("%s@%d", u.Amount.Amount, u.CompletionTime.UnixNano()))
	}
	if len(parts) == 0 {
		parts = []string{"-"}
	}
	r.e.Obs("unbondings %s", strings.Join(parts, ","))
}

// one block; returns false when the chain halted
func (r *shareRun) block(dt time.Duration) bool {
	e, c := r.e, r.c
	newT := c.Time.Add(dt)
	// staking boundary: what matures for the module account at newT
	matured := sdkmath.ZeroInt()
	for v := range r.vals {
		va, _ := c.App.StakingKeeper.ValidatorAddressCodec().StringToBytes(r.vals[v])
		ubd, err := c.App.StakingKeeper.GetUnbondingDelegation(c.Ctx(), r.mod, va)
		if err != nil {
			continue
		}
		for _, en := range ubd.Entries {
			if !en.CompletionTime.After(newT) {
				matured = matured.Add(en.Balance)
			}
		}
	}
	preSaver := make([][2]sdkmath.Int, len(r.vals))
	supply := make([]sdkmath.Int, len(r.vals))
	shares := map[[2]int]sdkmath.Int{}
	for v := range r.vals {
		preSaver[v] = r.bal2(r.saver(v))
		supply[v] = c.App.BankKeeper.GetSupply(c.Ctx(), r.shareDenom(v)).Amount
		for i := range c.Accs {
			shares[[2]int{i, v}] = c.Bal(r.acc(i), r.shareDenom(v))
		}
	}
	preModBond := c.Bal(r.mod, "uvrise")
	preBal := make([][2]sdkmath.Int, len(c.Accs))
	for i := range c.Accs {
		preBal[i] = r.bal2(r.acc(i))
	}
	_, err := c.NextBlock(dt)
	r.blockNo++
	if err != nil {
		e.In("block t=%d matured=%s", newT.UnixNano(), matured)
		e.Obs("halt")
		feat := "other"
		dueSum := sdkmath.ZeroInt()
		early := false
		for _, u := range r.unb {
			if u.paid {
				continue
			}
			if !u.completion.After(newT) {
				dueSum = dueSum.Add(u.amount)
			} else if u.completion.Unix() <= newT.Unix() {
				early = true
			}
		}
		if r.slashed && matured.Add(preModBond).LT(dueSum) {
			// staking released less than the queue recorded (validator slashed): recorded finding C10-SLASH
			feat = "after_slash"
		} else if early {
			feat = "same_second_before_completion"
		}
		e.Stat("halt." + feat)
		e.Oracle("no_halt", false, "class=%s FinalizeBlock failed at t=%d: %.200s", feat, newT.UnixNano(), strings.ReplaceAll(err.Error(), "\n", " "))
		return false
	}
	var rw strings.Builder
	for v := range r.vals {
		dd := sub2(r.bal2(r.saver(v)), preSaver[v])
		fmt.Fprintf(&rw, " reward.v%d=%s", v, str2(dd))
		for d := range shDenoms {
			if !dd[d].IsPositive() {
				continue
			}
			kv := [2]int{v, d}
			if r.received[kv] == nil {
				r.received[kv] = new(big.Int)
			}
			r.received[kv].Add(r.received[kv], dd[d].BigInt())
			if supply[v].IsPositive() {
				for i := range c.Accs {
					k := [3]int{i, v, d}
					if r.entitled[k] == nil {
						r.entitled[k] = new(big.Rat)
					}
					part := new(big.Rat).SetFrac(new(big.Int).Mul(dd[d].BigInt(), shares[[2]int{i, v}].BigInt()), supply[v].BigInt())
					r.entitled[k].Add(r.entitled[k], part)
				}
			}
			e.Stat("reward.events")
		}
	}
	e.In("block t=%d matured=%s%s", newT.UnixNano(), matured, rw.String())
	e.Obs("ok %s", r.show())
	// the model evaluates, operation by operation, that its reward-accounting abstraction (SCAccrual: multiplier, shares,
	// checkpoints; guards with the 34-digit rounding bound) commutes with the state the lines above tie to the application
	e.Obs("inv ok")
	e.Stat("block")
	// each accepted undelegation is paid exactly once, to its recipient, at the first end-block at or after completion
	due := make([]sdkmath.Int, len(c.Accs))
	for i := range due {
		due[i] = sdkmath.ZeroInt()
	}
	dueSum := sdkmath.ZeroInt()
	for _, u := range r.unb {
		if !u.paid && !u.completion.After(newT) {
			u.paid = true
			due[u.rcpt] = due[u.rcpt].Add(u.amount)
			dueSum = dueSum.Add(u.amount)
			e.Stat("unbonding.paid")
		}
	}
	// staking released less than the queue recorded (validator slashed): the end-blocker (fixed: it no longer fails the
	// block) cannot pay every due entry; recorded finding C10-SLASH.  The history ends here: which entries stay queued
	// is the model's business (compared above), the oracle below would only repeat it block after block.
	cls := "other"
	if r.slashed && matured.Add(preModBond).LT(dueSum) {
		cls = "after_slash"
		e.Stat("unpaid." + cls)
	}
	for i := range c.Accs {
		got := sub2(r.bal2(r.acc(i)), preBal[i])
		e.Oracle("undelegate_paid_once", got[0].Equal(due[i]) && got[1].IsZero(), "class=%s a%d received %s in the block at t=%d, due %s", cls, i, str2(got), newT.UnixNano(), due[i])
	}
	return cls == "other"
}

func newShareChain() (*sim.Chain, error) {
	cfg := sim.DefaultConfig()
	cfg.NumAccs = 5
	cfg.ValPowers = []int64{100, 60, 40}
	cfg.GenesisMut = func(_ sim.Codec, gs map[string]json.RawMessage) {
		var st map[string]json.RawMessage
		if json.Unmarshal(gs["staking"], &st) != nil {
			return
		}
		var params map[string]json.RawMessage
		if json.Unmarshal(st["params"], &params) != nil {
			return
		}
		params["unbonding_time"] = json.RawMessage(fmt.Sprintf("\"%ds\"", int(shareUnbond.Seconds())))
		st["params"], _ = json.Marshal(params)
		gs["staking"], _ = json.Marshal(st)
		// the mint function runs on the "minute" epoch: make it tick every 4 s so that rewards accrue often
		var ep struct {
			Epochs []map[string]json.RawMessage `json:"epochs"`
		}
		if json.Unmarshal(gs["epochs"], &ep) == nil {
			for _, x := range ep.Epochs {
				if string(x["identifier"]) == "\"minute\"" {
					x["duration"] = json.RawMessage("\"4s\"")
				}
			}
			gs["epochs"], _ = json.Marshal(ep)
		}
	}
	return sim.New(cfg)
}

func (e *Env) newShareRun(tag string) *shareRun {
	c, err := newShareChain()
	if err != nil {
		e.Obs("setup-error %v", err)
		return nil
	}
	r := &shareRun{e: e, c: c, mod: authtypes.NewModuleAddress(sctypes.ModuleName), distr: authtypes.NewModuleAddress(distrtypes.ModuleName),
		lastTouch: map[[2]int]int{}, lastRew: map[int]int{}, claimed: map[[3]int]*big.Int{}, entitled: map[[3]int]*big.Rat{},
		received: map[[2]int]*big.Int{}, claimedV: map[[2]int]*big.Int{}, feats: map[string]bool{}}
	for _, v := range c.Vals {
		s, _ := c.App.StakingKeeper.ValidatorAddressCodec().BytesToString(v.Oper)
		r.vals = append(r.vals, s)
	}
	// canonical validator order = order of operator address bytes (the order staking iterates delegations in)
	sort.Strings(r.vals)
	var sb strings.Builder
	for i := range c.Accs {
		fmt.Fprintf(&sb, " a%d=%s/%s", i, c.Bal(r.acc(i), "urise"), c.Bal(r.acc(i), "uvrise"))
	}
	e.In("reset %s vals=%d accs=%d t=%d%s", tag, len(r.vals), len(c.Accs), c.Time.UnixNano(), sb.String())
	return r
}

// dt that lands the next block relative to a pending completion time
func (r *shareRun) pickDt() time.Duration {
	e, c := r.e, r.c
	var pend []*shUnb
	for _, u := range r.unb {
		if !u.paid && u.completion.After(c.Time) {
			pend = append(pend, u)
		}
	}
	if len(pend) > 0 && e.R.N(3) > 0 {
		u := pend[e.R.N(len(pend))]
		to := u.completion.Sub(c.Time)
		var dt time.Duration
		switch e.R.N(7) {
		case 0:
			dt = to // exactly at completion
		case 1:
			dt = to - 1 // one nanosecond early
		case 2:
			dt = to + 1
		case 3:
			// same second, earlier than completion (if completion is not on a whole second)
			frac := time.Duration(u.completion.Nanosecond())
			if frac > 0 {
				dt = to - time.Duration(1+e.R.N(int(frac)))
			} else {
				dt = to - time.Second
			}
		case 4:
			dt = to - time.Second
		case 5:
			dt = to + time.Duration(e.R.N(3_000_000_000))
		default:
			dt = to / 2
		}
		if dt > 0 {
			return dt
		}
	}
	switch e.R.N(4) {
	case 0:
		return time.Duration(1 + e.R.N(999_999_999)) // sub-second
	case 1:
		return time.Duration(1+e.R.N(6)) * time.Second
	default:
		return time.Duration(100_000_000 + e.R.N(7_000_000_000))
	}
}

func (r *shareRun) amount() sdkmath.Int {
	e := r.e
	switch e.R.N(8) {
	case 0:
		return sdkmath.NewInt(int64(e.R.N(3)))
	case 1:
		return sdkmath.NewInt(int64(1 + e.R.N(1000)))
	default:
		return sdkmath.NewIntFromBigInt(e.R.Big(11))
	}
}

// shareDirectedScenario (oracle only, own chain, nothing for the model): (1) share tokens of a GENESIS validator (never
// registered through the share-class CreateValidator handler) cannot be sent by their holder; (2) an unbonding whose recipient the
// bank refuses to credit (fee collector) sits in the same end-block sweeps as payable ones, over two sweeps: every payable
// unbonding is paid exactly once, in full, and the unpayable one keeps its bond tokens on the module account.
func shareDirectedScenario(e *Env) {
	c, err := newShareChain()
	if err != nil {
		e.Note("share directed scenario: setup %v", err)
		return
	}
	val, _ := c.App.StakingKeeper.ValidatorAddressCodec().BytesToString(c.Vals[0].Oper)
	acc := func(i int) sdk.AccAddress { return c.Accs[i].Addr }
	for i := 1; i <= 4; i++ {
		if _, err, p := c.Exec(&sctypes.MsgNonVotingDelegate{Sender: acc(i).String(), ValidatorAddress: val, Amount: sdk.NewInt64Coin("urise", 100_000_000)}); err != nil || p != nil {
			e.Note("share directed scenario: delegate %v %v", err, p)
			return
		}
	}
	e.Stat("scenario.share_directed")
	shareDenom := sctypes.NonVotingShareTokenDenom(val)
	// (1) transfers of the share denom
	for _, amt := range []int64{1, 1000} {
		to := acc(0)
		pre := c.Bal(to, shareDenom)
		_, err, p := c.Exec(&banktypes.MsgSend{FromAddress: acc(1).String(), ToAddress: to.String(), Amount: sdk.NewCoins(sdk.NewInt64Coin(shareDenom, amt))})
		e.Oracle("no_panic", p == nil, "scenario=share_transfer MsgSend of %d %s: %v", amt, shareDenom, p)
		e.Oracle("share_not_transferable", err != nil && c.Bal(to, shareDenom).Equal(pre), "scenario=share_transfer MsgSend of %d shares of a genesis validator: err=%v received=%s", amt, err, c.Bal(to, shareDenom).Sub(pre))
	}
	{
		to := acc(0)
		pre := c.Bal(to, shareDenom)
		in := banktypes.Input{Address: acc(2).String(), Coins: sdk.NewCoins(sdk.NewInt64Coin(shareDenom, 5))}
		out := banktypes.Output{Address: to.String(), Coins: sdk.NewCoins(sdk.NewInt64Coin(shareDenom, 5))}
		_, err, p := c.Exec(&banktypes.MsgMultiSend{Inputs: []banktypes.Input{in}, Outputs: []banktypes.Output{out}})
		e.Oracle("share_not_transferable", p == nil && err != nil && c.Bal(to, shareDenom).Equal(pre), "scenario=share_transfer MsgMultiSend: err=%v panic=%v", err, p)
	}
	if _, err := c.NextBlock(5 * time.Second); err != nil {
		e.Oracle("no_halt", false, "scenario=share_directed block: %.200s", err.Error())
		return
	}
	// (2) unpayable + payable unbondings in the same sweeps
	fc := authtypes.NewModuleAddress(authtypes.FeeCollectorName).String()
	type ub struct {
		who  int
		amt  int64
		rcpt string
	}
	first := []ub{{1, 40_000_000, fc}, {2, 10_000_000, ""}}
	second := []ub{{3, 10_000_000, ""}, {4, 50_000_000, ""}}
	before := map[int]sdkmath.Int{}
	for i := 1; i <= 4; i++ {
		before[i] = c.Bal(acc(i), "urise")
	}
	accepted := map[int]bool{}
	for bi, batch := range [][]ub{first, second} {
		for _, u := range batch {
			_, err, p := c.Exec(&sctypes.MsgNonVotingUndelegate{Sender: acc(u.who).String(), ValidatorAddress: val, Amount: sdk.NewInt64Coin("urise", u.amt), Recipient: u.rcpt})
			e.Oracle("no_panic", p == nil, "scenario=share_directed undelegate a%d: %v", u.who, p)
			accepted[u.who] = err == nil && p == nil
		}
		// rewards claimed by the undelegation are part of the balance: take the reference after the messages
		for _, u := range batch {
			before[u.who] = c.Bal(acc(u.who), "urise")
		}
		if _, err := c.NextBlock(3 * time.Second); err != nil {
			e.Oracle("no_halt", false, "scenario=share_directed block %d: %.200s", bi, err.Error())
			return
		}
	}
	if !accepted[1] {
		e.Stat("scenario.share_directed.blocked_recipient_refused_at_submission")
	}
	// first sweep: the first batch has completed, the second has not; second sweep: everything has
	for k, dt := range []time.Duration{shareUnbond - 4*time.Second, 5 * time.Second, 5 * time.Second} {
		if _, err := c.NextBlock(dt); err != nil {
			e.Oracle("no_halt", false, "scenario=share_directed sweep %d: %.200s", k, err.Error())
			return
		}
	}
	for _, u := range append(first[1:], second...) {
		if !accepted[u.who] {
			continue
		}
		got := c.Bal(acc(u.who), "urise").Sub(before[u.who])
		e.Oracle("undelegate_paid_once", got.Equal(sdkmath.NewInt(u.amt)), "scenario=share_directed a%d received %s of %d after both sweeps (an unpayable unbonding shares the sweeps)", u.who, got, u.amt)
	}
	if accepted[1] {
		mod := authtypes.NewModuleAddress(sctypes.ModuleName)
		held := c.Bal(mod, "uvrise").Add(c.Bal(mod, "urise"))
		e.Oracle("unpaid_kept", held.GTE(sdkmath.NewInt(40_000_000)), "scenario=share_directed the module account holds %s for the unpayable unbonding of 40000000", held)
	}
}

func suiteShare(e *Env) {
	shareDirectedScenario(e)
	// scripted histories first: the two witnesses of DESIGN §1.1 (S10: claim twice; S9: block inside the completion second)
	if r := e.newShareRun("script=claim-twice"); r != nil {
		ok := r.delegate(3, 0, sdkmath.NewInt(50_000_000), "urise") == "ok"
		ok = r.delegate(4, 0, sdkmath.NewInt(50_000_000), "urise") == "ok" && ok
		for k := 0; k < 3 && ok; k++ {
			ok = r.block(5 * time.Second)
		}
		if ok {
			r.claim(3, 0)
			r.claim(3, 0)
			r.claim(3, 0)
			r.claim(4, 0)
			r.undelegate(4, 0, sdkmath.NewInt(10_000_000), -1)
			r.block(5 * time.Second)
		}
	}
	if r := e.newShareRun("script=same-second"); r != nil {
		ok := r.delegate(3, 1, sdkmath.NewInt(100_000_000), "urise") == "ok"
		ok = ok && r.block(800*time.Millisecond) // block time now has a fractional part .8
		if ok {
			r.undelegate(3, 1, sdkmath.NewInt(40_000_000), 4)
			// completion = t+20s (fraction .8); next block lands at fraction .05 of the same second
			r.block(shareUnbond - 750*time.Millisecond)
			if r.c.Halted == "" {
				r.block(1 * time.Second)
			}
			if r.c.Halted == "" {
				r.block(1 * time.Second)
			}
		}
	}
	for h := 0; h < e.N; h++ {
		r := e.newShareRun(fmt.Sprintf("h=%d", h))
		if r == nil {
			return
		}
		nAcc, nVal := len(r.c.Accs), len(r.vals)
		steps := 30 + e.R.N(30)
		alive := true
		for k := 0; k < steps && alive; k++ {
			i, v := e.R.N(nAcc), e.R.N(nVal)
			if e.R.N(3) > 0 {
				v = e.R.N(2) // concentrate on two validators so that delegators share them
			}
			switch x := e.R.N(20); {
			case x < 5:
				denom := "urise"
				if e.R.N(25) == 0 {
					denom = "uaaa"
				}
				r.delegate(i, v, r.amount(), denom)
			case x < 8:
				// undelegate: often a fraction of what the shares are worth, sometimes more than held
				amt := r.amount()
				have := r.c.Bal(r.acc(i), r.shareDenom(v))
				if !have.IsPositive() && e.R.N(3) > 0 {
					// prefer a (delegator, validator) pair that holds shares
					for tries := 0; tries < 6 && !have.IsPositive(); tries++ {
						i, v = e.R.N(nAcc), e.R.N(nVal)
						have = r.c.Bal(r.acc(i), r.shareDenom(v))
					}
				}
				if have.IsPositive() && e.R.N(5) > 0 {
					amt = have.MulRaw(int64(1 + e.R.N(100))).QuoRaw(100)
					if e.R.N(6) == 0 {
						amt = have.AddRaw(int64(e.R.N(3)) - 1)
					}
				}
				rc := -1
				if e.R.N(3) == 0 {
					rc = e.R.N(nAcc)
				}
				r.undelegate(i, v, amt, rc)
			case x < 12:
				r.claim(i, v)
				if e.R.N(3) == 0 {
					r.claim(i, v)
				}
			case x < 13:
				r.queries(i)
			case x < 14 && !r.slashed && e.R.N(4) == 0 && (e.Tier == "thorough" || h%3 == 1):
				// slash a validator through the real staking keeper (as evidence handling would)
				cons := sdk.ConsAddress(nil)
				power := int64(0)
				for _, val := range r.c.Vals {
					s, _ := r.c.App.StakingKeeper.ValidatorAddressCodec().BytesToString(val.Oper)
					if s == r.vals[v] {
						cons, power = val.Cons, val.Power
					}
				}
				frac := sdkmath.LegacyNewDecWithPrec(int64(1+e.R.N(20)), 2)
				back := int64(e.R.N(6))
				if back >= r.c.Height {
					back = 0
				}
				err, p := r.c.Call(func(ctx sdk.Context) error {
					_, err := r.c.App.StakingKeeper.Slash(ctx, cons, r.c.Height-back, power, frac)
					return err
				})
				e.Note("slash v%d %s -> %s", v, frac, class(err, p))
				r.slashed = true
				e.Stat("slash")
			default:
				alive = r.block(r.pickDt())
			}
		}
		// drain: let every pending unbonding mature
		for k := 0; k < 3 && alive; k++ {
			alive = r.block(shareUnbond/2 + time.Duration(e.R.N(1_000_000_000)))
		}
		if alive {
			for i := 0; i < nAcc; i++ {
				for v := 0; v < nVal; v++ {
					if r.c.Bal(r.acc(i), r.shareDenom(v)).IsPositive() {
						r.claim(i, v)
					}
				}
			}
		}
	}
}
