package main

// C15 — untrusted inputs are rejected with errors, never with panics.
// The correspondence check IS the property check here: every generated input is executed on the real code under
// recover + watchdog; any panic (or a call that runs > 5 s / allocates > 1 GiB) is an oracle FAIL carrying the input.
// For the modelled entry points (memo decode + SwapMetadata.Validate, Route.Validate) the outcome class is also an
// observation that the Lean model must predict.
//
// Sections (all seeded from -seed): memo, route, packet (IBC middleware OnRecvPacket), msg (every Msg of the custom
// modules, reflection-fuzzed, delivered after a protobuf wire round trip through the real MsgServiceRouter), query
// (every Query method of the custom modules' query servers called directly), heavy (inputs that can be unbounded; last).

import (
	"encoding/base64"
	"encoding/hex"
	"fmt"
	"os"
	"runtime/debug"
	"runtime/metrics"
	"strings"
	"syscall"
	"time"

	sdkmath "cosmossdk.io/math"
	storetypes "cosmossdk.io/store/types"
	sdk "github.com/cosmos/cosmos-sdk/types"
	transfertypes "github.com/cosmos/ibc-go/v9/modules/apps/transfer/types"
	clienttypes "github.com/cosmos/ibc-go/v9/modules/core/02-client/types"
	channeltypes "github.com/cosmos/ibc-go/v9/modules/core/04-channel/types"
	porttypes "github.com/cosmos/ibc-go/v9/modules/core/05-port/types"
	swaptypes "github.com/sunriselayer/sunrise/x/swap/types"

	"svh/sim"
)

func init() { register("untrusted", suiteUntrusted) }

type U struct {
	e       *Env
	c       *sim.Chain
	r       *Rng
	aborted bool
	fails   map[string]int
	mw      porttypes.IBCModule
	ibcDenom string
	uris    []string
	proofBz []byte
	emptyPool, resetPool uint64
	dry                  bool // execMsg runs on a discarded branch
}

type callRes struct {
	err error
	p   any
}

func cpuTime() time.Duration {
	var ru syscall.Rusage
	if err := syscall.Getrusage(syscall.RUSAGE_SELF, &ru); err != nil {
		return 0
	}
	return time.Duration(ru.Utime.Nano() + ru.Stime.Nano())
}

func heapBytes() uint64 {
	s := []metrics.Sample{{Name: "/memory/classes/heap/objects:bytes"}}
	metrics.Read(s)
	return s[0].Value.Uint64()
}

// guarded runs fn under recover with a watchdog. Returns the outcome class ok|err|panic|unbounded and the panic value.
func (u *U) guarded(fn func() error) (cls string, pv any) {
	done := make(chan callRes, 1)
	base := heapBytes()
	go func() {
		var r callRes
		defer func() {
			if p := recover(); p != nil {
				switch p.(type) {
				case storetypes.ErrorOutOfGas, storetypes.ErrorGasOverflow, storetypes.ErrorNegativeGasConsumed:
					// gas exhaustion is the SDK's regular mechanism (baseapp turns it into a failed tx)
					r.err = fmt.Errorf("out of gas")
				default:
					r.p = p
					if os.Getenv("SVH_STACK") != "" {
						fmt.Fprintf(os.Stderr, "PANIC %v\n%s\n", p, debug.Stack())
					}
				}
			}
			done <- r
		}()
		r.err = fn()
	}()
	// the 5 s budget is measured in process CPU time (robust on a loaded machine); 60 s wall is the hard stop
	cpu0 := cpuTime()
	deadline := time.After(60 * time.Second)
	tick := time.NewTicker(100 * time.Millisecond)
	defer tick.Stop()
	for {
		select {
		case r := <-done:
			if r.p != nil {
				return "panic", r.p
			}
			if r.err != nil {
				return "err", nil
			}
			return "ok", nil
		case <-tick.C:
			if h := heapBytes(); h > base+(1<<30) {
				return "unbounded", fmt.Sprintf("heap grew by %d MiB", (h-base)>>20)
			}
			if d := cpuTime() - cpu0; d > 5*time.Second {
				return "unbounded", fmt.Sprintf("no result after %s of CPU time", d.Round(time.Second))
			}
		case <-deadline:
			return "unbounded", "no result after 60s"
		}
	}
}

// classify a panic value: (site, cause). Known root causes are attributed to their site whatever the entry point.
func classify(via string, pv any) (string, string) {
	s := fmt.Sprint(pv)
	switch {
	case strings.Contains(s, "reused pool") || strings.Contains(s, "string is not error"):
		return "Route.Validate", "pool_reuse"
	case strings.Contains(s, "index out of range [-") && strings.Contains(via, "SubmitValidityProof"):
		return "SubmitValidityProof", "negative_index"
	case s == "Int overflow" || s == "integer overflow":
		// cosmossdk.io/math range assertion (LegacyDec above 2^315, Int above 2^256) deep inside swap / liquidity arithmetic
		return "math.range", "dec_overflow"
	case strings.HasPrefix(s, "invalid denom") && strings.Contains(via, "swap."):
		// a route denom that sdk.NewCoin rejects: Route.Validate (route.go) does not validate denoms
		return "swap.route_denom", "invalid_denom"
	case strings.Contains(s, "nil pointer"):
		return via, "nil_deref"
	case strings.Contains(s, "interface conversion"):
		return via, "type_assert"
	case strings.Contains(s, "index out of range") || strings.Contains(s, "slice bounds") || strings.Contains(s, "makeslice"):
		return via, "index_range"
	case strings.Contains(s, "divi") && strings.Contains(s, "zero"), strings.Contains(s, "zero decimal"):
		return via, "div_zero"
	case strings.Contains(s, "Int64() out of bound") || strings.Contains(s, "out of bound") || strings.Contains(s, "overflow"):
		return via, "int_range"
	}
	return via, "other"
}

// report turns a class into the oracle verdict. extraCause overrides the cause (generator knowledge, e.g. nil payload).
func (u *U) report(via, cls string, pv any, input []byte, extraCause string) (site, cause string) {
	u.e.Stat(via + "." + cls)
	if cls != "panic" && cls != "unbounded" {
		return "", ""
	}
	check := "no_panic"
	if cls == "unbounded" {
		check = "unbounded"
		site, cause = via, "unbounded"
	} else {
		site, cause = classify(via, pv)
		if extraCause == "deep" {
			if cause == "nil_deref" {
				cause = "nil_deref_after_validation"
			}
		} else if extraCause != "" && cause == "nil_deref" {
			site, cause = "Route.Validate", extraCause
		} else if via == "Route.Validate" && cause == "nil_deref" && string(input) == "Rn" {
			cause = "nil_receiver"
		}
	}
	key := check + "/" + site + "/" + cause
	u.fails[key]++
	if u.fails[key] <= 3 { // a few inputs per class are enough for the replay file
		in := input
		if len(in) > 6000 {
			in = in[:6000]
		}
		msg := strings.ReplaceAll(fmt.Sprint(pv), " ", "_")
		if len(msg) > 160 {
			msg = msg[:160]
		}
		u.e.Oracle(check, false, "entry=%s cause=%s via=%s panic=%s input=%s", site, cause, via, msg, base64.StdEncoding.EncodeToString(in))
	}
	if cls == "unbounded" {
		// the runaway goroutine cannot be stopped: finish the run here (everything printed so far stays valid)
		u.aborted = true
	}
	return site, cause
}

// normalised observation class: a panic whose root cause is a defect that another engineer is fixing in route.go is
// observed as the FIXED behaviour (error); the oracle line above still reports it (KNOWN-FINDING until merged).
func normClass(cls, cause string) string {
	if cls == "panic" && cause == "pool_reuse" {
		return "err"
	}
	return cls
}

func suiteUntrusted(e *Env) {
	c, err := sim.New(sim.DefaultConfig())
	if err != nil {
		e.Obs("setup-error %v", err)
		return
	}
	u := &U{e: e, c: c, r: e.R, fails: map[string]int{}}
	// budget: -n is in units of 1000 inputs (quick tier: 20)
	n := e.N * 1000
	if e.Replay != "" {
		u.replay(e.Replay)
		return
	}
	e.In("reset")
	u.memoSection(n * 30 / 100)
	u.routeSection(n * 15 / 100)
	u.setupState()
	if !u.aborted {
		u.packetSection(n * 10 / 100)
	}
	if !u.aborted {
		u.msgSection(n * 25 / 100)
	}
	if !u.aborted {
		u.querySection(n * 19 / 100)
	}
	if !u.aborted {
		u.lpCalcSection()
		u.lpMsgSection()
	}
	if !u.aborted {
		u.heavySection()
	}
	for k, v := range u.fails {
		e.Note("failclass %s n=%d", k, v)
	}
	if len(u.fails) == 0 {
		e.Oracle("no_panic", true, "all sections")
	}
	if u.aborted {
		e.Note("aborted after an unbounded call")
		keys := []string{}
		for k := range e.Stats {
			keys = append(keys, k)
		}
		for _, k := range keys {
			e.Note("stat %s=%d", k, e.Stats[k])
		}
		e.W.Flush()
		os.Exit(0)
	}
}

// ------------------------------------------------------------------------------------------------ memo

func (u *U) runMemo(text []byte) {
	tree, valid := parseJSON(text)
	isModelled := !valid || modelled(tree, "")
	var m *swaptypes.PacketMetadata
	dcls, pv := u.guarded(func() error {
		var err error
		m, err = swaptypes.DecodeSwapMetadata(string(text))
		return err
	})
	_, dcause := u.report("DecodeSwapMetadata", dcls, pv, text, "")
	vcls, vcause := "-", ""
	if dcls == "ok" {
		var pv2 any
		vcls, pv2 = u.guarded(func() error {
			md := *m.Swap // as the middleware does
			return md.Validate()
		})
		_, vcause = u.report("SwapMetadata.Validate", vcls, pv2, text, "")
	}
	if u.aborted {
		return
	}
	if !isModelled {
		u.e.Stat("memo.dynamic_only")
		return
	}
	if !valid {
		u.e.In("memo !")
	} else {
		u.e.In("memo %s", tree.Tokens())
	}
	u.e.Obs("memo decode=%s validate=%s", normClass(dcls, dcause), normClass(vcls, vcause))
}

func (u *U) memoSection(n int) {
	// fixed corpus first (the S4 witnesses and friends)
	for _, s := range memoCorpus {
		u.runMemo([]byte(s))
	}
	for i := 0; i < n && !u.aborted; i++ {
		var text []byte
		switch k := u.r.N(20); {
		case k < 13:
			text = []byte(u.mutateDoc(u.baseDoc()).Text())
		case k < 15: // two mutations
			text = []byte(u.mutateDoc(u.mutateDoc(u.baseDoc())).Text())
		case k < 16: // unmutated
			text = []byte(u.baseDoc().Text())
		case k < 18: // byte-level mutation of a valid document
			text = []byte(u.baseDoc().Text())
			for k := 0; k <= u.r.N(3); k++ {
				if len(text) == 0 {
					break
				}
				p := u.r.N(len(text))
				switch u.r.N(4) {
				case 0:
					text[p] = byte(u.r.N(256))
				case 1:
					text = append(text[:p], text[p+1:]...)
				case 2:
					text = append(text[:p], append([]byte{byte(u.r.Pick("{", "}", "[", "]", ",", ":", "\"", "0", "n", "-")[0])}, text[p:]...)...)
				case 3:
					text = text[:p]
				}
			}
		case k < 19: // raw bytes
			l := u.r.N(40)
			text = make([]byte, l)
			for i := range text {
				text[i] = byte(u.r.N(256))
			}
		default: // random small JSON value
			text = []byte(u.randJSON(3).Text())
		}
		u.runMemo(text)
	}
}

var memoCorpus = []string{
	`{"swap":1}`, `{"swap":{"forward":1}}`, `{"swap":{}}`, `{"swap":null}`, `{"swap":"x"}`, `{"swap":[]}`, `[]`, `1`, `null`, ``,
	`{"swap":{"route":{"denom_in":"a","denom_out":"b","pool":{"pool_id":1}},"exact_amount_in":{}}}`,
	`{"swap":{"route":{"denom_in":"a","denom_out":"b","pool":{"pool_id":1}},"exact_amount_in":null}}`,
	`{"swap":{"route":{"denom_in":"a","denom_out":"b","pool":{"pool_id":1}},"exact_amount_out":null}}`,
	`{"swap":{"route":{"denom_in":"a","denom_out":"b","pool":{"pool_id":1}},"exact_amount_out":{}}}`,
	`{"swap":{"route":{"denom_in":"a","denom_out":"b","pool":{"pool_id":1}}}}`,
	`{"swap":{"route":{"denom_in":"a","denom_out":"b","pool":null},"exact_amount_in":{"min_amount_out":"1"}}}`,
	`{"swap":{"route":{"denom_in":"a","denom_out":"b","series":null},"exact_amount_in":{"min_amount_out":"1"}}}`,
	`{"swap":{"route":{"denom_in":"a","denom_out":"b","parallel":null},"exact_amount_in":{"min_amount_out":"1"}}}`,
	`{"swap":{"route":null,"exact_amount_in":{"min_amount_out":"1"}}}`,
	`{"swap":{"route":{"denom_in":"a","denom_out":"b","parallel":{"routes":[{"denom_in":"a","denom_out":"b","pool":{"pool_id":1}},{"denom_in":"a","denom_out":"b","pool":{"pool_id":1}}],"weights":["1","1"]}},"exact_amount_in":{"min_amount_out":"1"}}}`,
	`{"swap":{"route":{"denom_in":"a","denom_out":"b","pool":{"pool_id":1}},"exact_amount_in":{"min_amount_out":"1"}},"swap":1}`,
	`{"swap":{"route":{"denom_in":"a","denom_out":"b","pool":{"pool_id":1}},"exact_amount_in":{"min_amount_out":"1"},"forward":{"receiver":"r","port":"transfer","channel":"channel-0","next":{"a":1}}}}`,
	`{"swap":{"route":{"denom_in":"a","denom_out":"b","series":{"routes":[{"denom_in":"a","denom_out":"c","pool":{"pool_id":1}},{"denom_in":"c","denom_out":"b","series":{"routes":[{"denom_in":"c","denom_out":"b","pool":null}]}}]}},"exact_amount_in":{"min_amount_out":"1"}}}`,
}

func jroutePool(in, out string, id string) *J {
	return jobj("denom_in", jstr(in), "denom_out", jstr(out), "pool", jobj("pool_id", jnum(id)))
}

func (u *U) denom() string { return u.r.Pick("uaaa", "ubbb", "uccc", "urise", "a", "b") }

// a random VALID route tree (as JSON) from in to out, pools unique via counter
func (u *U) jroute(in, out string, depth int, ctr *int) *J {
	k := u.r.N(6)
	if depth <= 0 || k < 3 {
		*ctr++
		id := fmt.Sprint(*ctr)
		if u.r.N(5) == 0 {
			return jobj("denom_in", jstr(in), "denom_out", jstr(out), "pool", jobj("pool_id", jstr(id))) // quoted uint64 is legal
		}
		return jroutePool(in, out, id)
	}
	if k < 5 {
		n := 1 + u.r.N(3)
		var rs []*J
		cur := in
		for i := 0; i < n; i++ {
			next := out
			if i < n-1 {
				next = u.denom()
			}
			rs = append(rs, u.jroute(cur, next, depth-1, ctr))
			cur = next
		}
		return jobj("denom_in", jstr(in), "denom_out", jstr(out), "series", jobj("routes", jarr(rs...)))
	}
	n := 1 + u.r.N(3)
	var rs, ws []*J
	for i := 0; i < n; i++ {
		rs = append(rs, u.jroute(in, out, depth-1, ctr))
		ws = append(ws, jstr(u.r.Pick("1", "0.5", "2", "0.000000000000000001", "10", "3.25")))
	}
	return jobj("denom_in", jstr(in), "denom_out", jstr(out), "parallel", jobj("routes", jarr(rs...), "weights", jarr(ws...)))
}

func (u *U) jforward() *J {
	f := jobj("receiver", jstr(u.r.Pick("sunrise1xyz", "cosmos1abc", "r")), "port", jstr("transfer"), "channel", jstr(u.r.Pick("channel-0", "channel-7")))
	if u.r.Bool() {
		f.Keys = append(f.Keys, "timeout")
		f.A = append(f.A, jstr(u.r.Pick("10s", "5m", "1h", "0", "100ms")))
	}
	if u.r.Bool() {
		f.Keys = append(f.Keys, "retries")
		f.A = append(f.A, jnum(fmt.Sprint(u.r.N(5))))
	}
	if u.r.N(3) == 0 {
		f.Keys = append(f.Keys, "next")
		f.A = append(f.A, u.r.pickJ(jobj("forward", jobj("receiver", jstr("x"))), jstr("memo"), jnum("7"), jarr(), jobj()))
	}
	return f
}

func (r *Rng) pickJ(xs ...*J) *J { return xs[r.N(len(xs))] }

// a valid memo document
func (u *U) baseDoc() *J {
	ctr := 0
	in, out := u.denom(), u.denom()
	route := u.jroute(in, out, u.r.N(4), &ctr)
	swap := jobj("route", route)
	if u.r.N(4) == 0 {
		swap.Keys = append([]string{"interface_provider"}, swap.Keys...)
		swap.A = append([]*J{jstr("sunrise1provider")}, swap.A...)
	}
	switch u.r.N(5) {
	case 0, 1, 2:
		swap.Keys = append(swap.Keys, "exact_amount_in")
		swap.A = append(swap.A, jobj("min_amount_out", jstr(u.r.Pick("1", "1000", "123456789012345678901234567890"))))
	case 3:
		ex := jobj("amount_out", jstr(u.r.Pick("1", "5000")))
		if u.r.Bool() {
			ex.Keys = append(ex.Keys, "change")
			ex.A = append(ex.A, u.jforward())
		}
		swap.Keys = append(swap.Keys, "exact_amount_out")
		swap.A = append(swap.A, ex)
	case 4:
		swap.Keys = append(swap.Keys, "exactAmountIn")
		swap.A = append(swap.A, jobj("minAmountOut", jstr("42")))
	}
	if u.r.N(3) == 0 {
		swap.Keys = append(swap.Keys, "forward")
		swap.A = append(swap.A, u.jforward())
	}
	return jobj("swap", swap)
}

func (u *U) randScalar() *J {
	switch u.r.N(12) {
	case 0:
		return jnull()
	case 1:
		return jbool(u.r.Bool())
	case 2:
		return jnum(u.r.Pick("0", "1", "-1", "7", "4294967295", "4294967296", "9007199254740991", "-5"))
	case 3:
		return jnum(u.r.Pick("18446744073709551615", "18446744073709551616", "1e3", "1.5", "-0", "1E400", "0.0000001", "123456789012345678901234567890"))
	case 4:
		return jstr("")
	case 5:
		return jstr(u.r.Pick("0", "1", "-1", "+1", "--1", "abc", "1.5", "0.5", "-0.5", "1.", ".5", "1.0000000000000000001", "1e5", "null", "true", " 1", "0x10", "1_0", "007"))
	case 6:
		return jstr(strings.Repeat(u.r.Pick("9", "a", "1"), 1+u.r.N(400)))
	case 7:
		return jstr(u.r.Pick("115792089237316195423570985008687907853269984665640564039457584007913129639935", "115792089237316195423570985008687907853269984665640564039457584007913129639936",
			"-115792089237316195423570985008687907853269984665640564039457584007913129639936", "66749594872528440074844428317798503581334516323645399060845050244444366430645.017188217565216768",
			"66749594872528440074844428317798503581334516323645399060845050244444366430646"))
	case 8:
		return jarr()
	case 9:
		return jobj()
	case 10:
		return jstr(u.r.Pick("transfer", "channel-0", "uaaa", "10s", "1h", "-3s", "1.5s", "s", "99999999999h"))
	default:
		return jstr(u.r.Pick("exact_amount_in", "pool", "swap", "é", "\u0000", "\"", "\\"))
	}
}

func (u *U) randJSON(depth int) *J {
	if depth <= 0 || u.r.N(3) == 0 {
		return u.randScalar()
	}
	n := u.r.N(4)
	if u.r.Bool() {
		a := &J{K: jArr}
		for i := 0; i < n; i++ {
			a.A = append(a.A, u.randJSON(depth-1))
		}
		return a
	}
	o := &J{K: jObj}
	for i := 0; i < n; i++ {
		o.Keys = append(o.Keys, u.r.Pick("swap", "forward", "next", "route", "pool", "series", "parallel", "routes", "weights", "exact_amount_in", "exact_amount_out", "min_amount_out", "amount_out", "change", "receiver", "port", "channel", "timeout", "retries", "denom_in", "denom_out", "pool_id", "x", "interface_provider"))
		o.A = append(o.A, u.randJSON(depth-1))
	}
	return o
}

// all nodes with their parents
type jpos struct {
	parent *J
	idx    int
}

func collect(j *J, out *[]jpos) {
	for i, x := range j.A {
		*out = append(*out, jpos{j, i})
		collect(x, out)
	}
}

func nest(x *J, k int, obj bool, key string) *J {
	for i := 0; i < k; i++ {
		if obj {
			x = jobj(key, x)
		} else {
			x = jarr(x)
		}
	}
	return x
}

// one mutation at a random position of a valid document
func (u *U) mutateDoc(doc *J) *J {
	doc = doc.clone()
	var ps []jpos
	collect(doc, &ps)
	if len(ps) == 0 {
		return doc
	}
	p := ps[u.r.N(len(ps))]
	cur := p.parent.A[p.idx]
	key := ""
	if p.parent.K == jObj {
		key = p.parent.Keys[p.idx]
	}
	switch u.r.N(14) {
	case 0, 1: // wrong type / arbitrary scalar
		p.parent.A[p.idx] = u.randScalar()
	case 2: // null
		p.parent.A[p.idx] = jnull()
	case 3: // missing
		p.parent.A = append(p.parent.A[:p.idx:p.idx], p.parent.A[p.idx+1:]...)
		if p.parent.K == jObj {
			p.parent.Keys = append(p.parent.Keys[:p.idx:p.idx], p.parent.Keys[p.idx+1:]...)
		}
	case 4: // duplicate key with another value (before or after)
		if p.parent.K == jObj {
			v := u.randScalar()
			if u.r.Bool() {
				v = cur.clone()
			}
			if u.r.Bool() {
				p.parent.Keys = append(p.parent.Keys, key)
				p.parent.A = append(p.parent.A, v)
			} else {
				p.parent.Keys = append([]string{key}, p.parent.Keys...)
				p.parent.A = append([]*J{v}, p.parent.A...)
			}
		} else {
			p.parent.A = append(p.parent.A, cur.clone())
		}
	case 5: // huge
		if u.r.Bool() {
			p.parent.A[p.idx] = jstr(strings.Repeat("9", 100+u.r.N(3000)))
		} else {
			p.parent.A[p.idx] = jnum(strings.Repeat("9", 20+u.r.N(300)))
		}
	case 6: // negative
		p.parent.A[p.idx] = u.r.pickJ(jnum("-1"), jstr("-1"), jnum("-9223372036854775808"), jstr("-0.5"))
	case 7: // nested 1..200 deep (arrays or objects around the value)
		p.parent.A[p.idx] = nest(cur, 1+u.r.N(200), u.r.Bool(), u.r.Pick("swap", "forward", "series", "routes", "next", "x"))
	case 8: // deep series nesting of a route: wrap the whole route k times
		doc = u.deepRoute(doc, 1+u.r.N(200))
	case 9: // unknown key
		if p.parent.K == jObj {
			p.parent.Keys = append(p.parent.Keys, u.r.Pick("unknown", "Swap", "poolId", "denomIn", "forward", "next", "swap"))
			p.parent.A = append(p.parent.A, u.randScalar())
		}
	case 10: // rename key (camel/orig/other oneof alternative)
		if p.parent.K == jObj {
			p.parent.Keys[p.idx] = u.r.Pick("denomIn", "denomOut", "poolId", "exactAmountIn", "exactAmountOut", "minAmountOut", "amountOut", "pool", "series", "parallel", "exact_amount_in", "exact_amount_out", "interfaceProvider", "forward", "change", "next", "routes", "weights")
		}
	case 11: // reuse a pool: copy a pool id onto another pool
		var ids []jpos
		for _, q := range ps {
			if q.parent.K == jObj && q.parent.Keys[q.idx] == "pool_id" {
				ids = append(ids, q)
			}
		}
		if len(ids) >= 2 {
			a, b := ids[u.r.N(len(ids))], ids[u.r.N(len(ids))]
			b.parent.A[b.idx] = a.parent.A[a.idx].clone()
		}
	case 12: // weights: zero / negative / malformed / length mismatch
		for _, q := range ps {
			if q.parent.K == jObj && q.parent.Keys[q.idx] == "weights" && q.parent.A[q.idx].K == jArr {
				w := q.parent.A[q.idx]
				switch u.r.N(4) {
				case 0:
					if len(w.A) > 0 {
						w.A[u.r.N(len(w.A))] = jstr(u.r.Pick("0", "-1", "", "abc", "0.0000000000000000001", "1.", "--1", "+1", "-", ".", "1.2.3", "1e2", "0.000000000000000000"))
					}
				case 1:
					w.A = append(w.A, jstr("1"))
				case 2:
					if len(w.A) > 0 {
						w.A = w.A[:len(w.A)-1]
					}
				case 3:
					if len(w.A) > 0 {
						w.A[u.r.N(len(w.A))] = jnull()
					}
				}
				break
			}
		}
	case 13: // mismatched denoms
		for _, q := range ps {
			if q.parent.K == jObj && (q.parent.Keys[q.idx] == "denom_in" || q.parent.Keys[q.idx] == "denom_out") && u.r.N(3) == 0 {
				q.parent.A[q.idx] = jstr(u.r.Pick("zzz", "", "uaaa"))
				break
			}
		}
	}
	return doc
}

func (u *U) deepRoute(doc *J, k int) *J {
	// doc.swap.route := series{routes:[ ... series{routes:[route]} ]}
	if doc.K != jObj || len(doc.A) == 0 || doc.A[0].K != jObj {
		return doc
	}
	swap := doc.A[0]
	for i, key := range swap.Keys {
		if key == "route" && swap.A[i].K == jObj {
			r := swap.A[i]
			in, out := jstr("a"), jstr("b")
			for j, k2 := range r.Keys {
				if k2 == "denom_in" {
					in = r.A[j]
				}
				if k2 == "denom_out" {
					out = r.A[j]
				}
			}
			for d := 0; d < k; d++ {
				r = jobj("denom_in", in.clone(), "denom_out", out.clone(), "series", jobj("routes", jarr(r)))
			}
			swap.A[i] = r
		}
	}
	return doc
}

// ------------------------------------------------------------------------------------------------ route

func utHx(s string) string { return hex.EncodeToString([]byte(s)) }

// route tokens for the model: R d<hex> d<hex> then strategy: U | P<id> | Pn | S<k> ... | Sn | L<k> ... W<m> w<hex>... | Ln
func routeTokens(r *swaptypes.Route, sb *strings.Builder) {
	fmt.Fprintf(sb, " R d%s d%s", utHx(r.DenomIn), utHx(r.DenomOut))
	switch s := r.Strategy.(type) {
	case nil:
		sb.WriteString(" U")
	case *swaptypes.Route_Pool:
		if s.Pool == nil {
			sb.WriteString(" Pn")
		} else {
			fmt.Fprintf(sb, " P%d", s.Pool.PoolId)
		}
	case *swaptypes.Route_Series:
		if s.Series == nil {
			sb.WriteString(" Sn")
		} else {
			fmt.Fprintf(sb, " S%d", len(s.Series.Routes))
			for i := range s.Series.Routes {
				routeTokens(&s.Series.Routes[i], sb)
			}
		}
	case *swaptypes.Route_Parallel:
		if s.Parallel == nil {
			sb.WriteString(" Ln")
		} else {
			fmt.Fprintf(sb, " L%d", len(s.Parallel.Routes))
			for i := range s.Parallel.Routes {
				routeTokens(&s.Parallel.Routes[i], sb)
			}
			fmt.Fprintf(sb, " W%d", len(s.Parallel.Weights))
			for _, w := range s.Parallel.Weights {
				sb.WriteString(" w" + utHx(w))
			}
		}
	}
}

func hasNilPayload(r *swaptypes.Route) bool {
	switch s := r.Strategy.(type) {
	case *swaptypes.Route_Pool:
		return s.Pool == nil
	case *swaptypes.Route_Series:
		if s.Series == nil {
			return true
		}
		for i := range s.Series.Routes {
			if hasNilPayload(&s.Series.Routes[i]) {
				return true
			}
		}
	case *swaptypes.Route_Parallel:
		if s.Parallel == nil {
			return true
		}
		for i := range s.Parallel.Routes {
			if hasNilPayload(&s.Parallel.Routes[i]) {
				return true
			}
		}
	}
	return false
}

var weightPool = []string{"1", "0.5", "2", "10", "0.000000000000000001", "3.25", "0", "-1", "", "abc", "0.0000000000000000001", "1.", "--1", "+1", "-", ".", "1.2.3", "1e2",
	"0.000000000000000000", "-0", "-0.0", "66749594872528440074844428317798503581334516323645399060845050244444366430645.017188217565216768",
	"66749594872528440074844428317798503581334516323645399060845050244444366430646", " 1", "1 ", "١"}

// random route, mostly valid, with the untrusted-input features of the property text
func (u *U) goRoute(in, out string, depth int, ctr *uint64, wild bool) swaptypes.Route {
	r := swaptypes.Route{DenomIn: in, DenomOut: out}
	if wild && u.r.N(12) == 0 {
		r.DenomIn = u.r.Pick("zzz", "", out)
	}
	if wild && u.r.N(12) == 0 {
		r.DenomOut = u.r.Pick("zzz", "", in)
	}
	k := u.r.N(8)
	if wild && u.r.N(25) == 0 {
		return r // unknown strategy
	}
	if depth <= 0 || k < 3 {
		*ctr++
		id := *ctr
		if wild && u.r.N(6) == 0 && id > 1 {
			id = 1 + uint64(u.r.N(int(id))) // reuse
		}
		if wild && u.r.N(30) == 0 {
			id = ^uint64(0)
		}
		r.Strategy = &swaptypes.Route_Pool{Pool: &swaptypes.RoutePool{PoolId: id}}
		if wild && u.r.N(40) == 0 {
			r.Strategy = &swaptypes.Route_Pool{}
		}
		return r
	}
	if k < 6 {
		n := 1 + u.r.N(3)
		if wild && u.r.N(10) == 0 {
			n = 0
		}
		s := &swaptypes.RouteSeries{}
		cur := in
		for i := 0; i < n; i++ {
			next := out
			if i < n-1 {
				next = u.denom()
			}
			s.Routes = append(s.Routes, u.goRoute(cur, next, depth-1, ctr, wild))
			cur = next
		}
		r.Strategy = &swaptypes.Route_Series{Series: s}
		if wild && u.r.N(40) == 0 {
			r.Strategy = &swaptypes.Route_Series{}
		}
		return r
	}
	n := 1 + u.r.N(3)
	if wild && u.r.N(10) == 0 {
		n = 0
	}
	p := &swaptypes.RouteParallel{}
	for i := 0; i < n; i++ {
		p.Routes = append(p.Routes, u.goRoute(in, out, depth-1, ctr, wild))
		if wild && u.r.N(4) == 0 {
			p.Weights = append(p.Weights, weightPool[u.r.N(len(weightPool))])
		} else {
			p.Weights = append(p.Weights, weightPool[u.r.N(6)])
		}
	}
	if wild && u.r.N(10) == 0 {
		if u.r.Bool() && len(p.Weights) > 0 {
			p.Weights = p.Weights[:len(p.Weights)-1]
		} else {
			p.Weights = append(p.Weights, "1")
		}
	}
	r.Strategy = &swaptypes.Route_Parallel{Parallel: p}
	if wild && u.r.N(40) == 0 {
		r.Strategy = &swaptypes.Route_Parallel{}
	}
	return r
}

func (u *U) runRoute(r *swaptypes.Route) {
	var sb strings.Builder
	extra := ""
	if r == nil {
		sb.WriteString("Rn")
	} else {
		routeTokens(r, &sb)
		if hasNilPayload(r) {
			extra = "nil_strategy_payload"
		}
	}
	cls, pv := u.guarded(func() error { return r.Validate() })
	input := []byte(strings.TrimSpace(sb.String()))
	_, cause := u.report("Route.Validate", cls, pv, input, extra)
	if u.aborted {
		return
	}
	u.e.In("route %s", strings.TrimSpace(sb.String()))
	u.e.Obs("route %s", normClass(cls, cause))
}

func (u *U) routeSection(n int) {
	u.runRoute(nil)
	for i := 0; i < n && !u.aborted; i++ {
		var ctr uint64
		in, out := u.denom(), u.denom()
		var r swaptypes.Route
		switch k := u.r.N(10); {
		case k < 3:
			r = u.goRoute(in, out, u.r.N(5), &ctr, false)
		case k < 9:
			r = u.goRoute(in, out, u.r.N(5), &ctr, true)
		default: // deep nesting 1..200 around a small route
			r = u.goRoute(in, out, 1, &ctr, u.r.Bool())
			d := 1 + u.r.N(200)
			for j := 0; j < d; j++ {
				inner := r
				if u.r.N(4) == 0 {
					r = swaptypes.Route{DenomIn: in, DenomOut: out, Strategy: &swaptypes.Route_Parallel{Parallel: &swaptypes.RouteParallel{Routes: []swaptypes.Route{inner}, Weights: []string{"1"}}}}
				} else {
					r = swaptypes.Route{DenomIn: in, DenomOut: out, Strategy: &swaptypes.Route_Series{Series: &swaptypes.RouteSeries{Routes: []swaptypes.Route{inner}}}}
				}
			}
		}
		u.runRoute(&r)
	}
}

// ------------------------------------------------------------------------------------------------ packets

func (u *U) packet(data []byte, seq uint64) channeltypes.Packet {
	return channeltypes.NewPacket(data, seq, "transfer", "channel-1", "transfer", "channel-0", clienttypes.NewHeight(1, 100000), 0)
}

// deliver one packet to the swap middleware exactly as core IBC would (cached context, written only on success ack)
func (u *U) recv(data []byte, seq uint64) (cls string, pv any) {
	return u.guarded(func() error {
		err, p := u.c.Call(func(ctx sdk.Context) error {
			ack := u.mw.OnRecvPacket(ctx, transfertypes.V1, u.packet(data, seq), u.c.Accs[3].Addr)
			if ack != nil && !ack.Success() {
				return fmt.Errorf("error ack")
			}
			return nil
		})
		if p != nil {
			panic(p)
		}
		return err
	})
}

func (u *U) ftData(denom, amount, sender, receiver, memo string) []byte {
	d := transfertypes.FungibleTokenPacketData{Denom: denom, Amount: amount, Sender: sender, Receiver: receiver, Memo: memo}
	return transfertypes.ModuleCdc.MustMarshalJSON(&d)
}

func (u *U) packetSection(n int) {
	if u.mw == nil {
		u.e.Note("packet section skipped: no transfer route")
		return
	}
	a0 := u.c.Accs[0].Addr.String()
	seq := uint64(100)
	run := func(data []byte) {
		seq++
		cls, pv := u.recv(data, seq)
		u.report("IBCMiddleware.OnRecvPacket", cls, pv, data, "")
	}
	// every corpus memo inside a well-formed packet
	for _, m := range memoCorpus {
		run(u.ftData("uxyz", "1000", "cosmos1sender", a0, m))
	}
	for i := 0; i < n && !u.aborted; i++ {
		denom := u.r.Pick("uxyz", "uxyz", "uxyz", "transfer/channel-1/urise", "transfer/channel-1/uaaa", "", "a/b/c", "ibc/ABC")
		amount := u.r.Pick("1000", "1000", "1000", "1", "0", "-1", "", "abc", "340282366920938463463374607431768211456", "100000000000000000000000000000000000000000000000000000000000000000000000000000000")
		recvr := a0
		if u.r.N(8) == 0 {
			recvr = u.r.Pick("", "garbage", "cosmos1sender")
		}
		var memo string
		switch k := u.r.N(10); {
		case k < 5: // valid swap memo against the real pools
			memo = u.liveMemo(false).Text()
		case k < 8:
			memo = u.mutateDoc(u.liveMemo(true)).Text()
		case k < 9:
			memo = u.mutateDoc(u.baseDoc()).Text()
		default:
			memo = u.randJSON(3).Text()
		}
		data := u.ftData(denom, amount, "cosmos1sender", recvr, memo)
		if u.r.N(15) == 0 { // raw packet data
			switch u.r.N(4) {
			case 0:
				data = []byte(memo)
			case 1:
				data = data[:u.r.N(len(data))]
			case 2:
				data = nil
			case 3:
				data = []byte(`{"denom":1,"amount":{},"memo":[]}`)
			}
		}
		run(data)
	}
}

// a memo whose route really swaps the incoming voucher through existing pools
func (u *U) liveMemo(any bool) *J {
	in := u.ibcDenom
	if in == "" || (any && u.r.N(4) == 0) {
		in = "uaaa"
	}
	var route *J
	switch u.r.N(4) {
	case 0, 1:
		route = jroutePool(in, "uaaa", "3")
	case 2:
		route = jobj("denom_in", jstr(in), "denom_out", jstr("ubbb"), "series", jobj("routes", jarr(jroutePool(in, "uaaa", "3"), jroutePool("uaaa", "ubbb", "0"))))
	default:
		route = jobj("denom_in", jstr(in), "denom_out", jstr("uaaa"), "parallel", jobj("routes", jarr(jroutePool(in, "uaaa", "3"), jroutePool(in, "uaaa", "4")), "weights", jarr(jstr("1"), jstr(u.r.Pick("1", "2", "0.5")))))
	}
	swap := jobj("route", route)
	switch u.r.N(4) {
	case 0, 1:
		swap.Keys = append(swap.Keys, "exact_amount_in")
		swap.A = append(swap.A, jobj("min_amount_out", jstr("1")))
	case 2:
		ex := jobj("amount_out", jstr(u.r.Pick("1", "100", "100000000")))
		if u.r.Bool() {
			ex.Keys = append(ex.Keys, "change")
			ex.A = append(ex.A, u.jforward())
		}
		swap.Keys = append(swap.Keys, "exact_amount_out")
		swap.A = append(swap.A, ex)
	case 3: // no strategy at all
	}
	if u.r.N(3) == 0 {
		swap.Keys = append(swap.Keys, "interface_provider")
		prov := u.c.Accs[2].Addr.String()
		if u.r.N(3) == 0 {
			// an otherwise executable memo whose provider is not an address of this chain: nothing validates it before the swap runs
			prov = u.r.Pick("garbage", "cosmos1sender", "sunrise1qqqqqqqqqqqqqqqqqqqqqqqqqqqqqqqqqqqqqq", prov[:len(prov)-1], strings.ToUpper(prov), " ")
		}
		swap.A = append(swap.A, jstr(prov))
	}
	if u.r.N(3) == 0 {
		swap.Keys = append(swap.Keys, "forward")
		swap.A = append(swap.A, u.jforward())
	}
	return jobj("swap", swap)
}

var _ = sdkmath.ZeroInt
