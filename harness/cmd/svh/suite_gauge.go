package main

import (
	"encoding/json"
	"fmt"
	"math/big"
	"sort"
	"strings"
	"time"

	sdkmath "cosmossdk.io/math"
	stakingtypes "cosmossdk.io/x/staking/types"
	sdk "github.com/cosmos/cosmos-sdk/types"
	authtypes "github.com/cosmos/cosmos-sdk/x/auth/types"
	litypes "github.com/sunriselayer/sunrise/x/liquidityincentive/types"
	lptypes "github.com/sunriselayer/sunrise/x/liquiditypool/types"

	"svh/sim"
)

func init() { register("gauge", suiteGauge) }

// C17: gauge voting, tally, epochs, emission split — on the real application: real staking (genesis validators,
// Msg/Delegate, Msg/Undelegate, Keeper.Slash), real liquidity pools with in-range positions (or none), real
// Msg/VoteGauge, real blocks (Begin/EndBlockers of every module).
//
// S7 (QuoDecTruncate(0) in AllocateIncentive when a voted pool has positions but no in-range liquidity) belongs to
// C01/C06 and is avoided here: every pool either has one wide in-range position or no position at all (then
// AllocateIncentive returns ErrEmptyLiquidity, which BeginBlocker logs).
type gaugeHist struct {
	e       *Env
	c       *sim.Chain
	eb      int64
	nVals   int
	pools   []uint64        // existing pool ids
	hasPos  map[uint64]bool // pool has an in-range position
	name    map[string]string
	seenEp  map[uint64]bool
	lastId  uint64
	feeColl sdk.AccAddress
}

func (g *gaugeHist) accName(addr string) string {
	if n, ok := g.name[addr]; ok {
		return n
	}
	return "x"
}

func orDash(xs []string, sep string) string {
	if len(xs) == 0 {
		return "-"
	}
	return strings.Join(xs, sep)
}

func (g *gaugeHist) votesStr() string {
	votes, _ := g.c.App.LiquidityincentiveKeeper.GetAllVotes(g.c.Ctx())
	var xs []string
	for _, v := range votes {
		var ws []string
		for _, w := range v.PoolWeights {
			ws = append(ws, fmt.Sprintf("%d:%s", w.PoolId, w.Weight))
		}
		xs = append(xs, fmt.Sprintf("%s[%s]", g.accName(v.Sender), orDash(ws, ",")))
	}
	sort.Strings(xs)
	return orDash(xs, ";")
}

func (g *gaugeHist) epochsStr() string {
	eps, _ := g.c.App.LiquidityincentiveKeeper.GetAllEpoch(g.c.Ctx())
	var xs []string
	for _, ep := range eps {
		var gs []string
		for _, ga := range ep.Gauges {
			gs = append(gs, fmt.Sprintf("%d:%s", ga.PoolId, ga.Count))
		}
		xs = append(xs, fmt.Sprintf("%d:%d-%d:{%s}", ep.Id, ep.StartBlock, ep.EndBlock, orDash(gs, ",")))
	}
	return orDash(xs, ";")
}

func (g *gaugeHist) gaugesStr() string {
	gs, _ := g.c.App.LiquidityincentiveKeeper.GetAllGauges(g.c.Ctx())
	var xs []string
	for _, ga := range gs {
		xs = append(xs, fmt.Sprintf("%d/%d:%s", ga.PreviousEpochId, ga.PoolId, ga.Count))
	}
	return orDash(xs, ",")
}

func (g *gaugeHist) fees() map[uint64]sdkmath.Int {
	m := map[uint64]sdkmath.Int{}
	for _, p := range g.pools {
		m[p] = g.c.Bal(lptypes.NewPoolFeesAddress(p), "uvrise")
	}
	return m
}

// the staking view exactly as Tally reads it (same keeper calls)
func (g *gaugeHist) stakingStr() string {
	ctx := g.c.Ctx()
	sk := g.c.App.StakingKeeper
	var vals []string
	_ = sk.IterateBondedValidatorsByPower(ctx, func(_ int64, v sdk.ValidatorI) bool {
		bz, err := sk.ValidatorAddressCodec().StringToBytes(v.GetOperator())
		if err != nil {
			return false
		}
		vals = append(vals, fmt.Sprintf("%s:%s:%s", g.accName(sdk.AccAddress(bz).String()), v.GetBondedTokens(), v.GetDelegatorShares()))
		return false
	})
	sort.Strings(vals)
	var dels []string
	for i, a := range g.c.Accs {
		_ = sk.IterateDelegations(ctx, a.Addr, func(_ int64, d sdk.DelegationI) bool {
			bz, _ := sk.ValidatorAddressCodec().StringToBytes(d.GetValidatorAddr())
			dels = append(dels, fmt.Sprintf("a%d>%s:%s", i, g.accName(sdk.AccAddress(bz).String()), d.GetShares()))
			return false
		})
	}
	tb, _ := sk.TotalBondedTokens(ctx)
	return fmt.Sprintf("vals=%s dels=%s total=%s", orDash(vals, ","), orDash(dels, ","), tb)
}

func ratOfDec(d sdkmath.LegacyDec) *big.Rat {
	return new(big.Rat).SetFrac(d.BigInt(), new(big.Int).Exp(big.NewInt(10), big.NewInt(18), nil))
}

func ratFloor(r *big.Rat) *big.Int {
	q := new(big.Int)
	m := new(big.Int)
	q.DivMod(r.Num(), r.Denom(), m) // Euclidean: floor for positive denominators
	return q
}

// independent recomputation of the tally from the delegation graph with exact rationals
func (g *gaugeHist) oracleTally(ep litypes.Epoch) {
	ctx := g.c.Ctx()
	sk := g.c.App.StakingKeeper
	vals, _ := sk.GetAllValidators(ctx)
	type vinfo struct {
		tokens, shares *big.Rat
		deducted       *big.Rat
	}
	vm := map[string]*vinfo{}
	totalBonded := new(big.Rat)
	for _, v := range vals {
		if !v.IsBonded() {
			continue
		}
		vm[v.OperatorAddress] = &vinfo{new(big.Rat).SetInt(v.Tokens.BigInt()), ratOfDec(v.DelegatorShares), new(big.Rat)}
		totalBonded.Add(totalBonded, new(big.Rat).SetInt(v.Tokens.BigInt()))
	}
	dels, _ := sk.GetAllDelegations(ctx)
	votes, _ := g.c.App.LiquidityincentiveKeeper.GetAllVotes(ctx)
	voteOf := map[string][]litypes.PoolWeight{}
	for _, v := range votes {
		voteOf[v.Sender] = v.PoolWeights
	}
	exact := map[uint64]*big.Rat{}
	counted := new(big.Rat)
	terms := 0
	add := func(stake *big.Rat, ws []litypes.PoolWeight) {
		for _, w := range ws {
			wr, ok := new(big.Rat).SetString(w.Weight)
			if !ok {
				continue
			}
			if exact[w.PoolId] == nil {
				exact[w.PoolId] = new(big.Rat)
			}
			exact[w.PoolId].Add(exact[w.PoolId], new(big.Rat).Mul(stake, wr))
			terms++
		}
		counted.Add(counted, stake)
		terms++
	}
	for _, d := range dels {
		ws, voted := voteOf[d.DelegatorAddress]
		v := vm[d.ValidatorAddress]
		if !voted || v == nil || v.shares.Sign() == 0 {
			continue
		}
		sh := ratOfDec(d.Shares)
		v.deducted.Add(v.deducted, sh)
		stake := new(big.Rat).Mul(sh, v.tokens)
		stake.Quo(stake, v.shares)
		add(stake, ws) // the delegator's own stake goes with the delegator's own weights
	}
	for op, v := range vm {
		bz, _ := sk.ValidatorAddressCodec().StringToBytes(op)
		ws, voted := voteOf[sdk.AccAddress(bz).String()]
		if !voted || len(ws) == 0 || v.shares.Sign() == 0 {
			continue
		}
		rem := new(big.Rat).Sub(v.shares, v.deducted)
		rem.Mul(rem, v.tokens)
		rem.Quo(rem, v.shares)
		add(rem, ws) // the validator speaks only for the stake whose owners did not vote
	}
	eps := new(big.Rat).SetFrac(big.NewInt(int64(terms+1)), new(big.Int).Exp(big.NewInt(10), big.NewInt(18), nil))
	// (a) accounting: no more stake is counted than is bonded
	bound := new(big.Rat).Add(totalBonded, eps)
	g.e.Oracle("each_token_once", counted.Cmp(bound) <= 0, "epoch=%d counted=%s bonded=%s", ep.Id, counted.FloatString(3), totalBonded.FloatString(0))
	// (b) the stored counts are the exact per-pool sums, up to the rounding of the Quo/Mul chain
	sum := new(big.Int)
	okAll := len(ep.Gauges) == len(exact)
	detail := ""
	for _, ga := range ep.Gauges {
		sum.Add(sum, ga.Count.BigInt())
		ex := exact[ga.PoolId]
		if ex == nil {
			okAll = false
			detail = fmt.Sprintf("pool %d has a gauge but no voter", ga.PoolId)
			continue
		}
		lo := ratFloor(new(big.Rat).Sub(ex, eps))
		hi := ratFloor(new(big.Rat).Add(ex, eps))
		if ga.Count.BigInt().Cmp(lo) < 0 || ga.Count.BigInt().Cmp(hi) > 0 {
			okAll = false
			detail = fmt.Sprintf("pool %d count=%s exact=%s", ga.PoolId, ga.Count, ex.FloatString(6))
		}
	}
	g.e.Oracle("each_token_once", okAll, "epoch=%d recomputation %s", ep.Id, detail)
	// (c) Σ counts ≤ total bonded tokens (integers)
	tb, _ := sk.TotalBondedTokens(ctx)
	g.e.Oracle("each_token_once", sum.Cmp(tb.BigInt()) <= 0, "epoch=%d sum=%s totalBonded=%s", ep.Id, sum, tb)
}

func (g *gaugeHist) oracleWeights() {
	votes, _ := g.c.App.LiquidityincentiveKeeper.GetAllVotes(g.c.Ctx())
	ok := true
	detail := ""
	for _, v := range votes {
		sum := new(big.Rat)
		for _, w := range v.PoolWeights {
			r, good := new(big.Rat).SetString(w.Weight)
			if !good || r.Sign() < 0 {
				ok = false
				detail = fmt.Sprintf("%s weight %q", g.accName(v.Sender), w.Weight)
				continue
			}
			sum.Add(sum, r)
		}
		if sum.Cmp(big.NewRat(1, 1)) > 0 {
			ok = false
			detail = fmt.Sprintf("%s sum=%s", g.accName(v.Sender), sum.FloatString(18))
		}
	}
	g.e.Oracle("weights_valid", ok, "%s", detail)
}

func (g *gaugeHist) oracleEpochs(h int64, prevLast *litypes.Epoch) {
	k := g.c.App.LiquidityincentiveKeeper
	ctx := g.c.Ctx()
	eps, _ := k.GetAllEpoch(ctx)
	ok := len(eps) <= 2
	detail := fmt.Sprintf("stored=%d", len(eps))
	ids := map[uint64]bool{}
	for i, ep := range eps {
		ids[ep.Id] = true
		if i > 0 && ep.Id != eps[i-1].Id+1 {
			ok = false
			detail = fmt.Sprintf("ids %d,%d", eps[i-1].Id, ep.Id)
		}
	}
	if len(eps) > 0 {
		last := eps[len(eps)-1]
		if !g.seenEp[last.Id] {
			// a new epoch: id = previous last + 1, window = [h, h+epochBlocks), created only when due
			want := uint64(1)
			due := true
			if prevLast != nil {
				want = prevLast.Id + 1
				due = h >= prevLast.EndBlock
			}
			if last.Id != want || last.StartBlock != h || last.EndBlock != h+g.eb || !due || last.Id <= g.lastId {
				ok = false
				detail = fmt.Sprintf("new epoch %d start=%d end=%d at h=%d want id %d due=%v", last.Id, last.StartBlock, last.EndBlock, h, want, due)
			}
			g.seenEp[last.Id] = true
			g.lastId = last.Id
			g.e.Stat("epoch.created")
			g.oracleTally(last)
		} else if prevLast != nil && (last.Id != prevLast.Id || last.StartBlock != prevLast.StartBlock || last.EndBlock != prevLast.EndBlock) {
			ok = false
			detail = "last epoch changed without a new id"
		}
	}
	// gauges: only for stored epochs, and exactly the epoch's own list
	gs, _ := k.GetAllGauges(ctx)
	for _, ga := range gs {
		if !ids[ga.PreviousEpochId+1] {
			ok = false
			detail = fmt.Sprintf("gauge %d/%d stored for a pruned epoch", ga.PreviousEpochId, ga.PoolId)
		}
	}
	n := 0
	for _, ep := range eps {
		for _, ga := range ep.Gauges {
			n++
			st, found, _ := k.GetGauge(ctx, ga.PreviousEpochId, ga.PoolId)
			if !found || !st.Count.Equal(ga.Count) || ga.PreviousEpochId+1 != ep.Id {
				ok = false
				detail = fmt.Sprintf("epoch %d gauge %d/%d not in the gauge store", ep.Id, ga.PreviousEpochId, ga.PoolId)
			}
		}
	}
	if n != len(gs) {
		ok = false
		detail = fmt.Sprintf("%d gauges stored, %d in epochs", len(gs), n)
	}
	g.e.Oracle("epochs_contiguous", ok, "h=%d %s", h, detail)
}

func (g *gaugeHist) block(dt time.Duration) bool {
	e, c := g.e, g.c
	k := c.App.LiquidityincentiveKeeper
	fc := c.Bal(g.feeColl, "uvrise")
	votesBefore := g.votesStr()
	var prevLast *litypes.Epoch
	if le, found, _ := k.GetLastEpoch(c.Ctx()); found {
		prevLast = &le
	}
	before := g.fees()
	_, err := c.NextBlock(dt)
	h := c.Height
	if err != nil || c.Halted != "" {
		e.Oracle("no_halt", false, "h=%d %v", h, err)
		e.In("block h=%d fc=%s oks=- %s", h, fc, "vals=- dels=- total=0")
		e.Obs("halt")
		e.Stat("block.halt")
		return false
	}
	e.Oracle("no_halt", true, "h=%d", h)
	after := g.fees()
	var oks, allocs []string
	paid := sdkmath.ZeroInt()
	okEm := true
	detail := ""
	if prevLast != nil {
		total := sdkmath.ZeroInt()
		for _, ga := range prevLast.Gauges {
			total = total.Add(ga.Count)
		}
		if !total.IsZero() {
			for _, ga := range prevLast.Gauges {
				d := after[ga.PoolId].Sub(before[ga.PoolId])
				paid = paid.Add(d)
				allocs = append(allocs, fmt.Sprintf("%d:%s", ga.PoolId, d))
				if d.IsPositive() {
					oks = append(oks, "1")
					e.Stat("alloc.paid")
				} else {
					oks = append(oks, "0")
				}
				// the allocation as the code defines it, and the exact ⌊fc·count/total⌋ within one unit
				w := sdkmath.LegacyNewDecFromInt(ga.Count).Quo(sdkmath.LegacyNewDecFromInt(total))
				want := sdkmath.LegacyNewDecFromInt(fc).MulTruncate(w).TruncateInt()
				exact := fc.Mul(ga.Count).Quo(total)
				if g.hasPos[ga.PoolId] {
					if !d.Equal(want) || d.Sub(exact).Abs().GT(sdkmath.OneInt()) {
						okEm = false
						detail = fmt.Sprintf("pool %d got %s want %s exact %s", ga.PoolId, d, want, exact)
					}
					if !d.Equal(exact) {
						e.Stat("alloc.off_by_rounding")
					}
				} else if !d.IsZero() {
					okEm = false
					detail = fmt.Sprintf("pool %d without positions got %s", ga.PoolId, d)
				}
			}
		}
	}
	if paid.GT(fc) {
		okEm = false
		detail = fmt.Sprintf("paid %s > available %s", paid, fc)
	}
	if paid.IsPositive() {
		e.Stat("block.emission")
	}
	e.Oracle("emission_le_available", okEm, "h=%d fc=%s paid=%s %s", h, fc, paid, detail)
	e.In("block h=%d fc=%s oks=%s %s", h, fc, orDash(oks, ","), g.stakingStr())
	var fs []string
	for _, p := range g.pools {
		fs = append(fs, fmt.Sprintf("%d:%s", p, after[p]))
	}
	e.Obs("block h=%d allocs=%s fees=%s epochs=%s gauges=%s votes=%s", h, orDash(allocs, ","), orDash(fs, ","), g.epochsStr(), g.gaugesStr(), g.votesStr())
	e.Oracle("votes_persist", votesBefore == g.votesStr(), "h=%d", h)
	g.oracleEpochs(h, prevLast)
	g.oracleWeights()
	e.Stat("block")
	return true
}

var weightPalette = []string{"0.5", "0.25", "1", "0", "0.333333333333333333", "0.1", "0.7", "0.000000000000000001", "0.999999999999999999", "0.05", "1.0", "0.50"}
var badWeights = []string{"-0.1", "1.1", "", "abc", "0.1234567890123456789", "1.", ".5", "-1", "2", "-0.000000000000000001"}

func (g *gaugeHist) genWeights() ([]litypes.PoolWeight, string) {
	r := g.e.R
	n := r.N(4)
	kind := "valid"
	var ws []litypes.PoolWeight
	pick := func() uint64 { return g.pools[r.N(len(g.pools))] }
	switch r.N(10) {
	case 0: // complementary weights: sum exactly 1, or one ulp above
		a := 1 + r.Next()%999999999999999999
		b := 1000000000000000000 - a
		over := r.N(3) == 0
		if over {
			b++
			kind = "sum_gt_one"
		}
		f := func(x uint64) string {
			if x == 1000000000000000000 {
				return "1"
			}
			return fmt.Sprintf("0.%018d", x)
		}
		ws = []litypes.PoolWeight{{PoolId: pick(), Weight: f(a)}, {PoolId: pick(), Weight: f(b)}}
		return ws, kind
	case 2: // a negative weight hidden behind a larger positive one: every prefix sum stays within [0, 1]
		if r.N(2) == 0 {
			a := 200000000000000000 + r.Next()%700000000000000000
			b := 1 + r.Next()%(a-1)
			ws = []litypes.PoolWeight{{PoolId: pick(), Weight: fmt.Sprintf("0.%018d", a)}, {PoolId: pick(), Weight: fmt.Sprintf("-0.%018d", b)}}
			if r.Bool() {
				ws = append(ws, litypes.PoolWeight{PoolId: pick(), Weight: "0.1"})
			}
			return ws, "bad_weight"
		}
	case 1: // many equal parts
		m := 2 + r.N(5)
		for i := 0; i < m; i++ {
			ws = append(ws, litypes.PoolWeight{PoolId: pick(), Weight: sdkmath.LegacyOneDec().QuoInt64(int64(m)).String()})
		}
		return ws, kind
	}
	for i := 0; i < n; i++ {
		w := weightPalette[r.N(len(weightPalette))]
		if r.N(4) == 0 {
			w = fmt.Sprintf("0.%018d", r.Next()%400000000000000000)
		}
		ws = append(ws, litypes.PoolWeight{PoolId: pick(), Weight: w})
	}
	switch r.N(8) {
	case 0:
		if len(ws) > 0 {
			ws[r.N(len(ws))].Weight = badWeights[r.N(len(badWeights))]
			kind = "bad_weight"
		}
	case 1:
		if len(ws) > 0 {
			ws[r.N(len(ws))].PoolId = uint64(len(g.pools) + r.N(3))
			kind = "unknown_pool"
		}
	case 2:
		if len(ws) > 0 { // duplicate pool id
			ws = append(ws, litypes.PoolWeight{PoolId: ws[0].PoolId, Weight: "0.1"})
			kind = "duplicate"
		}
	}
	return ws, kind
}

func (g *gaugeHist) vote() {
	e, c := g.e, g.c
	i := e.R.N(len(c.Accs))
	// bias towards stakers
	if e.R.N(3) > 0 {
		i = e.R.N(g.nVals + 3)
	}
	ws, kind := g.genWeights()
	g.voteAs(i, ws, kind)
}

// voteAs submits one gauge vote of account i with the given weights
func (g *gaugeHist) voteAs(i int, ws []litypes.PoolWeight, kind string) {
	e, c := g.e, g.c
	var xs []string
	for _, w := range ws {
		xs = append(xs, fmt.Sprintf("%d:%s", w.PoolId, w.Weight))
	}
	sender := c.Accs[i].Addr.String()
	name := fmt.Sprintf("a%d", i)
	senderOk := "1"
	if e.R.N(25) == 0 {
		sender, name, senderOk = "not-an-address", "bad", "0"
	}
	before := g.votesStr()
	e.In("vote %s %s %s", name, senderOk, orDash(xs, ","))
	_, err, p := c.Exec(&litypes.MsgVoteGauge{Sender: sender, PoolWeights: ws})
	cls := class(err, p)
	e.Stat("vote." + kind + "." + cls)
	e.Oracle("no_panic", cls != "panic", "Msg/VoteGauge %s %v", name, xs)
	e.Obs("vote %s votes=%s", cls, g.votesStr())
	if cls != "ok" {
		e.Oracle("votes_persist", before == g.votesStr(), "rejected vote changed the store")
	}
	g.oracleWeights()
}

func (g *gaugeHist) fund() {
	e, c := g.e, g.c
	var amt sdkmath.Int
	switch e.R.N(4) {
	case 0:
		amt = sdkmath.NewInt(int64(1 + e.R.N(20)))
	default:
		amt = sdkmath.NewIntFromBigInt(e.R.Big(13))
	}
	coins := sdk.NewCoins(sdk.NewCoin("uvrise", amt))
	err, p := c.Call(func(ctx sdk.Context) error {
		if err := c.App.BankKeeper.MintCoins(ctx, "mint", coins); err != nil {
			return err
		}
		return c.App.BankKeeper.SendCoinsFromModuleToModule(ctx, "mint", authtypes.FeeCollectorName, coins)
	})
	e.Stat("fund." + class(err, p))
}

func (g *gaugeHist) stake() {
	e, c := g.e, g.c
	d := g.nVals + e.R.N(3) // delegators: the three accounts after the validators
	v := e.R.N(g.nVals)
	val := sdk.ValAddress(c.Accs[v].Addr).String()
	amt := sdkmath.NewIntFromBigInt(e.R.Big(9))
	if e.R.N(4) == 0 {
		_, err, p := c.Exec(&stakingtypes.MsgUndelegate{DelegatorAddress: c.Accs[d].Addr.String(), ValidatorAddress: val, Amount: sdk.NewCoin("uvrise", amt)})
		e.Stat("undelegate." + class(err, p))
		return
	}
	_, err, p := c.Exec(&stakingtypes.MsgDelegate{DelegatorAddress: c.Accs[d].Addr.String(), ValidatorAddress: val, Amount: sdk.NewCoin("uvrise", amt)})
	e.Stat("delegate." + class(err, p))
}

func (g *gaugeHist) slash() {
	e, c := g.e, g.c
	v := e.R.N(g.nVals)
	frac := sdkmath.LegacyNewDecWithPrec(int64(1+e.R.N(300)), 3)
	err, p := c.Call(func(ctx sdk.Context) error {
		val, err := c.App.StakingKeeper.GetValidator(ctx, c.Vals[v].Oper)
		if err != nil {
			return err
		}
		power := c.App.StakingKeeper.PowerReduction(ctx)
		_, err = c.App.StakingKeeper.Slash(ctx, c.Vals[v].Cons, ctx.BlockHeight(), val.Tokens.Quo(power).Int64(), frac)
		return err
	})
	e.Stat("slash." + class(err, p))
}

func suiteGauge(e *Env) {
	for hI := 0; hI < e.N; hI++ {
		runGaugeHistory(e, hI)
	}
}

func runGaugeHistory(e *Env, hI int) {
	r := e.R
	eb := int64(1 + r.N(5))
	nVals := 1 + r.N(4)
	cfg := sim.DefaultConfig()
	cfg.NumAccs = 8
	cfg.ValPowers = nil
	for i := 0; i < nVals; i++ {
		cfg.ValPowers = append(cfg.ValPowers, int64(1+r.N(200)))
	}
	cfg.GenesisMut = func(_ sim.Codec, gs map[string]json.RawMessage) {
		var m map[string]any
		if err := json.Unmarshal(gs[litypes.ModuleName], &m); err != nil {
			panic(err)
		}
		params, _ := m["params"].(map[string]any)
		if params == nil {
			params = map[string]any{}
		}
		params["epoch_blocks"] = fmt.Sprintf("%d", eb)
		if _, ok := params["staking_reward_ratio"]; !ok {
			params["staking_reward_ratio"] = "0.500000000000000000"
		}
		m["params"] = params
		bz, err := json.Marshal(m)
		if err != nil {
			panic(err)
		}
		gs[litypes.ModuleName] = bz
	}
	c, err := sim.New(cfg)
	if err != nil {
		e.Obs("setup-error %v", err)
		return
	}
	g := &gaugeHist{e: e, c: c, eb: eb, nVals: nVals, hasPos: map[uint64]bool{}, name: map[string]string{}, seenEp: map[uint64]bool{},
		feeColl: authtypes.NewModuleAddress(authtypes.FeeCollectorName)}
	for i, a := range c.Accs {
		g.name[a.Addr.String()] = fmt.Sprintf("a%d", i)
	}
	params, _ := c.App.LiquidityincentiveKeeper.Params.Get(c.Ctx())
	e.In("reset epochBlocks=%d", params.EpochBlocks)
	if params.EpochBlocks != eb {
		e.Obs("setup-error epoch_blocks %d != %d", params.EpochBlocks, eb)
		return
	}
	e.Stat(fmt.Sprintf("epochBlocks.%d", eb))
	// pools: ids 0..n-1; most get one wide in-range position, some stay without any position
	lp := len(c.Accs) - 1
	nPools := 2 + r.N(3)
	denoms := []string{"uaaa", "ubbb", "uccc"}
	for p := 0; p < nPools; p++ {
		b := r.N(3)
		q := (b + 1 + r.N(2)) % 3
		resp, err, pn := c.Exec(&lptypes.MsgCreatePool{Authority: c.Accs[lp].Addr.String(), DenomBase: denoms[b], DenomQuote: denoms[q],
			FeeRate: "0.01", PriceRatio: "1.0001", BaseOffset: "0.5"})
		if err != nil || pn != nil {
			e.Obs("setup-error create pool %v", err)
			return
		}
		id := resp.(*lptypes.MsgCreatePoolResponse).Id
		g.pools = append(g.pools, id)
		e.In("pool %d", id)
		if p == 0 || r.N(4) > 0 {
			_, err, pn := c.Exec(&lptypes.MsgCreatePosition{Sender: c.Accs[lp].Addr.String(), PoolId: id, LowerTick: -10, UpperTick: 10,
				TokenBase: sdk.NewInt64Coin(denoms[b], 1000000), TokenQuote: sdk.NewInt64Coin(denoms[q], 1000000),
				MinAmountBase: sdkmath.ZeroInt(), MinAmountQuote: sdkmath.ZeroInt()})
			if err != nil || pn != nil {
				e.Obs("setup-error create position %v", err)
				return
			}
			g.hasPos[id] = true
			e.Stat("pool.with_position")
		} else {
			e.Stat("pool.empty")
		}
	}
	// initial delegations so that delegators exist from the start
	for k := 0; k < 2+r.N(3); k++ {
		g.stake()
	}
	// every malformed weight once, from a delegator and from a validator operator, next to a valid entry: each must be rejected —
	// a stored vote that the tally cannot parse is read again at every epoch boundary
	if hI%2 == 0 {
		for k, bw := range badWeights {
			who := nVals + k%3
			if k%2 == 1 {
				who = k % nVals
			}
			g.voteAs(who, []litypes.PoolWeight{{PoolId: g.pools[0], Weight: "0.25"}, {PoolId: g.pools[len(g.pools)-1], Weight: bw}}, "bad_weight_directed")
		}
	}
	// opening with an epoch whose gauges all count zero: the only votes that reach the first tally carry no countable power
	// (a weight of 0, or a dust stake times a small weight truncating to 0), then blocks across the epoch boundary with emissions
	if hI%3 == 1 {
		e.Stat("opening.zero_count_epoch")
		if r.N(2) == 0 {
			g.voteAs(r.N(nVals), []litypes.PoolWeight{{PoolId: g.pools[0], Weight: "0"}}, "zero_weight")
		} else {
			d := nVals + r.N(3)
			_, err, p := c.Exec(&stakingtypes.MsgDelegate{DelegatorAddress: c.Accs[d].Addr.String(), ValidatorAddress: sdk.ValAddress(c.Accs[0].Addr).String(), Amount: sdk.NewInt64Coin("uvrise", 5)})
			e.Stat("delegate." + class(err, p))
			g.voteAs(d, []litypes.PoolWeight{{PoolId: g.pools[0], Weight: "0.1"}}, "dust_vote")
		}
		g.fund()
		for s := 0; s < int(eb)+2; s++ {
			if !g.block(6e9) {
				return
			}
		}
	}
	steps := 25 + r.N(25)
	if e.Tier == "thorough" {
		steps = 40 + r.N(60)
	}
	for s := 0; s < steps; s++ {
		switch x := r.N(20); {
		case x < 7:
			g.vote()
		case x < 9:
			g.stake()
		case x < 11:
			g.fund()
		case x == 11 && r.N(3) == 0:
			g.slash()
		default:
			dts := []time.Duration{1e9, 6e9, 6e9, 30e9, 61e9, 125e9}
			if !g.block(dts[r.N(len(dts))]) {
				return
			}
		}
	}
	// let the last votes reach an epoch and the emission
	for s := 0; s < int(eb)+2; s++ {
		if !g.block(6e9) {
			return
		}
	}
}
