package main

import (
	"fmt"
	"math/big"
	"time"

	sdkmath "cosmossdk.io/math"
	stakingtypes "cosmossdk.io/x/staking/types"
	sdk "github.com/cosmos/cosmos-sdk/types"
	datypes "github.com/sunriselayer/sunrise/x/da/types"
	litypes "github.com/sunriselayer/sunrise/x/liquidityincentive/types"
	lptypes "github.com/sunriselayer/sunrise/x/liquiditypool/types"
	sctypes "github.com/sunriselayer/sunrise/x/shareclass/types"
	authtypes "github.com/cosmos/cosmos-sdk/x/auth/types"

	"svh/sim"
)

func init() { register("halt", suiteHalt) }

// C01 halt hunting on the real application: directed cross-module histories that put the chain into the states the
// block hooks divide by / index into / wait for, followed by real blocks with arbitrary time steps.
// Oracle: FinalizeBlock returns an error or panics (= chain halt), or a hook call exceeds the watchdog.
func suiteHalt(e *Env) {
	scenarios := []struct {
		name string
		f    func(e *Env, c *sim.Chain) string
	}{
		{"incentive_zero_inrange_liquidity", haltIncentiveZeroLiq},
		{"plain_blocks_time_jumps", haltPlainBlocks},
		{"price_to_tick_search_low_price", haltTickSearchLowPrice},
		{"price_to_tick_search_ratio_next_to_one", haltTickSearchTinyRatio},
		{"da_open_challenge_across_genesis_import", haltDAOpenChallengeAcrossImport},
		{"shareclass_unbonding_to_blocked_recipient", haltUnbondingToBlockedRecipient},
		{"da_large_replication_factor", haltDALargeReplicationFactor},
	}
	for _, sc := range scenarios {
		c, err := sim.New(sim.DefaultConfig())
		if err != nil {
			e.Obs("setup-error %v", err)
			return
		}
		// watchdog: a scenario that does not come back within 20 s is an unmetered hang
		done := make(chan string, 1)
		go func() { done <- guardStr(func() string { return sc.f(e, c) }) }()
		var detail string
		hung := false
		select {
		case detail = <-done:
		case <-time.After(20 * time.Second):
			hung = true
		}
		e.Oracle("no_hang", !hung, "scenario=%s did not return within 20s", sc.name)
		if hung {
			continue
		}
		e.Oracle("no_halt", detail == "" && c.Halted == "", "scenario=%s %s %s", sc.name, detail, c.Halted)
		e.Stat("scenario." + sc.name)
	}
}

func guardStr(f func() string) (out string) {
	defer func() {
		if r := recover(); r != nil {
			out = fmt.Sprintf("panic: %v", r)
		}
	}()
	return f()
}

// blocks with time steps from 1 ns to 3 years
func haltPlainBlocks(e *Env, c *sim.Chain) string {
	steps := []time.Duration{1, 999_999_999, time.Second, 6 * time.Second, time.Minute, time.Hour, 24 * time.Hour, 400 * 24 * time.Hour, 3 * 365 * 24 * time.Hour, 1}
	for _, dt := range steps {
		if _, err := c.NextBlock(dt); err != nil {
			return fmt.Sprintf("block dt=%s: %v", dt, err)
		}
	}
	return ""
}

// S7: a pool voted for by a gauge whose positions are all out of range has zero in-range liquidity; the incentive
// allocation in liquidityincentive's BeginBlocker divides by it.
func haltIncentiveZeroLiq(e *Env, c *sim.Chain) string {
	a := c.Accs[1]
	if _, err, p := c.Exec(&lptypes.MsgCreatePool{Authority: a.Addr.String(), DenomBase: "uaaa", DenomQuote: "ubbb", FeeRate: "0.003", PriceRatio: "1.0001", BaseOffset: "0"}); err != nil || p != nil {
		return fmt.Sprintf("createPool %v %v", err, p)
	}
	// first position sets the price (tick 0 area); then it is replaced by one far above the price
	r1, err, p := c.Exec(&lptypes.MsgCreatePosition{Sender: a.Addr.String(), PoolId: 0, LowerTick: -100, UpperTick: 100,
		TokenBase: sdk.NewCoin("uaaa", sdkmath.NewInt(1_000_000)), TokenQuote: sdk.NewCoin("ubbb", sdkmath.NewInt(1_000_000)), MinAmountBase: sdkmath.ZeroInt(), MinAmountQuote: sdkmath.ZeroInt()})
	if err != nil || p != nil {
		return fmt.Sprintf("createPosition %v %v", err, p)
	}
	if _, err, p := c.Exec(&lptypes.MsgCreatePosition{Sender: a.Addr.String(), PoolId: 0, LowerTick: 5000, UpperTick: 6000,
		TokenBase: sdk.NewCoin("uaaa", sdkmath.NewInt(1_000_000)), TokenQuote: sdk.NewCoin("ubbb", sdkmath.ZeroInt()), MinAmountBase: sdkmath.ZeroInt(), MinAmountQuote: sdkmath.ZeroInt()}); err != nil || p != nil {
		return fmt.Sprintf("createPosition2 %v %v", err, p)
	}
	first := r1.(*lptypes.MsgCreatePositionResponse)
	if _, err, p := c.Exec(&lptypes.MsgDecreaseLiquidity{Sender: a.Addr.String(), Id: first.Id, Liquidity: first.Liquidity}); err != nil || p != nil {
		return fmt.Sprintf("decrease %v %v", err, p)
	}
	pl, _, _ := c.App.LiquiditypoolKeeper.GetPool(c.Ctx(), 0)
	e.Note("pool liquidity in range = %s, sqrt price %s", pl.CurrentTickLiquidity, pl.CurrentSqrtPrice)
	// the validator (account 0 is its operator and delegator) votes for the pool's gauge
	if _, err, p := c.Exec(&litypes.MsgVoteGauge{Sender: c.Accs[0].Addr.String(), PoolWeights: []litypes.PoolWeight{{PoolId: 0, Weight: "1"}}}); err != nil || p != nil {
		return fmt.Sprintf("voteGauge %v %v", err, p)
	}
	_ = stakingtypes.ModuleName
	// run past two epoch boundaries so that the tally creates a gauge and emissions reach the begin-blocker
	params, _ := c.App.LiquidityincentiveKeeper.Params.Get(c.Ctx())
	n := int(params.EpochBlocks)*2 + 5
	if n > 400 {
		n = 400
	}
	for i := 0; i < n; i++ {
		if _, err := c.NextBlock(61 * time.Second); err != nil {
			return fmt.Sprintf("block %d: %v", c.Height, err)
		}
	}
	// direct call as well (the begin-blocker calls this without recover)
	err2, p2 := c.Call(func(ctx sdk.Context) error {
		return c.App.LiquiditypoolKeeper.AllocateIncentive(ctx, 0, c.Accs[2].Addr, sdk.NewCoins(sdk.NewCoin("urise", sdkmath.NewInt(1000))))
	})
	if p2 != nil {
		return fmt.Sprintf("AllocateIncentive panics: %v", p2)
	}
	e.Note("AllocateIncentive at zero in-range liquidity: %v", err2)
	return ""
}

// S8: CreatePool validates nothing and is open to everybody; a first position of 1 quote : 10^35 base gives a sqrt
// price of 3e-18, whose multiplied price (9e-18) times the ratio 1.0001 rounds back to itself: the price->tick search
// of CalculateMultipliedPriceToTick never terminates (no gas is consumed in the loop).
func haltTickSearchLowPrice(e *Env, c *sim.Chain) string {
	a := c.Accs[1]
	if _, err, p := c.Exec(&lptypes.MsgCreatePool{Authority: a.Addr.String(), DenomBase: "uaaa", DenomQuote: "ubbb", FeeRate: "0.003", PriceRatio: "1.0001", BaseOffset: "0"}); err != nil || p != nil {
		return fmt.Sprintf("createPool %v %v", err, p)
	}
	base, _ := sdkmath.NewIntFromString("100000000000000000000000000000000000")
	_, err, p := c.Exec(&lptypes.MsgCreatePosition{Sender: a.Addr.String(), PoolId: 0, LowerTick: -100, UpperTick: 100,
		TokenBase: sdk.NewCoin("uaaa", base), TokenQuote: sdk.NewCoin("ubbb", sdkmath.NewInt(1)), MinAmountBase: sdkmath.ZeroInt(), MinAmountQuote: sdkmath.ZeroInt()})
	e.Note("createPosition returned: %v %v", err, p)
	return ""
}

// S8b: the search is linear in log(price)/log(ratio) and consumes no gas; CreatePool accepts any ratio, so a ratio of
// 1.000000000000000001 with an ordinary first position (price 4) needs ~1.4e18 iterations.
func haltTickSearchTinyRatio(e *Env, c *sim.Chain) string {
	a := c.Accs[1]
	if _, err, p := c.Exec(&lptypes.MsgCreatePool{Authority: a.Addr.String(), DenomBase: "uaaa", DenomQuote: "ubbb", FeeRate: "0.003", PriceRatio: "1.000000000000000001", BaseOffset: "0"}); err != nil || p != nil {
		return fmt.Sprintf("createPool %v %v", err, p)
	}
	_, err, p := c.Exec(&lptypes.MsgCreatePosition{Sender: a.Addr.String(), PoolId: 0, LowerTick: -100, UpperTick: 100,
		TokenBase: sdk.NewCoin("uaaa", sdkmath.NewInt(1_000_000)), TokenQuote: sdk.NewCoin("ubbb", sdkmath.NewInt(4_000_000)), MinAmountBase: sdkmath.ZeroInt(), MinAmountQuote: sdkmath.ZeroInt()})
	e.Note("createPosition returned: %v %v", err, p)
	return ""
}


// An item is under challenge when the chain is exported and re-imported (the custom modules' ExportGenesis -> JSON ->
// InitGenesis, as in an upgrade by genesis); the imported chain then runs past the proof deadline.  Whatever the export leaves
// out (C19), the tally of the re-imported item must not stop the chain.
func haltDAOpenChallengeAcrossImport(e *Env, c *sim.Chain) string {
	pub, ch := c.Accs[1].Addr.String(), c.Accs[2].Addr.String()
	hs := [][]byte{mimcHash(big.NewInt(11)), mimcHash(big.NewInt(12)), mimcHash(big.NewInt(13)), mimcHash(big.NewInt(14))}
	if _, err, p := c.Exec(&datypes.MsgPublishData{Sender: pub, MetadataUri: "ipfs://open", ParityShardCount: 1, ShardDoubleHashes: hs}); err != nil || p != nil {
		return fmt.Sprintf("setup publish: %v %v", err, p)
	}
	if _, err, p := c.Exec(&datypes.MsgSubmitInvalidity{Sender: ch, MetadataUri: "ipfs://open", Indices: []int64{0, 1, 2}}); err != nil || p != nil {
		return fmt.Sprintf("setup invalidity: %v %v", err, p)
	}
	if _, err := c.NextBlock(6 * time.Second); err != nil {
		return fmt.Sprintf("block before export: %v", err)
	}
	it, found, err := c.App.DaKeeper.GetPublishedData(c.Ctx(), "ipfs://open")
	if err != nil || !found || it.Status != datypes.Status_STATUS_CHALLENGING {
		return fmt.Sprintf("setup: item not under challenge (%v %v %v)", found, it.Status, err)
	}
	if err := roundTrip(c); err != nil {
		return fmt.Sprintf("export/import: %v", err)
	}
	par, _ := c.App.DaKeeper.Params.Get(c.Ctx())
	for _, dt := range []time.Duration{6 * time.Second, par.ProofPeriod + time.Minute, 6 * time.Second} {
		if _, err := c.NextBlock(dt); err != nil {
			return fmt.Sprintf("block dt=%s after import: %.300s", dt, err.Error())
		}
	}
	e.Stat("halt.da_import_open_challenge")
	return ""
}


// A non-voting undelegation names a recipient that the bank refuses to credit (a module account on the blocked list).  The
// message is accepted; the payment happens weeks later inside the share-class end-blocker.
func haltUnbondingToBlockedRecipient(e *Env, c *sim.Chain) string {
	a := c.Accs[1].Addr.String()
	val := c.Vals[0].Oper.String()
	if _, err, p := c.Exec(&sctypes.MsgNonVotingDelegate{Sender: a, ValidatorAddress: val, Amount: sdk.NewInt64Coin("urise", 5_000_000)}); err != nil || p != nil {
		return fmt.Sprintf("setup delegate: %v %v", err, p)
	}
	if _, err := c.NextBlock(6 * time.Second); err != nil {
		return fmt.Sprintf("block: %v", err)
	}
	accepted := 0
	for _, mod := range []string{"fee_collector", "distribution", "bonded_tokens_pool", "shareclass"} {
		rcpt := authtypes.NewModuleAddress(mod).String()
		_, err, p := c.Exec(&sctypes.MsgNonVotingUndelegate{Sender: a, ValidatorAddress: val, Amount: sdk.NewInt64Coin("urise", 1_000_000), Recipient: rcpt})
		if p != nil {
			return fmt.Sprintf("undelegate to %s panicked: %v", mod, p)
		}
		if err == nil {
			accepted++
			e.Stat("halt.blocked_recipient_accepted." + mod)
		}
	}
	e.Stat(fmt.Sprintf("halt.blocked_recipients_accepted.%d", accepted))
	for _, dt := range []time.Duration{6 * time.Second, 22 * 24 * time.Hour, 6 * time.Second} {
		if _, err := c.NextBlock(dt); err != nil {
			return fmt.Sprintf("block dt=%s: %.300s", dt, err.Error())
		}
	}
	return ""
}


// Governance sets a replication factor that Params.Validate accepts (any positive decimal) but whose product with the shard
// count does not fit an int64 / the decimal range; an item is then challenged and tallied.
func haltDALargeReplicationFactor(e *Env, c *sim.Chain) string {
	auth, _ := c.App.AuthKeeper.AddressCodec().BytesToString(c.App.DaKeeper.GetAuthority())
	pub, ch := c.Accs[1].Addr.String(), c.Accs[2].Addr.String()
	hs := [][]byte{mimcHash(big.NewInt(21)), mimcHash(big.NewInt(22)), mimcHash(big.NewInt(23)), mimcHash(big.NewInt(24))}
	for k, rf := range []string{"10000000000000000000", "100000000000000000000000000000000000000000000000000000000"} {
		par, _ := c.App.DaKeeper.Params.Get(c.Ctx())
		par.ReplicationFactor = rf
		if _, err, p := c.Exec(&datypes.MsgUpdateParams{Authority: auth, Params: par}); err != nil || p != nil {
			e.Stat("halt.large_rf_refused")
			continue
		}
		e.Stat("halt.large_rf_accepted")
		uri := fmt.Sprintf("ipfs://rf%d", k)
		if _, err, p := c.Exec(&datypes.MsgPublishData{Sender: pub, MetadataUri: uri, ParityShardCount: 1, ShardDoubleHashes: hs}); err != nil || p != nil {
			return fmt.Sprintf("publish under rf=%s: %v %v", rf, err, p)
		}
		if _, err, p := c.Exec(&datypes.MsgSubmitInvalidity{Sender: ch, MetadataUri: uri, Indices: []int64{0, 1, 2}}); err != nil || p != nil {
			return fmt.Sprintf("invalidity under rf=%s: %v %v", rf, err, p)
		}
		for _, dt := range []time.Duration{6 * time.Second, par.ProofPeriod + time.Minute, 6 * time.Second} {
			if _, err := c.NextBlock(dt); err != nil {
				return fmt.Sprintf("rf=%s block dt=%s: %.300s", rf, dt, err.Error())
			}
		}
	}
	return ""
}
