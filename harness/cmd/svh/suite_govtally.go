package main

// C16 — governance tally with non-voting (share-class) stake.
//
// Every history builds a fresh chain with several validators, creates a delegation graph with REAL messages
// (staking MsgDelegate / MsgUndelegate, shareclass MsgNonVotingDelegate, slashes and jailing through the staking
// keeper), submits a REAL proposal, casts REAL votes (MsgVote / MsgVoteWeighted; the share-class module account's vote
// is written directly into the gov store because a module account cannot sign), and at several points calls
//   (a) the custom tally function of app/gov/gov.go directly (same provider + same keepers app.go wires through
//       depinject) on a discarded branch of state — return values are the observation the Lean model must reproduce;
//   (b) GovKeeper.Tally (the installed function) on another discarded branch — must agree with (a);
// and finally lets the voting period end through real blocks (gov EndBlocker).
//
// Oracles are computed with exact rationals from queried staking/gov state only.

import (
	"errors"
	"fmt"
	"math/big"
	"sort"
	"strings"
	"time"

	"encoding/json"

	"cosmossdk.io/collections"
	sdkmath "cosmossdk.io/math"
	govkeeper "cosmossdk.io/x/gov/keeper"
	govv1 "cosmossdk.io/x/gov/types/v1"
	stakingtypes "cosmossdk.io/x/staking/types"
	sdk "github.com/cosmos/cosmos-sdk/types"
	authtypes "github.com/cosmos/cosmos-sdk/x/auth/types"

	appgov "github.com/sunriselayer/sunrise/app/gov"
	sctypes "github.com/sunriselayer/sunrise/x/shareclass/types"

	"svh/sim"
)

func init() { register("govtally", suiteGovTally) }

const gtSC = "module:shareclass"

var errDiscard = errors.New("discard")

type gtVal struct {
	name   string
	tokens sdkmath.Int
	shares sdkmath.LegacyDec
}
type gtDel struct {
	del, val string
	shares   sdkmath.LegacyDec
}
type gtOpt struct {
	opt int
	w   sdkmath.LegacyDec
}
type gtVote struct {
	voter string
	opts  []gtOpt
}
type gtSnap struct {
	vals     []gtVal
	dels     []gtDel // delegations of the share-class account and of every voter, in IterateDelegations order
	votes    []gtVote
	bonded   sdkmath.Int
	scBonded sdkmath.Int // staking GetDelegatorBonded(shareclass) — what the ORIGINAL code used
}

type gtRes struct {
	cls   string
	total sdkmath.LegacyDec
	opts  [5]sdkmath.LegacyDec
}

func (r gtRes) String() string {
	if r.cls != "ok" {
		return r.cls
	}
	return fmt.Sprintf("ok %s %s %s %s %s %s", r.total.BigInt(), r.opts[0].BigInt(), r.opts[1].BigInt(), r.opts[2].BigInt(), r.opts[3].BigInt(), r.opts[4].BigInt())
}

type gtHist struct {
	e     *Env
	c     *sim.Chain
	sc    sdk.AccAddress
	names map[string]string // bech32 acc address or valoper address -> name
	pid   uint64
	nv    int
	fn    govkeeper.CalculateVoteResultsAndVotingPowerFn
}

func (h *gtHist) name(addr string) string {
	if n, ok := h.names[addr]; ok {
		return n
	}
	return "unknown:" + addr
}

func (h *gtHist) snapshot() gtSnap {
	c := h.c
	ctx := c.Ctx()
	var s gtSnap
	_ = c.App.StakingKeeper.IterateBondedValidatorsByPower(ctx, func(_ int64, v sdk.ValidatorI) bool {
		s.vals = append(s.vals, gtVal{h.name(v.GetOperator()), v.GetBondedTokens(), v.GetDelegatorShares()})
		return false
	})
	sort.Slice(s.vals, func(i, j int) bool { return s.vals[i].name < s.vals[j].name })
	addDels := func(a sdk.AccAddress, nm string) {
		_ = c.App.StakingKeeper.IterateDelegations(ctx, a, func(_ int64, d sdk.DelegationI) bool {
			s.dels = append(s.dels, gtDel{nm, h.name(d.GetValidatorAddr()), d.GetShares()})
			return false
		})
	}
	addDels(h.sc, gtSC)
	rng := collections.NewPrefixedPairRange[uint64, sdk.AccAddress](h.pid)
	_ = c.App.GovKeeper.Votes.Walk(ctx, rng, func(key collections.Pair[uint64, sdk.AccAddress], vote govv1.Vote) (bool, error) {
		nm := h.name(vote.Voter)
		gv := gtVote{voter: nm}
		for _, o := range vote.Options {
			gv.opts = append(gv.opts, gtOpt{int(o.Option), sdkmath.LegacyMustNewDecFromStr(o.Weight)})
		}
		s.votes = append(s.votes, gv)
		if nm != gtSC {
			addDels(key.K2(), nm)
		}
		return false, nil
	})
	s.bonded, _ = c.App.StakingKeeper.TotalBondedTokens(ctx)
	s.scBonded, _ = c.App.StakingKeeper.GetDelegatorBonded(ctx, h.sc)
	return s
}

func (s gtSnap) line() string {
	var vs, ds, vo []string
	for _, v := range s.vals {
		vs = append(vs, fmt.Sprintf("%s:%s:%s", v.name, v.tokens, v.shares.BigInt()))
	}
	for _, d := range s.dels {
		ds = append(ds, fmt.Sprintf("%s:%s:%s", d.del, d.val, d.shares.BigInt()))
	}
	for _, v := range s.votes {
		var os []string
		for _, o := range v.opts {
			os = append(os, fmt.Sprintf("%d/%s", o.opt, o.w.BigInt()))
		}
		vo = append(vo, v.voter+":"+strings.Join(os, "+"))
	}
	return fmt.Sprintf("sc=%s bonded=%s vals=%s dels=%s votes=%s", gtSC, s.bonded, strings.Join(vs, ","), strings.Join(ds, ","), strings.Join(vo, ","))
}

// direct call of the custom function on a discarded branch; `pre` may edit the branch first (e.g. toggle a vote)
func (h *gtHist) direct(pre func(ctx sdk.Context) error) gtRes {
	c := h.c
	var out gtRes
	err, p := c.Call(func(ctx sdk.Context) error {
		if pre != nil {
			if err := pre(ctx); err != nil {
				return err
			}
		}
		// as x/gov keeper.getCurrentValidators
		validators := map[string]govv1.ValidatorGovInfo{}
		if err := c.App.StakingKeeper.IterateBondedValidatorsByPower(ctx, func(_ int64, v sdk.ValidatorI) bool {
			bz, err := c.App.StakingKeeper.ValidatorAddressCodec().StringToBytes(v.GetOperator())
			if err != nil {
				return false
			}
			validators[v.GetOperator()] = govv1.NewValidatorGovInfo(bz, v.GetBondedTokens(), v.GetDelegatorShares(), sdkmath.LegacyZeroDec(), govv1.WeightedVoteOptions{})
			return false
		}); err != nil {
			return err
		}
		// ONE function value per history, as in the application (it is provided once at start-up and used for every tally):
		// whatever a tally leaves behind in the closure would be seen by the next one
		if h.fn == nil {
			h.fn = appgov.ProvideCalculateVoteResultsAndVotingPowerFn(c.App.AuthKeeper, c.App.StakingKeeper)
		}
		fn := h.fn
		tv, res, err := fn(ctx, *c.App.GovKeeper, h.pid, validators)
		if err != nil {
			return err
		}
		out.total = tv
		for i := 0; i < 5; i++ {
			out.opts[i] = res[govv1.VoteOption(i+1)]
		}
		// all votes of the proposal must be gone
		left := 0
		rng := collections.NewPrefixedPairRange[uint64, sdk.AccAddress](h.pid)
		_ = c.App.GovKeeper.Votes.Walk(ctx, rng, func(collections.Pair[uint64, sdk.AccAddress], govv1.Vote) (bool, error) { left++; return false, nil })
		if left != 0 {
			return fmt.Errorf("votes left in store: %d", left)
		}
		return errDiscard
	})
	switch {
	case p != nil:
		out.cls = "panic"
	case errors.Is(err, errDiscard):
		out.cls = "ok"
	default:
		out.cls = "err"
	}
	return out
}

type gtKeeperTally struct {
	cls          string
	passes, burn bool
	tr           govv1.TallyResult
}

func (h *gtHist) keeperTally() gtKeeperTally {
	c := h.c
	var out gtKeeperTally
	err, p := c.Call(func(ctx sdk.Context) error {
		prop, err := c.App.GovKeeper.Proposals.Get(ctx, h.pid)
		if err != nil {
			return err
		}
		out.passes, out.burn, out.tr, err = c.App.GovKeeper.Tally(ctx, prop)
		if err != nil {
			return err
		}
		return errDiscard
	})
	switch {
	case p != nil:
		out.cls = "panic"
	case errors.Is(err, errDiscard):
		out.cls = "ok"
	default:
		out.cls = "err"
	}
	return out
}

// ---------------------------------------------------------------- exact-rational reference (property predicate)

func ratDec(d sdkmath.LegacyDec) *big.Rat {
	return new(big.Rat).SetFrac(d.BigInt(), new(big.Int).Exp(big.NewInt(10), big.NewInt(18), nil))
}
func ratInt(i sdkmath.Int) *big.Rat { return new(big.Rat).SetInt(i.BigInt()) }

type gtRef struct {
	opts     [5]*big.Rat
	voted    *big.Rat // voting power that voted (own stake of voters + inherited stake of voting validators), non-voting stake removed
	nvBonded *big.Rat // share-class stake on bonded validators, in tokens
	bonded   *big.Rat
	terms    int
}

// tally on the delegation graph with the share-class delegations REMOVED and share-class votes ignored
func (s gtSnap) reference() gtRef { return s.referenceOf(true) }

// removeSC=false: what the SDK's DEFAULT tally computes (share-class stake inherited by the validator, its vote counted)
func (s gtSnap) referenceOf(removeSC bool) gtRef {
	r := gtRef{voted: new(big.Rat), nvBonded: new(big.Rat), bonded: ratInt(s.bonded)}
	for i := range r.opts {
		r.opts[i] = new(big.Rat)
	}
	type vinfo struct {
		tok, sh, ded, sc *big.Rat
		vote            []gtOpt
	}
	vals := map[string]*vinfo{}
	for _, v := range s.vals {
		vals[v.name] = &vinfo{tok: ratInt(v.tokens), sh: ratDec(v.shares), ded: new(big.Rat), sc: new(big.Rat)}
	}
	power := func(v *vinfo, shares *big.Rat) *big.Rat {
		x := new(big.Rat).Mul(shares, v.tok)
		return x.Quo(x, v.sh)
	}
	add := func(opts []gtOpt, vp *big.Rat) {
		for _, o := range opts {
			if o.opt >= 1 && o.opt <= 5 {
				r.opts[o.opt-1].Add(r.opts[o.opt-1], new(big.Rat).Mul(vp, ratDec(o.w)))
			}
		}
		r.voted.Add(r.voted, vp)
		r.terms++
	}
	for _, d := range s.dels {
		if d.del == gtSC && removeSC {
			if v, ok := vals[d.val]; ok && v.sh.Sign() != 0 {
				v.sc.Add(v.sc, ratDec(d.shares))
				r.nvBonded.Add(r.nvBonded, power(v, ratDec(d.shares)))
			}
		}
	}
	for _, vt := range s.votes {
		if vt.voter == gtSC && removeSC {
			continue
		}
		if v, ok := vals[vt.voter]; ok {
			v.vote = vt.opts
		}
		for _, d := range s.dels {
			if d.del != vt.voter {
				continue
			}
			if v, ok := vals[d.val]; ok && v.sh.Sign() != 0 {
				v.ded.Add(v.ded, ratDec(d.shares))
				add(vt.opts, power(v, ratDec(d.shares)))
			}
		}
	}
	for _, v := range vals {
		if len(v.vote) == 0 || v.sh.Sign() == 0 {
			continue
		}
		rest := new(big.Rat).Sub(v.sh, v.sc)
		rest.Sub(rest, v.ded)
		add(v.vote, power(v, rest))
	}
	return r
}

func (r gtRef) turnout() *big.Rat {
	den := new(big.Rat).Sub(r.bonded, r.nvBonded)
	if den.Sign() <= 0 {
		return new(big.Rat).Set(r.voted)
	}
	x := new(big.Rat).Mul(r.voted, r.bonded)
	return x.Quo(x, den)
}

var gtUlp = big.NewRat(1, 1_000_000_000_000_000_000)

func within(a, b, tol *big.Rat) bool {
	d := new(big.Rat).Sub(a, b)
	d.Abs(d)
	return d.Cmp(tol) <= 0
}

func (r gtRef) tolOpts() *big.Rat {
	return new(big.Rat).Mul(gtUlp, big.NewRat(int64(2*r.terms+2), 1))
}
func (r gtRef) tolTurnout() *big.Rat {
	den := new(big.Rat).Sub(r.bonded, r.nvBonded)
	t := r.tolOpts()
	if den.Sign() <= 0 {
		return t
	}
	f1 := new(big.Rat).Quo(r.bonded, den)
	f1.Add(f1, big.NewRat(1, 1))
	f2 := new(big.Rat).Quo(r.voted, den)
	f2.Add(f2, big.NewRat(1, 1))
	t.Mul(t, f1)
	t.Mul(t, f2)
	// the non-voting amount may be rounded to whole tokens by the staking keeper (≤ 1/2 token + 1 ulp per delegation)
	return t
}

// nvClass: share of bonded stake that is non-voting, as a coarse class for statistics / known-finding features
func (r gtRef) nvClass() string {
	if r.bonded.Sign() == 0 {
		return "nobond"
	}
	if r.nvBonded.Sign() == 0 {
		return "0"
	}
	if r.nvBonded.Cmp(r.bonded) >= 0 {
		return "100"
	}
	x := new(big.Rat).Quo(r.nvBonded, r.bonded)
	switch {
	case x.Cmp(big.NewRat(1, 4)) < 0:
		return "lt25"
	case x.Cmp(big.NewRat(1, 2)) < 0:
		return "lt50"
	case x.Cmp(big.NewRat(3, 4)) < 0:
		return "lt75"
	default:
		return "lt100"
	}
}

// expected outcome of a STANDARD proposal on the graph with the non-voting stake removed (x/gov tallyStandard with
// default params, exact arithmetic): "pass" | "reject" | "unclear" (some comparison closer than 1e-9)
func (r gtRef) outcome(quorum, threshold, veto *big.Rat) string {
	eps := big.NewRat(1, 1_000_000_000)
	near := func(a, b *big.Rat) bool { return within(a, b, eps) }
	others := new(big.Rat)
	for i := 0; i < 4; i++ {
		others.Add(others, r.opts[i])
	}
	if r.voted.Sign() == 0 {
		return "reject"
	}
	if near(r.opts[4], others) {
		return "unclear"
	}
	if r.opts[4].Cmp(others) >= 0 {
		return "reject"
	}
	den := new(big.Rat).Sub(r.bonded, r.nvBonded)
	if den.Sign() <= 0 {
		return "reject"
	}
	part := new(big.Rat).Quo(r.voted, den)
	if near(part, quorum) {
		return "unclear"
	}
	if part.Cmp(quorum) < 0 {
		return "reject"
	}
	nonAbstain := new(big.Rat).Sub(r.voted, r.opts[1])
	if near(nonAbstain, new(big.Rat)) {
		if nonAbstain.Sign() == 0 {
			return "reject"
		}
		return "unclear"
	}
	vs := new(big.Rat).Quo(r.opts[3], r.voted)
	if near(vs, veto) {
		return "unclear"
	}
	if vs.Cmp(veto) > 0 {
		return "reject"
	}
	ys := new(big.Rat).Quo(r.opts[0], nonAbstain)
	if near(ys, threshold) {
		return "unclear"
	}
	if ys.Cmp(threshold) > 0 {
		return "pass"
	}
	return "reject"
}

// ---------------------------------------------------------------- one tally point: trace + oracles

func (h *gtHist) tallyPoint(tag string) (gtRes, gtRef) {
	e := h.e
	s := h.snapshot()
	ref := s.reference()
	e.In("tally %s", s.line())
	res := h.direct(nil)
	e.Obs("%s", res.String())
	e.Stat("tally." + res.cls)
	e.Stat("nv." + ref.nvClass())
	e.Stat(fmt.Sprintf("vals.%d", len(s.vals)))
	info := fmt.Sprintf("%s nv=%s bonded=%s nvBonded=%s scBondedKeeper=%s voted=%s", tag, ref.nvClass(), s.bonded, ref.nvBonded.FloatString(6), s.scBonded, ref.voted.FloatString(6))
	e.Oracle("no_panic", res.cls != "panic", "custom tally %s", info)
	if res.cls != "ok" {
		if res.cls == "err" {
			e.Oracle("no_error", false, "custom tally returned an error %s", info)
		}
		return res, ref
	}
	okOpts := true
	for i := 0; i < 5; i++ {
		if !within(ratDec(res.opts[i]), ref.opts[i], ref.tolOpts()) {
			okOpts = false
		}
	}
	e.Oracle("nonvoting_adds_nothing", okOpts, "%s got=%s,%s,%s,%s,%s want=%s,%s,%s,%s,%s", info,
		res.opts[0], res.opts[1], res.opts[2], res.opts[3], res.opts[4],
		ref.opts[0].FloatString(18), ref.opts[1].FloatString(18), ref.opts[2].FloatString(18), ref.opts[3].FloatString(18), ref.opts[4].FloatString(18))
	want := ref.turnout()
	e.Oracle("turnout_formula", within(ratDec(res.total), want, ref.tolTurnout()), "%s got=%s want=%s", info, res.total, want.FloatString(18))
	// share-class vote toggled: present -> removed, absent -> added; nothing may change
	hasSC := false
	for _, v := range s.votes {
		if v.voter == gtSC {
			hasSC = true
		}
	}
	opt := govv1.VoteOption(1 + e.R.N(5))
	res2 := h.direct(func(ctx sdk.Context) error {
		key := collections.Join(h.pid, h.sc)
		if hasSC {
			return h.c.App.GovKeeper.Votes.Remove(ctx, key)
		}
		return h.c.App.GovKeeper.Votes.Set(ctx, key, govv1.NewVote(h.pid, h.sc.String(), govv1.NewNonSplitVoteOption(opt), ""))
	})
	e.Oracle("shareclass_vote_discarded", res2.String() == res.String(), "%s scVotePresent=%v with=%s toggled=%s", info, hasSC, res.String(), res2.String())
	if hasSC {
		e.Stat("scvote.present")
	}
	// the function installed in the gov keeper gives the same option totals
	kt := h.keeperTally()
	e.Oracle("no_panic", kt.cls != "panic", "GovKeeper.Tally %s", info)
	if kt.cls == "ok" {
		same := kt.tr.YesCount == res.opts[0].TruncateInt().String() && kt.tr.AbstainCount == res.opts[1].TruncateInt().String() &&
			kt.tr.NoCount == res.opts[2].TruncateInt().String() && kt.tr.NoWithVetoCount == res.opts[3].TruncateInt().String() &&
			kt.tr.SpamCount == res.opts[4].TruncateInt().String()
		cls := "other"
		if !same {
			def := s.referenceOf(false)
			near := func(got string, want *big.Rat) bool {
				g, ok := new(big.Rat).SetString(got)
				return ok && within(g, want, big.NewRat(2, 1))
			}
			if near(kt.tr.YesCount, def.opts[0]) && near(kt.tr.AbstainCount, def.opts[1]) && near(kt.tr.NoCount, def.opts[2]) && near(kt.tr.NoWithVetoCount, def.opts[3]) && near(kt.tr.SpamCount, def.opts[4]) {
				cls = "default_fn_installed"
			}
		}
		e.Oracle("installed_fn_same", same, "%s class=%s keeper=%v direct=%s", info, cls, kt.tr, res.String())
	}
	return res, ref
}

// ---------------------------------------------------------------- history generator

func gtWeights(r *Rng, k int) []sdkmath.LegacyDec {
	// k positive weights with 18 decimals summing to exactly 1
	one := new(big.Int).Exp(big.NewInt(10), big.NewInt(18), nil)
	cuts := []*big.Int{big.NewInt(0), one}
	for len(cuts) < k+1 {
		var c *big.Int
		switch r.N(3) {
		case 0:
			c = new(big.Int).Mul(big.NewInt(int64(1+r.N(99))), new(big.Int).Exp(big.NewInt(10), big.NewInt(16), nil))
		case 1:
			c = new(big.Int).Div(one, big.NewInt(int64(2+r.N(7))))
		default:
			c = new(big.Int).Mod(new(big.Int).SetUint64(r.Next()), one)
		}
		dup := c.Sign() == 0
		for _, x := range cuts {
			if x.Cmp(c) == 0 {
				dup = true
			}
		}
		if !dup {
			cuts = append(cuts, c)
		}
	}
	sort.Slice(cuts, func(i, j int) bool { return cuts[i].Cmp(cuts[j]) < 0 })
	var ws []sdkmath.LegacyDec
	for i := 1; i < len(cuts); i++ {
		ws = append(ws, sdkmath.LegacyNewDecFromBigIntWithPrec(new(big.Int).Sub(cuts[i], cuts[i-1]), 18))
	}
	return ws
}

func (h *gtHist) randVote(i int) {
	e, c := h.e, h.c
	voter := c.Accs[i].Addr.String()
	var msg sdk.Msg
	if e.R.N(3) == 0 {
		k := 2 + e.R.N(3)
		ws := gtWeights(e.R, k)
		perm := []int{1, 2, 3, 4, 5}
		for a := 4; a > 0; a-- {
			b := e.R.N(a + 1)
			perm[a], perm[b] = perm[b], perm[a]
		}
		var opts govv1.WeightedVoteOptions
		for j := 0; j < k; j++ {
			opts = append(opts, govv1.NewWeightedVoteOption(govv1.VoteOption(perm[j]), ws[j]))
		}
		msg = govv1.NewMsgVoteWeighted(voter, h.pid, opts, "")
		e.Stat("op.voteWeighted")
	} else {
		// yes-heavy so that proposals also pass
		o := []govv1.VoteOption{1, 1, 1, 1, 2, 3, 3, 4, 5}[e.R.N(9)]
		msg = govv1.NewMsgVote(voter, h.pid, o, "")
		e.Stat("op.vote")
	}
	_, err, p := c.Exec(msg)
	e.Note("vote a%d -> %s", i, class(err, p))
	e.Oracle("no_panic", p == nil, "Msg/Vote a%d", i)
}

func (h *gtHist) scVote() {
	e, c := h.e, h.c
	var opts govv1.WeightedVoteOptions
	if e.R.Bool() {
		opts = govv1.NewNonSplitVoteOption(govv1.VoteOption(1 + e.R.N(5)))
	} else {
		ws := gtWeights(e.R, 2)
		opts = govv1.WeightedVoteOptions{govv1.NewWeightedVoteOption(1, ws[0]), govv1.NewWeightedVoteOption(govv1.VoteOption(2+e.R.N(4)), ws[1])}
	}
	err, p := c.Call(func(ctx sdk.Context) error {
		return c.App.GovKeeper.Votes.Set(ctx, collections.Join(h.pid, h.sc), govv1.NewVote(h.pid, h.sc.String(), opts, ""))
	})
	e.Note("vote %s (written to the store) -> %s", gtSC, class(err, p))
	e.Stat("op.scVote")
}

func (h *gtHist) amount() sdkmath.Int {
	e := h.e
	switch e.R.N(5) {
	case 0:
		return sdkmath.NewInt(int64(1 + e.R.N(3)))
	case 1:
		return sdkmath.NewInt(1_000_000).MulRaw(int64(1 + e.R.N(200)))
	default:
		return sdkmath.NewIntFromBigInt(e.R.Big(11))
	}
}

func (h *gtHist) delegate(i, j int, amt sdkmath.Int) {
	c := h.c
	_, err, p := c.Exec(&stakingtypes.MsgDelegate{DelegatorAddress: c.Accs[i].Addr.String(), ValidatorAddress: c.Vals[j].Oper.String(), Amount: sdk.NewCoin("uvrise", amt)})
	h.e.Note("delegate a%d -> v%d %s: %s", i, j, amt, class(err, p))
	h.e.Stat("op.delegate." + class(err, p))
}

// delegation shares of `del` at validator j (zero when there is none)
func (h *gtHist) sharesOf(del sdk.AccAddress, j int) sdkmath.LegacyDec {
	d, err := h.c.App.StakingKeeper.Delegations.Get(h.c.Ctx(), collections.Join(del, h.c.Vals[j].Oper))
	if err != nil {
		return sdkmath.LegacyZeroDec()
	}
	return d.Shares
}

func (h *gtHist) nonVoting(i, j int, amt sdkmath.Int) {
	c := h.c
	own0, mod0 := h.sharesOf(c.Accs[i].Addr, j), h.sharesOf(h.sc, j)
	_, err, p := c.Exec(&sctypes.MsgNonVotingDelegate{Sender: c.Accs[i].Addr.String(), ValidatorAddress: c.Vals[j].Oper.String(), Amount: sdk.NewCoin("urise", amt)})
	h.e.Note("nonVotingDelegate a%d -> v%d %s: %s %v", i, j, amt, class(err, p), err)
	h.e.Stat("op.nonVotingDelegate." + class(err, p))
	h.e.Oracle("no_panic", p == nil, "Msg/NonVotingDelegate")
	if err == nil && p == nil {
		// non-voting stake is stake of the share-class account, whoever delegates (also a validator operator to its own
		// validator): the sender's own (voting) delegation must not grow
		own1, mod1 := h.sharesOf(c.Accs[i].Addr, j), h.sharesOf(h.sc, j)
		if i == j {
			h.e.Stat("op.nonVotingDelegate.operator_to_own_validator")
		}
		h.e.Oracle("nonvoting_held_by_share_class", own1.Equal(own0) && mod1.GT(mod0), "a%d -> v%d %s: sender's own shares %s -> %s, share-class shares %s -> %s", i, j, amt, own0, own1, mod0, mod1)
	}
}

func (h *gtHist) undelegate(i, j int, all bool) {
	c := h.c
	d, err := c.App.StakingKeeper.Delegations.Get(c.Ctx(), collections.Join(sdk.AccAddress(c.Accs[i].Addr), c.Vals[j].Oper))
	if err != nil {
		return
	}
	v, err := c.App.StakingKeeper.GetValidator(c.Ctx(), c.Vals[j].Oper)
	if err != nil {
		return
	}
	amt := v.TokensFromShares(d.Shares).TruncateInt()
	if !all && amt.GT(sdkmath.OneInt()) {
		amt = amt.QuoRaw(int64(2 + h.e.R.N(3)))
	}
	if !amt.IsPositive() {
		return
	}
	_, err, p := c.Exec(&stakingtypes.MsgUndelegate{DelegatorAddress: c.Accs[i].Addr.String(), ValidatorAddress: c.Vals[j].Oper.String(), Amount: sdk.NewCoin("uvrise", amt)})
	h.e.Note("undelegate a%d -> v%d %s: %s %v", i, j, amt, class(err, p), err)
	h.e.Stat("op.undelegate." + class(err, p))
}

func (h *gtHist) slash(j int) {
	c := h.c
	fr := []string{"0.01", "0.05", "0.333333333333333333", "0.5", "0.000001"}[h.e.R.N(5)]
	v, err := c.App.StakingKeeper.GetValidator(c.Ctx(), c.Vals[j].Oper)
	if err != nil || !v.IsBonded() {
		return
	}
	power := v.ConsensusPower(sdk.DefaultPowerReduction)
	err, p := c.Call(func(ctx sdk.Context) error {
		_, err := c.App.StakingKeeper.Slash(ctx, c.Vals[j].Cons, c.Height, power, sdkmath.LegacyMustNewDecFromStr(fr))
		return err
	})
	h.e.Note("slash v%d %s: %s %v", j, fr, class(err, p), err)
	h.e.Stat("op.slash." + class(err, p))
}

func (h *gtHist) bondedCount() int {
	n := 0
	_ = h.c.App.StakingKeeper.IterateBondedValidatorsByPower(h.c.Ctx(), func(int64, sdk.ValidatorI) bool { n++; return false })
	return n
}

func (h *gtHist) jail(j int) {
	c := h.c
	v, err := c.App.StakingKeeper.GetValidator(c.Ctx(), c.Vals[j].Oper)
	if err != nil || !v.IsBonded() || v.Jailed || h.bondedCount() < 2 {
		return
	}
	err, p := c.Call(func(ctx sdk.Context) error { return c.App.StakingKeeper.Jail(ctx, c.Vals[j].Cons) })
	h.e.Note("jail v%d: %s %v", j, class(err, p), err)
	h.e.Stat("op.jail." + class(err, p))
	h.block(1e9)
}

func (h *gtHist) block(dt time.Duration) bool {
	if _, err := h.c.NextBlock(dt); err != nil {
		h.e.Note("halt: %v", err)
		return false
	}
	return true
}

const gtVotingPeriod = 600 * time.Second

func gtGenesisMut(_ sim.Codec, gs map[string]json.RawMessage) {
	var g map[string]any
	if err := json.Unmarshal(gs["gov"], &g); err != nil {
		panic(err)
	}
	p := g["params"].(map[string]any)
	p["voting_period"] = "600s"
	p["expedited_voting_period"] = "300s"
	bz, err := json.Marshal(g)
	if err != nil {
		panic(err)
	}
	gs["gov"] = bz
}

func suiteGovTally(e *Env) {
	for n := 0; n < e.N; n++ {
		gtHistory(e, n)
	}
}

func gtHistory(e *Env, n int) {
	// scenario: 0 = the 50 % witness, 1 = all stake non-voting, 2 = non-voting stake on a jailed validator, else random
	scen := n % 8
	if scen > 2 {
		scen = 3 + e.R.N(3)
	}
	cfg := sim.DefaultConfig()
	nv := 1 + e.R.N(4)
	if scen == 0 {
		nv = 1
	}
	if scen == 2 && nv < 2 {
		nv = 2
	}
	cfg.ValPowers = nil
	for i := 0; i < nv; i++ {
		cfg.ValPowers = append(cfg.ValPowers, []int64{1, 3, 10, 100, 1000, 25000}[e.R.N(6)])
	}
	cfg.NumAccs = nv + 3
	cfg.GenesisMut = gtGenesisMut
	c, err := sim.New(cfg)
	if err != nil {
		e.Obs("setup-error %v", err)
		return
	}
	h := &gtHist{e: e, c: c, sc: authtypes.NewModuleAddress(sctypes.ModuleName), names: map[string]string{}, nv: nv}
	h.names[h.sc.String()] = gtSC
	for i, a := range c.Accs {
		h.names[a.Addr.String()] = fmt.Sprintf("a%d", i)
		h.names[sdk.ValAddress(a.Addr).String()] = fmt.Sprintf("a%d", i)
	}
	e.In("reset scen=%d vals=%d accs=%d", scen, nv, cfg.NumAccs)
	e.Stat(fmt.Sprintf("scenario.%d", scen))

	self := func(j int) sdkmath.Int { return sdkmath.NewInt(cfg.ValPowers[j]).MulRaw(1_000_000) }
	// ---- delegation graph
	switch scen {
	case 0: // one validator, non-voting stake = self stake
		h.nonVoting(1, 0, self(0))
	case 1: // every validator: non-voting stake, then the whole self-delegation leaves
		for j := 0; j < nv; j++ {
			h.nonVoting(nv+e.R.N(3), j, sdkmath.NewInt(1_000_000).MulRaw(int64(1+e.R.N(200))))
		}
		for j := 0; j < nv; j++ {
			h.undelegate(j, j, true)
		}
	case 2:
		for j := 0; j < nv; j++ {
			if j == 0 || e.R.Bool() {
				h.nonVoting(nv+e.R.N(3), j, self(j).MulRaw(int64(1+e.R.N(3))))
			}
		}
	default:
		k := 2 + e.R.N(8)
		if e.R.N(2) == 0 { // a validator operator puts non-voting stake on its own validator
			j := e.R.N(nv)
			h.nonVoting(j, j, h.amount())
		}
		for x := 0; x < k; x++ {
			i, j := e.R.N(len(c.Accs)), e.R.N(nv)
			switch e.R.N(7) {
			case 0, 1:
				h.delegate(i, j, h.amount())
			case 2, 3:
				// non-voting stake from a dust amount to a multiple of the validator's stake
				amt := h.amount()
				if e.R.N(3) == 0 {
					amt = self(j).MulRaw(int64(1 + e.R.N(20)))
				}
				h.nonVoting(i, j, amt)
			case 4:
				h.slash(j)
			case 5:
				h.undelegate(i, j, e.R.N(3) == 0)
			case 6:
				h.undelegate(j, j, e.R.N(2) == 0)
			}
		}
	}
	if !h.block(6e9) {
		e.Oracle("no_halt", false, "block after building the delegation graph")
		return
	}
	if scen == 2 {
		h.jail(0)
	} else if scen >= 3 && e.R.N(4) == 0 {
		h.jail(e.R.N(nv))
	}

	// ---- proposal (standard, text only), deposit = min deposit so that the voting period starts
	params, _ := c.App.GovKeeper.Params.Get(c.Ctx())
	prop := nv + e.R.N(3)
	msg, _ := govv1.NewMsgSubmitProposal(nil, sdk.NewCoins(params.MinDeposit...), c.Accs[prop].Addr.String(), "m", "t", "s", govv1.ProposalType_PROPOSAL_TYPE_STANDARD)
	resp, err, p := c.Exec(msg)
	if err != nil || p != nil {
		e.Note("submit proposal failed: %v %v", err, p)
		e.Oracle("setup", false, "submit proposal: %v", err)
		return
	}
	h.pid = resp.(*govv1.MsgSubmitProposalResponse).ProposalId
	pr, _ := c.App.GovKeeper.Proposals.Get(c.Ctx(), h.pid)
	if pr.Status != govv1.StatusVotingPeriod {
		e.Oracle("setup", false, "proposal not in voting period: %s", pr.Status)
		return
	}

	// ---- votes and tally points
	points := 2 + e.R.N(3)
	for pt := 0; pt < points; pt++ {
		if scen == 0 {
			// everybody votes yes
			for i := range c.Accs {
				_, _, _ = c.Exec(govv1.NewMsgVote(c.Accs[i].Addr.String(), h.pid, govv1.OptionYes, ""))
			}
		} else {
			k := 1 + e.R.N(len(c.Accs))
			for x := 0; x < k; x++ {
				h.randVote(e.R.N(len(c.Accs)))
			}
			if e.R.N(3) == 0 {
				h.scVote()
			}
		}
		jailedNow := false
		if scen >= 2 && pt == 1 && e.R.N(2) == 0 {
			// a validator is jailed in the SAME block in which the tally runs (evidence / downtime handled in begin-block, the gov
			// end-blocker runs before staking's): it has left the power index, its tokens are still in the bonded pool
			j := e.R.N(nv)
			if v, err := c.App.StakingKeeper.GetValidator(c.Ctx(), c.Vals[j].Oper); err == nil && v.IsBonded() && !v.Jailed && h.bondedCount() >= 2 {
				err, p := c.Call(func(ctx sdk.Context) error { return c.App.StakingKeeper.Jail(ctx, c.Vals[j].Cons) })
				e.Note("jail v%d without a block: %s %v", j, class(err, p), err)
				e.Stat("op.jail_same_block." + class(err, p))
				jailedNow = err == nil && p == nil
			}
		}
		h.tallyPoint(fmt.Sprintf("scen=%d point=%d", scen, pt))
		if jailedNow && !h.block(1e9) {
			e.Oracle("no_halt", false, "block after a same-block jailing")
			return
		}
		// graph changes during the voting period
		if scen >= 3 && e.R.N(2) == 0 {
			i, j := e.R.N(len(c.Accs)), e.R.N(nv)
			switch e.R.N(4) {
			case 0:
				h.delegate(i, j, h.amount())
			case 1:
				h.nonVoting(i, j, h.amount())
			case 2:
				h.slash(j)
			case 3:
				h.undelegate(i, j, false)
			}
			if !h.block(6e9) {
				e.Oracle("no_halt", false, "block during the voting period")
				return
			}
		}
	}

	// ---- end of the voting period through real blocks
	s := h.snapshot()
	ref := s.reference()
	e.In("tally %s", s.line())
	res := h.direct(nil)
	e.Obs("%s", res.String())
	kt := h.keeperTally()
	info := fmt.Sprintf("scen=%d final nv=%s", scen, ref.nvClass())
	e.Oracle("no_panic", res.cls != "panic" && kt.cls != "panic", "final tally %s", info)
	ok := h.block(gtVotingPeriod + time.Second)
	e.Oracle("no_halt", ok, "gov EndBlocker at the end of the voting period %s halted=%q", info, c.Halted)
	if !ok {
		return
	}
	pr, err = c.App.GovKeeper.Proposals.Get(c.Ctx(), h.pid)
	if err != nil {
		e.Oracle("end_outcome", false, "proposal vanished: %v", err)
		return
	}
	got := "reject"
	if pr.Status == govv1.StatusPassed {
		got = "pass"
	}
	e.Stat("end." + got)
	if kt.cls == "ok" {
		want := "reject"
		if kt.passes {
			want = "pass"
		}
		e.Oracle("end_matches_tally", got == want, "%s status=%s tally.passes=%v", info, pr.Status, kt.passes)
	}
	q, _ := sdkmath.LegacyNewDecFromStr(params.Quorum)
	th, _ := sdkmath.LegacyNewDecFromStr(params.Threshold)
	vt, _ := sdkmath.LegacyNewDecFromStr(params.VetoThreshold)
	exp := ref.outcome(ratDec(q), ratDec(th), ratDec(vt))
	e.Stat("expected." + exp)
	if exp == "unclear" {
		return
	}
	detail := fmt.Sprintf("voted=%s bonded=%s nvBonded=%s yes=%s abstain=%s no=%s veto=%s spam=%s", ref.voted.FloatString(3), ref.bonded.FloatString(0), ref.nvBonded.FloatString(3),
		ref.opts[0].FloatString(3), ref.opts[1].FloatString(3), ref.opts[2].FloatString(3), ref.opts[3].FloatString(3), ref.opts[4].FloatString(3))
	// (1) the custom function's return values fed to x/gov's tallyStandard (re-implemented on LegacyDec as the keeper does)
	if res.cls == "ok" {
		fnOut := gtStandard(res.total, res.total, s.bonded, res.opts, q, th, vt)
		cause := "other"
		if fnOut != exp && ref.nvBonded.Sign() > 0 {
			// would the decision be right if only the QUORUM test used the rescaled total?
			unscaled := sdkmath.LegacyNewDecFromBigIntWithPrec(new(big.Int).Quo(new(big.Int).Mul(ref.voted.Num(), big.NewInt(1_000_000_000_000_000_000)), ref.voted.Denom()), 18)
			if gtStandard(res.total, unscaled, s.bonded, res.opts, q, th, vt) == exp {
				cause = "ratios_use_rescaled_total"
			}
		}
		e.Stat("customfn." + fnOut)
		e.Oracle("custom_fn_outcome", fnOut == exp, "%s cause=%s got=%s want=%s %s", info, cause, fnOut, exp, detail)
	}
	// (2) what the chain actually decided
	cause := "other"
	if got != exp {
		def := s.referenceOf(false)
		d := def.outcomeDefault(ratDec(q), ratDec(th), ratDec(vt))
		if d == got || d == "unclear" {
			cause = "default_fn_installed"
		}
	}
	e.Oracle("outcome_as_without_nonvoting", got == exp, "%s cause=%s got=%s want=%s %s", info, cause, got, exp, detail)
}

// x/gov keeper.tallyStandard (+ the spam test of Tally) on LegacyDec; totalQ is used for the quorum test, totalR as the
// denominator of the veto / threshold ratios (the keeper passes the same value for both).
func gtStandard(totalQ, totalR sdkmath.LegacyDec, bonded sdkmath.Int, r [5]sdkmath.LegacyDec, quorum, threshold, veto sdkmath.LegacyDec) string {
	if bonded.IsZero() {
		return "reject"
	}
	if !totalQ.IsZero() && r[4].GTE(r[0].Add(r[1]).Add(r[2]).Add(r[3])) {
		return "reject"
	}
	if totalQ.Quo(sdkmath.LegacyNewDecFromInt(bonded)).LT(quorum) {
		return "reject"
	}
	if totalR.Equal(r[1]) || totalR.IsZero() {
		return "reject"
	}
	if r[3].Quo(totalR).GT(veto) {
		return "reject"
	}
	if totalR.Sub(r[1]).IsZero() {
		return "reject"
	}
	if r[0].Quo(totalR.Sub(r[1])).GT(threshold) {
		return "pass"
	}
	return "reject"
}

// outcome of the DEFAULT tally: same decision procedure, turnout = voted / bonded (no rescaling)
func (r gtRef) outcomeDefault(quorum, threshold, veto *big.Rat) string {
	x := r
	x.nvBonded = new(big.Rat)
	return x.outcome(quorum, threshold, veto)
}
