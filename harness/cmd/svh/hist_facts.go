package main

// Shared history builder for C14 (determinism) and C19 (genesis round trip): a driver that delivers signed transactions through
// FinalizeBlock, records every block (so that the identical byte sequence can be replayed in other processes) and digests
// everything a block makes consensus-visible; plus the steps that populate each custom module.

import (
	"bufio"
	"bytes"
	"crypto/sha256"
	"encoding/base64"
	"encoding/hex"
	"encoding/json"
	"fmt"
	"math/big"
	"sort"
	"strings"
	"time"

	sdkmath "cosmossdk.io/math"
	govv1 "cosmossdk.io/x/gov/types/v1"
	stakingtypes "cosmossdk.io/x/staking/types"
	abci "github.com/cometbft/cometbft/abci/types"
	cmtproto "github.com/cometbft/cometbft/api/cometbft/types/v1"
	"github.com/consensys/gnark-crypto/ecc"
	native_mimc "github.com/consensys/gnark-crypto/ecc/bn254/fr/mimc"
	"github.com/consensys/gnark/backend/groth16"
	"github.com/consensys/gnark/frontend"
	"github.com/consensys/gnark/frontend/cs/r1cs"
	gnarklogger "github.com/consensys/gnark/logger"
	sdk "github.com/cosmos/cosmos-sdk/types"
	datypes "github.com/sunriselayer/sunrise/x/da/types"
	"github.com/sunriselayer/sunrise/x/da/zkp"
	litypes "github.com/sunriselayer/sunrise/x/liquidityincentive/types"
	lptypes "github.com/sunriselayer/sunrise/x/liquiditypool/types"
	sctypes "github.com/sunriselayer/sunrise/x/shareclass/types"
	swaptypes "github.com/sunriselayer/sunrise/x/swap/types"
	tctypes "github.com/sunriselayer/sunrise/x/tokenconverter/types"

	"svh/sim"
)

func init() { gnarklogger.Disable() }

type blockRec struct {
	Dt   int64    `json:"dt"`
	Txs  []string `json:"txs"`
	User int      `json:"user"` // how many of Txs are transactions (the rest was appended by PrepareProposal)
}

type histFile struct {
	Seed   uint64            `json:"seed"`
	Focus  string            `json:"focus"`
	Genesis map[string]string `json:"genesis"` // module -> raw genesis json used by GenesisMut
	Blocks []blockRec        `json:"blocks"`
	Cover  map[string]int    `json:"cover"`
}

type hdrv struct {
	c     *sim.Chain
	pend  [][]byte
	rec   *histFile
	lines []string // one digest line per block
	fails []string // transactions of the builder that did not succeed (builder diagnostics)
	label []string
	// replay of recorded (already prepared) blocks: the block bytes are delivered as they are; ppMode says which ProcessProposal
	// calls this process sees before FinalizeBlock (0 none, 1 the block, 2 a decoy first); userTxs = transactions in the block
	replaying bool
	ppMode    int
	userTxs   int
}

func factsConfig(gen map[string]string) sim.Config {
	cfg := sim.DefaultConfig()
	cfg.NumAccs = 8
	cfg.ValPowers = []int64{100, 80, 60, 40}
	cfg.GenesisMut = func(_ sim.Codec, gs map[string]json.RawMessage) {
		for k, v := range gen {
			gs[k] = json.RawMessage(v)
		}
	}
	return cfg
}

func sha(b []byte) string {
	h := sha256.Sum256(b)
	return hex.EncodeToString(h[:8])
}

func eventsDigest(evs []abci.Event) string {
	var sb strings.Builder
	for _, ev := range evs {
		sb.WriteString(ev.Type)
		sb.WriteByte('{')
		for _, a := range ev.Attributes {
			sb.WriteString(a.Key + "=" + a.Value + ";")
		}
		sb.WriteByte('}')
	}
	return sha([]byte(sb.String()))
}

func (d *hdrv) tx(i int, msgs ...sdk.Msg) {
	bz, err := d.c.SignTx(i, sdk.NewCoins(), 20_000_000, msgs...)
	if err != nil {
		d.fails = append(d.fails, fmt.Sprintf("sign a%d %T: %v", i, msgs[0], err))
		return
	}
	d.pend = append(d.pend, bz)
	d.label = append(d.label, fmt.Sprintf("a%d %T", i, msgs[0]))
}

// block delivers the pending transactions; returns the per-tx results. Everything consensus-visible goes into one digest line:
// app hash after commit, per transaction code / data / events, block events, validator updates.
func (d *hdrv) block(dt time.Duration) []*abci.ExecTxResult {
	c := d.c
	txs := d.pend
	labels := d.label
	d.pend, d.label = nil, nil
	nUser := len(txs)
	proposer := c.Vals[0].Priv.PubKey().Address()
	// A block goes through the application's proposal phases as on a node.  The history builder (and every driver that is not a
	// replay) is the proposer: PrepareProposal decides the block's bytes (it may append entries of its own), which are what is
	// recorded; the replaying processes receive those bytes as the decided block and differ ON PURPOSE in the ProcessProposal
	// calls they see before FinalizeBlock (none at all: block replay / state sync; the block once; a decoy proposal of another
	// round first) — what FinalizeBlock computes must not depend on them.
	if c.Halted == "" && !d.replaying {
		if pp, err := safePrepare(c, c.Height+1, c.Time.Add(dt), txs, proposer); err == nil {
			txs = pp
		} else if err != errUndecodable {
			c.Halted = err.Error()
			d.lines = append(d.lines, fmt.Sprintf("h=%d HALT %s", c.Height+1, sha([]byte(err.Error()))))
			d.fails = append(d.fails, fmt.Sprintf("h=%d halt: %v", c.Height+1, err))
		}
	}
	if d.rec != nil {
		r := blockRec{Dt: int64(dt), User: nUser}
		for _, t := range txs {
			r.Txs = append(r.Txs, base64.StdEncoding.EncodeToString(t))
		}
		d.rec.Blocks = append(d.rec.Blocks, r)
	}
	if c.Halted != "" {
		d.lines = append(d.lines, "halted")
		return nil
	}
	c.Height++
	c.Time = c.Time.Add(dt)
	if d.userTxs > 0 || d.replaying {
		nUser = d.userTxs
	}
	mode := 1
	if d.replaying {
		mode = d.ppMode
	}
	if mode != 0 && c.AllDecode(txs[:min(nUser, len(txs))]) {
		if mode == 2 { // a proposal of another round, never decided: the user transactions only
			_, _ = safeProcess(c, c.Height, c.Time, txs[:min(nUser, len(txs))], proposer)
		}
		if ok, err := safeProcess(c, c.Height, c.Time, txs, proposer); err != nil || !ok {
			msg := fmt.Sprintf("ProcessProposal refused the prepared block: accept=%v err=%v", ok, err)
			c.Halted = msg
			d.lines = append(d.lines, fmt.Sprintf("h=%d HALT %s", c.Height, sha([]byte(msg))))
			d.fails = append(d.fails, fmt.Sprintf("h=%d halt: %s", c.Height, msg))
			return nil
		}
	}
	var votes []abci.VoteInfo
	for _, v := range c.Vals {
		votes = append(votes, abci.VoteInfo{Validator: abci.Validator{Address: v.Priv.PubKey().Address(), Power: v.Power}, BlockIdFlag: cmtproto.BlockIDFlagCommit})
	}
	var fb *abci.FinalizeBlockResponse
	var err error
	func() {
		defer func() {
			if r := recover(); r != nil {
				err = fmt.Errorf("panic: %v", r)
			}
		}()
		fb, err = c.App.FinalizeBlock(&abci.FinalizeBlockRequest{Height: c.Height, Time: c.Time, Txs: txs,
			DecidedLastCommit: abci.CommitInfo{Votes: votes}, ProposerAddress: c.Vals[0].Priv.PubKey().Address()})
		if err == nil {
			_, err = c.App.Commit()
		}
	}()
	if err != nil {
		c.Halted = err.Error()
		d.lines = append(d.lines, fmt.Sprintf("h=%d HALT %s", c.Height, sha([]byte(err.Error()))))
		d.fails = append(d.fails, fmt.Sprintf("h=%d halt: %v", c.Height, err))
		return nil
	}
	var sb strings.Builder
	fmt.Fprintf(&sb, "h=%d app=%s fb=%s ev=%s vu=%d txs=", c.Height, hex.EncodeToString(c.App.LastCommitID().Hash), hex.EncodeToString(fb.AppHash), eventsDigest(fb.Events), len(fb.ValidatorUpdates))
	for i, r := range fb.TxResults {
		if i >= nUser {
			break // entries appended by PrepareProposal are not transactions
		}
		fmt.Fprintf(&sb, "[%d:%s:%s:%d]", r.Code, sha(r.Data), eventsDigest(r.Events), r.GasUsed)
		if r.Code != 0 && i < len(labels) {
			d.fails = append(d.fails, fmt.Sprintf("h=%d %s: code %d %s", c.Height, labels[i], r.Code, strings.SplitN(r.Log, "\n", 2)[0]))
		}
	}
	d.lines = append(d.lines, sb.String())
	if len(fb.TxResults) > nUser {
		return fb.TxResults[:nUser]
	}
	return fb.TxResults
}

var errUndecodable = fmt.Errorf("a transaction of the block does not decode")

func safePrepare(c *sim.Chain, h int64, t time.Time, txs [][]byte, proposer []byte) (out [][]byte, err error) {
	if !c.AllDecode(txs) {
		return nil, errUndecodable
	}
	defer func() {
		if r := recover(); r != nil {
			err = fmt.Errorf("PrepareProposal panic: %v", r)
		}
	}()
	pp, err := c.App.PrepareProposal(&abci.PrepareProposalRequest{Height: h, Time: t, Txs: txs, MaxTxBytes: 1 << 24, ProposerAddress: proposer})
	if err != nil {
		return nil, fmt.Errorf("PrepareProposal failed: %w", err)
	}
	return pp.Txs, nil
}

func safeProcess(c *sim.Chain, h int64, t time.Time, txs [][]byte, proposer []byte) (ok bool, err error) {
	defer func() {
		if r := recover(); r != nil {
			err = fmt.Errorf("ProcessProposal panic: %v", r)
		}
	}()
	pr, err := c.App.ProcessProposal(&abci.ProcessProposalRequest{Height: h, Time: t, Txs: txs, ProposerAddress: proposer, Hash: []byte(fmt.Sprintf("%032d", h))})
	if err != nil {
		return false, err
	}
	return pr.Status == abci.PROCESS_PROPOSAL_STATUS_ACCEPT, nil
}

// ---------------------------------------------------------------------------------------------- steps

func (d *hdrv) addr(i int) string { return d.c.Accs[i].Addr.String() }
func (d *hdrv) val(i int) string  { return d.c.Vals[i].Oper.String() }

var histDenoms = []string{"uaaa", "ubbb", "uccc", "urise"}

// pools: creates n pools over the funded denoms with one or two wide positions each (in-range liquidity everywhere).
func stepPools(d *hdrv, r *Rng, n int) {
	pairs := [][2]string{{"uaaa", "ubbb"}, {"ubbb", "uccc"}, {"uaaa", "uccc"}, {"uaaa", "urise"}, {"ubbb", "urise"}, {"uccc", "urise"}, {"uaaa", "ubbb"}, {"ubbb", "uccc"}}
	first := uint64(0)
	if all, err := d.c.App.LiquiditypoolKeeper.GetAllPools(d.c.Ctx()); err == nil {
		first = uint64(len(all))
	}
	for k := 0; k < n; k++ {
		p := pairs[k%len(pairs)]
		d.tx(4+k%4, &lptypes.MsgCreatePool{Authority: d.addr(4 + k%4), DenomBase: p[0], DenomQuote: p[1], FeeRate: []string{"0.01", "0.003", "0.0005"}[r.N(3)], PriceRatio: "1.0001", BaseOffset: "0.5"})
	}
	d.block(6 * time.Second)
	for k := 0; k < n; k++ {
		p := pairs[k%len(pairs)]
		for j := 0; j < 1+r.N(2); j++ {
			lo, hi := int64(-2000-r.N(3000)), int64(2000+r.N(3000))
			amt := sdkmath.NewInt(int64(1_000_000 + r.N(9_000_000)))
			d.tx(4+(k+j)%4, &lptypes.MsgCreatePosition{Sender: d.addr(4 + (k+j)%4), PoolId: first + uint64(k), LowerTick: lo, UpperTick: hi,
				TokenBase: sdk.NewCoin(p[0], amt), TokenQuote: sdk.NewCoin(p[1], amt), MinAmountBase: sdkmath.ZeroInt(), MinAmountQuote: sdkmath.ZeroInt()})
		}
	}
	d.block(6 * time.Second)
}

// a position that is opened and fully withdrawn again while older positions stay open: its id is gone for good on a live
// chain (the id counter is state of its own), and the store keeps the closed position's accumulator record
func stepClosedPosition(d *hdrv, r *Rng) {
	k := d.c.App.LiquiditypoolKeeper
	pools, err := k.GetAllPools(d.c.Ctx())
	if err != nil || len(pools) == 0 {
		return
	}
	p := pools[r.N(len(pools))]
	who := 4 + r.N(4)
	amt := sdkmath.NewInt(int64(500_000 + r.N(2_000_000)))
	d.tx(who, &lptypes.MsgCreatePosition{Sender: d.addr(who), PoolId: p.Id, LowerTick: int64(-900 - r.N(500)), UpperTick: int64(700 + r.N(500)),
		TokenBase: sdk.NewCoin(p.DenomBase, amt), TokenQuote: sdk.NewCoin(p.DenomQuote, amt), MinAmountBase: sdkmath.ZeroInt(), MinAmountQuote: sdkmath.ZeroInt()})
	d.block(6 * time.Second)
	all, err := k.GetAllPositions(d.c.Ctx())
	if err != nil || len(all) == 0 {
		return
	}
	newest := all[0]
	for _, q := range all {
		if q.Id > newest.Id {
			newest = q
		}
	}
	if newest.Address != d.addr(who) {
		return
	}
	d.tx(who, &lptypes.MsgDecreaseLiquidity{Sender: d.addr(who), Id: newest.Id, Liquidity: newest.Liquidity})
	d.block(6 * time.Second)
}

func factsPoolRoute(id uint64, in, out string) swaptypes.Route {
	return swaptypes.Route{DenomIn: in, DenomOut: out, Strategy: &swaptypes.Route_Pool{Pool: &swaptypes.RoutePool{PoolId: id}}}
}

// swaps: single-pool, series and parallel routes (pools 0:aaa/bbb 1:bbb/ccc 2:aaa/ccc 6:aaa/bbb when present)
func stepSwaps(d *hdrv, r *Rng, npools int) {
	amt := func() sdkmath.Int { return sdkmath.NewInt(int64(1000 + r.N(50_000))) }
	d.tx(5, &swaptypes.MsgSwapExactAmountIn{Sender: d.addr(5), Route: factsPoolRoute(0, "uaaa", "ubbb"), AmountIn: amt(), MinAmountOut: sdkmath.OneInt()})
	// with an interface provider: the fee transfer and everything emitted next to it
	d.tx(6, &swaptypes.MsgSwapExactAmountIn{Sender: d.addr(6), InterfaceProvider: d.addr(3), Route: factsPoolRoute(0, "ubbb", "uaaa"), AmountIn: amt(), MinAmountOut: sdkmath.OneInt()})
	if npools >= 3 {
		series := swaptypes.Route{DenomIn: "uaaa", DenomOut: "uccc", Strategy: &swaptypes.Route_Series{Series: &swaptypes.RouteSeries{Routes: []swaptypes.Route{factsPoolRoute(0, "uaaa", "ubbb"), factsPoolRoute(1, "ubbb", "uccc")}}}}
		d.tx(7, &swaptypes.MsgSwapExactAmountIn{Sender: d.addr(7), Route: series, AmountIn: amt(), MinAmountOut: sdkmath.OneInt()})
		par := swaptypes.Route{DenomIn: "uaaa", DenomOut: "uccc", Strategy: &swaptypes.Route_Parallel{Parallel: &swaptypes.RouteParallel{
			Routes: []swaptypes.Route{factsPoolRoute(2, "uaaa", "uccc"), series}, Weights: []string{"0.5", "0.5"}}}}
		d.tx(4, &swaptypes.MsgSwapExactAmountIn{Sender: d.addr(4), Route: par, AmountIn: amt(), MinAmountOut: sdkmath.OneInt()})
		d.tx(5, &swaptypes.MsgSwapExactAmountOut{Sender: d.addr(5), InterfaceProvider: d.addr(3), Route: factsPoolRoute(2, "uaaa", "uccc"), MaxAmountIn: sdkmath.NewInt(1_000_000), AmountOut: sdkmath.NewInt(int64(500 + r.N(2000)))})
	}
	d.block(6 * time.Second)
}

// staking: accounts 4..7 delegate to validators, account 5 also through the non-voting share class; token conversion
func stepStake(d *hdrv, r *Rng) {
	for k := 4; k < 8; k++ {
		d.tx(k, stakingtypes.NewMsgDelegate(d.addr(k), d.val((k+r.N(2))%4), sdk.NewCoin("uvrise", sdkmath.NewInt(int64(5_000_000+r.N(40_000_000))))))
	}
	d.tx(4, &tctypes.MsgConvert{Sender: d.addr(4), Amount: sdkmath.NewInt(int64(1000 + r.N(100000)))})
	d.block(6 * time.Second)
	d.tx(5, &sctypes.MsgNonVotingDelegate{Sender: d.addr(5), ValidatorAddress: d.val(1), Amount: sdk.NewCoin("urise", sdkmath.NewInt(int64(2_000_000+r.N(5_000_000))))})
	d.tx(6, &sctypes.MsgNonVotingDelegate{Sender: d.addr(6), ValidatorAddress: d.val(2), Amount: sdk.NewCoin("urise", sdkmath.NewInt(int64(2_000_000+r.N(5_000_000))))})
	d.block(6 * time.Second)
}

func stepShareclassMore(d *hdrv, r *Rng) {
	d.tx(5, &sctypes.MsgClaimRewards{Sender: d.addr(5), ValidatorAddress: d.val(1)})
	d.tx(6, &sctypes.MsgNonVotingUndelegate{Sender: d.addr(6), ValidatorAddress: d.val(2), Amount: sdk.NewCoin("urise", sdkmath.NewInt(int64(100_000+r.N(500_000)))), Recipient: d.addr(6)})
	d.block(6 * time.Second)
}

// gauge votes by validators (accounts 0..3) and delegators (4..7) over npools pools, then blocks until a new epoch has tallied them
func stepGauge(d *hdrv, r *Rng, npools int) int {
	voters := 0
	for k := 0; k < 8; k++ {
		if k >= 2 && r.N(4) == 0 {
			continue
		}
		var pw []litypes.PoolWeight
		nw := 2 + r.N(3)
		if nw > npools {
			nw = npools
		}
		start := r.N(npools)
		for j := 0; j < nw; j++ {
			pw = append(pw, litypes.PoolWeight{PoolId: uint64((start + j) % npools), Weight: []string{"0.1", "0.25", "0.2", "0.15"}[r.N(4)]})
		}
		d.tx(k, &litypes.MsgVoteGauge{Sender: d.addr(k), PoolWeights: pw})
		voters++
	}
	d.block(6 * time.Second)
	// a withdrawn vote: MsgVoteGauge with an empty weight list replaces the vote by an EMPTY one, which is still state
	// (a stored delegator vote, even empty, deducts the delegator's shares from its validator in the tally)
	d.tx(7, &litypes.MsgVoteGauge{Sender: d.addr(7), PoolWeights: []litypes.PoolWeight{}})
	for i := 0; i < 7; i++ { // epoch length is 5 blocks: at least one full tally + one allocation block
		d.block(6 * time.Second)
	}
	return voters
}

// governance: a text proposal, votes by every validator and two delegators (weighted for some), then past the voting period
func stepGov(d *hdrv, r *Rng) int {
	ctx := d.c.Ctx()
	params, err := d.c.App.GovKeeper.Params.Get(ctx)
	if err != nil {
		d.fails = append(d.fails, "gov params: "+err.Error())
		return 0
	}
	msg, err := govv1.NewMsgSubmitProposal(nil, sdk.NewCoins(params.MinDeposit...), d.addr(4), "meta", "title", "summary", govv1.ProposalType_PROPOSAL_TYPE_STANDARD)
	if err != nil {
		d.fails = append(d.fails, "gov submit: "+err.Error())
		return 0
	}
	d.tx(4, msg)
	res := d.block(6 * time.Second)
	id := uint64(1)
	if len(res) == 1 && res[0].Code == 0 {
		for _, ev := range res[0].Events {
			for _, a := range ev.Attributes {
				if a.Key == "proposal_id" {
					fmt.Sscanf(a.Value, "%d", &id)
				}
			}
		}
	}
	opts := []govv1.VoteOption{govv1.OptionYes, govv1.OptionNo, govv1.OptionAbstain, govv1.OptionNoWithVeto}
	n := 0
	for k := 0; k < 7; k++ {
		if k%2 == 0 {
			d.tx(k, govv1.NewMsgVote(d.addr(k), id, opts[r.N(4)], ""))
		} else {
			a, b := r.N(4), r.N(3)
			if b >= a {
				b++
			}
			d.tx(k, govv1.NewMsgVoteWeighted(d.addr(k), id, govv1.WeightedVoteOptions{
				{Option: opts[a], Weight: "0.6"}, {Option: opts[b], Weight: "0.4"}}, ""))
		}
		n++
	}
	d.block(6 * time.Second)
	vp := 48 * time.Hour
	if params.VotingPeriod != nil {
		vp = *params.VotingPeriod
	}
	d.block(vp + time.Second)
	d.block(6 * time.Second)
	return n
}

type daShard struct {
	pre  *big.Int
	hash []byte
}

func mimcHash(pre *big.Int) []byte {
	m := native_mimc.NewMiMC()
	b := pre.Bytes()
	var buf [32]byte
	copy(buf[32-len(b):], b)
	m.Write(buf[:])
	return m.Sum(nil)
}

func daProof(params datypes.Params, sh daShard) ([]byte, error) {
	ccs, err := frontend.Compile(ecc.BN254.ScalarField(), r1cs.NewBuilder, &zkp.ValidityProofCircuit{})
	if err != nil {
		return nil, err
	}
	pk, err := zkp.UnmarshalProvingKey(params.ZkpProvingKey)
	if err != nil {
		return nil, err
	}
	w, err := frontend.NewWitness(&zkp.ValidityProofCircuit{ShardHash: sh.pre, ShardDoubleHash: sh.hash}, ecc.BN254.ScalarField())
	if err != nil {
		return nil, err
	}
	proof, err := groth16.Prove(ccs, pk, w)
	if err != nil {
		return nil, err
	}
	var b bytes.Buffer
	bw := bufio.NewWriter(&b)
	if _, err := proof.WriteTo(bw); err != nil {
		return nil, err
	}
	bw.Flush()
	return b.Bytes(), nil
}

// DA: items published; challengers submit invalidities; the items become CHALLENGING; validators 0 and 1 (1 through a deputy)
// prove most shards, validators 2 and 3 prove nothing; after the proof period the tally runs over shardProofCount (>= 2 entries)
// and faultValidators (>= 2 entries when 2 and 3 were assigned a safe shard).  tallyNow=false leaves the second item CHALLENGING.
func stepDA(d *hdrv, r *Rng, items int, tally bool) {
	ctx := d.c.Ctx()
	params, err := d.c.App.DaKeeper.Params.Get(ctx)
	if err != nil {
		d.fails = append(d.fails, "da params: "+err.Error())
		return
	}
	d.tx(1, &datypes.MsgRegisterProofDeputy{Sender: d.addr(1), DeputyAddress: d.addr(7)})
	d.tx(3, &datypes.MsgRegisterProofDeputy{Sender: d.addr(3), DeputyAddress: d.addr(6)})
	shards := make([][]daShard, items)
	base := d.c.Height
	for it := 0; it < items; it++ {
		n := 5 + r.N(3)
		var hashes [][]byte
		for s := 0; s < n; s++ {
			pre := big.NewInt(int64(1000*(it+1) + s + r.N(1_000_000)*10000))
			sh := daShard{pre: pre, hash: mimcHash(pre)}
			shards[it] = append(shards[it], sh)
			hashes = append(hashes, sh.hash)
		}
		d.tx(4+it%2, &datypes.MsgPublishData{Sender: d.addr(4 + it%2), MetadataUri: fmt.Sprintf("ipfs://item-%d-%d", base, it), ParityShardCount: uint64(1 + r.N(2)),
			ShardDoubleHashes: hashes, DataSourceInfo: "src"})
	}
	uri := func(it int) string { return fmt.Sprintf("ipfs://item-%d-%d", base, it) }
	uris := make([]string, items)
	for it := range uris {
		uris[it] = uri(it)
	}
	d.block(6 * time.Second)
	for it := 0; it < items; it++ {
		n := int64(len(shards[it]))
		d.tx(6, &datypes.MsgSubmitInvalidity{Sender: d.addr(6), MetadataUri: uris[it], Indices: []int64{0, 1 % n}})
		d.tx(7, &datypes.MsgSubmitInvalidity{Sender: d.addr(7), MetadataUri: uris[it], Indices: []int64{2 % n, n - 1}})
	}
	d.block(6 * time.Second) // end blocker of this block moves the items to CHALLENGING
	for it := 0; it < items; it++ {
		for _, v := range []struct{ signer, val int }{{0, 0}, {7, 1}} {
			var idx []int64
			var proofs [][]byte
			for s, sh := range shards[it] {
				if r.N(5) == 0 && s > 1 {
					continue
				}
				p, err := daProof(params, sh)
				if err != nil {
					d.fails = append(d.fails, "da proof: "+err.Error())
					return
				}
				idx = append(idx, int64(s))
				proofs = append(proofs, p)
			}
			d.tx(v.signer, &datypes.MsgSubmitValidityProof{Sender: d.addr(v.signer), ValidatorAddress: d.val(v.val), MetadataUri: uris[it], Indices: idx, Proofs: proofs})
		}
	}
	d.block(6 * time.Second)
	if tally {
		d.block(params.ProofPeriod + 2*time.Second)
		d.block(6 * time.Second)
	}
}

// daPending: one more item left in CHALLENGE_PERIOD with an invalidity, one in CHALLENGING with a proof (state for C19)
func stepDAPending(d *hdrv, r *Rng) {
	stepDA(d, r, 1, false)
	pre := big.NewInt(int64(77 + r.N(1000)))
	d.tx(5, &datypes.MsgPublishData{Sender: d.addr(5), MetadataUri: "ipfs://pending", ParityShardCount: 1, ShardDoubleHashes: [][]byte{mimcHash(pre), mimcHash(big.NewInt(5)), mimcHash(big.NewInt(6)), mimcHash(big.NewInt(7))}})
	d.block(6 * time.Second)
	d.tx(6, &datypes.MsgSubmitInvalidity{Sender: d.addr(6), MetadataUri: "ipfs://pending", Indices: []int64{0}})
	d.block(6 * time.Second)
}

func daGenesis() (string, error) {
	c, err := sim.New(sim.DefaultConfig())
	if err != nil {
		return "", err
	}
	return daGenesisWith(c), nil
}

func daGenesisWith(c *sim.Chain) string {
	// replication factor 1: one proof per shard is enough for "safe", so that a handful of validators can produce safe shards
	p := datypes.DefaultParams()
	p.ReplicationFactor = sdkmath.LegacyNewDec(1).String()
	gs := datypes.DefaultGenesis()
	gs.Params = p
	return string(c.App.AppCodec().MustMarshalJSON(gs))
}

// coverage evidence read back from state (no instrumentation of the repository needed)
func histCover(d *hdrv) map[string]int {
	ctx := d.c.Ctx()
	out := map[string]int{}
	k := d.c.App.DaKeeper
	n := 0
	_ = k.FaultCounts.Walk(ctx, nil, func(key []byte, v uint64) (bool, error) { n++; return false, nil })
	out["da.fault_counters"] = n
	cc, _ := k.ChallengeCounts.Get(ctx)
	out["da.challenges_tallied"] = int(cc)
	if ep, found, err := d.c.App.LiquidityincentiveKeeper.GetLastEpoch(ctx); err == nil && found {
		out["gauge.last_epoch_gauges"] = len(ep.Gauges)
	}
	votes, _ := d.c.App.LiquidityincentiveKeeper.GetAllVotes(ctx)
	out["gauge.votes"] = len(votes)
	np := 0
	_ = d.c.App.GovKeeper.Proposals.Walk(ctx, nil, func(id uint64, p govv1.Proposal) (bool, error) {
		if p.Status == govv1.StatusPassed || p.Status == govv1.StatusRejected || p.Status == govv1.StatusFailed {
			np++
		}
		return false, nil
	})
	out["gov.proposals_tallied"] = np
	return out
}

func sortedKeys(m map[string]int) []string {
	ks := []string{}
	for k := range m {
		ks = append(ks, k)
	}
	sort.Strings(ks)
	return ks
}
