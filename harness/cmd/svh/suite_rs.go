package main

// C20 — erasure coding, shard assignment, validity-proof binding, on the real code:
//   x/da/erasurecoding (ErasureCode / ReconstructAndJoinShards / JoinShards over klauspost/reedsolomon),
//   x/da/types (GetRandomIndicesFromSeed / ShardIndicesForValidator / ValidatorSeed),
//   x/da/zkp (ValidityProofCircuit) with the chain's DEFAULT proving/verifying keys and the verification sequence of
//   Msg/SubmitValidityProof.
// Every `> ` line is evaluated by the Lean suite `rs` (Driver/RS.lean); the `! ` lines are the property's own
// predicate evaluated on what the Go code returned, independent of the model.

import (
	"bytes"
	"encoding/binary"
	"encoding/hex"
	"fmt"
	"math/big"
	"math/rand/v2"
	"os"
	"os/exec"
	"strconv"
	"strings"

	"github.com/consensys/gnark-crypto/ecc"
	"github.com/consensys/gnark-crypto/ecc/bn254/fr"
	native_mimc "github.com/consensys/gnark-crypto/ecc/bn254/fr/mimc"
	"github.com/consensys/gnark/backend/groth16"
	groth16bn254 "github.com/consensys/gnark/backend/groth16/bn254"
	"github.com/consensys/gnark/constraint"
	"github.com/consensys/gnark/frontend"
	"github.com/consensys/gnark/frontend/cs/r1cs"
	gnarklogger "github.com/consensys/gnark/logger"
	sdk "github.com/cosmos/cosmos-sdk/types"

	ec "github.com/sunriselayer/sunrise/x/da/erasurecoding"
	datypes "github.com/sunriselayer/sunrise/x/da/types"
	"github.com/sunriselayer/sunrise/x/da/zkp"

	"svh/sim"
)

func init() { register("rs", suiteRS) }

func hx(b []byte) string {
	if len(b) == 0 {
		return "-"
	}
	return hex.EncodeToString(b)
}

func (r *Rng) Bytes(n int) []byte {
	b := make([]byte, n)
	mode := r.N(8)
	for i := range b {
		switch mode {
		case 0:
			b[i] = 0
		case 1:
			b[i] = 0xff
		case 2:
			b[i] = byte(i)
		default:
			b[i] = byte(r.Next())
		}
	}
	return b
}

// guarded call: outcome class + recovered value
func guard3(f func() error) (cls string) {
	defer func() {
		if p := recover(); p != nil {
			cls = "panic"
		}
	}()
	if err := f(); err != nil {
		return "err"
	}
	return "ok"
}

type rsCase struct {
	d, p   int
	blob   []byte
	shards [][]byte
}

func shardTok(s []byte) string {
	if s == nil {
		return "nil"
	}
	if len(s) == 0 {
		return "e"
	}
	return hex.EncodeToString(s)
}

func suiteRS(e *Env) {
	if e.Replay != "" {
		rsReplay(e)
		return
	}
	e.In("reset")
	e.In("gfcheck")
	e.Obs("ok")
	rsEncode(e)
	rsIndices(e)
	items := rsZk(e)
	rsMsgServer(e, items)
	rsKeyRotation(e, items)
}

// ---------------------------------------------------------------------------------------------- erasure coding

// encode on the real code, print model input + observation; returns the case when encoding succeeded
func rsEnc(e *Env, blob []byte, d, p int, toModel bool) *rsCase {
	var size uint64
	var count int
	var shards [][]byte
	cls := guard3(func() (err error) { size, count, shards, err = ec.ErasureCode(blob, d, p); return })
	e.Stat("enc." + cls)
	if toModel {
		e.In("enc %d %d %s", d, p, hx(blob))
		if cls == "ok" {
			toks := make([]string, len(shards))
			for i, s := range shards {
				toks[i] = hx(s)
			}
			e.Obs("ok size=%d count=%d %s", size, count, strings.Join(toks, ","))
		} else {
			e.Obs("%s", cls)
		}
	}
	e.Oracle("no_panic", cls != "panic", "ErasureCode d=%d p=%d len=%d", d, p, len(blob))
	valid := d >= 1 && p >= 0 && d+p <= 256
	if valid && len(blob) > 0 {
		// a valid configuration and a non-empty blob must be encodable
		e.Oracle("rs_encode_ok", cls == "ok", "d=%d p=%d len=%d -> %s", d, p, len(blob), cls)
	}
	if valid && len(blob) == 0 {
		// the statement quantifies over blob length 0 as well
		e.Oracle("rs_encode_empty", cls == "ok", "d=%d p=%d len=0 -> %s", d, p, cls)
	}
	if cls != "ok" {
		return nil
	}
	// shape: count shards of equal size, data shards are the padded blob
	okShape := count == d+p && len(shards) == count
	for _, s := range shards {
		okShape = okShape && uint64(len(s)) == size
	}
	okShape = okShape && size*uint64(d) >= uint64(len(blob)) && (size == 0 || (size-1)*uint64(d) < uint64(len(blob)))
	if okShape {
		joined := bytes.Join(shards[:d], nil)
		okShape = bytes.Equal(joined[:len(blob)], blob) && bytes.Equal(joined[len(blob):], make([]byte, len(joined)-len(blob)))
	}
	e.Oracle("rs_shape", okShape, "d=%d p=%d len=%d size=%d count=%d", d, p, len(blob), size, count)
	return &rsCase{d: d, p: p, blob: blob, shards: shards}
}

// erase the shards in `lost` (nil or empty slice), run ReconstructAndJoinShards, check the property
func rsRec(e *Env, c *rsCase, lost []int, blobSize int, toModel bool, tag string) {
	n := c.d + c.p
	in := make([][]byte, n)
	for i := range in {
		in[i] = append([]byte{}, c.shards[i]...)
	}
	for k, i := range lost {
		if (k+i)%3 == 0 {
			in[i] = []byte{}
		} else {
			in[i] = nil
		}
	}
	toks := make([]string, n)
	for i, s := range in {
		toks[i] = shardTok(s)
	}
	var out []byte
	cls := guard3(func() (err error) { out, err = ec.ReconstructAndJoinShards(in, c.d, blobSize); return })
	e.Stat("rec." + tag + "." + cls)
	if toModel {
		e.In("rec %d %d %s", c.d, blobSize, strings.Join(toks, " "))
		if cls == "ok" {
			e.Obs("ok %s", hx(out))
		} else {
			e.Obs("%s", cls)
		}
	}
	if blobSize != len(c.blob) {
		return // wrong-size calls are correspondence only
	}
	if len(lost) <= c.p {
		e.Oracle("rs_recover", cls == "ok" && bytes.Equal(out, c.blob), "d=%d p=%d len=%d lost=%v -> %s", c.d, c.p, len(c.blob), lost, cls)
	} else {
		e.Oracle("rs_too_many_is_error", cls == "err", "d=%d p=%d len=%d lost=%v -> %s", c.d, c.p, len(c.blob), lost, cls)
	}
}

func pickLost(r *Rng, n, k int) []int {
	perm := make([]int, n)
	for i := range perm {
		perm[i] = i
	}
	for i := n - 1; i > 0; i-- {
		j := r.N(i + 1)
		perm[i], perm[j] = perm[j], perm[i]
	}
	out := append([]int{}, perm[:k]...)
	// sorted for readability
	for i := range out {
		for j := i + 1; j < len(out); j++ {
			if out[j] < out[i] {
				out[i], out[j] = out[j], out[i]
			}
		}
	}
	return out
}

func rsEncode(e *Env) {
	r := e.R
	thorough := e.Tier == "thorough"
	// (1) small configurations exhaustively: every (d,p), several lengths, EVERY erasure pattern
	maxN := 7
	if thorough {
		maxN = 9
	}
	for d := 1; d <= maxN; d++ {
		for p := 0; d+p <= maxN; p++ {
			lens := []int{0, 1, d - 1, d, d + 1, 2*d + 1, 1 + r.N(40)}
			for li, L := range lens {
				if L < 0 || (li == 2 && L <= 1) {
					continue
				}
				c := rsEnc(e, r.Bytes(L), d, p, true)
				if c == nil {
					continue
				}
				n := d + p
				for mask := 0; mask < 1<<n; mask++ {
					// all patterns for two of the lengths, every 5th pattern (+ boundaries) for the others
					lost := []int{}
					for i := 0; i < n; i++ {
						if mask>>i&1 == 1 {
							lost = append(lost, i)
						}
					}
					if !(li == 4 || li == 6) && mask%5 != 0 && len(lost) != p && len(lost) != p+1 {
						continue
					}
					rsRec(e, c, lost, L, true, "small")
				}
			}
		}
	}
	// (2) wrong sizes / direct JoinShards / malformed shard sets (correspondence; no_panic where the size is sane)
	for k := 0; k < e.N*4; k++ {
		d, p := 1+r.N(6), r.N(5)
		L := 1 + r.N(60)
		c := rsEnc(e, r.Bytes(L), d, p, true)
		if c == nil {
			continue
		}
		sz := len(c.shards[0])
		for _, bs := range []int{0, 1, L - 1, L + 1, d * sz, d*sz + 1, -1, -(1 + r.N(5))} {
			lost := pickLost(r, d+p, r.N(p+1))
			rsRec(e, c, lost, bs, true, "size")
		}
		// JoinShards directly on partially present data shards
		in := make([][]byte, d+p)
		for i := range in {
			in[i] = append([]byte{}, c.shards[i]...)
			switch r.N(6) {
			case 0:
				in[i] = nil
			case 1:
				in[i] = []byte{}
			}
		}
		toks := make([]string, len(in))
		for i, s := range in {
			toks[i] = shardTok(s)
		}
		bs := []int{L, r.N(d*sz + 2), 0}[r.N(3)]
		var out []byte
		cls := guard3(func() (err error) { out, err = ec.JoinShards(in, d, bs); return })
		e.In("join %d %d %s", d, bs, strings.Join(toks, " "))
		e.Stat("join." + cls)
		if cls == "ok" {
			e.Obs("ok %s", hx(out))
		} else {
			e.Obs("%s", cls)
		}
		// a present shard of the wrong length must be an error, never data
		if p > 0 && sz > 1 {
			bad := make([][]byte, d+p)
			for i := range bad {
				bad[i] = append([]byte{}, c.shards[i]...)
			}
			bad[r.N(d+p)] = nil
			j := r.N(d + p)
			if bad[j] != nil {
				bad[j] = bad[j][:sz-1]
				for i, s := range bad {
					toks[i] = shardTok(s)
				}
				cls := guard3(func() (err error) { out, err = ec.ReconstructAndJoinShards(bad, d, L); return })
				e.In("rec %d %d %s", d, L, strings.Join(toks, " "))
				e.Obs("%s", map[bool]string{true: "ok " + hx(out), false: cls}[cls == "ok"])
				e.Oracle("rs_bad_length_is_error", cls == "err", "d=%d p=%d truncated shard %d -> %s", d, p, j, cls)
			}
		}
		// invalid shard counts are errors (never a panic, never data)
		for _, dp := range [][2]int{{0, p}, {-1, p}, {d, -1}, {0, 0}, {-2, -3}, {0, 300}, {300, 0}, {1 << 20, 1 << 20}} {
			rsEnc(e, c.blob, dp[0], dp[1], true)
		}
		for i, s := range in {
			toks[i] = shardTok(s)
		}
		for _, dd := range []int{0, -1, d + p + 1} {
			cls := guard3(func() (err error) { out, err = ec.ReconstructAndJoinShards(in, dd, L); return })
			e.In("rec %d %d %s", dd, L, strings.Join(toks, " "))
			e.Obs("%s", map[bool]string{true: "ok " + hx(out), false: cls}[cls == "ok"])
			e.Oracle("rs_invalid_config_is_error", cls == "err", "ReconstructAndJoinShards d=%d of %d -> %s", dd, d+p, cls)
		}
	}
	// (3) the allowed range (min_shard_count 10 … max_shard_count 255, up to the library limit 256): random
	//     configurations, blobs up to a few KB, random erasure patterns around the parity count
	big := e.N
	if thorough {
		big = e.N * 2
	}
	for k := 0; k < big; k++ {
		var d, p int
		switch r.N(6) {
		case 0:
			d, p = 1+r.N(255), 0
			p = r.N(257 - d)
		case 1:
			d = 1 + r.N(255)
			p = 256 - d // library limit
		case 2:
			p = 1 + r.N(200)
			d = 1 + r.N(255-p) // parity-heavy
		default:
			n := 10 + r.N(246)
			d = 1 + r.N(n)
			p = n - d
		}
		var L int
		switch r.N(5) {
		case 0:
			L = 1 + r.N(d+1)
		case 1:
			L = d * (1 + r.N(8))
		default:
			L = 1 + r.N(4096)
		}
		c := rsEnc(e, r.Bytes(L), d, p, true)
		if c == nil {
			continue
		}
		n := d + p
		pats := 3
		if thorough {
			pats = 5
		}
		for q := 0; q < pats; q++ {
			var k int
			switch q {
			case 0:
				k = p // exactly the parity count
			case 1:
				k = p + 1 // one too many
			case 2:
				k = r.N(p + 1)
			case 3:
				k = p + 1 + r.N(n-p)
			default:
				k = r.N(n + 1)
			}
			if k > n {
				k = n
			}
			var lost []int
			if q == 0 && r.N(2) == 0 {
				// lose data shards first (worst case for decoding)
				for i := 0; i < k; i++ {
					lost = append(lost, i)
				}
			} else {
				lost = pickLost(r, n, k)
			}
			rsRec(e, c, lost, L, true, "large")
		}
	}
	// (4) beyond 256 shards the library switches to another code (Leopard GF(2^16)); not modelled, the property's
	//     predicate is still evaluated on the implementation
	for k := 0; k < 3; k++ {
		d, p := 200+r.N(100), 57+r.N(60)
		for _, L := range []int{d * 64, 1 + r.N(5000)} {
			c := rsEnc(e, r.Bytes(L), d, p, false)
			if c == nil {
				e.Stat("leopard.encode_err")
				continue
			}
			e.Stat("leopard.encode_ok")
			rsRec(e, c, pickLost(r, d+p, p), L, false, "leopard")
			rsRec(e, c, pickLost(r, d+p, p+1), L, false, "leopard")
		}
	}
}

// ---------------------------------------------------------------------------------------------- shard assignment

func rsIdxStr(v []int64) string {
	if len(v) == 0 {
		return "-"
	}
	s := make([]string, len(v))
	for i, x := range v {
		s[i] = fmt.Sprint(x)
	}
	return strings.Join(s, ",")
}

func rsIndices(e *Env) {
	r := e.R
	cnt := 150 * e.N
	if e.Tier == "thorough" {
		cnt = 400 * e.N
	}
	for k := 0; k < cnt; k++ {
		var n, t int64
		switch r.N(10) {
		case 0:
			n = int64(r.N(3)) // 0,1,2
		case 1:
			n = int64(1) << uint(r.N(9)) // powers of two (mask path of uint64n)
		case 2:
			n = int64(r.N(600))
		default:
			n = int64(r.N(300))
		}
		if r.N(100) == 0 {
			n = int64(r.N(5000)) // the model is quadratic in n (lists), keep these rare
		}
		switch r.N(8) {
		case 0:
			t = 0
		case 1:
			t = n
		case 2:
			t = n + 1 + int64(r.N(5))
		case 3:
			t = -1 - int64(r.N(3)) // arr[:negative] → panic
		default:
			t = int64(r.N(int(n) + 1))
		}
		if r.N(40) == 0 {
			n = -1 - int64(r.N(3)) // Shuffle(negative) → panic
		}
		var s1, s2 uint64
		var addr sdk.ValAddress
		viaAddr := r.N(3) == 0
		if viaAddr {
			// the production entry point: seed = MiMC(validator address) truncated, seed2 = 1024
			addr = sdk.ValAddress(r.Bytes(20))
			if r.N(10) == 0 {
				addr = sdk.ValAddress(r.Bytes(1 + r.N(31)))
			}
			s1, s2 = datypes.ValidatorSeed(addr), 1024
			// seed = first 8 bytes (big endian) of MiMC(address), recomputed here
			e.Oracle("seed_is_mimc_prefix", s1 == binary.BigEndian.Uint64(mimcOf(addr)[:8]), "addrlen=%d", len(addr))
		} else {
			s1, s2 = r.Next(), r.Next()
			if r.N(6) == 0 {
				s1, s2 = uint64(r.N(3)), uint64(r.N(3))
			}
		}
		call := func() (out []int64, cls string) {
			defer func() {
				if p := recover(); p != nil {
					cls = "panic"
				}
			}()
			if viaAddr {
				return datypes.ShardIndicesForValidator(addr, t, n), "ok"
			}
			return datypes.GetRandomIndicesFromSeed(n, t, s1, s2), "ok"
		}
		out, cls := call()
		e.Stat("idx." + cls)
		e.In("idx %d %d %d %d", n, t, s1, s2)
		if cls == "ok" {
			e.Obs("ok %s", rsIdxStr(out))
		} else {
			e.Obs("%s", cls)
		}
		// the abstract layer: same result from the choices of a second, identically seeded generator
		if n >= 0 && n <= 400 {
			r2 := rand.New(rand.NewPCG(s1, s2))
			cs := []string{}
			for i := int(n) - 1; i > 0; i-- {
				cs = append(cs, fmt.Sprint(r2.Uint64N(uint64(i+1))))
			}
			c := "-"
			if len(cs) > 0 {
				c = strings.Join(cs, ",")
			}
			e.In("idxc %d %d %s", n, t, c)
			if cls == "ok" {
				e.Obs("ok %s", rsIdxStr(out))
			} else {
				e.Obs("%s", cls)
			}
		}
		if n >= 0 && t >= 0 {
			// property: count = min(threshold, n), distinct, in range, deterministic
			want := t
			if n < t {
				want = n
			}
			seen := map[int64]bool{}
			good := cls == "ok" && int64(len(out)) == want
			for _, x := range out {
				good = good && x >= 0 && x < n && !seen[x]
				seen[x] = true
			}
			e.Oracle("assign_distinct_in_range", good, "n=%d t=%d seed=%d/%d -> %s %v", n, t, s1, s2, cls, out)
			out2, cls2 := call()
			e.Oracle("assign_deterministic", cls2 == cls && rsIdxStr(out) == rsIdxStr(out2), "n=%d t=%d seed=%d/%d", n, t, s1, s2)
			if viaAddr {
				// equal address ⇒ equal indices through the other entry point as well
				var out3 []int64
				cls3 := guard3(func() error {
					out3 = datypes.GetRandomIndicesFromSeed(n, t, datypes.ValidatorSeed(append(sdk.ValAddress{}, addr...)), 1024)
					return nil
				})
				e.Oracle("assign_function_of_address", cls3 == cls && rsIdxStr(out3) == rsIdxStr(out), "addrlen=%d n=%d t=%d", len(addr), n, t)
			}
		}
	}
}

// ---------------------------------------------------------------------------------------------- validity proof

type zkEnv struct {
	ccs constraint.ConstraintSystem
	pk  groth16.ProvingKey
	vk  groth16.VerifyingKey
}

func mimcOf(b []byte) []byte {
	m := native_mimc.NewMiMC()
	m.Write(b)
	return m.Sum(nil)
}

// prove exactly as a validator would with the chain's proving key; witness = (shard hash bytes, double hash bytes)
func (z *zkEnv) prove(h, y []byte) (proofBz []byte, cls string) {
	defer func() {
		if p := recover(); p != nil {
			cls = "panic"
		}
	}()
	w, err := frontend.NewWitness(&zkp.ValidityProofCircuit{ShardHash: h, ShardDoubleHash: y}, ecc.BN254.ScalarField())
	if err != nil {
		return nil, "err"
	}
	proof, err := groth16.Prove(z.ccs, z.pk, w)
	if err != nil {
		return nil, "err"
	}
	bz, err := zkp.MarshalProof(proof)
	if err != nil {
		return nil, "err"
	}
	return bz, "ok"
}

// the verification sequence of keeper.msgServer.SubmitValidityProof for one (proof, stored double hash)
func (z *zkEnv) verify(proofBz, y []byte) (cls string) {
	return guard3(func() error {
		proof := &groth16bn254.Proof{}
		if _, err := proof.ReadFrom(bytes.NewReader(proofBz)); err != nil {
			return err
		}
		assignment := zkp.ValidityProofCircuit{ShardHash: big.NewInt(1), ShardDoubleHash: y}
		w, err := frontend.NewWitness(&assignment, ecc.BN254.ScalarField())
		if err != nil {
			return err
		}
		pw, err := w.Public()
		if err != nil {
			return err
		}
		return groth16.Verify(proof, z.vk, pw)
	})
}

func zkSetup(e *Env) *zkEnv {
	gnarklogger.Disable() // gnark logs to stdout
	params := datypes.DefaultParams()
	z := &zkEnv{}
	var err error
	if z.ccs, err = frontend.Compile(ecc.BN254.ScalarField(), r1cs.NewBuilder, &zkp.ValidityProofCircuit{}); err != nil {
		e.Obs("zk-setup-error compile %v", err)
		return nil
	}
	if z.pk, err = zkp.UnmarshalProvingKey(params.ZkpProvingKey); err != nil {
		e.Obs("zk-setup-error pk %v", err)
		return nil
	}
	if z.vk, err = zkp.UnmarshalVerifyingKey(params.ZkpVerifyingKey); err != nil {
		e.Obs("zk-setup-error vk %v", err)
		return nil
	}
	return z
}

type zkItem struct{ h, m, proof []byte }

func rsZk(e *Env) []zkItem {
	r := e.R
	z := zkSetup(e)
	if z == nil {
		return nil
	}
	rmod := fr.Modulus()
	cnt := e.N
	if e.Tier == "thorough" {
		cnt = 4 * e.N
	}
	items := []zkItem{}
	for k := 0; k < cnt; k++ {
		// shard hash = MiMC(shard) as the off-chain tooling computes it (a canonical field element), or small values
		var h []byte
		switch r.N(4) {
		case 0:
			h = big.NewInt(int64(r.N(1000))).FillBytes(make([]byte, 32))
		default:
			seedBz := make([]byte, 32)
			for i := range seedBz {
				seedBz[i] = byte(r.Next())
			}
			seedBz[0] &= 0x1f // below the modulus, so that MiMC accepts the block
			h = mimcOf(seedBz)
			if r.N(2) == 0 {
				h = mimcOf(mimcOf(h))
			}
		}
		m := mimcOf(h)
		mInt := new(big.Int).SetBytes(m)
		// honest proof
		proof, cls := z.prove(h, m)
		e.In("zkprove %s %s %s", mInt, hx(m), hx(h))
		e.Obs("%s", cls)
		e.Oracle("zk_complete", cls == "ok", "honest witness must be provable")
		if cls != "ok" {
			continue
		}
		items = append(items, zkItem{h, m, proof})
		// dishonest witnesses: a different public value cannot be proved from h
		other := mimcOf(m)
		flip := append([]byte{}, m...)
		flip[31-r.N(8)] ^= 1 << uint(r.N(8))
		for _, y := range [][]byte{other, flip} {
			_, cls := z.prove(h, y)
			e.In("zkprove %s %s %s", mInt, hx(y), hx(h))
			e.Obs("%s", cls)
			e.Stat("zkprove.wrong." + cls)
			e.Oracle("zk_no_proof_for_other", cls != "ok", "prover produced a proof for a non-matching double hash")
		}
		// verification of the honest proof against byte strings
		alias := new(big.Int).Add(mInt, rmod).FillBytes(make([]byte, 32)) // same field element, different bytes
		pad33 := append([]byte{0}, m...)
		trimmed := bytes.TrimLeft(m, "\x00")
		ys := []struct {
			class string
			y     []byte
		}{
			{"same", m}, {"other_hash", other}, {"bitflip", flip}, {"random", r.Bytes(32)}, {"empty", []byte{}},
			{"shard_hash_itself", h}, {"alias_plus_modulus", alias}, {"alias_leading_zero", pad33},
		}
		if len(trimmed) != len(m) {
			ys = append(ys, struct {
				class string
				y     []byte
			}{"alias_trimmed", trimmed})
		}
		if len(items) > 1 {
			ys = append(ys, struct {
				class string
				y     []byte
			}{"other_item", items[len(items)-2].m})
		}
		for _, c := range ys {
			cls := z.verify(proof, c.y)
			e.In("zkverify %s %s %s", mInt, hx(c.y), hx(h))
			e.Obs("%s", cls)
			e.Stat("zkverify." + c.class + "." + cls)
			if c.class == "same" {
				e.Oracle("zk_verifies_own", cls == "ok", "proof for h must verify against MiMC(h)")
			} else if bytes.Equal(c.y, m) {
				continue
			} else {
				// "against no other": any byte string different from the double hash must be rejected
				e.Oracle("zk_binds", cls != "ok", "class=%s proof verified against bytes %s != double hash %s", c.class, hx(c.y), hx(m))
			}
		}
		// a proof made for another shard hash does not verify against this double hash
		if len(items) > 1 && !bytes.Equal(items[len(items)-2].m, m) {
			cls := z.verify(items[len(items)-2].proof, m)
			e.In("zkverify %s %s %s", new(big.Int).SetBytes(items[len(items)-2].m), hx(m), hx(items[len(items)-2].h))
			e.Obs("%s", cls)
			e.Oracle("zk_binds", cls != "ok", "class=other_proof proof for another shard hash verified")
		}
		// malformed proof bytes: error, never acceptance. Bits that change the LAYOUT of the encoding (the
		// "uncompressed" flags of Ar/Bs/Krs in bytes 0/32/96 and the length prefix of Commitments in 128..131)
		// are handled separately below, in a child process: gnark allocates from that prefix before validating.
		bad := append([]byte{}, proof...)
		pos := r.N(len(bad))
		for pos == 0 || pos == 32 || pos == 96 || (pos >= 128 && pos < 132) {
			pos = r.N(len(bad))
		}
		bad[pos] ^= 1 << uint(r.N(8))
		cls = z.verify(bad, m)
		e.Stat("zkverify.corrupt_proof." + cls)
		e.Oracle("no_panic", cls != "panic", "corrupted proof bytes")
		e.Oracle("zk_corrupt_proof_rejected", cls != "ok", "a proof with one flipped bit verified")
		if k == 0 && len(proof) >= 132 {
			crafted := append([]byte{}, proof...)
			copy(crafted[128:132], []byte{0xff, 0xff, 0xff, 0xff})
			out := decodeInChild(e, crafted)
			e.In("zkdecode %s", hx(crafted))
			e.Stat("zkdecode.crafted_len." + out)
			e.Oracle("zk_proof_decode_bounded", out == "err", "outcome=%s Msg/SubmitValidityProof with a %d-byte proof whose commitment count field says 2^32-1 (real handler, child process with 6 GiB address space)", out, len(crafted))
		}
	}
	return items
}

// ---------------------------------------------------------------------------------------------- the real handler

// vpSubmit stores a CHALLENGING item with the given double hashes and sends Msg/SubmitValidityProof from validator 0
func vpSubmit(c *sim.Chain, uri string, ys [][]byte, idx []int64, proofs [][]byte) string {
	err, p := c.Call(func(ctx sdk.Context) error {
		return c.App.DaKeeper.SetPublishedData(ctx, datypes.PublishedData{
			MetadataUri: uri, ParityShardCount: 1, ShardDoubleHashes: ys, Timestamp: ctx.BlockTime(),
			Status: datypes.Status_STATUS_CHALLENGING, Publisher: c.Accs[0].Addr.String(), PublishedTimestamp: ctx.BlockTime(),
		})
	})
	if err != nil || p != nil {
		return fmt.Sprintf("setup-error %v %v", err, p)
	}
	val := c.Vals[0].Oper
	_, err, p = c.Exec(&datypes.MsgSubmitValidityProof{Sender: sdk.AccAddress(val).String(), ValidatorAddress: val.String(),
		MetadataUri: uri, Indices: idx, Proofs: proofs})
	return class(err, p)
}

// rsMsgServer drives Msg/SubmitValidityProof of the real application: a published item in CHALLENGING status whose
// shard_double_hashes are the items' double hashes, proofs submitted by a bonded genesis validator.
func rsMsgServer(e *Env, items []zkItem) {
	if len(items) < 3 {
		return
	}
	// distinct double hashes only
	seen := map[string]bool{}
	its := []zkItem{}
	for _, it := range items {
		if !seen[string(it.m)] {
			seen[string(it.m)] = true
			its = append(its, it)
		}
	}
	if len(its) > 12 {
		its = its[:12]
	}
	if len(its) < 3 {
		return
	}
	c, err := sim.New(sim.DefaultConfig())
	if err != nil {
		e.Obs("setup-error %v", err)
		return
	}
	r := e.R
	rmod := fr.Modulus()
	val := c.Vals[0].Oper
	uriN := 0
	submit := func(ys [][]byte, idx []int64, pf []int, tag string) {
		uriN++
		uri := fmt.Sprintf("ipfs://rs/%d", uriN)
		proofs := make([][]byte, len(pf))
		ms := make([]string, len(pf))
		for k, i := range pf {
			proofs[k] = its[i].proof
			ms[k] = new(big.Int).SetBytes(its[i].m).String()
		}
		cls := vpSubmit(c, uri, ys, idx, proofs)
		if strings.HasPrefix(cls, "setup-error") {
			e.Obs("%s", cls)
			return
		}
		csv := func(xs []string) string {
			if len(xs) == 0 {
				return "-"
			}
			return strings.Join(xs, ",")
		}
		is := make([]string, len(idx))
		for k, j := range idx {
			is[k] = fmt.Sprint(j)
		}
		yh := make([]string, len(ys))
		for k, y := range ys {
			yh[k] = hex.EncodeToString(y)
			if len(y) == 0 {
				yh[k] = "e"
			}
		}
		e.In("msgvp %s %s %s", csv(is), csv(ms), csv(yh))
		e.Obs("%s", cls)
		e.Stat("msgvp." + tag + "." + cls)
		e.Oracle("no_panic", cls != "panic", "Msg/SubmitValidityProof %s", tag)
		// the property on the handler: accepted iff every proof k was made for the shard whose double hash is stored at idx[k]
		if len(idx) == len(pf) {
			match, alias, inRange := true, false, true
			for k, j := range idx {
				if j < 0 || int(j) >= len(ys) {
					inRange = false
					break
				}
				if !bytes.Equal(ys[j], its[pf[k]].m) {
					match = false
					if new(big.Int).Mod(new(big.Int).SetBytes(ys[j]), rmod).Cmp(new(big.Int).SetBytes(its[pf[k]].m)) == 0 {
						alias = true
					}
				}
			}
			if inRange && match {
				e.Oracle("zk_verifies_own", cls == "ok", "Msg/SubmitValidityProof %s: matching proofs rejected", tag)
				_, found, _ := c.App.DaKeeper.GetProof(c.Ctx(), uri, val)
				e.Oracle("proof_stored", found == (cls == "ok"), "Msg/SubmitValidityProof %s", tag)
			} else if inRange {
				cl := "handler_mismatch"
				if alias {
					cl = "alias_handler"
				}
				e.Oracle("zk_binds", cls != "ok", "class=%s Msg/SubmitValidityProof accepted a proof against another double hash (%s)", cl, tag)
			} else {
				e.Oracle("index_out_of_range_is_error", cls == "err", "Msg/SubmitValidityProof %s -> %s", tag, cls)
			}
		}
	}
	ys := make([][]byte, len(its))
	all := make([]int64, len(its))
	allP := make([]int, len(its))
	for i, it := range its {
		ys[i], all[i], allP[i] = it.m, int64(i), i
	}
	n := len(its)
	submit(ys, all, allP, "all")
	submit(ys, []int64{}, []int{}, "none")
	rounds := e.N
	for q := 0; q < rounds; q++ {
		i, j := r.N(n), r.N(n)
		submit(ys, []int64{int64(j)}, []int{i}, "single") // ok iff i == j
		// a permutation with one wrong position
		k := 1 + r.N(n)
		idx, pf := []int64{}, []int{}
		for t := 0; t < k; t++ {
			x := r.N(n)
			idx, pf = append(idx, int64(x)), append(pf, x)
		}
		submit(ys, idx, pf, "multi_ok")
		w := r.N(k)
		pf2 := append([]int{}, pf...)
		pf2[w] = (pf[w] + 1 + r.N(n-1)) % n
		submit(ys, idx, pf2, "multi_one_wrong")
		submit(ys, append(append([]int64{}, idx...), int64(n+r.N(3))), append(append([]int{}, pf...), r.N(n)), "index_overflow")
		submit(ys, idx, pf[:k-1], "len_mismatch")
		// the SAME proof bytes twice in one message, the second time against another (or a nonexistent) shard: whatever a handler
		// remembers about a proof it has verified, a proof is only good for the double hash it was verified against
		j2 := (i + 1 + r.N(n-1)) % n
		submit(ys, []int64{int64(i), int64(j2)}, []int{i, i}, "repeat_other_shard")
		if q%2 == 0 {
			submit(ys, []int64{int64(i), int64(n + r.N(3))}, []int{i, i}, "repeat_out_of_range")
		}
	}
	// stored double hash in a non-canonical encoding of the same field element (known finding)
	ys2 := append([][]byte{}, ys...)
	ys2[0] = new(big.Int).Add(new(big.Int).SetBytes(ys[0]), rmod).FillBytes(make([]byte, 32))
	submit(ys2, []int64{0}, []int{0}, "alias")
	ys2[1] = append([]byte{0, 0}, ys[1]...)
	submit(ys2, []int64{1, 2}, []int{1, 2}, "alias")
	ys2[2] = []byte{}
	submit(ys2, []int64{2}, []int{2}, "empty_hash")
}

// decodeInChild runs `Proof.ReadFrom(bz)` (the first thing Msg/SubmitValidityProof does with msg.Proofs[i]) in a child
// process whose address space is limited, because a Go out-of-memory is a fatal error that cannot be recovered.
func decodeInChild(e *Env, bz []byte) string {
	f, err := os.CreateTemp("", "svh-zkdecode-*.ops")
	if err != nil {
		return "infra"
	}
	defer os.Remove(f.Name())
	fmt.Fprintf(f, "zkdecode %s\n", hx(bz))
	f.Close()
	self, err := os.Executable()
	if err != nil {
		return "infra"
	}
	cmd := exec.Command("sh", "-c", `ulimit -v 6291456; exec "$0" -replay "$1" rs`, self, f.Name())
	out, err := cmd.CombinedOutput()
	so := string(out)
	switch {
	case strings.Contains(so, "out of memory") || strings.Contains(so, "cannot allocate memory"):
		return "fatal_oom"
	case err != nil:
		return "crash"
	case strings.Contains(so, "\nerr\n"):
		return "err"
	case strings.Contains(so, "\nok\n"):
		return "ok"
	case strings.Contains(so, "\npanic\n"):
		return "panic"
	}
	return "unknown"
}

// ---------------------------------------------------------------------------------------------- replay

func unhx(s string) []byte {
	if s == "-" {
		return []byte{}
	}
	b, _ := hex.DecodeString(s)
	return b
}

// rsReplay re-executes self-contained op lines (as printed after "> ") on the real code.
func rsReplay(e *Env) {
	data, err := os.ReadFile(e.Replay)
	if err != nil {
		e.Obs("replay-error %v", err)
		return
	}
	var z *zkEnv
	atoi := func(s string) int { v, _ := strconv.ParseInt(s, 10, 64); return int(v) }
	for _, line := range strings.Split(string(data), "\n") {
		t := strings.Fields(strings.TrimPrefix(line, "> "))
		if len(t) == 0 {
			continue
		}
		switch {
		case t[0] == "gfcheck":
			e.In("gfcheck")
			e.Obs("ok")
		case t[0] == "enc" && len(t) == 4:
			rsEnc(e, unhx(t[3]), atoi(t[1]), atoi(t[2]), true)
		case (t[0] == "rec" || t[0] == "join") && len(t) >= 3:
			in := make([][]byte, len(t)-3)
			for i, s := range t[3:] {
				switch s {
				case "nil":
					in[i] = nil
				case "e":
					in[i] = []byte{}
				default:
					in[i] = unhx(s)
				}
			}
			var out []byte
			cls := guard3(func() (err error) {
				if t[0] == "rec" {
					out, err = ec.ReconstructAndJoinShards(in, atoi(t[1]), atoi(t[2]))
				} else {
					out, err = ec.JoinShards(in, atoi(t[1]), atoi(t[2]))
				}
				return
			})
			e.In("%s", strings.Join(t, " "))
			e.Obs("%s", map[bool]string{true: "ok " + hx(out), false: cls}[cls == "ok"])
		case t[0] == "idx" && len(t) == 5:
			s1, _ := strconv.ParseUint(t[3], 10, 64)
			s2, _ := strconv.ParseUint(t[4], 10, 64)
			n, th := int64(atoi(t[1])), int64(atoi(t[2]))
			var out []int64
			cls := guard3(func() error { out = datypes.GetRandomIndicesFromSeed(n, th, s1, s2); return nil })
			e.In("%s", strings.Join(t, " "))
			e.Obs("%s", map[bool]string{true: "ok " + rsIdxStr(out), false: cls}[cls == "ok"])
			if n >= 0 && th >= 0 {
				want := min(th, n)
				seen := map[int64]bool{}
				good := cls == "ok" && int64(len(out)) == want
				for _, x := range out {
					good = good && x >= 0 && x < n && !seen[x]
					seen[x] = true
				}
				e.Oracle("assign_distinct_in_range", good, "n=%d t=%d -> %s %v", n, th, cls, out)
			}
		case t[0] == "zkdecode" && len(t) == 2:
			// through the REAL handler: a CHALLENGING item, a bonded validator, the given bytes as the only proof
			e.In("zkdecode %s", t[1])
			c, err := sim.New(sim.DefaultConfig())
			if err != nil {
				e.Obs("setup-error %v", err)
				return
			}
			cls := vpSubmit(c, "ipfs://rs/decode", [][]byte{make([]byte, 32)}, []int64{0}, [][]byte{unhx(t[1])})
			e.Obs("%s", cls)
		case (t[0] == "zkverify" || t[0] == "zkprove") && len(t) == 4:
			if z == nil {
				if z = zkSetup(e); z == nil {
					return
				}
			}
			h, y := unhx(t[3]), unhx(t[2])
			m := mimcOf(h)
			e.In("%s %s %s %s", t[0], new(big.Int).SetBytes(m), t[2], t[3])
			if t[0] == "zkprove" {
				_, cls := z.prove(h, y)
				e.Obs("%s", cls)
			} else {
				proof, cls := z.prove(h, m)
				if cls == "ok" {
					cls = z.verify(proof, y)
				}
				e.Obs("%s", cls)
				if !bytes.Equal(y, m) {
					e.Oracle("zk_binds", cls != "ok", "class=replay proof verified against bytes %s != double hash %s", hx(y), hx(m))
				}
			}
		default:
			e.In("%s", strings.Join(t, " "))
			e.Obs("not-replayable")
		}
	}
}


// Governance replaces the zkp key pair (MsgUpdateParams with a fresh groth16.Setup of the same circuit) on a chain that has
// already verified proofs under the old pair: from then on a proof made with the NEW proving key for shard hash h must be
// accepted against MiMC(h), and proofs made with the REPLACED key must be refused — the proof binds to the parameters in force.
func rsKeyRotation(e *Env, items []zkItem) {
	if len(items) < 2 {
		return
	}
	z := zkSetup(e)
	if z == nil {
		return
	}
	c, err := sim.New(sim.DefaultConfig())
	if err != nil {
		e.Obs("setup-error %v", err)
		return
	}
	a, b := items[0], items[1]
	if string(a.m) == string(b.m) {
		return
	}
	// the process has decoded the old pair at least once
	pre := vpSubmit(c, "ipfs://rot/0", [][]byte{a.m, b.m}, []int64{0}, [][]byte{a.proof})
	e.Oracle("zk_verifies_own", pre == "ok", "class=before_key_rotation Msg/SubmitValidityProof with the genesis key pair: %s", pre)
	pk2, vk2, err := groth16.Setup(z.ccs)
	if err != nil {
		e.Note("key rotation: setup: %v", err)
		return
	}
	pkBz, err1 := zkp.MarshalProvingKey(pk2)
	vkBz, err2 := zkp.MarshalVerifyingKey(vk2)
	if err1 != nil || err2 != nil {
		e.Note("key rotation: marshal: %v %v", err1, err2)
		return
	}
	par, _ := c.App.DaKeeper.Params.Get(c.Ctx())
	par.ZkpProvingKey, par.ZkpVerifyingKey = pkBz, vkBz
	auth, _ := c.App.AuthKeeper.AddressCodec().BytesToString(c.App.DaKeeper.GetAuthority())
	if _, err, p := c.Exec(&datypes.MsgUpdateParams{Authority: auth, Params: par}); err != nil || p != nil {
		e.Note("key rotation: MsgUpdateParams: %v %v", err, p)
		return
	}
	z2 := &zkEnv{ccs: z.ccs, pk: pk2, vk: vk2}
	newA, cls := z2.prove(a.h, a.m)
	if cls != "ok" {
		e.Note("key rotation: prove: %s", cls)
		return
	}
	got := vpSubmit(c, "ipfs://rot/1", [][]byte{a.m, b.m}, []int64{0}, [][]byte{newA})
	e.Oracle("zk_verifies_own", got == "ok", "class=after_key_rotation a proof made with the proving key now in the parameters is refused: %s", got)
	got = vpSubmit(c, "ipfs://rot/2", [][]byte{a.m, b.m}, []int64{1}, [][]byte{newA})
	e.Oracle("zk_binds", got != "ok", "class=after_key_rotation new-key proof for shard 0 accepted for shard 1")
	got = vpSubmit(c, "ipfs://rot/3", [][]byte{a.m, b.m}, []int64{0}, [][]byte{a.proof})
	e.Oracle("zk_binds", got != "ok", "class=replaced_key a proof made with the REPLACED proving key is still accepted")
	e.Stat("zk.key_rotation")
}
