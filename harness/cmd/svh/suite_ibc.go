package main

// C11 — IBC swap middleware on the REAL stack: ibc core (09-localhost client), ics29 fee middleware, swap middleware,
// transfer app, x/swap keeper, x/liquiditypool, x/bank. Two transfer channels of the same application are looped
// back (transfer/channel-0 <-> transfer/channel-1); every packet is relayed by MsgRecvPacket / MsgAcknowledgement /
// MsgTimeout through the message router, so core's "discard the receive on an error acknowledgement" is the real one.
//
// Trace: `> reset`, `> transfer`, `> recv`, `> ack`, `> timeout` are the model's inputs (ext values are fields of the
// op: swap=…, tok=…, seq=…); `res/bal/inc/out/acks/commits` lines are observations; `! …` are oracle verdicts.

import (
	"crypto/sha256"
	"encoding/hex"
	"encoding/json"
	"errors"
	"fmt"
	"os"
	"regexp"
	"runtime/debug"
	"sort"
	"strconv"
	"strings"
	"time"

	sdkmath "cosmossdk.io/math"
	storetypes "cosmossdk.io/store/types"
	abci "github.com/cometbft/cometbft/abci/types"
	sdk "github.com/cosmos/cosmos-sdk/types"
	authtypes "github.com/cosmos/cosmos-sdk/x/auth/types"
	transfertypes "github.com/cosmos/ibc-go/v9/modules/apps/transfer/types"
	clienttypes "github.com/cosmos/ibc-go/v9/modules/core/02-client/types"
	channeltypes "github.com/cosmos/ibc-go/v9/modules/core/04-channel/types"
	"github.com/gogo/protobuf/jsonpb"

	lptypes "github.com/sunriselayer/sunrise/x/liquiditypool/types"
	swaptypes "github.com/sunriselayer/sunrise/x/swap/types"

	"svh/sim"
)

func init() { register("ibc", suiteIbc) }

const (
	ch0 = "channel-0"
	ch1 = "channel-1"
)

var sentinel = []byte{0x01}

type ibcPkt struct {
	P    channeltypes.Packet
	Data transfertypes.FungibleTokenPacketData
}

func (p ibcPkt) key() string    { return fmt.Sprintf("%s/%d", p.P.SourceChannel, p.P.Sequence) }
func (p ibcPkt) dstKey() string { return fmt.Sprintf("%s/%d", p.P.DestinationChannel, p.P.Sequence) }

type ibcH struct {
	e       *Env
	c       *sim.Chain
	names   map[string]string // bech32 -> canonical name
	addrs   map[string]string // canonical name -> bech32
	order   []string          // canonical account names in display order
	denoms  []string          // real denoms in display order
	acks    map[string][]byte // dst "channel/seq" -> ack bytes as written (from events, cross-checked with the store)
	ackKeys []string
	pkts    map[string]ibcPkt // src "channel/seq" -> packet (from send_packet events)
	debug   bool
	malformed bool // the current history carries a hand-written malformed memo (parser panics belong to C15)
}

func (h *ibcH) signer() string { return h.c.Accs[3].Addr.String() }

// dn: canonical denom name: native as is; voucher "channel-1/uaaa" (trace path without the port).
func (h *ibcH) dn(denom string) string {
	if strings.HasPrefix(denom, "ibc/") {
		hash, err := transfertypes.ParseHexHash(denom[4:])
		if err == nil {
			if d, ok := h.c.App.TransferKeeper.GetDenom(h.c.Ctx(), hash); ok {
				return strings.ReplaceAll(d.Path(), "transfer/", "")
			}
		}
		return "unknown-voucher"
	}
	return strings.ReplaceAll(denom, "transfer/", "")
}

func (h *ibcH) nm(addr string) string {
	if n, ok := h.names[addr]; ok {
		return n
	}
	return "other"
}

// exec: one message through the real message router on a branch of the committed state; written only on success.
func (h *ibcH) exec(msg sdk.Msg) (evs []abci.Event, err error, panicked any) {
	defer func() {
		if r := recover(); r != nil {
			panicked = r
			err = fmt.Errorf("panic: %v", r)
			evs = nil
			if h.debug {
				fmt.Fprintf(os.Stderr, "PANIC %T: %v\n%s\n", msg, r, debug.Stack())
			}
		}
	}()
	hd := h.c.App.MsgServiceRouter().Handler(msg)
	if hd == nil {
		return nil, fmt.Errorf("no handler for %T", msg), nil
	}
	ctx, write := h.c.Ctx().CacheContext()
	ctx = ctx.WithGasMeter(storetypes.NewGasMeter(100_000_000)).WithEventManager(sdk.NewEventManager())
	r, e := hd(ctx, msg)
	if e != nil {
		return nil, e, nil
	}
	write()
	evs = ctx.EventManager().ABCIEvents()
	if r != nil {
		evs = append(evs, r.Events...)
	}
	return evs, nil, nil
}

func attr(ev abci.Event, k string) string {
	for _, a := range ev.Attributes {
		if a.Key == k {
			return a.Value
		}
	}
	return ""
}

// harvest: remember every packet sent and every acknowledgement written in these events (deduplicated).
func (h *ibcH) harvest(evs []abci.Event) (sent []ibcPkt, wrote []string) {
	seenS, seenW := map[string]bool{}, map[string]bool{}
	for _, ev := range evs {
		switch ev.Type {
		case "send_packet", "write_acknowledgement":
			seq, _ := strconv.ParseUint(attr(ev, "packet_sequence"), 10, 64)
			data, _ := hex.DecodeString(attr(ev, "packet_data_hex"))
			ts, _ := strconv.ParseUint(attr(ev, "packet_timeout_timestamp"), 10, 64)
			th, _ := clienttypes.ParseHeight(attr(ev, "packet_timeout_height"))
			p := channeltypes.NewPacket(data, seq, attr(ev, "packet_src_port"), attr(ev, "packet_src_channel"),
				attr(ev, "packet_dst_port"), attr(ev, "packet_dst_channel"), th, ts)
			ip := ibcPkt{P: p}
			_ = transfertypes.ModuleCdc.UnmarshalJSON(data, &ip.Data)
			if ev.Type == "send_packet" {
				if seenS[ip.key()] {
					continue
				}
				seenS[ip.key()] = true
				h.pkts[ip.key()] = ip
				sent = append(sent, ip)
			} else {
				if seenW[ip.dstKey()] {
					continue
				}
				seenW[ip.dstKey()] = true
				ack, _ := hex.DecodeString(attr(ev, "packet_ack_hex"))
				if _, dup := h.acks[ip.dstKey()]; dup {
					h.e.Oracle("one_ack", false, "second acknowledgement written for %s", ip.dstKey())
				} else {
					h.ackKeys = append(h.ackKeys, ip.dstKey())
				}
				h.acks[ip.dstKey()] = ack
				wrote = append(wrote, ip.dstKey())
			}
		}
	}
	return
}

var abciCode = regexp.MustCompile(`ABCI code: (\d+)`)

// tok: canonical form of acknowledgement bytes.
func tok(bz []byte) string {
	if len(bz) == 0 {
		return "-"
	}
	var a channeltypes.Acknowledgement
	if err := transfertypes.ModuleCdc.UnmarshalJSON(bz, &a); err != nil {
		return "raw" + hex.EncodeToString(bz[:min(4, len(bz))])
	}
	switch r := a.Response.(type) {
	case *channeltypes.Acknowledgement_Error:
		if m := abciCode.FindStringSubmatch(r.Error); m != nil {
			return "E" + m[1]
		}
		return "E"
	case *channeltypes.Acknowledgement_Result:
		if len(r.Result) == 1 && r.Result[0] == 1 {
			return "S"
		}
		if sa, ok := parseSwapAck(r.Result); ok {
			return fmt.Sprintf("R[%s,%s,%s,%s,%s]", sa.Result.TokenIn.Amount, sa.Result.TokenOut.Amount, tok(sa.IncomingAck), tok(sa.ChangeAck), tok(sa.ForwardAck))
		}
		return "res" + hex.EncodeToString(r.Result[:min(4, len(r.Result))])
	}
	return "?"
}

type swapAckJSON struct {
	Result struct {
		TokenIn  struct{ Amount string `json:"amount"` } `json:"token_in"`
		TokenOut struct{ Amount string `json:"amount"` } `json:"token_out"`
	} `json:"result"`
	IncomingAck []byte `json:"ibc_ack"`
	ChangeAck   []byte `json:"change_ack"`
	ForwardAck  []byte `json:"forward_ack"`
}

// parseSwapAck: types.SwapAcknowledgement as written (RouteResult holds a oneof that encoding/json cannot read back).
func parseSwapAck(bz []byte) (swapAckJSON, bool) {
	var sa swapAckJSON
	if err := json.Unmarshal(bz, &sa); err != nil || sa.Result.TokenIn.Amount == "" {
		return sa, false
	}
	return sa, true
}

func ackIsError(bz []byte) bool { return strings.HasPrefix(tok(bz), "E") }

func (h *ibcH) height() clienttypes.Height { return clienttypes.NewHeight(1, uint64(h.c.Height)) }

// ---------------------------------------------------------------- observations
func (h *ibcH) balLine() string {
	var sb strings.Builder
	sb.WriteString("bal")
	for _, n := range h.order {
		for _, d := range h.denoms {
			v := h.balOf(n, d)
			if !v.IsZero() {
				fmt.Fprintf(&sb, " %s.%s=%s", n, h.dn(d), v)
			}
		}
	}
	return sb.String()
}

func idx(p swaptypes.PacketIndex) string { return fmt.Sprintf("%s/%d", p.ChannelId, p.Sequence) }

func (h *ibcH) storeLines() (string, string, int, int) {
	ctx := h.c.Ctx()
	incs, _ := h.c.App.SwapKeeper.GetIncomingInFlightPackets(ctx)
	outs, _ := h.c.App.SwapKeeper.GetOutgoingInFlightPackets(ctx)
	var is, os []string
	for _, r := range incs {
		slot := func(i *swaptypes.PacketIndex, a []byte, isIdx bool) string {
			if isIdx {
				return "idx:" + idx(*i)
			}
			if len(a) == 0 {
				return "none"
			}
			return "ack:" + tok(a)
		}
		cs, fs := "none", "none"
		switch x := r.Change.(type) {
		case *swaptypes.IncomingInFlightPacket_OutgoingIndexChange:
			cs = slot(x.OutgoingIndexChange, nil, true)
		case *swaptypes.IncomingInFlightPacket_AckChange:
			cs = slot(nil, x.AckChange, false)
		}
		switch x := r.Forward.(type) {
		case *swaptypes.IncomingInFlightPacket_OutgoingIndexForward:
			fs = slot(x.OutgoingIndexForward, nil, true)
		case *swaptypes.IncomingInFlightPacket_AckForward:
			fs = slot(nil, x.AckForward, false)
		}
		is = append(is, fmt.Sprintf("%s:change=%s,forward=%s,in=%s,out=%s,fee=%s,ack=%s", idx(r.Index), cs, fs,
			r.Result.TokenIn.Amount, r.Result.TokenOut.Amount, r.InterfaceFee, tok(r.Ack)))
	}
	for _, o := range outs {
		os = append(os, fmt.Sprintf("%s:wait=%s,retries=%d", idx(o.Index), idx(o.AckWaitingIndex), o.RetriesRemaining))
	}
	sort.Strings(is)
	sort.Strings(os)
	return "inc " + strings.Join(is, " "), "out " + strings.Join(os, " "), len(incs), len(outs)
}

func (h *ibcH) ackLine() string {
	ks := append([]string{}, h.ackKeys...)
	sort.Strings(ks)
	var xs []string
	ctx := h.c.Ctx()
	for _, k := range ks {
		parts := strings.Split(k, "/")
		seq, _ := strconv.ParseUint(parts[1], 10, 64)
		// tie the event to the channel store: the stored commitment must be the hash of these bytes
		st, ok := h.c.App.IBCKeeper.ChannelKeeper.GetPacketAcknowledgement(ctx, "transfer", parts[0], seq)
		if !ok || hex.EncodeToString(st) != hex.EncodeToString(channeltypes.CommitAcknowledgement(h.acks[k])) {
			h.e.Oracle("ack_in_store", false, "ack %s from events is not what the channel store holds", k)
		}
		xs = append(xs, k+"="+tok(h.acks[k]))
	}
	return "acks " + strings.Join(xs, " ")
}

func (h *ibcH) commitLine() string {
	var xs []string
	ctx := h.c.Ctx()
	for _, ch := range []string{ch0, ch1} {
		next, _ := h.c.App.IBCKeeper.ChannelKeeper.GetNextSequenceSend(ctx, "transfer", ch)
		for s := uint64(1); s < next; s++ {
			if len(h.c.App.IBCKeeper.ChannelKeeper.GetPacketCommitment(ctx, "transfer", ch, s)) > 0 {
				xs = append(xs, fmt.Sprintf("%s/%d", ch, s))
			}
		}
	}
	return "commits " + strings.Join(xs, " ")
}

func (h *ibcH) observe(res string) {
	h.e.Obs("res %s", res)
	h.e.Obs("%s", h.balLine())
	i, o, _, _ := h.storeLines()
	h.e.Obs("%s", i)
	h.e.Obs("%s", o)
	h.e.Obs("%s", h.ackLine())
	h.e.Obs("%s", h.commitLine())
}

func (h *ibcH) nextSeq(ch string) uint64 {
	n, _ := h.c.App.IBCKeeper.ChannelKeeper.GetNextSequenceSend(h.c.Ctx(), "transfer", ch)
	return n
}

func (h *ibcH) reset() {
	var bs []string
	for _, n := range h.order {
		for _, d := range h.denoms {
			v := h.balOf(n, d)
			if !v.IsZero() {
				bs = append(bs, fmt.Sprintf("%s~%s~%s", n, h.dn(d), v))
			}
		}
	}
	var ds []string
	for _, d := range h.denoms {
		ds = append(ds, h.dn(d))
	}
	h.e.In("reset accts=%s denoms=%s nextseq=%s:%d,%s:%d bal=%s", strings.Join(h.order, ","), strings.Join(ds, ","),
		ch0, h.nextSeq(ch0), ch1, h.nextSeq(ch1), strings.Join(bs, ","))
}

// ---------------------------------------------------------------- setup
func voucher(ch, base string) string {
	return transfertypes.NewDenom(base, transfertypes.NewHop("transfer", ch)).IBCDenom()
}

func newIbcH(e *Env) (*ibcH, error) {
	c, err := sim.New(sim.DefaultConfig())
	if err != nil {
		return nil, err
	}
	h := &ibcH{e: e, c: c, names: map[string]string{}, addrs: map[string]string{}, acks: map[string][]byte{}, pkts: map[string]ibcPkt{},
		debug: os.Getenv("SVH_DEBUG") != ""}
	add := func(n string, a sdk.AccAddress) {
		h.names[a.String()] = n
		h.addrs[n] = a.String()
		h.order = append(h.order, n)
	}
	for i, a := range c.Accs {
		add(fmt.Sprintf("a%d", i), a.Addr)
	}
	fh := sha256.Sum256([]byte("fresh-receiver-0"))
	add("f0", sdk.AccAddress(fh[:20]))
	add("module:swap", authtypes.NewModuleAddress(swaptypes.ModuleName))
	add("module:transfer", authtypes.NewModuleAddress(transfertypes.ModuleName))
	add("pool0", lptypes.NewPoolAddress(0))
	add("pool1", lptypes.NewPoolAddress(1))
	add("escrow:"+ch0, transfertypes.GetEscrowAddress("transfer", ch0))
	add("escrow:"+ch1, transfertypes.GetEscrowAddress("transfer", ch1))
	h.denoms = []string{"uaaa", "ubbb", voucher(ch0, "uaaa"), voucher(ch1, "uaaa"), voucher(ch0, "ubbb"), voucher(ch1, "ubbb")}

	s := h.signer()
	hops := []string{"connection-localhost"}
	must := func(what string, msg sdk.Msg) error {
		if _, err, p := h.exec(msg); err != nil || p != nil {
			return fmt.Errorf("%s: %v %v", what, err, p)
		}
		return nil
	}
	if err := must("init", channeltypes.NewMsgChannelOpenInit("transfer", "ics20-1", channeltypes.UNORDERED, hops, "transfer", s)); err != nil {
		return nil, err
	}
	if err := must("try", channeltypes.NewMsgChannelOpenTry("transfer", "ics20-1", channeltypes.UNORDERED, hops, "transfer", ch0, "ics20-1", sentinel, h.height(), s)); err != nil {
		return nil, err
	}
	if err := must("ack", channeltypes.NewMsgChannelOpenAck("transfer", ch0, ch1, "ics20-1", sentinel, h.height(), s)); err != nil {
		return nil, err
	}
	if err := must("confirm", channeltypes.NewMsgChannelOpenConfirm("transfer", ch1, sentinel, h.height(), s)); err != nil {
		return nil, err
	}
	// float: a0 sends both native denoms over both channels (vouchers come back to a0; both escrow accounts hold both denoms)
	big := sdkmath.NewIntWithDecimal(1, 36)
	for _, ch := range []string{ch0, ch1} {
		for _, d := range []string{"uaaa", "ubbb"} {
			p, err := h.rawTransfer(0, ch, sdk.NewCoin(d, big), c.Accs[0].Addr.String(), "")
			if err != nil {
				return nil, fmt.Errorf("float transfer: %w", err)
			}
			if _, err, pn := h.exec(channeltypes.NewMsgRecvPacket(p.P, sentinel, h.height(), s)); err != nil || pn != nil {
				return nil, fmt.Errorf("float recv: %v %v", err, pn)
			}
			if _, err, pn := h.exec(channeltypes.NewMsgAcknowledgement(p.P, channeltypes.NewResultAcknowledgement([]byte{1}).Acknowledgement(), sentinel, h.height(), s)); err != nil || pn != nil {
				return nil, fmt.Errorf("float ack: %v %v", err, pn)
			}
		}
	}
	// pool 0: uaaa/ubbb (native both), pool 1: voucher(channel-1/ubbb)/uaaa. Liquidity by a0 around price 1.
	mkPool := func(base, quote string) error {
		if err := must("create pool", &lptypes.MsgCreatePool{Authority: c.Accs[0].Addr.String(), DenomBase: base, DenomQuote: quote,
			FeeRate: "0.003", PriceRatio: "1.0001", BaseOffset: "0.5"}); err != nil {
			return err
		}
		return nil
	}
	if err := mkPool("uaaa", "ubbb"); err != nil {
		return nil, err
	}
	if err := mkPool(voucher(ch1, "ubbb"), "uaaa"); err != nil {
		return nil, err
	}
	liq := sdkmath.NewIntWithDecimal(1, 15)
	for id, bq := range [][2]string{{"uaaa", "ubbb"}, {voucher(ch1, "ubbb"), "uaaa"}} {
		if err := must("create position", &lptypes.MsgCreatePosition{Sender: c.Accs[0].Addr.String(), PoolId: uint64(id), LowerTick: -2000, UpperTick: 2000,
			TokenBase: sdk.NewCoin(bq[0], liq), TokenQuote: sdk.NewCoin(bq[1], liq), MinAmountBase: sdkmath.ZeroInt(), MinAmountQuote: sdkmath.ZeroInt()}); err != nil {
			return nil, err
		}
	}
	if _, err := c.NextBlock(6 * time.Second); err != nil {
		return nil, err
	}
	h.acks, h.ackKeys = map[string][]byte{}, nil
	return h, nil
}

// rawTransfer: user-level MsgTransfer (timeout far in the future); returns the packet that was sent.
func (h *ibcH) rawTransfer(from int, ch string, coin sdk.Coin, receiver, memo string) (ibcPkt, error) {
	msg := transfertypes.NewMsgTransfer("transfer", ch, sdk.NewCoins(coin), h.c.Accs[from].Addr.String(), receiver,
		clienttypes.ZeroHeight(), uint64(h.c.Time.Add(100*24*time.Hour).UnixNano()), memo, nil)
	evs, err, p := h.exec(msg)
	if p != nil {
		return ibcPkt{}, fmt.Errorf("panic %v", p)
	}
	if err != nil {
		return ibcPkt{}, err
	}
	sent, _ := h.harvest(evs)
	if len(sent) != 1 {
		return ibcPkt{}, fmt.Errorf("expected one send_packet event, got %d", len(sent))
	}
	return sent[0], nil
}

// ---------------------------------------------------------------- scenario description
type legSpec struct {
	present  bool
	ch       string
	receiver string // canonical: a3 | bad | blocked
	retries  uint32 // 0 = default (3)
	timeouts int    // planned number of timeouts before the final event (== total attempts ⇒ exhausted)
}

func (l legSpec) attempts() int {
	if l.retries == 0 {
		return int(swaptypes.DefaultRetryCount)
	}
	return int(l.retries)
}

type scenario struct {
	dir       int // 1: voucher of uaaa sent back over channel-1, arrives as native uaaa on channel-0 (pool 0: uaaa->ubbb)
	// 2: native ubbb over channel-0, arrives as voucher channel-1/ubbb on channel-1 (pool 1: v->uaaa)
	amount    sdkmath.Int
	strat     string // in | out
	minOrOut  sdkmath.Int
	exactFit  bool // exact-output: send exactly the quoted input
	provider  bool
	receiver  string // a1 | f0
	change    legSpec
	forward   legSpec
	fail      string // "" | route_in | route_out | pool | limit | liquidity
	memoRaw   string // malformed memo (overrides everything) or ""
}

func (h *ibcH) legMeta(l legSpec) *swaptypes.ForwardMetadata {
	if !l.present {
		return nil
	}
	rc := h.addrs["a3"]
	switch l.receiver {
	case "bad":
		rc = "not-a-bech32-address"
	case "blocked":
		rc = authtypes.NewModuleAddress(lptypes.ModuleName).String()
	}
	return &swaptypes.ForwardMetadata{Receiver: rc, Port: "transfer", Channel: l.ch, Timeout: 5 * time.Minute, Retries: l.retries}
}

func (h *ibcH) buildMemo(sc scenario, denomIn, denomOut string, pool uint64) string {
	if sc.memoRaw != "" {
		return sc.memoRaw
	}
	m := swaptypes.PacketMetadata{Swap: &swaptypes.SwapMetadata{
		Route:   &swaptypes.Route{DenomIn: denomIn, DenomOut: denomOut, Strategy: &swaptypes.Route_Pool{Pool: &swaptypes.RoutePool{PoolId: pool}}},
		Forward: h.legMeta(sc.forward),
	}}
	if sc.provider {
		m.Swap.InterfaceProvider = h.addrs["a2"]
	}
	if sc.strat == "in" {
		m.Swap.AmountStrategy = &swaptypes.SwapMetadata_ExactAmountIn{ExactAmountIn: &swaptypes.ExactAmountIn{MinAmountOut: sc.minOrOut}}
	} else {
		m.Swap.AmountStrategy = &swaptypes.SwapMetadata_ExactAmountOut{ExactAmountOut: &swaptypes.ExactAmountOut{AmountOut: sc.minOrOut, Change: h.legMeta(sc.change)}}
	}
	js, err := (&jsonpb.Marshaler{OrigName: true}).MarshalToString(&m)
	if err != nil {
		panic(err)
	}
	return js
}

// memoClass: what the real decoder/validator do with this memo (the parser is another property's subject).
func memoClass(memo string) (cls string, md *swaptypes.SwapMetadata) {
	defer func() {
		if r := recover(); r != nil {
			cls, md = "panic", nil
		}
	}()
	m, err := swaptypes.DecodeSwapMetadata(memo)
	if err != nil {
		return "none", nil
	}
	md = m.Swap
	if err := md.Validate(); err != nil {
		return "invalid", nil
	}
	return "swap", md
}

func legStr(h *ibcH, l *swaptypes.ForwardMetadata) string {
	if l == nil {
		return "-"
	}
	rc := h.nm(l.Receiver)
	if rc == "other" {
		rc = "bad"
	}
	if l.Receiver == authtypes.NewModuleAddress(lptypes.ModuleName).String() {
		rc = "blocked"
	}
	return fmt.Sprintf("%s,%s,%d", l.Channel, rc, l.Retries)
}

// memoSpec: the canonical description of a packet's memo as the model needs it.
func (h *ibcH) memoSpec(memo string) string {
	if memo == "" {
		return "memo=none"
	}
	cls, md := memoClass(memo)
	if cls != "swap" {
		return "memo=" + cls
	}
	strat, chg := "in", "-"
	if x, ok := md.AmountStrategy.(*swaptypes.SwapMetadata_ExactAmountOut); ok {
		strat = "out"
		chg = legStr(h, x.ExactAmountOut.Change)
	} else if _, ok := md.AmountStrategy.(*swaptypes.SwapMetadata_ExactAmountIn); !ok {
		strat = "nil"
	}
	prov := "-"
	if md.InterfaceProvider != "" {
		prov = h.nm(md.InterfaceProvider)
	}
	pool := "pool-"
	if x, ok := md.Route.Strategy.(*swaptypes.Route_Pool); ok {
		pool = fmt.Sprintf("pool%d", x.Pool.PoolId)
	}
	return fmt.Sprintf("memo=swap rin=%s rout=%s pool=%s strat=%s provider=%s change=%s forward=%s", h.dn(md.Route.DenomIn), h.dn(md.Route.DenomOut), pool, strat, prov, chg, legStr(h, md.Forward))
}

// dryRunSwap: the swap result is a boundary parameter of the model (the swap itself is another property's subject):
// run the real keeper swap on a discarded branch in which the module account holds the incoming funds.
func (h *ibcH) dryRunSwap(md *swaptypes.SwapMetadata, denomIn string, amount sdkmath.Int) string {
	out := "err"
	mod := authtypes.NewModuleAddress(swaptypes.ModuleName)
	_, _ = h.c.Call(func(ctx sdk.Context) error {
		if err := h.c.App.BankKeeper.SendCoins(ctx, h.c.Accs[0].Addr, mod, sdk.NewCoins(sdk.NewCoin(denomIn, amount))); err != nil {
			out = "err"
			return errors.New("discard")
		}
		var res swaptypes.RouteResult
		var fee sdkmath.Int
		var err error
		switch s := md.AmountStrategy.(type) {
		case *swaptypes.SwapMetadata_ExactAmountIn:
			res, fee, err = h.c.App.SwapKeeper.SwapExactAmountIn(ctx, mod, md.InterfaceProvider, *md.Route, amount, s.ExactAmountIn.MinAmountOut)
		case *swaptypes.SwapMetadata_ExactAmountOut:
			res, fee, err = h.c.App.SwapKeeper.SwapExactAmountOut(ctx, mod, md.InterfaceProvider, *md.Route, amount, s.ExactAmountOut.AmountOut)
		default:
			err = errors.New("no strategy")
		}
		if err == nil {
			out = fmt.Sprintf("ok:%s:%s:%s", res.TokenIn.Amount, res.TokenOut.Amount, fee)
		}
		return errors.New("discard")
	})
	return out
}

// ---------------------------------------------------------------- relay operations (each = one model op)
func (h *ibcH) opTransfer(from int, ch string, coin sdk.Coin, receiver, memo string) (ibcPkt, bool) {
	rc := h.nm(receiver)
	if rc == "other" {
		rc = "bad"
	}
	seq := h.nextSeq(ch)
	h.e.In("transfer a%d %s %s %s to=%s seq=%d %s", from, ch, h.dn(coin.Denom), coin.Amount, rc, seq, h.memoSpec(memo))
	p, err := h.rawTransfer(from, ch, coin, receiver, memo)
	if err != nil {
		h.observe("err")
		return p, false
	}
	h.observe("ok")
	return p, true
}

type relayOut struct {
	cls   string
	sent  []ibcPkt
	wrote []string
}

func (h *ibcH) opRecv(p ibcPkt) relayOut {
	swapExt := "-"
	if cls, md := memoClass(p.Data.Memo); p.Data.Memo != "" && cls == "swap" {
		denomIn := swaptypes.GetDenomForThisChain(p.P.DestinationPort, p.P.DestinationChannel, p.P.SourcePort, p.P.SourceChannel, p.Data.Denom)
		amt, _ := sdkmath.NewIntFromString(p.Data.Amount)
		swapExt = h.dryRunSwap(md, denomIn, amt)
	}
	// execute first: the token of the acknowledgement actually written is an input of the model (error codes are not modelled)
	evs, err, pn := h.exec(channeltypes.NewMsgRecvPacket(p.P, sentinel, h.height(), h.signer()))
	out := relayOut{cls: class(err, pn)}
	t := "-"
	if out.cls == "ok" {
		out.sent, out.wrote = h.harvest(evs)
		if a, ok := h.acks[p.dstKey()]; ok {
			t = tok(a)
			if strings.HasPrefix(t, "R[") {
				t = "-" // successful swap acknowledgements are predicted by the model in full
			}
		}
	}
	var seqs []string
	for _, s := range out.sent {
		seqs = append(seqs, fmt.Sprintf("%d", s.P.Sequence))
	}
	h.e.In("recv %s %d swap=%s tok=%s seqs=%s", p.P.SourceChannel, p.P.Sequence, swapExt, t, strings.Join(seqs, ","))
	h.e.Oracle("no_panic", out.cls != "panic" || h.malformed, "MsgRecvPacket %s", p.key())
	h.observe(out.cls)
	return out
}

func (h *ibcH) opAck(p ibcPkt) relayOut {
	ack, ok := h.acks[p.dstKey()]
	if !ok {
		ack = []byte("{}")
	}
	h.e.In("ack %s %d", p.P.SourceChannel, p.P.Sequence)
	evs, err, pn := h.exec(channeltypes.NewMsgAcknowledgement(p.P, ack, sentinel, h.height(), h.signer()))
	out := relayOut{cls: class(err, pn)}
	if out.cls == "ok" {
		out.sent, out.wrote = h.harvest(evs)
	}
	h.e.Oracle("no_panic", out.cls != "panic", "MsgAcknowledgement %s", p.key())
	h.observe(out.cls)
	return out
}

// setChannelState rewrites the state of one channel end in the core IBC store (fault injection at the boundary: a channel that
// is closed or flushing cannot carry a re-sent packet)
func (h *ibcH) setChannelState(port, ch string, st channeltypes.State) {
	_, _ = h.c.Call(func(ctx sdk.Context) error {
		k := h.c.App.IBCKeeper.ChannelKeeper
		c, found := k.GetChannel(ctx, port, ch)
		if !found {
			return fmt.Errorf("channel %s not found", ch)
		}
		c.State = st
		k.SetChannel(ctx, port, ch, c)
		return nil
	})
}

func (h *ibcH) opTimeout(p ibcPkt, noSend ...bool) relayOut {
	if _, err := h.c.NextBlock(11 * time.Minute); err != nil {
		h.e.Obs("halt %v", err)
	}
	fault := len(noSend) > 0 && noSend[0]
	if fault {
		h.setChannelState(p.P.SourcePort, p.P.SourceChannel, channeltypes.CLOSED)
	}
	evs, err, pn := h.exec(channeltypes.NewMsgTimeout(p.P, 1, sentinel, h.height(), h.signer()))
	if fault {
		h.setChannelState(p.P.SourcePort, p.P.SourceChannel, channeltypes.OPEN)
	}
	out := relayOut{cls: class(err, pn)}
	seqs := ""
	if out.cls == "ok" {
		out.sent, out.wrote = h.harvest(evs)
		for _, s := range out.sent {
			seqs += fmt.Sprintf("%d", s.P.Sequence)
		}
	}
	if fault {
		seqs += " send=fail"
	}
	h.e.In("timeout %s %d seqs=%s", p.P.SourceChannel, p.P.Sequence, seqs)
	h.e.Oracle("no_panic", out.cls != "panic", "MsgTimeout %s", p.key())
	h.observe(out.cls)
	return out
}

// ---------------------------------------------------------------- one history
type legRun struct {
	name     string // change | forward
	spec     legSpec
	cur      ibcPkt
	timeouts int  // timeouts delivered so far
	done     bool // the leg has its outcome
	final    []byte
	hasFinal bool
	received bool // current attempt already received on the far side
}

func (h *ibcH) balOf(name, denom string) sdkmath.Int {
	a, _ := sdk.AccAddressFromBech32(h.addrs[name])
	v := h.c.Bal(a, denom)
	if strings.HasPrefix(name, "pool") { // the pool's fee account is shown together with the pool account
		id, _ := strconv.ParseUint(name[4:], 10, 64)
		v = v.Add(h.c.Bal(lptypes.NewPoolFeesAddress(id), denom))
	}
	return v
}

func (h *ibcH) snapshot() map[string]sdkmath.Int {
	m := map[string]sdkmath.Int{}
	for _, n := range h.order {
		for _, d := range h.denoms {
			m[n+"."+d] = h.balOf(n, d)
		}
	}
	return m
}

func snapEq(a, b map[string]sdkmath.Int) bool {
	if len(a) != len(b) {
		return false
	}
	for k, v := range a {
		if w, ok := b[k]; !ok || !v.Equal(w) {
			return false
		}
	}
	return true
}

func (h *ibcH) runHistory(sc scenario) {
	e := h.e
	h.reset()
	var sendCh, denomSend, denomIn, denomOut string
	var pool uint64
	if sc.dir == 1 {
		sendCh, denomSend, denomIn, denomOut, pool = ch1, voucher(ch1, "uaaa"), "uaaa", "ubbb", 0
	} else {
		sendCh, denomSend, denomIn, denomOut, pool = ch0, "ubbb", voucher(ch1, "ubbb"), "uaaa", 1
	}
	poolName := fmt.Sprintf("pool%d", pool)
	rin, rout := denomIn, denomOut
	switch sc.fail {
	case "route_in":
		rin = "uccc"
	case "route_out":
		rout = "uccc"
	case "pool":
		pool = 77
	}
	// exact fit: the packet carries exactly the amount the exact-output swap needs, so that no remainder exists although the
	// memo names a change destination (no change leg is created; the acknowledgement must still be written)
	if sc.strat == "out" && sc.fail == "" && sc.memoRaw == "" && sc.exactFit {
		route := swaptypes.Route{DenomIn: rin, DenomOut: rout, Strategy: &swaptypes.Route_Pool{Pool: &swaptypes.RoutePool{PoolId: pool}}}
		func() {
			defer func() { _ = recover() }()
			ctx, _ := h.c.Ctx().CacheContext()
			if res, _, err := h.c.App.SwapKeeper.CalculateResultExactAmountOut(ctx, sc.provider, route, sc.minOrOut); err == nil && res.TokenIn.Amount.IsPositive() {
				sc.amount = res.TokenIn.Amount
				e.Stat("scenario.exact_fit")
			}
		}()
	}
	memo := h.buildMemo(sc, rin, rout, pool)
	feat := fmt.Sprintf("dir=%d strategy=%s has_change=%v has_forward=%v receiver=%s provider=%v fail=%s", sc.dir, sc.strat, sc.change.present && sc.strat == "out", sc.forward.present, sc.receiver, sc.provider, ibcOrDash(sc.fail))
	h.malformed = sc.memoRaw != ""
	if sc.memoRaw != "" {
		feat = "malformed_memo=true"
	}
	e.Note("scenario %s amount=%s limit=%s change=%+v forward=%+v", feat, sc.amount, sc.minOrOut, sc.change, sc.forward)

	if sc.forward.present && sc.change.present && sc.strat == "out" && sc.forward.ch != sc.change.ch && sc.memoRaw == "" && h.e.R.N(3) > 0 {
		// both legs leave on different channels: make them get the SAME packet sequence on their own channel (plain
		// transfers pad the channel that is behind), so that a leg is identified by channel AND sequence or not at all
		s0, s1 := h.nextSeq(ch0), h.nextSeq(ch1)
		if sendCh == ch0 {
			s0++
		} else {
			s1++
		}
		for n := 0; s0 != s1 && n < 12; n++ {
			if s0 < s1 {
				if _, ok := h.opTransfer(0, ch0, sdk.NewCoin("uaaa", sdkmath.OneInt()), h.addrs["a3"], ""); !ok {
					break
				}
				s0++
			} else {
				if _, ok := h.opTransfer(0, ch1, sdk.NewCoin("uaaa", sdkmath.OneInt()), h.addrs["a3"], ""); !ok {
					break
				}
				s1++
			}
		}
		if s0 == s1 {
			e.Stat("legs_same_sequence_on_different_channels")
		}
	}
	pre := h.snapshot()
	in, ok := h.opTransfer(0, sendCh, sdk.NewCoin(denomSend, sc.amount), h.addrs[sc.receiver], memo)
	if !ok {
		e.Stat("transfer.err")
		return
	}
	preRecv := h.snapshot()
	cls, mdParsed := memoClass(memo)
	swapWouldSucceed := false
	if cls == "swap" && memo != "" && mdParsed.AmountStrategy != nil {
		swapWouldSucceed = strings.HasPrefix(h.dryRunSwap(mdParsed, denomIn, sc.amount), "ok") && mdParsed.Route.DenomIn == denomIn
	}
	rr := h.opRecv(in)
	e.Stat("recv." + rr.cls)
	e.Stat("memo." + cls)
	inKey := in.dstKey()
	postRecv := h.snapshot()
	delta := func(a, b map[string]sdkmath.Int, n, d string) sdkmath.Int { return b[n+"."+d].Sub(a[n+"."+d]) }
	modUnchanged := func(a, b map[string]sdkmath.Int) (bool, string) {
		for _, d := range h.denoms {
			if !delta(a, b, "module:swap", d).IsZero() {
				return false, fmt.Sprintf("module:swap %s changed by %s", h.dn(d), delta(a, b, "module:swap", d))
			}
		}
		return true, ""
	}

	ackNow, wrote := h.acks[inKey]
	// legs: discovered from the packets the receive sent, in code order (change first, then forward)
	var legs []*legRun
	if rr.cls == "ok" && cls == "swap" && !(wrote && ackIsError(ackNow)) {
		specs := []struct {
			n string
			s legSpec
		}{}
		if sc.strat == "out" && sc.change.present {
			specs = append(specs, struct {
				n string
				s legSpec
			}{"change", sc.change})
		}
		if sc.forward.present {
			specs = append(specs, struct {
				n string
				s legSpec
			}{"forward", sc.forward})
		}
		// a change leg is only sent when there is a remainder
		sent := rr.sent
		for _, sp := range specs {
			if len(sent) == 0 {
				break
			}
			if sp.n == "change" && len(sent) < len(specs) {
				continue
			}
			legs = append(legs, &legRun{name: sp.n, spec: sp.s, cur: sent[0]})
			sent = sent[1:]
		}
	}
	if len(legs) == 2 {
		e.Stat("both_legs")
	}
	outstanding := func() int {
		n := 0
		for _, l := range legs {
			if !l.done {
				n++
			}
		}
		return n
	}
	// ---- oracle on the receive itself
	if rr.cls == "ok" && cls == "swap" {
		if wrote && ackIsError(ackNow) {
			// failed swap: refused and nothing kept
			same := true
			for k, v := range preRecv {
				if !postRecv[k].Equal(v) {
					same = false
				}
			}
			_, _, ni, no := h.storeLines()
			e.Oracle("failed_swap_refused", same && ni == 0 && no == 0, "%s error-ack=%s balances_unchanged=%v records=%d/%d", feat, tok(ackNow), same, ni, no)
			legsFine := (!sc.forward.present || true) && sc.fail == ""
			if legsFine && swapWouldSucceed {
				e.Oracle("refused_only_if_swap_fails", false, "%s receiver_holds_input=%v the swap itself succeeds, yet the packet is refused (%s)", feat, preRecv[sc.receiver+"."+denomIn].IsPositive(), tok(ackNow))
			}
			e.Stat("swap.refused")
		} else {
			e.Stat("swap.accepted")
			okm, why := modUnchanged(preRecv, postRecv)
			keptRem := delta(preRecv, postRecv, "module:swap", denomIn).Equal(sc.amount.Sub(delta(preRecv, postRecv, poolName, denomIn)))
			for _, d := range h.denoms {
				if d != denomIn && !delta(preRecv, postRecv, "module:swap", d).IsZero() {
					keptRem = false
				}
			}
			e.Oracle("module_balance_unchanged", okm, "%s after=recv kept_is_remainder=%v %s", feat, keptRem, why)
			// received = swappedIn + remainderReturned  (remainder returned = what the receiver got + what the change leg carries)
			swappedIn := delta(preRecv, postRecv, poolName, denomIn)
			toRecv := delta(preRecv, postRecv, sc.receiver, denomIn)
			chg := sdkmath.ZeroInt()
			fwd := sdkmath.ZeroInt()
			for _, l := range legs {
				a, _ := sdkmath.NewIntFromString(l.cur.Data.Amount)
				if l.name == "change" {
					chg = a
				} else {
					fwd = a
				}
			}
			e.Oracle("received_accounted", sc.amount.Equal(swappedIn.Add(toRecv).Add(chg)), "%s received=%s swappedIn=%s receiverDelta=%s changeLeg=%s", feat, sc.amount, swappedIn, toRecv, chg)
			swappedOut := delta(preRecv, postRecv, poolName, denomOut).Neg()
			fee := delta(preRecv, postRecv, "a2", denomOut)
			got := delta(preRecv, postRecv, sc.receiver, denomOut)
			e.Oracle("output_accounted", swappedOut.Equal(fee.Add(got).Add(fwd)), "%s swappedOut=%s fee=%s receiverDelta=%s forwardLeg=%s", feat, swappedOut, fee, got, fwd)
			e.Oracle("ack_only_after_all_legs", !(wrote && outstanding() > 0), "%s legs_outstanding=%d after=recv", feat, outstanding())
			if len(legs) == 0 {
				e.Oracle("one_ack", wrote, "%s no legs: the acknowledgement must be written by the receive", feat)
			}
		}
	}
	if rr.cls == "ok" && cls == "invalid" {
		e.Oracle("failed_swap_refused", wrote && ackIsError(ackNow), "%s invalid memo must be refused", feat)
	}

	// ---- relay the legs in a random order of events
	retryExceeded := channeltypes.NewErrorAcknowledgement(fmt.Errorf("x")).Acknowledgement() // placeholder, replaced below
	_ = retryExceeded
	prepare := func(l *legRun) {
		// the attempt that is planned to be acknowledged is received on the far side at once (before time moves on)
		if !l.done && !l.received && l.timeouts == l.spec.timeouts && l.spec.timeouts < l.spec.attempts() {
			r := h.opRecv(l.cur)
			l.received = true
			if r.cls != "ok" {
				e.Oracle("leg_relay", false, "%s far-side receive of %s leg failed: %s", feat, l.name, r.cls)
			}
		}
	}
	for _, l := range legs {
		prepare(l)
	}
	steps := 0
	for outstanding() > 0 && steps < 40 {
		steps++
		var open []*legRun
		for _, l := range legs {
			if !l.done {
				open = append(open, l)
			}
		}
		l := open[e.R.N(len(open))]
		_, hadAck := h.acks[inKey]
		if l.received {
			a := h.acks[l.cur.dstKey()]
			r := h.opAck(l.cur)
			e.Stat("leg.ack." + r.cls)
			l.done, l.final, l.hasFinal = true, a, true
			if r.cls != "ok" {
				e.Oracle("leg_relay", false, "%s ack of %s leg rejected: %s", feat, l.name, r.cls)
			}
		} else {
			retriesLeft := l.spec.attempts() - l.timeouts - 1 // attempts that may still be sent after this timeout
			before := h.snapshot()
			sender := h.nm(l.cur.Data.Sender)
			legDenom := transfertypes.ExtractDenomFromPath(l.cur.Data.Denom).IBCDenom()
			if retriesLeft > 0 && e.R.N(5) == 0 {
				// the channel is closed while this timeout is delivered: the packet cannot be re-sent, the message must fail as a
				// whole and leave everything as it was; the relayer delivers the timeout again once the channel is open
				b0 := h.snapshot()
				rf := h.opTimeout(l.cur, true)
				e.Stat("leg.timeout_nosend." + rf.cls)
				e.Oracle("failed_resend_changes_nothing", rf.cls == "err" && snapEq(b0, h.snapshot()), "%s leg=%s retries_left=%s timeout while the channel is closed: %s", feat, l.name, posClass(retriesLeft), rf.cls)
				if rf.cls != "err" {
					l.done = true // the leg's record is gone without an outcome: the history cannot go on
					continue
				}
			}
			r := h.opTimeout(l.cur)
			e.Stat("leg.timeout." + r.cls)
			after := h.snapshot()
			refunded := delta(before, after, sender, legDenom).IsPositive()
			resent := len(r.sent) > 0
			if r.cls == "ok" {
				e.Oracle("refund_xor_resend", refunded != resent, "%s leg=%s retries_left=%s refunded=%v resent=%v", feat, l.name, posClass(retriesLeft), refunded, resent)
				okm, why := modUnchanged(before, after)
				e.Oracle("module_balance_unchanged", okm, "%s after=timeout %s", feat, why)
			} else {
				e.Oracle("leg_relay", false, "%s timeout of %s leg rejected: %s retries_left=%s", feat, l.name, r.cls, posClass(retriesLeft))
				l.done = true // cannot make progress
				continue
			}
			l.timeouts++
			if resent {
				e.Stat("resend")
				l.cur = r.sent[0]
				l.received = false
				prepare(l)
			} else {
				l.done, l.hasFinal = true, true
				l.final = nil // the keeper's own "retry count exceeded" error acknowledgement
			}
		}
		_, hasAck := h.acks[inKey]
		if hasAck && !hadAck {
			e.Oracle("ack_only_after_all_legs", outstanding() == 0, "%s legs_outstanding=%d after=%s-event", feat, outstanding(), l.name)
		}
	}

	// ---- end of history: every leg has its outcome
	if rr.cls == "ok" && cls == "swap" && !(wrote && ackIsError(ackNow)) {
		final, has := h.acks[inKey]
		retried := false
		for _, l := range legs {
			if l.timeouts > 0 && l.timeouts < l.spec.attempts() || l.timeouts > 1 {
				retried = true
			}
		}
		e.Oracle("one_ack", has, "%s legs=%d retried=%v exactly one acknowledgement once every leg has its outcome", feat, len(legs), retried)
		_, _, ni, no := h.storeLines()
		e.Oracle("records_gone", ni == 0 && no == 0, "%s legs=%d retried=%v incoming=%d outgoing=%d", feat, len(legs), retried, ni, no)
		if has {
			var a channeltypes.Acknowledgement
			good := transfertypes.ModuleCdc.UnmarshalJSON(final, &a) == nil && a.GetResult() != nil
			sa, okp := parseSwapAck(a.GetResult())
			good = good && okp
			for _, l := range legs {
				want := l.final
				if l.hasFinal && want == nil {
					want = channeltypes.NewErrorAcknowledgement(fmt.Errorf("retry exceeded")).Acknowledgement()
					// only the class is compared for the keeper's own error acknowledgement
					gotB := sa.ForwardAck
					if l.name == "change" {
						gotB = sa.ChangeAck
					}
					if !ackIsError(gotB) {
						good = false
					}
					continue
				}
				gotB := sa.ForwardAck
				if l.name == "change" {
					gotB = sa.ChangeAck
				}
				if string(gotB) != string(want) {
					good = false
				}
			}
			if sc.strat != "out" || !sc.change.present || len(legs) == 0 || legs[0].name != "change" {
				if len(sa.ChangeAck) != 0 {
					good = false
				}
			}
			if !sc.forward.present && len(sa.ForwardAck) != 0 {
				good = false
			}
			e.Oracle("ack_reports_each_leg", good, "%s legs=%d ack=%s", feat, len(legs), tok(final))
		}
		okm, why := modUnchanged(pre, h.snapshot())
		endSnap := h.snapshot()
		keptRemEnd := delta(pre, endSnap, "module:swap", denomIn).Equal(sc.amount.Sub(delta(pre, endSnap, poolName, denomIn)))
		for _, d := range h.denoms {
			if d != denomIn && !delta(pre, endSnap, "module:swap", d).IsZero() {
				keptRemEnd = false
			}
		}
		e.Oracle("module_balance_unchanged", okm, "%s after=end kept_is_remainder=%v %s", feat, keptRemEnd, why)
	}
	// ---- relay the incoming packet's acknowledgement back to the sender's side
	if _, has := h.acks[inKey]; has {
		r := h.opAck(in)
		e.Stat("in.ack." + r.cls)
		if ackIsError(h.acks[inKey]) {
			post := h.snapshot()
			same := true
			for k, v := range pre {
				if !post[k].Equal(v) {
					same = false
				}
			}
			e.Oracle("failed_swap_refused", same, "%s after the error acknowledgement is relayed every balance is as before the transfer", feat)
		}
	}
}

func ibcOrDash(s string) string {
	if s == "" {
		return "-"
	}
	return s
}

func posClass(n int) string {
	if n > 0 {
		return "positive"
	}
	return "zero"
}

// ---------------------------------------------------------------- generator
var malformedMemos = []string{
	`{"swap":1}`, `{"swap":{}}`, `{"swap":{"forward":1}}`, `not json`, `{"forward":{"receiver":"x"}}`,
	`{"swap":{"route":{"denom_in":"uaaa","denom_out":"ubbb","pool":{"pool_id":"0"}}}}`,
	`{"swap":{"route":{"denom_in":"uaaa","denom_out":"ubbb","pool":{"pool_id":"0"}},"exact_amount_in":{}}}`,
	`{"swap":{"route":{"denom_in":"uaaa","denom_out":"ubbb","pool":{"pool_id":"0"}},"exact_amount_in":{"min_amount_out":"0"}}}`,
	`{"swap":{"route":{"denom_in":"uaaa","denom_out":"ubbb","pool":{"pool_id":"0"}},"exact_amount_in":{"min_amount_out":"1"},"forward":{"receiver":"","port":"transfer","channel":"channel-0"}}}`,
	`{"swap":{"route":{"denom_in":"uaaa","denom_out":"ubbb","pool":{"pool_id":"0"}},"exact_amount_out":{"amount_out":"10","change":{"receiver":"x","port":"","channel":"channel-0"}}}}`,
	`{"swap":null}`, `[]`, `{"swap":{"route":null,"exact_amount_in":{"min_amount_out":"1"}}}`,
}

func (h *ibcH) genScenario(k int) scenario {
	r := h.e.R
	sc := scenario{dir: 1 + r.N(2), receiver: "a1", provider: r.N(3) > 0}
	// systematic part: strategy x change x forward enumerated by k, the rest random
	combo := k % 6
	sc.strat = []string{"in", "in", "out", "out", "out", "out"}[combo]
	sc.forward.present = combo%2 == 1
	sc.change.present = combo >= 4
	if r.N(5) == 0 {
		sc.receiver = "f0"
	}
	sc.amount = sdkmath.NewIntFromBigInt(r.Big(9)).AddRaw(1000)
	if sc.strat == "in" {
		sc.minOrOut = sdkmath.OneInt()
	} else {
		sc.minOrOut = sc.amount.QuoRaw(int64(2 + r.N(3))) // well below the maximum: a remainder exists
		if r.N(6) == 0 {
			sc.minOrOut = sc.amount.MulRaw(97).QuoRaw(100)
		}
	}
	mk := func(l *legSpec) {
		l.ch = r.Pick(ch0, ch1)
		l.retries = uint32(r.N(4)) // 0 (=3), 1, 2, 3
		l.receiver = "a3"
		switch r.N(5) {
		case 0:
			l.receiver = "bad"
		case 1:
			l.receiver = "blocked"
		}
		att := int(l.retries)
		if att == 0 {
			att = 3
		}
		// half of the legs see timeouts: every count up to exhaustion
		if r.N(2) == 0 {
			l.timeouts = r.N(att + 1)
		}
	}
	if sc.forward.present {
		mk(&sc.forward)
	}
	if sc.change.present {
		mk(&sc.change)
	}
	switch r.N(14) {
	case 0:
		sc.fail = r.Pick("route_in", "route_out", "pool")
	case 1:
		sc.fail = "limit"
		if sc.strat == "in" {
			sc.minOrOut = sc.amount.MulRaw(2)
		} else {
			sc.minOrOut = sc.amount.MulRaw(2)
		}
	case 2:
		sc.fail = "liquidity"
		sc.amount = sdkmath.NewIntWithDecimal(1, 30)
		if sc.strat == "out" {
			sc.minOrOut = sdkmath.NewIntWithDecimal(1, 29)
		}
	}
	if k%11 == 10 {
		sc.memoRaw = malformedMemos[r.N(len(malformedMemos))]
	}
	sc.exactFit = sc.strat == "out" && r.N(3) == 0
	return sc
}

func suiteIbc(e *Env) {
	n := e.N
	for k := 0; k < n; k++ {
		h, err := newIbcH(e)
		if err != nil {
			e.Obs("setup-error %v", err)
			return
		}
		h.runHistory(h.genScenario(k))
	}
}
