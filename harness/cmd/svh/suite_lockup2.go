// Suite "lockup2": directed two-validator histories of the non-voting delegatable lockup account (C12).  The main history is
// printed in the multi-validator trace format (validators named v0, v1 in the order of their operator address strings) that the
// Lean suite `lockupmv` reproduces; the further scenarios at the end print oracle lines only.
// The message-driven `lockup` suite and its Lean model use one validator; what a second validator adds is the ORDER in which
// `checkUnbondingEntriesMature` walks the per-validator unbonding records (by validator address) — an immature record of an
// earlier validator must not hide a matured record of a later one.  Script: delegate locked coins to two validators, undelegate
// from the one that sorts LATER first, then from the other, let only the first unbonding mature (the share-class end-blocker
// pays it back into the account), and try to send the paid-back coins.  The oracles are those of the `lockup` suite
// (outflow_bound, tracked_le_actual, schedule_exact, owner_only), evaluated from balances / staking / shareclass state only.
package main

import (
	"fmt"
	"math/big"
	"strconv"
	"strings"
	"time"

	sdkmath "cosmossdk.io/math"
	accountsv1 "cosmossdk.io/x/accounts/v1"
	banktypes "cosmossdk.io/x/bank/types"
	sdk "github.com/cosmos/cosmos-sdk/types"
	nvlock "github.com/sunriselayer/sunrise/x/accounts/non_voting_delegatable_lockup"
	nvtypes "github.com/sunriselayer/sunrise/x/accounts/non_voting_delegatable_lockup/v1"
	sdlock "github.com/sunriselayer/sunrise/x/accounts/self_delegatable_lockup"
	sdtypes "github.com/sunriselayer/sunrise/x/accounts/self_delegatable_lockup/v1"

	"svh/sim"
)

func init() { register("lockup2", suiteLockup2) }

func suiteLockup2(e *Env) {
	for hI := 0; hI < e.N; hI++ {
		h, err := lkNewHistMV(e, []int64{100, 80})
		if err != nil {
			e.Obs("setup-error %v", err)
			return
		}
		r := e.R
		c := h.c
		first, second := "v1", "v0" // undelegate from the later key first
		if r.N(4) == 0 {
			first, second = "v0", "v1" // control: the other order
		}
		now := c.Time
		funds := int64(1_000_000 + r.N(900_000_000))
		start := now.Add(-time.Duration(r.N(20)) * time.Second)
		end := now.Add(time.Duration(2000+r.N(4000)) * time.Second)
		h.exec([]string{"init", "nv", "a1", "a0", strconv.FormatInt(funds, 10), strconv.FormatInt(start.UnixNano(), 10), strconv.FormatInt(end.UnixNano(), 10)})
		if !h.created {
			continue
		}
		blockTo := func(t time.Time) {
			h.exec([]string{"block", strconv.FormatInt(h.safeTime(t).UnixNano(), 10)})
		}
		x := funds/4 + int64(r.N(int(funds/4)))
		y := funds/4 + int64(r.N(int(funds/4)))
		h.exec([]string{"nvDelegate", "a0", "a0", second, "urise", strconv.FormatInt(x, 10)})
		h.exec([]string{"nvDelegate", "a0", "a0", first, "urise", strconv.FormatInt(y, 10)})
		blockTo(c.Time.Add(time.Duration(1+r.N(3)) * time.Second))
		h.exec([]string{"nvUndelegate", "a0", "a0", first, "urise", strconv.FormatInt(y/2+int64(r.N(int(y/2))), 10)})
		t1 := c.Time
		blockTo(c.Time.Add(time.Duration(3+r.N(8)) * time.Second))
		h.exec([]string{"nvUndelegate", "a0", "a0", second, "urise", strconv.FormatInt(x/2+int64(r.N(int(x/2))), 10)})
		t2 := c.Time
		// the first unbonding matures (and the end-blocker pays it back), the second is still pending
		mid := t1.Add(lkUT).Add(time.Duration(1+r.N(1500)) * time.Millisecond)
		if !mid.Before(t2.Add(lkUT)) {
			mid = t2.Add(lkUT).Add(-time.Millisecond)
		}
		blockTo(mid)
		blockTo(c.Time.Add(time.Second))
		bal := h.bal("lock", "urise")
		e.Stat("lockup2.histories")
		if bal.IsPositive() {
			e.Stat("lockup2.paid_back_before_second_matures")
		}
		// what the account itself reports as spendable (the paid-back coins are locked: if the query counts them, sending them must still fail)
		amts := []sdkmath.Int{bal, bal.QuoRaw(2), sdkmath.NewInt(int64(1 + r.N(1000)))}
		if sp, ok := sdkmath.NewIntFromString(h.info().spend); ok && sp.IsPositive() {
			amts = append([]sdkmath.Int{sp}, amts...)
		}
		for _, amt := range amts {
			if amt.IsPositive() {
				h.exec([]string{"send", "a0", "a0", "a1", "urise", amt.String()})
			}
		}
		h.exec([]string{"nvDelegate", "a0", "a0", first, "urise", strconv.FormatInt(1+int64(r.N(1000)), 10)})
		// both matured
		blockTo(t2.Add(lkUT).Add(2 * time.Second))
		blockTo(c.Time.Add(time.Second))
		bal = h.bal("lock", "urise")
		for _, amt := range []sdkmath.Int{bal, sdkmath.NewInt(int64(1 + r.N(1000)))} {
			if amt.IsPositive() {
				h.exec([]string{"send", "a0", "a0", "a1", "urise", amt.String()})
			}
		}
		lk2SecondAccount(e, c, r.Bool())
		lk2MultiDenomSend(e, c, r.Bool())
		lk2TwoLockedDenoms(e, c, false)
		lk2TwoLockedDenoms(e, c, true)
	}
}

func lk2Init(c *sim.Chain, nv bool, owner sdk.AccAddress, funds int64, start, end time.Time, extra ...sdk.Coin) (sdk.AccAddress, error) {
	coins := sdk.NewCoins(append([]sdk.Coin{sdk.NewInt64Coin("urise", funds)}, extra...)...)
	var m *accountsv1.MsgInit
	if nv {
		m = &accountsv1.MsgInit{Sender: c.Accs[1].Addr.String(), AccountType: nvlock.CONTINUOUS_LOCKING_ACCOUNT,
			Message: lkAny(&nvtypes.MsgInitNonVotingDelegatableLockupAccount{Owner: owner.String(), StartTime: start, EndTime: end}), Funds: coins}
	} else {
		m = &accountsv1.MsgInit{Sender: c.Accs[1].Addr.String(), AccountType: sdlock.CONTINUOUS_LOCKING_ACCOUNT,
			Message: lkAny(&sdtypes.MsgInitSelfDelegatableLockupAccount{Owner: owner.String(), StartTime: start, EndTime: end}), Funds: coins}
	}
	resp, err, p := c.Exec(m)
	if err != nil || p != nil {
		if err == nil {
			err = fmt.Errorf("panic %v", p)
		}
		return nil, err
	}
	return mustAddr(resp.(*accountsv1.MsgInitResponse).AccountAddress), nil
}

func lk2Send(c *sim.Chain, nv bool, caller, lock, sender, to sdk.AccAddress, amt sdk.Coins) string {
	var m sdk.Msg
	if nv {
		m = &accountsv1.MsgExecute{Sender: caller.String(), Target: lock.String(), Message: lkAny(&nvtypes.MsgSend{Sender: sender.String(), ToAddress: to.String(), Amount: amt})}
	} else {
		m = &accountsv1.MsgExecute{Sender: caller.String(), Target: lock.String(), Message: lkAny(&sdtypes.MsgSend{Sender: sender.String(), ToAddress: to.String(), Amount: amt})}
	}
	_, err, p := c.Exec(m)
	lk2LastErr = ""
	if err != nil {
		lk2LastErr = strings.ReplaceAll(err.Error(), "\n", " ")
	}
	return class(err, p)
}

var lk2LastErr string

// Two accounts of the same type with different owners on one chain (one implementation object serves both): the owner of the
// first must not be able to act for the second, and the second's own owner must.
func lk2SecondAccount(e *Env, c *sim.Chain, nv bool) {
	now := c.Time
	first, err1 := lk2Init(c, nv, c.Accs[0].Addr, 500_000, now.Add(-100*time.Second), now.Add(-time.Second))
	if err1 != nil {
		e.Note("second-account scenario: init 1: %v", err1)
		return
	}
	// use the first account once, by its owner
	lk2Send(c, nv, c.Accs[0].Addr, first, c.Accs[0].Addr, c.Accs[1].Addr, sdk.Coins{sdk.NewInt64Coin("urise", 10)})
	second, err2 := lk2Init(c, nv, c.Accs[2].Addr, 500_000, now.Add(-100*time.Second), now.Add(-time.Second))
	if err2 != nil {
		e.Note("second-account scenario: init 2: %v", err2)
		return
	}
	pre := c.Bal(second, "urise")
	cls := lk2Send(c, nv, c.Accs[0].Addr, second, c.Accs[0].Addr, c.Accs[0].Addr, sdk.Coins{sdk.NewInt64Coin("urise", 1000)})
	e.Oracle("owner_only", cls == "err" && c.Bal(second, "urise").Equal(pre), "nv=%v owner of ANOTHER account of the same type acted on account 2: %s caller=a0 sender=a0 owner=a2", nv, cls)
	cls = lk2Send(c, nv, c.Accs[2].Addr, second, c.Accs[2].Addr, c.Accs[1].Addr, sdk.Coins{sdk.NewInt64Coin("urise", 1000)})
	e.Oracle("own_owner_can_act", cls == "ok", "nv=%v the owner of account 2 sends fully unlocked coins: %s", nv, cls)
	e.Stat("lockup2.second_account")
}

// A third party deposits a denom that sorts before the locked one; the owner then sends both denoms in ONE message while nothing
// is unlocked yet: the locked denom must stay.
func lk2MultiDenomSend(e *Env, c *sim.Chain, nv bool) {
	now := c.Time
	const funds = 700_000
	lock, err := lk2Init(c, nv, c.Accs[0].Addr, funds, now, now.Add(100_000*time.Second))
	if err != nil {
		e.Note("multi-denom scenario: init: %v", err)
		return
	}
	for _, d := range []string{"uaaa", "uvrise"} {
		c.Exec(&banktypes.MsgSend{FromAddress: c.Accs[1].Addr.String(), ToAddress: lock.String(), Amount: sdk.Coins{sdk.NewInt64Coin(d, 50)}})
	}
	for _, set := range []sdk.Coins{
		{sdk.NewInt64Coin("uaaa", 50), sdk.NewInt64Coin("urise", funds)},
		{sdk.NewInt64Coin("uaaa", 1), sdk.NewInt64Coin("urise", funds/2)},
		{sdk.NewInt64Coin("urise", funds/2), sdk.NewInt64Coin("uvrise", 1)},
	} {
		cls := lk2Send(c, nv, c.Accs[0].Addr, lock, c.Accs[0].Addr, c.Accs[1].Addr, set)
		// exact schedule bound at the current block time
		el := new(big.Int).SetInt64(int64(c.Time.Sub(now) / time.Second))
		unlocked := new(big.Int).Mul(big.NewInt(funds), el)
		unlocked.Quo(unlocked, big.NewInt(100_000)).Add(unlocked, big.NewInt(1))
		left := c.Bal(lock, "urise").BigInt()
		minLeft := new(big.Int).Sub(big.NewInt(funds), unlocked)
		var ds []string
		for _, x := range set {
			ds = append(ds, x.String())
		}
		e.Oracle("outflow_bound", left.Cmp(minLeft) >= 0, "nv=%v multi-denom send %s -> %s: locked denom left %s, must keep at least %s", nv, strings.Join(ds, "+"), cls, left, minLeft)
		if cls == "err" {
			e.Note("multi-denom send nv=%v refused: %.200s", nv, lk2LastErr)
		}
	}
	e.Stat("lockup2.multi_denom")
}


// The account is funded at Init with TWO denoms, both under the schedule: a dust amount of a denom that sorts before the main
// one (1 unit: fully unlocked by rounding once more than half of the schedule has passed) and the main amount.  A send naming
// both must still keep the locked part of the main denom, whatever the check concluded for the first coin.
func lk2TwoLockedDenoms(e *Env, c *sim.Chain, nv bool) {
	start := c.Time
	const funds = 900_000
	const span = 1000 // seconds
	lock, err := lk2Init(c, nv, c.Accs[0].Addr, funds, start, start.Add(span*time.Second), sdk.NewInt64Coin("uaaa", 1))
	if err != nil {
		e.Note("two-locked-denoms scenario: init: %v", err)
		return
	}
	for _, dt := range []time.Duration{100 * time.Second, 500 * time.Second, 200 * time.Second} {
		if _, err := c.NextBlock(dt); err != nil {
			e.Oracle("no_halt", false, "two-locked-denoms scenario: %v", err)
			return
		}
		elNow := int64(c.Time.Sub(start) / time.Second)
		free := funds*elNow/span - (funds - c.Bal(lock, "urise").Int64()) // unlocked by now and not yet sent
		for _, amt := range []int64{funds, c.Bal(lock, "urise").Int64(), free / 2} { // the last one is within the schedule: accepted once the dust coin is unlocked
			if amt <= 0 || c.Bal(lock, "uaaa").IsZero() {
				continue
			}
			set := sdk.Coins{sdk.NewInt64Coin("uaaa", 1), sdk.NewInt64Coin("urise", amt)}
			cls := lk2Send(c, nv, c.Accs[0].Addr, lock, c.Accs[0].Addr, c.Accs[1].Addr, set)
			el := int64(c.Time.Sub(start) / time.Second)
			unlocked := funds*el/span + 1
			left := c.Bal(lock, "urise").Int64()
			e.Oracle("outflow_bound", left >= funds-unlocked, "nv=%v two locked denoms, send %s at %d/%d s -> %s: main denom left %d, must keep at least %d", nv, set, el, span, cls, left, funds-unlocked)
			e.Stat("lockup2.two_locked_denoms." + cls)
		}
	}
}
