// Suite "lockup2": directed two-validator histories of the non-voting delegatable lockup account (C12), oracle only.
// The message-driven `lockup` suite and the Lean model use one validator; what a second validator adds is the ORDER in which
// `checkUnbondingEntriesMature` walks the per-validator unbonding records (by validator address) — an immature record of an
// earlier validator must not hide a matured record of a later one.  Script: delegate locked coins to two validators, undelegate
// from the one that sorts LATER first, then from the other, let only the first unbonding mature (the share-class end-blocker
// pays it back into the account), and try to send the paid-back coins.  The oracles are those of the `lockup` suite
// (outflow_bound, tracked_le_actual, schedule_exact, owner_only), evaluated from balances / staking / shareclass state only.
package main

import (
	"sort"
	"strconv"
	"time"

	sdkmath "cosmossdk.io/math"
	sctypes "github.com/sunriselayer/sunrise/x/shareclass/types"
)

func init() { register("lockup2", suiteLockup2) }

func suiteLockup2(e *Env) {
	for hI := 0; hI < e.N; hI++ {
		h, err := lkNewHistVals(e, []int64{100, 80})
		if err != nil {
			e.Obs("setup-error %v", err)
			return
		}
		r := e.R
		c := h.c
		vals := []string{c.Vals[0].Oper.String(), c.Vals[1].Oper.String()}
		sort.Strings(vals)
		first, second := vals[1], vals[0] // undelegate from the later key first
		if r.N(4) == 0 {
			first, second = vals[0], vals[1] // control: the other order
		}
		h.extraVals = vals
		setVal := func(v string) { h.val = v; h.shareDn = sctypes.NonVotingShareTokenDenom(v) }
		now := c.Time
		funds := int64(1_000_000 + r.N(900_000_000))
		start := now.Add(-time.Duration(r.N(20)) * time.Second)
		end := now.Add(time.Duration(2000+r.N(4000)) * time.Second)
		h.exec([]string{"init", "nv", "a1", "a0", strconv.FormatInt(funds, 10), strconv.FormatInt(start.UnixNano(), 10), strconv.FormatInt(end.UnixNano(), 10)})
		if !h.created {
			continue
		}
		blockTo := func(t time.Time) {
			h.exec([]string{"block", strconv.FormatInt(h.safeTime(t).UnixNano(), 10)})
		}
		x := funds/4 + int64(r.N(int(funds/4)))
		y := funds/4 + int64(r.N(int(funds/4)))
		setVal(second)
		h.exec([]string{"nvDelegate", "a0", "a0", "1", "urise", strconv.FormatInt(x, 10)})
		setVal(first)
		h.exec([]string{"nvDelegate", "a0", "a0", "1", "urise", strconv.FormatInt(y, 10)})
		blockTo(c.Time.Add(time.Duration(1+r.N(3)) * time.Second))
		setVal(first)
		h.exec([]string{"nvUndelegate", "a0", "a0", "1", "urise", strconv.FormatInt(y/2+int64(r.N(int(y/2))), 10)})
		t1 := c.Time
		blockTo(c.Time.Add(time.Duration(3+r.N(8)) * time.Second))
		setVal(second)
		h.exec([]string{"nvUndelegate", "a0", "a0", "1", "urise", strconv.FormatInt(x/2+int64(r.N(int(x/2))), 10)})
		t2 := c.Time
		// the first unbonding matures (and the end-blocker pays it back), the second is still pending
		mid := t1.Add(lkUT).Add(time.Duration(1+r.N(1500)) * time.Millisecond)
		if !mid.Before(t2.Add(lkUT)) {
			mid = t2.Add(lkUT).Add(-time.Millisecond)
		}
		blockTo(mid)
		blockTo(c.Time.Add(time.Second))
		bal := h.bal("lock", "urise")
		e.Stat("lockup2.histories")
		if bal.IsPositive() {
			e.Stat("lockup2.paid_back_before_second_matures")
		}
		for _, amt := range []sdkmath.Int{bal, bal.QuoRaw(2), sdkmath.NewInt(int64(1 + r.N(1000)))} {
			if amt.IsPositive() {
				h.exec([]string{"send", "a0", "a0", "a1", "urise", amt.String()})
			}
		}
		setVal(first)
		h.exec([]string{"nvDelegate", "a0", "a0", "1", "urise", strconv.FormatInt(1+int64(r.N(1000)), 10)})
		// both matured
		blockTo(t2.Add(lkUT).Add(2 * time.Second))
		blockTo(c.Time.Add(time.Second))
		bal = h.bal("lock", "urise")
		for _, amt := range []sdkmath.Int{bal, sdkmath.NewInt(int64(1 + r.N(1000)))} {
			if amt.IsPositive() {
				h.exec([]string{"send", "a0", "a0", "a1", "urise", amt.String()})
			}
		}
	}
}
