package main

import (
	"encoding/json"
	"fmt"
	"time"

	sdkmath "cosmossdk.io/math"
	accountsv1 "cosmossdk.io/x/accounts/v1"
	banktypes "cosmossdk.io/x/bank/types"
	codectypes "github.com/cosmos/cosmos-sdk/codec/types"
	sdk "github.com/cosmos/cosmos-sdk/types"
	"github.com/cosmos/gogoproto/proto"

	nvlock "github.com/sunriselayer/sunrise/x/accounts/non_voting_delegatable_lockup"
	nvtypes "github.com/sunriselayer/sunrise/x/accounts/non_voting_delegatable_lockup/v1"
	sdlock "github.com/sunriselayer/sunrise/x/accounts/self_delegatable_lockup"
	sdtypes "github.com/sunriselayer/sunrise/x/accounts/self_delegatable_lockup/v1"
	proxytypes "github.com/sunriselayer/sunrise/x/accounts/self_delegation_proxy/v1"

	sdmtypes "github.com/sunriselayer/sunrise/x/selfdelegation/types"

	"svh/sim"
)

func init() { register("lockupprobe", suiteLockupProbe) }

func anyOf(m proto.Message) *codectypes.Any {
	a, err := codectypes.NewAnyWithValue(m)
	if err != nil {
		panic(err)
	}
	return a
}

func suiteLockupProbe(e *Env) {
	cfg := sim.DefaultConfig()
	cfg.GenesisMut = func(_ sim.Codec, gs map[string]json.RawMessage) {
		var st map[string]json.RawMessage
		_ = json.Unmarshal(gs["staking"], &st)
		var p map[string]json.RawMessage
		_ = json.Unmarshal(st["params"], &p)
		p["unbonding_time"] = json.RawMessage(`"20s"`)
		st["params"], _ = json.Marshal(p)
		gs["staking"], _ = json.Marshal(st)
	}
	c, err := sim.New(cfg)
	if err != nil {
		e.Obs("setup-error %v", err)
		return
	}
	owner := c.Accs[0].Addr.String() // validator operator 0
	other := c.Accs[1].Addr.String()
	val := c.Vals[0].Oper.String()
	start := c.Time.Add(10 * time.Second)
	end := c.Time.Add(110 * time.Second)
	ex := func(tag string, m sdk.Msg) any {
		r, err, p := c.Exec(m)
		e.Obs("%s -> %s err=%v", tag, class(err, p), err)
		return r
	}
	// --- non-voting
	r := ex("init-nv", &accountsv1.MsgInit{Sender: other, AccountType: nvlock.CONTINUOUS_LOCKING_ACCOUNT,
		Message: anyOf(&nvtypes.MsgInitNonVotingDelegatableLockupAccount{Owner: owner, StartTime: start, EndTime: end}),
		Funds:   sdk.NewCoins(sdk.NewCoin("urise", sdkmath.NewInt(1000)))})
	ir := r.(*accountsv1.MsgInitResponse)
	nv := ir.AccountAddress
	nvA, _ := sdk.AccAddressFromBech32(nv)
	e.Obs("nv=%s bal=%s", nv, c.Bal(nvA, "urise"))
	q := func(target string, m proto.Message) {
		resp, err := c.App.AccountsKeeper.Query(c.Ctx(), mustAddr(target), m)
		e.Obs("query %T -> %v err=%v", m, resp, err)
	}
	q(nv, &nvtypes.QueryLockupAccountInfoRequest{})
	q(nv, &nvtypes.QuerySpendableAmountRequest{})
	exec := func(tag, sender, target string, m proto.Message) any {
		return ex(tag, &accountsv1.MsgExecute{Sender: sender, Target: target, Message: anyOf(m)})
	}
	exec("nv-delegate", owner, nv, &nvtypes.MsgDelegate{Sender: owner, ValidatorAddress: val, Amount: sdk.NewCoin("urise", sdkmath.NewInt(600))})
	exec("nv-delegate-nonowner", other, nv, &nvtypes.MsgDelegate{Sender: other, ValidatorAddress: val, Amount: sdk.NewCoin("urise", sdkmath.NewInt(1))})
	exec("nv-delegate-spoof", other, nv, &nvtypes.MsgDelegate{Sender: owner, ValidatorAddress: val, Amount: sdk.NewCoin("urise", sdkmath.NewInt(1))})
	q(nv, &nvtypes.QueryLockupAccountInfoRequest{})
	e.Obs("nv balances: %s", c.App.BankKeeper.GetAllBalances(c.Ctx(), nvA))
	c.NextBlock(5 * time.Second)
	exec("nv-send", owner, nv, &nvtypes.MsgSend{Sender: owner, ToAddress: other, Amount: sdk.NewCoins(sdk.NewCoin("urise", sdkmath.NewInt(1)))})
	exec("nv-undelegate", owner, nv, &nvtypes.MsgUndelegate{Sender: owner, ValidatorAddress: val, Amount: sdk.NewCoin("urise", sdkmath.NewInt(100))})
	exec("nv-withdrawreward", owner, nv, &nvtypes.MsgWithdrawReward{Sender: owner, ValidatorAddress: val})
	e.Obs("nv balances: %s", c.App.BankKeeper.GetAllBalances(c.Ctx(), nvA))
	c.NextBlock(30 * time.Second)
	c.NextBlock(1 * time.Second)
	e.Obs("nv balances after maturity: %s", c.App.BankKeeper.GetAllBalances(c.Ctx(), nvA))
	exec("nv-send-after", owner, nv, &nvtypes.MsgSend{Sender: owner, ToAddress: other, Amount: sdk.NewCoins(sdk.NewCoin("urise", sdkmath.NewInt(1)))})
	exec("nv-delegate-after", owner, nv, &nvtypes.MsgDelegate{Sender: owner, ValidatorAddress: val, Amount: sdk.NewCoin("urise", sdkmath.NewInt(1))})
	q(nv, &nvtypes.QueryLockupAccountInfoRequest{})
	q(nv, &nvtypes.QuerySpendableAmountRequest{})
	ub, err := c.App.ShareclassKeeper.GetUnbondingsByAddress(c.Ctx(), nvA)
	e.Obs("shareclass unbondings %v %v", ub, err)

	// --- self-delegatable
	r = ex("init-sd", &accountsv1.MsgInit{Sender: other, AccountType: sdlock.CONTINUOUS_LOCKING_ACCOUNT,
		Message: anyOf(&sdtypes.MsgInitSelfDelegatableLockupAccount{Owner: owner, StartTime: c.Time.Add(10 * time.Second), EndTime: c.Time.Add(110 * time.Second)}),
		Funds:   sdk.NewCoins(sdk.NewCoin("urise", sdkmath.NewInt(1000)))})
	sd := r.(*accountsv1.MsgInitResponse).AccountAddress
	sdA := mustAddr(sd)
	q(sd, &sdtypes.QueryLockupAccountInfoRequest{})
	exec("sd-selfdelegate", owner, sd, &sdtypes.MsgSelfDelegate{Sender: owner, Amount: sdkmath.NewInt(600)})
	exec("sd-selfdelegate-nonowner", other, sd, &sdtypes.MsgSelfDelegate{Sender: other, Amount: sdkmath.NewInt(1)})
	q(sd, &sdtypes.QueryLockupAccountInfoRequest{})
	px, err := c.App.SelfdelegationKeeper.SelfDelegationProxies.Get(c.Ctx(), sdA)
	e.Obs("proxy=%x err=%v", px, err)
	if err == nil {
		pxA := sdk.AccAddress(px)
		e.Obs("proxy balances: %s", c.App.BankKeeper.GetAllBalances(c.Ctx(), pxA))
		d, err := c.App.StakingKeeper.GetDelegatorBonded(c.Ctx(), pxA)
		e.Obs("proxy bonded %v %v", d, err)
		c.NextBlock(5 * time.Second)
		c.NextBlock(5 * time.Second)
		exec("px-withdrawreward", owner, pxA.String(), &proxytypes.MsgWithdrawReward{Sender: owner, ValidatorAddress: val})
		e.Obs("proxy balances: %s", c.App.BankKeeper.GetAllBalances(c.Ctx(), pxA))
		exec("px-undelegate-nonroot", other, pxA.String(), &proxytypes.MsgUndelegate{Sender: other, Amount: sdkmath.NewInt(100)})
		exec("px-undelegate-bylockup", sd, pxA.String(), &proxytypes.MsgUndelegate{Sender: sd, Amount: sdkmath.NewInt(100)})
		exec("px-undelegate", owner, pxA.String(), &proxytypes.MsgUndelegate{Sender: owner, Amount: sdkmath.NewInt(100)})
		u, err := c.App.StakingKeeper.GetDelegatorUnbonding(c.Ctx(), pxA)
		e.Obs("proxy unbonding %v %v", u, err)
		exec("sd-withdraw-early", owner, sd, &sdtypes.MsgWithdrawSelfDelegationUnbonded{Sender: owner, Amount: sdkmath.NewInt(100)})
		c.NextBlock(30 * time.Second)
		e.Obs("proxy balances: %s", c.App.BankKeeper.GetAllBalances(c.Ctx(), pxA))
		exec("px-send-uvrise", owner, pxA.String(), &proxytypes.MsgSend{Sender: owner, ToAddress: other, Amount: sdk.NewCoins(sdk.NewCoin("uvrise", sdkmath.NewInt(10)))})
		exec("px-send-urise", owner, pxA.String(), &proxytypes.MsgSend{Sender: owner, ToAddress: other, Amount: sdk.NewCoins(sdk.NewCoin("urise", sdkmath.NewInt(1)))})
		exec("sd-withdraw", owner, sd, &sdtypes.MsgWithdrawSelfDelegationUnbonded{Sender: owner, Amount: sdkmath.NewInt(100)})
		q(sd, &sdtypes.QueryLockupAccountInfoRequest{})
		q(sd, &sdtypes.QuerySpendableAmountRequest{})
		e.Obs("sd balances: %s ; proxy: %s", c.App.BankKeeper.GetAllBalances(c.Ctx(), sdA), c.App.BankKeeper.GetAllBalances(c.Ctx(), pxA))
		exec("sd-send", owner, sd, &sdtypes.MsgSend{Sender: owner, ToAddress: other, Amount: sdk.NewCoins(sdk.NewCoin("urise", sdkmath.NewInt(1)))})
	}
	// spoofed send through a signed tx after full unlock
	c.NextBlock(200 * time.Second)
	attacker := c.Accs[2].Addr
	e.Obs("attacker before=%s sd=%s", c.Bal(attacker, "urise"), c.Bal(sdA, "urise"))
	_ = c.QueueTx(2, sdk.NewCoins(), 5_000_000, &accountsv1.MsgExecute{Sender: attacker.String(), Target: sd, Message: anyOf(&sdtypes.MsgSend{Sender: owner, ToAddress: attacker.String(), Amount: sdk.NewCoins(sdk.NewCoin("urise", sdkmath.NewInt(700)))})})
	br, _ := c.NextBlock(1 * time.Second)
	for _, t := range br.Txs {
		e.Obs("tx code=%d log=%s", t.Code, t.Log)
	}
	e.Obs("attacker after=%s sd=%s", c.Bal(attacker, "urise"), c.Bal(sdA, "urise"))
	// base-account self delegation
	ex("owner-selfdelegate", &sdmtypes.MsgSelfDelegate{Sender: owner, Amount: sdkmath.NewInt(5000)})
	px2, err := c.App.SelfdelegationKeeper.SelfDelegationProxies.Get(c.Ctx(), c.Accs[0].Addr)
	e.Obs("proxy2=%x err=%v", px2, err)
	if err == nil {
		pxA := sdk.AccAddress(px2)
		c.NextBlock(5 * time.Second)
		c.NextBlock(5 * time.Second)
		exec("px-withdrawreward", owner, pxA.String(), &proxytypes.MsgWithdrawReward{Sender: owner, ValidatorAddress: val})
		e.Obs("proxy balances: %s", c.App.BankKeeper.GetAllBalances(c.Ctx(), pxA))
		exec("px-undelegate-nonroot", other, pxA.String(), &proxytypes.MsgUndelegate{Sender: other, Amount: sdkmath.NewInt(100)})
		exec("px-undelegate-spoof", other, pxA.String(), &proxytypes.MsgUndelegate{Sender: owner, Amount: sdkmath.NewInt(100)})
		exec("px-undelegate", owner, pxA.String(), &proxytypes.MsgUndelegate{Sender: owner, Amount: sdkmath.NewInt(100)})
		u, err := c.App.StakingKeeper.GetUnbondingDelegations(c.Ctx(), pxA, 10)
		e.Obs("proxy unbonding %v %v", u, err)
		ex("owner-withdraw-early", &sdmtypes.MsgWithdrawSelfDelegationUnbonded{Sender: owner, Amount: sdkmath.NewInt(100)})
		c.NextBlock(30 * time.Second)
		e.Obs("proxy balances: %s", c.App.BankKeeper.GetAllBalances(c.Ctx(), pxA))
		exec("px-send-uvrise", owner, pxA.String(), &proxytypes.MsgSend{Sender: owner, ToAddress: other, Amount: sdk.NewCoins(sdk.NewCoin("uvrise", sdkmath.NewInt(10)))})
		exec("px-send-urise-spoof", other, pxA.String(), &proxytypes.MsgSend{Sender: owner, ToAddress: other, Amount: sdk.NewCoins(sdk.NewCoin("urise", sdkmath.NewInt(1)))})
		ex("owner-withdraw", &sdmtypes.MsgWithdrawSelfDelegationUnbonded{Sender: owner, Amount: sdkmath.NewInt(100)})
		e.Obs("proxy balances: %s", c.App.BankKeeper.GetAllBalances(c.Ctx(), pxA))
	}
	ex("deposit", &banktypes.MsgSend{FromAddress: other, ToAddress: sd, Amount: sdk.NewCoins(sdk.NewCoin("urise", sdkmath.NewInt(5)))})
	_ = fmt.Sprint
}

func mustAddr(s string) sdk.AccAddress {
	a, err := sdk.AccAddressFromBech32(s)
	if err != nil {
		panic(err)
	}
	return a
}
