package main

// Replay of a recorded concentrated-liquidity history (`svh -replay <file> cl`): the `> op` lines of a trace (everything from
// one `> reset` on) are executed again on a fresh chain through the same keeper / message entry points as the suite, and the
// outcome of every operation is printed with the error text.  Used by the replay commands of C02/C04/C05/C06 and for
// diagnosing a correspondence disagreement.

import (
	"bufio"
	"fmt"
	"os"
	"strconv"
	"strings"

	sdkmath "cosmossdk.io/math"
	sdk "github.com/cosmos/cosmos-sdk/types"
	lptypes "github.com/sunriselayer/sunrise/x/liquiditypool/types"

	"svh/sim"
)

func clReplay(e *Env, path string) {
	f, err := os.Open(path)
	if err != nil {
		e.Obs("replay: %v", err)
		return
	}
	defer f.Close()
	c, err := sim.New(sim.DefaultConfig())
	if err != nil {
		e.Obs("setup-error %v", err)
		return
	}
	k := c.App.LiquiditypoolKeeper
	acc := func(s string) int { i, _ := strconv.Atoi(strings.TrimPrefix(s, "a")); return i }
	u64 := func(s string) uint64 { v, _ := strconv.ParseUint(s, 10, 64); return v }
	i64 := func(s string) int64 { v, _ := strconv.ParseInt(s, 10, 64); return v }
	amt := func(s string) sdkmath.Int { v, _ := sdkmath.NewIntFromString(s); return v }
	sc := bufio.NewScanner(f)
	sc.Buffer(make([]byte, 1<<20), 1<<26)
	for sc.Scan() {
		line := sc.Text()
		if !strings.HasPrefix(line, "> ") {
			continue
		}
		t := strings.Fields(line[2:])
		if len(t) == 0 {
			continue
		}
		var out string
		var rerr error
		var pan any
		switch t[0] {
		case "reset", "dump", "undo", "claimable", "tickOf", "custodyStats":
			continue
		case "createPool":
			var resp any
			resp, rerr, pan = c.Exec(&lptypes.MsgCreatePool{Authority: c.Accs[acc(t[1])].Addr.String(), DenomBase: t[2], DenomQuote: t[3], FeeRate: t[4], PriceRatio: t[5], BaseOffset: t[6]})
			if rerr == nil && pan == nil {
				out = fmt.Sprintf("id=%d", resp.(*lptypes.MsgCreatePoolResponse).Id)
			}
		case "createPosition":
			var resp any
			resp, rerr, pan = c.Exec(&lptypes.MsgCreatePosition{Sender: c.Accs[acc(t[1])].Addr.String(), PoolId: u64(t[2]), LowerTick: i64(t[3]), UpperTick: i64(t[4]),
				TokenBase: sdk.NewCoin(t[5], amt(t[6])), TokenQuote: sdk.NewCoin(t[7], amt(t[8])), MinAmountBase: amt(t[9]), MinAmountQuote: amt(t[10])})
			if rerr == nil && pan == nil {
				r := resp.(*lptypes.MsgCreatePositionResponse)
				out = fmt.Sprintf("id=%d base=%s quote=%s liq=%s", r.Id, r.AmountBase, r.AmountQuote, r.Liquidity)
			}
		case "decrease":
			var resp any
			resp, rerr, pan = c.Exec(&lptypes.MsgDecreaseLiquidity{Sender: c.Accs[acc(t[1])].Addr.String(), Id: u64(t[2]), Liquidity: t[3]})
			if rerr == nil && pan == nil {
				r := resp.(*lptypes.MsgDecreaseLiquidityResponse)
				out = fmt.Sprintf("base=%s quote=%s", r.AmountBase, r.AmountQuote)
			}
		case "increase":
			var resp any
			resp, rerr, pan = c.Exec(&lptypes.MsgIncreaseLiquidity{Sender: c.Accs[acc(t[1])].Addr.String(), Id: u64(t[2]), AmountBase: amt(t[3]), AmountQuote: amt(t[4]), MinAmountBase: sdkmath.ZeroInt(), MinAmountQuote: sdkmath.ZeroInt()})
			if rerr == nil && pan == nil {
				r := resp.(*lptypes.MsgIncreaseLiquidityResponse)
				out = fmt.Sprintf("id=%d base=%s quote=%s", r.PositionId, r.AmountBase, r.AmountQuote)
			}
		case "claim":
			var resp any
			resp, rerr, pan = c.Exec(&lptypes.MsgClaimRewards{Sender: c.Accs[acc(t[1])].Addr.String(), PositionIds: []uint64{u64(t[2])}})
			if rerr == nil && pan == nil {
				out = "fees=" + coinsStr(resp.(*lptypes.MsgClaimRewardsResponse).CollectedFees)
			}
		case "incentive":
			coins := sdk.Coins{}
			if len(t) > 3 && t[3] != "-" {
				for _, p := range strings.Split(t[3], ",") {
					kv := strings.SplitN(p, ":", 2)
					if len(kv) == 2 {
						coins = coins.Add(sdk.NewCoin(kv[0], amt(kv[1])))
					}
				}
			}
			rerr, pan = c.Call(func(ctx sdk.Context) error {
				return k.AllocateIncentive(ctx, u64(t[1]), c.Accs[acc(t[2])].Addr, coins)
			})
		case "quoteIn", "quoteOut":
			var q sdkmath.Int
			rerr, pan = c.Call(func(ctx sdk.Context) error {
				p, _, _ := k.GetPool(ctx, u64(t[1]))
				var err error
				if t[0] == "quoteIn" {
					q, err = k.CalculateResultExactAmountIn(ctx, p, sdk.NewCoin(t[2], amt(t[3])), t[4], t[5] == "1")
				} else {
					q, err = k.CalculateResultExactAmountOut(ctx, p, sdk.NewCoin(t[2], amt(t[3])), t[4], t[5] == "1")
				}
				return err
			})
			if rerr == nil && pan == nil {
				out = "amount=" + q.String()
			}
		case "swapIn", "swapOut":
			var r sdkmath.Int
			sender := c.Accs[acc(t[1])].Addr
			rerr, pan = c.Call(func(ctx sdk.Context) error {
				p, _, _ := k.GetPool(ctx, u64(t[2]))
				var err error
				if t[0] == "swapIn" {
					r, err = k.SwapExactAmountIn(ctx, sender, p, sdk.NewCoin(t[3], amt(t[4])), t[5], t[6] == "1")
				} else {
					r, err = k.SwapExactAmountOut(ctx, sender, p, sdk.NewCoin(t[3], amt(t[4])), t[5], t[6] == "1")
				}
				return err
			})
			if rerr == nil && pan == nil {
				out = "amount=" + r.String()
			}
		default:
			e.Note("replay: unknown op %s", t[0])
			continue
		}
		e.In("%s", line[2:])
		switch {
		case pan != nil:
			e.Obs("panic %v", pan)
		case rerr != nil:
			e.Obs("err %.300s", strings.ReplaceAll(rerr.Error(), "\n", " "))
		default:
			e.Obs("ok %s", out)
		}
	}
}
