package main

// C19 dynamic part.  For each seeded history over all custom modules on the real application:
//   1. the history is built once (recorded as raw blocks) on chain A and replayed on chain A' (identical state);
//   2. every custom module store of A is dumped raw (key, value) and grouped by the regenerated prefix table;
//   3. on A' every custom module is exported (keeper ExportGenesis -> JSON through the app codec -> back), its store is wiped and
//      InitGenesis is run from that JSON; the store is dumped again and diffed by prefix;
//   4. the same follow-up transactions and blocks are then delivered to A and A'; results and the stores of the fully covered
//      modules must agree.
// Oracle lines: `! genesis_roundtrip ok|FAIL module=<m> prefix=<Name> before=<n> after=<n> changed=<n>` per non-empty prefix.
// Prefixes that no message of the history can reach cheaply (selfdelegation registry, IBC in-flight packets) are seeded through
// the keepers' own collections (`seeded` in the trace).

import (
	"bytes"
	"encoding/base64"
	"fmt"
	"os"
	"sort"
	"strings"
	"time"

	"cosmossdk.io/collections"
	sdkmath "cosmossdk.io/math"
	storetypes "cosmossdk.io/store/types"
	sdk "github.com/cosmos/cosmos-sdk/types"
	datypes "github.com/sunriselayer/sunrise/x/da/types"
	authtypes "github.com/cosmos/cosmos-sdk/x/auth/types"
	feetypes "github.com/sunriselayer/sunrise/x/fee/types"
	litypes "github.com/sunriselayer/sunrise/x/liquidityincentive/types"
	lptypes "github.com/sunriselayer/sunrise/x/liquiditypool/types"
	sdtypes "github.com/sunriselayer/sunrise/x/selfdelegation/types"
	sctypes "github.com/sunriselayer/sunrise/x/shareclass/types"
	swaptypes "github.com/sunriselayer/sunrise/x/swap/types"
	tctypes "github.com/sunriselayer/sunrise/x/tokenconverter/types"

	"svh/sim"
)

func init() { register("genesis", suiteGenesis) }

type tblRow struct {
	module, name, prefix, kind, parent string
	init, export                       bool
}

var genesisModules = []string{"da", "fee", "liquidityincentive", "liquiditypool", "selfdelegation", "shareclass", "swap", "tokenconverter"}

func loadTable(path string) ([]tblRow, error) {
	bz, err := os.ReadFile(path)
	if err != nil {
		return nil, err
	}
	var rows []tblRow
	for _, l := range strings.Split(strings.TrimSpace(string(bz)), "\n") {
		f := strings.Split(l, "\t")
		if len(f) != 7 {
			return nil, fmt.Errorf("bad table line %q", l)
		}
		rows = append(rows, tblRow{f[0], f[1], f[2], f[3], f[4], f[5] == "true", f[6] == "true"})
	}
	return rows, nil
}

type kv struct{ k, v []byte }

// dump: module -> prefix name -> entries in key order; keys matching no row go to "?"
func dumpStores(c *sim.Chain, rows []tblRow) map[string]map[string][]kv {
	out := map[string]map[string][]kv{}
	ctx := c.Ctx()
	for _, m := range genesisModules {
		out[m] = map[string][]kv{}
		key := c.App.UnsafeFindStoreKey(m)
		if key == nil {
			out[m]["?nostore"] = []kv{{}}
			continue
		}
		it := ctx.KVStore(key).Iterator(nil, nil)
		for ; it.Valid(); it.Next() {
			k := append([]byte{}, it.Key()...)
			v := append([]byte{}, it.Value()...)
			best, bl := "?", -1
			for _, r := range rows {
				if r.module == m && bytes.HasPrefix(k, []byte(r.prefix)) && len(r.prefix) > bl {
					best, bl = r.name, len(r.prefix)
				}
			}
			out[m][best] = append(out[m][best], kv{k, v})
		}
		it.Close()
	}
	return out
}

func wipeStore(ctx sdk.Context, key storetypes.StoreKey) {
	st := ctx.KVStore(key)
	var keys [][]byte
	it := st.Iterator(nil, nil)
	for ; it.Valid(); it.Next() {
		keys = append(keys, append([]byte{}, it.Key()...))
	}
	it.Close()
	for _, k := range keys {
		st.Delete(k)
	}
}

// roundTrip: export every custom module of c, push the genesis object through the JSON codec, wipe the store, InitGenesis.
func roundTrip(c *sim.Chain) error {
	cdc := c.App.AppCodec()
	var firstErr error
	err, p := c.Call(func(ctx sdk.Context) error {
		step := func(mod string, f func() error) {
			if err := f(); err != nil && firstErr == nil {
				firstErr = fmt.Errorf("%s: %w", mod, err)
			}
		}
		wipe := func(mod string) { wipeStore(ctx, c.App.UnsafeFindStoreKey(mod)) }
		step("da", func() error {
			g, err := c.App.DaKeeper.ExportGenesis(ctx)
			if err != nil {
				return err
			}
			var g2 datypes.GenesisState
			if err := cdc.UnmarshalJSON(cdc.MustMarshalJSON(g), &g2); err != nil {
				return err
			}
			wipe("da")
			return c.App.DaKeeper.InitGenesis(ctx, g2)
		})
		step("fee", func() error {
			g, err := c.App.FeeKeeper.ExportGenesis(ctx)
			if err != nil {
				return err
			}
			var g2 feetypes.GenesisState
			if err := cdc.UnmarshalJSON(cdc.MustMarshalJSON(g), &g2); err != nil {
				return err
			}
			wipe("fee")
			return c.App.FeeKeeper.InitGenesis(ctx, g2)
		})
		step("liquidityincentive", func() error {
			g, err := c.App.LiquidityincentiveKeeper.ExportGenesis(ctx)
			if err != nil {
				return err
			}
			var g2 litypes.GenesisState
			if err := cdc.UnmarshalJSON(cdc.MustMarshalJSON(g), &g2); err != nil {
				return err
			}
			wipe("liquidityincentive")
			return c.App.LiquidityincentiveKeeper.InitGenesis(ctx, g2)
		})
		step("liquiditypool", func() error {
			g, err := c.App.LiquiditypoolKeeper.ExportGenesis(ctx)
			if err != nil {
				return err
			}
			var g2 lptypes.GenesisState
			if err := cdc.UnmarshalJSON(cdc.MustMarshalJSON(g), &g2); err != nil {
				return err
			}
			wipe("liquiditypool")
			return c.App.LiquiditypoolKeeper.InitGenesis(ctx, g2)
		})
		step("selfdelegation", func() error {
			g, err := c.App.SelfdelegationKeeper.ExportGenesis(ctx)
			if err != nil {
				return err
			}
			var g2 sdtypes.GenesisState
			if err := cdc.UnmarshalJSON(cdc.MustMarshalJSON(g), &g2); err != nil {
				return err
			}
			wipe("selfdelegation")
			return c.App.SelfdelegationKeeper.InitGenesis(ctx, g2)
		})
		step("shareclass", func() error {
			g, err := c.App.ShareclassKeeper.ExportGenesis(ctx)
			if err != nil {
				return err
			}
			var g2 sctypes.GenesisState
			if err := cdc.UnmarshalJSON(cdc.MustMarshalJSON(g), &g2); err != nil {
				return err
			}
			wipe("shareclass")
			return c.App.ShareclassKeeper.InitGenesis(ctx, g2)
		})
		step("swap", func() error {
			g, err := c.App.SwapKeeper.ExportGenesis(ctx)
			if err != nil {
				return err
			}
			var g2 swaptypes.GenesisState
			if err := cdc.UnmarshalJSON(cdc.MustMarshalJSON(g), &g2); err != nil {
				return err
			}
			wipe("swap")
			return c.App.SwapKeeper.InitGenesis(ctx, g2)
		})
		step("tokenconverter", func() error {
			g, err := c.App.TokenconverterKeeper.ExportGenesis(ctx)
			if err != nil {
				return err
			}
			var g2 tctypes.GenesisState
			if err := cdc.UnmarshalJSON(cdc.MustMarshalJSON(g), &g2); err != nil {
				return err
			}
			wipe("tokenconverter")
			return c.App.TokenconverterKeeper.InitGenesis(ctx, g2)
		})
		return nil
	})
	if p != nil {
		return fmt.Errorf("panic: %v", p)
	}
	if err != nil {
		return err
	}
	return firstErr
}

// seedUnreachable writes, through the keepers' own collections, the prefixes the message set of the history does not reach.
func seedUnreachable(c *sim.Chain, r *Rng) error {
	err, p := c.Call(func(ctx sdk.Context) error {
		for i := 0; i < 2+r.N(2); i++ {
			lock := sdk.AccAddress(seedAddr("lockup", i))
			if err := c.App.SelfdelegationKeeper.LockupAccounts.Set(ctx, lock, c.Accs[i].Addr); err != nil {
				return err
			}
			if err := c.App.SelfdelegationKeeper.SelfDelegationProxies.Set(ctx, c.Accs[i].Addr, sdk.AccAddress(seedAddr("proxy", i))); err != nil {
				return err
			}
		}
		// shareclass users_last_reward_multiplier/: no handler ever writes it on the current tree (SetUserLastRewardMultiplier has no caller)
		if err := c.App.ShareclassKeeper.UsersLastRewardMultiplier.Set(ctx, collections.Join3(sdk.AccAddress(c.Accs[5].Addr), []byte(c.Vals[1].Oper), "urise"), "1.5"); err != nil {
			return err
		}
		for i := 0; i < 2; i++ {
			idx := swaptypes.PacketIndex{PortId: "transfer", ChannelId: "channel-0", Sequence: uint64(1 + i + r.N(5)*10)}
			if err := c.App.SwapKeeper.SetIncomingInFlightPacket(ctx, swaptypes.IncomingInFlightPacket{Index: idx, Data: []byte("d"), SrcPortId: "transfer", SrcChannelId: "channel-1",
				TimeoutHeight: "1-100", InterfaceFee: sdkmath.NewInt(int64(r.N(100)))}); err != nil {
				return err
			}
			if err := c.App.SwapKeeper.SetOutgoingInFlightPacket(ctx, swaptypes.OutgoingInFlightPacket{Index: idx, AckWaitingIndex: idx}); err != nil {
				return err
			}
		}
		return nil
	})
	if p != nil {
		return fmt.Errorf("panic: %v", p)
	}
	return err
}

func seedAddr(tag string, i int) []byte {
	b := make([]byte, 20)
	copy(b, fmt.Sprintf("%s-%d", tag, i))
	return b
}

func suiteGenesis(e *Env) {
	opts := map[string]string{}
	for _, kvs := range strings.Split(e.Replay, ",") {
		if i := strings.Index(kvs, "="); i > 0 {
			opts[kvs[:i]] = kvs[i+1:]
		}
	}
	rows, err := loadTable(opts["table"])
	if err != nil {
		e.Obs("setup-error %v", err)
		return
	}
	dg, err := daGenesis()
	if err != nil {
		e.Obs("setup-error %v", err)
		return
	}
	for hI := 0; hI < e.N; hI++ {
		hseed := e.Seed*1000 + uint64(hI)
		r := NewRng(hseed)
		gen := map[string]string{"da": dg}
		a, err := sim.New(factsConfig(gen))
		if err != nil {
			e.Obs("setup-error %v", err)
			return
		}
		e.In("reset history=%d seed=%d", hI, hseed)
		h := &histFile{Seed: hseed, Genesis: gen}
		d := &hdrv{c: a, rec: h}
		np := 3 + r.N(4)
		stepPools(d, r, np)
		stepStake(d, r)
		stepSwaps(d, r, np)
		stepGauge(d, r, np)
		if hI == 0 || r.N(3) > 0 {
			stepDA(d, r, 1+r.N(2), true)
		}
		stepShareclassMore(d, r)
		stepDAPending(d, r)
		stepSwaps(d, r, np)
		if hI == 0 || r.N(2) == 0 {
			stepClosedPosition(d, r)
		}
		for _, f := range d.fails {
			e.Note("builder: %s", f)
			e.Stat("builder_failures")
		}
		if a.Halted != "" {
			e.Obs("history halted: %s", a.Halted)
			continue
		}
		// A' = the same blocks replayed
		b, err := sim.New(factsConfig(gen))
		if err != nil {
			e.Obs("setup-error %v", err)
			return
		}
		d2 := &hdrv{c: b, replaying: true, ppMode: hI % 3}
		for _, blk := range h.Blocks {
			for _, t := range blk.Txs {
				raw, _ := base64.StdEncoding.DecodeString(t)
				d2.pend = append(d2.pend, raw)
			}
			d2.userTxs = blk.User
			d2.block(time.Duration(blk.Dt))
		}
		d2.replaying, d2.userTxs = false, 0 // from here on both chains propose their own blocks
		same := len(d.lines) == len(d2.lines)
		for i := 0; same && i < len(d.lines); i++ {
			same = d.lines[i] == d2.lines[i]
		}
		e.Oracle("replay_identical", same, "history=%d blocks=%d", hI, len(h.Blocks))
		// unreachable prefixes: same seeding on both
		for _, c := range []*sim.Chain{a, b} {
			if err := seedUnreachable(c, NewRng(hseed+7)); err != nil {
				e.Obs("seed-error %v", err)
			}
			if hI%2 == 1 {
				// governance sets valid non-default params whose zero values must survive the round trip as they are (an empty
				// bypass list means "only the fee denom"), not be replaced by defaults on import
				gov := authtypes.NewModuleAddress("gov").String()
				if _, err, p := c.Exec(&feetypes.MsgUpdateParams{Authority: gov, Params: feetypes.Params{FeeDenom: "urise", BurnRatio: "0.25", BypassDenoms: []string{}}}); err != nil || p != nil {
					e.Note("fee MsgUpdateParams: %v %v", err, p)
				} else {
					e.Stat("genesis.fee_params_empty_bypass")
				}
			} else {
				// an item published while governance had set NO collateral records an empty collateral snapshot; the collateral is
				// raised again before the export.  The import must keep the empty snapshot (nobody posted anything for this item).
				auth, _ := c.App.AuthKeeper.AddressCodec().BytesToString(c.App.DaKeeper.GetAuthority())
				par, _ := c.App.DaKeeper.Params.Get(c.Ctx())
				free := par
				free.PublishDataCollateral, free.SubmitInvalidityCollateral = sdk.NewCoins(), sdk.NewCoins()
				_, err1, p1 := c.Exec(&datypes.MsgUpdateParams{Authority: auth, Params: free})
				_, err2, p2 := c.Exec(&datypes.MsgPublishData{Sender: c.Accs[5].Addr.String(), MetadataUri: "ipfs://free-of-collateral", ParityShardCount: 1, ShardDoubleHashes: [][]byte{{1}, {2}, {3}}})
				_, err3, p3 := c.Exec(&datypes.MsgUpdateParams{Authority: auth, Params: par})
				if err1 != nil || err2 != nil || err3 != nil || p1 != nil || p2 != nil || p3 != nil {
					e.Note("free item: %v %v %v %v %v %v", err1, err2, err3, p1, p2, p3)
				} else {
					e.Stat("genesis.da_item_without_collateral")
				}
			}
		}
		before := dumpStores(a, rows)
		if err := roundTrip(b); err != nil {
			e.Oracle("genesis_export_import_runs", false, "history=%d %v", hI, err)
			continue
		}
		after := dumpStores(b, rows)
		reportDiff(e, rows, before, after, "genesis_roundtrip")

		// follow-up: the same transactions and blocks on both chains
		d.rec = nil
		follow := func(mk func()) {
			mk()
			d2.pend = append([][]byte{}, d.pend...)
			d2.label = append([]string{}, d.label...)
			ra := d.block(6 * time.Second)
			rb := d2.block(6 * time.Second)
			for i := range ra {
				okc := i < len(rb) && ra[i].Code == rb[i].Code && bytes.Equal(ra[i].Data, rb[i].Data)
				e.Oracle("followup_tx_equal", okc, "history=%d h=%d tx=%d codeA=%d", hI, a.Height, i, ra[i].Code)
				e.Stat("followup_txs")
			}
		}
		follow(func() {
			d.tx(4, &tctypes.MsgConvert{Sender: d.addr(4), Amount: sdkmath.NewInt(12345)})
			d.tx(2, &litypes.MsgVoteGauge{Sender: d.addr(2), PoolWeights: []litypes.PoolWeight{{PoolId: 0, Weight: "0.5"}, {PoolId: 1, Weight: "0.25"}}})
			d.tx(5, &lptypes.MsgCreatePool{Authority: d.addr(5), DenomBase: "uaaa", DenomQuote: "uccc", FeeRate: "0.01", PriceRatio: "1.0001", BaseOffset: "0.5"})
			d.tx(6, &datypes.MsgPublishData{Sender: d.addr(6), MetadataUri: "ipfs://after", ParityShardCount: 1, ShardDoubleHashes: [][]byte{{1}, {2}, {3}}})
		})
		for i := 0; i < 6; i++ {
			follow(func() {})
		}
		fa, fb := dumpStores(a, rows), dumpStores(b, rows)
		for _, m := range []string{"fee", "liquidityincentive", "swap", "tokenconverter"} {
			eq := dumpDigest(fa[m]) == dumpDigest(fb[m])
			e.Oracle("followup_store_equal", eq, "history=%d module=%s", hI, m)
		}
		e.Obs("history %d done", hI)
	}
}

func dumpDigest(m map[string][]kv) string {
	names := []string{}
	for n := range m {
		names = append(names, n)
	}
	sort.Strings(names)
	var sb strings.Builder
	for _, n := range names {
		for _, x := range m[n] {
			sb.WriteString(n)
			sb.Write(x.k)
			sb.WriteByte(0)
			sb.Write(x.v)
			sb.WriteByte(0)
		}
	}
	return sha([]byte(sb.String()))
}

func reportDiff(e *Env, rows []tblRow, before, after map[string]map[string][]kv, check string) {
	for _, m := range genesisModules {
		names := map[string]bool{}
		for n := range before[m] {
			names[n] = true
		}
		for n := range after[m] {
			names[n] = true
		}
		var ns []string
		for n := range names {
			ns = append(ns, n)
		}
		sort.Strings(ns)
		for _, n := range ns {
			bm := map[string]string{}
			for _, x := range before[m][n] {
				bm[string(x.k)] = string(x.v)
			}
			changed := 0
			am := map[string]bool{}
			for _, x := range after[m][n] {
				am[string(x.k)] = true
				if v, ok := bm[string(x.k)]; !ok || v != string(x.v) {
					changed++
				}
			}
			for k := range bm {
				if !am[k] {
					changed++
				}
			}
			attrib := n
			for _, r := range rows {
				if r.module == m && r.name == n && r.kind == "index" {
					attrib = r.parent
				}
			}
			e.Stat("prefix." + m + "/" + n)
			if n == "?" {
				e.Oracle("genesis_unknown_key", false, "module=%s keys=%d first=%q", m, len(before[m][n])+len(after[m][n]), firstKey(before[m][n], after[m][n]))
				continue
			}
			e.Oracle(check, changed == 0, "module=%s prefix=%s row=%s before=%d after=%d changed=%d", m, attrib, n, len(before[m][n]), len(after[m][n]), changed)
		}
	}
}

func firstKey(a, b []kv) string {
	if len(a) > 0 {
		return string(a[0].k)
	}
	if len(b) > 0 {
		return string(b[0].k)
	}
	return ""
}
