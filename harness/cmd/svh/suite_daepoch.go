package main

import (
	"fmt"
	"time"

	sdkmath "cosmossdk.io/math"
	stakingtypes "cosmossdk.io/x/staking/types"
	sdk "github.com/cosmos/cosmos-sdk/types"
	authtypes "github.com/cosmos/cosmos-sdk/x/auth/types"

	"svh/sim"
)

func init() { register("daepoch", suiteDaEpoch) }

// C09 (slash epoch), directed: validators that are jailed / not bonded at the epoch boundary while they still carry fault
// counters (which the message-driven `da` suite cannot produce: x/da only jails at the boundary itself, after resetting).
// Oracle = the property's sentence: at epoch end exactly the bonded, unjailed validators whose faults exceed
// ceil(threshold x challenges) are slashed and jailed, and ALL counters are reset.
func suiteDaEpoch(e *Env) {
	for h := 0; h < e.N; h++ {
		cfg := sim.DefaultConfig()
		cfg.ValPowers = []int64{100, 80, 60, 40}
		c, err := sim.New(cfg)
		if err != nil {
			e.Obs("setup-error %v", err)
			return
		}
		k := c.App.DaKeeper
		// jail a random subset first (never all), let staking's end-blocker apply it
		jailed := map[int]bool{}
		for i := range c.Vals {
			if e.R.N(3) == 0 && len(jailed) < len(c.Vals)-1 {
				jailed[i] = true
				i := i
				if err, p := c.Call(func(ctx sdk.Context) error { return c.App.StakingKeeper.Jail(ctx, c.Vals[i].Cons) }); err != nil || p != nil {
					e.Obs("jail-error %v %v", err, p)
					return
				}
			}
		}
		// every second history governance also lowers max_validators by one: the weakest validator that is still bonded leaves the
		// set WITHOUT being jailed (status UNBONDING) and may carry faults above the threshold into the boundary
		if h%2 == 1 {
			sp, _ := c.App.StakingKeeper.Params.Get(c.Ctx())
			sp.MaxValidators = uint32(len(c.Vals) - len(jailed) - 1)
			if sp.MaxValidators >= 1 {
				sp.KeyRotationFee = sdk.NewCoin(sp.BondDenom, sp.KeyRotationFee.Amount)
				_, err, p := c.Exec(&stakingtypes.MsgUpdateParams{Authority: authtypes.NewModuleAddress("gov").String(), Params: sp})
				e.Stat("max_validators_lowered." + class(err, p))
			}
		}
		if _, err := c.NextBlock(6 * time.Second); err != nil {
			e.Obs("halt %v", err)
			return
		}
		params, _ := k.Params.Get(c.Ctx())
		thr := sdkmath.LegacyMustNewDecFromStr(params.SlashFaultThreshold)
		challenges := uint64(e.R.N(12))
		faults := make([]uint64, len(c.Vals))
		if err, p := c.Call(func(ctx sdk.Context) error {
			if err := k.SetChallengeCounter(ctx, challenges); err != nil {
				return err
			}
			for i, v := range c.Vals {
				faults[i] = uint64(e.R.N(int(challenges) + 3))
				if faults[i] > 0 {
					if err := k.SetFaultCounter(ctx, v.Oper, faults[i]); err != nil {
						return err
					}
				}
			}
			return nil
		}); err != nil || p != nil {
			e.Obs("prep-error %v %v", err, p)
			return
		}
		threshold := thr.MulInt64(int64(challenges)).Ceil().TruncateInt().Uint64()
		pre := make([]bool, len(c.Vals))
		wasJailed := make([]bool, len(c.Vals))
		for i, v := range c.Vals {
			val, _ := c.App.StakingKeeper.Validator(c.Ctx(), v.Oper)
			pre[i] = val.IsBonded() && !val.IsJailed()
			wasJailed[i] = val.IsJailed()
			if !val.IsBonded() && !val.IsJailed() {
				e.Stat("with_unbonding_unjailed_validator")
			}
		}
		desc := fmt.Sprintf("challenges=%d threshold=%d faults=%v jailed_before=%v", challenges, threshold, faults, jailed)
		e.Note("history %d %s", h, desc)
		_, p := c.Call(func(ctx sdk.Context) error { k.HandleSlashEpoch(ctx.WithBlockHeight(c.Height)); return nil })
		e.Oracle("no_panic", p == nil, "HandleSlashEpoch %s %v", desc, p)
		ctx := c.Ctx()
		left := 0
		for i, v := range c.Vals {
			n, _ := k.GetFaultCounter(ctx, v.Oper)
			if n != 0 {
				left++
			}
			val, _ := c.App.StakingKeeper.Validator(ctx, v.Oper)
			wantSlash := pre[i] && faults[i] > threshold
			gotSlash := val.IsJailed() && !wasJailed[i] // jailed by this boundary, whatever its status was
			e.Oracle("slash_iff", wantSlash == gotSlash, "validator %d faults=%d bonded_unjailed=%v slashed=%v want=%v %s", i, faults[i], pre[i], gotSlash, wantSlash, desc)
			e.Stat(fmt.Sprintf("slash.%v", gotSlash))
		}
		e.Oracle("fault_reset", left == 0, "%d fault counters left after the epoch boundary; %s", left, desc)
		e.Oracle("challenge_counter", k.GetChallengeCounter(ctx) == 0, "challenge counter %d after epoch", k.GetChallengeCounter(ctx))
		if len(jailed) > 0 {
			e.Stat("with_jailed_validator")
		}
	}
}
