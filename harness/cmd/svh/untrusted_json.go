package main

// C15: abstract JSON trees for the memo generator. A tree is serialised twice: as JSON text for the implementation
// and as a prefix token stream for the Lean model (strings hex-encoded; objects keep duplicate keys in order).
//   n | t | f | #<literal> | s<hex> | [<k> v1..vk | {<k> k<hex> v1 .. k<hex> vk

import (
	"bytes"
	"encoding/hex"
	"encoding/json"
	"fmt"
	"regexp"
	"strings"
)

type jkind int

const (
	jNull jkind = iota
	jBool
	jNum
	jStr
	jArr
	jObj
)

type J struct {
	K    jkind
	B    bool
	S    string // number literal or string value
	A    []*J
	Keys []string // object keys (duplicates allowed), values in A
}

func jnull() *J            { return &J{K: jNull} }
func jbool(b bool) *J      { return &J{K: jBool, B: b} }
func jnum(lit string) *J   { return &J{K: jNum, S: lit} }
func jstr(s string) *J     { return &J{K: jStr, S: s} }
func jarr(xs ...*J) *J     { return &J{K: jArr, A: xs} }
func jobj(kv ...any) *J { // "k", v, "k2", v2 ...
	o := &J{K: jObj}
	for i := 0; i+1 < len(kv); i += 2 {
		o.Keys = append(o.Keys, kv[i].(string))
		o.A = append(o.A, kv[i+1].(*J))
	}
	return o
}

func (j *J) clone() *J {
	c := *j
	c.A = make([]*J, len(j.A))
	for i, x := range j.A {
		c.A[i] = x.clone()
	}
	c.Keys = append([]string(nil), j.Keys...)
	return &c
}

func (j *J) text(sb *bytes.Buffer) {
	switch j.K {
	case jNull:
		sb.WriteString("null")
	case jBool:
		if j.B {
			sb.WriteString("true")
		} else {
			sb.WriteString("false")
		}
	case jNum:
		sb.WriteString(j.S)
	case jStr:
		b, _ := json.Marshal(j.S)
		sb.Write(b)
	case jArr:
		sb.WriteByte('[')
		for i, x := range j.A {
			if i > 0 {
				sb.WriteByte(',')
			}
			x.text(sb)
		}
		sb.WriteByte(']')
	case jObj:
		sb.WriteByte('{')
		for i, x := range j.A {
			if i > 0 {
				sb.WriteByte(',')
			}
			b, _ := json.Marshal(j.Keys[i])
			sb.Write(b)
			sb.WriteByte(':')
			x.text(sb)
		}
		sb.WriteByte('}')
	}
}

func (j *J) Text() string {
	var sb bytes.Buffer
	j.text(&sb)
	return sb.String()
}

func (j *J) tokens(sb *strings.Builder) {
	switch j.K {
	case jNull:
		sb.WriteString(" n")
	case jBool:
		if j.B {
			sb.WriteString(" t")
		} else {
			sb.WriteString(" f")
		}
	case jNum:
		sb.WriteString(" #" + j.S)
	case jStr:
		sb.WriteString(" s" + hex.EncodeToString([]byte(j.S)))
	case jArr:
		fmt.Fprintf(sb, " [%d", len(j.A))
		for _, x := range j.A {
			x.tokens(sb)
		}
	case jObj:
		fmt.Fprintf(sb, " {%d", len(j.A))
		for i, x := range j.A {
			sb.WriteString(" k" + hex.EncodeToString([]byte(j.Keys[i])))
			x.tokens(sb)
		}
	}
}

func (j *J) Tokens() string {
	var sb strings.Builder
	j.tokens(&sb)
	return strings.TrimSpace(sb.String())
}

// parseJSON turns any JSON text that encoding/json accepts into a tree (duplicate keys preserved, numbers as literals,
// strings as encoding/json decodes them). ok=false iff encoding/json rejects the text.
func parseJSON(text []byte) (*J, bool) {
	if !json.Valid(text) {
		return nil, false
	}
	dec := json.NewDecoder(bytes.NewReader(text))
	dec.UseNumber()
	j, err := parseValue(dec)
	if err != nil {
		return nil, false
	}
	return j, true
}

func parseValue(dec *json.Decoder) (*J, error) {
	t, err := dec.Token()
	if err != nil {
		return nil, err
	}
	switch v := t.(type) {
	case nil:
		return jnull(), nil
	case bool:
		return jbool(v), nil
	case json.Number:
		return jnum(string(v)), nil
	case string:
		return jstr(v), nil
	case json.Delim:
		switch v {
		case '[':
			a := &J{K: jArr}
			for dec.More() {
				x, err := parseValue(dec)
				if err != nil {
					return nil, err
				}
				a.A = append(a.A, x)
			}
			_, err := dec.Token()
			return a, err
		case '{':
			o := &J{K: jObj}
			for dec.More() {
				kt, err := dec.Token()
				if err != nil {
					return nil, err
				}
				k, ok := kt.(string)
				if !ok {
					return nil, fmt.Errorf("non-string key")
				}
				x, err := parseValue(dec)
				if err != nil {
					return nil, err
				}
				o.Keys = append(o.Keys, k)
				o.A = append(o.A, x)
			}
			_, err := dec.Token()
			return o, err
		}
	}
	return nil, fmt.Errorf("unexpected token %v", t)
}

// ---- which documents the Lean model predicts (everything else is still executed and checked for panics) -----------------
//
// The model covers DecodeSwapMetadata's own code completely and jsonpb's structural behaviour for the PacketMetadata schema
// (objects, null, both accepted field names, duplicate keys, oneof wrappers, unknown fields, repeated fields). Scalar leaf
// syntax is modelled for the plain forms only; documents with exotic leaves are "dynamic only":
//   * number literals other than plain integers below 2^53 (re-marshalling through float64 changes them),
//   * integer strings in base-prefixed/underscore/leading-zero/padded form,
//   * duration strings other than <digits><unit>,
//   * two alternatives of one oneof in the same object (jsonpb iterates a Go map: the winner is not deterministic),
//   * strings that are not valid UTF-8 after decoding or contain U+FFFD (re-marshalling differs), keys with upper-case
//     variants are fine.
var (
	rePlainNum  = regexp.MustCompile(`^-?(0|[1-9][0-9]{0,14})$`)
	rePlainInt  = regexp.MustCompile(`^[+-]?(0|[1-9][0-9]*)$`)
	reNoDigits  = regexp.MustCompile(`^[^0-9]*$`)
	rePlainDur  = regexp.MustCompile(`^(0|[1-9][0-9]{0,8})(ns|us|ms|s|m|h)$`)
	rePlainUint = regexp.MustCompile(`^(0|[1-9][0-9]*)$`)
)

var intKeys = map[string]bool{"min_amount_out": true, "minAmountOut": true, "amount_out": true, "amountOut": true}
var uintKeys = map[string]bool{"pool_id": true, "poolId": true, "retries": true}
var oneofGroups = [][]string{{"exact_amount_in", "exactAmountIn", "exact_amount_out", "exactAmountOut"}, {"pool", "series", "parallel"}}

func modelled(j *J, key string) bool {
	switch j.K {
	case jNum:
		return rePlainNum.MatchString(j.S)
	case jStr:
		if strings.ContainsRune(j.S, 0xFFFD) {
			return false
		}
		switch {
		case intKeys[key]:
			return rePlainInt.MatchString(j.S) || reNoDigits.MatchString(j.S)
		case uintKeys[key]:
			return rePlainUint.MatchString(j.S) || reNoDigits.MatchString(j.S) && j.S != "null" && !strings.Contains(j.S, "\\")
		case key == "timeout":
			return rePlainDur.MatchString(j.S) || reNoDigits.MatchString(j.S)
		}
		return true
	case jArr:
		for _, x := range j.A {
			if !modelled(x, key) {
				return false
			}
		}
	case jObj:
		for _, g := range oneofGroups {
			alts := map[string]bool{}
			for _, k := range j.Keys {
				for gi, name := range g {
					if k == name {
						if len(g) == 4 {
							alts[g[gi/2*2]] = true
						} else {
							alts[name] = true
						}
					}
				}
			}
			if len(alts) > 1 {
				return false
			}
		}
		for i, x := range j.A {
			if strings.ContainsRune(j.Keys[i], 0xFFFD) {
				return false
			}
			if !modelled(x, j.Keys[i]) {
				return false
			}
		}
	}
	return true
}
