package main

const (
	mathGo   = "x/liquiditypool/types/math.go"
	constGo  = "x/liquiditypool/types/constants.go"
	helperGo = "x/liquiditypool/keeper/keeper_swap_helper.go"
)

var helperFields = []field{{"s.sqrtPriceLimit", tDec}, {"s.feeRate", tDec}}

var registry []genFile

func registerGen(g genFile) { registry = append(registry, g) }

func genFiles() []genFile { return registry }

func init() {
	registerGen(
		genFile{
			name:    "KernelsCL",
			imports: []string{"SunriseVerif.Model.Dec"},
			targets: []target{
				{kind: "const", file: constGo, name: "MultiplierSqrt", lean: "MultiplierSqrt"},
				{kind: "const", file: constGo, name: "Multiplier", lean: "Multiplier"},
				{kind: "const", file: constGo, name: "MaxSqrtPrice", lean: "MaxSqrtPrice"},
				{kind: "const", file: constGo, name: "MaxMultipliedSpotPrice", lean: "MaxMultipliedSpotPrice"},
				{kind: "const", file: constGo, name: "MinSqrtPrice", lean: "MinSqrtPrice"},
				{kind: "const", file: constGo, name: "MinMultipliedSpotPrice", lean: "MinMultipliedSpotPrice"},
				{kind: "func", file: mathGo, name: "LiquidityBase", lean: "LiquidityBase"},
				{kind: "func", file: mathGo, name: "LiquidityQuote", lean: "LiquidityQuote"},
				{kind: "func", file: mathGo, name: "CalcAmountBaseDelta", lean: "CalcAmountBaseDelta"},
				{kind: "func", file: mathGo, name: "CalcAmountQuoteDelta", lean: "CalcAmountQuoteDelta"},
				{kind: "func", file: mathGo, name: "GetNextSqrtPriceFromAmountBaseInRoundingUp", lean: "GetNextSqrtPriceFromAmountBaseInRoundingUp"},
				{kind: "func", file: mathGo, name: "GetNextSqrtPriceFromAmountBaseOutRoundingUp", lean: "GetNextSqrtPriceFromAmountBaseOutRoundingUp"},
				{kind: "func", file: mathGo, name: "GetNextSqrtPriceFromAmountQuoteInRoundingDown", lean: "GetNextSqrtPriceFromAmountQuoteInRoundingDown"},
				{kind: "func", file: mathGo, name: "GetNextSqrtPriceFromAmountQuoteOutRoundingDown", lean: "GetNextSqrtPriceFromAmountQuoteOutRoundingDown"},
				{kind: "func", file: mathGo, name: "GetLiquidityFromAmounts", lean: "GetLiquidityFromAmounts"},
				{kind: "func", file: mathGo, name: "SquareRoundUp", lean: "SquareRoundUp"},
				{kind: "func", file: mathGo, name: "SquareTruncate", lean: "SquareTruncate"},
				{kind: "func", file: "x/liquiditypool/types/pool.go", recv: "Pool", name: "IsCurrentTickInRange", lean: "IsCurrentTickInRange", fields: []field{{"p.CurrentTick", tInt}}},
				{kind: "func", file: helperGo, name: "getFeeRateOverOneMinusFeeRate", lean: "getFeeRateOverOneMinusFeeRate"},
				{kind: "func", file: helperGo, name: "computeFeeChargeFromInAmount", lean: "computeFeeChargeFromInAmount"},
				{kind: "func", file: helperGo, name: "computeFeeChargePerSwapStepOutGivenIn", lean: "computeFeeChargePerSwapStepOutGivenIn"},
				{kind: "func", file: helperGo, recv: "baseForQuoteHelper", name: "GetSqrtTargetPrice", lean: "bfq_GetSqrtTargetPrice", fields: helperFields},
				{kind: "func", file: helperGo, recv: "baseForQuoteHelper", name: "ComputeSwapWithinBucketOutGivenIn", lean: "bfq_ComputeSwapWithinBucketOutGivenIn", fields: helperFields},
				{kind: "func", file: helperGo, recv: "baseForQuoteHelper", name: "ComputeSwapWithinBucketInGivenOut", lean: "bfq_ComputeSwapWithinBucketInGivenOut", fields: helperFields},
				{kind: "func", file: helperGo, recv: "baseForQuoteHelper", name: "GetLiquidityDeltaSign", lean: "bfq_GetLiquidityDeltaSign", fields: helperFields},
				{kind: "func", file: helperGo, recv: "baseForQuoteHelper", name: "NextTickAfterCrossing", lean: "bfq_NextTickAfterCrossing", fields: helperFields},
				{kind: "func", file: helperGo, recv: "baseForQuoteHelper", name: "ValidateSqrtPrice", lean: "bfq_ValidateSqrtPrice", fields: helperFields},
				{kind: "func", file: helperGo, recv: "quoteForBaseHelper", name: "GetSqrtTargetPrice", lean: "qfb_GetSqrtTargetPrice", fields: helperFields},
				{kind: "func", file: helperGo, recv: "quoteForBaseHelper", name: "ComputeSwapWithinBucketOutGivenIn", lean: "qfb_ComputeSwapWithinBucketOutGivenIn", fields: helperFields},
				{kind: "func", file: helperGo, recv: "quoteForBaseHelper", name: "ComputeSwapWithinBucketInGivenOut", lean: "qfb_ComputeSwapWithinBucketInGivenOut", fields: helperFields},
				{kind: "func", file: helperGo, recv: "quoteForBaseHelper", name: "GetLiquidityDeltaSign", lean: "qfb_GetLiquidityDeltaSign", fields: helperFields},
				{kind: "func", file: helperGo, recv: "quoteForBaseHelper", name: "NextTickAfterCrossing", lean: "qfb_NextTickAfterCrossing", fields: helperFields},
				{kind: "func", file: helperGo, recv: "quoteForBaseHelper", name: "ValidateSqrtPrice", lean: "qfb_ValidateSqrtPrice", fields: helperFields},
			},
		})
}
