package main

// Ties (gauge): the guards and arithmetic of x/liquidityincentive/keeper/abci.go and keeper_tally.go that the hand-written
// model lean/SunriseVerif/Model/Gauge.lean mirrors, regenerated on every run (Gen/KernelsTieGauge.lean) and proved equal to
// the model's expressions in Props/TieGauge.lean.  Opaque inputs are declared by their printed form (`ctx.BlockHeight()`,
// `len(epochs)`, `delegation.GetShares()`).
// NOT regenerated (outside the subset, sdk.DecCoins): `allocationDec := vRiseDec.MulDecTruncate(weight)` and
// `allocation, _ := allocationDec.TruncateDecimal()`; they stay tied by the gauge correspondence run only.

const (
	liAbciGo  = "x/liquidityincentive/keeper/abci.go"
	liTallyGo = "x/liquidityincentive/keeper/keeper_tally.go"
)

func init() {
	power := []field{{"val.BondedTokens", tInt}, {"val.DelegatorShares", tDec}}
	registerGen(genFile{
		name:    "KernelsTieGauge",
		imports: []string{"SunriseVerif.Model.Dec"},
		targets: []target{
			// BeginBlocker
			{kind: "expr", file: liAbciGo, recv: "Keeper", name: "BeginBlocker", lhs: "totalCount", nth: 1, lean: "bb_totalCountStep",
				fields: []field{{"totalCount", tDec}, {"gauge.Count", tInt}}},
			{kind: "cond", file: liAbciGo, recv: "Keeper", name: "BeginBlocker", nth: 1, lean: "bb_totalCountIsZero",
				fields: []field{{"totalCount", tDec}}},
			{kind: "expr", file: liAbciGo, recv: "Keeper", name: "BeginBlocker", lhs: "weight", lean: "bb_weight",
				fields: []field{{"gauge.Count", tInt}, {"totalCount", tDec}}},
			// EndBlocker / CreateEpoch
			{kind: "cond", file: liAbciGo, recv: "Keeper", name: "EndBlocker", nth: 1, lean: "eb_epochEnded",
				fields: []field{{"ctx.BlockHeight()", tInt}, {"lastEpoch.EndBlock", tInt}}},
			{kind: "cond", file: liAbciGo, recv: "Keeper", name: "EndBlocker", nth: 2, lean: "eb_pruneNeeded",
				fields: []field{{"len(epochs)", tInt}}},
			{kind: "cond", file: liAbciGo, recv: "Keeper", name: "CreateEpoch", nth: 0, lean: "ce_emptyTally",
				fields: []field{{"len(results)", tInt}}},
			{kind: "kv", file: liAbciGo, recv: "Keeper", name: "CreateEpoch", lhs: "StartBlock", lean: "ce_startBlock",
				fields: []field{{"ctx.BlockHeight()", tInt}}},
			{kind: "kv", file: liAbciGo, recv: "Keeper", name: "CreateEpoch", lhs: "EndBlock", lean: "ce_endBlock",
				fields: []field{{"ctx.BlockHeight()", tInt}, {"params.EpochBlocks", tInt}}},
			// Tally
			{kind: "expr", file: liTallyGo, recv: "Keeper", name: "Tally", lhs: "votingPower", nth: 0, lean: "tally_delegatorPower",
				fields: append([]field{{"delegation.GetShares()", tDec}}, power...)},
			{kind: "expr", file: liTallyGo, recv: "Keeper", name: "Tally", lhs: "val.DelegatorDeductions", nth: 0, lean: "tally_deductions",
				fields: []field{{"val.DelegatorDeductions", tDec}, {"delegation.GetShares()", tDec}}},
			{kind: "cond", file: liTallyGo, recv: "Keeper", name: "Tally", nth: 3, lean: "tally_validatorSkipped",
				fields: []field{{"len(val.PoolWeights)", tInt}}},
			{kind: "expr", file: liTallyGo, recv: "Keeper", name: "Tally", lhs: "sharesAfterDeductions", lean: "tally_sharesAfterDeductions",
				fields: []field{{"val.DelegatorShares", tDec}, {"val.DelegatorDeductions", tDec}}},
			{kind: "expr", file: liTallyGo, recv: "Keeper", name: "Tally", lhs: "votingPower", nth: 1, lean: "tally_validatorPower",
				fields: append([]field{{"sharesAfterDeductions", tDec}}, power...)},
			{kind: "expr", file: liTallyGo, recv: "Keeper", name: "Tally", lhs: "subPower", nth: 0, lean: "tally_subPowerDelegator",
				fields: []field{{"votingPower", tDec}, {"weight", tDec}}},
			{kind: "expr", file: liTallyGo, recv: "Keeper", name: "Tally", lhs: "subPower", nth: 1, lean: "tally_subPowerValidator",
				fields: []field{{"votingPower", tDec}, {"weight", tDec}}},
			{kind: "expr", file: liTallyGo, recv: "Keeper", name: "Tally", lhs: "totalVotingPower", nth: 1, lean: "tally_totalStep",
				fields: []field{{"totalVotingPower", tDec}, {"votingPower", tDec}}},
			{kind: "cond", file: liTallyGo, recv: "Keeper", name: "Tally", nth: 5, lean: "tally_noBonded",
				fields: []field{{"totalBonded", tInt}}},
			{kind: "kv", file: liTallyGo, name: "NewTallyResultFromMap", lhs: "Count", lean: "tally_count",
				fields: []field{{"count", tDec}}},
		},
	})
}
