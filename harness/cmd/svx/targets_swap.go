package main

// C03: the two interface-fee computations of x/swap/keeper and the parallel split share of x/swap/types/route.go,
// regenerated from source on every run (Gen/KernelsSwap.lean).

const (
	routeGo   = "x/swap/types/route.go"
	swapInGo  = "x/swap/keeper/keeper_swap_exact_amount_in.go"
	swapOutGo = "x/swap/keeper/keeper_swap_exact_amount_out.go"
)

func init() {
	registerGen(genFile{
		name:    "KernelsSwap",
		imports: []string{"SunriseVerif.Model.Dec"},
		targets: []target{
			{kind: "expr", file: routeGo, recv: "Route", name: "InspectRoute", lhs: "amountsExact[i]", lean: "split_share",
				fields: []field{{"weight", tDec}, {"amountExact", tInt}, {"weightSum", tDec}}},
			{kind: "expr", file: swapInGo, recv: "Keeper", name: "calculateInterfaceFeeExactAmountIn", lhs: "amountOutNet", lean: "feeIn_amountOutNet",
				fields: []field{{"amountOutGross", tInt}, {"interfaceFeeRate", tDec}}},
			{kind: "expr", file: swapInGo, recv: "Keeper", name: "calculateInterfaceFeeExactAmountIn", lhs: "interfaceFee", lean: "feeIn_interfaceFee",
				fields: []field{{"amountOutGross", tInt}, {"amountOutNet", tInt}}},
			{kind: "expr", file: swapOutGo, recv: "Keeper", name: "calculateInterfaceFeeExactAmountOut", lhs: "amountOutGross", lean: "feeOut_amountOutGross",
				fields: []field{{"amountOutNet", tInt}, {"interfaceFeeRate", tDec}}},
			{kind: "expr", file: swapOutGo, recv: "Keeper", name: "calculateInterfaceFeeExactAmountOut", lhs: "interfaceFee", lean: "feeOut_interfaceFee",
				fields: []field{{"amountOutGross", tInt}, {"amountOutNet", tInt}}},
		},
	})
}
