package main

// C12: arithmetic kernels of the two lockup account implementations (identical code in two packages; both are
// regenerated, the theorems are stated once over a variant parameter in Props/C12.lean).
// sdk.Coin values are passed as their Int amount (`coin.Add/Sub` of same-denom coins is Int add/sub; the
// negative-result panic of Coin.Sub is excluded by the theorems `*_nonneg`).

func lockupTargets(prefix, dir string) []target {
	cont := dir + "/continuous_locking_account.go"
	base := dir + "/lockup.go"
	i := func(names ...string) []field {
		fs := []field{}
		for _, n := range names {
			fs = append(fs, field{n, tInt})
		}
		return fs
	}
	return []target{
		// schedule: GetLockCoinInfoWithDenom
		{kind: "cond", file: cont, recv: "ContinuousLockingAccount", name: "GetLockCoinInfoWithDenom", nth: 0, lean: prefix + "sched_beforeStart",
			fields: []field{{"startTime", tTime}, {"endTime", tTime}, {"blockTime", tTime}}},
		{kind: "cond", file: cont, recv: "ContinuousLockingAccount", name: "GetLockCoinInfoWithDenom", nth: 1, lean: prefix + "sched_afterEnd",
			fields: []field{{"startTime", tTime}, {"endTime", tTime}, {"blockTime", tTime}}},
		{kind: "expr", file: cont, recv: "ContinuousLockingAccount", name: "GetLockCoinInfoWithDenom", lhs: "x", lean: prefix + "sched_x",
			fields: []field{{"startTime", tTime}, {"endTime", tTime}, {"blockTime", tTime}}},
		{kind: "expr", file: cont, recv: "ContinuousLockingAccount", name: "GetLockCoinInfoWithDenom", lhs: "y", lean: prefix + "sched_y",
			fields: []field{{"startTime", tTime}, {"endTime", tTime}, {"blockTime", tTime}}},
		{kind: "expr", file: cont, recv: "ContinuousLockingAccount", name: "GetLockCoinInfoWithDenom", lhs: "s", lean: prefix + "sched_s", fields: i("x", "y")},
		{kind: "expr", file: cont, recv: "ContinuousLockingAccount", name: "GetLockCoinInfoWithDenom", lhs: "unlockedAmt", lean: prefix + "sched_unlockedAmt",
			fields: []field{{"originalLocking.Amount", tInt}, {"s", tDec}}},
		{kind: "expr", file: cont, recv: "ContinuousLockingAccount", name: "GetLockCoinInfoWithDenom", lhs: "locked", lean: prefix + "sched_locked", fields: i("originalLocking", "unlocked")},
		// Init validation of the schedule
		{kind: "cond", file: cont, recv: "ContinuousLockingAccount", name: "Init", nth: 1, lean: prefix + "init_badWindow",
			fields: []field{{"msg.StartTime", tTime}, {"msg.EndTime", tTime}}},
		// TrackDelegation
		{kind: "cond", file: base, recv: "BaseLockup", name: "TrackDelegation", nth: 0, lean: prefix + "trackDel_reject", fields: i("delAmt", "baseAmt")},
		{kind: "expr", file: base, recv: "BaseLockup", name: "TrackDelegation", lhs: "x", lean: prefix + "trackDel_x", fields: i("lockedAmt", "delLockingAmt", "delAmt")},
		{kind: "expr", file: base, recv: "BaseLockup", name: "TrackDelegation", lhs: "y", lean: prefix + "trackDel_y", fields: i("delAmt", "x")},
		{kind: "cond", file: base, recv: "BaseLockup", name: "TrackDelegation", nth: 1, lean: prefix + "trackDel_setDV", fields: i("x", "y")},
		{kind: "cond", file: base, recv: "BaseLockup", name: "TrackDelegation", nth: 2, lean: prefix + "trackDel_setDF", fields: i("x", "y")},
		{kind: "expr", file: base, recv: "BaseLockup", name: "TrackDelegation", lhs: "newDelLocking", lean: prefix + "trackDel_newDV", fields: i("delLockingCoin", "xCoin")},
		{kind: "expr", file: base, recv: "BaseLockup", name: "TrackDelegation", lhs: "newDelFree", lean: prefix + "trackDel_newDF", fields: i("delFreeCoin", "yCoin")},
		// TrackUndelegation
		{kind: "cond", file: base, recv: "BaseLockup", name: "TrackUndelegation", nth: 0, lean: prefix + "trackUndel_reject", fields: i("delAmt")},
		{kind: "expr", file: base, recv: "BaseLockup", name: "TrackUndelegation", lhs: "x", lean: prefix + "trackUndel_x", fields: i("delFreeAmt", "delLockingAmt", "delAmt")},
		{kind: "expr", file: base, recv: "BaseLockup", name: "TrackUndelegation", lhs: "y", lean: prefix + "trackUndel_y", fields: i("delFreeAmt", "delLockingAmt", "delAmt", "x")},
		{kind: "cond", file: base, recv: "BaseLockup", name: "TrackUndelegation", nth: 1, lean: prefix + "trackUndel_setDF", fields: i("x", "y")},
		{kind: "cond", file: base, recv: "BaseLockup", name: "TrackUndelegation", nth: 2, lean: prefix + "trackUndel_setDV", fields: i("x", "y")},
		{kind: "expr", file: base, recv: "BaseLockup", name: "TrackUndelegation", lhs: "newDelFree", lean: prefix + "trackUndel_newDF", fields: i("delFreeCoin", "xCoin")},
		{kind: "expr", file: base, recv: "BaseLockup", name: "TrackUndelegation", lhs: "newDelLocking", lean: prefix + "trackUndel_newDV", fields: i("delLockingCoin", "yCoin")},
		// GetNotBondedLockedCoin
		{kind: "expr", file: base, recv: "BaseLockup", name: "GetNotBondedLockedCoin", lhs: "x", lean: prefix + "notBonded_x",
			fields: []field{{"lockedCoin.Amount", tInt}, {"delegatedLockingAmt", tInt}}},
		{kind: "expr", file: base, recv: "BaseLockup", name: "GetNotBondedLockedCoin", lhs: "lockedAmt", lean: prefix + "notBonded_locked",
			fields: []field{{"lockedCoin.Amount", tInt}, {"x", tInt}}},
	}
}

func init() {
	ts := lockupTargets("nv_", "x/accounts/non_voting_delegatable_lockup")
	ts = append(ts, lockupTargets("sd_", "x/accounts/self_delegatable_lockup")...)
	registerGen(genFile{
		name:    "KernelsLockup",
		imports: []string{"SunriseVerif.Model.Dec", "SunriseVerif.Model.Time"},
		targets: ts,
	})
}
