package main

// C10: the four pure kernels of x/shareclass/types/types.go over cosmossdk.io/math.Dec (Model/Dec34.lean).
const shareTypesGo = "x/shareclass/types/types.go"

func init() {
	registerGen(genFile{
		name:    "KernelsShare",
		imports: []string{"SunriseVerif.Model.Dec34"},
		targets: []target{
			{kind: "func", file: shareTypesGo, name: "CalculateShareByAmount", lean: "CalculateShareByAmount"},
			{kind: "func", file: shareTypesGo, name: "CalculateAmountByShare", lean: "CalculateAmountByShare"},
			{kind: "func", file: shareTypesGo, name: "CalculateReward", lean: "CalculateReward"},
			{kind: "func", file: shareTypesGo, name: "CalculateRewardMultiplierNew", lean: "CalculateRewardMultiplierNew"},
		},
	})
}
