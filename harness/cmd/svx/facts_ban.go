package main

// C13 (transfer ban): every `<x>ankKeeper.Send*` / `InputOutputCoins` call site in the custom modules (x/**, app/**,
// non-test, non-generated), with the facts a decision about the ban needs:
//   guardedAny   — some `IsSendEnabledCoins(...)` whose failure returns from the function precedes the call in the
//                  same or an enclosing block of the same function (syntactic dominance);
//   guardedSame  — as above and the checked expression occurs textually in the coins argument of the send
//                  (`coins...` is normalised to `coins`).
// Output: lean/SunriseVerif/Gen/FactsBan.lean (a list literal; Props/C13.lean decides the table against a
// hand-written classification of every site, so a new or changed site breaks the proof).

import (
	"bytes"
	"fmt"
	"go/ast"
	"go/printer"
	"go/token"
	"os"
	"path/filepath"
	"sort"
	"strings"
)

type sendSite struct {
	file, fn, method, from, to, coins string
	nth                              int
	guardedAny, guardedSame          bool
}

// source text of an expression, whitespace-normalised
func srcText(e ast.Expr) string {
	var b bytes.Buffer
	_ = printer.Fprint(&b, token.NewFileSet(), e)
	return strings.Join(strings.Fields(b.String()), " ")
}

func isBankRecv(e ast.Expr) bool {
	p, ok := selPath(e)
	if !ok {
		return false
	}
	return strings.HasSuffix(p, "ankKeeper")
}

// a statement of the form `if err := X.IsSendEnabledCoins(ctx, args...); err != nil { return ... }`
// or `err = X.IsSendEnabledCoins(...)` directly followed by `if err != nil { return … }`; returns the checked arg text
func sendEnabledCheck(s ast.Stmt, next ast.Stmt) (string, bool) {
	callOf := func(e ast.Expr) (string, bool) {
		c, ok := e.(*ast.CallExpr)
		if !ok {
			return "", false
		}
		sel, ok := c.Fun.(*ast.SelectorExpr)
		if !ok || sel.Sel.Name != "IsSendEnabledCoins" || !isBankRecv(sel.X) || len(c.Args) < 2 {
			return "", false
		}
		parts := []string{}
		for _, a := range c.Args[1:] {
			parts = append(parts, srcText(a))
		}
		return strings.Join(parts, ","), true
	}
	if is, ok := s.(*ast.IfStmt); ok && is.Init != nil {
		if as, ok := is.Init.(*ast.AssignStmt); ok && len(as.Rhs) == 1 {
			if a, ok := callOf(as.Rhs[0]); ok && isErrNotNil(is.Cond) && endsInReturn(is.Body.List) {
				return a, true
			}
		}
	}
	if as, ok := s.(*ast.AssignStmt); ok && len(as.Rhs) == 1 && next != nil {
		if a, ok := callOf(as.Rhs[0]); ok {
			if is, ok := next.(*ast.IfStmt); ok && is.Init == nil && isErrNotNil(is.Cond) && endsInReturn(is.Body.List) {
				return a, true
			}
		}
	}
	return "", false
}

func collectSends(file string, fd *ast.FuncDecl, out *[]sendSite) {
	count := 0
	fn := fd.Name.Name
	if rt, _ := recvTypeName(fd); rt != "" {
		fn = rt + "." + fn
	}
	var visitExpr func(n ast.Node, active []string)
	var visitBlock func(stmts []ast.Stmt, active []string)
	record := func(c *ast.CallExpr, active []string) {
		sel, ok := c.Fun.(*ast.SelectorExpr)
		if !ok || !isBankRecv(sel.X) {
			return
		}
		m := sel.Sel.Name
		if !(strings.HasPrefix(m, "SendCoins") || m == "InputOutputCoins") || len(c.Args) < 3 {
			return
		}
		s := sendSite{file: file, fn: fn, method: m, nth: count}
		count++
		if len(c.Args) >= 4 {
			s.from, s.to, s.coins = srcText(c.Args[1]), srcText(c.Args[2]), srcText(c.Args[3])
		} else {
			s.from, s.coins = srcText(c.Args[1]), srcText(c.Args[2])
		}
		for _, a := range active {
			s.guardedAny = true
			if strings.Contains(s.coins, strings.TrimSuffix(a, "...")) {
				s.guardedSame = true
			}
		}
		*out = append(*out, s)
	}
	visitExpr = func(n ast.Node, active []string) {
		ast.Inspect(n, func(x ast.Node) bool {
			switch y := x.(type) {
			case *ast.BlockStmt:
				visitBlock(y.List, active)
				return false
			case *ast.FuncLit:
				visitBlock(y.Body.List, nil) // closures run later: nothing dominates
				return false
			case *ast.CallExpr:
				record(y, active)
			}
			return true
		})
	}
	visitBlock = func(stmts []ast.Stmt, active []string) {
		act := append([]string{}, active...)
		for i, s := range stmts {
			var next ast.Stmt
			if i+1 < len(stmts) {
				next = stmts[i+1]
			}
			visitExpr(s, act)
			if a, ok := sendEnabledCheck(s, next); ok {
				act = append(act, a)
			}
		}
	}
	visitBlock(fd.Body.List, nil)
}


func emitFactsBan(repo, outDir string) int {
	var files []string
	for _, root := range []string{"x", "app"} {
		_ = filepath.Walk(filepath.Join(repo, root), func(p string, info os.FileInfo, err error) error {
			if err != nil || info.IsDir() {
				return nil
			}
			if !strings.HasSuffix(p, ".go") || strings.HasSuffix(p, "_test.go") || strings.HasSuffix(p, ".pb.go") ||
				strings.HasSuffix(p, ".pb.gw.go") || strings.HasSuffix(p, ".pulsar.go") || strings.Contains(p, "/testutil/") ||
				strings.Contains(p, "/simulation/") || strings.Contains(p, "expected_keepers") {
				return nil
			}
			rel, _ := filepath.Rel(repo, p)
			files = append(files, rel)
			return nil
		})
	}
	sort.Strings(files)
	var sites []sendSite
	for _, rel := range files {
		f := parse(repo, rel)
		for _, d := range f.Decls {
			if fd, ok := d.(*ast.FuncDecl); ok && fd.Body != nil {
				collectSends(rel, fd, &sites)
			}
		}
	}
	var b strings.Builder
	fmt.Fprintf(&b, "-- GENERATED by svx (facts_ban.go) from the working tree of /repo. Do not edit.\n")
	fmt.Fprintf(&b, "namespace Sunrise.Gen.FactsBan\n\n")
	fmt.Fprintf(&b, "structure SendSite where\n  file : String\n  fn : String\n  nth : Nat\n  method : String\n  src : String\n  dst : String\n  coins : String\n  guardedAny : Bool\n  guardedSame : Bool\nderiving DecidableEq, Repr\n\n")
	fmt.Fprintf(&b, "def sendSites : List SendSite := [\n")
	for i, s := range sites {
		sep := ","
		if i == len(sites)-1 {
			sep = ""
		}
		fmt.Fprintf(&b, "  ⟨%s, %s, %d, %s, %s, %s, %s, %v, %v⟩%s\n", leanStr(s.file), leanStr(s.fn), s.nth, leanStr(s.method),
			leanStr(s.from), leanStr(s.to), leanStr(s.coins), s.guardedAny, s.guardedSame, sep)
	}
	fmt.Fprintf(&b, "]\n\nend Sunrise.Gen.FactsBan\n")
	writeIfChanged(filepath.Join(outDir, "FactsBan.lean"), b.String())
	fmt.Printf("translated FactsBan sendSites(%d)\n", len(sites))
	return 0
}
