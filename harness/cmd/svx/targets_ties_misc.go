package main

// Ties for the smaller keepers: x/shareclass (end-blocker queue walk, reward-multiplier guards), app/gov/gov.go (turnout
// rescaling), x/fee (burn guards), x/swap (limits and fee guard of the two keeper swaps), x/tokenconverter, app/mint/mint.go
// (clamp and mint guards), each regenerated into its own Gen/KernelsTie<X>.lean and proved equal to the model in Props/Tie<X>.lean.

const (
	scUnbGo     = "x/shareclass/keeper/store_unbonding.go"
	scRewardsGo = "x/shareclass/keeper/keeper_rewards.go"
	govGo       = "app/gov/gov.go"
	convGo      = "x/tokenconverter/keeper/msg_server_convert.go"
)

func init() {
	registerGen(genFile{
		name:    "KernelsTieShare",
		imports: []string{"SunriseVerif.Model.Dec", "SunriseVerif.Model.Time"},
		targets: []target{
			{kind: "cond", file: scUnbGo, recv: "Keeper", name: "IterateCompletedUnbondings", nth: 0, lean: "gc_stop",
				fields: []field{{"time", tInt}, {"now", tTime}}},
			{kind: "cond", file: scUnbGo, recv: "Keeper", name: "IterateCompletedUnbondings", nth: 1, lean: "gc_skip",
				fields: []field{{"value.CompletionTime", tTime}, {"now", tTime}}},
			{kind: "cond", file: scRewardsGo, recv: "Keeper", name: "HandleModuleAccountRewardsByValidator", nth: 2, lean: "reward_noShare",
				fields: []field{{"totalShare", tInt}}},
			{kind: "cond", file: scRewardsGo, recv: "Keeper", name: "ValidateLastRewardHandlingTime", nth: 0, lean: "reward_tooEarly",
				fields: []field{{"sdkCtx.BlockTime()", tTime}, {"lastRewardHandlingTime", tTime}, {"params.RewardPeriod", tInt}}},
		},
	})
	registerGen(genFile{
		name:    "KernelsTieGov",
		imports: []string{"SunriseVerif.Model.Dec"},
		targets: []target{
			{kind: "cond", file: govGo, name: "ProvideCalculateVoteResultsAndVotingPowerFn", nth: 4, lean: "gov_validatorSkipped",
				fields: []field{{"len(val.Vote)", tInt}}},
			{kind: "expr", file: govGo, name: "ProvideCalculateVoteResultsAndVotingPowerFn", lhs: "sharesAfterDeductions", lean: "gov_sharesAfterDeductions",
				fields: []field{{"val.DelegatorShares", tDec}, {"val.DelegatorDeductions", tDec}}},
			{kind: "expr", file: govGo, name: "ProvideCalculateVoteResultsAndVotingPowerFn", lhs: "votingPower", nth: 1, lean: "gov_validatorPower",
				fields: []field{{"sharesAfterDeductions", tDec}, {"val.BondedTokens", tInt}, {"val.DelegatorShares", tDec}}},
			{kind: "expr", file: govGo, name: "ProvideCalculateVoteResultsAndVotingPowerFn", lhs: "shareclassBonded", nth: 1, lean: "gov_shareclassBondedStep",
				fields: []field{{"shareclassBonded", tDec}, {"delegation.GetShares()", tDec}, {"val.BondedTokens", tInt}, {"val.DelegatorShares", tDec}}},
			{kind: "expr", file: govGo, name: "ProvideCalculateVoteResultsAndVotingPowerFn", lhs: "denominator", lean: "gov_denominator",
				fields: []field{{"totalBonded", tInt}, {"shareclassBonded", tDec}}},
			{kind: "cond", file: govGo, name: "ProvideCalculateVoteResultsAndVotingPowerFn", nth: 5, lean: "gov_rescale",
				fields: []field{{"denominator", tDec}}},
			{kind: "expr", file: govGo, name: "ProvideCalculateVoteResultsAndVotingPowerFn", lhs: "numerator", lean: "gov_numerator",
				fields: []field{{"totalVP", tDec}, {"totalBonded", tInt}}},
			{kind: "expr", file: govGo, name: "ProvideCalculateVoteResultsAndVotingPowerFn", lhs: "totalVP", nth: 3, lean: "gov_turnout",
				fields: []field{{"numerator", tDec}, {"denominator", tDec}}},
		},
	})
	registerGen(genFile{
		name:    "KernelsTieFee",
		imports: []string{"SunriseVerif.Model.Dec"},
		targets: []target{
			{kind: "cond", file: burnGo, recv: "Keeper", name: "Burn", nth: 1, lean: "burn_skipZero", fields: []field{{"burnAmount", tInt}}},
		},
	})
	registerGen(genFile{
		name:    "KernelsTieSwap",
		imports: []string{"SunriseVerif.Model.Dec"},
		targets: []target{
			{kind: "cond", file: swapInGo, recv: "Keeper", name: "SwapExactAmountIn", nth: 0, lean: "in_belowMinOut",
				fields: []field{{"amountOutNet", tInt}, {"minAmountOut", tInt}}},
			{kind: "cond", file: swapInGo, recv: "Keeper", name: "SwapExactAmountIn", nth: 2, lean: "in_feePaid", fields: []field{{"fee", tInt}}},
			{kind: "cond", file: swapOutGo, recv: "Keeper", name: "SwapExactAmountOut", nth: 0, lean: "out_aboveMaxIn",
				fields: []field{{"result.TokenIn.Amount", tInt}, {"maxAmountIn", tInt}}},
			{kind: "cond", file: swapOutGo, recv: "Keeper", name: "SwapExactAmountOut", nth: 2, lean: "out_feePaid", fields: []field{{"fee", tInt}}},
		},
	})
	registerGen(genFile{
		name:    "KernelsTieMint",
		imports: []string{"SunriseVerif.Model.Dec", "SunriseVerif.Model.Time"},
		targets: []target{
			{kind: "cond", file: mintGo, name: "ProvideMintFn", nth: 2, lean: "mint_clampNeeded",
				fields: []field{{"blockProvision", tInt}, {"annualProvision", tInt}}},
			{kind: "cond", file: mintGo, name: "ProvideMintFn", nth: 3, lean: "mint_anything", fields: []field{{"blockProvision", tInt}}},
			{kind: "cond", file: mintGo, name: "ProvideMintFn", nth: 5, lean: "mint_feePositive", fields: []field{{"feeProvision", tInt}}},
			{kind: "cond", file: mintGo, name: "ProvideMintFn", nth: 6, lean: "mint_bondPositive", fields: []field{{"bondProvision", tInt}}},
			{kind: "cond", file: inflationGo, name: "yearsSinceGenesis", nth: 0, lean: "years_beforeGenesis",
				fields: []field{{"current", tTime}, {"genesis", tTime}}},
		},
	})
}
