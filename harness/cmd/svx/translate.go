package main

// A deliberately small Go -> Lean translator for straight-line, loop-free functions and
// single expressions over LegacyDec / math.Int / math.Dec / int64 / bool.
// Anything outside the subset yields an error for that target ("unsupported"), which the
// check reports as a failed obligation instead of guessing.

import (
	"fmt"
	"go/ast"
	"go/token"
	"math/big"
	"sort"
	"strconv"
	"strings"
)

type ty string

const (
	tDec  ty = "Dec"
	tInt  ty = "Int"
	tBool ty = "Bool"
	tD34  ty = "D34"
	tTime ty = "Time" // time.Time as integer nanoseconds (lockup schedule kernels)
	tErr  ty = "Err"
	tUnk  ty = "?"
)

type meth struct {
	lean  string // Lean function, applied to receiver then args
	res   ty
	guard string // "" | "arg0nz" (panic if arg0 is zero) | "arg0nzErr" (error if arg0 zero)
	infix string // if set, emit "(recv infix arg0)"
	dec   bool   // wrap infix in decide
	rng   string // range assertion of cosmossdk.io/math on the RESULT: "" none | "dec" assertInValidRange | "i256" 256-bit Int | "i64" | "u64" | "pow" (after every MulMut of PowerMut)
}

// rng: which results the library range-asserts (cosmossdk.io/math v1.5.0, legacy_dec.go): AddMut, SubMut, MulMut, MulTruncateMut,
// MulRoundUpMut, MulIntMut, MulInt64Mut, QuoMut, QuoTruncateMut, QuoRoundupMut and Ceil end in d.assertInValidRange(); QuoInt(64)Mut,
// Neg, Abs, TruncateDec do not; TruncateInt/RoundInt go through NewIntFromBigIntMut (256 bits); Truncate/RoundInt64 test IsInt64.
var decMeths = map[string]meth{
	"Mul": {lean: "Dec.mul", res: tDec, rng: "dec"}, "MulMut": {lean: "Dec.mul", res: tDec, rng: "dec"},
	"MulTruncate": {lean: "Dec.mulTruncate", res: tDec, rng: "dec"}, "MulTruncateMut": {lean: "Dec.mulTruncate", res: tDec, rng: "dec"},
	"MulRoundUp": {lean: "Dec.mulRoundUp", res: tDec, rng: "dec"}, "MulRoundUpMut": {lean: "Dec.mulRoundUp", res: tDec, rng: "dec"},
	"Quo": {lean: "Dec.quo", res: tDec, guard: "arg0nz", rng: "dec"}, "QuoMut": {lean: "Dec.quo", res: tDec, guard: "arg0nz", rng: "dec"},
	"QuoTruncate": {lean: "Dec.quoTruncate", res: tDec, guard: "arg0nz", rng: "dec"}, "QuoTruncateMut": {lean: "Dec.quoTruncate", res: tDec, guard: "arg0nz", rng: "dec"},
	"QuoRoundUp": {lean: "Dec.quoRoundUp", res: tDec, guard: "arg0nz", rng: "dec"}, "QuoRoundupMut": {lean: "Dec.quoRoundUp", res: tDec, guard: "arg0nz", rng: "dec"},
	"Add": {lean: "Dec.add", res: tDec, rng: "dec"}, "AddMut": {lean: "Dec.add", res: tDec, rng: "dec"},
	"Sub": {lean: "Dec.sub", res: tDec, rng: "dec"}, "SubMut": {lean: "Dec.sub", res: tDec, rng: "dec"},
	"Neg": {lean: "Dec.neg", res: tDec}, "NegMut": {lean: "Dec.neg", res: tDec},
	"Abs": {lean: "Dec.abs", res: tDec}, "AbsMut": {lean: "Dec.abs", res: tDec},
	"Ceil": {lean: "Dec.ceil", res: tDec, rng: "dec"}, "TruncateDec": {lean: "Dec.truncateDec", res: tDec},
	"TruncateInt": {lean: "Dec.truncateInt", res: tInt, rng: "i256"}, "TruncateInt64": {lean: "Dec.truncateInt", res: tInt, rng: "i64"},
	"RoundInt": {lean: "Dec.roundInt", res: tInt, rng: "i256"}, "RoundInt64": {lean: "Dec.roundInt", res: tInt, rng: "i64"},
	"MulInt": {lean: "Dec.mulInt", res: tDec, rng: "dec"}, "MulInt64": {lean: "Dec.mulInt", res: tDec, rng: "dec"},
	"QuoInt": {lean: "Dec.quoInt", res: tDec, guard: "arg0nzI"}, "QuoInt64": {lean: "Dec.quoInt", res: tDec, guard: "arg0nzI"},
	"Power": {lean: "Dec.powerI", res: tDec, rng: "pow"},
	"GT":    {lean: "Dec.gt", res: tBool}, "GTE": {lean: "Dec.gte", res: tBool},
	"LT": {lean: "Dec.lt", res: tBool}, "LTE": {lean: "Dec.lte", res: tBool},
	"Equal": {lean: "Dec.equal", res: tBool}, "IsZero": {lean: "Dec.isZero", res: tBool},
	"IsNegative": {lean: "Dec.isNegative", res: tBool}, "IsPositive": {lean: "Dec.isPositive", res: tBool},
	"Clone": {lean: "id", res: tDec},
}

// METHOD calls on an Int-typed value are math.Int methods (machine integers have none): Add/Sub/Mul panic with ErrIntOverflow above
// 256 bits (int.go SafeAdd/SafeSub/SafeMul), Quo/Neg do not assert, Int64()/Uint64() panic out of their machine range.
// Go's binary operators + - * on machine integers wrap silently and carry no assertion.
var intMeths = map[string]meth{
	"Add": {infix: "+", res: tInt, rng: "i256"}, "Sub": {infix: "-", res: tInt, rng: "i256"}, "Mul": {infix: "*", res: tInt, rng: "i256"},
	"Quo": {lean: "Int.tdiv", res: tInt, guard: "arg0nzI"},
	"GT":  {infix: ">", res: tBool, dec: true}, "GTE": {infix: "≥", res: tBool, dec: true},
	"LT": {infix: "<", res: tBool, dec: true}, "LTE": {infix: "≤", res: tBool, dec: true},
	"Equal": {infix: "=", res: tBool, dec: true}, "IsZero": {lean: "Int.isZeroB", res: tBool},
	"IsPositive": {lean: "Int.isPosB", res: tBool}, "IsNegative": {lean: "Int.isNegB", res: tBool},
	"ToLegacyDec": {lean: "Dec.ofInt", res: tDec}, "Neg": {lean: "Int.neg", res: tInt},
	"Int64": {lean: "id", res: tInt, rng: "i64"}, "Uint64": {lean: "id", res: tInt, rng: "u64"},
}

// time.Time as Int nanoseconds since the epoch: Unix() is the floor division by 10^9, comparisons are exact
var timeMeths = map[string]meth{
	"Unix":  {lean: "Time.unix", res: tInt},
	"After": {infix: ">", res: tBool, dec: true}, "Before": {infix: "<", res: tBool, dec: true},
	"Equal": {infix: "=", res: tBool, dec: true},
	// additive (ties): t.Add(d) with d a time.Duration (Int nanoseconds); t.UnixNano()
	"Add": {infix: "+", res: tTime}, "UnixNano": {lean: "id", res: tInt},
}

var d34Meths = map[string]meth{
	"Quo": {lean: "D34.quo", res: tD34, guard: "arg0nzErr"},
	"Mul": {lean: "D34.mul", res: tD34}, "Add": {lean: "D34.add", res: tD34}, "Sub": {lean: "D34.sub", res: tD34},
	"SdkIntTrim": {lean: "D34.sdkIntTrim", res: tInt},
	"IsZero":     {lean: "D34.isZero", res: tBool},
}

// translation environment
type env struct {
	vars    map[string]ty     // Go identifier (or selector path "s.feeRate") -> type
	rename  map[string]string // Go name -> Lean name
	funcs   map[string]*fnSig // known translated functions (by Go name)
	consts  map[string]ty     // known package-level constants (Go name)
	results []ty              // result types of the function being translated (without error)
	hasErr  bool
	named   []string // named results
}

type fnSig struct {
	lean   string
	params []ty
	res    []ty
	hasErr bool
	extra  []string // extra leading lean args supplied from receiver fields (Go selector paths)
}

type unsupported struct{ msg string }

func (u unsupported) Error() string { return "unsupported: " + u.msg }

func bad(f string, a ...any) { panic(unsupported{fmt.Sprintf(f, a...)}) }

func leanIdent(s string) string {
	// additive (ties): keys of opaque inputs such as `ctx.BlockHeight()` / `len(data.ShardDoubleHashes)`
	s = strings.ReplaceAll(s, "()", "")
	s = strings.ReplaceAll(s, "(", "_")
	s = strings.ReplaceAll(s, ")", "")
	s = strings.ReplaceAll(s, ".", "_")
	switch s {
	case "from", "to", "end", "at", "fun", "let", "in", "then", "else", "if", "def", "open", "section", "namespace", "structure", "where", "do", "match", "with", "instance", "class", "theorem", "example":
		return s + "'"
	}
	return s
}

func selPath(e ast.Expr) (string, bool) {
	switch x := e.(type) {
	case *ast.Ident:
		return x.Name, true
	case *ast.SelectorExpr:
		p, ok := selPath(x.X)
		if !ok {
			return "", false
		}
		return p + "." + x.Sel.Name, true
	case *ast.ParenExpr:
		return selPath(x.X)
	case *ast.IndexExpr: // additive (C03): `xs[i]` as an assignment target of kind "expr"
		p, ok := selPath(x.X)
		q, ok2 := selPath(x.Index)
		if !ok || !ok2 {
			return "", false
		}
		return p + "[" + q + "]", true
	}
	return "", false
}

type tre struct {
	lean   string
	t      ty
	tup    []ty     // for tuple-valued calls
	panics []string // conditions (Lean Bool exprs) that must hold to avoid a Go panic
	errs   []string // conditions that must hold to avoid a returned error
	rngs   []string // conditions that must hold to avoid a range-assertion panic of cosmossdk.io/math (evaluation order)
}

func (a *tre) absorb(b tre) {
	a.panics = append(a.panics, b.panics...)
	a.errs = append(a.errs, b.errs...)
	a.rngs = append(a.rngs, b.rngs...)
}

// rngCheck: the range assertion the library performs on the result `lean` of an operation of class `kind`
func rngCheck(kind, lean string) string {
	switch kind {
	case "dec":
		return "(Dec.inRng " + lean + ")"
	case "i256":
		return "(Int256.inRange " + lean + ")"
	case "i64":
		return "(I64.inRange " + lean + ")"
	case "u64":
		return "(U64.inRange " + lean + ")"
	}
	bad("range class %s", kind)
	return ""
}

func decLit(s string) string {
	// parse decimal string to raw 10^18-scaled integer exactly like LegacyNewDecFromStr (≤18 fractional digits)
	neg := false
	if strings.HasPrefix(s, "-") {
		neg = true
		s = s[1:]
	}
	parts := strings.Split(s, ".")
	if len(parts) > 2 {
		bad("dec literal %q", s)
	}
	ip := parts[0]
	fp := ""
	if len(parts) == 2 {
		fp = parts[1]
	}
	if len(fp) > 18 {
		bad("dec literal too precise %q", s)
	}
	fp = fp + strings.Repeat("0", 18-len(fp))
	n, ok := new(big.Int).SetString(ip+fp, 10)
	if !ok {
		bad("dec literal %q", s)
	}
	if neg {
		n.Neg(n)
	}
	if n.Sign() < 0 {
		return "(⟨" + n.String() + "⟩ : Dec)"
	}
	return "(⟨" + n.String() + "⟩ : Dec)"
}

func intLit(s string) string {
	s = strings.ReplaceAll(s, "_", "")
	n, ok := new(big.Int).SetString(s, 0)
	if !ok {
		bad("int literal %q", s)
	}
	if n.Sign() < 0 {
		return "(" + n.String() + " : Int)"
	}
	return "(" + n.String() + " : Int)"
}

func (ev *env) expr(e ast.Expr) tre {
	switch x := e.(type) {
	case *ast.ParenExpr:
		return ev.expr(x.X)
	case *ast.BasicLit:
		switch x.Kind {
		case token.INT:
			return tre{lean: intLit(x.Value), t: tInt}
		}
		bad("literal %s", x.Value)
	case *ast.Ident:
		if x.Name == "true" || x.Name == "false" {
			return tre{lean: x.Name, t: tBool}
		}
		if t, ok := ev.vars[x.Name]; ok {
			return tre{lean: ev.lname(x.Name), t: t}
		}
		if t, ok := ev.consts[x.Name]; ok {
			return tre{lean: x.Name, t: t}
		}
		bad("unknown identifier %s", x.Name)
	case *ast.SelectorExpr:
		if p, ok := selPath(x); ok {
			if t, ok := ev.vars[p]; ok {
				return tre{lean: ev.lname(p), t: t}
			}
			// pkg.Const
			if t, ok := ev.consts[x.Sel.Name]; ok {
				return tre{lean: x.Sel.Name, t: t}
			}
		}
		bad("unknown selector %s", exprStr(x))
	case *ast.UnaryExpr:
		a := ev.expr(x.X)
		switch x.Op {
		case token.NOT:
			if a.t != tBool {
				bad("! on %s", a.t)
			}
			a.lean = "(!" + a.lean + ")"
			return a
		case token.SUB:
			if a.t != tInt {
				bad("unary - on %s", a.t)
			}
			a.lean = "(-" + a.lean + ")"
			return a
		}
		bad("unary %s", x.Op)
	case *ast.BinaryExpr:
		a := ev.expr(x.X)
		b := ev.expr(x.Y)
		r := tre{}
		r.absorb(a)
		r.absorb(b)
		switch x.Op {
		case token.LAND, token.LOR:
			if a.t != tBool || b.t != tBool {
				bad("&&/|| on non-bool")
			}
			op := "&&"
			if x.Op == token.LOR {
				op = "||"
			}
			if len(b.panics)+len(b.errs) > 0 {
				bad("short-circuit with guarded rhs")
			}
			r.lean = "(" + a.lean + " " + op + " " + b.lean + ")"
			r.t = tBool
			return r
		case token.ADD, token.SUB, token.MUL:
			if a.t != tInt || b.t != tInt {
				bad("arith on %s,%s", a.t, b.t)
			}
			r.lean = "(" + a.lean + " " + x.Op.String() + " " + b.lean + ")"
			r.t = tInt
			return r
		case token.QUO:
			if a.t != tInt || b.t != tInt {
				bad("/ on %s,%s", a.t, b.t)
			}
			r.lean = "(Int.tdiv " + a.lean + " " + b.lean + ")"
			r.panics = append(r.panics, "(!Int.isZeroB "+b.lean+")")
			r.t = tInt
			return r
		case token.REM: // additive (ties): Go's % is the truncated remainder; a zero divisor panics
			if a.t != tInt || b.t != tInt {
				bad("%% on %s,%s", a.t, b.t)
			}
			r.lean = "(Int.tmod " + a.lean + " " + b.lean + ")"
			r.panics = append(r.panics, "(!Int.isZeroB "+b.lean+")")
			r.t = tInt
			return r
		case token.EQL, token.NEQ, token.LSS, token.LEQ, token.GTR, token.GEQ:
			if a.t != b.t || (a.t != tInt && a.t != tBool) {
				bad("comparison on %s,%s", a.t, b.t)
			}
			op := map[token.Token]string{token.EQL: "=", token.NEQ: "≠", token.LSS: "<", token.LEQ: "≤", token.GTR: ">", token.GEQ: "≥"}[x.Op]
			if a.t == tBool {
				if x.Op == token.EQL {
					r.lean = "(" + a.lean + " == " + b.lean + ")"
				} else if x.Op == token.NEQ {
					r.lean = "(" + a.lean + " != " + b.lean + ")"
				} else {
					bad("order on bool")
				}
			} else {
				r.lean = "(decide (" + a.lean + " " + op + " " + b.lean + "))"
			}
			r.t = tBool
			return r
		}
		bad("binary %s", x.Op)
	case *ast.CallExpr:
		return ev.call(x)
	}
	bad("expr %T %s", e, exprStr(e))
	return tre{}
}

func (ev *env) lname(goName string) string {
	if r, ok := ev.rename[goName]; ok {
		return r
	}
	return leanIdent(goName)
}

func (ev *env) args(xs []ast.Expr) ([]tre, tre) {
	acc := tre{}
	var out []tre
	for _, a := range xs {
		t := ev.expr(a)
		acc.absorb(t)
		out = append(out, t)
	}
	return out, acc
}

func (ev *env) call(c *ast.CallExpr) tre {
	// additive (ties): a call whose printed form is DECLARED as an input of the target (`ctx.BlockHeight()`,
	// `ctx.BlockTime()`, `len(xs)`, `delegation.GetShares()`): an opaque value of the declared type, nothing is assumed
	// about it.  Undeclared calls stay unsupported.
	if t, ok := ev.vars[exprStr(c)]; ok && strings.HasSuffix(exprStr(c), ")") {
		return tre{lean: ev.lname(exprStr(c)), t: t}
	}
	// conversions and builtins
	if id, ok := c.Fun.(*ast.Ident); ok {
		switch id.Name {
		case "int64", "uint64", "int", "uint32", "int32":
			if len(c.Args) != 1 {
				bad("conversion arity")
			}
			a := ev.expr(c.Args[0])
			if a.t != tInt {
				bad("conversion of %s", a.t)
			}
			return a
		case "min", "max":
			as, acc := ev.args(c.Args)
			if len(as) != 2 || as[0].t != tInt || as[1].t != tInt {
				bad("min/max args")
			}
			acc.lean = "(" + id.Name + " " + as[0].lean + " " + as[1].lean + ")"
			acc.t = tInt
			return acc
		case "panic":
			bad("panic in expression position")
		}
		if sig, ok := ev.funcs[id.Name]; ok {
			return ev.known(sig, c.Args)
		}
		bad("call to unknown function %s", id.Name)
	}
	sel, ok := c.Fun.(*ast.SelectorExpr)
	if !ok {
		bad("call form %s", exprStr(c.Fun))
	}
	// package-qualified function?
	if pk, ok := sel.X.(*ast.Ident); ok {
		if _, isVar := ev.vars[pk.Name]; !isVar {
			if _, isC := ev.consts[pk.Name]; !isC {
				return ev.pkgCall(pk.Name, sel.Sel.Name, c)
			}
		}
	}
	// method call
	recv := ev.expr(sel.X)
	var tbl map[string]meth
	switch recv.t {
	case tDec:
		tbl = decMeths
	case tInt:
		tbl = intMeths
	case tD34:
		tbl = d34Meths
	case tTime:
		tbl = timeMeths
	default:
		bad("method %s on %s", sel.Sel.Name, recv.t)
	}
	m, ok := tbl[sel.Sel.Name]
	if !ok {
		// String() on Int inside NewDecFromString handled in pkgCall
		bad("unknown method %s.%s", recv.t, sel.Sel.Name)
	}
	as, acc := ev.args(c.Args)
	r := tre{t: m.res}
	r.absorb(recv)
	r.absorb(acc)
	switch m.guard {
	case "arg0nz":
		r.panics = append(r.panics, "(!Dec.isZero "+as[0].lean+")")
	case "arg0nzI":
		r.panics = append(r.panics, "(!Int.isZeroB "+as[0].lean+")")
	case "arg0nzErr":
		r.errs = append(r.errs, "(!D34.isZero "+as[0].lean+")")
	}
	if m.infix != "" {
		if len(as) != 1 {
			bad("infix arity")
		}
		s := "(" + recv.lean + " " + m.infix + " " + as[0].lean + ")"
		if m.dec {
			s = "(decide " + s + ")"
		}
		r.lean = s
		if m.rng != "" {
			r.rngs = append(r.rngs, rngCheck(m.rng, r.lean))
		}
		return r
	}
	if m.lean == "id" {
		r.lean = recv.lean
		if m.rng != "" {
			r.rngs = append(r.rngs, rngCheck(m.rng, r.lean))
		}
		return r
	}
	parts := []string{m.lean, recv.lean}
	for _, a := range as {
		parts = append(parts, a.lean)
	}
	r.lean = "(" + strings.Join(parts, " ") + ")"
	if m.rng == "pow" {
		// PowerMut asserts after every MulMut of its square-and-multiply loop
		r.rngs = append(r.rngs, "(Dec.powerRng "+recv.lean+" "+as[0].lean+")")
	} else if m.rng != "" {
		r.rngs = append(r.rngs, rngCheck(m.rng, r.lean))
	}
	return r
}

func (ev *env) known(sig *fnSig, args []ast.Expr) tre {
	as, acc := ev.args(args)
	if len(as) != len(sig.params) {
		bad("arity of %s", sig.lean)
	}
	parts := []string{}
	for _, p := range sig.extra {
		t, ok := ev.vars[p]
		if !ok {
			bad("callee %s needs receiver field %s", sig.lean, p)
		}
		_ = t
		parts = append(parts, ev.lname(p))
	}
	for i, a := range as {
		if a.t != sig.params[i] {
			bad("arg %d of %s: %s vs %s", i, sig.lean, a.t, sig.params[i])
		}
		parts = append(parts, a.lean)
	}
	argstr := strings.Join(parts, " ")
	acc.lean = "(" + sig.lean + " " + argstr + ")"
	acc.panics = append(acc.panics, "("+sig.lean+"_ok "+argstr+")")
	acc.rngs = append(acc.rngs, "("+sig.lean+"_rng "+argstr+")")
	if sig.hasErr {
		acc.errs = append(acc.errs, "(!"+sig.lean+"_err "+argstr+")")
	}
	if len(sig.res) == 1 {
		acc.t = sig.res[0]
	} else {
		acc.t = "tuple"
		acc.tup = sig.res
	}
	return acc
}

func (ev *env) pkgCall(pkg, name string, c *ast.CallExpr) tre {
	key := pkg + "." + name
	switch key {
	case "math.LegacyOneDec":
		return tre{lean: "Dec.one", t: tDec}
	case "math.LegacyZeroDec":
		return tre{lean: "Dec.zero", t: tDec}
	case "math.LegacySmallestDec":
		return tre{lean: "Dec.smallest", t: tDec}
	case "math.ZeroInt":
		return tre{lean: "(0 : Int)", t: tInt}
	case "math.OneInt":
		return tre{lean: "(1 : Int)", t: tInt}
	case "math.NewInt", "math.NewIntFromUint64":
		a := ev.expr(c.Args[0])
		if a.t != tInt {
			bad("NewInt arg")
		}
		return a
	case "math.LegacyNewDec":
		a := ev.expr(c.Args[0])
		a.lean = "(Dec.ofInt " + a.lean + ")"
		a.t = tDec
		return a
	case "math.LegacyNewDecFromInt":
		a := ev.expr(c.Args[0])
		if a.t != tInt {
			bad("LegacyNewDecFromInt arg")
		}
		a.lean = "(Dec.ofInt " + a.lean + ")"
		a.t = tDec
		return a
	case "math.LegacyNewDecWithPrec":
		i, ok1 := c.Args[0].(*ast.BasicLit)
		p, ok2 := c.Args[1].(*ast.BasicLit)
		if !ok1 || !ok2 {
			bad("LegacyNewDecWithPrec non-literal")
		}
		iv, _ := strconv.ParseInt(strings.ReplaceAll(i.Value, "_", ""), 0, 64)
		pv, _ := strconv.ParseInt(p.Value, 0, 64)
		if pv > 18 || pv < 0 {
			bad("prec")
		}
		n := new(big.Int).Mul(big.NewInt(iv), new(big.Int).Exp(big.NewInt(10), big.NewInt(18-pv), nil))
		return tre{lean: "(⟨" + n.String() + "⟩ : Dec)", t: tDec}
	case "math.LegacyMustNewDecFromStr":
		l, ok := c.Args[0].(*ast.BasicLit)
		if !ok || l.Kind != token.STRING {
			bad("LegacyMustNewDecFromStr non-literal")
		}
		s, _ := strconv.Unquote(l.Value)
		return tre{lean: decLit(s), t: tDec}
	case "math.LegacyMinDec", "math.LegacyMaxDec":
		as, acc := ev.args(c.Args)
		fn := "Dec.minDec"
		if name == "LegacyMaxDec" {
			fn = "Dec.maxDec"
		}
		acc.lean = "(" + fn + " " + as[0].lean + " " + as[1].lean + ")"
		acc.t = tDec
		return acc
	case "math.MinInt", "math.MaxInt":
		as, acc := ev.args(c.Args)
		fn := "min"
		if name == "MaxInt" {
			fn = "max"
		}
		acc.lean = "(" + fn + " " + as[0].lean + " " + as[1].lean + ")"
		acc.t = tInt
		return acc
	case "math.NewDecFromString":
		// only the idiom NewDecFromString(x.String()) with x : Int
		if call, ok := c.Args[0].(*ast.CallExpr); ok {
			if s, ok := call.Fun.(*ast.SelectorExpr); ok && s.Sel.Name == "String" {
				a := ev.expr(s.X)
				if a.t == tInt {
					a.lean = "(D34.ofInt " + a.lean + ")"
					a.t = tD34
					return a
				}
			}
		}
		bad("NewDecFromString form")
	}
	if sig, ok := ev.funcs[name]; ok {
		return ev.known(sig, c.Args)
	}
	bad("unknown package function %s", key)
	return tre{}
}

// ---------------------------------------------------------------------------------------------
// statements

// outcome of translating a statement list: three Lean terms — value, ok (no panic), err (error returned)
type out struct{ val, ok, err, rng string }

func conj(gs []string, rest string) string {
	if len(gs) == 0 {
		return rest
	}
	s := strings.Join(gs, " && ")
	if rest == "true" {
		return "(" + s + ")"
	}
	return "(" + s + " && " + rest + ")"
}

// err term: true iff an error is returned. guards `errs` must all hold, else error.
func errdisj(gs []string, rest string) string {
	if len(gs) == 0 {
		return rest
	}
	s := "!(" + strings.Join(gs, " && ") + ")"
	if rest == "false" {
		return "(" + s + ")"
	}
	return "(" + s + " || " + rest + ")"
}

func (ev *env) zeroVal() string {
	if len(ev.results) == 0 {
		return "()"
	}
	zs := []string{}
	for _, t := range ev.results {
		switch t {
		case tDec:
			zs = append(zs, "Dec.zero")
		case tInt:
			zs = append(zs, "(0 : Int)")
		case tBool:
			zs = append(zs, "false")
		case tD34:
			zs = append(zs, "D34.zero")
		default:
			bad("zero of %s", t)
		}
	}
	if len(zs) == 1 {
		return zs[0]
	}
	return "(" + strings.Join(zs, ", ") + ")"
}

func isNil(e ast.Expr) bool {
	id, ok := e.(*ast.Ident)
	return ok && id.Name == "nil"
}

func (ev *env) copyVars() map[string]ty {
	m := map[string]ty{}
	for k, v := range ev.vars {
		m[k] = v
	}
	return m
}

func usesIdent(stmts []ast.Stmt, name string) bool {
	found := false
	for _, s := range stmts {
		ast.Inspect(s, func(n ast.Node) bool {
			if id, ok := n.(*ast.Ident); ok && id.Name == name {
				found = true
			}
			return !found
		})
	}
	return found
}

func isMut(name string) bool { return strings.HasSuffix(name, "Mut") }

// mutRecv: if e is a chain recv.M1Mut(..).M2(..) whose innermost receiver is a plain identifier and whose
// first method is a *Mut method, return that identifier (the Go code mutates it in place).
func mutRoot(e ast.Expr) (string, bool) {
	c, ok := e.(*ast.CallExpr)
	if !ok {
		return "", false
	}
	sel, ok := c.Fun.(*ast.SelectorExpr)
	if !ok {
		return "", false
	}
	if id, ok := sel.X.(*ast.Ident); ok {
		if isMut(sel.Sel.Name) {
			return id.Name, true
		}
		return "", false
	}
	return mutRoot(sel.X)
}

func (ev *env) block(stmts []ast.Stmt) out {
	if len(stmts) == 0 {
		// falling off the end: only legal for named results
		if len(ev.named) > 0 {
			parts := []string{}
			for _, n := range ev.named {
				parts = append(parts, ev.lname(n))
			}
			v := parts[0]
			if len(parts) > 1 {
				v = "(" + strings.Join(parts, ", ") + ")"
			}
			return out{v, "true", "false", "true"}
		}
		if len(ev.results) == 0 {
			return out{"()", "true", "false", "true"}
		}
		bad("missing return")
	}
	s := stmts[0]
	rest := stmts[1:]
	switch x := s.(type) {
	case *ast.ReturnStmt:
		return ev.ret(x)
	case *ast.DeclStmt:
		gd, ok := x.Decl.(*ast.GenDecl)
		if !ok || gd.Tok != token.VAR {
			if ok && gd.Tok == token.CONST {
				// local const: bind as let
				o := out{}
				binds := []string{}
				saved := ev.copyVars()
				for _, sp := range gd.Specs {
					vs := sp.(*ast.ValueSpec)
					for i, n := range vs.Names {
						v := ev.expr(vs.Values[i])
						binds = append(binds, fmt.Sprintf("let %s := %s\n", leanIdent(n.Name), v.lean))
						ev.vars[n.Name] = v.t
					}
				}
				o = ev.block(rest)
				ev.vars = saved
				pre := strings.Join(binds, "")
				return out{pre + o.val, pre + o.ok, pre + o.err, pre + o.rng}
			}
			bad("decl")
		}
		saved := ev.copyVars()
		binds := []string{}
		var guards tre
		for _, sp := range gd.Specs {
			vs := sp.(*ast.ValueSpec)
			if len(vs.Values) == 0 {
				t := ev.goType(vs.Type)
				for _, n := range vs.Names {
					ev.vars[n.Name] = t
					z := map[ty]string{tDec: "Dec.zero", tInt: "(0 : Int)", tBool: "false", tD34: "D34.zero"}[t]
					binds = append(binds, fmt.Sprintf("let %s := %s\n", leanIdent(n.Name), z))
				}
				continue
			}
			for i, n := range vs.Names {
				v := ev.expr(vs.Values[i])
				guards.absorb(v)
				binds = append(binds, fmt.Sprintf("let %s := %s\n", leanIdent(n.Name), v.lean))
				ev.vars[n.Name] = v.t
			}
		}
		o := ev.block(rest)
		ev.vars = saved
		pre := strings.Join(binds, "")
		return out{pre + o.val, conj(guards.panics, pre+o.ok), errdisj(guards.errs, pre+o.err), conj(guards.rngs, pre+o.rng)}
	case *ast.AssignStmt:
		return ev.assign(x, rest)
	case *ast.ExprStmt:
		// mutating method call on an identifier, or panic(...)
		if c, ok := x.X.(*ast.CallExpr); ok {
			if id, ok := c.Fun.(*ast.Ident); ok && id.Name == "panic" {
				return out{ev.zeroVal(), "false", "false", "true"} // an explicit panic is not a range assertion
			}
			if root, ok := mutRoot(c); ok {
				v := ev.expr(c)
				if v.t != ev.vars[root] {
					bad("mut chain changes type")
				}
				return ev.bind([]string{root}, v, rest, false)
			}
		}
		bad("expression statement %s", exprStr(x.X))
	case *ast.IfStmt:
		return ev.ifStmt(x, rest)
	case *ast.BlockStmt:
		return ev.block(append(append([]ast.Stmt{}, x.List...), rest...))
	}
	bad("statement %T", s)
	return out{}
}

func (ev *env) ret(r *ast.ReturnStmt) out {
	res := r.Results
	if len(res) == 0 {
		if len(ev.named) == 0 && len(ev.results) > 0 {
			bad("bare return")
		}
		return ev.block(nil)
	}
	errRet := "false"
	if ev.hasErr && len(res) == 1 && len(ev.results) >= 1 {
		// `return f(...)` where f returns (T..., error): value and error are both delegated to the call
		// (e.g. `return shareDec.SdkIntTrim()`); a single result expression cannot be anything else in Go.
		v := ev.expr(res[0])
		if v.t != "tuple" && (len(ev.results) != 1 || v.t != ev.results[0]) {
			bad("return type %s vs %v", v.t, ev.results)
		}
		return out{v.lean, conj(v.panics, "true"), errdisj(v.errs, "false"), conj(v.rngs, "true")}
	}
	if ev.hasErr {
		last := res[len(res)-1]
		res = res[:len(res)-1]
		if !isNil(last) {
			// returning a non-nil error expression (ErrX, err, fmt.Errorf..)
			if id, ok := last.(*ast.Ident); ok && id.Name == "err" {
				// `return ..., err` directly after a call is handled in assign (err known non-nil there); here err
				// may be nil or not: only legal when it was checked; treat as propagated state
				bad("return of unchecked err")
			}
			return out{ev.zeroVal(), "true", "true", "true"}
		}
	}
	// single call returning a tuple (possibly with error)
	if len(res) == 1 && len(ev.results) >= 1 {
		v := ev.expr(res[0])
		if v.t == "tuple" {
			if len(v.tup) != len(ev.results) {
				bad("tuple arity in return")
			}
		} else if len(ev.results) != 1 || v.t != ev.results[0] {
			bad("return type %s vs %v", v.t, ev.results)
		}
		return out{v.lean, conj(v.panics, "true"), errdisj(v.errs, errRet), conj(v.rngs, "true")}
	}
	if len(res) != len(ev.results) {
		// `return f(...)` where f returns (T, error)
		if len(r.Results) == 1 && ev.hasErr {
			v := ev.expr(r.Results[0])
			return out{v.lean, conj(v.panics, "true"), errdisj(v.errs, "false"), conj(v.rngs, "true")}
		}
		bad("return arity")
	}
	parts := []string{}
	acc := tre{}
	for i, e := range res {
		v := ev.expr(e)
		if v.t != ev.results[i] {
			bad("return %d type %s vs %s", i, v.t, ev.results[i])
		}
		acc.absorb(v)
		parts = append(parts, v.lean)
	}
	v := "()"
	if len(parts) == 1 {
		v = parts[0]
	} else if len(parts) > 1 {
		v = "(" + strings.Join(parts, ", ") + ")"
	}
	return out{v, conj(acc.panics, "true"), errdisj(acc.errs, errRet), conj(acc.rngs, "true")}
}

// bind names := v ; rest
func (ev *env) bind(names []string, v tre, rest []ast.Stmt, define bool) out {
	saved := ev.copyVars()
	var pat string
	if len(names) == 1 {
		if v.t == "tuple" {
			bad("tuple to single name")
		}
		if names[0] != "_" {
			ev.vars[names[0]] = v.t
		}
		pat = leanIdent(names[0])
	} else {
		if v.t != "tuple" || len(v.tup) != len(names) {
			bad("tuple bind arity")
		}
		ps := []string{}
		for i, n := range names {
			if n != "_" {
				ev.vars[n] = v.tup[i]
			}
			ps = append(ps, leanIdent(n))
		}
		pat = "(" + strings.Join(ps, ", ") + ")"
	}
	o := ev.block(rest)
	ev.vars = saved
	pre := fmt.Sprintf("let %s := %s\n", pat, v.lean)
	return out{pre + o.val, conj(v.panics, pre+o.ok), errdisj(v.errs, pre+o.err), conj(v.rngs, pre+o.rng)}
}

func (ev *env) assign(a *ast.AssignStmt, rest []ast.Stmt) out {
	if a.Tok != token.ASSIGN && a.Tok != token.DEFINE {
		// x += y etc on ints
		if len(a.Lhs) == 1 && len(a.Rhs) == 1 {
			n, ok := a.Lhs[0].(*ast.Ident)
			if ok && ev.vars[n.Name] == tInt {
				r := ev.expr(a.Rhs[0])
				op := map[token.Token]string{token.ADD_ASSIGN: "+", token.SUB_ASSIGN: "-", token.MUL_ASSIGN: "*"}[a.Tok]
				if op != "" && r.t == tInt {
					r.lean = "(" + leanIdent(n.Name) + " " + op + " " + r.lean + ")"
					return ev.bind([]string{n.Name}, r, rest, false)
				}
			}
		}
		bad("assign op %s", a.Tok)
	}
	names := []string{}
	for _, l := range a.Lhs {
		p, ok := selPath(l)
		if !ok {
			bad("assign lhs %s", exprStr(l))
		}
		names = append(names, p)
	}
	// x, err := f(...) followed by `if err != nil { return ..., err }`
	if len(names) >= 2 && names[len(names)-1] == "err" && len(a.Rhs) == 1 {
		v := ev.expr(a.Rhs[0])
		if len(rest) == 0 {
			bad("err assignment without check")
		}
		ifs, ok := rest[0].(*ast.IfStmt)
		if !ok || !isErrNotNil(ifs.Cond) || ifs.Else != nil || !returnsErr(ifs.Body) {
			bad("err assignment not followed by the standard check")
		}
		return ev.bind(names[:len(names)-1], v, rest[1:], true)
	}
	// tuple swap / parallel assignment
	if len(a.Lhs) == len(a.Rhs) && len(a.Lhs) > 1 {
		// evaluate all rhs first into temps
		vals := []tre{}
		for _, r := range a.Rhs {
			vals = append(vals, ev.expr(r))
		}
		saved := ev.copyVars()
		pre := ""
		acc := tre{}
		for i, v := range vals {
			acc.absorb(v)
			pre += fmt.Sprintf("let tmp%d := %s\n", i, v.lean)
		}
		for i, n := range names {
			pre += fmt.Sprintf("let %s := tmp%d\n", leanIdent(n), i)
			ev.vars[n] = vals[i].t
		}
		o := ev.block(rest)
		ev.vars = saved
		return out{pre + o.val, conj(acc.panics, pre+o.ok), errdisj(acc.errs, pre+o.err), conj(acc.rngs, pre+o.rng)}
	}
	if len(a.Rhs) != 1 {
		bad("assign shape")
	}
	rhs := a.Rhs[0]
	// alias check: x := y (plain identifier copy of a Dec shares the big.Int)
	if id, ok := rhs.(*ast.Ident); ok && len(names) == 1 {
		if ev.vars[id.Name] == tDec {
			// y must not be used after x is mutated; conservative: y must not be used again at all
			// unless x is never the root of a Mut call.
			x := names[0]
			mutated := false
			for _, s := range rest {
				ast.Inspect(s, func(n ast.Node) bool {
					if c, ok := n.(*ast.CallExpr); ok {
						if r, ok := mutRoot(c); ok && (r == x || r == id.Name) {
							mutated = true
						}
					}
					return true
				})
			}
			if mutated && usesIdentAfterMut(rest, x, id.Name) {
				bad("alias %s := %s is mutated while the other name is still used", x, id.Name)
			}
		}
	}
	// a Mut chain on the rhs whose root is a live identifier other than the lhs mutates that identifier too
	if root, ok := mutRoot(rhs); ok {
		if !(len(names) == 1 && names[0] == root) && usesIdent(rest, root) {
			bad("rhs mutates %s in place while it is still used", root)
		}
	}
	v := ev.expr(rhs)
	return ev.bind(names, v, rest, a.Tok == token.DEFINE)
}

func usesIdentAfterMut(rest []ast.Stmt, a, b string) bool {
	// conservative: after aliasing, both names used anywhere later
	return usesIdent(rest, a) && usesIdent(rest, b)
}

func isErrNotNil(e ast.Expr) bool {
	b, ok := e.(*ast.BinaryExpr)
	if !ok || b.Op != token.NEQ {
		return false
	}
	id, ok := b.X.(*ast.Ident)
	return ok && id.Name == "err" && isNil(b.Y)
}

func returnsErr(b *ast.BlockStmt) bool {
	if len(b.List) != 1 {
		return false
	}
	r, ok := b.List[0].(*ast.ReturnStmt)
	if !ok || len(r.Results) == 0 {
		return false
	}
	_ = r
	return true
}

func endsInReturn(stmts []ast.Stmt) bool {
	if len(stmts) == 0 {
		return false
	}
	switch x := stmts[len(stmts)-1].(type) {
	case *ast.ReturnStmt:
		return true
	case *ast.ExprStmt:
		if c, ok := x.X.(*ast.CallExpr); ok {
			if id, ok := c.Fun.(*ast.Ident); ok && id.Name == "panic" {
				return true
			}
		}
	case *ast.IfStmt:
		if x.Else == nil {
			return false
		}
		var el []ast.Stmt
		switch e := x.Else.(type) {
		case *ast.BlockStmt:
			el = e.List
		case *ast.IfStmt:
			el = []ast.Stmt{e}
		}
		return endsInReturn(x.Body.List) && endsInReturn(el)
	}
	return false
}

func (ev *env) ifStmt(x *ast.IfStmt, rest []ast.Stmt) out {
	if x.Init != nil {
		bad("if with init")
	}
	c := ev.expr(x.Cond)
	if c.t != tBool {
		bad("if condition type %s", c.t)
	}
	thenS := append([]ast.Stmt{}, x.Body.List...)
	if !endsInReturn(thenS) {
		thenS = append(thenS, rest...)
	}
	var elseS []ast.Stmt
	switch e := x.Else.(type) {
	case nil:
		elseS = rest
	case *ast.BlockStmt:
		elseS = append([]ast.Stmt{}, e.List...)
		if !endsInReturn(elseS) {
			elseS = append(elseS, rest...)
		}
	case *ast.IfStmt:
		elseS = []ast.Stmt{e}
		if !endsInReturn(elseS) {
			elseS = append(elseS, rest...)
		}
	}
	saved := ev.copyVars()
	t := ev.block(thenS)
	ev.vars = saved
	saved = ev.copyVars()
	e := ev.block(elseS)
	ev.vars = saved
	mk := func(a, b string) string {
		return fmt.Sprintf("if %s then\n%s\nelse\n%s", c.lean, indent(a), indent(b))
	}
	return out{mk(t.val, e.val), conj(c.panics, mk(t.ok, e.ok)), errdisj(c.errs, mk(t.err, e.err)), conj(c.rngs, mk(t.rng, e.rng))}
}

func indent(s string) string {
	lines := strings.Split(s, "\n")
	for i := range lines {
		lines[i] = "  " + lines[i]
	}
	return strings.Join(lines, "\n")
}

func (ev *env) goType(e ast.Expr) ty {
	s := exprStr(e)
	switch s {
	case "math.LegacyDec", "sdkmath.LegacyDec", "LegacyDec":
		return tDec
	case "math.Int", "sdkmath.Int", "int64", "uint64", "int", "uint32", "int32":
		return tInt
	case "bool":
		return tBool
	case "math.Dec":
		return tD34
	case "time.Time":
		return tTime
	case "error":
		return tErr
	}
	bad("type %s", s)
	return tUnk
}

func exprStr(e ast.Expr) string {
	switch x := e.(type) {
	case *ast.Ident:
		return x.Name
	case *ast.SelectorExpr:
		return exprStr(x.X) + "." + x.Sel.Name
	case *ast.CallExpr:
		as := []string{}
		for _, a := range x.Args {
			as = append(as, exprStr(a))
		}
		return exprStr(x.Fun) + "(" + strings.Join(as, ",") + ")"
	case *ast.BasicLit:
		return x.Value
	case *ast.StarExpr:
		return "*" + exprStr(x.X)
	case *ast.ParenExpr:
		return "(" + exprStr(x.X) + ")"
	case *ast.BinaryExpr:
		return exprStr(x.X) + x.Op.String() + exprStr(x.Y)
	case *ast.UnaryExpr:
		return x.Op.String() + exprStr(x.X)
	case *ast.ArrayType:
		return "[]" + exprStr(x.Elt)
	case *ast.IndexExpr:
		return exprStr(x.X) + "[" + exprStr(x.Index) + "]"
	}
	return fmt.Sprintf("<%T>", e)
}

func leanType(t ty) string {
	switch t {
	case tDec:
		return "Dec"
	case tInt:
		return "Int"
	case tBool:
		return "Bool"
	case tD34:
		return "D34"
	case tTime:
		return "Int"
	}
	bad("lean type of %s", t)
	return ""
}

func tupleType(ts []ty) string {
	if len(ts) == 0 {
		return "Unit"
	}
	ps := []string{}
	for _, t := range ts {
		ps = append(ps, leanType(t))
	}
	return strings.Join(ps, " × ")
}

func sortedKeys(m map[string]ty) []string {
	ks := []string{}
	for k := range m {
		ks = append(ks, k)
	}
	sort.Strings(ks)
	return ks
}
