package main

// emitFacts: structural facts and kernels that need more than the shared target kinds. Each emitter is
// independent and returns the number of targets that left the supported subset.
func emitFacts(repo, outDir string) int {
	n := 0
	n += emitGovFeeExtra(repo, outDir) // targets_govfee.go (C13 mint, C18 fees)
	n += emitFactsBan(repo, outDir)    // facts_ban.go (C13 transfer ban)
	return n
}
