package main

func emitFacts(repo, outDir string) int { return 0 }
