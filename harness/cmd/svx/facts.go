package main

func emitFacts(repo, outDir string) int {
	failed := 0
	failed += emitEntrypointFacts(repo, outDir) // C15 (facts_entrypoints.go)
	return failed
}
