package main

// Structural facts extracted from the working tree of the repository (go/parser + go/ast only; nothing is built,
// nothing is type-checked by the Go tool chain).  Everything here is written to Gen/Facts.lean on every run.
//
// Other fact families register their own emitter in their own file:
//
//	func init() { factEmitters = append(factEmitters, emitMyFacts) }
//
// An emitter returns the number of things it could not extract (non-zero makes svx exit 3).

import (
	"bytes"
	"crypto/sha256"
	"encoding/hex"
	"fmt"
	"go/ast"
	"go/parser"
	"go/printer"
	"go/token"
	gotypes "go/types"
	"os"
	"path/filepath"
	"sort"
	"strconv"
	"strings"
)

var factEmitters []func(repo, outDir string) int

func init() { factEmitters = append(factEmitters, emitCoreFacts) }

func emitFacts(repo, outDir string) int {
	n := 0
	for _, f := range factEmitters {
		n += f(repo, outDir)
	}
	return n
}

const repoModule = "github.com/sunriselayer/sunrise"

var customModules = []string{"da", "fee", "liquidityincentive", "liquiditypool", "selfdelegation", "shareclass", "swap", "tokenconverter"}

// ---------------------------------------------------------------------------------------------- package loading

type pkgInfo struct {
	dir    string // relative to the repository root
	files  map[string]*ast.File
	names  []string                 // sorted file names
	types  map[string]*ast.TypeSpec // named types (all files, including *.pb.go: needed for field types)
	tfile  map[string]*ast.File
	funcs  map[string]*ast.FuncDecl // "Name" or "Recv.Name"
	ffile  map[*ast.FuncDecl]*ast.File
	vars   map[string]*tyRef // package-level vars and consts with a known type
	consts map[string]string // string constants
}

type factsLoader struct {
	repo string
	fset *token.FileSet
	pkgs map[string]*pkgInfo
	usedForeign map[string]bool
}

func isGenerated(name string) bool {
	return strings.HasSuffix(name, ".pb.go") || strings.HasSuffix(name, ".pb.gw.go") || strings.HasSuffix(name, ".pulsar.go")
}

// load parses every non-test file of a directory (generated files too: they carry the struct field types).
func (l *factsLoader) load(dir string) *pkgInfo {
	if p, ok := l.pkgs[dir]; ok {
		return p
	}
	p := &pkgInfo{dir: dir, files: map[string]*ast.File{}, types: map[string]*ast.TypeSpec{}, tfile: map[string]*ast.File{},
		funcs: map[string]*ast.FuncDecl{}, ffile: map[*ast.FuncDecl]*ast.File{}, vars: map[string]*tyRef{}, consts: map[string]string{}}
	l.pkgs[dir] = p
	ents, err := os.ReadDir(filepath.Join(l.repo, dir))
	if err != nil {
		return p
	}
	for _, e := range ents {
		n := e.Name()
		if e.IsDir() || !strings.HasSuffix(n, ".go") || strings.HasSuffix(n, "_test.go") || strings.HasSuffix(n, ".pb.gw.go") || strings.HasSuffix(n, ".pulsar.go") {
			continue
		}
		f, err := parser.ParseFile(l.fset, filepath.Join(l.repo, dir, n), nil, parser.SkipObjectResolution)
		if err != nil {
			fmt.Fprintf(os.Stderr, "svx facts: parse %s/%s: %v\n", dir, n, err)
			continue
		}
		p.files[n] = f
		p.names = append(p.names, n)
	}
	sort.Strings(p.names)
	for _, n := range p.names {
		f := p.files[n]
		for _, d := range f.Decls {
			switch d := d.(type) {
			case *ast.FuncDecl:
				key := d.Name.Name
				if r, _ := recvTypeName(d); r != "" {
					key = r + "." + key
				}
				p.funcs[key] = d
				p.ffile[d] = f
			case *ast.GenDecl:
				for _, sp := range d.Specs {
					switch sp := sp.(type) {
					case *ast.TypeSpec:
						p.types[sp.Name.Name] = sp
						p.tfile[sp.Name.Name] = f
					case *ast.ValueSpec:
						for i, nm := range sp.Names {
							if i < len(sp.Values) {
								if bl, ok := sp.Values[i].(*ast.BasicLit); ok && bl.Kind == token.STRING {
									if s, err := strconv.Unquote(bl.Value); err == nil {
										p.consts[nm.Name] = s
									}
								}
							}
							if sp.Type != nil {
								p.vars[nm.Name] = &tyRef{e: sp.Type, p: p, f: f}
							} else if i < len(sp.Values) {
								p.vars[nm.Name] = &tyRef{lazy: sp.Values[i], p: p, f: f}
							}
						}
					}
				}
			}
		}
	}
	return p
}

// importDir maps an identifier used as a package qualifier in file f to a repository directory ("" = foreign).
func (l *factsLoader) importPath(f *ast.File, alias string) string {
	for _, im := range f.Imports {
		path, _ := strconv.Unquote(im.Path.Value)
		name := path[strings.LastIndex(path, "/")+1:]
		if strings.HasPrefix(name, "v") && len(name) <= 3 && strings.Count(path, "/") > 0 { // .../rand/v2
			if _, err := strconv.Atoi(name[1:]); err == nil {
				pp := path[:strings.LastIndex(path, "/")]
				name = pp[strings.LastIndex(pp, "/")+1:]
			}
		}
		if im.Name != nil {
			name = im.Name.Name
		}
		if name == alias {
			return path
		}
	}
	return ""
}

func (l *factsLoader) importDir(f *ast.File, alias string) string {
	path := l.importPath(f, alias)
	if strings.HasPrefix(path, repoModule+"/") {
		return strings.TrimPrefix(path, repoModule+"/")
	}
	return ""
}

// ---------------------------------------------------------------------------------------------- a very small type inference

// tyRef: a type expression together with the package/file in which its identifiers are to be resolved.
type tyRef struct {
	e    ast.Expr
	p    *pkgInfo
	f    *ast.File
	lazy ast.Expr // package-level `var x = expr`: type inferred on demand
}

// foreign named types whose underlying type is known to be a slice / a map
var foreignSlices = map[string]bool{
	"sdk.Coins": true, "sdk.DecCoins": true, "sdk.Events": true, "sdk.AccAddress": true, "sdk.ValAddress": true, "sdk.ConsAddress": true,
	"types.Coins": true, "types.DecCoins": true, "stakingtypes.Validators": false, "json.RawMessage": true, "big.Word": false,
	"v1.WeightedVoteOptions": true, "govv1.WeightedVoteOptions": true, "stakingtypes.Delegations": true, "stakingtypes.UnbondingDelegations": true,
	"stakingtypes.Redelegations": true, "abci.ValidatorUpdates": true, "cmttypes.Txs": true,
}

type scope struct {
	l    *factsLoader
	p    *pkgInfo
	f    *ast.File
	vars map[string]*tyRef
	caseBind map[*ast.CaseClause]string
}

func (s *scope) ref(e ast.Expr) *tyRef {
	if e == nil {
		return nil
	}
	return &tyRef{e: e, p: s.p, f: s.f}
}

// resolve strips names and pointers until a structural type expression is reached (nil = unknown).
func (l *factsLoader) resolve(t *tyRef, depth int) *tyRef {
	if t == nil || depth > 12 {
		return nil
	}
	if t.e == nil {
		return nil
	}
	switch e := t.e.(type) {
	case *ast.ParenExpr:
		return l.resolve(&tyRef{e: e.X, p: t.p, f: t.f}, depth+1)
	case *ast.Ident:
		if ts, ok := t.p.types[e.Name]; ok {
			return l.resolve(&tyRef{e: ts.Type, p: t.p, f: t.p.tfile[e.Name]}, depth+1)
		}
		return t // builtin or type parameter
	case *ast.SelectorExpr:
		if x, ok := e.X.(*ast.Ident); ok {
			if dir := l.importDir(t.f, x.Name); dir != "" {
				q := l.load(dir)
				if ts, ok := q.types[e.Sel.Name]; ok {
					return l.resolve(&tyRef{e: ts.Type, p: q, f: q.tfile[e.Sel.Name]}, depth+1)
				}
			}
		}
		return t // foreign named type
	}
	return t
}

// classify a type: map | slice | string | int | chan | func | other | unknown
func (l *factsLoader) classify(t *tyRef) string {
	r := l.resolve(t, 0)
	if r == nil {
		return "unknown"
	}
	switch e := r.e.(type) {
	case *ast.MapType:
		return "map"
	case *ast.ArrayType, *ast.Ellipsis:
		return "slice"
	case *ast.ChanType:
		return "chan"
	case *ast.FuncType:
		return "func"
	case *ast.StarExpr:
		in := l.classify(&tyRef{e: e.X, p: r.p, f: r.f})
		if in == "slice" { // pointer to array
			return "slice"
		}
		if in == "unknown" {
			return "unknown"
		}
		return "other"
	case *ast.StructType, *ast.InterfaceType:
		return "other"
	case *ast.Ident:
		switch e.Name {
		case "string":
			return "string"
		case "int", "int8", "int16", "int32", "int64", "uint", "uint8", "uint16", "uint32", "uint64", "byte", "rune", "uintptr":
			return "int"
		case "bool", "error", "float32", "float64", "any":
			return "other"
		}
		return "unknown"
	case *ast.SelectorExpr:
		s := exprStr(e)
		if v, ok := foreignSlices[s]; ok && v {
			return "slice"
		}
		if e.Sel.Name == "Coins" || e.Sel.Name == "DecCoins" { // sdk.Coins under any import alias (generated code uses long aliases)
			return "slice"
		}
		return "unknown"
	case *ast.IndexExpr, *ast.IndexListExpr:
		return "unknown" // generic instantiation
	}
	return "unknown"
}

func (l *factsLoader) elem(t *tyRef) (key, val *tyRef) {
	r := l.resolve(t, 0)
	if r == nil {
		return nil, nil
	}
	switch e := r.e.(type) {
	case *ast.MapType:
		return &tyRef{e: e.Key, p: r.p, f: r.f}, &tyRef{e: e.Value, p: r.p, f: r.f}
	case *ast.ArrayType:
		return &tyRef{e: ast.NewIdent("int"), p: r.p, f: r.f}, &tyRef{e: e.Elt, p: r.p, f: r.f}
	case *ast.Ellipsis:
		return &tyRef{e: ast.NewIdent("int"), p: r.p, f: r.f}, &tyRef{e: e.Elt, p: r.p, f: r.f}
	case *ast.StarExpr:
		return l.elem(&tyRef{e: e.X, p: r.p, f: r.f})
	case *ast.SelectorExpr:
		if e.Sel.Name == "Coins" {
			return &tyRef{e: ast.NewIdent("int"), p: r.p, f: r.f}, &tyRef{e: &ast.SelectorExpr{X: ast.NewIdent("sdk"), Sel: ast.NewIdent("Coin")}, p: r.p, f: r.f}
		}
	}
	return nil, nil
}

// structOf finds the struct type (and its package) behind a type, through names and pointers.
func (l *factsLoader) structOf(t *tyRef) (*ast.StructType, *tyRef) {
	r := l.resolve(t, 0)
	for i := 0; r != nil && i < 4; i++ {
		switch e := r.e.(type) {
		case *ast.StructType:
			return e, r
		case *ast.StarExpr:
			r = l.resolve(&tyRef{e: e.X, p: r.p, f: r.f}, 0)
			continue
		}
		break
	}
	return nil, nil
}

// namedOf returns (package, type name) of a named repository type behind pointers.
func (l *factsLoader) namedOf(t *tyRef) (*pkgInfo, string) {
	for i := 0; t != nil && t.e != nil && i < 4; i++ {
		switch e := t.e.(type) {
		case *ast.StarExpr:
			t = &tyRef{e: e.X, p: t.p, f: t.f}
			continue
		case *ast.ParenExpr:
			t = &tyRef{e: e.X, p: t.p, f: t.f}
			continue
		case *ast.Ident:
			if _, ok := t.p.types[e.Name]; ok {
				return t.p, e.Name
			}
		case *ast.SelectorExpr:
			if x, ok := e.X.(*ast.Ident); ok {
				if dir := l.importDir(t.f, x.Name); dir != "" {
					q := l.load(dir)
					if _, ok := q.types[e.Sel.Name]; ok {
						return q, e.Sel.Name
					}
				}
			}
		}
		break
	}
	return nil, ""
}

func (l *factsLoader) fieldType(t *tyRef, name string) *tyRef {
	st, r := l.structOf(t)
	if st == nil {
		return nil
	}
	for _, fl := range st.Fields.List {
		for _, n := range fl.Names {
			if n.Name == name {
				return &tyRef{e: fl.Type, p: r.p, f: r.f}
			}
		}
		if len(fl.Names) == 0 { // embedded
			if ft := l.fieldType(&tyRef{e: fl.Type, p: r.p, f: r.f}, name); ft != nil {
				return ft
			}
		}
	}
	return nil
}

// fieldAnywhere: the field name looked up in every struct of every loaded repository package; returns a type only
// when all declarations agree on the classification.
func (l *factsLoader) fieldAnywhere(name string) *tyRef {
	var found *tyRef
	cls := ""
	dirs := []string{}
	for d := range l.pkgs {
		dirs = append(dirs, d)
	}
	sort.Strings(dirs)
	for _, d := range dirs {
		p := l.pkgs[d]
		for tn, ts := range p.types {
			st, ok := ts.Type.(*ast.StructType)
			if !ok {
				continue
			}
			for _, fl := range st.Fields.List {
				for _, n := range fl.Names {
					if n.Name == name {
						t := &tyRef{e: fl.Type, p: p, f: p.tfile[tn]}
						c := l.classify(t)
						if cls != "" && c != cls {
							return nil
						}
						cls, found = c, t
					}
				}
			}
		}
	}
	return found
}

func results(fd *ast.FuncDecl, p *pkgInfo) []*tyRef {
	var out []*tyRef
	if fd.Type.Results == nil {
		return out
	}
	for _, r := range fd.Type.Results.List {
		n := len(r.Names)
		if n == 0 {
			n = 1
		}
		for i := 0; i < n; i++ {
			out = append(out, &tyRef{e: r.Type, p: p, f: p.ffile[fd]})
		}
	}
	return out
}

func (l *factsLoader) methodAnywhere(name string) []*tyRef {
	var found []*tyRef
	count := 0
	for _, p := range l.pkgs {
		for k, fd := range p.funcs {
			if strings.HasSuffix(k, "."+name) {
				count++
				found = results(fd, p)
			}
		}
	}
	if count == 1 {
		return found
	}
	return nil
}

// typesOf infers the types of an expression (several for a call with several results).
func (s *scope) typesOf(e ast.Expr) []*tyRef {
	one := func(t *tyRef) []*tyRef { return []*tyRef{t} }
	switch e := e.(type) {
	case *ast.ParenExpr:
		return s.typesOf(e.X)
	case *ast.Ident:
		if t, ok := s.vars[e.Name]; ok {
			return one(t)
		}
		if t, ok := s.p.vars[e.Name]; ok {
			if t.e == nil && t.lazy != nil {
				ps := &scope{l: s.l, p: t.p, f: t.f, vars: map[string]*tyRef{}}
				return one(ps.typeOf(t.lazy))
			}
			return one(t)
		}
		return one(nil)
	case *ast.BasicLit:
		switch e.Kind {
		case token.STRING:
			return one(s.ref(ast.NewIdent("string")))
		case token.INT, token.CHAR:
			return one(s.ref(ast.NewIdent("int")))
		}
		return one(s.ref(ast.NewIdent("float64")))
	case *ast.CompositeLit:
		return one(s.ref(e.Type))
	case *ast.FuncLit:
		return one(s.ref(e.Type))
	case *ast.TypeAssertExpr:
		return []*tyRef{s.ref(e.Type), s.ref(ast.NewIdent("bool"))}
	case *ast.StarExpr:
		t := s.typeOf(e.X)
		if t != nil {
			if r := s.l.resolve(t, 0); r != nil {
				if st, ok := r.e.(*ast.StarExpr); ok {
					return one(&tyRef{e: st.X, p: r.p, f: r.f})
				}
			}
			if st, ok := t.e.(*ast.StarExpr); ok {
				return one(&tyRef{e: st.X, p: t.p, f: t.f})
			}
		}
		return one(nil)
	case *ast.UnaryExpr:
		t := s.typeOf(e.X)
		if e.Op == token.AND && t != nil && t.e != nil {
			return one(&tyRef{e: &ast.StarExpr{X: t.e}, p: t.p, f: t.f})
		}
		if e.Op == token.ARROW {
			return one(nil)
		}
		if e.Op == token.NOT {
			return one(s.ref(ast.NewIdent("bool")))
		}
		return one(t)
	case *ast.BinaryExpr:
		switch e.Op {
		case token.EQL, token.NEQ, token.LSS, token.GTR, token.LEQ, token.GEQ, token.LAND, token.LOR:
			return one(s.ref(ast.NewIdent("bool")))
		}
		if t := s.typeOf(e.X); t != nil {
			return one(t)
		}
		return one(s.typeOf(e.Y))
	case *ast.SliceExpr:
		return one(s.typeOf(e.X))
	case *ast.IndexExpr:
		t := s.typeOf(e.X)
		if t == nil {
			return one(nil)
		}
		if s.l.classify(t) == "string" {
			return one(s.ref(ast.NewIdent("byte")))
		}
		_, v := s.l.elem(t)
		return []*tyRef{v, s.ref(ast.NewIdent("bool"))}
	case *ast.SelectorExpr:
		if x, ok := e.X.(*ast.Ident); ok {
			if _, local := s.vars[x.Name]; !local {
				if path := s.l.importPath(s.f, x.Name); path != "" {
					if dir := s.l.importDir(s.f, x.Name); dir != "" {
						q := s.l.load(dir)
						if t, ok := q.vars[e.Sel.Name]; ok {
							if t.e == nil && t.lazy != nil {
								ps := &scope{l: s.l, p: t.p, f: t.f, vars: map[string]*tyRef{}}
								return one(ps.typeOf(t.lazy))
							}
							return one(t)
						}
					}
					return one(nil)
				}
			}
		}
		tx := s.typeOf(e.X)
		if tx != nil {
			if ft := s.l.fieldType(tx, e.Sel.Name); ft != nil {
				return one(ft)
			}
			if ft := s.l.foreignMember(tx, e.Sel.Name); ft != nil {
				return one(ft)
			}
		}
		if ft := s.l.fieldAnywhere(e.Sel.Name); ft != nil {
			return one(ft)
		}
		return one(s.l.foreignMember(nil, e.Sel.Name))
	case *ast.CallExpr:
		return s.callTypes(e)
	}
	return []*tyRef{nil}
}

func (s *scope) typeOf(e ast.Expr) *tyRef {
	ts := s.typesOf(e)
	if len(ts) == 0 {
		return nil
	}
	return ts[0]
}

func isTypeExpr(e ast.Expr) bool {
	switch e := e.(type) {
	case *ast.ArrayType, *ast.MapType, *ast.ChanType, *ast.FuncType, *ast.InterfaceType, *ast.StructType:
		return true
	case *ast.ParenExpr:
		return isTypeExpr(e.X)
	case *ast.StarExpr:
		return isTypeExpr(e.X)
	}
	return false
}

func (s *scope) callTypes(c *ast.CallExpr) []*tyRef {
	one := func(t *tyRef) []*tyRef { return []*tyRef{t} }
	fun := c.Fun
	if p, ok := fun.(*ast.ParenExpr); ok {
		fun = p.X
	}
	if ix, ok := fun.(*ast.IndexExpr); ok { // generic instantiation f[T](…)
		fun = ix.X
	}
	if isTypeExpr(fun) {
		return one(s.ref(fun))
	}
	switch f := fun.(type) {
	case *ast.Ident:
		switch f.Name {
		case "make", "new":
			if len(c.Args) > 0 {
				if f.Name == "new" {
					return one(s.ref(&ast.StarExpr{X: c.Args[0]}))
				}
				return one(s.ref(c.Args[0]))
			}
		case "append":
			if len(c.Args) > 0 {
				return one(s.typeOf(c.Args[0]))
			}
		case "len", "cap", "copy", "min", "max":
			return one(s.ref(ast.NewIdent("int")))
		case "string":
			return one(s.ref(ast.NewIdent("string")))
		case "int", "int64", "uint64", "int32", "uint32", "byte", "uint", "uint8", "uint16", "int16", "int8", "rune":
			return one(s.ref(ast.NewIdent("int")))
		}
		if _, ok := s.p.types[f.Name]; ok {
			return one(s.ref(f))
		}
		if t, ok := s.vars[f.Name]; ok { // closure variable
			if r := s.l.resolve(t, 0); r != nil {
				if ft, ok := r.e.(*ast.FuncType); ok && ft.Results != nil {
					var out []*tyRef
					for _, x := range ft.Results.List {
						n := len(x.Names)
						if n == 0 {
							n = 1
						}
						for i := 0; i < n; i++ {
							out = append(out, &tyRef{e: x.Type, p: r.p, f: r.f})
						}
					}
					return out
				}
			}
			return one(nil)
		}
		if fd, ok := s.p.funcs[f.Name]; ok {
			return results(fd, s.p)
		}
		return one(nil)
	case *ast.SelectorExpr:
		if x, ok := f.X.(*ast.Ident); ok {
			if _, local := s.vars[x.Name]; !local {
				if path := s.l.importPath(s.f, x.Name); path != "" {
					if dir := s.l.importDir(s.f, x.Name); dir != "" {
						q := s.l.load(dir)
						if fd, ok := q.funcs[f.Sel.Name]; ok {
							return results(fd, q)
						}
						if _, ok := q.types[f.Sel.Name]; ok {
							return one(s.ref(f))
						}
					}
					switch exprStr(f) { // a few foreign functions that matter
					case "sort.Strings", "sort.Slice", "sort.SliceStable":
						return nil
					case "strings.Split", "strings.Fields":
						return one(s.ref(&ast.ArrayType{Elt: ast.NewIdent("string")}))
					case "accountstd.Funds":
						return one(s.l.foreignMember(nil, "Funds"))
					case "sdk.NewCoins":
						return one(s.ref(&ast.SelectorExpr{X: ast.NewIdent("sdk"), Sel: ast.NewIdent("Coins")}))
					}
					return one(nil)
				}
			}
		}
		// method call
		tx := s.typeOf(f.X)
		if q, tn := s.l.namedOf(tx); q != nil {
			if fd, ok := q.funcs[tn+"."+f.Sel.Name]; ok {
				return results(fd, q)
			}
			// interface type declared in the repository
			if it, ok := q.types[tn].Type.(*ast.InterfaceType); ok {
				for _, m := range it.Methods.List {
					for _, n := range m.Names {
						if n.Name == f.Sel.Name {
							if ft, ok := m.Type.(*ast.FuncType); ok && ft.Results != nil {
								var out []*tyRef
								for _, x := range ft.Results.List {
									k := len(x.Names)
									if k == 0 {
										k = 1
									}
									for i := 0; i < k; i++ {
										out = append(out, &tyRef{e: x.Type, p: q, f: q.tfile[tn]})
									}
								}
								return out
							}
						}
					}
				}
			}
			// struct field of function type
			if ft := s.l.fieldType(tx, f.Sel.Name); ft != nil {
				return one(nil)
			}
		}
		if tx != nil {
			// field of interface type etc.: give up on the receiver, fall through to the name-based lookup
			if r := s.l.resolve(tx, 0); r != nil {
				if it, ok := r.e.(*ast.InterfaceType); ok {
					for _, m := range it.Methods.List {
						for _, n := range m.Names {
							if n.Name == f.Sel.Name {
								if ft, ok := m.Type.(*ast.FuncType); ok && ft.Results != nil {
									var out []*tyRef
									for _, x := range ft.Results.List {
										k := len(x.Names)
										if k == 0 {
											k = 1
										}
										for i := 0; i < k; i++ {
											out = append(out, &tyRef{e: x.Type, p: r.p, f: r.f})
										}
									}
									return out
								}
							}
						}
					}
				}
			}
		}
		if rs := s.l.methodAnywhere(f.Sel.Name); rs != nil && tx == nil {
			return rs
		}
		if ft := s.l.foreignMember(tx, f.Sel.Name); ft != nil {
			return one(ft)
		}
		return one(nil)
	}
	return one(nil)
}

// Fields and methods of types declared OUTSIDE the repository (Cosmos SDK) whose (first) result is a slice; read from the
// pinned dependency sources.  Used only when the receiver is not a repository type and no repository declaration has the name.
// Every entry that was actually used is listed in Gen/Facts.lean (`foreignSliceAssumptions`).
var foreignSliceMembers = map[string]string{
	"Manager.OrderPreBlockers":                  "[]string (cosmos-sdk types/module.Manager)",
	"GetStoreKeys":                              "[]storetypes.StoreKey (cosmos-sdk runtime.App)",
	"GetAllDelegations":                         "[]stakingtypes.Delegation (x/staking keeper)",
	"Entries":                                   "[]RedelegationEntry / []UnbondingDelegationEntry (x/staking types)",
	"Options":                                   "[]*WeightedVoteOption (x/gov v1.Vote)",
	"Sort":                                      "sdk.Coins (sdk.Coins.Sort)",
	"Denoms":                                    "[]string (sdk.Coins.Denoms)",
	"Funds":                                     "sdk.Coins (x/accounts accountstd.Funds)",
	"MsgWithdrawDelegatorRewardResponse.Amount": "sdk.Coins (x/distribution)",
	"OrderPreBlockers":                          "[]string (cosmos-sdk types/module.Manager)",
}

func (l *factsLoader) foreignMember(recv *tyRef, name string) *tyRef {
	mk := func(key string) *tyRef {
		l.usedForeign[key+": "+foreignSliceMembers[key]] = true
		return &tyRef{e: &ast.ArrayType{Elt: ast.NewIdent("any")}, p: l.anyPkg(), f: nil}
	}
	if recv != nil && recv.e != nil {
		if q, _ := l.namedOf(recv); q != nil {
			// a repository type: never guessed, unless the member can only come from an embedded foreign type
			embeds := false
			if st, r := l.structOf(recv); st != nil {
				for _, fl := range st.Fields.List {
					if len(fl.Names) == 0 {
						if qq, _ := l.namedOf(&tyRef{e: fl.Type, p: r.p, f: r.f}); qq == nil {
							embeds = true
						}
					}
				}
			}
			if !embeds {
				return nil
			}
		}
		t := recv.e
		if st, ok := t.(*ast.StarExpr); ok {
			t = st.X
		}
		if se, ok := t.(*ast.SelectorExpr); ok {
			if _, ok := foreignSliceMembers[se.Sel.Name+"."+name]; ok {
				return mk(se.Sel.Name + "." + name)
			}
		}
	}
	if l.declaredInRepo(name) {
		return nil
	}
	if _, ok := foreignSliceMembers[name]; ok {
		return mk(name)
	}
	return nil
}

func (l *factsLoader) anyPkg() *pkgInfo {
	for _, p := range l.pkgs {
		return p
	}
	return nil
}

func (l *factsLoader) declaredInRepo(name string) bool {
	for _, p := range l.pkgs {
		for k := range p.funcs {
			if k == name || strings.HasSuffix(k, "."+name) {
				return true
			}
		}
		for _, ts := range p.types {
			if st, ok := ts.Type.(*ast.StructType); ok {
				for _, fl := range st.Fields.List {
					for _, n := range fl.Names {
						if n.Name == name {
							return true
						}
					}
				}
			}
		}
	}
	return false
}

// declare records the variables introduced by a statement.
func (s *scope) declare(n ast.Node) {
	switch n := n.(type) {
	case *ast.AssignStmt:
		if n.Tok != token.DEFINE && n.Tok != token.ASSIGN {
			return
		}
		var ts []*tyRef
		if len(n.Rhs) == 1 && len(n.Lhs) > 1 {
			ts = s.typesOf(n.Rhs[0])
		} else {
			for _, r := range n.Rhs {
				ts = append(ts, s.typeOf(r))
			}
		}
		for i, lh := range n.Lhs {
			id, ok := lh.(*ast.Ident)
			if !ok || id.Name == "_" {
				continue
			}
			var t *tyRef
			if i < len(ts) {
				t = ts[i]
			}
			if n.Tok == token.DEFINE {
				s.vars[id.Name] = t
			} else if _, known := s.vars[id.Name]; !known && t != nil {
				s.vars[id.Name] = t
			}
		}
	case *ast.DeclStmt:
		if gd, ok := n.Decl.(*ast.GenDecl); ok {
			for _, sp := range gd.Specs {
				if vs, ok := sp.(*ast.ValueSpec); ok {
					for i, nm := range vs.Names {
						if vs.Type != nil {
							s.vars[nm.Name] = s.ref(vs.Type)
						} else if i < len(vs.Values) {
							s.vars[nm.Name] = s.typeOf(vs.Values[i])
						}
					}
				}
			}
		}
	case *ast.RangeStmt:
		if n.Tok == token.DEFINE {
			t := s.typeOf(n.X)
			k, v := s.l.elem(t)
			if s.l.classify(t) == "int" {
				k = s.ref(ast.NewIdent("int"))
			}
			if id, ok := n.Key.(*ast.Ident); ok && id.Name != "_" {
				s.vars[id.Name] = k
			}
			if id, ok := n.Value.(*ast.Ident); ok && id.Name != "_" {
				s.vars[id.Name] = v
			}
		}
	case *ast.FuncLit:
		s.params(n.Type)
	case *ast.TypeSwitchStmt:
		if as, ok := n.Assign.(*ast.AssignStmt); ok && len(as.Lhs) == 1 {
			if id, ok := as.Lhs[0].(*ast.Ident); ok {
				for _, c := range n.Body.List {
					if cc, ok := c.(*ast.CaseClause); ok {
						if s.caseBind == nil {
							s.caseBind = map[*ast.CaseClause]string{}
						}
						s.caseBind[cc] = id.Name
					}
				}
			}
		}
	case *ast.CaseClause:
		if name, ok := s.caseBind[n]; ok {
			if len(n.List) == 1 {
				s.vars[name] = s.ref(n.List[0])
			} else {
				s.vars[name] = nil
			}
		}
	}
}

func (s *scope) params(ft *ast.FuncType) {
	add := func(fl *ast.FieldList) {
		if fl == nil {
			return
		}
		for _, p := range fl.List {
			for _, n := range p.Names {
				s.vars[n.Name] = s.ref(p.Type)
			}
		}
	}
	add(ft.Params)
	add(ft.Results)
}

// ---------------------------------------------------------------------------------------------- helpers

func normText(fset *token.FileSet, n ast.Node) string {
	var sb strings.Builder
	cfg := printer.Config{Mode: printer.RawFormat}
	_ = cfg.Fprint(&sb, fset, n)
	return strings.Join(strings.Fields(sb.String()), " ")
}

func shortHash(s string) string {
	h := sha256.Sum256([]byte(s))
	return hex.EncodeToString(h[:8])
}

func funcKey(fd *ast.FuncDecl) string {
	if r, _ := recvTypeName(fd); r != "" {
		return r + "." + fd.Name.Name
	}
	return fd.Name.Name
}

func leanStr(s string) string {
	var sb strings.Builder
	sb.WriteByte('"')
	for _, r := range s {
		switch {
		case r == '"':
			sb.WriteString("\\\"")
		case r == '\\':
			sb.WriteString("\\\\")
		case r == '\n':
			sb.WriteString("\\n")
		case r == '\t':
			sb.WriteString("\\t")
		case r < 0x20 || r > 0x7e:
			fmt.Fprintf(&sb, "\\u{%x}", r)
		default:
			sb.WriteRune(r)
		}
	}
	sb.WriteByte('"')
	return sb.String()
}

func leanStrList(xs []string) string {
	q := make([]string, len(xs))
	for i, x := range xs {
		q[i] = leanStr(x)
	}
	return "[" + strings.Join(q, ", ") + "]"
}

func baseIdent(e ast.Expr) string {
	for {
		switch x := e.(type) {
		case *ast.Ident:
			return x.Name
		case *ast.SelectorExpr:
			e = x.X
		case *ast.IndexExpr:
			e = x.X
		case *ast.StarExpr:
			e = x.X
		case *ast.ParenExpr:
			e = x.X
		case *ast.SliceExpr:
			e = x.X
		default:
			return ""
		}
	}
}

func mentions(n ast.Node, names map[string]bool) bool {
	hit := false
	ast.Inspect(n, func(x ast.Node) bool {
		if id, ok := x.(*ast.Ident); ok && names[id.Name] {
			hit = true
		}
		return !hit
	})
	return hit
}

// consensusDirs: packages whose code runs inside block / message processing.
func consensusDirs(repo string) []string {
	var dirs []string
	add := func(d string) {
		if st, err := os.Stat(filepath.Join(repo, d)); err == nil && st.IsDir() {
			dirs = append(dirs, d)
		}
	}
	for _, d := range []string{"app", "app/gov", "app/mint", "app/custom", "app/consts"} {
		add(d)
	}
	mods, _ := os.ReadDir(filepath.Join(repo, "x"))
	for _, m := range mods {
		if !m.IsDir() {
			continue
		}
		if m.Name() == "accounts" {
			subs, _ := os.ReadDir(filepath.Join(repo, "x/accounts"))
			for _, s := range subs {
				if s.IsDir() {
					add("x/accounts/" + s.Name())
				}
			}
			continue
		}
		for _, sub := range []string{"keeper", "types", "module", "ante", "erasurecoding", "zkp"} {
			add("x/" + m.Name() + "/" + sub)
		}
	}
	sort.Strings(dirs)
	return dirs
}

func consensusFile(name string) bool {
	if isGenerated(name) || strings.HasSuffix(name, "_test.go") {
		return false
	}
	switch name {
	case "simulation.go", "autocli.go", "sim_test.go", "sim_bench_test.go":
		return false
	}
	return true
}

// ---------------------------------------------------------------------------------------------- range-over-map sites

type rangeSite struct {
	file, fn, hash, useHash, expr, kind string
	writes, calls, uses                 []string
	line                                int
}

type construct struct{ kind, file, fn, detail string }

// isMutableNumericInit: the initialiser (or declared type) of a package-level variable is one of the big-number wrappers
// whose methods ending in `Mut` (and big.Int's own methods) change the value IN PLACE: a second name for such a variable shares it.
func isMutableNumericInit(fset *token.FileSet, spec *ast.ValueSpec) bool {
	txt := ""
	if spec.Type != nil {
		txt += normText(fset, spec.Type) + " "
	}
	for _, v := range spec.Values {
		txt += normText(fset, v) + " "
	}
	for _, k := range []string{"LegacyDec", "LegacyNewDec", "LegacyZeroDec", "LegacyOneDec", "LegacyMustNewDec", "LegacySmallestDec", "math.Int", "sdkmath.Int", "NewInt", "ZeroInt", "OneInt", "big.Int", "NewDecFromInt64", "math.Dec"} {
		if strings.Contains(txt, k) {
			return true
		}
	}
	return false
}

func scanDeterminism(l *factsLoader, dirs []string) (sites []rangeSite, cons []construct, nRange int) {
	// package-level big-number variables of all consensus packages (by name: a qualified use `pkg.Name` is matched by Name)
	sharedNum := map[string]bool{}
	for _, d := range dirs {
		p := l.load(d)
		for _, fname := range p.names {
			if !consensusFile(fname) {
				continue
			}
			for _, decl := range p.files[fname].Decls {
				if gd, ok := decl.(*ast.GenDecl); ok && gd.Tok == token.VAR {
					for _, sp := range gd.Specs {
						if vs, ok := sp.(*ast.ValueSpec); ok && isMutableNumericInit(l.fset, vs) {
							for _, n := range vs.Names {
								sharedNum[n.Name] = true
							}
						}
					}
				}
			}
		}
	}
	for _, d := range dirs {
		p := l.load(d)
		for _, fname := range p.names {
			if !consensusFile(fname) {
				continue
			}
			f := p.files[fname]
			rel := d + "/" + fname
			// file-level: imports
			aliases := map[string]string{} // alias -> kind
			for _, im := range f.Imports {
				path, _ := strconv.Unquote(im.Path.Value)
				kind := ""
				switch {
				case path == "math/rand" || path == "math/rand/v2" || path == "crypto/rand" || strings.HasSuffix(path, "/exp/rand"):
					kind = "rand"
				case path == "unsafe":
					kind = "unsafe"
				case path == "sync" || path == "sync/atomic":
					kind = "sync"
				case path == "time":
					kind = "time"
				}
				if kind == "" {
					continue
				}
				a := path[strings.LastIndex(path, "/")+1:]
				if path == "math/rand/v2" {
					a = "rand"
				}
				if im.Name != nil {
					a = im.Name.Name
				}
				aliases[a] = kind
				if kind == "unsafe" || (im.Name != nil && (im.Name.Name == "_" || im.Name.Name == ".")) {
					cons = append(cons, construct{kind, rel, "(import)", path})
				}
			}
			scanNode := func(fnName string, root ast.Node, sc *scope, fd *ast.FuncDecl) {
				// names that alias a package-level big-number variable inside this function (x := shared, x = pkg.Shared)
				tainted := map[string]bool{}
				sharedSrc := func(e ast.Expr) bool {
					switch y := e.(type) {
					case *ast.Ident:
						if tainted[y.Name] {
							return true
						}
						if sharedNum[y.Name] {
							local := false
							if sc != nil {
								_, local = sc.vars[y.Name]
							}
							return !local
						}
					case *ast.SelectorExpr:
						if _, ok := y.X.(*ast.Ident); ok && sharedNum[y.Sel.Name] {
							return true
						}
					}
					return false
				}
				ast.Inspect(root, func(n ast.Node) bool {
					if n == nil {
						return true
					}
					switch x := n.(type) {
					case *ast.AssignStmt:
						if fd != nil && len(x.Lhs) == len(x.Rhs) {
							for i := range x.Lhs {
								if id, ok := x.Lhs[i].(*ast.Ident); ok && id.Name != "_" {
									if sharedSrc(x.Rhs[i]) {
										tainted[id.Name] = true
									} else {
										delete(tainted, id.Name)
									}
								}
							}
						}
					case *ast.CallExpr:
						// default formatting of a value into a string that is not an error text: `fmt.Sprint(v)` / `%v` of a struct with
						// pointer or interface fields prints heap addresses (events, attributes, keys built this way differ between nodes)
						if se, ok := x.Fun.(*ast.SelectorExpr); ok {
							if id, ok := se.X.(*ast.Ident); ok && id.Name == "fmt" {
								switch se.Sel.Name {
								case "Sprint", "Sprintln":
									cons = append(cons, construct{"pointer-format", rel, fnName, normText(l.fset, x)})
								case "Sprintf":
									if len(x.Args) > 0 {
										if bl, ok := x.Args[0].(*ast.BasicLit); ok && (strings.Contains(bl.Value, "%v") || strings.Contains(bl.Value, "%+v") || strings.Contains(bl.Value, "%#v")) {
											cons = append(cons, construct{"pointer-format", rel, fnName, normText(l.fset, x)})
										}
									}
								}
							}
						}
						if fd != nil {
							if se, ok := x.Fun.(*ast.SelectorExpr); ok && (strings.HasSuffix(se.Sel.Name, "Mut") || se.Sel.Name == "SetInt64" || se.Sel.Name == "SetUint64") && sharedSrc(se.X) {
								cons = append(cons, construct{"shared-mutation", rel, fnName, normText(l.fset, x.Fun)})
							}
						}
					case *ast.CompositeLit:
						// an acknowledgement (committed to state, relayed) carrying the raw text of an error: error strings may contain
						// addresses and differ between nodes; ibc-go's NewErrorAcknowledgement strips them for that reason
						if strings.HasSuffix(normText(l.fset, x.Type), "Acknowledgement_Error") && strings.Contains(normText(l.fset, x), ".Error()") {
							cons = append(cons, construct{"error-text-in-state", rel, fnName, normText(l.fset, x)})
						}
					case *ast.GoStmt:
						cons = append(cons, construct{"go", rel, fnName, normText(l.fset, x.Call.Fun)})
					case *ast.SelectStmt:
						cons = append(cons, construct{"select", rel, fnName, ""})
					case *ast.Ident:
						if x.Name == "float32" || x.Name == "float64" {
							cons = append(cons, construct{"float", rel, fnName, x.Name})
						}
					case *ast.BasicLit:
						if x.Kind == token.FLOAT {
							cons = append(cons, construct{"float", rel, fnName, x.Value})
						}
						if x.Kind == token.STRING && strings.Contains(x.Value, "%p") {
							cons = append(cons, construct{"pointer-format", rel, fnName, x.Value})
						}
					case *ast.SelectorExpr:
						if id, ok := x.X.(*ast.Ident); ok {
							local := false
							if sc != nil {
								_, local = sc.vars[id.Name]
							}
							if k, ok := aliases[id.Name]; ok && !local {
								switch k {
								case "time":
									if x.Sel.Name == "Now" || x.Sel.Name == "Since" || x.Sel.Name == "Until" || x.Sel.Name == "After" || x.Sel.Name == "Tick" || x.Sel.Name == "Sleep" || x.Sel.Name == "NewTimer" || x.Sel.Name == "NewTicker" || x.Sel.Name == "AfterFunc" {
										cons = append(cons, construct{"time", rel, fnName, "time." + x.Sel.Name})
									}
								default:
									cons = append(cons, construct{k, rel, fnName, id.Name + "." + x.Sel.Name})
								}
							}
						}
					}
					if sc != nil {
						sc.declare(n)
						if rs, ok := n.(*ast.RangeStmt); ok {
							nRange++
							t := sc.typeOf(rs.X)
							cls := l.classify(t)
							if cls == "map" || cls == "unknown" {
								sites = append(sites, makeSite(l, dirs, rel, fnName, fd, rs, cls))
							}
						}
					}
					return true
				})
			}
			for _, decl := range f.Decls {
				switch dd := decl.(type) {
				case *ast.FuncDecl:
					if dd.Body == nil {
						continue
					}
					sc := &scope{l: l, p: p, f: f, vars: map[string]*tyRef{}}
					if dd.Recv != nil {
						for _, r := range dd.Recv.List {
							for _, n := range r.Names {
								sc.vars[n.Name] = sc.ref(r.Type)
							}
						}
					}
					sc.params(dd.Type)
					scanNode(funcKey(dd), dd, sc, dd)
				case *ast.GenDecl:
					scanNode("(package)", dd, nil, nil)
				}
			}
		}
	}
	return
}

func makeSite(l *factsLoader, dirs []string, rel, fnName string, fd *ast.FuncDecl, rs *ast.RangeStmt, cls string) rangeSite {
	s := rangeSite{file: rel, fn: fnName, expr: normText(l.fset, rs.X), kind: cls, line: l.fset.Position(rs.Pos()).Line}
	s.hash = shortHash(normText(l.fset, rs))
	// variables declared inside the loop (including key/value)
	inner := map[string]bool{}
	for _, e := range []ast.Expr{rs.Key, rs.Value} {
		if id, ok := e.(*ast.Ident); ok && rs.Tok == token.DEFINE {
			inner[id.Name] = true
		}
	}
	ast.Inspect(rs.Body, func(n ast.Node) bool {
		switch x := n.(type) {
		case *ast.AssignStmt:
			if x.Tok == token.DEFINE {
				for _, lh := range x.Lhs {
					if id, ok := lh.(*ast.Ident); ok {
						inner[id.Name] = true
					}
				}
			}
		case *ast.RangeStmt:
			if x.Tok == token.DEFINE {
				for _, e := range []ast.Expr{x.Key, x.Value} {
					if id, ok := e.(*ast.Ident); ok {
						inner[id.Name] = true
					}
				}
			}
		case *ast.DeclStmt:
			if gd, ok := x.Decl.(*ast.GenDecl); ok {
				for _, sp := range gd.Specs {
					if vs, ok := sp.(*ast.ValueSpec); ok {
						for _, nm := range vs.Names {
							inner[nm.Name] = true
						}
					}
				}
			}
		}
		return true
	})
	w := map[string]bool{}
	c := map[string]bool{}
	ast.Inspect(rs.Body, func(n ast.Node) bool {
		switch x := n.(type) {
		case *ast.AssignStmt:
			for _, lh := range x.Lhs {
				if b := baseIdent(lh); b != "" && b != "_" && !inner[b] {
					w[b] = true
				}
			}
		case *ast.IncDecStmt:
			if b := baseIdent(x.X); b != "" && !inner[b] {
				w[b] = true
			}
		case *ast.CallExpr:
			c[normText(l.fset, x.Fun)] = true
		case *ast.ReturnStmt:
			c["return"] = true
		case *ast.BranchStmt:
			if x.Tok == token.BREAK {
				c["break"] = true
			}
		}
		return true
	})
	for k := range w {
		s.writes = append(s.writes, k)
	}
	for k := range c {
		s.calls = append(s.calls, k)
	}
	sort.Strings(s.writes)
	sort.Strings(s.calls)
	// every simple statement / header expression of the enclosing function outside the loop that mentions a variable written by
	// the loop or derived from one (taint through assignments and nested ranges); if such a value is returned, the same in every
	// consensus function that calls the enclosing function.
	var uses []string
	if fd != nil && len(w) > 0 {
		tainted := map[string]bool{}
		for k := range w {
			tainted[k] = true
		}
		us, ret := taintUses(l, fd.Body, rs, tainted)
		uses = append(uses, us...)
		if ret {
			for _, d := range dirs {
				p := l.pkgs[d]
				for _, fname := range p.names {
					if !consensusFile(fname) {
						continue
					}
					for _, decl := range p.files[fname].Decls {
						g, ok := decl.(*ast.FuncDecl)
						if !ok || g.Body == nil || g == fd {
							continue
						}
						seeds := map[string]bool{}
						ast.Inspect(g.Body, func(n ast.Node) bool {
							as, ok := n.(*ast.AssignStmt)
							if !ok {
								return true
							}
							calls := false
							for _, r := range as.Rhs {
								ast.Inspect(r, func(x ast.Node) bool {
									if c, ok := x.(*ast.CallExpr); ok {
										switch f := c.Fun.(type) {
										case *ast.Ident:
											calls = calls || f.Name == fd.Name.Name
										case *ast.SelectorExpr:
											calls = calls || f.Sel.Name == fd.Name.Name
										}
									}
									return true
								})
							}
							if calls {
								for _, lh := range as.Lhs {
									if b := baseIdent(lh); b != "" && b != "_" && b != "err" && b != "ok" {
										seeds[b] = true
									}
								}
							}
							return true
						})
						if len(seeds) == 0 {
							continue
						}
						cu, _ := taintUses(l, g.Body, nil, seeds)
						for _, u := range cu {
							uses = append(uses, "caller "+d+"/"+fname+" "+funcKey(g)+": "+u)
						}
					}
				}
			}
		}
	}
	s.uses = uses
	s.useHash = shortHash(strings.Join(uses, "\n"))
	return s
}

// taintUses: statements of body (outside skip) that mention a tainted variable; taint spreads through assignments and ranges.
// Second result: a return statement mentions a tainted variable.
func taintUses(l *factsLoader, body *ast.BlockStmt, skip *ast.RangeStmt, tainted map[string]bool) (uses []string, returns bool) {
	for changed := true; changed; {
		changed = false
		ast.Inspect(body, func(n ast.Node) bool {
			if skip != nil && n == ast.Node(skip) {
				return false
			}
			switch x := n.(type) {
			case *ast.AssignStmt:
				hit := false
				for _, r := range x.Rhs {
					hit = hit || mentions(r, tainted)
				}
				if hit {
					for _, lh := range x.Lhs {
						if b := baseIdent(lh); b != "" && b != "_" && b != "err" && b != "ok" && !tainted[b] {
							tainted[b] = true
							changed = true
						}
					}
				}
			case *ast.RangeStmt:
				if mentions(x.X, tainted) {
					for _, e := range []ast.Expr{x.Key, x.Value} {
						if id, ok := e.(*ast.Ident); ok && id.Name != "_" && !tainted[id.Name] {
							tainted[id.Name] = true
							changed = true
						}
					}
				}
			}
			return true
		})
	}
	ast.Inspect(body, func(n ast.Node) bool {
		if n == nil {
			return true
		}
		if skip != nil && n == ast.Node(skip) {
			return false
		}
		switch x := n.(type) {
		case *ast.AssignStmt, *ast.ExprStmt, *ast.ReturnStmt, *ast.IncDecStmt, *ast.DeclStmt, *ast.SendStmt, *ast.GoStmt, *ast.DeferStmt:
			if mentions(x, tainted) {
				uses = append(uses, normText(l.fset, x))
				if _, ok := x.(*ast.ReturnStmt); ok {
					returns = true
				}
			}
			return false
		case *ast.IfStmt:
			if x.Cond != nil && mentions(x.Cond, tainted) {
				uses = append(uses, "if "+normText(l.fset, x.Cond))
			}
		case *ast.ForStmt:
			if x.Cond != nil && mentions(x.Cond, tainted) {
				uses = append(uses, "for "+normText(l.fset, x.Cond))
			}
		case *ast.RangeStmt:
			if mentions(x.X, tainted) {
				uses = append(uses, "range "+normText(l.fset, x.X))
			}
		case *ast.SwitchStmt:
			if x.Tag != nil && mentions(x.Tag, tainted) {
				uses = append(uses, "switch "+normText(l.fset, x.Tag))
			}
		}
		return true
	})
	return
}

// ---------------------------------------------------------------------------------------------- store prefixes and genesis coverage

type prefixRow struct {
	module, name, prefix, kind, parent string // kind: coll | index | raw ; parent: field name of the primary map of an index
	initWrites, exportReads            bool
}

type touch struct{ r, w bool }

type modFacts struct {
	l       *factsLoader
	mod     string
	kp, tp  *pkgInfo
	rows    []prefixRow
	fields  map[string]bool   // collection fields of Keeper
	rawKey  map[string]string // raw prefix const name / key function name (types package) -> row name
	memo    map[string]map[string]touch
	onStack map[string]bool
}

func prefixOfExpr(l *factsLoader, p *pkgInfo, f *ast.File, e ast.Expr) (string, bool) {
	// types.X  or  X  -> package var initialised with collections.NewPrefix(<lit>)
	var q *pkgInfo
	name := ""
	switch x := e.(type) {
	case *ast.SelectorExpr:
		if id, ok := x.X.(*ast.Ident); ok {
			if dir := l.importDir(f, id.Name); dir != "" {
				q, name = l.load(dir), x.Sel.Name
			}
		}
	case *ast.Ident:
		q, name = p, x.Name
	case *ast.CallExpr:
		if exprStr(x.Fun) == "collections.NewPrefix" && len(x.Args) == 1 {
			if bl, ok := x.Args[0].(*ast.BasicLit); ok {
				if bl.Kind == token.STRING {
					s, _ := strconv.Unquote(bl.Value)
					return s, true
				}
				return "#" + bl.Value, true
			}
			if id, ok := x.Args[0].(*ast.Ident); ok {
				if s, ok := p.consts[id.Name]; ok {
					return s, true
				}
			}
		}
		return "", false
	}
	if q == nil {
		return "", false
	}
	t, ok := q.vars[name]
	if !ok || t.lazy == nil {
		return "", false
	}
	return prefixOfExpr(l, q, t.f, t.lazy)
}

func (m *modFacts) collect() int {
	bad := 0
	l := m.l
	ks, ok := m.kp.types["Keeper"]
	if !ok {
		fmt.Fprintf(os.Stderr, "svx facts: %s: no Keeper type\n", m.mod)
		return 1
	}
	st, ok := ks.Type.(*ast.StructType)
	if !ok {
		return 1
	}
	var order []string
	for _, fl := range st.Fields.List {
		ts := gotypes.ExprString(fl.Type)
		if strings.Contains(ts, "collections.") && !strings.Contains(ts, "collections.Schema") {
			for _, n := range fl.Names {
				m.fields[n.Name] = true
				order = append(order, n.Name)
			}
		}
	}
	// constructor: Field: collections.NewX(sb, prefix, "name", …)
	seen := map[string]bool{}
	for _, fname := range m.kp.names {
		f := m.kp.files[fname]
		ast.Inspect(f, func(n ast.Node) bool {
			kv, ok := n.(*ast.KeyValueExpr)
			if !ok {
				return true
			}
			key, ok := kv.Key.(*ast.Ident)
			if !ok || !m.fields[key.Name] {
				return true
			}
			call, ok := kv.Value.(*ast.CallExpr)
			if !ok || !strings.HasPrefix(exprStr(call.Fun), "collections.New") || len(call.Args) < 3 {
				return true
			}
			pfx, ok := prefixOfExpr(l, m.kp, f, call.Args[1])
			if !ok {
				fmt.Fprintf(os.Stderr, "svx facts: %s.%s: prefix expression %s not resolved\n", m.mod, key.Name, exprStr(call.Args[1]))
				bad++
				pfx = "?" + exprStr(call.Args[1])
			}
			m.rows = append(m.rows, prefixRow{module: m.mod, name: key.Name, prefix: pfx, kind: "coll"})
			seen[key.Name] = true
			// indexes of an IndexedMap: last argument types.NewXIndexes(sb, …)
			if strings.HasSuffix(exprStr(call.Fun), "NewIndexedMap") {
				last := call.Args[len(call.Args)-1]
				if ic, ok := last.(*ast.CallExpr); ok {
					var q *pkgInfo
					fn := ""
					switch fx := ic.Fun.(type) {
					case *ast.SelectorExpr:
						if id, ok := fx.X.(*ast.Ident); ok {
							if dir := l.importDir(f, id.Name); dir != "" {
								q, fn = l.load(dir), fx.Sel.Name
							}
						}
					case *ast.Ident:
						q, fn = m.kp, fx.Name
					}
					if q != nil && q.funcs[fn] != nil {
						fd := q.funcs[fn]
						ast.Inspect(fd, func(n ast.Node) bool {
							kv2, ok := n.(*ast.KeyValueExpr)
							if !ok {
								return true
							}
							c2, ok := kv2.Value.(*ast.CallExpr)
							if !ok || !strings.HasPrefix(exprStr(c2.Fun), "indexes.New") || len(c2.Args) < 3 {
								return true
							}
							ip, ok := prefixOfExpr(l, q, q.ffile[fd], c2.Args[1])
							if !ok {
								bad++
								ip = "?" + exprStr(c2.Args[1])
							}
							m.rows = append(m.rows, prefixRow{module: m.mod, name: key.Name + "." + exprStr(kv2.Key), prefix: ip, kind: "index", parent: key.Name})
							return true
						})
					} else {
						fmt.Fprintf(os.Stderr, "svx facts: %s.%s: index constructor not resolved\n", m.mod, key.Name)
						bad++
					}
				}
			}
			return true
		})
	}
	for _, n := range order {
		if !seen[n] {
			fmt.Fprintf(os.Stderr, "svx facts: %s.%s: collection field without constructor\n", m.mod, n)
			m.rows = append(m.rows, prefixRow{module: m.mod, name: n, prefix: "?", kind: "coll"})
			bad++
		}
	}
	// raw KV prefixes: string constants of the types package that are turned into key bytes
	rawConst := map[string]bool{}
	markIn := func(n ast.Node) {
		ast.Inspect(n, func(x ast.Node) bool {
			switch y := x.(type) {
			case *ast.Ident:
				if _, ok := m.tp.consts[y.Name]; ok {
					rawConst[y.Name] = true
				}
			case *ast.SelectorExpr:
				if _, ok := m.tp.consts[y.Sel.Name]; ok {
					rawConst[y.Sel.Name] = true
				}
			}
			return true
		})
	}
	byteResult := func(fd *ast.FuncDecl) bool {
		if fd.Type.Results == nil {
			return false
		}
		for _, r := range fd.Type.Results.List {
			if exprStr(r.Type) == "[]byte" {
				return true
			}
		}
		return false
	}
	_ = markIn
	_ = byteResult
	var leftmost func(e ast.Expr) ast.Expr
	leftmost = func(e ast.Expr) ast.Expr {
		switch x := e.(type) {
		case *ast.ParenExpr:
			return leftmost(x.X)
		case *ast.BinaryExpr:
			if x.Op == token.ADD {
				return leftmost(x.X)
			}
		case *ast.CallExpr:
			fs := gotypes.ExprString(x.Fun)
			if (fs == "fmt.Sprintf" || fs == "string" || fs == "[]byte") && len(x.Args) > 0 {
				return leftmost(x.Args[0])
			}
		}
		return e
	}
	for _, p := range []*pkgInfo{m.tp, m.kp} {
		for _, fname := range p.names {
			if isGenerated(fname) {
				continue
			}
			ast.Inspect(p.files[fname], func(n ast.Node) bool {
				if x, ok := n.(*ast.CallExpr); ok {
					fs := gotypes.ExprString(x.Fun)
					if (fs == "[]byte" || strings.HasSuffix(fs, "KeyPrefix")) && len(x.Args) == 1 {
						switch y := leftmost(x.Args[0]).(type) {
						case *ast.Ident:
							if _, ok := m.tp.consts[y.Name]; ok && p == m.tp {
								rawConst[y.Name] = true
							}
						case *ast.SelectorExpr:
							if id, ok := y.X.(*ast.Ident); ok && l.importDir(p.files[fname], id.Name) == m.tp.dir {
								if _, ok := m.tp.consts[y.Sel.Name]; ok {
									rawConst[y.Sel.Name] = true
								}
							}
						}
					}
				}
				return true
			})
		}
	}
	// constants that only name the module / store / route are not key prefixes
	for _, n := range []string{"ModuleName", "StoreKey", "RouterKey", "MemStoreKey", "GovModuleName", "QuerierRoute"} {
		delete(rawConst, n)
	}
	collPrefixes := map[string]bool{}
	for _, r := range m.rows {
		collPrefixes[r.prefix] = true
	}
	var rawNames []string
	for n := range rawConst {
		if collPrefixes[m.tp.consts[n]] { // a string constant fed to collections.NewPrefix is already a row
			continue
		}
		rawNames = append(rawNames, n)
	}
	sort.Strings(rawNames)
	for _, n := range rawNames {
		m.rows = append(m.rows, prefixRow{module: m.mod, name: n, prefix: m.tp.consts[n], kind: "raw"})
		m.rawKey[n] = n
	}
	// key functions of the types package: which raw prefix do they build keys for (transitively)
	for changed := true; changed; {
		changed = false
		for key, fd := range m.tp.funcs {
			if _, ok := m.rawKey[key]; ok || fd.Body == nil || isGenerated(filepath.Base(l.fset.Position(fd.Pos()).Filename)) {
				continue
			}
			hit := ""
			ast.Inspect(fd.Body, func(n ast.Node) bool {
				if id, ok := n.(*ast.Ident); ok && hit == "" {
					if r, ok := m.rawKey[id.Name]; ok {
						hit = r
					}
				}
				return hit == ""
			})
			if hit != "" {
				m.rawKey[key] = hit
				changed = true
			}
		}
	}
	return bad
}

var writeMethods = map[string]bool{"Set": true, "Remove": true, "Next": true, "Clear": true, "Delete": true}
var readMethods = map[string]bool{"Get": true, "Has": true, "Walk": true, "Iterate": true, "IterateRaw": true, "Peek": true, "Iterator": true,
	"ReverseIterator": true, "KVStorePrefixIterator": true, "KVStoreReversePrefixIterator": true, "NewStore": true, "MatchExact": true}

// touches: which rows a keeper function reads / writes, following calls to functions of the keeper package.
func (m *modFacts) touches(key string) map[string]touch {
	if t, ok := m.memo[key]; ok {
		return t
	}
	out := map[string]touch{}
	fd, ok := m.kp.funcs[key]
	if !ok || fd.Body == nil || m.onStack[key] {
		return out
	}
	m.onStack[key] = true
	defer func() { m.onStack[key] = false }()
	_, recv := recvTypeName(fd)
	add := func(name string, r, w bool) {
		t := out[name]
		t.r = t.r || r
		t.w = t.w || w
		out[name] = t
	}
	var stack []ast.Node
	ast.Inspect(fd.Body, func(n ast.Node) bool {
		if n == nil {
			stack = stack[:len(stack)-1]
			return true
		}
		stack = append(stack, n)
		switch x := n.(type) {
		case *ast.SelectorExpr:
			// k.Field…
			if id, ok := x.X.(*ast.Ident); ok && id.Name == recv && recv != "" && m.fields[x.Sel.Name] {
				// find the method applied to it: parent selector chain then call
				meth := ""
				for i := len(stack) - 2; i >= 0; i-- {
					if ps, ok := stack[i].(*ast.SelectorExpr); ok {
						meth = ps.Sel.Name
						continue
					}
					if _, ok := stack[i].(*ast.CallExpr); ok {
						break
					}
					meth = ""
					break
				}
				switch {
				case meth == "Next":
					add(x.Sel.Name, true, true)
				case writeMethods[meth]:
					add(x.Sel.Name, false, true)
				case readMethods[meth]:
					add(x.Sel.Name, true, false)
				default:
					add(x.Sel.Name, true, true) // passed around: assume both
				}
			}
			// types.RawConst / types.KeyFn
			if id, ok := x.X.(*ast.Ident); ok && m.l.importDir(m.kp.ffile[fd], id.Name) == m.tp.dir {
				if row, ok := m.rawKey[x.Sel.Name]; ok {
					r, w := false, false
					for i := len(stack) - 2; i >= 0; i-- {
						if c, ok := stack[i].(*ast.CallExpr); ok {
							name := ""
							switch f := c.Fun.(type) {
							case *ast.SelectorExpr:
								name = f.Sel.Name
							case *ast.Ident:
								name = f.Name
							}
							if writeMethods[name] {
								w = true
								break
							}
							if readMethods[name] {
								r = true
								break
							}
						}
					}
					if !r && !w {
						r, w = true, true
					}
					add(row, r, w)
				}
			}
		case *ast.CallExpr:
			callee := ""
			switch f := x.Fun.(type) {
			case *ast.SelectorExpr:
				if id, ok := f.X.(*ast.Ident); ok && id.Name == recv && recv != "" {
					callee = "Keeper." + f.Sel.Name
					if _, ok := m.kp.funcs[callee]; !ok {
						callee = ""
						for k := range m.kp.funcs {
							if strings.HasSuffix(k, "."+f.Sel.Name) {
								callee = k
							}
						}
					}
				}
			case *ast.Ident:
				if _, ok := m.kp.funcs[f.Name]; ok {
					callee = f.Name
				}
			}
			if callee != "" {
				for k, t := range m.touches(callee) {
					add(k, t.r, t.w)
				}
			}
		}
		return true
	})
	m.memo[key] = out
	return out
}

// reach: keeper-package functions reachable from `key` through direct calls (same callee resolution as touches)
func (m *modFacts) reach(key string, seen map[string]bool) {
	fd, ok := m.kp.funcs[key]
	if !ok || fd.Body == nil || seen[key] {
		return
	}
	seen[key] = true
	_, recv := recvTypeName(fd)
	ast.Inspect(fd.Body, func(n ast.Node) bool {
		x, ok := n.(*ast.CallExpr)
		if !ok {
			return true
		}
		callee := ""
		switch f := x.Fun.(type) {
		case *ast.SelectorExpr:
			if id, ok := f.X.(*ast.Ident); ok && id.Name == recv && recv != "" {
				callee = "Keeper." + f.Sel.Name
				if _, ok := m.kp.funcs[callee]; !ok {
					callee = ""
					var ks []string
					for k := range m.kp.funcs {
						if strings.HasSuffix(k, "."+f.Sel.Name) {
							ks = append(ks, k)
						}
					}
					sort.Strings(ks)
					if len(ks) > 0 {
						callee = ks[len(ks)-1]
					}
				}
			}
		case *ast.Ident:
			if _, ok := m.kp.funcs[f.Name]; ok {
				callee = f.Name
			}
		}
		if callee != "" {
			m.reach(callee, seen)
		}
		return true
	})
}

// genesisEarlyExit: a place where a function on the ExportGenesis / InitGenesis path may stop going through a collection
// before its end: a walk callback (func literal returning (bool, error) or bool) that can answer "stop" without an error,
// or a `break` out of a loop.  The round trip of a prefix presupposes that export reads ALL of it and import writes ALL of it.
type genesisEarlyExit struct{ module, path, fn, detail string }

func (m *modFacts) earlyExits(root, path string) (out []genesisEarlyExit) {
	seen := map[string]bool{}
	m.reach(root, seen)
	var keys []string
	for k := range seen {
		keys = append(keys, k)
	}
	sort.Strings(keys)
	isIdent := func(e ast.Expr, name string) bool { id, ok := e.(*ast.Ident); return ok && id.Name == name }
	for _, k := range keys {
		fd := m.kp.funcs[k]
		add := func(pos token.Pos, d string) {
			out = append(out, genesisEarlyExit{m.mod, path, k, fmt.Sprintf("%s (line %d)", d, m.l.fset.Position(pos).Line)})
		}
		// walk callbacks
		ast.Inspect(fd.Body, func(n ast.Node) bool {
			fl, ok := n.(*ast.FuncLit)
			if !ok || fl.Type.Results == nil {
				return true
			}
			var res []ast.Expr
			for _, f := range fl.Type.Results.List {
				cnt := len(f.Names)
				if cnt == 0 {
					cnt = 1
				}
				for i := 0; i < cnt; i++ {
					res = append(res, f.Type)
				}
			}
			if len(res) == 0 || !isIdent(res[0], "bool") || len(res) > 2 {
				return true
			}
			ast.Inspect(fl.Body, func(q ast.Node) bool {
				if _, ok := q.(*ast.FuncLit); ok {
					return false
				}
				rs, ok := q.(*ast.ReturnStmt)
				if !ok {
					return true
				}
				if len(rs.Results) == 0 {
					add(rs.Pos(), "walk callback with a bare return")
					return true
				}
				stop := rs.Results[0]
				withErr := len(rs.Results) == 2 && !isIdent(rs.Results[1], "nil")
				if !isIdent(stop, "false") && !withErr {
					add(rs.Pos(), "walk callback may stop without an error: return "+exprText(m.l.fset, stop))
				}
				return true
			})
			return true
		})
		// break out of a loop
		var walk func(n ast.Node, inLoop bool)
		walk = func(n ast.Node, inLoop bool) {
			ast.Inspect(n, func(q ast.Node) bool {
				switch x := q.(type) {
				case *ast.FuncLit:
					walk(x.Body, false)
					return false
				case *ast.ForStmt:
					walk(x.Body, true)
					return false
				case *ast.RangeStmt:
					walk(x.Body, true)
					return false
				case *ast.SwitchStmt:
					walk(x.Body, false)
					return false
				case *ast.TypeSwitchStmt:
					walk(x.Body, false)
					return false
				case *ast.SelectStmt:
					walk(x.Body, false)
					return false
				case *ast.BranchStmt:
					if x.Tok == token.BREAK && (inLoop || x.Label != nil) {
						add(x.Pos(), "break out of a loop")
					}
				}
				return true
			})
		}
		walk(fd.Body, false)
		// a loop iteration skipped with `continue` (an element of a collection that is not exported / not imported)
		var walkC func(n ast.Node, inLoop bool)
		walkC = func(n ast.Node, inLoop bool) {
			ast.Inspect(n, func(q ast.Node) bool {
				switch x := q.(type) {
				case *ast.FuncLit:
					walkC(x.Body, false)
					return false
				case *ast.ForStmt:
					walkC(x.Body, true)
					return false
				case *ast.RangeStmt:
					walkC(x.Body, true)
					return false
				case *ast.BranchStmt:
					if x.Tok == token.CONTINUE && inLoop {
						add(x.Pos(), "loop iteration skipped with continue")
					}
				}
				return true
			})
		}
		walkC(fd.Body, false)
		// a successful return of the function itself before its last statement (the collections after it are left out)
		if fd.Body != nil && len(fd.Body.List) > 0 && fd.Type.Results != nil {
			last := fd.Body.List[len(fd.Body.List)-1]
			ast.Inspect(fd.Body, func(q ast.Node) bool {
				if _, ok := q.(*ast.FuncLit); ok {
					return false
				}
				rs, ok := q.(*ast.ReturnStmt)
				if !ok || rs == last || len(rs.Results) == 0 {
					return true
				}
				if isIdent(rs.Results[len(rs.Results)-1], "nil") {
					add(rs.Pos(), "successful return before the end of the function")
				}
				return true
			})
		}
	}
	return
}

func exprText(fset *token.FileSet, e ast.Expr) string {
	var b bytes.Buffer
	_ = printer.Fprint(&b, fset, e)
	return b.String()
}

var genesisExits []genesisEarlyExit

func scanGenesis(l *factsLoader) (rows []prefixRow, bad int) {
	genesisExits = nil
	for _, mod := range customModules {
		m := &modFacts{l: l, mod: mod, kp: l.load("x/" + mod + "/keeper"), tp: l.load("x/" + mod + "/types"), fields: map[string]bool{},
			rawKey: map[string]string{}, memo: map[string]map[string]touch{}, onStack: map[string]bool{}}
		bad += m.collect()
		ini := m.touches("Keeper.InitGenesis")
		exp := m.touches("Keeper.ExportGenesis")
		if _, ok := m.kp.funcs["Keeper.InitGenesis"]; !ok {
			fmt.Fprintf(os.Stderr, "svx facts: %s: InitGenesis not found\n", mod)
			bad++
		}
		if _, ok := m.kp.funcs["Keeper.ExportGenesis"]; !ok {
			fmt.Fprintf(os.Stderr, "svx facts: %s: ExportGenesis not found\n", mod)
			bad++
		}
		for i := range m.rows {
			r := &m.rows[i]
			key := r.name
			if r.kind == "index" {
				key = r.parent // an index is rebuilt by writes to its primary map and never exported itself
			}
			r.initWrites = ini[key].w
			r.exportReads = exp[key].r
		}
		rows = append(rows, m.rows...)
		genesisExits = append(genesisExits, m.earlyExits("Keeper.ExportGenesis", "export")...)
		genesisExits = append(genesisExits, m.earlyExits("Keeper.InitGenesis", "init")...)
	}
	return
}

// ---------------------------------------------------------------------------------------------- module order lists

func scanOrders(l *factsLoader) (map[string][]string, int) {
	out := map[string][]string{}
	p := l.load("app")
	f, ok := p.files["app_config.go"]
	if !ok {
		return out, 1
	}
	want := map[string]bool{"PreBlockers": true, "BeginBlockers": true, "EndBlockers": true, "InitGenesis": true, "ExportGenesis": true}
	ast.Inspect(f, func(n ast.Node) bool {
		kv, ok := n.(*ast.KeyValueExpr)
		if !ok {
			return true
		}
		k, ok := kv.Key.(*ast.Ident)
		if !ok || !want[k.Name] {
			return true
		}
		var lit *ast.CompositeLit
		switch v := kv.Value.(type) {
		case *ast.CompositeLit:
			lit = v
		case *ast.Ident: // a package-level slice variable (genesisModuleOrder)
			if t, ok := p.vars[v.Name]; ok && t.lazy != nil {
				lit, _ = t.lazy.(*ast.CompositeLit)
			}
		}
		if lit == nil {
			return true
		}
		var names []string
		for _, e := range lit.Elts {
			names = append(names, moduleNameOf(l, p, f, e))
		}
		out[k.Name] = names
		return true
	})
	bad := 0
	for k := range want {
		if k != "ExportGenesis" && len(out[k]) == 0 {
			fmt.Fprintf(os.Stderr, "svx facts: app_config.go: %s list not found\n", k)
			bad++
		}
	}
	return out, bad
}

func moduleNameOf(l *factsLoader, p *pkgInfo, f *ast.File, e ast.Expr) string {
	switch x := e.(type) {
	case *ast.BasicLit:
		s, _ := strconv.Unquote(x.Value)
		return s
	case *ast.SelectorExpr:
		if id, ok := x.X.(*ast.Ident); ok {
			if dir := l.importDir(f, id.Name); dir != "" {
				if s, ok := l.load(dir).consts[x.Sel.Name]; ok {
					return s
				}
			}
			path := l.importPath(f, id.Name)
			return path + "." + x.Sel.Name
		}
	case *ast.Ident:
		if s, ok := p.consts[x.Name]; ok {
			return s
		}
	}
	return exprStr(e)
}

// ---------------------------------------------------------------------------------------------- emit

func emitCoreFacts(repo, outDir string) int {
	l := &factsLoader{repo: repo, fset: token.NewFileSet(), pkgs: map[string]*pkgInfo{}, usedForeign: map[string]bool{}}
	dirs := consensusDirs(repo)
	for _, d := range dirs { // load everything first so that name-based lookups see all repository packages
		l.load(d)
	}
	sites, cons, nRange := scanDeterminism(l, dirs)
	rows, bad := scanGenesis(l)
	orders, bad2 := scanOrders(l)
	bad += bad2

	var b strings.Builder
	b.WriteString("-- GENERATED by svx (facts.go) from the working tree of the repository. Do not edit.\n")
	b.WriteString("namespace Sunrise.Gen.Facts\n\n")
	b.WriteString("/-- A `range` statement over a map-typed (kind = \"map\") or not syntactically classifiable (kind = \"unknown\") expression\n")
	b.WriteString("in a consensus package. `hash` = SHA-256/64 of the normalised loop, `useHash` = hash of every statement of the enclosing\n")
	b.WriteString("function outside the loop that mentions a variable written by the loop. -/\n")
	b.WriteString("structure MapRangeSite where\n  file : String\n  fn : String\n  hash : String\n  useHash : String\n  expr : String\n  kind : String\n  writes : List String\n  calls : List String\n  deriving DecidableEq, Repr\n\n")
	fmt.Fprintf(&b, "def consensusDirs : List String := %s\n\n", leanStrList(dirs))
	fmt.Fprintf(&b, "def rangeStatementsScanned : Nat := %d\n\n", nRange)
	b.WriteString("def mapRangeSites : List MapRangeSite := [\n")
	for i, s := range sites {
		sep := ","
		if i == len(sites)-1 {
			sep = ""
		}
		fmt.Fprintf(&b, "  { file := %s, fn := %s, hash := %s, useHash := %s, expr := %s, kind := %s,\n    writes := %s, calls := %s }%s\n",
			leanStr(s.file), leanStr(s.fn), leanStr(s.hash), leanStr(s.useHash), leanStr(s.expr), leanStr(s.kind), leanStrList(s.writes), leanStrList(s.calls), sep)
		fmt.Printf("fact map-range %s:%d %s %s kind=%s hash=%s use=%s\n", s.file, s.line, s.fn, s.expr, s.kind, s.hash, s.useHash)
		if os.Getenv("SVX_VERBOSE") != "" {
			for _, u := range s.uses {
				fmt.Printf("    use: %s\n", u)
			}
		}
	}
	b.WriteString("]\n\n")
	b.WriteString("/-- Uses of wall-clock time, randomness, goroutines, select, floats, unsafe, pointer formatting, sync in consensus packages. -/\n")
	b.WriteString("structure Construct where\n  kind : String\n  file : String\n  fn : String\n  detail : String\n  deriving DecidableEq, Repr\n\n")
	b.WriteString("def forbiddenConstructs : List Construct := [\n")
	for i, c := range cons {
		sep := ","
		if i == len(cons)-1 {
			sep = ""
		}
		fmt.Fprintf(&b, "  { kind := %s, file := %s, fn := %s, detail := %s }%s\n", leanStr(c.kind), leanStr(c.file), leanStr(c.fn), leanStr(c.detail), sep)
		fmt.Printf("fact construct %s %s %s %s\n", c.kind, c.file, c.fn, c.detail)
	}
	b.WriteString("]\n\n")
	b.WriteString("/-- One store prefix of a custom module. kind: coll (collections item/map/sequence declared in keeper.go), index (index of an\n")
	b.WriteString("IndexedMap; `parent` = its primary map; rebuilt by writes to the parent), raw (raw KV prefix constant of types/keys.go).\n")
	b.WriteString("initWrites / exportReads: InitGenesis (resp. ExportGenesis) reaches a write (resp. read) of it through keeper-package calls. -/\n")
	b.WriteString("structure PrefixRow where\n  module : String\n  name : String\n  pfx : String\n  kind : String\n  parent : String\n  initWrites : Bool\n  exportReads : Bool\n  deriving DecidableEq, Repr\n\n")
	b.WriteString("def prefixTable : List PrefixRow := [\n")
	for i, r := range rows {
		sep := ","
		if i == len(rows)-1 {
			sep = ""
		}
		fmt.Fprintf(&b, "  { module := %s, name := %s, pfx := %s, kind := %s, parent := %s, initWrites := %v, exportReads := %v }%s\n",
			leanStr(r.module), leanStr(r.name), leanStr(r.prefix), leanStr(r.kind), leanStr(r.parent), r.initWrites, r.exportReads, sep)
		fmt.Printf("fact prefix %s %s %q kind=%s init=%v export=%v\n", r.module, r.name, r.prefix, r.kind, r.initWrites, r.exportReads)
	}
	b.WriteString("]\n\n")
	b.WriteString("/-- Places on the ExportGenesis (`path` = export) / InitGenesis (init) call paths of a custom module where the walk over a\n")
	b.WriteString("collection may end before the collection does (a walk callback answering stop without an error, a break out of a loop). -/\n")
	b.WriteString("structure GenesisEarlyExit where\n  module : String\n  path : String\n  fn : String\n  detail : String\n  deriving DecidableEq, Repr\n\n")
	b.WriteString("def genesisEarlyExits : List GenesisEarlyExit := [\n")
	for i, x := range genesisExits {
		sep := ","
		if i == len(genesisExits)-1 {
			sep = ""
		}
		fmt.Fprintf(&b, "  { module := %s, path := %s, fn := %s, detail := %s }%s\n", leanStr(x.module), leanStr(x.path), leanStr(x.fn), leanStr(x.detail), sep)
		fmt.Printf("fact genesis-early-exit %s %s %s %s\n", x.module, x.path, x.fn, x.detail)
	}
	b.WriteString("]\n\n")
	var fa []string
	for k := range l.usedForeign {
		fa = append(fa, k)
	}
	sort.Strings(fa)
	fmt.Fprintf(&b, "/-- Members of types declared outside the repository that the extractor ASSUMED to be slices (read from the pinned sources). -/\ndef foreignSliceAssumptions : List String := %s\n\n", leanStrList(fa))
	fmt.Fprintf(&b, "def customModules : List String := %s\n\n", leanStrList(customModules))
	for _, k := range []string{"PreBlockers", "BeginBlockers", "EndBlockers", "InitGenesis", "ExportGenesis"} {
		fmt.Fprintf(&b, "def order%s : List String := %s\n\n", k, leanStrList(orders[k]))
	}
	b.WriteString("end Sunrise.Gen.Facts\n")
	writeIfChanged(filepath.Join(outDir, "Facts.lean"), b.String())
	return bad
}
// emitFacts: structural facts and kernels that need more than the shared target kinds. Each emitter is
// independent and returns the number of targets that left the supported subset.
func init() { factEmitters = append(factEmitters, emitGovFeeExtra, emitFactsBan) }
