package main

// svx: extractor + translator.  Reads /repo's working tree (go/parser only, nothing is built) and
// rewrites /verif/lean/SunriseVerif/Gen/*.lean.  Usage: svx -repo /repo -out /verif/lean/SunriseVerif/Gen

import (
	"crypto/sha256"
	"encoding/hex"
	"flag"
	"fmt"
	"go/ast"
	"go/parser"
	"go/printer"
	"go/token"
	"os"
	"path/filepath"
	"strings"
)

type field struct {
	path string
	t    ty
}

type target struct {
	kind   string // func | expr | const | cond
	file   string
	recv   string // receiver type name for methods ("" for plain functions)
	name   string // Go function name (func/expr) or var name (const)
	lhs    string // expr: the assigned variable
	nth    int    // expr: which occurrence (0-based)
	lean   string
	fields []field // receiver fields (func) or free variables (expr), in Lean parameter order
}

type genFile struct {
	name    string
	imports []string
	targets []target
}

var fset = token.NewFileSet()
var parsed = map[string]*ast.File{}

func parse(repo, rel string) *ast.File {
	if f, ok := parsed[rel]; ok {
		return f
	}
	f, err := parser.ParseFile(fset, filepath.Join(repo, rel), nil, parser.ParseComments)
	if err != nil {
		fmt.Fprintf(os.Stderr, "svx: parse %s: %v\n", rel, err)
		os.Exit(2)
	}
	parsed[rel] = f
	return f
}

func recvTypeName(fd *ast.FuncDecl) (string, string) {
	if fd.Recv == nil || len(fd.Recv.List) == 0 {
		return "", ""
	}
	r := fd.Recv.List[0]
	t := r.Type
	if s, ok := t.(*ast.StarExpr); ok {
		t = s.X
	}
	name := ""
	if len(r.Names) > 0 {
		name = r.Names[0].Name
	}
	if id, ok := t.(*ast.Ident); ok {
		return id.Name, name
	}
	return "", name
}

func findFunc(f *ast.File, recv, name string) *ast.FuncDecl {
	for _, d := range f.Decls {
		fd, ok := d.(*ast.FuncDecl)
		if !ok || fd.Name.Name != name {
			continue
		}
		rt, _ := recvTypeName(fd)
		if rt == recv {
			return fd
		}
	}
	return nil
}

type emitted struct {
	text string
	err  error
}

func translateTarget(repo string, t target, funcs map[string]*fnSig, consts map[string]ty) (res emitted) {
	defer func() {
		if r := recover(); r != nil {
			if u, ok := r.(unsupported); ok {
				res = emitted{err: fmt.Errorf("%s (%s %s): %v", t.lean, t.file, t.name, u)}
				return
			}
			panic(r)
		}
	}()
	f := parse(repo, t.file)
	ev := &env{vars: map[string]ty{}, rename: map[string]string{}, funcs: funcs, consts: consts}
	switch t.kind {
	case "const":
		var val ast.Expr
		for _, d := range f.Decls {
			gd, ok := d.(*ast.GenDecl)
			if !ok {
				continue
			}
			for _, sp := range gd.Specs {
				vs, ok := sp.(*ast.ValueSpec)
				if !ok {
					continue
				}
				for i, n := range vs.Names {
					if n.Name == t.name && i < len(vs.Values) {
						val = vs.Values[i]
					}
				}
			}
		}
		if val == nil {
			bad("const %s not found", t.name)
		}
		v := ev.expr(val)
		if len(v.panics)+len(v.errs) > 0 {
			bad("guarded constant")
		}
		consts[t.name] = v.t
		txt := fmt.Sprintf("def %s : %s := %s\n", t.lean, leanType(v.t), v.lean)
		if len(v.rngs) > 0 {
			// the initialiser performs range-asserting operations (a failure would panic at package init)
			txt += fmt.Sprintf("def %s_rng : Bool := %s\n", t.lean, conj(v.rngs, "true"))
		}
		return emitted{text: txt}
	case "func":
		fd := findFunc(f, t.recv, t.name)
		if fd == nil || fd.Body == nil {
			bad("function %s.%s not found", t.recv, t.name)
		}
		_, rname := recvTypeName(fd)
		params := []string{}
		sig := &fnSig{lean: t.lean}
		for _, fl := range t.fields {
			p := fl.path
			if rname != "" && !strings.Contains(p, ".") {
				p = rname + "." + p
			} else if rname != "" {
				// normalise configured "s.x" to the actual receiver name
				p = rname + "." + p[strings.Index(p, ".")+1:]
			}
			ev.vars[p] = fl.t
			lp := "s_" + p[strings.Index(p, ".")+1:]
			ev.rename[p] = lp
			params = append(params, fmt.Sprintf("(%s : %s)", lp, leanType(fl.t)))
			sig.extra = append(sig.extra, "s."+p[strings.Index(p, ".")+1:])
		}
		for _, p := range fd.Type.Params.List {
			ts := exprStr(p.Type)
			if ts == "context.Context" || ts == "sdk.Context" {
				continue
			}
			pt := ev.goType(p.Type)
			for _, n := range p.Names {
				ev.vars[n.Name] = pt
				params = append(params, fmt.Sprintf("(%s : %s)", leanIdent(n.Name), leanType(pt)))
				sig.params = append(sig.params, pt)
			}
		}
		if fd.Type.Results != nil {
			for _, r := range fd.Type.Results.List {
				rt := ev.goType(r.Type)
				cnt := len(r.Names)
				if cnt == 0 {
					cnt = 1
				}
				for i := 0; i < cnt; i++ {
					if rt == tErr {
						ev.hasErr = true
					} else {
						ev.results = append(ev.results, rt)
						if len(r.Names) > 0 {
							ev.named = append(ev.named, r.Names[i].Name)
							ev.vars[r.Names[i].Name] = rt
						}
					}
				}
			}
		}
		sig.res = ev.results
		sig.hasErr = ev.hasErr
		// named results start at their zero value
		pre := ""
		for i, n := range ev.named {
			z := map[ty]string{tDec: "Dec.zero", tInt: "(0 : Int)", tBool: "false", tD34: "D34.zero"}[ev.results[i]]
			pre += fmt.Sprintf("let %s := %s\n", leanIdent(n), z)
		}
		// a callee used inside other receivers' methods refers to fields as "s.<field>"
		o := ev.block(fd.Body.List)
		ps := strings.Join(params, " ")
		var b strings.Builder
		fmt.Fprintf(&b, "def %s %s : %s :=\n%s\n\n", t.lean, ps, tupleType(ev.results), indent(pre+o.val))
		fmt.Fprintf(&b, "def %s_ok %s : Bool :=\n%s\n\n", t.lean, ps, indent(pre+o.ok))
		if ev.hasErr {
			fmt.Fprintf(&b, "def %s_err %s : Bool :=\n%s\n\n", t.lean, ps, indent(pre+o.err))
		}
		// range guard: false exactly when one of the library's range assertions fires on an intermediate result of the path taken
		fmt.Fprintf(&b, "def %s_rng %s : Bool :=\n%s\n\n", t.lean, ps, indent(pre+o.rng))
		funcs[t.name] = sig
		if t.recv != "" {
			funcs[t.recv+"."+t.name] = sig
		}
		return emitted{text: b.String()}
	case "expr":
		var body ast.Node
		for _, d := range f.Decls {
			if fd, ok := d.(*ast.FuncDecl); ok && fd.Name.Name == t.name {
				rt, _ := recvTypeName(fd)
				if t.recv == "" || rt == t.recv {
					body = fd
				}
			}
		}
		if body == nil {
			bad("function %s not found", t.name)
		}
		var rhs ast.Expr
		count := 0
		ast.Inspect(body, func(n ast.Node) bool {
			as, ok := n.(*ast.AssignStmt)
			if !ok || rhs != nil {
				return true
			}
			for i, l := range as.Lhs {
				if p, ok := selPath(l); ok && p == t.lhs && len(as.Rhs) == len(as.Lhs) {
					if count == t.nth {
						rhs = as.Rhs[i]
					}
					count++
				}
			}
			return true
		})
		if rhs == nil {
			bad("assignment to %s in %s not found", t.lhs, t.name)
		}
		params := []string{}
		for _, fl := range t.fields {
			ev.vars[fl.path] = fl.t
			params = append(params, fmt.Sprintf("(%s : %s)", leanIdent(fl.path), leanType(fl.t)))
		}
		v := ev.expr(rhs)
		if v.t == "tuple" {
			bad("tuple expr")
		}
		ps := strings.Join(params, " ")
		var b strings.Builder
		fmt.Fprintf(&b, "def %s %s : %s :=\n  %s\n\n", t.lean, ps, leanType(v.t), v.lean)
		fmt.Fprintf(&b, "def %s_ok %s : Bool :=\n  %s\n\n", t.lean, ps, conj(v.panics, "true"))
		fmt.Fprintf(&b, "def %s_rng %s : Bool :=\n  %s\n\n", t.lean, ps, conj(v.rngs, "true"))
		return emitted{text: b.String()}
	case "cond":
		// the nth `if` condition of the function (source order), not counting `err != nil` checks
		var fn *ast.FuncDecl
		for _, d := range f.Decls {
			if fd, ok := d.(*ast.FuncDecl); ok && fd.Name.Name == t.name {
				rt, _ := recvTypeName(fd)
				if t.recv == "" || rt == t.recv {
					fn = fd
				}
			}
		}
		if fn == nil {
			bad("function %s not found", t.name)
		}
		var cond ast.Expr
		count := 0
		ast.Inspect(fn, func(n ast.Node) bool {
			is, ok := n.(*ast.IfStmt)
			if !ok || cond != nil {
				return true
			}
			if isErrNotNil(is.Cond) {
				return true
			}
			if count == t.nth {
				cond = is.Cond
			}
			count++
			return true
		})
		if cond == nil {
			bad("condition %d in %s not found", t.nth, t.name)
		}
		params := []string{}
		for _, fl := range t.fields {
			ev.vars[fl.path] = fl.t
			params = append(params, fmt.Sprintf("(%s : %s)", leanIdent(fl.path), leanType(fl.t)))
		}
		v := ev.expr(cond)
		if v.t != tBool {
			bad("condition of type %s", v.t)
		}
		ps := strings.Join(params, " ")
		var b strings.Builder
		fmt.Fprintf(&b, "def %s %s : Bool :=\n  %s\n\n", t.lean, ps, v.lean)
		fmt.Fprintf(&b, "def %s_ok %s : Bool :=\n  %s\n\n", t.lean, ps, conj(v.panics, "true"))
		fmt.Fprintf(&b, "def %s_rng %s : Bool :=\n  %s\n\n", t.lean, ps, conj(v.rngs, "true"))
		return emitted{text: b.String()}
	case "kv", "arg":
		// additive (ties).  kv: the value written for key `lhs` in the nth composite literal of the function that has such a
		// key (`EndBlock: ctx.BlockHeight() + params.EpochBlocks`).  arg: the nth argument of the first call of `lhs`
		// (a selector path such as `k.GetSpecificStatusDataBeforeTime`) in the function.
		var fn *ast.FuncDecl
		for _, d := range f.Decls {
			if fd, ok := d.(*ast.FuncDecl); ok && fd.Name.Name == t.name {
				rt, _ := recvTypeName(fd)
				if t.recv == "" || rt == t.recv {
					fn = fd
				}
			}
		}
		if fn == nil {
			bad("function %s not found", t.name)
		}
		var val ast.Expr
		count := 0
		ast.Inspect(fn, func(n ast.Node) bool {
			if val != nil {
				return false
			}
			switch x := n.(type) {
			case *ast.KeyValueExpr:
				if id, ok := x.Key.(*ast.Ident); ok && t.kind == "kv" && id.Name == t.lhs {
					if count == t.nth {
						val = x.Value
					}
					count++
				}
			case *ast.CallExpr:
				if p, ok := selPath(x.Fun); ok && t.kind == "arg" && p == t.lhs && len(x.Args) > t.nth {
					val = x.Args[t.nth]
				}
			}
			return true
		})
		if val == nil {
			bad("%s %s in %s not found", t.kind, t.lhs, t.name)
		}
		params := []string{}
		for _, fl := range t.fields {
			ev.vars[fl.path] = fl.t
			params = append(params, fmt.Sprintf("(%s : %s)", leanIdent(fl.path), leanType(fl.t)))
		}
		v := ev.expr(val)
		if v.t == "tuple" {
			bad("tuple expr")
		}
		ps := strings.Join(params, " ")
		var b strings.Builder
		fmt.Fprintf(&b, "def %s %s : %s :=\n  %s\n\n", t.lean, ps, leanType(v.t), v.lean)
		fmt.Fprintf(&b, "def %s_ok %s : Bool :=\n  %s\n\n", t.lean, ps, conj(v.panics, "true"))
		return emitted{text: b.String()}
	case "rejects":
		// the disjunction of every `if` condition of the function (source order, without the `err != nil` ones) that mentions
		// the ONE field of the target.  A Dec field `p.X` stands for the local variable parsed from it
		// (`v, err := math.LegacyNewDecFromStr(p.X)`); an Int field is used as it is written.
		fn := findFunc(f, t.recv, t.name)
		if fn == nil || len(t.fields) != 1 {
			bad("function %s not found / one field expected", t.name)
		}
		fl := t.fields[0]
		name := fl.path
		if fl.t == tDec {
			name = ""
			ast.Inspect(fn, func(n ast.Node) bool {
				as, ok := n.(*ast.AssignStmt)
				if !ok || len(as.Rhs) != 1 || len(as.Lhs) != 2 {
					return true
				}
				call, ok := as.Rhs[0].(*ast.CallExpr)
				if !ok || len(call.Args) != 1 || !strings.HasSuffix(exprText(token.NewFileSet(), call.Fun), "LegacyNewDecFromStr") || exprText(token.NewFileSet(), call.Args[0]) != fl.path {
					return true
				}
				if id, ok := as.Lhs[0].(*ast.Ident); ok {
					name = id.Name
				}
				return true
			})
			if name == "" {
				bad("no variable parsed from %s", fl.path)
			}
		}
		mentions := func(e ast.Expr) bool {
			hit := false
			ast.Inspect(e, func(n ast.Node) bool {
				if x, ok := n.(ast.Expr); ok && exprText(token.NewFileSet(), x) == name {
					hit = true
				}
				return !hit
			})
			return hit
		}
		ev.vars[name] = fl.t
		var parts, oks, rngs []string
		// only statements of the function body itself count (a check nested under another condition is not unconditional),
		// and only those whose branch ends in `return <something other than nil>`
		for _, st := range fn.Body.List {
			is, ok := st.(*ast.IfStmt)
			if !ok || isErrNotNil(is.Cond) || !mentions(is.Cond) {
				continue
			}
			rejecting := false
			if n := len(is.Body.List); n > 0 && is.Else == nil {
				if rs, ok := is.Body.List[n-1].(*ast.ReturnStmt); ok && len(rs.Results) == 1 {
					if id, ok := rs.Results[0].(*ast.Ident); !ok || id.Name != "nil" {
						rejecting = true
					}
				}
			}
			if !rejecting {
				bad("the branch of `if %s` does not end in returning an error", exprText(token.NewFileSet(), is.Cond))
			}
			v := ev.expr(is.Cond)
			if v.t != tBool {
				bad("condition of type %s", v.t)
			}
			parts = append(parts, v.lean)
			oks = append(oks, v.panics...)
			rngs = append(rngs, v.rngs...)
		}
		if len(parts) == 0 {
			bad("no condition mentions %s", name)
		}
		ps := fmt.Sprintf("(%s : %s)", leanIdent(name), leanType(fl.t))
		var b strings.Builder
		fmt.Fprintf(&b, "def %s %s : Bool :=\n  %s\n\n", t.lean, ps, strings.Join(parts, " ||\n  "))
		fmt.Fprintf(&b, "def %s_ok %s : Bool :=\n  %s\n\n", t.lean, ps, conj(oks, "true"))
		fmt.Fprintf(&b, "def %s_rng %s : Bool :=\n  %s\n\n", t.lean, ps, conj(rngs, "true"))
		return emitted{text: b.String()}
	}
	bad("kind %s", t.kind)
	return
}

// normalised source of a function body (comments stripped by printing the AST without them)
func bodyHash(fd *ast.FuncDecl) string {
	var sb strings.Builder
	cfg := printer.Config{Mode: printer.RawFormat}
	_ = cfg.Fprint(&sb, token.NewFileSet(), fd)
	h := sha256.Sum256([]byte(strings.Join(strings.Fields(sb.String()), " ")))
	return hex.EncodeToString(h[:8])
}

func writeIfChanged(path, content string) {
	old, err := os.ReadFile(path)
	if err == nil && string(old) == content {
		return
	}
	if err := os.WriteFile(path, []byte(content), 0o644); err != nil {
		fmt.Fprintf(os.Stderr, "svx: %v\n", err)
		os.Exit(2)
	}
}

func main() {
	repo := flag.String("repo", "/repo", "repository root")
	outDir := flag.String("out", "/verif/lean/SunriseVerif/Gen", "output directory")
	listConds := flag.String("listconds", "", "development aid: FILE:FUNC — print the numbered `if` conditions of FUNC as `cond` targets count them")
	flag.Parse()
	if *listConds != "" {
		parts := strings.SplitN(*listConds, ":", 2)
		f := parse(*repo, parts[0])
		for _, d := range f.Decls {
			if fd, ok := d.(*ast.FuncDecl); ok && fd.Name.Name == parts[1] {
				i := 0
				ast.Inspect(fd, func(n ast.Node) bool {
					if is, ok := n.(*ast.IfStmt); ok && !isErrNotNil(is.Cond) {
						fmt.Printf("%d\t%s\t%s\n", i, fset.Position(is.Pos()), exprStr(is.Cond))
						i++
					}
					return true
				})
			}
		}
		return
	}
	_ = os.MkdirAll(*outDir, 0o755)
	failed := 0
	for _, g := range genFiles() {
		funcs := map[string]*fnSig{}
		consts := map[string]ty{}
		var b strings.Builder
		fmt.Fprintf(&b, "-- GENERATED by svx from the working tree of /repo. Do not edit.\n")
		for _, im := range g.imports {
			fmt.Fprintf(&b, "import %s\n", im)
		}
		fmt.Fprintf(&b, "namespace Sunrise.Gen.%s\nopen Sunrise\n\n", g.name)
		status := []string{}
		for _, t := range g.targets {
			e := translateTarget(*repo, t, funcs, consts)
			if e.err != nil {
				failed++
				fmt.Fprintf(os.Stderr, "svx: UNSUPPORTED %v\n", e.err)
				fmt.Printf("unsupported %s %s\n", g.name, t.lean)
				status = append(status, fmt.Sprintf("-- UNSUPPORTED %s: %v", t.lean, strings.ReplaceAll(e.err.Error(), "\n", " ")))
				continue
			}
			fmt.Fprintf(&b, "-- %s %s %s\n%s", t.kind, t.file, t.name, e.text)
			fmt.Printf("translated %s %s\n", g.name, t.lean)
		}
		for _, s := range status {
			fmt.Fprintln(&b, s)
		}
		fmt.Fprintf(&b, "\nend Sunrise.Gen.%s\n", g.name)
		writeIfChanged(filepath.Join(*outDir, g.name+".lean"), b.String())
	}
	factsFailed := emitFacts(*repo, *outDir)
	if failed+factsFailed > 0 {
		os.Exit(3)
	}
}
