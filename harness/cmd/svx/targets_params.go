package main

// Parameter guards: the rejecting conditions of the custom modules' Params.Validate, regenerated (Gen/KernelsParamsDA|LI|Swap|Fee.lean).
// Many theorems carry a hypothesis "the stored parameters are valid" (0 <= ratio <= 1, rate < 1, periods > 0 ...): these
// kernels are what the code checks before it stores parameters (MsgUpdateParams, InitGenesis), and
// Props/ParamGuards.lean proves that passing all of them is exactly the hand-written validity predicate of the models.
// `rejects` targets: the disjunction of all `if` conditions of the function that mention the parameter (see main.go).

const (
	daParamsGo   = "x/da/types/params.go"
	liParamsGo   = "x/liquidityincentive/types/params.go"
	swapParamsGo = "x/swap/types/params.go"
	feeParamsGo  = "x/fee/types/params.go"
)

func init() {
	v := func(file, lean, path string, t ty) target {
		return target{kind: "rejects", file: file, recv: "Params", name: "Validate", lean: lean, fields: []field{{path, t}}}
	}
	reg := func(name string, ts ...target) {
		registerGen(genFile{name: name, imports: []string{"SunriseVerif.Model.Dec"}, targets: ts})
	}
	reg("KernelsParamsDA",
		v(daParamsGo, "da_thrRejected", "p.ChallengeThreshold", tDec),
		v(daParamsGo, "da_rfRejected", "p.ReplicationFactor", tDec),
		v(daParamsGo, "da_epochRejected", "p.SlashEpoch", tInt),
		v(daParamsGo, "da_sftRejected", "p.SlashFaultThreshold", tDec),
		v(daParamsGo, "da_fracRejected", "p.SlashFraction", tDec),
		v(daParamsGo, "da_cpRejected", "p.ChallengePeriod", tInt),
		v(daParamsGo, "da_ppRejected", "p.ProofPeriod", tInt),
		v(daParamsGo, "da_rrpRejected", "p.RejectedRemovalPeriod", tInt),
		v(daParamsGo, "da_vrpRejected", "p.VerifiedRemovalPeriod", tInt))
	reg("KernelsParamsLI",
		v(liParamsGo, "li_epochBlocksRejected", "p.EpochBlocks", tInt),
		v(liParamsGo, "li_ratioRejected", "p.StakingRewardRatio", tDec))
	reg("KernelsParamsSwap", v(swapParamsGo, "swap_rateRejected", "p.InterfaceFeeRate", tDec))
	reg("KernelsParamsFee", v(feeParamsGo, "fee_burnRejected", "p.BurnRatio", tDec))
}
