package main

// Ties (DA): guards, deadlines and split arithmetic of x/da/keeper/{abci,keeper_threshold,keeper_slash}.go and the two
// message deadlines, regenerated (Gen/KernelsTieDA.lean) and proved equal to what Model/DA.lean uses (Props/TieDA.lean).
// The model keeps LegacyDec values as raw integers (×10^18) and times as nanoseconds.

const (
	daAbciGo  = "x/da/keeper/abci.go"
	daThrGo   = "x/da/keeper/keeper_threshold.go"
	daSlashGo = "x/da/keeper/keeper_slash.go"
	daInvGo   = "x/da/keeper/msg_server_submit_invalidity.go"
	daProofGo = "x/da/keeper/msg_server_submit_validity_proof.go"
	daStoreGo = "x/da/keeper/store_published_data.go"
)

func init() {
	cutoff := func(fn, lean string) target {
		return target{kind: "arg", file: daAbciGo, recv: "Keeper", name: fn, lhs: "k.GetSpecificStatusDataBeforeTime", nth: 2, lean: lean,
			fields: []field{{"ctx.BlockTime()", tTime}, {"duration", tInt}}}
	}
	nShards := field{"len(data.ShardDoubleHashes)", tInt}
	registerGen(genFile{
		name:    "KernelsTieDA",
		imports: []string{"SunriseVerif.Model.Dec", "SunriseVerif.Model.Time"},
		targets: []target{
			// EndBlocker: slash epoch test (a zero epoch is a division by zero)
			{kind: "cond", file: daAbciGo, recv: "Keeper", name: "EndBlocker", nth: 0, lean: "eb_slashEpochDue",
				fields: []field{{"sdkCtx.BlockHeight()", tInt}, {"params.SlashEpoch", tInt}}},
			// the four index cut-offs `ctx.BlockTime().Add(-duration).Unix()` and the walk's stop test
			cutoff("DeleteRejectedDataOvertime", "cutoff_rejected"),
			cutoff("DeleteVerifiedDataOvertime", "cutoff_verified"),
			cutoff("ChangeToVerifiedFromProofPeriod", "cutoff_toVerified"),
			cutoff("TallyValidityProofs", "cutoff_tally"),
			{kind: "cond", file: daStoreGo, recv: "Keeper", name: "GetSpecificStatusDataBeforeTime", nth: 0, lean: "scan_stop",
				fields: []field{{"key.K2()", tInt}, {"timestamp", tInt}}},
			// ChangeToChallengingFromChallengePeriod
			{kind: "expr", file: daAbciGo, recv: "Keeper", name: "ChangeToChallengingFromChallengePeriod", lhs: "invalidityThreshold", lean: "ch_invalidityThreshold",
				fields: []field{{"thresholdDec", tDec}, nShards}},
			{kind: "cond", file: daAbciGo, recv: "Keeper", name: "ChangeToChallengingFromChallengePeriod", nth: 2, lean: "ch_reached",
				fields: []field{{"len(invalidIndices)", tInt}, {"invalidityThreshold", tDec}}},
			// TallyValidityProofs
			{kind: "expr", file: daAbciGo, recv: "Keeper", name: "TallyValidityProofs", lhs: "replicationFactorWithParity", lean: "tally_rfWithParity",
				fields: []field{{"replicationFactorDec", tDec}, nShards, {"data.ParityShardCount", tInt}}},
			{kind: "cond", file: daAbciGo, recv: "Keeper", name: "TallyValidityProofs", nth: 5, lean: "tally_shardSafe",
				fields: []field{{"proofCount", tInt}, {"replicationFactorWithParity", tDec}}},
			{kind: "cond", file: daAbciGo, recv: "Keeper", name: "TallyValidityProofs", nth: 7, lean: "tally_rejected",
				fields: []field{{"len(safeShardIndices)", tInt}, {"data.ParityShardCount", tInt}, nShards}},
			{kind: "cond", file: daAbciGo, recv: "Keeper", name: "TallyValidityProofs", nth: 8, lean: "tally_noChallenger",
				fields: []field{{"len(invalidities)", tInt}}},
			{kind: "expr", file: daAbciGo, recv: "Keeper", name: "TallyValidityProofs", lhs: "dividedAmount", lean: "tally_dividedAmount",
				fields: []field{{"coin.Amount", tInt}, {"len(invalidities)", tInt}}},
			// GetZkpThreshold
			{kind: "cond", file: daThrGo, recv: "Keeper", name: "GetZkpThreshold", nth: 1, lean: "zkp_everyShard",
				fields: []field{{"replicationFactor", tDec}, {"numActiveValidators", tInt}}},
			{kind: "expr", file: daThrGo, recv: "Keeper", name: "GetZkpThreshold", lhs: "threshold", lean: "zkp_threshold",
				fields: []field{{"replicationFactor", tDec}, {"shardCount", tInt}, {"numActiveValidators", tInt}}},
			// HandleSlashEpoch
			{kind: "expr", file: daSlashGo, recv: "Keeper", name: "HandleSlashEpoch", lhs: "threshold", lean: "slash_threshold",
				fields: []field{{"slashFaultThreshold", tDec}, {"challengeCount", tInt}}},
			{kind: "cond", file: daSlashGo, recv: "Keeper", name: "HandleSlashEpoch", nth: 1, lean: "slash_spared",
				fields: []field{{"faultCount", tInt}, {"threshold", tInt}}},
			// message deadlines
			{kind: "cond", file: daInvGo, recv: "msgServer", name: "SubmitInvalidity", nth: 3, lean: "msg_challengePeriodOver",
				fields: []field{{"publishedData.Timestamp", tTime}, {"params.ChallengePeriod", tInt}, {"sdkCtx.BlockTime()", tTime}}},
			{kind: "cond", file: daProofGo, recv: "msgServer", name: "SubmitValidityProof", nth: 7, lean: "msg_proofPeriodOver",
				fields: []field{{"publishedData.Timestamp", tTime}, {"params.ProofPeriod", tInt}, {"sdkCtx.BlockTime()", tTime}}},
			{kind: "cond", file: daProofGo, recv: "msgServer", name: "SubmitValidityProof", nth: 8, lean: "msg_indexOutOfRange",
				fields: []field{{"j", tInt}, {"len(publishedData.ShardDoubleHashes)", tInt}}},
		},
	})
}
