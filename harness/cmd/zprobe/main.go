package main

import (
	"bufio"
	"fmt"
	"os"

	swaptypes "github.com/sunriselayer/sunrise/x/swap/types"
)

func try(memo string) (out string) {
	defer func() {
		if r := recover(); r != nil {
			out = fmt.Sprintf("PANIC %v", r)
		}
	}()
	m, err := swaptypes.DecodeSwapMetadata(memo)
	if err != nil {
		return "decode-err " + err.Error()
	}
	out = fmt.Sprintf("decoded swap=%v ", m.Swap != nil)
	func() {
		defer func() {
			if r := recover(); r != nil {
				out += fmt.Sprintf("validate PANIC %v", r)
			}
		}()
		md := *m.Swap
		if err := md.Validate(); err != nil {
			out += "validate-err " + err.Error()
		} else {
			out += fmt.Sprintf("validate-ok %+v", md)
		}
	}()
	return
}

func main() {
	sc := bufio.NewScanner(os.Stdin)
	sc.Buffer(make([]byte, 1<<20), 1<<26)
	for sc.Scan() {
		l := sc.Text()
		o := try(l)
		if len(o) > 300 { o = o[:300] }
		if len(l) > 120 { l = l[:120] }
		fmt.Printf("%s\n   => %s\n", l, o)
	}
}
