module svh

go 1.23.5

replace github.com/sunriselayer/sunrise => /repo

replace github.com/sunriselayer/sunrise/x/da/erasurecoding => /repo/x/da/erasurecoding

replace (
	github.com/cosmos/cosmos-sdk => github.com/cosmos/cosmos-sdk v0.52.0-rc.2.0.20250127135924-c9d68e4322bb
	github.com/cosmos/ibc-go/v9 => github.com/cosmos/ibc-go/v9 v9.0.0-20250124215514-f0469954dfc7
	github.com/gin-gonic/gin => github.com/gin-gonic/gin v1.9.1
	github.com/syndtr/goleveldb => github.com/syndtr/goleveldb v1.0.1-0.20210819022825-2ae1ddf74ef7
)

require (
	cosmossdk.io/collections v1.0.0
	cosmossdk.io/log v1.5.0
	cosmossdk.io/math v1.5.0
	cosmossdk.io/store v1.10.0-rc.1.0.20241218084712-ca559989da43
	cosmossdk.io/x/accounts v0.2.0-rc.1
	cosmossdk.io/x/authz v0.2.0-rc.1
	cosmossdk.io/x/bank v0.2.0-rc.1
	cosmossdk.io/x/distribution v0.2.0-rc.1
	cosmossdk.io/x/feegrant v0.2.0-rc.1
	cosmossdk.io/x/gov v0.2.0-rc.1
	cosmossdk.io/x/slashing v0.2.0-rc.1
	cosmossdk.io/x/staking v0.2.0-rc.1
	cosmossdk.io/x/tx v1.1.0
	github.com/cometbft/cometbft v1.0.0
	github.com/cometbft/cometbft/api v1.0.0
	github.com/consensys/gnark v0.12.0
	github.com/consensys/gnark-crypto v0.15.0
	github.com/cosmos/cosmos-db v1.1.1
	github.com/cosmos/cosmos-sdk v0.53.0
	github.com/cosmos/gogoproto v1.7.0
	github.com/cosmos/ibc-go/v9 v9.0.0-20241217101236-efca310eb993
	github.com/gogo/protobuf v1.3.2
	github.com/sunriselayer/sunrise v0.0.0-00010101000000-000000000000
	github.com/sunriselayer/sunrise/x/da/erasurecoding v0.0.0-00010101000000-000000000000
	google.golang.org/protobuf v1.36.4
)

require (
	buf.build/gen/go/cometbft/cometbft/protocolbuffers/go v1.36.4-20241120201313-68e42a58b301.1 // indirect
	buf.build/gen/go/cosmos/gogo-proto/protocolbuffers/go v1.36.4-20240130113600-88ef6483f90f.1 // indirect
	cloud.google.com/go v0.115.1 // indirect
	cloud.google.com/go/auth v0.8.1 // indirect
	cloud.google.com/go/auth/oauth2adapt v0.2.4 // indirect
	cloud.google.com/go/compute/metadata v0.5.2 // indirect
	cloud.google.com/go/iam v1.1.13 // indirect
	cloud.google.com/go/storage v1.43.0 // indirect
	cosmossdk.io/api v0.8.2 // indirect
	cosmossdk.io/client/v2 v2.10.0-beta.3 // indirect
	cosmossdk.io/core v1.0.0 // indirect
	cosmossdk.io/core/testing v0.0.1 // indirect
	cosmossdk.io/depinject v1.1.0 // indirect
	cosmossdk.io/errors v1.0.1 // indirect
	cosmossdk.io/errors/v2 v2.0.0 // indirect
	cosmossdk.io/schema v1.0.0 // indirect
	cosmossdk.io/x/accounts/defaults/base v0.2.0-rc.1 // indirect
	cosmossdk.io/x/accounts/defaults/lockup v0.2.0-rc.1 // indirect
	cosmossdk.io/x/accounts/defaults/multisig v0.2.0-rc.1 // indirect
	cosmossdk.io/x/circuit v0.2.0-rc.1 // indirect
	cosmossdk.io/x/consensus v0.2.0-rc.1 // indirect
	cosmossdk.io/x/epochs v0.2.0-rc.1 // indirect
	cosmossdk.io/x/evidence v0.2.0-rc.1 // indirect
	cosmossdk.io/x/group v0.2.0-rc.1 // indirect
	cosmossdk.io/x/mint v0.2.0-rc.1 // indirect
	cosmossdk.io/x/nft v0.2.0-rc.1 // indirect
	cosmossdk.io/x/params v0.2.0-rc.1 // indirect
	cosmossdk.io/x/protocolpool v0.2.0-rc.1 // indirect
	cosmossdk.io/x/upgrade v0.2.0-rc.1 // indirect
	filippo.io/edwards25519 v1.1.0 // indirect
	github.com/99designs/keyring v1.2.2 // indirect
	github.com/DataDog/datadog-go v4.8.3+incompatible // indirect
	github.com/DataDog/zstd v1.5.6 // indirect
	github.com/aws/aws-sdk-go v1.55.5 // indirect
	github.com/beorn7/perks v1.0.1 // indirect
	github.com/bgentry/go-netrc v0.0.0-20140422174119-9fd32a8b3d3d // indirect
	github.com/bgentry/speakeasy v0.2.0 // indirect
	github.com/bits-and-blooms/bitset v1.20.0 // indirect
	github.com/blang/semver/v4 v4.0.0 // indirect
	github.com/bytedance/sonic v1.12.6 // indirect
	github.com/bytedance/sonic/loader v0.2.1 // indirect
	github.com/cespare/xxhash/v2 v2.3.0 // indirect
	github.com/chzyer/readline v1.5.1 // indirect
	github.com/cloudwego/base64x v0.1.4 // indirect
	github.com/cloudwego/iasm v0.2.0 // indirect
	github.com/cockroachdb/apd/v3 v3.2.1 // indirect
	github.com/cockroachdb/errors v1.11.3 // indirect
	github.com/cockroachdb/fifo v0.0.0-20240816210425-c5d0cb0b6fc0 // indirect
	github.com/cockroachdb/logtags v0.0.0-20230118201751-21c54148d20b // indirect
	github.com/cockroachdb/pebble v1.1.2 // indirect
	github.com/cockroachdb/redact v1.1.5 // indirect
	github.com/cockroachdb/tokenbucket v0.0.0-20230807174530-cc333fc44b06 // indirect
	github.com/cometbft/cometbft-db v1.0.1 // indirect
	github.com/consensys/bavard v0.1.27 // indirect
	github.com/cosmos/btcutil v1.0.5 // indirect
	github.com/cosmos/cosmos-proto v1.0.0-beta.5 // indirect
	github.com/cosmos/go-bip39 v1.0.0 // indirect
	github.com/cosmos/gogogateway v1.2.0 // indirect
	github.com/cosmos/iavl v1.3.5 // indirect
	github.com/cosmos/ics23/go v0.11.0 // indirect
	github.com/davecgh/go-spew v1.1.2-0.20180830191138-d8f796af33cc // indirect
	github.com/decred/dcrd/dcrec/secp256k1/v4 v4.3.0 // indirect
	github.com/dvsekhvalnov/jose2go v1.7.0 // indirect
	github.com/emicklei/dot v1.6.2 // indirect
	github.com/fatih/color v1.18.0 // indirect
	github.com/felixge/httpsnoop v1.0.4 // indirect
	github.com/fsnotify/fsnotify v1.8.0 // indirect
	github.com/fxamacker/cbor/v2 v2.7.0 // indirect
	github.com/getsentry/sentry-go v0.29.0 // indirect
	github.com/go-kit/log v0.2.1 // indirect
	github.com/go-logfmt/logfmt v0.6.0 // indirect
	github.com/go-logr/logr v1.4.2 // indirect
	github.com/go-logr/stdr v1.2.2 // indirect
	github.com/godbus/dbus v0.0.0-20190726142602-4481cbc300e2 // indirect
	github.com/gogo/googleapis v1.4.1 // indirect
	github.com/golang/groupcache v0.0.0-20210331224755-41bb18bfe9da // indirect
	github.com/golang/protobuf v1.5.4 // indirect
	github.com/golang/snappy v0.0.4 // indirect
	github.com/google/btree v1.1.3 // indirect
	github.com/google/go-cmp v0.6.0 // indirect
	github.com/google/orderedcode v0.0.1 // indirect
	github.com/google/pprof v0.0.0-20240727154555-813a5fbdbec8 // indirect
	github.com/google/s2a-go v0.1.8 // indirect
	github.com/google/uuid v1.6.0 // indirect
	github.com/googleapis/enterprise-certificate-proxy v0.3.2 // indirect
	github.com/googleapis/gax-go/v2 v2.13.0 // indirect
	github.com/gorilla/handlers v1.5.2 // indirect
	github.com/gorilla/mux v1.8.1 // indirect
	github.com/gorilla/websocket v1.5.3 // indirect
	github.com/grpc-ecosystem/go-grpc-middleware v1.4.0 // indirect
	github.com/grpc-ecosystem/grpc-gateway v1.16.0 // indirect
	github.com/gsterjov/go-libsecret v0.0.0-20161001094733-a6f4afe4910c // indirect
	github.com/hashicorp/go-cleanhttp v0.5.2 // indirect
	github.com/hashicorp/go-getter v1.7.6 // indirect
	github.com/hashicorp/go-hclog v1.6.3 // indirect
	github.com/hashicorp/go-immutable-radix v1.3.1 // indirect
	github.com/hashicorp/go-metrics v0.5.4 // indirect
	github.com/hashicorp/go-plugin v1.6.2 // indirect
	github.com/hashicorp/go-safetemp v1.0.0 // indirect
	github.com/hashicorp/go-version v1.7.0 // indirect
	github.com/hashicorp/golang-lru v1.0.2 // indirect
	github.com/hashicorp/golang-lru/v2 v2.0.7 // indirect
	github.com/hashicorp/hcl v1.0.0 // indirect
	github.com/hashicorp/yamux v0.1.2 // indirect
	github.com/hdevalence/ed25519consensus v0.2.0 // indirect
	github.com/huandu/skiplist v1.2.1 // indirect
	github.com/iancoleman/strcase v0.3.0 // indirect
	github.com/jmespath/go-jmespath v0.4.0 // indirect
	github.com/klauspost/compress v1.17.11 // indirect
	github.com/klauspost/cpuid/v2 v2.2.9 // indirect
	github.com/klauspost/reedsolomon v1.12.3 // indirect
	github.com/kr/pretty v0.3.1 // indirect
	github.com/kr/text v0.2.0 // indirect
	github.com/lib/pq v1.10.9 // indirect
	github.com/magiconair/properties v1.8.9 // indirect
	github.com/manifoldco/promptui v0.9.0 // indirect
	github.com/mattn/go-colorable v0.1.13 // indirect
	github.com/mattn/go-isatty v0.0.20 // indirect
	github.com/minio/highwayhash v1.0.3 // indirect
	github.com/mitchellh/go-homedir v1.1.0 // indirect
	github.com/mitchellh/go-testing-interface v1.14.1 // indirect
	github.com/mitchellh/mapstructure v1.5.0 // indirect
	github.com/mmcloughlin/addchain v0.4.0 // indirect
	github.com/mtibben/percent v0.2.1 // indirect
	github.com/munnerz/goautoneg v0.0.0-20191010083416-a7dc8b61c822 // indirect
	github.com/oasisprotocol/curve25519-voi v0.0.0-20230904125328-1f23a7beb09a // indirect
	github.com/oklog/run v1.1.0 // indirect
	github.com/pelletier/go-toml/v2 v2.2.3 // indirect
	github.com/pkg/errors v0.9.1 // indirect
	github.com/pmezard/go-difflib v1.0.1-0.20181226105442-5d4384ee4fb2 // indirect
	github.com/prometheus/client_golang v1.20.5 // indirect
	github.com/prometheus/client_model v0.6.1 // indirect
	github.com/prometheus/common v0.62.0 // indirect
	github.com/prometheus/procfs v0.15.1 // indirect
	github.com/rcrowley/go-metrics v0.0.0-20201227073835-cf1acfcdf475 // indirect
	github.com/rogpeppe/go-internal v1.13.1 // indirect
	github.com/ronanh/intcomp v1.1.0 // indirect
	github.com/rs/cors v1.11.1 // indirect
	github.com/rs/zerolog v1.33.0 // indirect
	github.com/sagikazarmark/slog-shim v0.1.0 // indirect
	github.com/spf13/afero v1.11.0 // indirect
	github.com/spf13/cast v1.7.1 // indirect
	github.com/spf13/cobra v1.8.1 // indirect
	github.com/spf13/pflag v1.0.5 // indirect
	github.com/spf13/viper v1.19.0 // indirect
	github.com/stretchr/testify v1.10.0 // indirect
	github.com/subosito/gotenv v1.6.0 // indirect
	github.com/syndtr/goleveldb v1.0.1-0.20220721030215-126854af5e6d // indirect
	github.com/tendermint/go-amino v0.16.0 // indirect
	github.com/tidwall/btree v1.7.0 // indirect
	github.com/twitchyliquid64/golang-asm v0.15.1 // indirect
	github.com/ulikunitz/xz v0.5.12 // indirect
	github.com/x448/float16 v0.8.4 // indirect
	gitlab.com/yawning/secp256k1-voi v0.0.0-20230925100816-f2616030848b // indirect
	gitlab.com/yawning/tuplehash v0.0.0-20230713102510-df83abbf9a02 // indirect
	go.opencensus.io v0.24.0 // indirect
	go.opentelemetry.io/auto/sdk v1.1.0 // indirect
	go.opentelemetry.io/contrib/instrumentation/google.golang.org/grpc/otelgrpc v0.53.0 // indirect
	go.opentelemetry.io/contrib/instrumentation/net/http/otelhttp v0.53.0 // indirect
	go.opentelemetry.io/otel v1.33.0 // indirect
	go.opentelemetry.io/otel/metric v1.33.0 // indirect
	go.opentelemetry.io/otel/trace v1.33.0 // indirect
	go.uber.org/mock v0.5.0 // indirect
	golang.org/x/arch v0.12.0 // indirect
	golang.org/x/crypto v0.32.0 // indirect
	golang.org/x/exp v0.0.0-20250106191152-7588d65b2ba8 // indirect
	golang.org/x/net v0.34.0 // indirect
	golang.org/x/oauth2 v0.24.0 // indirect
	golang.org/x/sync v0.10.0 // indirect
	golang.org/x/sys v0.29.0 // indirect
	golang.org/x/term v0.28.0 // indirect
	golang.org/x/text v0.21.0 // indirect
	golang.org/x/time v0.6.0 // indirect
	google.golang.org/api v0.192.0 // indirect
	google.golang.org/genproto v0.0.0-20240814211410-ddb44dafa142 // indirect
	google.golang.org/genproto/googleapis/api v0.0.0-20241202173237-19429a94021a // indirect
	google.golang.org/genproto/googleapis/rpc v0.0.0-20250122153221-138b5a5a4fd4 // indirect
	google.golang.org/grpc v1.70.0 // indirect
	gopkg.in/ini.v1 v1.67.0 // indirect
	gopkg.in/yaml.v2 v2.4.0 // indirect
	gopkg.in/yaml.v3 v3.0.1 // indirect
	gotest.tools/v3 v3.5.1 // indirect
	pgregory.net/rapid v1.1.0 // indirect
	rsc.io/tmplfunc v0.0.3 // indirect
	sigs.k8s.io/yaml v1.4.0 // indirect
)
