#!/usr/bin/env python3
"""Write seeded/README.md: one row per seeded change (what it is, what it needs, what we ran, which check caught it)."""
import glob, json, os, re
VERIF = os.path.dirname(os.path.dirname(os.path.abspath(__file__)))
rows = []
for p in sorted(glob.glob(os.path.join(VERIF, "seeded", "*", "meta.json"))):
    m = json.load(open(p))
    d = os.path.dirname(p)
    patch = open(os.path.join(d, "patch.diff")).read()
    files = sorted(set(re.findall(r"^\+\+\+ b/(\S+)", patch, re.M)))
    caught = [k for k, v in m.get("checks", {}).items() if v["exit"] == 1]
    how = ""
    for k in caught:
        v = m["checks"][k]
        viol = v["violation"][0] if v["violation"] else ""
        how = "%s%s" % (k, " (no-failing-input-found)" if "no-failing-input-found" in viol else " (with replay)")
        ff = [re.sub(r"^\[\S+\s+\S+\]\s*", "", x)[:110] for x in v.get("first_failures", [])[:2]]
        # the replay written by the check lists only failures that are NOT known findings: prefer it
        rp = os.path.join(d, "replay-%s.json" % k.replace("/", "-"))
        if os.path.exists(rp):
            try:
                rj = json.load(open(rp))
                real = [str(x.get("what", ""))[:110] for x in rj.get("failing_inputs", [])[:2]]
                real += [str(x)[:110] for x in (rj.get("no_longer_checks") or [])[:1]]
                if real:
                    ff = real
            except Exception:
                pass
        how += ": " + " / ".join(ff)
    first = (m.get("needs") or "").strip().splitlines()
    title = next((l.strip("# ").strip() for l in first if l.strip()), "")
    rows.append("| %s | %s | %s | %s | %s | %s |" % (m["id"], ", ".join(files), title[:140].replace("|", "/"),
                "yes" if m.get("confirmed") else "NO", "**caught**" if m.get("caught") else "missed", how.replace("|", "/")[:330]))
out = ["# Seeded changes", "",
       "Each directory holds a change to sunriselayer/sunrise written by a fresh sub-agent that saw ONLY the text of one property and its own",
       "scratch worktree (nothing from /verif): `patch.diff`, the agent's demonstration (`demo_test.go.txt` + `demo_cmd.txt`), its `notes.md`,",
       "and `meta.json` — what `lib/seeded.py` ran: the change re-confirmed in a scratch worktree (compiles, existing tests pass, demo passes",
       "on the unchanged tree and fails with the change), then applied to /repo (`git apply`), the property's quick (and, if needed,",
       "thorough) check run, and the change undone (`git checkout -- .`). `replay-*.json` is the replay our check produced.", "",
       "| id | files touched | change (first line of the agent's notes) | confirmed | our check | first reacting component |", "|---|---|---|---|---|---|"] + rows
out += ["", "## Missed at first, and what was strengthened", "",
        "Round 1 (`Cnn-k`): six of the forty changes were not reported by the first evaluation run; each led to a change of the machinery, after which the",
        "evaluation was repeated (the table above shows the final run):", "",
        "* **C01-1** (share-class end-blocker pays an unbonding inside its completion second → EndBlock error): C01 only ran its own",
        "  `halt` scenarios; it now also runs the `share`, `da`, `gauge`, `mint`, `govtally`, `fee` suites and treats every `no_halt`/`no_hang`",
        "  verdict as a C01 violation.",
        "* **C05-2** (`NextTickAfterCrossing` returns `nextTick` going down): the regenerated kernel changed and the model followed it, so the",
        "  correspondence agreed; the theorem pinning the crossing conventions lived in C04 only. `Props/C04` is now a supporting",
        "  obligation of C02, C05 and C06 (their check proves it too).",
        "* **C02-2** (sign guard of `DecreaseLiquidity` dropped): the generator never sent a negative liquidity; the malformed stream now does.",
        "* **C09-2** (fault counters of jailed / non-bonded validators survive the slash epoch): unreachable through messages (x/da jails only",
        "  at the boundary, after resetting); new directed suite `daepoch` prepares such states and evaluates the property's sentence.",
        "* **C12-2** (`if`→`else if` in the self-delegatable lockup's `TrackUndelegation`): that code cannot be reached on the real",
        "  application at all (`getRootOwner` fails first), so no correspondence can tie its model; `Gen/Anchors.lean` now carries the",
        "  source hashes of those four functions and `sd_unreachable_sources_pinned` pins them (an edit re-opens the obligation:",
        "  `no-failing-input-found`).",
        "* **C19-2** (`InitGenesis` skips empty gauge votes): the history never withdrew a vote; it now sends an empty `MsgVoteGauge`.",
        "* C16-1/2 had a prose `demo_cmd.txt`; it was rewritten as the command it describes before confirming.",
        "",
        "## Round 2 (`Cnn-r2-k`): subtler changes",
        "",
        "A second set of forty changes was written by fresh sub-agents told to prefer breakage that needs a particular state, ordering or",
        "parameter regime. First evaluation: 37 of 40 reported (29 by the quick tier, 8 only by the thorough tier), 3 missed. Each miss and each",
        "thorough-only catch led to a change of the machinery; the table shows the re-evaluation after those changes.",
        "",
        "* **C12-r2-2** (`checkUnbondingEntriesMature` stops the walk at the first validator with a pending entry): the `lockup` suite and the",
        "  Lean model use ONE validator; the new directed suite `lockup2` (two validators, undelegate from the later key first, send between",
        "  the two maturities) evaluates the `outflow_bound` oracle.",
        "* **C18-r2-1** (fee params cached inside the ante decorator): params never changed during a history; the `fee` suite now sends",
        "  `MsgUpdateParams` between its two rounds and keeps using the same decorator instances.",
        "* **C19-r2-2** (`InitGenesis` sets the position counter to highest live id + 1): no history closed its newest position; the",
        "  genesis histories now open and fully withdraw a position while older ones stay open.",
        "* thorough-only → quick: **C01-r2-1** hidden negative vote weight (generator now hides a negative weight behind a larger positive",
        "  one); **C04-r2-1 / C05-r2-1** need a swap that ends exactly on an initialised tick (generator computes the whole-unit input that lands",
        "  on the next tick); **C04-r2-2** needs a dust residue withdrawn in a second step (generator leaves residues); **C06-r2-2** needs an",
        "  exact-out swap crossing a tick after a fee-bearing step (the same tick-landing swaps); **C10-r2-1** needs a slashed validator (slashing",
        "  now also in a third of the quick histories); **C11-r2-1** needs both legs on different channels with equal sequences (plain transfers pad",
        "  the channel that is behind); **C20-r2-2** needs the same proof bytes twice in one message (two new scenarios).",
        "* Two panics on the UNCHANGED tree were noticed by a seeding agent while probing: `CalculationCreatePosition` on a pool without",
        "  positions (division by zero) — reproduced by a new structured query grid, repaired (`fix:` 5450c47, C15-Q2) — and `Int overflow` for",
        "  astronomically large parallel-route weights, which is the recorded class C15-K3.",
        "",
        "## Round 3 (`Cnn-r3-k`): different kinds, other files",
        "",
        "A third set of forty, each agent told which changes had already been tried for its property and asked for another kind of slip,",
        "preferably in another function or a secondary file. First evaluation: 34 of 40 reported (30 by the quick tier, 4 only by the",
        "thorough tier), 6 missed. What each miss led to (the table shows the re-evaluation with the final machinery):",
        "",
        "* **C09-r3-1** (bonded filter dropped in `GetZkpThreshold`) and **C09-r3-2** (assignment threshold computed once per block): the `da`",
        "  suite took the shard assignment from the keeper itself. It now computes the threshold by its definition from the bonded validators it",
        "  sees (new oracle `threshold_ref`), and a third of the histories lower `max_validators` at run time so that an unbonding validator sits in",
        "  the staking power index.",
        "* **C12-r3-1** (`break` for `continue` in the multi-denom locked-coins loop) and **C12-r3-2** (owner cached in the implementation object",
        "  shared by all accounts of a type): `lockup2` gained a multi-denom send scenario and a second account of the same type with another owner.",
        "* **C14-r3-1** (package-level `zeroDec` aliased and mutated) and **C14-r3-2** (raw error text, with a heap address, in an acknowledgement):",
        "  invisible to N-fold re-execution; the construct scanner gained the rules `shared-mutation` and `error-text-in-state`.",
        "* **C16-r3-1** (accumulator captured by the tally closure leaks into the next tally): the `govtally` suite now uses ONE function value per",
        "  history, as the application does.",
        "* **C19-r3-2** (fee `InitGenesis` replaces an empty bypass list by the default): the mutant acts on BOTH chains' genesis, so the state must be",
        "  produced by a message: governance sets the empty list before the export.",
        "* thorough-only → quick: **C03-r3-1** (parallel branch with exactly one wrong denom: new malformation that swaps in an executable branch to",
        "  another denom), **C15-r3-1** (index equal to the shard count: message templates straddle both ends of the list).",
        "* **C01-r3-2** (no-progress counter of the swap loop compares decimals with `==`: an unmetered hang) made the harness wait for the framework's",
        "  time limit; every suite now has a per-operation watchdog (300 s) that ends the run with a `no_hang` verdict and the history so far.",
        "",
        "## Round 4 (`Cnn-r4-k`): unusual parameters, interleavings of several actors, key encodings, statement order",
        "",
        "A fourth set of forty (agents told the six earlier changes per property). First evaluation at the quick tier",
        "(`r4-first-evaluation.log`): 34 of 40 reported, 6 missed. What each miss led to (the table shows the final machinery):",
        "",
        "* **C01-r4-1** (a renamed local makes the `slash_fault_threshold >= 0` test look at another parameter; the end-blocker then panics in",
        "  `Uint64()`), **C13-r4-2** (`IsNegative() && GT(1)` never rejects a staking reward ratio): parameter validation was only sampled. Two",
        "  answers. (1) Proof: the translator has a new target kind `rejects` (the disjunction of every unconditional `if … { return err }` of a",
        "  `Validate` function that mentions a parameter); `Props/ParamGuards{DA,LI,Swap,Fee}.lean` prove that passing the regenerated guards is",
        "  exactly the validity predicate the models and theorems assume — for every value. (2) Failing input: every `da` history opens with a",
        "  battery of parameter sets that are wrong in ONE field (accepted ones govern the rest of the history), the `mint` suite lets governance",
        "  change the ratio at run time on both sides of both ends of [0,1] (`C13.history_ratio_and_cap`: ratio in [0,1] and supply ≤ cap are",
        "  invariants of every interleaving of updates and blocks).",
        "* **C09-r4-1** (`NewPrefixUntilPairRange` for `NewPrefixedPairRange`: the tally of an item reads and deletes the proofs of every item",
        "  whose name sorts before it): item names followed the order of publication, so the item tallied first always had the smallest name. Names",
        "  are now a random permutation, and every third history opens with two items published, challenged and proved side by side.",
        "* **C13-r4-1** (an empty series from a denom to itself passes `Route.Validate`; the interface fee then moves vRISE between two accounts):",
        "  new malformation `emptysame` in the `route` suite (C03 reports it as well) and three pool-less routes per banned denom in the `ban` suite.",
        "* **C15-r4-2** (`||` → `&&` in the first-position guard: `MsgCreatePosition` with base 0 on an empty pool divides by zero): the structured",
        "  grid over pool states existed for the calculation queries only; `lpMsgSection` runs the same grid of (base, quote) pairs through",
        "  `MsgCreatePosition` / `MsgIncreaseLiquidity` on a discarded branch of the state, so every point meets the same pool states.",
        "* **C19-r4-2** (`GetAllPublishedData`, shared by the query and `ExportGenesis`, stops after 1000 items): beyond what a history of practical",
        "  length shows. The genesis fact extractor now lists every place on the ExportGenesis / InitGenesis call paths where a walk can end early",
        "  (a walk callback answering stop without an error, a `break` out of a loop); `C19.genesis_paths_never_stop_early` proves the list empty.",
        "",
        "## Round 5 (`Cnn-r5-k`): error handling, cleanup duties, exact deadlines, second use, staking events, several denoms",
        "",
        "A fifth set of forty (agents told the eight earlier changes per property). First evaluation (`r5-first-evaluation.log`): 34 of 40",
        "reported by the quick tier, 2 only by the thorough tier, 4 missed. The round also produced three GENUINE defects of the unchanged",
        "tree, noticed by seeding agents while reading the code and reproduced on the real application by new `halt` scenarios: a DA",
        "tally dividing by zero after a genesis import, `Int64()` overflow for a large valid replication factor, and an unbonding to a",
        "recipient the bank refuses to credit stopping the chain three weeks later (all fixed: 3f57b5b, fe8f03d, 8270a6b; DESIGN §6).",
        "The patches of C01-r5-1, C07-r4-1 and C08-1 were re-based on those fixes (`patch.orig.diff` keeps the original).",
        "",
        "* **C01-r5-2** (the share-class reward handler forwards the WHOLE module balance, so matured unbonding tokens are swept and the",
        "  payout fails in the end-blocker): made before fix 8270a6b; with the fix a failing payout no longer stops the chain, so this",
        "  change does not break C01 any more — it breaks C10 (the unbonding is not paid), where the quick tier reports it",
        "  (`undelegate_paid_once`). The C01 row stays `missed` on purpose: nothing to report there.",
        "* **C01-r5-1** (rejected item: the divisor becomes the number of CORRECT challengers, zero when every challenger flagged a safe",
        "  shard): thorough-only. The `da` generator now issues blanket challenges (every shard flagged) one time in five, counts the case",
        "  (`tally.rejected_every_challenger_flagged_a_safe_shard`), and C01's quick tier runs 60 `da` histories.",
        "* **C11-r5-1** (a failed re-send inside a timeout is logged and swallowed): the failure needs `SendPacket` to fail, which the",
        "  localhost channel never does. The `ibc` suite now delivers one timeout in five while the channel end is CLOSED (fault injection",
        "  at the core-IBC boundary, `send=fail` in the trace, `IbcSwap.opTimeoutNoSend` in the model): the message must fail as a whole and",
        "  change nothing (`failed_resend_changes_nothing`), and the history must still end with one acknowledgement and no records.",
        "* **C12-r5-2** (`return nil` for `continue` in `checkTokensSendable` when a denom has nothing locked): a denom outside the original",
        "  funds cannot be sent from a lockup at all (`collections: not found`), so the multi-denom scenario never reached the loop. New",
        "  scenario `lk2TwoLockedDenoms`: the account is funded at Init with a dust denom that sorts first plus the main denom; past half of",
        "  the schedule the dust coin is fully unlocked by rounding and a send naming both must still keep the locked part of the main denom.",
        "* **C15-r5-1** (`MustAccAddressFromBech32` on the interface provider, which only the message's ValidateBasic checks): thorough-only.",
        "  Executable IBC memos now carry a provider that is not an address of this chain one time in nine.",
        "* **C20-r5-2** (`UnmarshalVerifyingKey` keeps the first key it ever decoded): new scenario `rsKeyRotation` — governance installs a",
        "  fresh `groth16.Setup` pair on a chain that has verified proofs before; new-key proofs must be accepted for their own shard only,",
        "  old-key proofs refused."]
open(os.path.join(VERIF, "seeded", "README.md"), "w").write("\n".join(out) + "\n")
print(len(rows), "rows;", sum("**caught**" in r for r in rows), "caught")
