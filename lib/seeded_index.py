#!/usr/bin/env python3
"""Write seeded/README.md: one row per seeded change (what it is, what it needs, what we ran, which check caught it)."""
import glob, json, os, re
VERIF = os.path.dirname(os.path.dirname(os.path.abspath(__file__)))
rows = []
for p in sorted(glob.glob(os.path.join(VERIF, "seeded", "*", "meta.json"))):
    m = json.load(open(p))
    d = os.path.dirname(p)
    patch = open(os.path.join(d, "patch.diff")).read()
    files = sorted(set(re.findall(r"^\+\+\+ b/(\S+)", patch, re.M)))
    caught = [k for k, v in m.get("checks", {}).items() if v["exit"] == 1]
    how = ""
    for k in caught:
        v = m["checks"][k]
        viol = v["violation"][0] if v["violation"] else ""
        how = "%s%s" % (k, " (no-failing-input-found)" if "no-failing-input-found" in viol else " (with replay)")
        ff = [re.sub(r"^\[\S+\s+\S+\]\s*", "", x)[:110] for x in v.get("first_failures", [])[:2]]
        how += ": " + " / ".join(ff)
    first = (m.get("needs") or "").strip().splitlines()
    title = next((l.strip("# ").strip() for l in first if l.strip()), "")
    rows.append("| %s | %s | %s | %s | %s | %s |" % (m["id"], ", ".join(files), title[:140].replace("|", "/"),
                "yes" if m.get("confirmed") else "NO", "**caught**" if m.get("caught") else "missed", how.replace("|", "/")[:330]))
out = ["# Seeded changes", "",
       "Each directory holds a change to sunriselayer/sunrise written by a fresh sub-agent that saw ONLY the text of one property and its own",
       "scratch worktree (nothing from /verif): `patch.diff`, the agent's demonstration (`demo_test.go.txt` + `demo_cmd.txt`), its `notes.md`,",
       "and `meta.json` — what `lib/seeded.py` ran: the change re-confirmed in a scratch worktree (compiles, existing tests pass, demo passes",
       "on the unchanged tree and fails with the change), then applied to /repo (`git apply`), the property's quick (and, if needed,",
       "thorough) check run, and the change undone (`git checkout -- .`). `replay-*.json` is the replay our check produced.", "",
       "| id | files touched | change (first line of the agent's notes) | confirmed | our check | first reacting component |", "|---|---|---|---|---|---|"] + rows
open(os.path.join(VERIF, "seeded", "README.md"), "w").write("\n".join(out) + "\n")
print(len(rows), "rows;", sum("**caught**" in r for r in rows), "caught")
