#!/usr/bin/env python3
"""seeded.py <Cnn> <k>: confirm a seeded change produced by a fresh sub-agent (in /tmp/seed/<Cnn>/_seed/<k>/) in a scratch
worktree (compiles, existing tests pass, demo fails with it and passes without it), run our checks against it on /repo, undo,
and store everything under /verif/seeded/<Cnn>-<k>/ (patch.diff, demo, meta.json)."""
import json, os, re, shutil, subprocess, sys, time
VERIF = os.path.dirname(os.path.dirname(os.path.abspath(__file__)))
ENV = dict(os.environ, GOPROXY="off", GOSUMDB="off", GOTOOLCHAIN="local", GOFLAGS="")

def sh(cmd, cwd, timeout=3000):
    p = subprocess.run(cmd, cwd=cwd, shell=True, env=ENV, stdout=subprocess.PIPE, stderr=subprocess.STDOUT, timeout=timeout)
    return p.returncode, p.stdout.decode("utf-8", "replace")

def main():
    prop, k = sys.argv[1], sys.argv[2]
    checks = sys.argv[3:] or [prop]
    src = "/tmp/seed/%s/_seed/%s" % (prop, k)
    rnd = os.environ.get("SEED_ROUND", "")
    dst = os.path.join(VERIF, "seeded", "%s-%s%s" % (prop, rnd + "-" if rnd else "", k))
    if os.environ.get("SEED_PHASE") == "check":
        src = dst
    # a fixed path per slot: the Go build cache is keyed by absolute paths, a new path per change costs ~1.3 GB of cache each
    wt = "/tmp/seedverify-slot%s" % os.environ.get("SEED_SLOT", "0")
    meta = {"property": prop, "id": "%s-%s%s" % (prop, os.environ.get("SEED_ROUND", "") + "-" if os.environ.get("SEED_ROUND") else "", k), "ran": []}
    phase = os.environ.get("SEED_PHASE", "all")   # confirm (scratch worktree only, parallelisable) | check (on /repo, sequential) | all
    patch = os.path.join(src, "patch.diff")
    demos = [f for f in os.listdir(src) if f.endswith(".go") or f == "demo"] if phase != "check" else []
    if phase == "check":
        # re-evaluation from the stored directory (the agent's scratch output may be gone)
        meta = json.load(open(os.path.join(dst, "meta.json")))
        patch = os.path.join(dst, "patch.diff")
        demos = []
        src = dst
    else:
      subprocess.run(["git", "-C", "/repo", "worktree", "remove", "--force", wt], stderr=subprocess.DEVNULL)
      subprocess.check_call(["git", "-C", "/repo", "worktree", "add", "-q", "--detach", wt, "HEAD"])
      try:
          demo_cmd = open(os.path.join(src, "demo_cmd.txt")).read().strip()
          demos = [f for f in os.listdir(src) if f.endswith(".go") or f == "demo"]
          # the agent's demo command refers to files under _seed/<k>/ relative to the worktree root: copy them there and run it verbatim
          shutil.copytree("/tmp/seed/%s/_seed" % prop, os.path.join(wt, "_seed"))
          run = "set -e\n" + demo_cmd
          rc0, out0 = sh(run, wt)
          meta["demo_unchanged"] = {"cmd": demo_cmd, "rc": rc0, "tail": out0[-400:]}
          rc, out = sh("git apply %s" % patch, wt)
          if rc != 0:
              meta["error"] = "patch does not apply: " + out[-300:]
              raise SystemExit
          rcb, outb = sh("go build ./...", wt)
          meta["build_with_change"] = rcb
          # existing tests with the change: move the demo test files out of the way first
          sh("git clean -fdq -e _seed -- x app", wt)
          rct, outt = sh("go test -vet=off -count=1 ./x/... ./app/... 2>&1 | grep -v 'no test files' | grep -v '^ok' | head -20", wt)
          # the demo itself is in the tree during this run: ignore its own package failure lines caused by the demo test
          meta["existing_tests_with_change"] = outt[-600:]
          rc1, out1 = sh(run, wt)
          meta["demo_with_change"] = {"rc": rc1, "tail": out1[-600:]}
          meta["confirmed"] = (rc0 == 0 and rc1 != 0 and rcb == 0 and "FAIL" not in outt)
          meta["ran"].append("scratch worktree %s: demo on unchanged tree rc=%d, with change rc=%d, go build rc=%d" % (wt, rc0, rc1, rcb))
      finally:
        subprocess.run(["git", "-C", "/repo", "worktree", "remove", "--force", wt])
    # our checks against the change on /repo itself
    os.makedirs(dst, exist_ok=True)
    if os.path.abspath(patch) != os.path.abspath(os.path.join(dst, "patch.diff")):
        shutil.copy(patch, os.path.join(dst, "patch.diff"))
    for d in demos:
        s = os.path.join(src, d)
        if os.path.isdir(s):
            shutil.copytree(s, os.path.join(dst, d), dirs_exist_ok=True)
        else:
            shutil.copy(s, os.path.join(dst, d + ".txt" if d.endswith(".go") else d))
    for f in ("notes.md", "demo_cmd.txt"):
        if src != dst and os.path.exists(os.path.join(src, f)):
            shutil.copy(os.path.join(src, f), os.path.join(dst, f))
    meta["checks"] = {}
    if phase == "confirm":
        json.dump(meta, open(os.path.join(dst, "meta.json"), "w"), indent=1)
        print(prop, k, "confirmed=%s" % meta.get("confirmed"))
        return
    if meta.get("confirmed"):
        subprocess.check_call(["git", "-C", "/repo", "apply", patch])
        try:
            for c in checks:
                for tier in os.environ.get("SEED_TIERS", "quick thorough").split():
                    t0 = time.time()
                    p = subprocess.run([os.path.join(VERIF, "bin", "check"), c, "--tier", tier], cwd=VERIF, stdout=subprocess.PIPE, stderr=subprocess.STDOUT)
                    out = p.stdout.decode("utf-8", "replace")
                    viol = [l for l in out.splitlines() if l.startswith("VIOLATION")]
                    fails = [l[:300] for l in out.splitlines() if " FAIL " in l][:6]
                    meta["checks"]["%s/%s" % (c, tier)] = {"exit": p.returncode, "violation": viol, "first_failures": fails, "wall_s": round(time.time() - t0)}
                    if p.returncode == 1:
                        rp = re.search(r"replay=(\S+)", viol[0]) if viol else None
                        if rp and os.path.exists(rp.group(1)):
                            shutil.copy(rp.group(1), os.path.join(dst, "replay-%s-%s.json" % (c, tier)))
                        break  # caught at this tier
        finally:
            subprocess.check_call(["git", "-C", "/repo", "checkout", "--", "."])
    meta["caught"] = any(v["exit"] == 1 for v in meta["checks"].values())
    notes = os.path.join(src, "notes.md")
    meta["needs"] = open(notes).read()[:1500] if os.path.exists(notes) else ""
    json.dump(meta, open(os.path.join(dst, "meta.json"), "w"), indent=1)
    print(prop, k, "confirmed=%s caught=%s" % (meta.get("confirmed"), meta["caught"]), {k2: v["exit"] for k2, v in meta["checks"].items()})

main()
