#!/usr/bin/env python3
"""Regenerate MANIFEST.json from checks/*.py (claimed) and the table below (not applicable / pending)."""
import json, os, re, sys
VERIF = os.path.dirname(os.path.dirname(os.path.abspath(__file__)))
ALL = ["C%02d" % i for i in range(1, 21)]
BASELINE_OFF = ("cd /repo && go build ./... && go test -vet=off -count=1 -timeout 25m ./... && "
                "(cd x/da/erasurecoding && go test -vet=off -count=1 ./...)")

def main():
    checks, na = [], []
    for pid in ALL:
        py = os.path.join(VERIF, "checks", pid.lower() + ".py")
        meta = os.path.join(VERIF, "checks", pid.lower() + ".json")
        if os.path.exists(py) and os.path.exists(meta):
            m = json.load(open(meta))
            checks.append({
                "property_id": pid,
                "quick_cmd": "bin/check %s --tier quick" % pid,
                "thorough_cmd": "bin/check %s --tier thorough" % pid,
                "evidence_file": "evidence/%s.json" % pid,
                "replay_cmd_template": "bin/check %s --replay {path}" % pid,
                "engine": "lean4-proof",
                "level_claimed": {"category": "proof", "text": m["text"], "design_ref": m.get("design_ref", "DESIGN.md section 5 " + pid)},
                "level_note": m["level_note"],
                "technique": m["technique"],
            })
        else:
            na.append({"property_id": pid, "reason": "not claimed yet: the Lean model and correspondence for this property are not built at this commit (see DESIGN.md section 5 for the plan)"})
    man = {
        "version": 1,
        "setup_cmd": "bin/setup",
        "hooks": {"guard": "verif", "enable": "go build -tags verif (harness module /verif/harness, replace github.com/sunriselayer/sunrise => /repo)",
                  "baseline_off_cmd": BASELINE_OFF, "source_commits": json.load(open(os.path.join(VERIF, "hooks.json"))) if os.path.exists(os.path.join(VERIF, "hooks.json")) else [],
                  "add_only": True},
        "engines": [{"name": "lean4-proof", "path": "lean/", "serves_properties": [c["property_id"] for c in checks],
                     "kind_free_text": "Lean 4 theorems over (a) kernels regenerated from the Go source by harness/cmd/svx and (b) hand-written executable models tied to the real application by differential correspondence (harness/cmd/svh vs lean/Driver)"}],
        "checks": checks,
        "not_applicable": na,
        "notes": "bin/check <Cnn> [--tier quick|thorough] [--replay file]; honours VERIF_SEED and VERIF_TIER; known findings in known_findings/*.json",
    }
    json.dump(man, open(os.path.join(VERIF, "MANIFEST.json"), "w"), indent=1)
    print("claimed", [c["property_id"] for c in checks])

main()
