"""Shared framework for /verif/bin/check (Python 3 stdlib only)."""
import fcntl, glob, hashlib, json, os, re, shutil, subprocess, sys, time

VERIF = os.path.dirname(os.path.dirname(os.path.abspath(__file__)))
REPO = os.environ.get("VERIF_REPO", "/repo")
WORK = os.path.join(VERIF, ".work")
LEAN = os.path.join(VERIF, "lean")
HARNESS = os.path.join(VERIF, "harness")
BIN = os.path.join(WORK, "bin")
GOENV = dict(os.environ, GOFLAGS="-mod=mod", GOPROXY="off", GOSUMDB="off", GOTOOLCHAIN="local",
             CGO_ENABLED=os.environ.get("CGO_ENABLED", "1"))
ALLOWED_AXIOMS = {"propext", "Classical.choice", "Quot.sound"}
FORBIDDEN = re.compile(r"\bsorry\b|\badmit\b|^axiom |native_decide|bv_decide|implemented_by|\bunsafe |maxHeartbeats 0", re.M)
TRUSTED_BASE = [
    "Lean 4.33 kernel (axioms limited to propext, Classical.choice, Quot.sound; audited per theorem each run)",
    "svx translator/extractor (Go->Lean method table, fact enumeration), validated by the kernel differential test",
    "hand-written Lean models of stateful keepers, tied to /repo by the correspondence run only",
    "correspondence harness, generators, canonicaliser (a disagreement they cannot generate is not seen)",
    "Cosmos SDK / ibc-go / gnark / reedsolomon / big.Int behaviour as boundary hypotheses (DESIGN.md section 8)",
]


def sh(cmd, cwd=None, env=None, timeout=None, stdin=None):
    t0 = time.time()
    p = subprocess.run(cmd, cwd=cwd, env=env, stdin=stdin, stdout=subprocess.PIPE, stderr=subprocess.PIPE,
                       timeout=timeout, shell=isinstance(cmd, str))
    return p.returncode, p.stdout.decode("utf-8", "replace"), p.stderr.decode("utf-8", "replace"), time.time() - t0


class Lock:
    def __init__(self, name="lock"):
        os.makedirs(WORK, exist_ok=True)
        self.path = os.path.join(WORK, name)

    def __enter__(self):
        self.f = open(self.path, "w")
        fcntl.flock(self.f, fcntl.LOCK_EX)
        return self

    def __exit__(self, *a):
        fcntl.flock(self.f, fcntl.LOCK_UN)
        self.f.close()


class Failure:
    """Something that no longer checks. kind: proof | translate | correspondence | oracle | infra."""

    def __init__(self, kind, what, detail="", replay=None, features=None, check=None):
        self.kind, self.what, self.detail = kind, what, detail
        self.replay = replay          # dict describing a concrete failing input (None if not found)
        self.features = features or {}
        self.check = check or what


class Ctx:
    def __init__(self, prop, tier, seed):
        self.prop, self.tier, self.seed = prop, tier, seed
        self.t0 = time.time()
        self.failures = []
        self.known_hits = []
        self.cov = {"obligations": 0, "discharged": 0, "evaluations": 0, "distinct_nontrivial": 0,
                    "samples": [], "theorems": [], "axioms": {}, "stages": {}}
        self.notes = []
        os.makedirs(BIN, exist_ok=True)
        self.tmp = os.path.join(WORK, "run-%s-%d" % (prop, os.getpid()))
        os.makedirs(self.tmp, exist_ok=True)

    def thorough(self):
        return self.tier == "thorough"

    def log(self, *a):
        print("[%s %6.1fs]" % (self.prop, time.time() - self.t0), *a, flush=True)

    def fail(self, *a, **k):
        f = Failure(*a, **k)
        self.failures.append(f)
        self.log("FAIL %s: %s %s" % (f.kind, f.what, (f.detail or "")[:400]))
        return f

    # ------------------------------------------------------------------ build steps
    def gobuild(self, name):
        """(re)build harness/cmd/<name> against REPO's working tree with the verif tag"""
        out = os.path.join(BIN, name)
        cmd = ["go", "build", "-tags", "verif", "-o", out]
        if os.environ.get("VERIF_COVERPKG") and name == "svh":
            # development aid: coverage-instrumented harness (run with GOCOVERDIR set) to find code no generator reaches
            cmd += ["-cover", "-coverpkg=" + os.environ["VERIF_COVERPKG"]]
        if REPO != "/repo":
            # build against another checkout (scratch worktrees): same go.mod with the replace path substituted
            mod = open(os.path.join(HARNESS, "go.mod")).read().replace("=> /repo", "=> " + REPO)
            mf = os.path.join(WORK, "alt.mod")
            if not os.path.exists(mf) or open(mf).read() != mod:
                open(mf, "w").write(mod)
            shutil.copyfile(os.path.join(HARNESS, "go.sum"), os.path.join(WORK, "alt.sum"))
            cmd += ["-modfile", mf]
        rc, so, se, dt = sh(cmd + ["./cmd/" + name], cwd=HARNESS, env=GOENV)
        self.cov["stages"]["gobuild_" + name] = round(dt, 1)
        if rc != 0:
            self.fail("infra", "go build " + name, se[-3000:])
            return None
        return out

    def translate(self):
        """regenerate lean/SunriseVerif/Gen from the working tree"""
        svx = self.gobuild("svx")
        if not svx:
            return False
        with Lock():
            rc, so, se, dt = sh([svx, "-repo", REPO, "-out", os.path.join(LEAN, "SunriseVerif", "Gen")])
        self.cov["stages"]["translate"] = round(dt, 1)
        uns = [l for l in so.splitlines() if l.startswith("unsupported")]
        self.cov["translated"] = len([l for l in so.splitlines() if l.startswith("translated")])
        if rc not in (0, 3):
            self.fail("infra", "svx", se[-2000:])
            return False
        self.unsupported = uns
        self.svx_err = se
        return True

    def lake_build(self, targets):
        with Lock():
            rc, so, se, dt = sh(["lake", "build"] + targets, cwd=LEAN, timeout=3600)
        return rc, so + se, dt

    def prove(self, modules, needs_gen=()):
        """Build the property's Lean modules; count theorems; audit axioms; grep forbidden constructs."""
        for g in needs_gen:
            bad = [u for u in getattr(self, "unsupported", []) if u.split()[1] == g]
            for u in bad:
                self.fail("translate", u, "the Go source left the translatable subset; the kernel's lemmas are unproved")
        thms = []
        for m in modules:
            path = os.path.join(LEAN, m.replace(".", "/") + ".lean")
            src = open(path).read()
            code = re.sub(r"/-.*?-/", "", src, flags=re.S)
            code = "\n".join(l.split("--")[0] for l in code.splitlines())
            if FORBIDDEN.search(code):
                self.fail("proof", m, "forbidden construct: " + FORBIDDEN.search(code).group(0))
            # full names follow the (possibly nested) namespaces open at each theorem; sections do not contribute
            stack = []
            for line in code.splitlines():
                mm = re.match(r"^namespace\s+(\S+)", line)
                if mm:
                    stack.append(mm.group(1))
                    continue
                mm = re.match(r"^end\s+(\S+)", line)
                if mm and stack and stack[-1] == mm.group(1):
                    stack.pop()
                    continue
                mm = re.match(r"^(?:private\s+)?theorem\s+([^\s:({\[]+)", line)
                if mm:
                    thms.append((m, ".".join(stack + [mm.group(1)])))
        self.cov["obligations"] += len(thms)
        rc, out, dt = self.lake_build(modules)
        self.cov["stages"]["lake_build"] = round(dt, 1)
        failed_thms = set()
        if rc != 0:
            # attribute errors to theorems by line number
            errs = re.findall(r"error: (\S+?\.lean):(\d+):\d+: (.*)", out)
            for f, ln, msg in errs:
                self.fail("proof", "%s:%s" % (f, ln), msg)
            if not errs:
                self.fail("proof", "lake build " + " ".join(modules), out[-3000:])
            self.build_log = out
            self.cov["theorems"] = [t for _, t in thms]
            return False
        # axiom audit
        audit = os.path.join(self.tmp, "Audit.lean")
        with open(audit, "w") as f:
            for m in modules:
                f.write("import %s\n" % m)
            for _, t in thms:
                f.write("#print axioms %s\n" % t)
        rc, so, se, dt = sh(["lake", "env", "lean", audit], cwd=LEAN, timeout=1800)
        self.cov["stages"]["audit"] = round(dt, 1)
        txt = so + se
        seen = {}
        for mm in re.finditer(r"'(\S+)' (does not depend on any axioms|depends on axioms: \[([^\]]*)\])", txt):
            ax = [a.strip() for a in (mm.group(3) or "").replace("\n", " ").split(",") if a.strip()]
            seen[mm.group(1)] = ax
        for _, t in thms:
            if t not in seen:
                self.fail("proof", "audit " + t, "theorem not found by #print axioms: " + txt[-500:])
                failed_thms.add(t)
                continue
            extra = [a for a in seen[t] if a not in ALLOWED_AXIOMS]
            if extra:
                self.fail("proof", "axioms " + t, "uses " + ",".join(extra))
                failed_thms.add(t)
        self.cov["axioms"] = {t: seen.get(t, []) for _, t in thms}
        self.cov["theorems"] = [t for _, t in thms]
        self.cov["discharged"] += len(thms) - len(failed_thms)
        return not failed_thms

    def leanchecker(self, modules):
        for m in modules:
            rc, so, se, dt = sh(["lake", "env", "leanchecker", m], cwd=LEAN, timeout=3600)
            self.cov["stages"]["leanchecker_" + m] = round(dt, 1)
            if rc != 0:
                self.fail("proof", "leanchecker " + m, (so + se)[-1500:])

    def driver(self):
        from . import genpreds
        genpreds.write()
        rc, out, dt = self.lake_build(["svdriver"])
        self.cov["stages"]["driver_build"] = round(dt, 1)
        if rc != 0:
            self.fail("correspondence", "lean driver does not build against the regenerated kernels", out[-3000:])
            return None
        return os.path.join(LEAN, ".lake", "build", "bin", "svdriver")

    def run_driver(self, drv, ops_text):
        p = subprocess.run([drv], input=ops_text.encode(), stdout=subprocess.PIPE, stderr=subprocess.PIPE, timeout=3600)
        return p.stdout.decode().splitlines()

    # ------------------------------------------------------------------ kernel differential (validates translator + Dec)
    def kernel_diff(self, sets, n, label="kernel"):
        svk = self.gobuild("svk")
        drv = self.driver()
        if not svk or not drv:
            return None
        rc, so, se, dt = sh([svk, "-n", str(n), "-seed", str(self.seed), "-set", sets])
        if rc != 0:
            self.fail("infra", "svk", se[-2000:])
            return None
        ops, exp = [], []
        for l in so.splitlines():
            a, b = l.split("\t")
            ops.append(a)
            exp.append(b)
        # every op is evaluated twice by the driver: as written (value, or `panic` when the kernel's `_ok` guard is false) and as
        # `R <op>` = the kernel's range guard `_rng` (1 | 0 | - when the op has none).  The implementation reports `range` when it
        # panicked with one of cosmossdk.io/math's range assertions.  Required:
        #   impl value  <=> _ok and _rng, and the values are equal;   impl `range` => not _rng;   impl `panic` => not _ok;
        #   (hence _ok and not _rng => impl `range`; when both guards are false either panic kind is accepted: whichever the
        #   evaluation order reaches first)
        both = self.run_driver(drv, "\n".join(o + "\nR " + o for o in ops) + "\n")
        got, rng = both[0::2], both[1::2]
        mism, skipped, kinds, rstat = [], 0, {}, {}
        for i, (o, e) in enumerate(zip(ops, exp)):
            g = got[i] if i < len(got) else "<missing>"
            rg = rng[i] if i < len(rng) else "<missing>"
            k = " ".join(o.split()[:2])
            kinds[k] = kinds.get(k, 0) + 1
            if e == "overflow" or (e == "range" and rg == "-"):
                skipped += 1
                continue
            if rg == "-":
                if e != g:
                    mism.append({"op": o, "impl": e, "model": g})
                continue
            st = rstat.setdefault(k, {"in_range": 0, "range_panic": 0, "other_panic": 0, "both_guards_false": 0})
            if rg not in ("0", "1"):
                mism.append({"op": o, "impl": e, "model": g, "model_rng": rg})
            elif e == "range":
                st["range_panic"] += 1
                if g == "panic":
                    st["both_guards_false"] += 1
                if rg != "0":
                    mism.append({"op": o, "impl": e, "model": g, "model_rng": rg, "why": "Go range assertion fired, _rng says in range"})
            elif e == "panic":
                st["other_panic"] += 1
                if rg == "0":
                    st["both_guards_false"] += 1
                if g != "panic":
                    mism.append({"op": o, "impl": e, "model": g, "model_rng": rg})
            else:
                st["in_range"] += 1
                if e != g or rg != "1":
                    mism.append({"op": o, "impl": e, "model": g, "model_rng": rg,
                                 "why": "" if e != g else "Go returned a value, _rng says a range assertion fires"})
        self.cov["stages"][label + "_range"] = rstat
        self.cov["evaluations"] += len(ops)
        self.cov["distinct_nontrivial"] += len(set(ops)) - skipped
        self.cov["stages"][label] = {"cases": len(ops), "skipped_overflow": skipped, "mismatches": len(mism), "per_kernel": kinds}
        self.cov["samples"] += [{"op": o, "impl": e} for o, e in list(zip(ops, exp))[:: max(1, len(ops) // 5)][:5]]
        return mism


def load_known():
    """known_findings/<Cnn>.json: {"findings": [ {id, property, status: known|fixed, check, input_class{feature: value}, what, ...} ]}"""
    out = []
    for p in sorted(glob.glob(os.path.join(VERIF, "known_findings", "*.json"))):
        out += json.load(open(p)).get("findings", [])
    return out


def match_known(prop, failure, known):
    for k in known:
        if k.get("property") != prop or k.get("status") != "known":
            continue
        if k.get("check") != failure.check:
            continue
        ok = True
        for feat, want in (k.get("input_class") or {}).items():
            if failure.features.get(feat) != want:
                ok = False
        if ok:
            return k
    return None


def finish(ctx, level_note=""):
    """Decide, write evidence, print VIOLATION / KNOWN-FINDING lines, return exit code."""
    known = load_known()
    real = []
    for f in ctx.failures:
        k = match_known(ctx.prop, f, known) if f.kind == "oracle" else None
        if k:
            print("KNOWN-FINDING: property=%s %s" % (ctx.prop, k.get("what", f.what)), flush=True)
            ctx.known_hits.append(k.get("id"))
        else:
            real.append(f)
    wall = time.time() - ctx.t0
    cov = ctx.cov
    cov["checker_cmd"] = "cd /verif/lean && lake build <Props/Witness modules> && lake env lean <generated #print axioms audit>"
    cov["trusted_base"] = TRUSTED_BASE
    cov.setdefault("rule", "cases are generated from one SplitMix64 state seeded by VERIF_SEED; distinct = distinct op lines / histories; "
                           "non-trivial = not skipped (no range overflow) and executed on both implementation and model")
    if not cov["samples"]:
        cov["samples"] = [{"theorems": cov["theorems"][:5]}]
    cov["known_findings_hit"] = ctx.known_hits
    cov["failures"] = [{"kind": f.kind, "what": f.what, "detail": (f.detail or "")[:500]} for f in real]
    ev = {"property_id": ctx.prop, "tier": ctx.tier, "seed": ctx.seed, "level": "proof", "coverage": cov,
          "assumptions": TRUSTED_BASE + ctx.notes, "wall_s": round(wall, 1), "violations": 1 if real else 0}
    os.makedirs(os.path.join(VERIF, "evidence"), exist_ok=True)
    with open(os.path.join(VERIF, "evidence", ctx.prop + ".json"), "w") as f:
        json.dump(ev, f, indent=1, default=str)
    if not real:
        ctx.log("OK obligations=%d discharged=%d evaluations=%d wall=%.0fs" % (cov["obligations"], cov["discharged"], cov["evaluations"], wall))
        return 0
    os.makedirs(os.path.join(VERIF, "replays"), exist_ok=True)
    rp = os.path.join(VERIF, "replays", "%s-%d.json" % (ctx.prop, ctx.seed))
    with_input = [f for f in real if f.replay]
    with open(rp, "w") as f:
        json.dump({"property": ctx.prop, "seed": ctx.seed, "tier": ctx.tier,
                   "failing_inputs": [{"check": x.check, "what": x.what, "detail": x.detail, "input": x.replay, "features": x.features} for x in with_input],
                   "no_longer_checks": [{"kind": x.kind, "what": x.what, "detail": x.detail} for x in real if not x.replay]}, f, indent=1, default=str)
    tail = "" if with_input else " no-failing-input-found"
    print("VIOLATION property=%s replay=%s%s" % (ctx.prop, rp, tail), flush=True)
    return 1


# ---------------------------------------------------------------------- predicate search (failing-input search for kernel theorems)
class SplitMix:
    def __init__(self, seed):
        self.s = seed & 0xFFFFFFFFFFFFFFFF

    def next(self):
        self.s = (self.s + 0x9E3779B97F4A7C15) & 0xFFFFFFFFFFFFFFFF
        z = self.s
        z = ((z ^ (z >> 30)) * 0xBF58476D1CE4E5B9) & 0xFFFFFFFFFFFFFFFF
        z = ((z ^ (z >> 27)) * 0x94D049BB133111EB) & 0xFFFFFFFFFFFFFFFF
        return z ^ (z >> 31)

    def n(self, k):
        return self.next() % k

    def digits(self, maxd):
        d = 1 + self.n(maxd)
        return int("".join(str(self.n(10)) for _ in range(d)))


PREC = 10 ** 18


def rand_dec(r, neg_ok=False):
    c = r.n(12)
    if c == 0:
        v = r.n(4)
    elif c == 1:
        v = r.n(1000) * PREC
    elif c == 2:
        v = r.n(100) * PREC + PREC // 2
    elif c == 3:
        v = PREC + r.n(2000001) - 1000000
    elif c in (4, 5):
        v = r.n(PREC)              # in [0,1)
    elif c == 6:
        v = r.digits(12)
    else:
        v = r.digits(40)
    if neg_ok and r.n(8) == 0:
        v = -v
    return v


def rand_arg(r, t):
    if t == "Dec":
        return str(rand_dec(r, True))
    if t == "Int":
        v = r.digits(30) if r.n(3) else r.n(100)
        return str(-v if r.n(6) == 0 else v)
    if t == "Nat":
        return str(r.digits(12) if r.n(3) else r.n(50))
    if t == "Bool":
        return str(r.n(2))
    raise ValueError(t)


def pred_search(ctx, prefix, n, only=None):
    """Evaluate the decidable statements Spec/<prefix>.* on n random argument tuples each, on the driver that was
    rebuilt against the regenerated kernels. Returns list of (pred, args) with verdict 0."""
    from . import genpreds
    table = genpreds.write()
    drv = ctx.driver()
    if not drv:
        return None
    r = SplitMix(ctx.seed * 7919 + 17)
    lines = []
    for key, v in sorted(table.items()):
        if not key.startswith(prefix + "."):
            continue
        if only and key not in only:
            continue
        for _ in range(n):
            lines.append("P %s %s" % (key, " ".join(rand_arg(r, t) for t in v["args"])))
    if not lines:
        return []
    out = ctx.run_driver(drv, "\n".join(lines) + "\n")
    bad = []
    for l, o in zip(lines, out):
        if o != "1":
            bad.append({"pred": l.split()[1], "args": l.split()[2:], "verdict": o})
    ctx.cov["evaluations"] += len(lines)
    ctx.cov["stages"]["pred_eval_" + prefix] = {"cases": len(lines), "false": len(bad)}
    return bad


# ---------------------------------------------------------------------- stateful correspondence (svh suite vs Lean driver suite)
def corr(ctx, suite, n, extra_args=(), driver_suite=None, timeout=3000):
    """Run `svh <suite>` on the real application, replay its `> ` lines on the Lean driver suite, diff the
    observation lines, collect `! check FAIL` oracle verdicts. Returns dict(trace, mismatches, oracle_fails)."""
    svh = ctx.gobuild("svh")
    drv = ctx.driver() if driver_suite is not False else None
    if not svh or (driver_suite is not False and not drv):
        return None
    cmd = [svh, "-seed", str(ctx.seed), "-n", str(n), "-tier", ctx.tier] + list(extra_args) + [suite]
    try:
        rc, so, se, dt = sh(cmd, timeout=timeout, env=dict(os.environ, GOMEMLIMIT="12GiB"))
    except subprocess.TimeoutExpired:
        ctx.fail("oracle", "harness timeout in suite " + suite, "svh did not finish in %ds" % timeout, check="hang",
                 replay={"suite": suite, "seed": ctx.seed})
        return None
    if rc != 0:
        if "panic:" in se or "fatal error:" in se:
            # The application crashed the harness process: a panic outside any recoverable frame (e.g. in the goroutine of
            # baseapp's optimistic execution, which ProcessProposal starts) kills a node the same way.  The output is flushed
            # line by line, so the operations since the last `> reset` are the failing history.
            lines = so.splitlines()
            j = len(lines) - 1
            while j > 0 and not lines[j].startswith("> reset"):
                j -= 1
            k = se.find("panic:") if "panic:" in se else se.find("fatal error:")
            ctx.fail("oracle", "no_crash: the application crashed the process in suite " + suite, se[k:k + 1200], check="no_crash",
                     replay={"suite": suite, "seed": ctx.seed, "check": "no_crash", "panic": se[k:k + 3000],
                             "history": [x for x in lines[j:] if x.startswith("> ")][-80:]})
            return None
        ctx.fail("infra", "svh " + suite, (so[-1500:] + se[-1500:]))
        return None
    lines = so.splitlines()
    ins = [l[2:] for l in lines if l.startswith("> ")]
    obs = [(i, l) for i, l in enumerate(lines) if l and l[0] not in ">#!"]
    oracle = [l for l in lines if l.startswith("! ")]
    stats = {}
    for l in lines:
        if l.startswith("# stat "):
            k, v = l[7:].split("=")
            stats[k] = int(v)
    res = {"trace": lines, "mismatches": [], "oracle_fails": [], "stats": stats}
    if driver_suite is not False:
        got = ctx.run_driver(drv, "suite %s\n" % (driver_suite or suite) + "\n".join(ins) + "\n")
        for k, (i, l) in enumerate(obs):
            g = got[k] if k < len(got) else "<missing>"
            if l == "overflow":
                # LegacyDec's 2^256*10^18 range assertion fired in the implementation; the model is unbounded there.
                # The harness sends `> undo` next, so both sides continue from the same (unchanged) state.
                res.setdefault("skipped_overflow", 0)
                res["skipped_overflow"] += 1
                continue
            if g != l:
                # context: the ops since the last reset
                j = i
                while j > 0 and not lines[j].startswith("> reset"):
                    j -= 1
                res["mismatches"].append({"line": i, "impl": l, "model": g, "history": [x for x in lines[j:i + 1] if x.startswith("> ")][-40:]})
                break  # later lines depend on the diverged state
        if len(got) != len(obs) and not res["mismatches"]:
            res["mismatches"].append({"line": -1, "impl": "%d observation lines" % len(obs), "model": "%d lines" % len(got), "history": []})
    for k, l in enumerate(lines):
        if l.startswith("! ") and l.split()[2] == "FAIL":
            j = k
            while j > 0 and not lines[j].startswith("> reset"):
                j -= 1
            res["oracle_fails"].append({"check": l.split()[1], "detail": " ".join(l.split()[3:]),
                                        "history": [x for x in lines[j:k + 1] if x.startswith("> ")][-60:]})
    ctx.cov["evaluations"] += len(ins)
    ctx.cov["distinct_nontrivial"] += len(set(ins))
    ctx.cov["traces_validated_against_impl"] = ctx.cov.get("traces_validated_against_impl", 0) + sum(1 for l in ins if l.startswith("reset"))
    ctx.cov["stages"]["corr_" + suite] = {"ops": len(ins), "observations": len(obs), "oracle_checks": len(oracle),
                                          "mismatches": len(res["mismatches"]), "oracle_fails": len(res["oracle_fails"]),
                                          "wall_s": round(dt, 1), "stats": stats}
    ctx.cov["samples"] += [{"suite": suite, "trace_excerpt": lines[:6]}]
    return res


def report_corr(ctx, suite, res, known_features=None):
    """Turn a corr() result into failures. known_features(fail) -> dict of features for known-finding matching."""
    if res is None:
        return
    for m in res["mismatches"][:3]:
        ctx.fail("correspondence", "model and implementation disagree in suite " + suite,
                 "impl: %s | model: %s" % (m["impl"][:300], m["model"][:300]), replay=None)
        ctx.last_mismatch = m
    seen = set()
    for f in res["oracle_fails"]:
        feats = known_features(f) if known_features else {}
        key = (f["check"], json.dumps(feats, sort_keys=True))
        if key in seen:
            continue
        seen.add(key)
        ctx.fail("oracle", "%s: %s" % (f["check"], f["detail"]), "", replay={"suite": suite, "seed": ctx.seed, "history": f["history"]},
                 features=feats, check=f["check"])
