#!/usr/bin/env python3
"""Regenerate the findings table of DESIGN.md §6 from known_findings/*.json (entries with the same id are merged)."""
import glob, json, os, re
VERIF = os.path.dirname(os.path.dirname(os.path.abspath(__file__)))
rows, order = {}, []
for p in sorted(glob.glob(os.path.join(VERIF, "known_findings", "*.json"))):
    for f in json.load(open(p))["findings"]:
        k = f["id"]
        if k not in rows:
            rows[k] = {"props": [], "f": f}
            order.append(k)
        if f["property"] not in rows[k]["props"]:
            rows[k]["props"].append(f["property"])
        # a fixed entry of one property and a known entry of another: show both statuses
        rows[k].setdefault("status", {})[f["property"]] = (f["status"], f.get("commit_hash", ""))
def cell(s, n):
    s = re.sub(r"^fixed: property=\S+ \S+ ", "", s).replace("|", "/").replace("\n", " ")
    return s if len(s) <= n else s[:n - 1] + "…"
out = ["| status | properties | id | site | what failed / commit |", "|---|---|---|---|---|"]
nfixed = nknown = 0
for k in order:
    r = rows[k]
    sts = sorted({("fixed `%s`" % h if s == "fixed" else s) for s, h in r["status"].values()})
    if any(s == "known" for s, _ in r["status"].values()):
        nknown += 1
    else:
        nfixed += 1
    out.append("| %s | %s | %s | %s | %s |" % (" / ".join(sts), ",".join(r["props"]), k, cell(r["f"].get("site", ""), 70), cell(r["f"]["what"], 230)))
p = os.path.join(VERIF, "DESIGN.md")
s = open(p).read()
a = s.index("| status | properties | id | site | what failed / commit |")
b = s.index("\n\n", a)
s = s[:a] + "\n".join(out) + s[b:]
open(p, "w").write(s)
print(len(order), "findings:", nfixed, "fixed,", nknown, "with a known part")
