#!/usr/bin/env python3
"""Make every `fixed` entry of known_findings/*.json carry the hash of its fix commit on /repo's main branch and a
what-line of the form `fixed: property=<id> <hash> <what failed>` (agents recorded hashes of their own branches)."""
import glob, json, os, re, subprocess
VERIF = os.path.dirname(os.path.dirname(os.path.abspath(__file__)))
log = subprocess.check_output(["git", "-C", "/repo", "log", "--format=%h\t%s"]).decode().splitlines()
by_subject = {l.split("\t", 1)[1]: l.split("\t", 1)[0] for l in log}
missing = []
for p in sorted(glob.glob(os.path.join(VERIF, "known_findings", "*.json"))):
    d = json.load(open(p))
    for f in d["findings"]:
        if f.get("status") != "fixed":
            continue
        subj = (f.get("commit") or f.get("commit_subject") or "").strip()
        subj = re.sub(r"^[0-9a-f]{7,40}\s+", "", subj)
        h = by_subject.get(subj)
        if not h:
            cands = [s for s in by_subject if subj and (s.startswith(subj[:60]) or subj.startswith(s[:60]))]
            h = by_subject[cands[0]] if cands else None
            subj = cands[0] if cands else subj
        if not h:
            missing.append((f["property"], f["id"], subj))
            continue
        f["commit"] = subj
        f["commit_hash"] = h
        what = re.sub(r"^fixed: property=\S+ \S+ ", "", f.get("what", ""))
        f["what"] = "fixed: property=%s %s %s" % (f["property"], h, what)
    json.dump(d, open(p, "w"), indent=1)
print("unmatched:", missing)
