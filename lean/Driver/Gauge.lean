import Driver.Suite
import SunriseVerif.Model.Gauge
namespace Sunrise.Driver.GaugeSuite
open Sunrise Sunrise.Driver Sunrise.Gauge

def listOr (xs : List String) (sep : String) : String := if xs.isEmpty then "-" else sep.intercalate xs

def splitList (s : String) (sep : String) : List String := if s = "-" ∨ s = "" then [] else s.splitOn sep

def insertBy {α} (lt : α → α → Bool) (x : α) : List α → List α
  | [] => [x]
  | y :: t => if lt x y then x :: y :: t else y :: insertBy lt x t
def sortBy {α} (lt : α → α → Bool) (xs : List α) : List α := xs.foldr (insertBy lt) []

def showWeights (ws : List PoolWeight) : String := listOr (ws.map fun w => s!"{w.pool}:{w.weight}") ","
def showVotes (vs : List Vote) : String :=
  listOr ((sortBy (fun a b => a.sender < b.sender) vs).map fun v => s!"{v.sender}[{showWeights v.weights}]") ";"
def showGauges (gs : List GaugeRec) : String := listOr (gs.map fun g => s!"{g.prev}/{g.pool}:{g.count}") ","
def showEpoch (e : Epoch) : String :=
  s!"{e.id}:{e.startBlock}-{e.endBlock}:" ++ "{" ++ listOr (e.gauges.map fun g => s!"{g.pool}:{g.count}") "," ++ "}"
def showEpochs (es : List Epoch) : String := listOr (es.map showEpoch) ";"
def showPairs (xs : List (Nat × Int)) : String := listOr (xs.map fun x => s!"{x.1}:{x.2}") ","
def showFees (s : St) : String := listOr (s.pools.map fun p => s!"{p}:{s.bank.bal (poolFees p) bond}") ","

def parseWeightsTok (t : String) : List PoolWeight :=
  (splitList t ",").map fun x =>
    match x.splitOn ":" with
    | [p, w] => ⟨p.toNat?.getD 0, w⟩
    | _ => ⟨0, "?"⟩

def decOf (s : String) : Dec := (Dec.ofString? s).getD Dec.zero

def parseStaking (ts : List String) : Staking :=
  let vals := (splitList ((kv ts "vals").getD "-") ",").filterMap fun x =>
    match x.splitOn ":" with
    | [a, b, sh] => some (a, b.toInt?.getD 0, decOf sh)
    | _ => none
  let dels := (splitList ((kv ts "dels").getD "-") ",").filterMap fun x =>
    match x.splitOn ":" with
    | [dv, sh] =>
      match dv.splitOn ">" with
      | [d, v] => some (d, v, decOf sh)
      | _ => none
    | _ => none
  { vals := vals, dels := dels, totalBonded := kvInt ts "total" }

def step (s : St) : List String → St × List String
  | "reset" :: rest => ({ epochBlocks := kvInt rest "epochBlocks" }, [])
  | ["pool", id] => ((Gauge.step s (.addPool (id.toNat?.getD 0))).1, [])
  | ["vote", a, okS, ws] =>
    let (s', o) := Gauge.step s (.vote a (okS = "1") (parseWeightsTok ws))
    let cls := match o with | .vote c => c | _ => "?"
    (s', [s!"vote {cls} votes={showVotes s'.votes}"])
  | "block" :: rest =>
    let oks := (splitList ((kv rest "oks").getD "-") ",").map (fun x => x == "1")
    let h := kvInt rest "h"
    let (s', o) := Gauge.step s (.block h (kvInt rest "fc") oks (parseStaking rest))
    match o with
    | .block allocs _ =>
      (s', [s!"block h={h} allocs={showPairs allocs} fees={showFees s'} epochs={showEpochs s'.epochs} gauges={showGauges s'.gauges} votes={showVotes s'.votes}"])
    | _ => (s', ["halt"])
  | _ => (s, ["bad-op"])

def run := runSuite ({} : St) step
end Sunrise.Driver.GaugeSuite
