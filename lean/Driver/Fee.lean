import Driver.Suite
import SunriseVerif.Model.FeeAnte
namespace Sunrise.Driver.FeeSuite
open Sunrise Sunrise.Driver Sunrise.FeeAnte

structure St where
  cfg : Cfg := ⟨"urise", [], Dec.zero⟩
  denoms : List String := []
  names : List String := []
  bank : Bank := Bank.empty

def csv (s : String) : List String := if s = "-" then [] else s.splitOn ","

def parseCoins (s : String) : List Coin :=
  (csv s).filterMap fun t => match t.splitOn ":" with
    | [d, a] => some ⟨d, a.toInt?.getD 0⟩
    | _ => none

def parseMinGas (s : String) : List (Denom × Dec) :=
  (csv s).filterMap fun t => match t.splitOn ":" with
    | [d, a] => some (d, ⟨a.toInt?.getD 0⟩)
    | _ => none

def parseMode : String → Mode
  | "check" => .check | "recheck" => .recheck | "simulate" => .simulate | _ => .finalize

def showAcc (s : St) (n : String) : String :=
  n ++ "=" ++ ",".intercalate (s.denoms.map fun d => toString (s.bank.bal n d))

def snap (s : St) : String :=
  " ".intercalate (s.names.map (showAcc s)) ++ " supply=" ++ ",".intercalate (s.denoms.map fun d => toString (s.bank.sup d))

def users (s : St) : String :=
  " ".intercalate ((s.names.filter fun n => !n.startsWith "module:").map (showAcc s))

def step (s : St) : List String → St × List String
  | "reset" :: rest =>
    let denoms := csv ((kv rest "denoms").getD "-")
    let cfg : Cfg := ⟨(kv rest "feeDenom").getD "", csv ((kv rest "bypass").getD "-"), ⟨kvInt rest "burnRatio"⟩⟩
    let s0 : St := { cfg := cfg, denoms := denoms }
    let s1 := rest.foldl (fun (st : St) t =>
      match t.splitOn "=" with
      | [k, v] =>
        if k = "feeDenom" ∨ k = "bypass" ∨ k = "burnRatio" ∨ k = "denoms" then st else
        let vals := (v.splitOn ",").map fun x => x.toInt?.getD 0
        let pairs := denoms.zip vals
        if k = "supply" then { st with bank := pairs.foldl (fun b (d, x) => b.addSupply d x) st.bank }
        else { st with names := st.names ++ [k], bank := pairs.foldl (fun b (d, x) => b.credit k d x) st.bank }
      | _ => st) s0
    (s1, [])
  | "ante" :: rest =>
    let g := (kv rest "granter").getD "-"
    let tx : Tx := { fee := parseCoins ((kv rest "fee").getD "-"), gas := kvInt rest "gas", payer := (kv rest "payer").getD "",
                     granter := if g = "-" then none else some g, grantOk := kvInt rest "grant" = 1 }
    let (b, r) := anteStep s.cfg (parseMode ((kv rest "mode").getD "")) (kvInt rest "height") (parseMinGas ((kv rest "mingas").getD "-"))
                    (kvInt rest "others" = 1) s.bank tx
    let s' := { s with bank := b }
    if (kv rest "via").getD "" = "block" then (s', [r ++ " users " ++ users s']) else (s', [r ++ " " ++ snap s'])
  | ["send", src, dst, c] =>
    -- a plain bank transfer between two named accounts (e.g. a deposit into the x/fee module account)
    let coins := parseCoins (((c.splitOn "=").getD 1 "-"))
    let r := coins.foldl (fun (acc : Option Bank) co => acc.bind fun b => match b.send src dst co.denom co.amount with | .ok b' => some b' | _ => none) (some s.bank)
    (match r with
     | some b => let s' := { s with bank := b }; (s', ["ok " ++ snap s'])
     | none => (s, ["err " ++ snap s]))
  | ["burn", c] =>
    let (b, r) := burnStep s.cfg s.bank (parseCoins (((c.splitOn "=").getD 1 "-")))
    let s' := { s with bank := b }
    (s', [r ++ " " ++ snap s'])
  | _ => (s, ["bad-op"])

def run := runSuite ({} : St) step
end Sunrise.Driver.FeeSuite
