import Driver.Suite
import SunriseVerif.Model.Route
/-! Suite `route` (C03): replays the operations of `svh route` on Model/Route.lean.
    Pools are table-driven machines: `ext pool q|x in|out id= din= dout= amt= r=` lines recorded on the real pool
    keeper (q = Calculate…, x = dry-run of Swap… on the pre-state). A lookup that was not recorded, or a second
    swap through a pool whose table was recorded on the pre-state, yields `missing-ext` (always a disagreement). -/
namespace Sunrise.Driver.RouteSuite
open Sunrise Sunrise.Driver Sunrise.Route

structure PS where
  tab : List (String × Option Int) := []
  touched : Bool := false

def look (ps : PS) (key : String) : Res Int :=
  if ps.touched then .err "missing-ext" else
  match ps.tab.lookup key with
  | some (some v) => .ok v
  | some none => .err "pool"
  | none => .err "missing-ext"

def M : PoolSpec PS where
  calcIn ps din dout a := look ps s!"q in {din} {dout} {a}"
  swapIn ps din dout a := (look ps s!"x in {din} {dout} {a}").bind fun v => .ok (v, { ps with touched := true })
  calcOut ps din dout a := look ps s!"q out {din} {dout} {a}"
  swapOut ps din dout a := (look ps s!"x out {din} {dout} {a}").bind fun v => .ok (v, { ps with touched := true })

structure St where
  w : World PS := ⟨Bank.empty, fun _ => none⟩
  rate : Dec := Dec.zero
  denoms : List String := []
  poolIds : List Nat := []

/-! route syntax: P(din,dout,id) | S(din,dout;R;…) | L(din,dout;w,w,…;R;…) | N(din,dout) -/

def takeUntil (stop : Char → Bool) : List Char → List Char × List Char
  | [] => ([], [])
  | c :: cs => if stop c then ([], c :: cs) else let (a, b) := takeUntil stop cs; (c :: a, b)

def isSep (c : Char) : Bool := c == ',' || c == ';' || c == '(' || c == ')'

mutual
partial def parseRoute : List Char → Option (Route × List Char)
  | k :: '(' :: cs =>
    let (din, cs) := takeUntil isSep cs
    match cs with
    | ',' :: cs =>
      let (dout, cs) := takeUntil isSep cs
      let din := String.ofList din; let dout := String.ofList dout
      match k, cs with
      | 'P', ',' :: cs =>
        let (id, cs) := takeUntil isSep cs
        match cs with
        | ')' :: cs => some (.pool din dout ((String.ofList id).toNat?.getD 0), cs)
        | _ => none
      | 'N', ')' :: cs => some (.nil din dout, cs)
      | 'S', cs => match parseList cs with
        | some (rs, cs) => some (.series din dout rs, cs)
        | none => none
      | 'L', ';' :: cs =>
        let (ws, cs) := parseWeightsSeg cs
        match parseList cs with
        | some (rs, cs) => some (.parallel din dout rs ws, cs)
        | none => none
      | _, _ => none
    | _ => none
  | _ => none
/-- (";" route)* ")" -/
partial def parseList : List Char → Option (List Route × List Char)
  | ')' :: cs => some ([], cs)
  | ';' :: cs => match parseRoute cs with
    | some (r, cs) => match parseList cs with
      | some (rs, cs) => some (r :: rs, cs)
      | none => none
    | none => none
  | _ => none
/-- w,w,… up to ";" or ")" ("~" = empty string; empty segment = no weights) -/
partial def parseWeightsSeg (cs : List Char) : List String × List Char :=
  let (seg, rest) := takeUntil (fun c => c == ';' || c == ')') cs
  let s := String.ofList seg
  if s = "" then ([], rest) else ((s.splitOn ",").map (fun w => if w = "~" then "" else w), rest)
end

def encCoins (a b : Coin) : String := s!"{a.denom}:{a.amount}>{b.denom}:{b.amount}"

mutual
partial def encResult : RResult → String
  | .pool a b id => s!"P[{encCoins a b}#{id}]"
  | .series a b rs => "S[" ++ encCoins a b ++ encResults rs ++ "]"
  | .parallel a b rs => "L[" ++ encCoins a b ++ encResults rs ++ "]"
  | .none => "N[]"
partial def encResults : List RResult → String
  | [] => ""
  | r :: rs => ";" ++ encResult r ++ encResults rs
end

def insertSorted (x : String × Int) : List (String × Int) → List (String × Int)
  | [] => [x]
  | y :: ys => if x.1 < y.1 then x :: y :: ys else y :: insertSorted x ys

def dispName (a : String) : String := if a.startsWith "pool:" then "p" ++ (a.drop 5).toString else a

def showDeltas (s : St) (pre post : Bank) (names : List String) : String :=
  let items := names.foldl (fun acc a =>
    s.denoms.foldl (fun acc d =>
      let x := post.bal a d - pre.bal a d
      if x = 0 then acc else insertSorted (dispName a ++ "." ++ d, x) acc) acc) []
  if items.isEmpty then "-" else " ".intercalate (items.map fun (k, v) => s!"{k}={v}")

def names (s : St) (sender : String) : List String :=
  [sender, "a1", "module:swap"] ++ s.poolIds.map poolAddr

def clsOf {α} : Res α → String
  | .ok _ => "ok"
  | .err "missing-ext" => "missing-ext"
  | .err _ => "err"
  | .panic _ => "panic"

def clearTabs (s : St) : St :=
  { s with w := { s.w with pools := fun i => (s.w.pools i).map fun _ => ({} : PS) } }

def parseRouteStr (t : String) : Option Route :=
  match parseRoute t.toList with
  | some (r, []) => some r
  | _ => none

def step (s : St) : List String → St × List String
  | "reset" :: rest =>
    let denoms := ((kv rest "denoms").getD "").splitOn ","
    let bank0 := Bank.empty
    let provBals := (((kv rest "prov").getD "").splitOn ":").map (·.toInt?.getD 0)
    let bank1 := (denoms.zip provBals).foldl (fun b (d, x) => b.credit "a1" d x) bank0
    let poolSpecs := (((kv rest "pools").getD "").splitOn ",").filter (· ≠ "")
    let (bank2, ids) := poolSpecs.foldl (fun (b, ids) spec =>
      match spec.splitOn ":" with
      | idS :: bals =>
        let id := idS.toNat?.getD 0
        ((denoms.zip (bals.map (·.toInt?.getD 0))).foldl (fun b (d, x) => b.credit (poolAddr id) d x) b, ids ++ [id])
      | [] => (b, ids)) (bank1, [])
    ({ w := ⟨bank2, fun i => if i ∈ ids then some {} else none⟩, rate := ⟨kvInt rest "rate"⟩, denoms := denoms, poolIds := ids }, [])
  | "ext" :: "pool" :: kind :: dir :: rest =>
    let id := (kvInt rest "id").toNat
    let key := s!"{kind} {dir} {(kv rest "din").getD ""} {(kv rest "dout").getD ""} {(kv rest "amt").getD ""}"
    let v : Option Int := ((kv rest "r").getD "err").toInt?
    let pools := fun i => if i = id then (s.w.pools i).map (fun ps => { ps with tab := (key, v) :: ps.tab }) else s.w.pools i
    ({ s with w := { s.w with pools := pools } }, [])
  | "fund" :: name :: rest =>
    let b := rest.foldl (fun b t => match t.splitOn "=" with
      | [d, x] => b.credit name d (x.toInt?.getD 0)
      | _ => b) s.w.bank
    ({ s with w := { s.w with bank := b } }, [])
  | "quoteIn" :: rest =>
    match parseRouteStr ((kv rest "route").getD "") with
    | none => (s, ["bad-route"])
    | some r =>
      match queryIn M s.rate (kvInt rest "has" = 1) r (kvInt rest "amt") s.w with
      | .ok q => (s, [s!"q ok amt={q.amountOut} fee={q.fee} res={encResult q.result}"])
      | e => (s, ["q " ++ clsOf e])
  | "quoteOut" :: rest =>
    match parseRouteStr ((kv rest "route").getD "") with
    | none => (s, ["bad-route"])
    | some r =>
      match queryOut M s.rate (kvInt rest "has" = 1) r (kvInt rest "amt") s.w with
      | .ok (rr, fee, ain) => (s, [s!"q ok amt={ain} fee={fee} res={encResult rr}"])
      | e => (s, ["q " ++ clsOf e])
  | op :: rest =>
    if op = "swapIn" ∨ op = "swapOut" then
      match parseRouteStr ((kv rest "route").getD "") with
      | none => (s, ["bad-route"])
      | some r =>
        let sender := (kv rest "s").getD ""
        let prov := match (kv rest "prov").getD "-" with | "-" => none | p => some p
        let (res, w') :=
          if op = "swapIn" then msgSwapIn M s.rate sender prov r (kvInt rest "amt") (kvInt rest "min") s.w
          else msgSwapOut M s.rate sender prov r (kvInt rest "max") (kvInt rest "amt") s.w
        let d := showDeltas s s.w.bank w'.bank (names s sender)
        let s' := clearTabs { s with w := w' }
        match res with
        | .ok q => (s', [s!"ok out={q.amountOut} fee={q.fee} res={encResult q.result} | {d}"])
        | e => (s', [s!"{clsOf e} | {d}"])
    else (s, ["bad-op"])
  | [] => (s, [])

def run := runSuite ({} : St) step
end Sunrise.Driver.RouteSuite
