import Driver.Suite
import SunriseVerif.Model.DA
/-! Line-protocol suite `da` for Model/DA.lean (see harness/cmd/svh/suite_da.go for the producer). -/
namespace Sunrise.Driver.DASuite
open Sunrise Sunrise.Driver Sunrise.DA

structure DSt where
  st : St := default
  accs : List String := []
  denoms : List String := []
  vals : List (String × Bool × Bool) := []          -- pending `val` lines: name, bonded, jailed
  assigns : List (String × String × List Int) := []   -- pending `assign` lines

def joinOr (xs : List String) : String := if xs.isEmpty then "-" else ",".intercalate xs
def idxStr (ix : List Int) : String := if ix.isEmpty then "-" else ".".intercalate (ix.map toString)
def statusStr : Status → String
  | .cp => "CP" | .ch => "CH" | .ver => "VER" | .rej => "REJ"

def showSt (d : DSt) : String :=
  let s := d.st
  let items := s.items.map fun it => s!"{it.uri}:{statusStr it.status}:{it.ts}"
  let invs := s.invs.map fun x => s!"{x.uri}/{x.sender}:{idxStr x.indices}"
  let proofs := s.proofs.map fun x => s!"{x.uri}/{x.sender}:{idxStr x.indices}"
  let deps := s.deps.map fun x => s!"{x.1}>{x.2}"
  let faults := d.accs.filterMap fun a => (s.faults a).map fun n => s!"{a}:{n}"
  let bal := (daAcc :: d.accs).map fun a => ":".intercalate (a :: d.denoms.map fun dn => toString (s.bank.bal a dn))
  s!"st items={joinOr items} invs={joinOr invs} proofs={joinOr proofs} deps={joinOr deps} faults={joinOr faults} chal={s.chal} bal={joinOr bal}"

def parseIdx (t : String) : List Int :=
  if t = "-" then [] else (t.splitOn ".").filterMap String.toInt?

def parseCoins (t : String) : Coins :=
  if t = "-" then [] else (t.splitOn ",").filterMap fun c =>
    match c.splitOn ":" with
    | [d, a] => a.toInt?.map fun x => (d, x)
    | _ => none

def parseParams (ts : List String) : Params :=
  { thr := kvInt ts "thr", rf := kvInt ts "rf", epoch := kvInt ts "epoch", sft := kvInt ts "sft", frac := kvInt ts "frac",
    cp := kvInt ts "cp", pp := kvInt ts "pp", rrp := kvInt ts "rrp", vrp := kvInt ts "vrp",
    pub := parseCoins ((kv ts "pub").getD "-"), inv := parseCoins ((kv ts "inv").getD "-") }

def parseFlags (t : String) : List (Int × PFlag) :=
  if t = "-" then [] else (t.splitOn ",").filterMap fun c =>
    match c.splitOn ":" with
    | [i, f] => i.toInt?.map fun x => (x, if f = "1" then PFlag.good else if f = "0" then PFlag.bad else PFlag.malformed)
    | _ => none

def msgOut (name : String) (d : DSt) (r : St × String × List Addr) : DSt × List String :=
  let d' := { d with st := r.1 }
  (d', [s!"{name} {r.2.1}", showSt d'])

def step (d : DSt) : List String → DSt × List String
  | "reset" :: rest =>
    let s0 : St := { (default : St) with now := kvInt rest "now", height := kvInt rest "height" }
    ({ st := s0, denoms := ((kv rest "denoms").getD "").splitOn ",", accs := [] }, [])
  | "acc" :: a :: bals =>
    let bank := (d.denoms.zip bals).foldl (fun b (p : String × String) => b.credit a p.1 (p.2.toInt?.getD 0)) d.st.bank
    ({ d with accs := d.accs ++ [a], st := { d.st with bank } }, [])
  | "initparams" :: rest =>
    let d' := { d with st := { d.st with params := parseParams rest } }
    (d', [showSt d'])
  | ["publish", a, u, sh, pa] =>
    let n := (kvInt [sh] "shards").toNat; let p := (kvInt [pa] "parity").toNat
    msgOut "publish" d (DA.step d.st (.publish a u n p))
  | ["invalid", a, u, ix] => msgOut "invalid" d (DA.step d.st (.invalid a u (parseIdx ix)))
  | "proof" :: a :: v :: u :: fl :: rest =>
    msgOut "proof" d (DA.step d.st (.proof a v u (parseFlags fl) (kvInt rest "extra" != 0) (kvInt rest "exists" != 0) (kvInt rest "bonded" != 0)))
  | ["regdep", a, b] => msgOut "regdep" d (DA.step d.st (.regdep a b))
  | ["unregdep", a] => msgOut "unregdep" d (DA.step d.st (.unregdep a))
  | "setparams" :: rest => msgOut "setparams" d (DA.step d.st (.setParams (parseParams rest)))
  | "val" :: a :: rest => ({ d with vals := d.vals ++ [(a, kvInt rest "bonded" != 0, kvInt rest "jailed" != 0)] }, [])
  | ["assign", u, v, ix] => ({ d with assigns := d.assigns ++ [(u, v, parseIdx ix)] }, [])
  | ["block", dt] =>
    let env : Env := {
      active := (d.vals.filter (fun x => x.2.1)).map (·.1),
      valInfo := fun a => (d.vals.find? (fun x => x.1 == a)).map (·.2),
      assign := fun u v => ((d.assigns.find? (fun x => x.1 == u && x.2.1 == v)).map (·.2.2)).getD [],
      owners := d.accs }
    let r := DA.step d.st (.block env (dt.toInt?.getD 0))
    let d' := { d with st := r.1, vals := [], assigns := [] }
    if r.2.1 = "ok" then
      (d', [s!"block ok height={r.1.height} now={r.1.now} slashed={joinOr r.2.2}", showSt d'])
    else (d', ["block halt"])
  | _ => (d, ["bad-op"])

def run := runSuite ({} : DSt) step
end Sunrise.Driver.DASuite
