import Driver.Suite
import SunriseVerif.Model.Mint
namespace Sunrise.Driver.MintSuite
open Sunrise Sunrise.Driver Sunrise.Mint

structure DSt where
  st : St := ⟨0, 0, none⟩
  ratio : Dec := Dec.zero
  genesis : Int := 0

def showSt (s : St) : String :=
  s!"supply={s.supFee}:{s.supBond} last=" ++ (match s.last with | some t => toString t | none => "-")

def step (d : DSt) : List String → DSt × List String
  | "reset" :: rest =>
    let sup := ((kv rest "supply").getD "0:0").splitOn ":"
    let l := (kv rest "last").getD "-"
    ({ st := ⟨(sup.getD 0 "0").toInt?.getD 0, (sup.getD 1 "0").toInt?.getD 0, if l = "-" then none else l.toInt?⟩,
       ratio := ⟨kvInt rest "ratio"⟩, genesis := kvInt rest "genesis" }, [])
  | "block" :: rest =>
    let s' := Mint.block d.ratio d.genesis (kvInt rest "time") (kvInt rest "fired" = 1) d.st
    ({ d with st := s' }, [showSt s'])
  | ["setratio", r] =>
    match r.toInt? with
    | some v =>
      let (nr, ok) := Mint.setRatio d.ratio ⟨v⟩
      ({ d with ratio := nr }, [if ok then "ok" else "err"])
    | none => (d, ["bad-op"])
  | _ => (d, ["bad-op"])

def run := runSuite ({} : DSt) step
end Sunrise.Driver.MintSuite
