import Driver.Suite
import SunriseVerif.Model.Proposal
/-! Line-protocol suite `proposal` for Model/Proposal.lean (producer: harness/cmd/svh/suite_proposal.go). -/
namespace Sunrise.Driver.ProposalSuite
open Sunrise Sunrise.Driver Sunrise.Proposal

def hexVal (c : Char) : Option Nat :=
  if '0' ≤ c ∧ c ≤ '9' then some (c.toNat - '0'.toNat)
  else if 'a' ≤ c ∧ c ≤ 'f' then some (c.toNat - 'a'.toNat + 10)
  else none

def parseHexChars : List Char → Bytes
  | a :: b :: rest =>
    match hexVal a, hexVal b with
    | some x, some y => UInt8.ofNat (16 * x + y) :: parseHexChars rest
    | _, _ => []
  | _ => []

/-- token `x<hex>` -/
def parseHx (t : String) : Bytes := parseHexChars (t.toList.drop 1)

def hexDigit (n : Nat) : Char := if n < 10 then Char.ofNat (48 + n) else Char.ofNat (87 + n)
def showHx (b : Bytes) : String :=
  "x" ++ String.ofList (b.flatMap fun x => [hexDigit (x.toNat / 16), hexDigit (x.toNat % 16)])

def parseList (t : String) : List Bytes := if t = "-" then [] else (t.splitOn ",").map parseHx
def showList (l : List Bytes) : String := if l.isEmpty then "-" else ",".intercalate (l.map showHx)

def parseStatus : String → DA.Status
  | "VER" => .ver | "REJ" => .rej | "CH" => .ch | _ => .cp
def showStatus : DA.Status → String
  | .ver => "VER" | .rej => "REJ" | .ch => "CH" | .cp => "CP"

def parseItems (t : String) : List PItem :=
  if t = "-" then [] else (t.splitOn ",").filterMap fun x =>
    match x.splitOn ":" with
    | [u, st, ts, vh, fp] => some { uri := parseHx u, status := parseStatus st, ts := ts.toInt?.getD 0, vh := vh.toInt?.getD 0, rest := fp }
    | _ => none

def showItems (l : List PItem) : String :=
  if l.isEmpty then "-" else ",".intercalate (l.map fun it => s!"{showHx it.uri}:{showStatus it.status}:{it.ts}:{it.vh}:{it.rest}")

def step (s : St) : List String → St × List String
  | "reset" :: _ => ({ items := [] }, [])
  | ["state", t] =>
    let s' : St := { items := parseItems t }
    (s', [s!"verified {showList ((verified s').map (·.uri))}"])
  | ["prepare", sel] =>
    (s, [s!"prepared {showList (prepare s (parseList ((kv [sel] "sel").getD "-")))}"])
  | ["process", d, txs] =>
    let dv : Verdict := if (kv [d] "dflt").getD "accept" = "accept" then .accept else .reject
    let r := process (fun _ => dv) s (parseList ((kv [txs] "txs").getD "-"))
    (s, [match r with
      | .ok .accept => "process accept"
      | .ok .reject => "process reject"
      | .err _ => "process err"
      | .panic _ => "process panic"])
  | ["preblock", h, txs] =>
    -- the branch is discarded by the harness: the state stays
    (s, [match preBlock true s (kvInt [h] "h") (parseList ((kv [txs] "txs").getD "-")) with
      | .ok s' => s!"preblock ok {showItems s'.items}"
      | _ => "preblock err"])
  | ["unmarshal", t] =>
    (s, [match unmarshal (parseHx t) with
      | some u => s!"um ok {showHx u}"
      | none => "um err"])
  | ["marshal", t] => (s, [s!"m {showHx (marshal (parseHx t))}"])
  | _ => (s, ["bad-op"])

def run := runSuite ({ items := [] } : St) step
end Sunrise.Driver.ProposalSuite
