import Driver.Kern
import Driver.Preds
open Sunrise.Driver

def evalLine (line : String) : String :=
  match (line.trimAscii.toString.splitOn " ").filter (· ≠ "") with
  | "D" :: rest => evalD rest
  | "K" :: rest => evalK rest
  | "P" :: rest => evalP rest
  | _ => "bad-op"

partial def loop (h : IO.FS.Stream) (out : IO.FS.Stream) : IO Unit := do
  let line ← h.getLine
  if line.isEmpty then return ()
  out.putStrLn (evalLine line)
  loop h out

def main : IO Unit := do
  let out ← IO.getStdout
  loop (← IO.getStdin) out
  out.flush
