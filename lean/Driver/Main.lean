import Driver.Kern
import Driver.KernShare
import Driver.Preds
import Driver.Suite
import Driver.Convert
import Driver.CL
import Driver.ShareClass
import Driver.Route
import Driver.Lockup
import Driver.LockupMV
import Driver.IbcSwap
import Driver.Untrusted
import Driver.Fee
import Driver.Mint
import Driver.GovTally
import Driver.Gauge
import Driver.RS
import Driver.DA
import Driver.Proposal
open Sunrise.Driver

def evalLine (line : String) : String :=
  match tokens line with
  | "D" :: rest => evalD rest
  | "K" :: rest => evalK rest
  | "KS" :: rest => evalKS rest
  | "P" :: rest => evalP rest
  | "R" :: rest => evalR rest
  | _ => "bad-op"

partial def loop (h : IO.FS.Stream) (out : IO.FS.Stream) : IO Unit := do
  let line ← h.getLine
  if line.isEmpty then return ()
  out.putStrLn (evalLine line)
  loop h out

/-- stateful suites: first input line `suite <name>` -/
def suites : List (String × (IO.FS.Stream → IO.FS.Stream → IO Unit)) :=
  [("convert", ConvertSuite.run)] ++
  [("cl", CLSuite.run)] ++
  [("share", ShareSuite.run)] ++
  [("route", RouteSuite.run)] ++
  [("lockup", LockupSuite.run)] ++
  [("lockupmv", LockupMVSuite.run)] ++
  [("ibc", IbcSuite.run)] ++
  [("untrusted", UntrustedSuite.run)] ++
  [("fee", FeeSuite.run)] ++
  [("mint", MintSuite.run)] ++
  [("govtally", GovTallySuite.run)] ++
  [("gauge", GaugeSuite.run)] ++
  [("rs", RSSuite.run)] ++
  [("da", DASuite.run)] ++
  [("proposal", ProposalSuite.run)] ++
  []

def main : IO Unit := do
  let out ← IO.getStdout
  let inp ← IO.getStdin
  let first ← inp.getLine
  match tokens first with
  | ["suite", name] =>
    match suites.lookup name with
    | some f => f inp out
    | none => out.putStrLn "bad-suite"
  | _ =>
    if !first.isEmpty then out.putStrLn (evalLine first)
    loop inp out
  out.flush
