import Driver.Suite
import SunriseVerif.Model.Untrusted
/-! C15 suite: `memo <json tokens>|!` → `memo decode=<cls> validate=<cls|->`, `route <route tokens>` → `route <cls>` -/
namespace Sunrise.Driver.UntrustedSuite
open Sunrise Sunrise.Untrusted Sunrise.Driver

def hexVal (c : Char) : Nat :=
  if c.isDigit then c.toNat - '0'.toNat else if 'a' ≤ c ∧ c ≤ 'f' then c.toNat - 'a'.toNat + 10 else 0

def unhex (s : String) : String :=
  let rec go : List Char → ByteArray → ByteArray
    | a :: b :: rest, acc => go rest (acc.push (UInt8.ofNat (hexVal a * 16 + hexVal b)))
    | _, acc => acc
  let bs := go s.toList ByteArray.empty
  match String.fromUTF8? bs with
  | some r => r
  | none => "?"

def tail1 (s : String) : String := String.ofList (s.toList.drop 1)

mutual
partial def parseJ : List String → Option (J × List String)
  | [] => none
  | t :: rest =>
    match t.toList.head? with
    | some 'n' => some (.null, rest)
    | some 't' => some (.bool true, rest)
    | some 'f' => some (.bool false, rest)
    | some '#' => some (.num (tail1 t), rest)
    | some 's' => some (.str (unhex (tail1 t)), rest)
    | some '[' => parseArr ((tail1 t).toNat?.getD 0) rest
    | some '{' => parseObj ((tail1 t).toNat?.getD 0) rest
    | _ => none
partial def parseArr : Nat → List String → Option (J × List String)
  | 0, rest => some (.anil, rest)
  | n + 1, rest => do
    let (h, r1) ← parseJ rest
    let (tl, r2) ← parseArr n r1
    pure (.acons h tl, r2)
partial def parseObj : Nat → List String → Option (J × List String)
  | 0, rest => some (.onil, rest)
  | n + 1, k :: rest => do
    let (v, r1) ← parseJ rest
    let (tl, r2) ← parseObj n r1
    pure (.ocons (unhex (tail1 k)) v tl, r2)
  | _, [] => none
end

mutual
partial def parseRoute : List String → Option (Route × List String)
  | "R" :: di :: dou :: st :: rest =>
    let din := unhex (tail1 di); let dout := unhex (tail1 dou)
    if st = "U" then some (.unknown din dout, rest)
    else if st = "Pn" then some (.poolNil din dout, rest)
    else if st = "Sn" then some (.seriesNil din dout, rest)
    else if st = "Ln" then some (.parallelNil din dout, rest)
    else match st.toList.head? with
      | some 'P' => some (.pool din dout ((tail1 st).toNat?.getD 0), rest)
      | some 'S' => do
        let (rs, r1) ← parseRoutes ((tail1 st).toNat?.getD 0) rest
        pure (.series din dout rs, r1)
      | some 'L' => do
        let (rs, r1) ← parseRoutes ((tail1 st).toNat?.getD 0) rest
        match r1 with
        | w :: r2 =>
          let m := (tail1 w).toNat?.getD 0
          pure (.parallel din dout rs ((r2.take m).map fun x => unhex (tail1 x)), r2.drop m)
        | [] => none
      | _ => none
  | _ => none
partial def parseRoutes : Nat → List String → Option (List Route × List String)
  | 0, rest => some ([], rest)
  | n + 1, rest => do
    let (r, r1) ← parseRoute rest
    let (rs, r2) ← parseRoutes n r1
    pure (r :: rs, r2)
end

def step (s : Unit) : List String → Unit × List String
  | ["reset"] => (s, [])
  | ["memo", "!"] =>
    let (d, v) := memoClasses none
    (s, [s!"memo decode={d} validate={v}"])
  | "memo" :: toks =>
    match parseJ toks with
    | some (j, _) =>
      let (d, v) := memoClasses (some j)
      (s, [s!"memo decode={d} validate={v}"])
    | none => (s, ["bad-memo"])
  | ["route", "Rn"] => (s, ["route " ++ (Route.validate none).cls])
  | "route" :: toks =>
    match parseRoute toks with
    | some (r, _) => (s, ["route " ++ (Route.validate (some r)).cls])
    | none => (s, ["bad-route"])
  | _ => (s, ["bad-op"])

def run := runSuite () step
end Sunrise.Driver.UntrustedSuite
