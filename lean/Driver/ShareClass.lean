import Driver.Suite
import SunriseVerif.Model.ShareClass
import SunriseVerif.Model.SCAccrualAbs
/-! Line-protocol suite `share` (harness/cmd/svh/suite_share.go): replays the recorded operations and boundary
    results on Model/ShareClass.lean and prints the observations the real application printed. -/
namespace Sunrise.Driver.ShareSuite
open Sunrise Sunrise.Driver Sunrise.ShareClass

structure DSt where
  s : ShareClass.St := default
  nAcc : Nat := 0
  nVal : Nat := 0
  accFail : List String := []   -- lock-step disagreements with the reward-accounting abstraction (SCAccrual) since the last block

def pI (s : String) : Int := s.toInt?.getD 0

def parseCoins (s : String) : Coins :=
  if s = "-" ∨ s = "" then [] else
  (s.splitOn ",").filterMap fun c => match c.splitOn ":" with
    | [d, a] => some (d, pI a)
    | _ => none

def showCoins (cs : Coins) : String :=
  if cs.isEmpty then "-" else ",".intercalate (cs.map fun c => c.1 ++ ":" ++ toString c.2)

def showSt (d : DSt) : String :=
  let b := d.s.bank
  let vals := (List.range d.nVal).map fun v => "v" ++ toString v
  let accs := (List.range d.nAcc).map fun i =>
    let a := "a" ++ toString i
    s!"{a}={b.bal a "urise"}/{b.bal a "uvrise"}" ++ String.join (vals.map fun v => "/" ++ toString (b.bal a (shareDenom v)))
  let svs := (List.range d.nVal).map fun v =>
    let vn := "v" ++ toString v
    s!"saver{v}={b.bal (saver vn) "urise"}/{b.bal (saver vn) "uvrise"} sup{v}={b.sup (shareDenom vn)}"
  " ".intercalate (accs ++ svs) ++ s!" mod={b.bal moduleAcc "urise"}/{b.bal moduleAcc "uvrise"}"

def ext (ts : List String) : StakeExt :=
  { staked := match kv ts "staked" with
      | some "none" => none
      | some x => some (pI x)
      | none => none,
    stakeOk := kv ts "stake" == some "ok",
    completion := kvInt ts "completion",
    hook := parseCoins ((kv ts "hook").getD "-") }

def accNames (d : DSt) : List String := (List.range d.nAcc).map fun i => "a" ++ toString i
def valNames (d : DSt) : List String := (List.range d.nVal).map fun v => "v" ++ toString v
def coinAmt (cs : Coins) (dn : String) : Int := ((cs.filter (·.1 == dn)).map (·.2)).foldl (· + ·) 0

/-- lock-step of one successful operation against `SCAccrual`, for every validator and reward denom; `evsOf v dn` = the
    abstract events of the operation for that pair -/
def lockstepAll (d : DSt) (before after : ShareClass.St) (tag : String) (evsOf : String → String → List SCAccrual.Ev) : List String :=
  (valNames d).foldl (fun acc v =>
    rewardDenoms.foldl (fun acc dn =>
      if SCAccrual.lockstepSC before after v dn (accNames d) (evsOf v dn) && SCAccrual.wfB (SCAccrual.absSC after v dn (accNames d))
      then acc else acc ++ [s!"{tag} {v} {dn}"]) acc) []

/-- events of a message of user `u` at validator `v`: the claim it starts with (what the saver paid) and the change of the
    user's share balance -/
def msgEvs (d : DSt) (before after : ShareClass.St) (u v : String) (v' dn : String) : List SCAccrual.Ev :=
  if v' != v then [] else
  match (accNames d).idxOf? u with
  | none => []
  | some i =>
    let pay := before.bank.bal (saver v) dn - after.bank.bal (saver v) dn
    let δ := after.bank.bal u (shareDenom v) - before.bank.bal u (shareDenom v)
    [.claim i (pay : Rat)] ++ (if δ = 0 then [] else [.setShares i δ])

def step (d : DSt) : List String → DSt × List String
  | "reset" :: rest =>
    let nAcc := (kvInt rest "accs").toNat
    let nVal := (kvInt rest "vals").toNat
    let bank := (List.range nAcc).foldl (fun (b : Bank) i =>
      let a := "a" ++ toString i
      match ((kv rest a).getD "0/0").splitOn "/" with
      | [r, vr] => (b.credit a "urise" (pI r)).credit a "uvrise" (pI vr)
      | _ => b) Bank.empty
    ({ s := ShareClass.St.init bank, nAcc := nAcc, nVal := nVal }, [])
  | "delegate" :: u :: v :: amt :: rest =>
    let (s', o) := ShareClass.step d.s (.delegate u v (pI amt) ((kv rest "denom").getD "") (ext rest))
    let fails := if o.cls == "ok" then lockstepAll d d.s s' "delegate" (msgEvs d d.s s' u v) else []
    let d' := { d with s := s', accFail := d.accFail ++ fails }
    (d', [o.cls ++ " " ++ showSt d'])
  | "undelegate" :: u :: v :: amt :: rest =>
    let (s', o) := ShareClass.step d.s (.undelegate u v (pI amt) ((kv rest "rcpt").getD u) (ext rest))
    let fails := if o.cls == "ok" then lockstepAll d d.s s' "undelegate" (msgEvs d d.s s' u v) else []
    let d' := { d with s := s', accFail := d.accFail ++ fails }
    (d', [o.cls ++ " " ++ showSt d'])
  | ["claim", u, v] =>
    let q := match claimable d.s u v with
      | .ok cs => showCoins cs
      | _ => "err"
    let (s', o) := ShareClass.step d.s (.claim u v)
    let fails := if o.cls == "ok" then lockstepAll d d.s s' "claim" (msgEvs d d.s s' u v) else []
    let d' := { d with s := s', accFail := d.accFail ++ fails }
    (d', [s!"{o.cls} claimable={q} paid={if o.cls = "ok" then showCoins o.paid else "-"} " ++ showSt d'])
  | ["query", "unbondings", u] =>
    let l := d.s.unb.filter (fun e => e.rcpt = u)
    let str := if l.isEmpty then "-" else ",".intercalate (l.map fun e => s!"{e.amount}@{e.completion}")
    (d, ["unbondings " ++ str])
  | "block" :: rest =>
    let rewards := (List.range d.nVal).map fun v =>
      ("v" ++ toString v, parseCoins ((kv rest ("reward.v" ++ toString v)).getD "-"))
    let (s', o) := ShareClass.step d.s (.block (kvInt rest "t") (kvInt rest "matured") rewards)
    let blockEvs := fun (v dn : String) =>
      match rewards.lookup v with
      | some cs =>
        if cs.all (fun c => c.2 == 0) || !(cs.any (·.1 == dn)) then []
        else if s'.bank.bal (saver v) dn - d.s.bank.bal (saver v) dn != coinAmt cs dn then []   -- forwarding failed: logged only
        else [SCAccrual.Ev.reward (coinAmt cs dn : Rat) (SCAccrual.valD (s'.mult v dn))]
      | none => []
    let fails := if o.cls == "ok" then lockstepAll d d.s s' "block" blockEvs else []
    let all := d.accFail ++ fails
    let d' := { d with s := s', accFail := [] }
    if o.cls = "ok" then (d', ["ok " ++ showSt d', if all.isEmpty then "inv ok" else "inv FAIL " ++ " | ".intercalate all])
    else (d', ["halt"])
  | _ => (d, ["bad-op"])

def run := runSuite ({} : DSt) step
end Sunrise.Driver.ShareSuite
