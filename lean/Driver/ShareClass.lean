import Driver.Suite
import SunriseVerif.Model.ShareClass
/-! Line-protocol suite `share` (harness/cmd/svh/suite_share.go): replays the recorded operations and boundary
    results on Model/ShareClass.lean and prints the observations the real application printed. -/
namespace Sunrise.Driver.ShareSuite
open Sunrise Sunrise.Driver Sunrise.ShareClass

structure DSt where
  s : ShareClass.St := default
  nAcc : Nat := 0
  nVal : Nat := 0

def pI (s : String) : Int := s.toInt?.getD 0

def parseCoins (s : String) : Coins :=
  if s = "-" ∨ s = "" then [] else
  (s.splitOn ",").filterMap fun c => match c.splitOn ":" with
    | [d, a] => some (d, pI a)
    | _ => none

def showCoins (cs : Coins) : String :=
  if cs.isEmpty then "-" else ",".intercalate (cs.map fun c => c.1 ++ ":" ++ toString c.2)

def showSt (d : DSt) : String :=
  let b := d.s.bank
  let vals := (List.range d.nVal).map fun v => "v" ++ toString v
  let accs := (List.range d.nAcc).map fun i =>
    let a := "a" ++ toString i
    s!"{a}={b.bal a "urise"}/{b.bal a "uvrise"}" ++ String.join (vals.map fun v => "/" ++ toString (b.bal a (shareDenom v)))
  let svs := (List.range d.nVal).map fun v =>
    let vn := "v" ++ toString v
    s!"saver{v}={b.bal (saver vn) "urise"}/{b.bal (saver vn) "uvrise"} sup{v}={b.sup (shareDenom vn)}"
  " ".intercalate (accs ++ svs) ++ s!" mod={b.bal moduleAcc "urise"}/{b.bal moduleAcc "uvrise"}"

def ext (ts : List String) : StakeExt :=
  { staked := match kv ts "staked" with
      | some "none" => none
      | some x => some (pI x)
      | none => none,
    stakeOk := kv ts "stake" == some "ok",
    completion := kvInt ts "completion",
    hook := parseCoins ((kv ts "hook").getD "-") }

def step (d : DSt) : List String → DSt × List String
  | "reset" :: rest =>
    let nAcc := (kvInt rest "accs").toNat
    let nVal := (kvInt rest "vals").toNat
    let bank := (List.range nAcc).foldl (fun (b : Bank) i =>
      let a := "a" ++ toString i
      match ((kv rest a).getD "0/0").splitOn "/" with
      | [r, vr] => (b.credit a "urise" (pI r)).credit a "uvrise" (pI vr)
      | _ => b) Bank.empty
    ({ s := ShareClass.St.init bank, nAcc := nAcc, nVal := nVal }, [])
  | "delegate" :: u :: v :: amt :: rest =>
    let (s', o) := ShareClass.step d.s (.delegate u v (pI amt) ((kv rest "denom").getD "") (ext rest))
    let d' := { d with s := s' }
    (d', [o.cls ++ " " ++ showSt d'])
  | "undelegate" :: u :: v :: amt :: rest =>
    let (s', o) := ShareClass.step d.s (.undelegate u v (pI amt) ((kv rest "rcpt").getD u) (ext rest))
    let d' := { d with s := s' }
    (d', [o.cls ++ " " ++ showSt d'])
  | ["claim", u, v] =>
    let q := match claimable d.s u v with
      | .ok cs => showCoins cs
      | _ => "err"
    let (s', o) := ShareClass.step d.s (.claim u v)
    let d' := { d with s := s' }
    (d', [s!"{o.cls} claimable={q} paid={if o.cls = "ok" then showCoins o.paid else "-"} " ++ showSt d'])
  | ["query", "unbondings", u] =>
    let l := d.s.unb.filter (fun e => e.rcpt = u)
    let str := if l.isEmpty then "-" else ",".intercalate (l.map fun e => s!"{e.amount}@{e.completion}")
    (d, ["unbondings " ++ str])
  | "block" :: rest =>
    let rewards := (List.range d.nVal).map fun v =>
      ("v" ++ toString v, parseCoins ((kv rest ("reward.v" ++ toString v)).getD "-"))
    let (s', o) := ShareClass.step d.s (.block (kvInt rest "t") (kvInt rest "matured") rewards)
    let d' := { d with s := s' }
    (d', [if o.cls = "ok" then "ok " ++ showSt d' else "halt"])
  | _ => (d, ["bad-op"])

def run := runSuite ({} : DSt) step
end Sunrise.Driver.ShareSuite
