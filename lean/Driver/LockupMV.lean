import Driver.Suite
import SunriseVerif.Model.LockupMV
/-! Line-protocol suite `lockupmv` for Model/LockupMV.lean: the multi-validator histories of
    harness/cmd/svh/suite_lockupmv.go (generated) and suite_lockup2.go (directed).  Same op grammar as `lockup`, except that
    `nvDelegate` / `nvUndelegate` name their validator (`v0`, `v1`, … = the chain's validators in the order of their operator
    address strings, i.e. in the order `collections.Map.Walk` visits the account's `UnbondEntries`; anything else = a validator
    that does not exist) and `reset` carries `vals=v0,v1,…`. -/
namespace Sunrise.Driver.LockupMVSuite
open Sunrise Sunrise.Driver Sunrise.LockupMV
open Sunrise.Lockup (lockInfo kBeforeStart kAfterEnd notBondedLocked fee bond lock sumUnb Ext Unb)

def pI (s : String) : Int := s.toInt?.getD 0

def ext (ts : List String) : Ext :=
  { ok := (kv ts "ext").getD "ok" == "ok", rewFee := kvInt ts "rf", rewBond := kvInt ts "rb", share := kvInt ts "sh" }

def infoStr (s : St) : String × String :=
  if !s.created then ("-", "-")
  else if !s.hasOL then ("0", "0")
  else match lockInfo s.variant s.OL s.startT s.endT s.now with
    | .ok (u, l) => (toString l, toString u)
    | .err _ => ("err", "err")
    | .panic _ => ("panic", "panic")

def spendStr (s : St) : String :=
  if !s.created then "-"
  else if !s.hasOL then "0"
  else match lockInfo s.variant s.OL s.startT s.endT s.now with
    | .panic _ => "panic"
    | .err _ => "err"
    | .ok (_, l) =>
      if kBeforeStart s.variant s.startT s.endT s.now = false ∧ kAfterEnd s.variant s.startT s.endT s.now = true then "err"
      else if blocked s then "err"
      else
        let sp := s.bank.bal lock fee - notBondedLocked s.variant l s.DV
        toString (if sp < 0 then 0 else sp)

def sclStr (l : List Unb) : String :=
  let xs := (l.filter fun u => u.who = lock).map fun u => s!"{u.completion}:{u.amount}"
  if xs.isEmpty then "-" else ",".intercalate xs

def dump (s : St) : String :=
  let b := s.bank
  let (lk, un) := infoStr s
  let dvdf := if s.created then (toString s.DV, toString s.DF) else ("-", "-")
  let dvdf := if s.created ∧ lk = "panic" then ("panic", "panic") else dvdf
  let sh := ":".intercalate (s.vals.map fun v => toString (b.bal lock (shareOf v)))
  s!"lock={b.bal lock fee}:{b.bal lock bond} sh={sh} plock={b.bal "plock" fee}:{b.bal "plock" bond} " ++
  s!"pown={b.bal "pown" fee}:{b.bal "pown" bond} a0={b.bal "a0" fee} a1={b.bal "a1" fee} a2={b.bal "a2" fee} " ++
  s!"DV={dvdf.1} DF={dvdf.2} st.plock={s.stake "plock"} st.pown={s.stake "pown"} ubd.plock={sumUnb "plock" s.ubds} " ++
  s!"ubd.pown={sumUnb "pown" s.ubds} scunb={sumUnb lock s.scUnb} scl={sclStr s.scUnb} locked={lk} unlocked={un} spendable={spendStr s}"

def parseOp (ts : List String) : Option Op :=
  match ts with
  | "init" :: v :: funder :: owner :: funds :: st :: en :: _ =>
    some (.init (if v = "nv" then .nv else .sd) funder owner (pI funds) (st = "zero") (pI st) (en = "zero") (pI en))
  | "deposit" :: src :: dst :: d :: x :: _ => some (.deposit src dst d (pI x))
  | "block" :: t :: _ => some (.block (pI t))
  | "send" :: c :: sd :: to :: d :: x :: _ => some (.send c sd to d (pI x))
  | "nvDelegate" :: c :: sd :: v :: d :: x :: r => some (.nvDelegate c sd v d (pI x) (ext r))
  | "nvUndelegate" :: c :: sd :: v :: d :: x :: r => some (.nvUndelegate c sd v d (pI x) (ext r))
  | "nvWithdrawReward" :: c :: sd :: r => some (.nvWithdrawReward c sd (ext r))
  | "sdSelfDelegate" :: c :: sd :: x :: r => some (.sdSelfDelegate c sd (pI x) (ext r))
  | "sdWithdraw" :: c :: sd :: x :: _ => some (.sdWithdraw c sd (pI x))
  | "pxUndelegate" :: d :: c :: sd :: x :: r => some (.pxUndelegate d c sd (pI x) (ext r))
  | "pxWithdrawReward" :: d :: c :: sd :: _v :: r => some (.pxWithdrawReward d c sd (ext r))
  | "pxSend" :: d :: c :: sd :: to :: dn :: x :: _ => some (.pxSend d c sd to dn (pI x))
  | "modSelfDelegate" :: d :: x :: r => some (.modSelfDelegate d (pI x) (ext r))
  | "modWithdraw" :: d :: x :: _ => some (.modWithdraw d (pI x))
  | _ => none

def acc2 (v : String) : Int × Int :=
  match v.splitOn ":" with
  | [a, b] => (pI a, pI b)
  | _ => (0, 0)

def step (s : St) (ts : List String) : St × List String :=
  match ts with
  | "reset" :: rest =>
    let bank := ["a0", "a1", "a2"].foldl (fun (b : Bank) a =>
      let (f, v) := acc2 ((kv rest a).getD "0:0"); (b.credit a fee f).credit a bond v) Bank.empty
    let vals := (((kv rest "vals").getD "").splitOn ",").filter (· ≠ "")
    ({ bank := bank, now := kvInt rest "now", height := kvInt rest "height", ut := kvInt rest "ut", vals := vals }, [])
  | _ =>
    match parseOp ts with
    | none => (s, ["bad-op"])
    | some op =>
      let (s', cls) := LockupMV.step s op
      (s', [cls ++ " " ++ dump s'])

def run := runSuite ({} : St) step
end Sunrise.Driver.LockupMVSuite
