import Driver.Suite
import SunriseVerif.Model.CL
import SunriseVerif.Model.CLAccrualAbs
import SunriseVerif.Model.CLCustodyAbs
/-! Line-protocol suite `cl` for the concentrated-liquidity model. -/
namespace Sunrise.Driver.CLSuite
open Sunrise Sunrise.Driver Sunrise.CL

structure DSt where
  s : St := {}
  prev : St := {}
  accs : List String := []
  absFail : List String := []   -- lock-step disagreements between the store-level model and the accrual abstraction
  spCache : List ((Nat × Int) × Rat) := []   -- price grid values already computed: (pool, tick) ↦ sqrt price
  slackC : List (Nat × Rat) := []   -- per pool: accumulated rounding error of the custody abstraction (CLCustody.St.slack)
  maxErr : Rat := 0                 -- largest single rounding error seen
  k : Nat := 0     -- upper bound on the banker's-rounded reward products formed so far (CLAccrual.St.k)

def dec (x : String) : Option Dec := Dec.ofString? x
def int (x : String) : Int := x.toInt?.getD 0
def nat (x : String) : Nat := x.toNat?.getD 0
def bool (x : String) : Bool := x == "1" || x == "true"

def parseCoins (x : String) : List (String × Int) :=
  if x == "-" then [] else
  (x.splitOn ",").filterMap fun c => match c.splitOn ":" with
    | [d, a] => some (d, int a)
    | _ => none

def showCoins (cs : List (String × Int)) : String :=
  if cs.isEmpty then "-" else ",".intercalate (cs.map fun c => c.1 ++ ":" ++ toString c.2)

def denoms (d : DSt) : List String :=
  (d.s.pools.foldl (fun acc p => acc ++ [p.base, p.quote]) ["urise"]).eraseDups

/-- the pool's price grid through the cache; a miss is computed on the spot (TickToSqrtPrice runs a power loop) -/
def gridOf (cache : List ((Nat × Int) × Rat)) (s : St) (pool : Nat) : Int → Rat :=
  match getPool s pool with
  | some p => fun t => match cache.lookup (pool, t) with | some v => v | none => CLCustody.spOf p.tp t
  | none => fun _ => 0

/-- extend the cache with the given ticks of pool `pool` -/
def extendGrid (cache : List ((Nat × Int) × Rat)) (s : St) (pool : Nat) (ticks : List Int) : List ((Nat × Int) × Rat) :=
  match getPool s pool with
  | some p => ticks.eraseDups.foldl (fun c t => if (c.lookup (pool, t)).isSome then c else ((pool, t), CLCustody.spOf p.tp t) :: c) cache
  | none => cache

def dumpPool (d : DSt) (id : Nat) : List String :=
  match getPool d.s id with
  | none => [s!"pool {id} absent"]
  | some p =>
    let ds := denoms d
    let balLine (a : String) := a ++ " " ++ " ".intercalate (ds.map fun dn => dn ++ "=" ++ toString (d.s.bank.bal a dn))
    [s!"pool {id} tick={p.tick} sqrtP={p.sqrtP} liq={p.liq}"]
    ++ ((d.s.ticks.filter (·.pool == id)).map fun t => s!"tick {t.tick} gross={t.gross} net={t.net} fg={DecCoins.render t.feeGrowth}")
    ++ ((d.s.positions.filter (·.pool == id)).map fun q => s!"pos {q.id} owner={q.owner} lo={q.lower} hi={q.upper} liq={q.liq}")
    ++ (match getAccum d.s id with
        | some a => [s!"accum value={DecCoins.render a.value} shares={a.totalShares}"]
        | none => ["accum absent"])
    ++ ((d.s.accPos.filter (·.pool == id)).map fun a => s!"accpos {a.posId} shares={a.shares} per={DecCoins.render a.perShare} unclaimed={DecCoins.render a.unclaimed}")
    ++ [balLine (poolAddr id), balLine (feesAddr id)] ++ d.accs.map balLine
    ++ [if !d.absFail.isEmpty then "inv FAIL lockstep " ++ " | ".intercalate d.absFail
        else match CLCustody.absC d.s id ((d.slackC.lookup id).getD 0) (gridOf d.spCache d.s id) with
          | some a => if CLCustody.invOnC a then CLAccrual.invLine d.s id ds d.k else "inv FAIL custody"
          | none => CLAccrual.invLine d.s id ds d.k]

/-- apply a handler result with transaction atomicity -/
def fin {α} (d : DSt) (r : Res (St × α)) (f : α → String) : DSt × List String :=
  match r with
  | .ok (s', a) => ({ d with s := s' }, ["ok " ++ f a])
  | .err _ => (d, ["err"])
  | .panic _ => (d, ["panic"])

def step (d : DSt) : List String → DSt × List String
  | "reset" :: rest =>
    -- reset a0=uaaa:1,ubbb:2 …
    let d1 := rest.foldl (fun (st : DSt) t =>
      match t.splitOn "=" with
      | [a, cs] => { st with accs := st.accs ++ [a],
                             s := { st.s with bank := (parseCoins cs).foldl (fun b c => b.credit a c.1 c.2) st.s.bank } }
      | _ => st) ({} : DSt)
    (d1, [])
  | ["createPool", _sender, base, quote, fee, ratio, offset] =>
    match dec fee, dec ratio, dec offset with
    | some f, some r, some o =>
      if !createPoolValid base quote f r o then (d, ["err"]) else
      let (s', id) := createPool d.s base quote f r o
      ({ d with s := s' }, [s!"ok id={id}"])
    | _, _, _ => (d, ["err"])
  | ["createPosition", a, pool, lo, hi, db, ab, dq, aq, minB, minQ] =>
    fin d (createPosition d.s a (nat pool) (int lo) (int hi) db (int ab) dq (int aq) (int minB) (int minQ))
      fun o => s!"id={o.id} base={o.base} quote={o.quote} liq={o.liq}"
  | ["increase", a, pos, ab, aq, minB, minQ] =>
    fin d (increaseLiquidity d.s a (nat pos) (int ab) (int aq) (int minB) (int minQ))
      fun o => s!"id={o.id} base={o.base} quote={o.quote}"
  | ["decrease", a, pos, liq] =>
    match dec liq with
    | some l => fin d ((decreaseLiquidity d.s a (nat pos) l).bind fun (s', b, q) => .ok (s', (b, q))) fun (b, q) => s!"base={b} quote={q}"
    | none => (d, ["err"])
  | ["claim", a, ids] =>
    fin d (claimRewards d.s a ((ids.splitOn ",").filter (· ≠ "") |>.map nat)) fun cs => "fees=" ++ showCoins cs
  | ["swapIn", a, pool, din, amt, dout, fe] =>
    fin d (swapExactIn d.s a (nat pool) din (int amt) dout (bool fe)) fun o => s!"out={o}"
  | ["swapOut", a, pool, dout, amt, din, fe] =>
    fin d (swapExactOut d.s a (nat pool) dout (int amt) din (bool fe)) fun o => s!"in={o}"
  | ["quoteIn", pool, din, amt, dout, fe] =>
    match quoteExactIn d.s (nat pool) din (int amt) dout (bool fe) with
    | .ok o => (d, [s!"ok out={o}"]) | .err _ => (d, ["err"]) | .panic _ => (d, ["panic"])
  | ["quoteOut", pool, dout, amt, din, fe] =>
    match quoteExactOut d.s (nat pool) dout (int amt) din (bool fe) with
    | .ok o => (d, [s!"ok in={o}"]) | .err _ => (d, ["err"]) | .panic _ => (d, ["panic"])
  | ["incentive", pool, a, coins] =>
    fin d ((allocateIncentive d.s (nat pool) a (parseCoins coins)).bind fun s' => .ok (s', ())) fun _ => ""
  | ["claimable", pos] =>
    match prepareClaimableFees d.s (nat pos) with
    | .ok (_, cs) => (d, ["ok fees=" ++ showCoins cs]) | .err _ => (d, ["err"]) | .panic _ => (d, ["panic"])
  | ["dump", pool] => (d, dumpPool d (nat pool))
  | ["tickOf", pool, ab, aq] =>
    -- debug: the tick an empty pool would start at for first-position amounts (base, quote)
    match getPool d.s (nat pool) with
    | some p =>
      (match (TickMath.sqrtPriceFromQuoteBase (int aq) (int ab)).bind (fun sp => TickMath.sqrtPriceToTick sp p.tp) with
       | .ok t => (d, [s!"tick={t}"])
       | _ => (d, ["err"]))
    | none => (d, ["err"])
  | ["custodyStats"] => (d, [s!"maxErr={d.maxErr} slack={d.slackC.map fun x => (x.1, x.2)}"])

  | _ => (d, ["bad-op"])

/-- the abstract operations (`CLAccrual.Op`) that the successful concrete operation `ts` amounts to for (pool, denom) -/
def absOps (before after : St) (ts : List String) (pool : Nat) (denom : String) : List CLAccrual.Op :=
  let poolOf (id : Nat) : Option Nat := (getPosition before id).map (·.pool)
  let afterTick : Int := match getPool after pool with | some p => p.tick | none => 0
  let single : Bool := (before.positions.filter (·.pool == pool)).length == 1
  match ts with
  | ["createPosition", _, p, lo, hi, _, _, _, _, _, _] =>
    if nat p != pool then [] else
    match getPosition after before.nextPos with
    | some q =>
      (if (getPool before pool).map poolLive == some false then [.moveWithin afterTick] else [])
        ++ [.openPos (int lo) (int hi) q.liq.raw]
    | none => []
  | ["decrease", _, pos, liq] =>
    if poolOf (nat pos) != some pool then [] else
    match CLAccrual.posIndex before pool (nat pos), dec liq with
    | some i, some l =>
      [.claim i, .change i (-l.raw)] ++ (if !poolHasPosition after pool then [.moveWithin 0] else [])
    | _, _ => []
  | ["increase", _, pos, _, _, _, _] =>
    if poolOf (nat pos) != some pool then [] else
    match CLAccrual.posIndex before pool (nat pos), getPosition before (nat pos), getPosition after before.nextPos with
    | some i, some q, some q' =>
      [.claim i, .change i (-q.liq.raw)] ++ (if single then [.moveWithin afterTick] else [])
        ++ [.openPos q.lower q.upper q'.liq.raw]
    | _, _, _ => []
  | ["claim", _, ids] =>
    (((ids.splitOn ",").filter (· ≠ "")).map nat).flatMap fun id =>
      if poolOf id != some pool then [] else
      match CLAccrual.posIndex before pool id with
      | some i => [.claim i]
      | none => []
  | ["incentive", p, _, coins] =>
    if nat p != pool then [] else
    ((parseCoins coins).filter (·.1 == denom)).map fun c => .fee (c.2 * PREC)
  | ["swapIn", _, p, din, _, _, _] =>
    if nat p != pool then [] else after.lastTrace.flatMap (CLAccrual.evOps (din == denom))
  | ["swapOut", _, p, _, _, din, _] =>
    if nat p != pool then [] else after.lastTrace.flatMap (CLAccrual.evOps (din == denom))
  | _ => []

/-- the custody events (`CLCustody.Ev`, with the amounts that actually moved) of the successful concrete operation `ts` -/
def custodyEvs (before after : St) (ts : List String) (pool : Nat) : List CLCustody.Ev :=
  match getPool before pool, getPool after pool with
  | some p0, some p1 =>
    let balB (s : St) : Rat := (s.bank.bal (poolAddr pool) p0.base : Int)
    let balQ (s : St) : Rat := (s.bank.bal (poolAddr pool) p0.quote : Int)
    let idx (s : St) (id : Nat) : Option Nat := (((s.positions.filter (·.pool == pool)).reverse).map (·.id)).idxOf? id
    let poolOf (id : Nat) : Option Nat := (getPosition before id).map (·.pool)
    let setP : List CLCustody.Ev := [.setPrice (CLCustody.ratOfDec p1.sqrtP) p1.tick]
    match ts with
    | ["createPosition", _, p, lo, hi, _, _, _, _, _, _] =>
      if nat p != pool then [] else
      match getPosition after before.nextPos with
      | some q => (if !poolLive p0 then setP else [])
                    ++ [.deposit (int lo) (int hi) q.liq.raw (balB after - balB before) (balQ after - balQ before)]
      | none => []
    | ["decrease", _, pos, liq] =>
      if poolOf (nat pos) != some pool then [] else
      match idx before (nat pos), dec liq with
      | some i, some l => [.withdraw i l.raw (balB before - balB after) (balQ before - balQ after)]
      | _, _ => []
    | ["increase", a, pos, _, _, _, _] =>
      if poolOf (nat pos) != some pool then [] else
      match idx before (nat pos), getPosition before (nat pos), getPosition after before.nextPos with
      | some i, some q, some q' =>
        match decreaseLiquidity before a (nat pos) q.liq with
        | .ok (s1, _, _) =>
          [.withdraw i q.liq.raw (balB before - balB s1) (balQ before - balQ s1)]
            ++ (if !poolHasPosition s1 pool then setP else [])
            ++ [.deposit q.lower q.upper q'.liq.raw (balB after - balB s1) (balQ after - balQ s1)]
        | _ => []
      | _, _, _ => []
    | ["swapIn", _, p, din, _, _, _] =>
      if nat p != pool then [] else CLCustody.swapEvs (din == p0.base) p0.tick after.lastTrace
    | ["swapOut", _, p, _, _, din, _] =>
      if nat p != pool then [] else CLCustody.swapEvs (din == p0.base) p0.tick after.lastTrace
    | _ => []
  | _, _ => []

/-- lock-step check of one successful state-changing operation over every pool and denom -/
def lockstepAll (before after : St) (ts : List String) (denoms : List String) : List String :=
  after.pools.foldl (fun acc p =>
    denoms.foldl (fun acc d =>
      if CLAccrual.lockstep before after p.id d (absOps before after ts p.id d) then acc
      else acc ++ [s!"{ts.head?.getD ""} pool={p.id} denom={d}"]) acc) []

/-- `undo` rolls back to the state before the previous op (sent by the harness after a range-assertion panic) -/
def step' (d : DSt) (ts : List String) : DSt × List String :=
  match ts with
  | ["undo"] => ({ d with s := d.prev }, [])
  | _ =>
    -- every operation rounds at most two products per position it touches (claim + re-checkpoint)
    let (d', out) := step d ts
    let mutating := ["createPosition", "decrease", "increase", "claim", "incentive", "swapIn", "swapOut"].contains (ts.head?.getD "")
    let okOp := mutating && (out.head?.getD "").startsWith "ok"
    let fails := if okOp then lockstepAll d.s d'.s ts (denoms d') else []
    -- custody abstraction: per pool, the abstract operations with the actual amounts must be admissible and commute
    let evsOf := fun (id : Nat) => custodyEvs d.s d'.s ts id
    let cache' := d'.s.pools.foldl (fun c p =>
        let need := CLCustody.ticksOfPool d'.s p.id ++ [p.tick, p.tick + 1] ++ (if okOp then CLCustody.evTicks (evsOf p.id) else [])
        extendGrid c d'.s p.id need) (if ts.head? == some "reset" then [] else d.spCache)
    let cres := if okOp then d'.s.pools.map (fun p => (p.id, CLCustody.lockstepC d.s d'.s p.id (evsOf p.id) (gridOf cache' d'.s p.id))) else []
    let cfails := cres.filterMap fun (id, ok, within, _) =>
      if !ok then some s!"custody {ts.head?.getD ""} pool={id}"
      else if !within then some s!"custody-rounding {ts.head?.getD ""} pool={id}" else none
    let slack' := cres.foldl (fun acc (id, _, _, sm) =>
      if acc.any (·.1 == id) then acc.map (fun x => if x.1 == id then (id, x.2 + sm) else x) else acc ++ [(id, sm)])
      (if ts.head? == some "reset" then [] else d.slackC)
    let maxErr' := d.maxErr
    let fails := fails ++ cfails
    ({ d' with prev := d.s, spCache := cache', slackC := slack', maxErr := maxErr', absFail := (if ts.head? == some "reset" then [] else d.absFail) ++ fails, k := if ts.head? == some "reset" then 0 else d.k + 2 * ts.foldl (fun n t => n + (t.splitOn ",").length) 1 }, out)

def run := runSuite ({} : DSt) step'
end Sunrise.Driver.CLSuite
