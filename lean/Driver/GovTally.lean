import Driver.Suite
import SunriseVerif.Model.GovTally
/-! Line-protocol suite for the custom governance tally (C16).
    ops:  reset …                       (no state: every `tally` line is self-contained)
          tally sc=<name> bonded=<int> vals=<addr>:<tokens>:<sharesRaw>,… dels=<delegator>:<validator>:<sharesRaw>,…
                votes=<voter>:<opt>/<weightRaw>+<opt>/<weightRaw>,…
    Names may contain ':' only in `module:<name>`; fields are therefore taken from the right. -/
namespace Sunrise.Driver.GovTallySuite
open Sunrise Sunrise.Driver Sunrise.GovTally

def items (s : String) : List String := (s.splitOn ",").filter (· ≠ "")

def dec (s : String) : Dec := ⟨s.toInt?.getD 0⟩

/-- split "a:b:c:d" into (name = everything before the last `n` fields, last n fields) -/
def splitRight (s : String) (n : Nat) : String × List String :=
  let ps := s.splitOn ":"
  let k := ps.length - n
  (":".intercalate (ps.take k), ps.drop k)

def parseVal (s : String) : Option Val :=
  match splitRight s 2 with
  | (nm, [t, sh]) => some { addr := nm, bonded := t.toInt?.getD 0, shares := dec sh }
  | _ => none

def parseName2 (s : String) : String × String :=
  -- "<delegator>:<validator>" where either may be "module:<x>"
  let ps := s.splitOn ":"
  match ps with
  | ["module", a, "module", b] => ("module:" ++ a, "module:" ++ b)
  | ["module", a, b] => ("module:" ++ a, b)
  | [a, "module", b] => (a, "module:" ++ b)
  | [a, b] => (a, b)
  | _ => (s, "")

def parseDel (s : String) : Option Deleg :=
  match splitRight s 1 with
  | (nm, [sh]) => let (d, v) := parseName2 nm; some { delegator := d, validator := v, shares := dec sh }
  | _ => none

def parseOpt (s : String) : Option WOpt :=
  match s.splitOn "/" with
  | [o, w] => some { opt := o.toNat?.getD 0, weight := dec w }
  | _ => none

def parseVote (s : String) : Option Vote :=
  match splitRight s 1 with
  | (nm, [os]) => some { voter := nm, options := ((os.splitOn "+").filter (· ≠ "")).filterMap parseOpt }
  | _ => none

def showRes : Res (Dec × Results) → String
  | .ok (t, r) => s!"ok {t.raw} {r.yes.raw} {r.abstain.raw} {r.no.raw} {r.veto.raw} {r.spam.raw}"
  | r => r.cls

def step (s : Unit) : List String → Unit × List String
  | "reset" :: _ => (s, [])
  | "tally" :: ts =>
    let sc := (kv ts "sc").getD ""
    let bonded := kvInt ts "bonded"
    let vs := (items ((kv ts "vals").getD "")).filterMap parseVal
    let ds := (items ((kv ts "dels").getD "")).filterMap parseDel
    let votes := (items ((kv ts "votes").getD "")).filterMap parseVote
    (s, [showRes (tally sc vs ds votes bonded)])
  | _ => (s, ["bad-op"])

def run := runSuite () step
end Sunrise.Driver.GovTallySuite
