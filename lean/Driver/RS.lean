import Driver.Suite
import SunriseVerif.Model.RS
import SunriseVerif.Model.Shards
import SunriseVerif.Model.Zk
/-! C20 suite `rs`: erasure coding / join / reconstruct, shard assignment, validity-proof relation.
    Stateless: every op line is evaluated on its own. Bytes travel as lowercase hex, `-` = zero bytes. -/
namespace Sunrise.Driver.RSSuite
open Sunrise Sunrise.Driver

def hexDigit (n : Nat) : Char := if n < 10 then Char.ofNat (48 + n) else Char.ofNat (87 + n)

def toHex (bs : List UInt8) : String :=
  if bs.isEmpty then "-" else
  String.ofList (bs.foldr (fun b acc => hexDigit (b.toNat / 16) :: hexDigit (b.toNat % 16) :: acc) [])

def hexVal (c : Char) : Nat :=
  if '0' ≤ c ∧ c ≤ '9' then c.toNat - 48 else if 'a' ≤ c ∧ c ≤ 'f' then c.toNat - 87 else 0

def ofHex (s : String) : List UInt8 :=
  if s = "-" then [] else
  let rec go : List Char → List UInt8
    | a :: b :: rest => UInt8.ofNat (hexVal a * 16 + hexVal b) :: go rest
    | _ => []
  go s.toList

def parseShard (s : String) : RS.Shard :=
  if s = "nil" then none else if s = "e" then some [] else some (ofHex s)

def showBytes : Res (List UInt8) → String
  | .ok b => "ok " ++ toHex b
  | .err _ => "err"
  | .panic _ => "panic"

def showIdx : Res (List Int) → String
  | .ok [] => "ok -"
  | .ok l => "ok " ++ ",".intercalate (l.map toString)
  | .err _ => "err"
  | .panic _ => "panic"

def int (s : String) : Int := s.toInt?.getD 0
def nat (s : String) : Nat := s.toNat?.getD 0

def step (_ : Unit) : List String → Unit × List String
  | "reset" :: _ => ((), [])
  | ["gfcheck"] => ((), [if RS.gfSelfTest then "ok" else "FAIL"])
  | ["enc", d, p, blob] =>
    match RS.erasureCode (ofHex blob) (int d) (int p) with
    | .ok e => ((), [s!"ok size={e.shardSize} count={e.shardCount} " ++ ",".intercalate (e.shards.map toHex)])
    | .err _ => ((), ["err"])
    | .panic _ => ((), ["panic"])
  | "rec" :: d :: bs :: shards => ((), [showBytes (RS.reconstructAndJoin (shards.map parseShard) (int d) (int bs))])
  | "join" :: d :: bs :: shards => ((), [showBytes (RS.joinShards (shards.map parseShard) (int d) (int bs))])
  | ["idx", n, t, s1, s2] => ((), [showIdx (Shards.assign (nat s1) (nat s2) (int n) (int t))])
  | ["idxc", n, t, cs] =>
    let l := if cs = "-" then [] else (cs.splitOn ",").map nat
    ((), [showIdx (Shards.assignWith (Shards.choiceFn ((int n).toNat - 1) l) (int n) (int t))])
  | "zkprove" :: m :: y :: _ => ((), [if decide (Zk.relBytes (fun _ => nat m) 0 (ofHex y)) then "ok" else "err"])
  | "zkverify" :: m :: y :: _ => ((), [if decide (Zk.relBytes (fun _ => nat m) 0 (ofHex y)) then "ok" else "err"])
  | ["msgvp", idx, ms, ys] =>
    let csv (x : String) : List String := if x = "-" then [] else x.splitOn ","
    let r := Zk.submitValidityProof ((csv idx).map int) ((csv ms).map nat) ((csv ys).map fun y => if y = "e" then [] else ofHex y)
    ((), [r.cls])
  | "zkdecode" :: _ => ((), [])   -- decoding of proof bytes is outside the model (oracle only)
  | _ => ((), ["bad-op"])

def run := runSuite () step
end Sunrise.Driver.RSSuite
