import Driver.Suite
import SunriseVerif.Model.IbcSwap
/-! Line-protocol suite for Model/IbcSwap (trace format: harness/cmd/svh/suite_ibc.go). -/
namespace Sunrise.Driver.IbcSuite
open Sunrise Sunrise.Driver Sunrise.IbcSwap

structure DSt where
  s : St := {}
  accts : List String := []
  denoms : List String := []

def csv (v : String) : List String := (v.splitOn ",").filter (· ≠ "")

def idxStr (i : Idx) : String := s!"{i.ch}/{i.seq}"

def slotStr : Slot → String
  | .none => "none"
  | .idx i => "idx:" ++ idxStr i
  | .ack t => if t = "" then "none" else "ack:" ++ t

def sortStrs (xs : List String) : List String := xs.mergeSort (fun a b => !(decide (b < a)))

def parseLeg (v : String) : Option LegMeta :=
  match v.splitOn "," with
  | [ch, rc, n] => some ⟨ch, rc, n.toNat?.getD 0⟩
  | _ => none

def parseMemo (ts : List String) : Memo :=
  match kv ts "memo" with
  | some "swap" =>
    let strat : Strat := match kv ts "strat" with
      | some "in" => .exactIn
      | some "out" => .exactOut ((kv ts "change").bind parseLeg)
      | _ => .nil
    let prov := match kv ts "provider" with | some "-" => none | some p => some p | none => none
    .swap { routeIn := (kv ts "rin").getD "", routeOut := (kv ts "rout").getD "", pool := (kv ts "pool").getD "pool",
            strat := strat, provider := prov, forward := (kv ts "forward").bind parseLeg }
  | some "invalid" => .invalid
  | some "panic" => .panic
  | _ => .none

def parseSwapExt (v : String) : SwapExt :=
  match v.splitOn ":" with
  | ["ok", a, b, c] => .ok (a.toInt?.getD 0) (b.toInt?.getD 0) (c.toInt?.getD 0)
  | _ => .err

def showState (d : DSt) (res : String) : List String :=
  let s := d.s
  let bal := d.accts.foldl (fun acc a => d.denoms.foldl (fun acc dn =>
      let v := s.bank.bal a dn
      if v = 0 then acc else acc ++ s!" {a}.{dn}={v}") acc) "bal"
  let incs := sortStrs (s.keys.filterMap fun i => (s.inc i).map fun r =>
      s!"{idxStr r.index}:change={slotStr r.change},forward={slotStr r.forward},in={r.resIn},out={r.resOut},fee={r.fee},ack={r.ackTok}")
  let outs := sortStrs (s.keys.filterMap fun i => (s.out i).map fun o =>
      s!"{idxStr o.index}:wait={idxStr o.wait},retries={o.retries}")
  let acks := sortStrs (s.keys.filterMap fun i => (s.acks i).map fun a => s!"{idxStr i}={a.tok}")
  let commitsOf (ch : String) : List String :=
    (List.range (s.nextSeq ch)).filterMap fun n => (s.commits ⟨ch, n⟩).map fun _ => s!"{ch}/{n}"
  [ "res " ++ res, bal, "inc " ++ " ".intercalate incs, "out " ++ " ".intercalate outs,
    "acks " ++ " ".intercalate acks, "commits " ++ " ".intercalate (commitsOf "channel-0" ++ commitsOf "channel-1") ]

def step (d : DSt) : List String → DSt × List String
  | "reset" :: rest =>
    let accts := csv ((kv rest "accts").getD "")
    let denoms := csv ((kv rest "denoms").getD "")
    let bank := (csv ((kv rest "bal").getD "")).foldl (fun (b : Bank) t =>
      match t.splitOn "~" with
      | [a, dn, v] => b.credit a dn (v.toInt?.getD 0)
      | _ => b) Bank.empty
    let seqs := (csv ((kv rest "nextseq").getD "")).filterMap fun t =>
      match t.splitOn ":" with
      | [c, n] => some (c, n.toNat?.getD 1)
      | _ => none
    let s : St := { bank := bank, nextSeq := fun c => (seqs.lookup c).getD 1 }
    ({ s := s, accts := accts, denoms := denoms }, [])
  | "transfer" :: sender :: ch :: dn :: amt :: rest =>
    let (s', r) := opTransfer d.s sender ch dn (amt.toInt?.getD 0) ((kv rest "to").getD "") (parseMemo rest)
    let d' := { d with s := s' }
    (d', showState d' r)
  | "recv" :: ch :: seq :: rest =>
    let (s', r) := opRecv d.s ch (seq.toNat?.getD 0) (parseSwapExt ((kv rest "swap").getD "-")) ((kv rest "tok").getD "-")
    let d' := { d with s := s' }
    (d', showState d' r)
  | "ack" :: ch :: seq :: _ =>
    let (s', r) := opAck d.s ch (seq.toNat?.getD 0)
    let d' := { d with s := s' }
    (d', showState d' r)
  | "timeout" :: ch :: seq :: rest =>
    let (s', r) := if (kv rest "send") = some "fail" then opTimeoutNoSend d.s ch (seq.toNat?.getD 0)
                   else opTimeout d.s ch (seq.toNat?.getD 0)
    let d' := { d with s := s' }
    (d', showState d' r)
  | _ => (d, ["bad-op"])

def run := runSuite ({} : DSt) step
end Sunrise.Driver.IbcSuite
