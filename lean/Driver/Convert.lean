import Driver.Suite
import SunriseVerif.Model.Convert
namespace Sunrise.Driver.ConvertSuite
open Sunrise Sunrise.Driver

structure St where
  bank : Bank := Bank.empty
  accs : List String := []

def show1 (s : St) : String :=
  " ".intercalate (s.accs.map fun a =>
    s!"{a}.urise={s.bank.bal a "urise"} {a}.uvrise={s.bank.bal a "uvrise"}")
  ++ s!" supply.urise={s.bank.sup "urise"} supply.uvrise={s.bank.sup "uvrise"}"

/-- ops:  reset acc=urise:uvrise … supply=urise:uvrise | convert a amt | convertReverse a amt -/
def step (s : St) : List String → St × List String
  | "reset" :: rest =>
    let s0 : St := {}
    let s1 := rest.foldl (fun (st : St) t =>
      match t.splitOn "=" with
      | [k, v] =>
        match v.splitOn ":" with
        | [r, vr] =>
          let ri := r.toInt?.getD 0; let vi := vr.toInt?.getD 0
          if k = "supply" then { st with bank := (st.bank.addSupply "urise" ri).addSupply "uvrise" vi }
          else { st with accs := st.accs ++ [k], bank := (st.bank.credit k "urise" ri).credit k "uvrise" vi }
        | _ => st
      | _ => st) s0
    (s1, [])
  | ["convert", a, amt] =>
    let (b, r) := Convert.msgConvert "uvrise" "urise" s.bank a (amt.toInt?.getD 0)
    let s' := { s with bank := b }
    (s', [r ++ " " ++ show1 s'])
  | ["convertReverse", a, amt] =>
    match Convert.convertReverse "uvrise" "urise" s.bank a (amt.toInt?.getD 0) with
    | .ok b => let s' := { s with bank := b }; (s', ["ok " ++ show1 s'])
    | r => (s, [r.cls ++ " " ++ show1 s])
  | _ => (s, ["bad-op"])

def run := runSuite ({} : St) step
end Sunrise.Driver.ConvertSuite
