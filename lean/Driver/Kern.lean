import SunriseVerif.Model.Dec
import SunriseVerif.Gen.KernelsCL
import SunriseVerif.Model.TickKey
import SunriseVerif.Model.TickMath
/-! Line-protocol evaluation of the Dec primitives (`D …`) and regenerated kernels (`K …`). -/
namespace Sunrise.Driver
open Sunrise Sunrise.Gen.KernelsCL

def pInt (s : String) : Int := s.toInt?.getD 0
def pDec (s : String) : Dec := ⟨pInt s⟩
def pBool (s : String) : Bool := s == "1"
def r (d : Dec) : String := toString d.raw
def g (ok : Bool) (v : String) : String := if ok then v else "panic"
def r4 (t : Dec × Dec × Dec × Dec) : String := r t.1 ++ " " ++ r t.2.1 ++ " " ++ r t.2.2.1 ++ " " ++ r t.2.2.2

def evalD : List String → String
  | ["mul", a, b] => r (Dec.mul (pDec a) (pDec b))
  | ["mulTruncate", a, b] => r (Dec.mulTruncate (pDec a) (pDec b))
  | ["mulRoundUp", a, b] => r (Dec.mulRoundUp (pDec a) (pDec b))
  | ["quo", a, b] => g (!(pDec b).isZero) (r (Dec.quo (pDec a) (pDec b)))
  | ["quoTruncate", a, b] => g (!(pDec b).isZero) (r (Dec.quoTruncate (pDec a) (pDec b)))
  | ["quoRoundUp", a, b] => g (!(pDec b).isZero) (r (Dec.quoRoundUp (pDec a) (pDec b)))
  | ["ceil", a] => r (Dec.ceil (pDec a))
  | ["truncateInt", a] => toString (Dec.truncateInt (pDec a))
  | ["roundInt", a] => toString (Dec.roundInt (pDec a))
  | ["string", a] => toString (pDec a)
  | ["quoInt", a, k] => g (pInt k != 0) (r (Dec.quoInt (pDec a) (pInt k)))
  | ["power", a, p] => r (Dec.power (pDec a) (pInt p).toNat)
  | ["approxSqrt", a] => r (Dec.approxSqrt (pDec a))
  | _ => "bad-op"

def evalK : List String → String
  | ["LiquidityBase", a, pa, pb] => g (LiquidityBase_ok (pInt a) (pDec pa) (pDec pb)) (r (LiquidityBase (pInt a) (pDec pa) (pDec pb)))
  | ["LiquidityQuote", a, pa, pb] => g (LiquidityQuote_ok (pInt a) (pDec pa) (pDec pb)) (r (LiquidityQuote (pInt a) (pDec pa) (pDec pb)))
  | ["CalcAmountBaseDelta", l, pa, pb, u] => g (CalcAmountBaseDelta_ok (pDec l) (pDec pa) (pDec pb) (pBool u)) (r (CalcAmountBaseDelta (pDec l) (pDec pa) (pDec pb) (pBool u)))
  | ["CalcAmountQuoteDelta", l, pa, pb, u] => g (CalcAmountQuoteDelta_ok (pDec l) (pDec pa) (pDec pb) (pBool u)) (r (CalcAmountQuoteDelta (pDec l) (pDec pa) (pDec pb) (pBool u)))
  | ["NextBaseIn", c, l, a] => g (GetNextSqrtPriceFromAmountBaseInRoundingUp_ok (pDec c) (pDec l) (pDec a)) (r (GetNextSqrtPriceFromAmountBaseInRoundingUp (pDec c) (pDec l) (pDec a)))
  | ["NextBaseOut", c, l, a] => g (GetNextSqrtPriceFromAmountBaseOutRoundingUp_ok (pDec c) (pDec l) (pDec a)) (r (GetNextSqrtPriceFromAmountBaseOutRoundingUp (pDec c) (pDec l) (pDec a)))
  | ["NextQuoteIn", c, l, a] => g (GetNextSqrtPriceFromAmountQuoteInRoundingDown_ok (pDec c) (pDec l) (pDec a)) (r (GetNextSqrtPriceFromAmountQuoteInRoundingDown (pDec c) (pDec l) (pDec a)))
  | ["NextQuoteOut", c, l, a] => g (GetNextSqrtPriceFromAmountQuoteOutRoundingDown_ok (pDec c) (pDec l) (pDec a)) (r (GetNextSqrtPriceFromAmountQuoteOutRoundingDown (pDec c) (pDec l) (pDec a)))
  | ["GetLiquidityFromAmounts", c, pa, pb, ab, aq] => g (GetLiquidityFromAmounts_ok (pDec c) (pDec pa) (pDec pb) (pInt ab) (pInt aq)) (r (GetLiquidityFromAmounts (pDec c) (pDec pa) (pDec pb) (pInt ab) (pInt aq)))
  | ["TickToSqrtPrice", t, ratio, off] =>
    (match Sunrise.TickMath.tickToSqrtPrice (pInt t) ⟨pDec ratio, pDec off⟩ with
     | .ok v => r v | .err _ => "err" | .panic _ => "panic")
  | ["SqrtPriceToTick", sp, ratio, off] =>
    (match Sunrise.TickMath.sqrtPriceToTick (pDec sp) ⟨pDec ratio, pDec off⟩ with
     | .ok v => toString v | .err _ => "err" | .panic _ => "panic")
  | ["TickIndexToBytes", t] => " ".intercalate ((Sunrise.TickKey.bytes (pInt t)).map toString)
  | ["IsCurrentTickInRange", c, lo, hi] => if IsCurrentTickInRange (pInt c) (pInt lo) (pInt hi) then "1" else "0"
  | ["bfq_OutGivenIn", lim, fee, c, t, l, a] => g (bfq_ComputeSwapWithinBucketOutGivenIn_ok (pDec lim) (pDec fee) (pDec c) (pDec t) (pDec l) (pDec a)) (r4 (bfq_ComputeSwapWithinBucketOutGivenIn (pDec lim) (pDec fee) (pDec c) (pDec t) (pDec l) (pDec a)))
  | ["bfq_InGivenOut", lim, fee, c, t, l, a] => g (bfq_ComputeSwapWithinBucketInGivenOut_ok (pDec lim) (pDec fee) (pDec c) (pDec t) (pDec l) (pDec a)) (r4 (bfq_ComputeSwapWithinBucketInGivenOut (pDec lim) (pDec fee) (pDec c) (pDec t) (pDec l) (pDec a)))
  | ["qfb_OutGivenIn", lim, fee, c, t, l, a] => g (qfb_ComputeSwapWithinBucketOutGivenIn_ok (pDec lim) (pDec fee) (pDec c) (pDec t) (pDec l) (pDec a)) (r4 (qfb_ComputeSwapWithinBucketOutGivenIn (pDec lim) (pDec fee) (pDec c) (pDec t) (pDec l) (pDec a)))
  | ["qfb_InGivenOut", lim, fee, c, t, l, a] => g (qfb_ComputeSwapWithinBucketInGivenOut_ok (pDec lim) (pDec fee) (pDec c) (pDec t) (pDec l) (pDec a)) (r4 (qfb_ComputeSwapWithinBucketInGivenOut (pDec lim) (pDec fee) (pDec c) (pDec t) (pDec l) (pDec a)))
  | ["bfq_GetSqrtTargetPrice", lim, fee, p] => r (bfq_GetSqrtTargetPrice (pDec lim) (pDec fee) (pDec p))
  | ["qfb_GetSqrtTargetPrice", lim, fee, p] => r (qfb_GetSqrtTargetPrice (pDec lim) (pDec fee) (pDec p))
  | ["bfq_ValidateSqrtPrice", lim, fee, p, c] => if bfq_ValidateSqrtPrice_err (pDec lim) (pDec fee) (pDec p) (pDec c) then "err" else "ok"
  | ["qfb_ValidateSqrtPrice", lim, fee, p, c] => if qfb_ValidateSqrtPrice_err (pDec lim) (pDec fee) (pDec p) (pDec c) then "err" else "ok"
  | ["bfq_NextTickAfterCrossing", lim, fee, t] => toString (bfq_NextTickAfterCrossing (pDec lim) (pDec fee) (pInt t))
  | ["qfb_NextTickAfterCrossing", lim, fee, t] => toString (qfb_NextTickAfterCrossing (pDec lim) (pDec fee) (pInt t))
  | ["bfq_GetLiquidityDeltaSign", lim, fee, d] => r (bfq_GetLiquidityDeltaSign (pDec lim) (pDec fee) (pDec d))
  | ["qfb_GetLiquidityDeltaSign", lim, fee, d] => r (qfb_GetLiquidityDeltaSign (pDec lim) (pDec fee) (pDec d))
  | _ => "bad-op"

end Sunrise.Driver
