import SunriseVerif.Model.Dec
import SunriseVerif.Gen.KernelsCL
import SunriseVerif.Model.TickKey
import SunriseVerif.Model.TickMath
/-! Line-protocol evaluation of the Dec primitives (`D …`) and regenerated kernels (`K …`). -/
namespace Sunrise.Driver
open Sunrise Sunrise.Gen.KernelsCL

def pInt (s : String) : Int := s.toInt?.getD 0
def pDec (s : String) : Dec := ⟨pInt s⟩
def pBool (s : String) : Bool := s == "1"
def r (d : Dec) : String := toString d.raw
def g (ok : Bool) (v : String) : String := if ok then v else "panic"
def r4 (t : Dec × Dec × Dec × Dec) : String := r t.1 ++ " " ++ r t.2.1 ++ " " ++ r t.2.2.1 ++ " " ++ r t.2.2.2

def evalD : List String → String
  | ["mul", a, b] => r (Dec.mul (pDec a) (pDec b))
  | ["mulTruncate", a, b] => r (Dec.mulTruncate (pDec a) (pDec b))
  | ["mulRoundUp", a, b] => r (Dec.mulRoundUp (pDec a) (pDec b))
  | ["quo", a, b] => g (!(pDec b).isZero) (r (Dec.quo (pDec a) (pDec b)))
  | ["quoTruncate", a, b] => g (!(pDec b).isZero) (r (Dec.quoTruncate (pDec a) (pDec b)))
  | ["quoRoundUp", a, b] => g (!(pDec b).isZero) (r (Dec.quoRoundUp (pDec a) (pDec b)))
  | ["ceil", a] => r (Dec.ceil (pDec a))
  | ["truncateInt", a] => toString (Dec.truncateInt (pDec a))
  | ["roundInt", a] => toString (Dec.roundInt (pDec a))
  | ["string", a] => toString (pDec a)
  | ["quoInt", a, k] => g (pInt k != 0) (r (Dec.quoInt (pDec a) (pInt k)))
  | ["power", a, p] => r (Dec.power (pDec a) (pInt p).toNat)
  | ["approxSqrt", a] => r (Dec.approxSqrt (pDec a))
  | ["add", a, b] => r (Dec.add (pDec a) (pDec b))
  | ["sub", a, b] => r (Dec.sub (pDec a) (pDec b))
  | ["mulInt", a, k] => r (Dec.mulInt (pDec a) (pInt k))
  | ["truncateInt64", a] => toString (Dec.truncateInt (pDec a))
  | ["roundInt64", a] => toString (Dec.roundInt (pDec a))
  | ["int64", a] => toString (pInt a)
  | ["uint64", a] => toString (pInt a)
  | ["iadd", a, b] => toString (pInt a + pInt b)
  | ["isub", a, b] => toString (pInt a - pInt b)
  | ["imul", a, b] => toString (pInt a * pInt b)
  | _ => "bad-op"

def evalK : List String → String
  | ["LiquidityBase", a, pa, pb] => g (LiquidityBase_ok (pInt a) (pDec pa) (pDec pb)) (r (LiquidityBase (pInt a) (pDec pa) (pDec pb)))
  | ["LiquidityQuote", a, pa, pb] => g (LiquidityQuote_ok (pInt a) (pDec pa) (pDec pb)) (r (LiquidityQuote (pInt a) (pDec pa) (pDec pb)))
  | ["CalcAmountBaseDelta", l, pa, pb, u] => g (CalcAmountBaseDelta_ok (pDec l) (pDec pa) (pDec pb) (pBool u)) (r (CalcAmountBaseDelta (pDec l) (pDec pa) (pDec pb) (pBool u)))
  | ["CalcAmountQuoteDelta", l, pa, pb, u] => g (CalcAmountQuoteDelta_ok (pDec l) (pDec pa) (pDec pb) (pBool u)) (r (CalcAmountQuoteDelta (pDec l) (pDec pa) (pDec pb) (pBool u)))
  | ["NextBaseIn", c, l, a] => g (GetNextSqrtPriceFromAmountBaseInRoundingUp_ok (pDec c) (pDec l) (pDec a)) (r (GetNextSqrtPriceFromAmountBaseInRoundingUp (pDec c) (pDec l) (pDec a)))
  | ["NextBaseOut", c, l, a] => g (GetNextSqrtPriceFromAmountBaseOutRoundingUp_ok (pDec c) (pDec l) (pDec a)) (r (GetNextSqrtPriceFromAmountBaseOutRoundingUp (pDec c) (pDec l) (pDec a)))
  | ["NextQuoteIn", c, l, a] => g (GetNextSqrtPriceFromAmountQuoteInRoundingDown_ok (pDec c) (pDec l) (pDec a)) (r (GetNextSqrtPriceFromAmountQuoteInRoundingDown (pDec c) (pDec l) (pDec a)))
  | ["NextQuoteOut", c, l, a] => g (GetNextSqrtPriceFromAmountQuoteOutRoundingDown_ok (pDec c) (pDec l) (pDec a)) (r (GetNextSqrtPriceFromAmountQuoteOutRoundingDown (pDec c) (pDec l) (pDec a)))
  | ["GetLiquidityFromAmounts", c, pa, pb, ab, aq] => g (GetLiquidityFromAmounts_ok (pDec c) (pDec pa) (pDec pb) (pInt ab) (pInt aq)) (r (GetLiquidityFromAmounts (pDec c) (pDec pa) (pDec pb) (pInt ab) (pInt aq)))
  | ["TickToSqrtPrice", t, ratio, off] =>
    (match Sunrise.TickMath.tickToSqrtPrice (pInt t) ⟨pDec ratio, pDec off⟩ with
     | .ok v => r v | .err _ => "err" | .panic _ => "panic")
  | ["SqrtPriceToTick", sp, ratio, off] =>
    (match Sunrise.TickMath.sqrtPriceToTick (pDec sp) ⟨pDec ratio, pDec off⟩ with
     | .ok v => toString v | .err _ => "err" | .panic _ => "panic")
  | ["TickIndexToBytes", t] => " ".intercalate ((Sunrise.TickKey.bytes (pInt t)).map toString)
  | ["IsCurrentTickInRange", c, lo, hi] => if IsCurrentTickInRange (pInt c) (pInt lo) (pInt hi) then "1" else "0"
  | ["bfq_OutGivenIn", lim, fee, c, t, l, a] => g (bfq_ComputeSwapWithinBucketOutGivenIn_ok (pDec lim) (pDec fee) (pDec c) (pDec t) (pDec l) (pDec a)) (r4 (bfq_ComputeSwapWithinBucketOutGivenIn (pDec lim) (pDec fee) (pDec c) (pDec t) (pDec l) (pDec a)))
  | ["bfq_InGivenOut", lim, fee, c, t, l, a] => g (bfq_ComputeSwapWithinBucketInGivenOut_ok (pDec lim) (pDec fee) (pDec c) (pDec t) (pDec l) (pDec a)) (r4 (bfq_ComputeSwapWithinBucketInGivenOut (pDec lim) (pDec fee) (pDec c) (pDec t) (pDec l) (pDec a)))
  | ["qfb_OutGivenIn", lim, fee, c, t, l, a] => g (qfb_ComputeSwapWithinBucketOutGivenIn_ok (pDec lim) (pDec fee) (pDec c) (pDec t) (pDec l) (pDec a)) (r4 (qfb_ComputeSwapWithinBucketOutGivenIn (pDec lim) (pDec fee) (pDec c) (pDec t) (pDec l) (pDec a)))
  | ["qfb_InGivenOut", lim, fee, c, t, l, a] => g (qfb_ComputeSwapWithinBucketInGivenOut_ok (pDec lim) (pDec fee) (pDec c) (pDec t) (pDec l) (pDec a)) (r4 (qfb_ComputeSwapWithinBucketInGivenOut (pDec lim) (pDec fee) (pDec c) (pDec t) (pDec l) (pDec a)))
  | ["bfq_GetSqrtTargetPrice", lim, fee, p] => r (bfq_GetSqrtTargetPrice (pDec lim) (pDec fee) (pDec p))
  | ["qfb_GetSqrtTargetPrice", lim, fee, p] => r (qfb_GetSqrtTargetPrice (pDec lim) (pDec fee) (pDec p))
  | ["bfq_ValidateSqrtPrice", lim, fee, p, c] => if bfq_ValidateSqrtPrice_err (pDec lim) (pDec fee) (pDec p) (pDec c) then "err" else "ok"
  | ["qfb_ValidateSqrtPrice", lim, fee, p, c] => if qfb_ValidateSqrtPrice_err (pDec lim) (pDec fee) (pDec p) (pDec c) then "err" else "ok"
  | ["bfq_NextTickAfterCrossing", lim, fee, t] => toString (bfq_NextTickAfterCrossing (pDec lim) (pDec fee) (pInt t))
  | ["qfb_NextTickAfterCrossing", lim, fee, t] => toString (qfb_NextTickAfterCrossing (pDec lim) (pDec fee) (pInt t))
  | ["bfq_GetLiquidityDeltaSign", lim, fee, d] => r (bfq_GetLiquidityDeltaSign (pDec lim) (pDec fee) (pDec d))
  | ["qfb_GetLiquidityDeltaSign", lim, fee, d] => r (qfb_GetLiquidityDeltaSign (pDec lim) (pDec fee) (pDec d))
  | ["SquareRoundUp", a] => r (SquareRoundUp (pDec a))
  | ["SquareTruncate", a] => r (SquareTruncate (pDec a))
  | _ => "bad-op"

/-! Range assertions (`R <op line>`): `1` = every range assertion of cosmossdk.io/math on the path holds (`f_rng`),
`0` = one of them fires (Go panics with "Int overflow" / "integer overflow" / "… out of bound"), `-` = the op has no range guard
(hand-written tick math, rendering). -/
def b (x : Bool) : String := if x then "1" else "0"

def evalR : List String → String
  | ["D", "mul", a, c] => b (Dec.mul (pDec a) (pDec c)).inRng
  | ["D", "mulTruncate", a, c] => b (Dec.mulTruncate (pDec a) (pDec c)).inRng
  | ["D", "mulRoundUp", a, c] => b (Dec.mulRoundUp (pDec a) (pDec c)).inRng
  | ["D", "quo", a, c] => b (Dec.quo (pDec a) (pDec c)).inRng
  | ["D", "quoTruncate", a, c] => b (Dec.quoTruncate (pDec a) (pDec c)).inRng
  | ["D", "quoRoundUp", a, c] => b (Dec.quoRoundUp (pDec a) (pDec c)).inRng
  | ["D", "add", a, c] => b (Dec.add (pDec a) (pDec c)).inRng
  | ["D", "sub", a, c] => b (Dec.sub (pDec a) (pDec c)).inRng
  | ["D", "mulInt", a, k] => b (Dec.mulInt (pDec a) (pInt k)).inRng
  | ["D", "ceil", a] => b (Dec.ceil (pDec a)).inRng
  | ["D", "truncateInt", a] => b (Int256.inRange (Dec.truncateInt (pDec a)))
  | ["D", "roundInt", a] => b (Int256.inRange (Dec.roundInt (pDec a)))
  | ["D", "truncateInt64", a] => b (I64.inRange (Dec.truncateInt (pDec a)))
  | ["D", "roundInt64", a] => b (I64.inRange (Dec.roundInt (pDec a)))
  | ["D", "int64", a] => b (I64.inRange (pInt a))
  | ["D", "uint64", a] => b (U64.inRange (pInt a))
  | ["D", "iadd", a, c] => b (Int256.inRange (pInt a + pInt c))
  | ["D", "isub", a, c] => b (Int256.inRange (pInt a - pInt c))
  | ["D", "imul", a, c] => b (Int256.inRange (pInt a * pInt c))
  | ["D", "quoInt", _, _] => "1"
  | ["D", "string", _] => "1"
  | ["D", "power", a, p] => b (Dec.powerRng (pDec a) (pInt p))
  | ["K", "LiquidityBase", a, pa, pb] => b (LiquidityBase_rng (pInt a) (pDec pa) (pDec pb))
  | ["K", "LiquidityQuote", a, pa, pb] => b (LiquidityQuote_rng (pInt a) (pDec pa) (pDec pb))
  | ["K", "CalcAmountBaseDelta", l, pa, pb, u] => b (CalcAmountBaseDelta_rng (pDec l) (pDec pa) (pDec pb) (pBool u))
  | ["K", "CalcAmountQuoteDelta", l, pa, pb, u] => b (CalcAmountQuoteDelta_rng (pDec l) (pDec pa) (pDec pb) (pBool u))
  | ["K", "NextBaseIn", c, l, a] => b (GetNextSqrtPriceFromAmountBaseInRoundingUp_rng (pDec c) (pDec l) (pDec a))
  | ["K", "NextBaseOut", c, l, a] => b (GetNextSqrtPriceFromAmountBaseOutRoundingUp_rng (pDec c) (pDec l) (pDec a))
  | ["K", "NextQuoteIn", c, l, a] => b (GetNextSqrtPriceFromAmountQuoteInRoundingDown_rng (pDec c) (pDec l) (pDec a))
  | ["K", "NextQuoteOut", c, l, a] => b (GetNextSqrtPriceFromAmountQuoteOutRoundingDown_rng (pDec c) (pDec l) (pDec a))
  | ["K", "GetLiquidityFromAmounts", c, pa, pb, ab, aq] => b (GetLiquidityFromAmounts_rng (pDec c) (pDec pa) (pDec pb) (pInt ab) (pInt aq))
  | ["K", "SquareRoundUp", a] => b (SquareRoundUp_rng (pDec a))
  | ["K", "SquareTruncate", a] => b (SquareTruncate_rng (pDec a))
  | ["K", "IsCurrentTickInRange", c, lo, hi] => b (IsCurrentTickInRange_rng (pInt c) (pInt lo) (pInt hi))
  | ["K", "bfq_OutGivenIn", lim, fee, c, t, l, a] => b (bfq_ComputeSwapWithinBucketOutGivenIn_rng (pDec lim) (pDec fee) (pDec c) (pDec t) (pDec l) (pDec a))
  | ["K", "bfq_InGivenOut", lim, fee, c, t, l, a] => b (bfq_ComputeSwapWithinBucketInGivenOut_rng (pDec lim) (pDec fee) (pDec c) (pDec t) (pDec l) (pDec a))
  | ["K", "qfb_OutGivenIn", lim, fee, c, t, l, a] => b (qfb_ComputeSwapWithinBucketOutGivenIn_rng (pDec lim) (pDec fee) (pDec c) (pDec t) (pDec l) (pDec a))
  | ["K", "qfb_InGivenOut", lim, fee, c, t, l, a] => b (qfb_ComputeSwapWithinBucketInGivenOut_rng (pDec lim) (pDec fee) (pDec c) (pDec t) (pDec l) (pDec a))
  | ["K", "bfq_GetSqrtTargetPrice", lim, fee, p] => b (bfq_GetSqrtTargetPrice_rng (pDec lim) (pDec fee) (pDec p))
  | ["K", "qfb_GetSqrtTargetPrice", lim, fee, p] => b (qfb_GetSqrtTargetPrice_rng (pDec lim) (pDec fee) (pDec p))
  | ["K", "bfq_ValidateSqrtPrice", lim, fee, p, c] => b (bfq_ValidateSqrtPrice_rng (pDec lim) (pDec fee) (pDec p) (pDec c))
  | ["K", "qfb_ValidateSqrtPrice", lim, fee, p, c] => b (qfb_ValidateSqrtPrice_rng (pDec lim) (pDec fee) (pDec p) (pDec c))
  | ["K", "bfq_NextTickAfterCrossing", lim, fee, t] => b (bfq_NextTickAfterCrossing_rng (pDec lim) (pDec fee) (pInt t))
  | ["K", "qfb_NextTickAfterCrossing", lim, fee, t] => b (qfb_NextTickAfterCrossing_rng (pDec lim) (pDec fee) (pInt t))
  | ["K", "bfq_GetLiquidityDeltaSign", lim, fee, d] => b (bfq_GetLiquidityDeltaSign_rng (pDec lim) (pDec fee) (pDec d))
  | ["K", "qfb_GetLiquidityDeltaSign", lim, fee, d] => b (qfb_GetLiquidityDeltaSign_rng (pDec lim) (pDec fee) (pDec d))
  | _ => "-"

end Sunrise.Driver
