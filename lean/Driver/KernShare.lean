import SunriseVerif.Model.Dec34
import SunriseVerif.Gen.KernelsShare
import Driver.Kern
/-! Line-protocol evaluation of the Dec34 primitives and the regenerated shareclass kernels (`KS …`). -/
namespace Sunrise.Driver
open Sunrise Sunrise.Gen.KernelsShare

def pD34 (c e : String) : D34 := ⟨pInt c, pInt e⟩
def ge (err : Bool) (v : String) : String := if err then "err" else v

def evalKS : List String → String
  | ["quo", a, ae, b, be] => ge ((pD34 b be).isZero) (D34.quo (pD34 a ae) (pD34 b be)).show_
  | ["mul", a, ae, b, be] => (D34.mul (pD34 a ae) (pD34 b be)).show_
  | ["add", a, ae, b, be] => (D34.add (pD34 a ae) (pD34 b be)).show_
  | ["sub", a, ae, b, be] => (D34.sub (pD34 a ae) (pD34 b be)).show_
  | ["trim", a, ae] => toString (D34.sdkIntTrim (pD34 a ae))
  | ["reparse", a, ae] => (D34.reparse (pD34 a ae)).show_
  | ["ShareByAmount", ts, tb, am] =>
      ge (CalculateShareByAmount_err (pInt ts) (pInt tb) (pInt am)) (toString (CalculateShareByAmount (pInt ts) (pInt tb) (pInt am)))
  | ["AmountByShare", ts, tb, sh] =>
      ge (CalculateAmountByShare_err (pInt ts) (pInt tb) (pInt sh)) (toString (CalculateAmountByShare (pInt ts) (pInt tb) (pInt sh)))
  | ["Reward", m, me, u, ue, sh] =>
      ge (CalculateReward_err (pD34 m me) (pD34 u ue) (pInt sh)) (toString (CalculateReward (pD34 m me) (pD34 u ue) (pInt sh)))
  | ["MultNew", m, me, rw, ts] =>
      ge (CalculateRewardMultiplierNew_err (pD34 m me) (pInt rw) (pInt ts)) (CalculateRewardMultiplierNew (pD34 m me) (pInt rw) (pInt ts)).show_
  | _ => "bad-op"

end Sunrise.Driver
