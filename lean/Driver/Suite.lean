/-! Generic stateful line-protocol runner: `step : σ → List String → σ × List String`.
    The op `reset …` is passed to `step` like any other (suites re-initialise on it). -/
namespace Sunrise.Driver

def tokens (line : String) : List String :=
  (line.trimAscii.toString.splitOn " ").filter (· ≠ "")

partial def runSuite {σ : Type} (init : σ) (step : σ → List String → σ × List String)
    (inp out : IO.FS.Stream) : IO Unit := do
  let rec go (s : σ) : IO Unit := do
    let line ← inp.getLine
    if line.isEmpty then return ()
    let (s', outs) := step s (tokens line)
    for o in outs do out.putStrLn o
    go s'
  go init

/-- "k=v" list helpers -/
def kv (ts : List String) (k : String) : Option String :=
  ts.findSome? fun t => match t.splitOn "=" with
    | [k', v] => if k' = k then some v else none
    | _ => none

def kvInt (ts : List String) (k : String) : Int := ((kv ts k).bind String.toInt?).getD 0

end Sunrise.Driver
