example : ("ab".toList = ['a','b']) := by decide
example : (("channel-1" ++ "/").toList.isPrefixOf "channel-1/uaaa".toList) = true := by decide
example : (String.ofList ("channel-1/uaaa".toList.drop 10)) = "uaaa" := by decide
example : ("channel-1" ++ "/" ++ "uaaa") = "channel-1/uaaa" := by decide
example : ("escrow:" ++ "channel-0") = "escrow:channel-0" := by decide
