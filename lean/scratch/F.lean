import SunriseVerif.Lemmas.IbcSwap
set_option linter.unusedSimpArgs false
set_option linter.unusedVariables false
namespace Sunrise.IbcSwap
open Sunrise Sunrise.Bank

theorem send_bal {b b' : Bank} {a t : Addr} {d : Denom} {x : Int} (h : b.send a t d x = .ok b') (m : Addr) (dd : Denom) :
    b'.bal m dd = b.bal m dd - (if m = a ∧ dd = d then x else 0) + (if m = t ∧ dd = d then x else 0) := by
  obtain ⟨_, _, e⟩ := send_ok h
  subst e
  simp only [credit_bal]
  by_cases h1 : m = a ∧ dd = d <;> by_cases h2 : m = t ∧ dd = d <;> simp [h1, h2]
  · obtain ⟨e1, e2⟩ := h1; obtain ⟨e3, _⟩ := h2; subst e1 e2; subst e3; simp; omega
  · obtain ⟨e1, e2⟩ := h1; subst e1 e2
    have : ¬ (m = t) := fun e => h2 ⟨e, rfl⟩
    simp [this]; omega
  · obtain ⟨e1, e2⟩ := h2; subst e1 e2
    have : ¬ (m = a) := fun e => h1 ⟨e, rfl⟩
    simp [this]
end Sunrise.IbcSwap

namespace Sunrise.IbcSwap
open Sunrise Sunrise.Bank

theorem transferMod_ne : transferMod ≠ swapMod := by decide
theorem escrow_ne_of_counterparty {ch dst : Chan} (h : counterparty ch = some dst) : escrow ch ≠ swapMod := by
  unfold counterparty at h
  split at h
  · rename_i e; subst e; decide
  · split at h
    · rename_i e; subst e; decide
    · simp at h

theorem burn_bal {b b' : Bank} {a : Addr} {d : Denom} {x : Int} (h : b.burn a d x = .ok b') (m : Addr) (dd : Denom)
    (hm : m ≠ a) : b'.bal m dd = b.bal m dd := by
  obtain ⟨_, _, e⟩ := burn_ok h
  subst e
  simp [hm]

theorem mint_bal {b b' : Bank} {a : Addr} {d : Denom} {x : Int} (h : b.mint a d x = .ok b') (m : Addr) (dd : Denom)
    (hm : m ≠ a) : b'.bal m dd = b.bal m dd := by
  obtain ⟨_, e⟩ := mint_ok h
  subst e
  simp [hm]

/-- a transfer sent by somebody else over an existing channel does not touch the swap module's balance -/
theorem appSend_mod {b b' : Bank} {sender : Addr} {ch dst : Chan} {d : Denom} {x : Int}
    (hc : counterparty ch = some dst) (hs : sender ≠ swapMod) (h : appSend b sender ch d x = .ok b') (dd : Denom) :
    b'.bal swapMod dd = b.bal swapMod dd := by
  have hs' : swapMod ≠ sender := fun e => hs e.symm
  have ht : swapMod ≠ transferMod := fun e => transferMod_ne e.symm
  have he : swapMod ≠ escrow ch := fun e => escrow_ne_of_counterparty hc e.symm
  unfold appSend at h
  split at h
  · simp at h
  split at h
  · simp at h
  split at h
  · obtain ⟨b1, h1, h2⟩ := Sunrise.IbcSwap.bind_ok h
    rw [burn_bal h2 _ _ ht, send_bal h1]
    simp [hs', ht]
  · rw [send_bal h]; simp [hs', he]

theorem transferLeg_mod {s s' : St} {w i : Idx} {a : Addr} {d : Denom} {x : Int} {m : LegMeta}
    (hs : a ≠ swapMod) (h : transferLeg s w a d x m = .ok (s', i)) (dd : Denom) :
    s'.bank.bal swapMod dd = s.bank.bal swapMod dd := by
  unfold transferLeg at h
  split at h
  · simp at h
  · rename_i dst hc
    split at h
    · simp at h
    · split at h
      · simp at h
      · obtain ⟨b1, h1, h⟩ := Sunrise.IbcSwap.bind_ok h
        simp only [Res.ok.injEq, Prod.mk.injEq] at h
        obtain ⟨h, _⟩ := h
        subst h
        simp only [touch_bank, sendPacket_bank]
        exact appSend_mod hc hs h1 dd

theorem changeLeg_mod {s s' : St} {idx : Idx} {p : Packet} {m : SwapMeta} {rem : Int} {r r' : IncRec}
    (hs : p.receiver ≠ swapMod) (h : changeLeg s idx p m rem r = .ok (s', r')) (dd : Denom) :
    s'.bank.bal swapMod dd = s.bank.bal swapMod dd := by
  unfold changeLeg at h
  split at h
  · split at h
    · obtain ⟨⟨s3, i⟩, h1, h2⟩ := Sunrise.IbcSwap.bind_ok h
      simp only [Res.ok.injEq, Prod.mk.injEq] at h2
      obtain ⟨e1, e2⟩ := h2
      subst e1
      exact transferLeg_mod hs h1 dd
    · simp only [Res.ok.injEq, Prod.mk.injEq] at h; obtain ⟨e1, e2⟩ := h; subst e1; rfl
  · simp only [Res.ok.injEq, Prod.mk.injEq] at h; obtain ⟨e1, e2⟩ := h; subst e1; rfl

theorem forwardLeg_mod {s s' : St} {idx : Idx} {p : Packet} {m : SwapMeta} {net : Int} {r r' : IncRec}
    (hs : p.receiver ≠ swapMod) (h : forwardLeg s idx p m net r = .ok (s', r')) (dd : Denom) :
    s'.bank.bal swapMod dd = s.bank.bal swapMod dd := by
  unfold forwardLeg at h
  split at h
  · obtain ⟨⟨s3, i⟩, h1, h2⟩ := Sunrise.IbcSwap.bind_ok h
    simp only [Res.ok.injEq, Prod.mk.injEq] at h2
    obtain ⟨e1, e2⟩ := h2
    subst e1
    exact transferLeg_mod hs h1 dd
  · simp only [Res.ok.injEq, Prod.mk.injEq] at h; obtain ⟨e1, e2⟩ := h; subst e1; rfl

/-- the swap as reported by the boundary: the module pays `ai` of the input denom, receives `ao` of the output
    denom and passes the interface fee on -/
theorem applySwap_mod {b b' : Bank} {m : SwapMeta} {x : SwapExt} {ai ao fee : Int}
    (hp : m.pool ≠ swapMod) (hpr : ∀ pr, m.provider = some pr → pr ≠ swapMod)
    (hfee : 0 ≤ fee ∧ (m.provider = none → fee = 0))
    (h : applySwap b m x = .ok (b', ai, ao, fee)) (dd : Denom) :
    b'.bal swapMod dd = b.bal swapMod dd - (if dd = m.routeIn then ai else 0) + (if dd = m.routeOut then ao - fee else 0) := by
  have hp' : swapMod ≠ m.pool := fun e => hp e.symm
  unfold applySwap at h
  split at h
  · simp at h
  · rename_i ai' ao' fee'
    obtain ⟨b1, h1, h⟩ := Sunrise.IbcSwap.bind_ok h
    obtain ⟨b2, h2, h⟩ := Sunrise.IbcSwap.bind_ok h
    have e12 : b2.bal swapMod dd = b.bal swapMod dd - (if dd = m.routeIn then ai' else 0) + (if dd = m.routeOut then ao' else 0) := by
      rw [send_bal h2, send_bal h1]; simp [hp']
    split at h
    · rename_i pr hprov
      have hpr' : swapMod ≠ pr := fun e => hpr pr hprov e.symm
      split at h
      · obtain ⟨b3, h3, h⟩ := Sunrise.IbcSwap.bind_ok h
        simp only [Res.ok.injEq, Prod.mk.injEq] at h
        obtain ⟨e1, e2, e3, e4⟩ := h
        subst e1 e2 e3 e4
        rw [send_bal h3, e12]
        simp only [hpr', false_and, if_false, true_and]
        by_cases q1 : dd = m.routeOut
        · simp only [q1, if_true]
          by_cases q2 : m.routeOut = m.routeIn
          · simp only [q2, if_true]; omega
          · simp only [q2, if_false]; omega
        · simp only [q1, if_false]
          by_cases q2 : dd = m.routeIn
          · simp only [q2, if_true]; omega
          · simp only [q2, if_false]; omega
      · simp only [Res.ok.injEq, Prod.mk.injEq] at h
        obtain ⟨e1, e2, e3, e4⟩ := h
        subst e1 e2 e3 e4
        rw [e12]
        have : fee' = 0 := by omega
        simp [this]
    · rename_i hprov
      simp only [Res.ok.injEq, Prod.mk.injEq] at h
      obtain ⟨e1, e2, e3, e4⟩ := h
      subst e1 e2 e3 e4
      rw [e12]
      have : fee' = 0 := hfee.2 hprov
      simp [this]
end Sunrise.IbcSwap

namespace Sunrise.IbcSwap
open Sunrise Sunrise.Bank

/-- SwapIncomingFund + ProcessSwappedFund: of everything the module account held, exactly the swapped-in amount leaves
    it; the whole output is passed on (fee + net). Change and forward transfers are paid BY THE RECEIVER. -/
theorem swapAndProcess_mod {s s' : St} {p : Packet} {m : SwapMeta} {ai ao fee : Int} {oa : Option Ack}
    (hrc : p.receiver ≠ swapMod) (hp : m.pool ≠ swapMod) (hpr : ∀ pr, m.provider = some pr → pr ≠ swapMod)
    (hfee : 0 ≤ fee ∧ (m.provider = none → fee = 0))
    (h : swapAndProcess s p m (.ok ai ao fee) = .ok (s', oa)) (dd : Denom) :
    s'.bank.bal swapMod dd = s.bank.bal swapMod dd - (if dd = m.routeIn then ai else 0) := by
  have hrc' : swapMod ≠ p.receiver := fun e => hrc e.symm
  unfold swapAndProcess at h
  split at h
  · simp at h
  split at h
  · simp at h
  obtain ⟨⟨b1, ai', ao', fee'⟩, hsw, h'⟩ := Sunrise.IbcSwap.bind_ok h
  clear h
  have h := h'
  clear h'
  simp only at h
  have hx : ai' = ai ∧ ao' = ao ∧ fee' = fee := by
    unfold applySwap at hsw
    simp only at hsw
    obtain ⟨c1, _, hsw⟩ := Sunrise.IbcSwap.bind_ok hsw
    obtain ⟨c2, _, hsw⟩ := Sunrise.IbcSwap.bind_ok hsw
    split at hsw
    · split at hsw
      · obtain ⟨c3, _, hsw⟩ := Sunrise.IbcSwap.bind_ok hsw
        simp only [Res.ok.injEq, Prod.mk.injEq] at hsw
        exact ⟨hsw.2.1.symm, hsw.2.2.1.symm, hsw.2.2.2.symm⟩
      · simp only [Res.ok.injEq, Prod.mk.injEq] at hsw
        exact ⟨hsw.2.1.symm, hsw.2.2.1.symm, hsw.2.2.2.symm⟩
    · simp only [Res.ok.injEq, Prod.mk.injEq] at hsw
      exact ⟨hsw.2.1.symm, hsw.2.2.1.symm, hsw.2.2.2.symm⟩
  obtain ⟨x1, x2, x3⟩ := hx
  subst x1 x2 x3
  have e1 := applySwap_mod hp hpr hfee hsw dd
  by_cases hneg : ao' - fee' < 0
  · simp [hneg] at h
  simp only [hneg, if_false] at h
  by_cases hbl : blockedAddr p.receiver = true
  · simp [hbl] at h
  simp only [hbl, if_false, Bool.false_eq_true] at h
  obtain ⟨b2, h2, h⟩ := Sunrise.IbcSwap.bind_ok h
  obtain ⟨⟨s3, r1⟩, hc, h⟩ := Sunrise.IbcSwap.bind_ok h
  obtain ⟨⟨s4, r2⟩, hf, h⟩ := Sunrise.IbcSwap.bind_ok h
  have e2 := send_bal h2 swapMod dd
  have e3 := changeLeg_mod hrc hc dd
  have e4 := forwardLeg_mod hrc hf dd
  have e5 : s'.bank.bal swapMod dd = s4.bank.bal swapMod dd := by
    simp only at h
    split at h
    · simp only [Res.ok.injEq, Prod.mk.injEq] at h; rw [← h.1]; simp
    · simp only [Res.ok.injEq, Prod.mk.injEq] at h; rw [← h.1]
  rw [e5, e4, e3]
  simp only at e2 ⊢
  rw [e2, e1]
  simp only [hrc', false_and, if_false, true_and]
  by_cases q : dd = m.routeOut
  · simp only [q, if_true]; omega
  · simp only [q, if_false]; omega

/-- the transfer application delivering the incoming funds to the module account (receiveFunds) -/
theorem appRecv_mod {b b' : Bank} {p : Packet} (he : escrow p.dst ≠ swapMod) (h : appRecv b p swapMod = .ok b') (dd : Denom) :
    b'.bal swapMod dd = b.bal swapMod dd + (if dd = denomForThisChain p then p.amount else 0) := by
  have he' : swapMod ≠ escrow p.dst := fun e => he e.symm
  have ht : swapMod ≠ transferMod := fun e => transferMod_ne e.symm
  unfold appRecv at h
  unfold denomForThisChain
  split at h
  · simp at h
  split at h
  · simp at h
  split at h
  · simp at h
  split at h
  · rename_i hpre
    rw [send_bal h]; simp [he', hpre]
  · rename_i hpre
    obtain ⟨b1, h1, h2⟩ := Sunrise.IbcSwap.bind_ok h
    rw [send_bal h2, mint_bal h1 _ _ ht]; simp [ht, hpre]

end Sunrise.IbcSwap
