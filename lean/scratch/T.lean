import SunriseVerif.Props.C11
open Sunrise Sunrise.IbcSwap Sunrise.C11
#print axioms Sunrise.C11.one_ack
#print axioms Sunrise.C11.no_refund_and_resend_partial
#print axioms Sunrise.C11.timeout_resends_with_retry_left
#print axioms Sunrise.C11.failed_swap_refused
theorem bogus : (1 : Nat) = 2 := by simp
