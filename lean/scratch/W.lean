import SunriseVerif.Props.C11
namespace Sunrise.C11.Witness
open Sunrise Sunrise.IbcSwap Sunrise.C11

def bankW : Bank := ((Bank.empty.credit "escrow:channel-0" "uaaa" 2000).credit "pool0" "ubbb" 5000).credit "a1" "uaaa" 1000

def pktW (change : Option LegMeta) : Packet :=
  { src := "channel-1", dst := "channel-0", seq := 3, denom := "channel-1/uaaa", amount := 1081, sender := "a0", receiver := "a1",
    memo := .swap { routeIn := "uaaa", routeOut := "ubbb", pool := "pool0", strat := .exactOut change, provider := none, forward := none } }

def stW (change : Option LegMeta) : St := { bank := bankW }

example : (onRecv (stW none) (pktW none) (.ok 363 360 0)).isOk = true := by decide
end Sunrise.C11.Witness
