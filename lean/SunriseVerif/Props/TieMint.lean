import SunriseVerif.Model.Mint
import SunriseVerif.Gen.KernelsTieMint
/-!
Tie between `Model/Mint.lean` and app/mint/mint.go / inflation.go for the hand-modelled clamps and guards: the one-step
clamp `blockProvision ≤ annualProvision` (F-C13-1), the three `IsPositive` guards around the mints and the
`current.Before(genesis)` test of `yearsSinceGenesis` are REGENERATED (`Gen/KernelsTieMint.lean`) and proved equal to
`clampBlock`, the tests of `mintFn` and of `yearsSinceGenesis`.
-/
namespace Sunrise.TieMint
open Sunrise Sunrise.Mint Sunrise.Gen.KernelsTieMint

/-- mint.go:82-84 `if blockProvision.GT(annualProvision) { blockProvision = annualProvision }` — `clampBlock` -/
theorem clampBlock_eq_gen (ann block : Int) : clampBlock ann block = if mint_clampNeeded block ann then ann else block := by
  unfold clampBlock mint_clampNeeded; by_cases h : block > ann <;> simp [h]

/-- mint.go:86,102,113 `x.IsPositive()` — `mintFn`'s `block > 0`, `fee > 0`, `bond > 0` -/
theorem positive_guards_eq_gen (x : Int) :
    decide (x > 0) = mint_anything x ∧ decide (x > 0) = mint_feePositive x ∧ decide (x > 0) = mint_bondPositive x := ⟨rfl, rfl, rfl⟩

/-- `mintFn` mints nothing (it only records the time) when the regenerated guard of mint.go:86 is false -/
theorem mintFn_nothing_gen (ratio : Dec) (g now : Int) (s : St) (h : mint_anything (provision g now s) = false) :
    mintFn ratio g now s = { s with last := some (unix now) } := by
  unfold mint_anything Int.isPosB at h
  simp only [gt_iff_lt, decide_eq_false_iff_not] at h
  simp [mintFn, h]

/-- inflation.go:42 `if current.Before(genesis) { return 0 }` — `yearsSinceGenesis`' `nowNs < genesisNs` -/
theorem beforeGenesis_eq_gen (genesisNs nowNs : Int) : decide (nowNs < genesisNs) = years_beforeGenesis nowNs genesisNs := rfl

theorem years_zero_gen (g now : Int) (h : years_beforeGenesis now g = true) : yearsSinceGenesis g now = 0 := by
  unfold years_beforeGenesis at h
  simp only [decide_eq_true_eq] at h
  simp [yearsSinceGenesis, h]

example : mint_clampNeeded 11 10 = true ∧ mint_clampNeeded 10 10 = false := by decide

end Sunrise.TieMint
