import SunriseVerif.Props.ParamGuards
import SunriseVerif.Gen.KernelsParamsDA
import SunriseVerif.Model.DA
/-! Parameter guards of one module: see `Props/ParamGuards.lean`. -/
namespace Sunrise.ParamGuards
open Sunrise Sunrise.Gen.KernelsParamsDA

theorem da_thr (x : Dec) : da_thrRejected x = false ↔ 0 ≤ x.raw ∧ x.raw ≤ PREC := unit_interval x
theorem da_sft (x : Dec) : da_sftRejected x = false ↔ 0 ≤ x.raw ∧ x.raw ≤ PREC := unit_interval x
theorem da_frac (x : Dec) : da_fracRejected x = false ↔ 0 ≤ x.raw ∧ x.raw ≤ PREC := unit_interval x

theorem da_rf (x : Dec) : da_rfRejected x = false ↔ 0 < x.raw := by
  unfold da_rfRejected Dec.isPositive
  simp only [Bool.not_eq_false', decide_eq_true_eq, gt_iff_lt]

theorem da_epoch (n : Int) (h0 : 0 ≤ n) : da_epochRejected n = false ↔ 0 < n := by
  unfold da_epochRejected
  simp only [decide_eq_false_iff_not]
  constructor <;> intro h <;> omega

theorem da_cp (n : Int) : da_cpRejected n = false ↔ 0 < n := period n
theorem da_pp (n : Int) : da_ppRejected n = false ↔ 0 < n := period n
theorem da_rrp (n : Int) : da_rrpRejected n = false ↔ 0 < n := period n
theorem da_vrp (n : Int) : da_vrpRejected n = false ↔ 0 < n := period n

/-- no regenerated DA guard rejects the numeric parameters -/
def daAccepted (p : DA.Params) : Bool :=
  !da_thrRejected ⟨p.thr⟩ && !da_rfRejected ⟨p.rf⟩ && !da_epochRejected p.epoch && !da_sftRejected ⟨p.sft⟩
  && !da_fracRejected ⟨p.frac⟩ && !da_cpRejected p.cp && !da_ppRejected p.pp && !da_rrpRejected p.rrp && !da_vrpRejected p.vrp

/-- THE DA MODEL'S `Params.valid` IS WHAT THE CODE'S `Params.Validate` ACCEPTS (numeric fields by the regenerated guards,
    the two collaterals by `Coins.IsValid`, a boundary function of the SDK; `slash_epoch` is a uint64) -/
theorem da_valid_iff (p : DA.Params) (he : 0 ≤ p.epoch) :
    p.valid = (daAccepted p && DA.coinsValid p.pub && DA.coinsValid p.inv) := by
  have b : ∀ (r : Bool) (P : Prop) [Decidable P], (r = false ↔ P) → (!r) = decide P := by
    intro r P _ h; cases r <;> simp_all
  unfold DA.Params.valid daAccepted
  rw [b _ _ (da_thr ⟨p.thr⟩), b _ _ (da_rf ⟨p.rf⟩), b _ _ (da_epoch p.epoch he), b _ _ (da_sft ⟨p.sft⟩), b _ _ (da_frac ⟨p.frac⟩),
    b _ _ (da_cp p.cp), b _ _ (da_pp p.pp), b _ _ (da_rrp p.rrp), b _ _ (da_vrp p.vrp)]
  have hP : DA.PREC = PREC := by unfold DA.PREC PREC; rfl
  simp only [Bool.decide_and, Bool.and_assoc, hP]

example : da_sftRejected ⟨-1⟩ = true ∧ da_sftRejected ⟨0⟩ = false ∧ da_sftRejected ⟨PREC⟩ = false ∧ da_sftRejected ⟨PREC + 1⟩ = true := by decide

end Sunrise.ParamGuards
