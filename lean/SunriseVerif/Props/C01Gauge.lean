import SunriseVerif.Props.C17
/-!
C01 (x/liquidityincentive part) — block processing never halts.

`Model/Gauge.lean` marks every Go run-time panic of `EndBlocker → CreateEpoch → Tally` as a `.panic` result:
* `delegStep`: `Quo` by a validator's zero `DelegatorShares` (`.divZero`), `Mul` on the nil `LegacyDec` of a stored
  weight that does not parse (`.nilDeref`);
* `valStep`: `Quo` by a validator's zero `DelegatorShares` (`.divZero`).
`step` turns a panicking `endBlocker` into `Out.halt` / `halted := true`.

This file proves that none of these sites is reachable: for every state reachable by any sequence of operations and
every staking view satisfying the boundary assumption `C17.StakingOK` (bonded validators have tokens ≥ 0 and
delegator shares > 0, delegation shares ≥ 0) the tally — hence `CreateEpoch`, hence `EndBlocker` — returns `.ok`.
It also states explicitly why `sdk.NewCoin` in `BeginBlocker` (reached through `TruncateDecimal`) cannot panic on a
negative amount: all stored gauge counts are ≥ 0, hence every allocation computed from a non-negative fee-collector
balance is ≥ 0 (the model's `allocLoop` skips `a ≤ 0` silently, so this is stated separately).
-/
set_option linter.unusedSimpArgs false
set_option linter.unusedVariables false
namespace Sunrise.C01Gauge
open Sunrise Sunrise.Gauge Sunrise.Dec Sunrise.C17

/-! ## 1. the tally is total under `StakingOK` and valid stored weights -/

/-- first loop body: the validator found has shares > 0 (no `Quo` by zero) and the voter's stored weights parse
    (no nil `LegacyDec`) -/
theorem delegStep_total {ws : List PoolWeight} (acc : Acc) (d : Addr × Dec) (hv : ValsOK acc.vals)
    (hw : ValidWeights ws) : ∃ acc', delegStep ws acc d = .ok acc' := by
  unfold delegStep
  cases hf : findVal acc.vals d.1 with
  | none => exact ⟨acc, rfl⟩
  | some val =>
    obtain ⟨_, hsh, _⟩ := hv val (findVal_mem _ _ _ hf)
    have hne : ¬ val.shares.raw = 0 := by omega
    obtain ⟨pws, hp, _, _⟩ := hw
    simp only [hne, if_false, hp]
    exact ⟨_, rfl⟩

theorem delegLoop_total {ws : List PoolWeight} (hw : ValidWeights ws) : ∀ (ds : List (Addr × Dec)) (acc : Acc),
    AccOK acc → ValsOK acc.vals → (∀ d ∈ ds, 0 ≤ d.2.raw) → ∃ acc', delegLoop ws ds acc = .ok acc' := by
  intro ds
  induction ds with
  | nil => intro acc _ _ _; exact ⟨acc, rfl⟩
  | cons d t ih =>
    intro acc ha hv hd
    obtain ⟨a1, h1⟩ := delegStep_total (ws := ws) acc d hv hw
    obtain ⟨ha1, hv1⟩ := delegStep_ok ha hv hw (hd d List.mem_cons_self) h1
    simp only [delegLoop, h1, Res.bind]
    exact ih a1 ha1 hv1 (fun x hx => hd x (List.mem_cons_of_mem _ hx))

theorem voteStep_total {dels : List (Addr × Addr × Dec)} (acc : Acc) (v : Vote) (ha : AccOK acc)
    (hv : ValsOK acc.vals) (hw : ValidWeights v.weights) (hd : ∀ d ∈ dels, 0 ≤ d.2.2.raw) :
    ∃ acc', voteStep dels acc v = .ok acc' := by
  have hdels : ∀ d ∈ delsOf dels v.sender, 0 ≤ d.2.raw := by
    intro d hdm
    simp only [delsOf, List.mem_map, List.mem_filter] at hdm
    obtain ⟨x, ⟨hx, _⟩, rfl⟩ := hdm
    exact hd x hx
  have key : ∀ vals1, ValsOK vals1 →
      ∃ acc', delegLoop v.weights (delsOf dels v.sender) { acc with vals := vals1 } = .ok acc' :=
    fun vals1 hv1 => delegLoop_total hw _ { acc with vals := vals1 } ⟨ha.res_nn, ha.tot_nn, ha.bound⟩ hv1 hdels
  unfold voteStep
  refine key _ ?_
  cases findVal acc.vals v.sender with
  | none => exact hv
  | some _ => exact valsOK_upd _ _ _ hv (fun x hx => ⟨hx.1, hx.2.1, hw⟩)

theorem voteLoop_total {dels : List (Addr × Addr × Dec)} (hd : ∀ d ∈ dels, 0 ≤ d.2.2.raw) :
    ∀ (vs : List Vote) (acc : Acc), AccOK acc → ValsOK acc.vals → (∀ v ∈ vs, ValidWeights v.weights) →
    ∃ acc', voteLoop dels vs acc = .ok acc' := by
  intro vs
  induction vs with
  | nil => intro acc _ _ _; exact ⟨acc, rfl⟩
  | cons v t ih =>
    intro acc ha hv hw
    obtain ⟨a1, h1⟩ := voteStep_total (dels := dels) acc v ha hv (hw v List.mem_cons_self) hd
    obtain ⟨ha1, hv1⟩ := voteStep_ok ha hv (hw v List.mem_cons_self) hd h1
    simp only [voteLoop, h1, Res.bind]
    exact ih a1 ha1 hv1 (fun x hx => hw x (List.mem_cons_of_mem _ hx))

/-- second loop body: shares > 0 (no `Quo` by zero); with weights that parse it does not even return an error -/
theorem valStep_total (acc : Acc) (val : ValInfo) (hsh : 0 < val.shares.raw) (hw : ValidWeights val.weights) :
    ∃ acc', valStep acc val = .ok acc' := by
  unfold valStep
  by_cases he : val.weights.isEmpty = true
  · simp only [he, if_true]; exact ⟨acc, rfl⟩
  · have hne : ¬ val.shares.raw = 0 := by omega
    obtain ⟨pws, hp, _, _⟩ := hw
    simp only [he, Bool.false_eq_true, if_false, hne, hp]
    exact ⟨_, rfl⟩

theorem valLoop_total : ∀ (vs : List ValInfo) (acc : Acc),
    (∀ v ∈ vs, 0 < v.shares.raw ∧ ValidWeights v.weights) → ∃ acc', valLoop vs acc = .ok acc' := by
  intro vs
  induction vs with
  | nil => intro acc _; exact ⟨acc, rfl⟩
  | cons v t ih =>
    intro acc hv
    obtain ⟨hsh, hw⟩ := hv v List.mem_cons_self
    obtain ⟨a1, h1⟩ := valStep_total acc v hsh hw
    simp only [valLoop, h1, Res.bind]
    exact ih a1 (fun x hx => hv x (List.mem_cons_of_mem _ hx))

theorem accOK_init (vals : List ValInfo) : AccOK { vals := vals, res := [], total := Dec.zero, muls := 0 } :=
  ⟨trivial, le_refl _, by simp [sumRes, Dec.zero]⟩

/-- `Tally` (both loops) returns normally: no panic, no error -/
theorem tallyAcc_total {stk : Staking} {votes : List Vote} (hs : StakingOK stk)
    (hv : ∀ v ∈ votes, ValidWeights v.weights) : ∃ a, tallyAcc stk votes = .ok a := by
  unfold tallyAcc
  obtain ⟨a1, h1⟩ := voteLoop_total hs.dels_nn votes
    { vals := initVals stk.vals, res := [], total := Dec.zero, muls := 0 } (accOK_init _) (initVals_ok stk hs) hv
  obtain ⟨_, hv1⟩ := voteLoop_ok hs.dels_nn votes _ a1 (accOK_init _) (initVals_ok stk hs) hv h1
  rw [h1]
  exact valLoop_total a1.vals a1 (fun v hvm => ⟨(hv1 v hvm).2.1, (hv1 v hvm).2.2⟩)

theorem tally_total {stk : Staking} {votes : List Vote} (hs : StakingOK stk)
    (hv : ∀ v ∈ votes, ValidWeights v.weights) : ∃ c, tally stk votes = .ok c := by
  obtain ⟨a, h⟩ := tallyAcc_total hs hv
  unfold tally
  rw [h]
  simp only [Res.bind]
  by_cases hz : stk.totalBonded = 0
  · simp only [hz, if_true]; exact ⟨_, rfl⟩
  · simp only [hz, if_false]; exact ⟨_, rfl⟩

theorem createEpoch_total (s : St) (h : Int) (stk : Staking) (p n : Nat) (hs : StakingOK stk) (hv : VotesValid s) :
    ∃ s', createEpoch s h stk p n = .ok s' := by
  obtain ⟨c, hc⟩ := tally_total hs hv
  unfold createEpoch
  rw [hc]
  simp only [Res.bind]
  by_cases he : c.isEmpty = true
  · simp only [he, if_true]; exact ⟨_, rfl⟩
  · simp only [he, Bool.false_eq_true, if_false]; exact ⟨_, rfl⟩

/-- EndBlocker never panics (state-invariant form): stored weights valid + staking view sane ⇒ `.ok` -/
theorem endBlocker_no_panic_of_valid (s : St) (h : Int) (stk : Staking) (hv : VotesValid s) (hs : StakingOK stk) :
    ∃ s', endBlocker s h stk = .ok s' := by
  unfold endBlocker
  cases lastEpoch s.epochs with
  | none =>
    obtain ⟨s1, h1⟩ := createEpoch_total s h stk 0 1 hs hv
    simp only [h1]; exact ⟨_, rfl⟩
  | some e =>
    by_cases hh : h ≥ e.endBlock
    · obtain ⟨s1, h1⟩ := createEpoch_total s h stk e.id (e.id + 1) hs hv
      simp only [hh, if_true, h1]; exact ⟨_, rfl⟩
    · simp only [hh, if_false]; exact ⟨_, rfl⟩

/-- **endBlocker_no_panic**: in every reachable state, at every height and for every staking view satisfying
    `StakingOK`, EndBlocker returns `.ok` (never `.panic`). -/
theorem endBlocker_no_panic {s : St} (hr : Reachable s) (h : Int) (stk : Staking) (hs : StakingOK stk) :
    ∃ s', endBlocker s h stk = .ok s' :=
  endBlocker_no_panic_of_valid s h stk (weights_valid hr) hs

/-! ## 2. a block never halts -/

theorem prune_halted (s : St) : (prune s).halted = s.halted := by
  unfold prune
  by_cases h : s.epochs.length > 2
  · simp only [h, if_true]
    cases s.epochs <;> rfl
  · simp [h]

theorem createEpoch_halted {s s' : St} {h : Int} {stk : Staking} {p n : Nat} (hc : createEpoch s h stk p n = .ok s') :
    s'.halted = s.halted := by
  rcases createEpoch_cases hc with h1 | ⟨r, h1⟩ <;> rw [h1]

theorem endBlocker_halted {s s' : St} {h : Int} {stk : Staking} (he : endBlocker s h stk = .ok s') :
    s'.halted = s.halted := by
  unfold endBlocker at he
  cases hl : lastEpoch s.epochs with
  | none =>
    simp only [hl] at he
    cases hc : createEpoch s h stk 0 1 with
    | ok s1 => simp only [hc, Res.ok.injEq] at he; subst he; exact createEpoch_halted hc
    | err e => simp only [hc, Res.ok.injEq] at he; rw [← he]
    | panic k => simp [hc] at he
  | some e =>
    simp only [hl] at he
    by_cases hh : h ≥ e.endBlock
    · simp only [hh, if_true] at he
      cases hc : createEpoch s h stk e.id (e.id + 1) with
      | ok s1 =>
        simp only [hc, Res.ok.injEq] at he
        subst he
        rw [prune_halted]; exact createEpoch_halted hc
      | err e => simp only [hc, Res.ok.injEq] at he; rw [← he]
      | panic k => simp [hc] at he
    · simp only [hh, if_false, Res.ok.injEq] at he; rw [← he]

/-- a block on a non-halted state whose stored weights are valid, with a sane staking view: the output is a normal
    block output and the state stays non-halted -/
theorem step_block_no_halt_of_valid (s : St) (h fc : Int) (oks : List Bool) (stk : Staking) (hv : VotesValid s)
    (hh : s.halted = false) (hs : StakingOK stk) :
    (∃ allocs swept, (step s (.block h fc oks stk)).2 = .block allocs swept) ∧
    (step s (.block h fc oks stk)).1.halted = false := by
  have hb := beginBlocker_frame { s with bank := setFc s.bank fc } oks
  simp only [step]
  generalize beginBlocker { s with bank := setFc s.bank fc } oks = bb at hb ⊢
  have hv1 : VotesValid bb.1 := by intro v hvm; rw [hb.1] at hvm; exact hv v hvm
  obtain ⟨s2, h2⟩ := endBlocker_no_panic_of_valid bb.1 h stk hv1 hs
  simp only [hh, Bool.false_eq_true, if_false, h2]
  refine ⟨⟨_, _, rfl⟩, ?_⟩
  rw [endBlocker_halted h2, hb.2.2.2]
  exact hh

/-- **block_never_halts**: a block processed in a reachable, non-halted state with a staking view satisfying
    `StakingOK` does not halt the chain. -/
theorem block_never_halts {s : St} (hr : Reachable s) (hh : s.halted = false) (h fc : Int) (oks : List Bool)
    (stk : Staking) (hs : StakingOK stk) : (step s (.block h fc oks stk)).2 ≠ .halt := by
  obtain ⟨⟨a, w, e⟩, _⟩ := step_block_no_halt_of_valid s h fc oks stk (weights_valid hr) hh hs
  rw [e]
  intro hc
  cases hc

/-- the boundary assumption on an operation: the staking view handed to a block satisfies `P` -/
def OpSat (P : Staking → Prop) : Op → Prop
  | .block _ _ _ stk => P stk
  | _ => True

/-- states reachable from an empty module state by operations whose blocks all carry a staking view satisfying `P`
    (`C17.Reachable` places no condition on the staking views) -/
inductive ReachableBy (P : Staking → Prop) : St → Prop
  | init (eb : Int) : ReachableBy P { epochBlocks := eb }
  | step {s : St} (op : Op) : ReachableBy P s → OpSat P op → ReachableBy P (step s op).1

/-- reachable with `StakingOK` at every block -/
abbrev ReachableOK : St → Prop := ReachableBy StakingOK

theorem ReachableBy.reachable {P : Staking → Prop} {s : St} (hr : ReachableBy P s) : Reachable s := by
  induction hr with
  | init eb => exact Reachable.init eb
  | step op _ _ ih => exact Reachable.step op ih

theorem OpSat.mono {P Q : Staking → Prop} (hpq : ∀ stk, P stk → Q stk) {op : Op} (h : OpSat P op) : OpSat Q op := by
  cases op with
  | addPool id => trivial
  | vote a okS ws => trivial
  | block h' fc oks stk => exact hpq stk h

theorem ReachableBy.mono {P Q : Staking → Prop} (hpq : ∀ stk, P stk → Q stk) {s : St} (hr : ReachableBy P s) :
    ReachableBy Q s := by
  induction hr with
  | init eb => exact ReachableBy.init eb
  | step op _ hop ih => exact ReachableBy.step op ih (hop.mono hpq)

theorem ReachableBy.run {P : Staking → Prop} : ∀ (ops : List Op) {s : St}, ReachableBy P s →
    (∀ op ∈ ops, OpSat P op) → ReachableBy P (run s ops) := by
  intro ops
  induction ops with
  | nil => intro s hr _; exact hr
  | cons op t ih =>
    intro s hr hops
    simp only [Gauge.run]
    exact ih (ReachableBy.step op hr (hops op List.mem_cons_self)) (fun o ho => hops o (List.mem_cons_of_mem _ ho))

theorem step_halted_false (s : St) (op : Op) (hv : VotesValid s) (hh : s.halted = false) (hop : OpSat StakingOK op) :
    (step s op).1.halted = false := by
  cases op with
  | addPool id => exact hh
  | vote a okS ws =>
    simp only [step]
    cases voteGauge s.pools s.votes okS a ws with
    | ok vs => exact hh
    | err e => exact hh
    | panic k => exact hh
  | block h fc oks stk => exact (step_block_no_halt_of_valid s h fc oks stk hv hh hop).2

/-- **never_halted**: a history all of whose blocks satisfy `StakingOK` never halts the chain -/
theorem never_halted {s : St} (hr : ReachableOK s) : s.halted = false := by
  induction hr with
  | init eb => rfl
  | step op hr' hop ih => exact step_halted_false _ op (weights_valid hr'.reachable) ih hop

/-- the same over `run`: from any empty module state, any operation list whose blocks satisfy `StakingOK` -/
theorem run_never_halts (eb : Int) (ops : List Op) (hops : ∀ op ∈ ops, OpSat StakingOK op) :
    (run { epochBlocks := eb } ops).halted = false :=
  never_halted (ReachableBy.run ops (ReachableBy.init eb) hops)

/-- every block of such a history produces a normal block output (never `Out.halt`) -/
theorem block_never_halts_OK {s : St} (hr : ReachableOK s) (h fc : Int) (oks : List Bool) (stk : Staking)
    (hs : StakingOK stk) : (step s (.block h fc oks stk)).2 ≠ .halt :=
  block_never_halts hr.reachable (never_halted hr) h fc oks stk hs

/-! ## 3. gauge counts, hence allocations, are never negative

`BeginBlocker` turns each allocation into an `sdk.Coin` (`TruncateDecimal` → `NewCoin`), which panics on a negative
amount.  An allocation is negative only if a stored gauge count is; a count is negative only if a validator's
remaining power `shares − deductions` is, i.e. only if the voters' delegations to a validator exceed its
`DelegatorShares`.  x/staking keeps `DelegatorShares = Σ delegation shares` (its delegator-shares invariant); the
boundary assumption `DelsBounded` is the `≥` half of it.  From it (and the fact that the votes store holds at most one
vote per sender) `C17.DeductionsLeShares` is PROVED here, not assumed. -/

/-- number of stored votes of one sender -/
def cnt (a : Addr) : List Vote → Nat
  | [] => 0
  | v :: t => (if v.sender = a then 1 else 0) + cnt a t

/-- the votes store is keyed by sender: at most one vote per sender -/
def SendersDistinct (vs : List Vote) : Prop := ∀ a, cnt a vs ≤ 1

theorem cnt_setVote_ne (vs : List Vote) (v : Vote) (a : Addr) (hne : v.sender ≠ a) :
    cnt a (setVote vs v) = cnt a vs := by
  induction vs with
  | nil => simp [setVote, cnt, hne]
  | cons x t ih =>
    unfold setVote
    by_cases hx : x.sender = v.sender
    · have : x.sender ≠ a := by rw [hx]; exact hne
      simp [hx, cnt, hne]
    · simp only [hx, if_false, cnt, ih]

theorem setVote_distinct (vs : List Vote) (v : Vote) (h : SendersDistinct vs) : SendersDistinct (setVote vs v) := by
  induction vs with
  | nil => intro a; simp only [setVote, cnt]; split <;> omega
  | cons x t ih =>
    have ht : SendersDistinct t := fun a => by have := h a; simp only [cnt] at this; omega
    intro a
    unfold setVote
    by_cases hx : x.sender = v.sender
    · have := h a
      simp only [hx, if_true, cnt] at this ⊢
      exact this
    · simp only [hx, if_false, cnt]
      by_cases hva : v.sender = a
      · have hxa : ¬ x.sender = a := by rw [← hva]; exact hx
        have := ih ht a
        rw [if_neg hxa]; omega
      · rw [cnt_setVote_ne _ _ _ hva]
        have := h a
        simp only [cnt] at this
        exact this

theorem step_sendersDistinct (s : St) (op : Op) (hs : SendersDistinct s.votes) :
    SendersDistinct (step s op).1.votes := by
  cases op with
  | addPool id => exact hs
  | vote a okS ws =>
    simp only [step]
    cases hv : voteGauge s.pools s.votes okS a ws with
    | ok vs =>
      obtain ⟨_, rfl⟩ := voteGauge_ok hv
      exact setVote_distinct _ _ hs
    | err e => exact hs
    | panic k => exact hs
  | block h fc oks stk => rw [step_block_votes]; exact hs

/-- in every reachable state the votes store holds at most one vote per sender -/
theorem senders_distinct {s : St} (hr : Reachable s) : SendersDistinct s.votes := by
  induction hr with
  | init eb => intro a; simp [cnt]
  | step op _ ih => exact step_sendersDistinct _ op ih

/-- Σ shares of the delegations (validator, shares) in the list that go to validator `a` -/
def delTo (a : Addr) : List (Addr × Dec) → Int
  | [] => 0
  | d :: t => (if d.1 = a then d.2.raw else 0) + delTo a t

/-- boundary assumption (x/staking's delegator-shares invariant, `≥` half): the delegations to a bonded validator
    sum to at most its `DelegatorShares` -/
def DelsBounded (stk : Staking) : Prop :=
  ∀ v ∈ stk.vals, delTo v.1 (stk.dels.map fun d => d.2) ≤ v.2.2.raw

/-- shares the voters in the list delegate to validator `a` -/
def pot (dels : List (Addr × Addr × Dec)) (a : Addr) : List Vote → Int
  | [] => 0
  | v :: t => delTo a (delsOf dels v.sender) + pot dels a t

theorem pot_nil (a : Addr) (vs : List Vote) : pot [] a vs = 0 := by
  induction vs with
  | nil => rfl
  | cons v t ih => simp [pot, delsOf, delTo, ih]

theorem delsOf_cons (d : Addr × Addr × Dec) (ds : List (Addr × Addr × Dec)) (a : Addr) :
    delsOf (d :: ds) a = if d.1 = a then d.2 :: delsOf ds a else delsOf ds a := by
  unfold delsOf
  by_cases h : d.1 = a <;> simp [List.filter_cons, h]

theorem pot_cons_dels (d : Addr × Addr × Dec) (ds : List (Addr × Addr × Dec)) (a : Addr) (vs : List Vote) :
    pot (d :: ds) a vs = pot ds a vs + (cnt d.1 vs : Int) * (if d.2.1 = a then d.2.2.raw else 0) := by
  induction vs with
  | nil => simp [pot, cnt]
  | cons v t ih =>
    simp only [pot, cnt, ih, delsOf_cons]
    by_cases h : d.1 = v.sender
    · have h' : v.sender = d.1 := h.symm
      rw [if_pos h, if_pos h']
      simp only [delTo]
      push_cast
      ring
    · have h' : ¬ v.sender = d.1 := fun e => h e.symm
      rw [if_neg h, if_neg h']
      push_cast
      ring

theorem pot_le (dels : List (Addr × Addr × Dec)) (a : Addr) (vs : List Vote) (hd : ∀ d ∈ dels, 0 ≤ d.2.2.raw)
    (hs : SendersDistinct vs) : pot dels a vs ≤ delTo a (dels.map fun d => d.2) := by
  induction dels with
  | nil => simp [pot_nil, delTo]
  | cons d ds ih =>
    have i := ih (fun x hx => hd x (List.mem_cons_of_mem _ hx))
    have h0 := hd d List.mem_cons_self
    rw [pot_cons_dels]
    simp only [List.map_cons, delTo]
    have hc : cnt d.1 vs = 0 ∨ cnt d.1 vs = 1 := by have := hs d.1; omega
    rcases hc with hc | hc <;> rw [hc] <;> split <;> simp <;> omega

theorem updVal_mem' (vals : List ValInfo) (a : Addr) (f : ValInfo → ValInfo) (x : ValInfo)
    (h : x ∈ updVal vals a f) : x ∈ vals ∨ ∃ v ∈ vals, v.addr = a ∧ x = f v := by
  induction vals with
  | nil => simp [updVal] at h
  | cons y t ih =>
    unfold updVal at h
    by_cases hy : y.addr = a
    · simp only [hy, if_true] at h
      rcases List.mem_cons.mp h with h | h
      · exact Or.inr ⟨y, List.mem_cons_self, hy, h⟩
      · exact Or.inl (List.mem_cons_of_mem _ h)
    · simp only [hy, if_false] at h
      rcases List.mem_cons.mp h with h | h
      · exact Or.inl (by rw [h]; exact List.mem_cons_self)
      · rcases ih h with h | ⟨v, hv, hva, h⟩
        · exact Or.inl (List.mem_cons_of_mem _ h)
        · exact Or.inr ⟨v, List.mem_cons_of_mem _ hv, hva, h⟩

/-- invariant of the delegation loop: deductions so far + the voter's delegations still to come + those of the
    voters still to come (`P`) stay within the validator's shares -/
def DedInv (P : Addr → Int) (rem : List (Addr × Dec)) (vals : List ValInfo) : Prop :=
  ∀ x ∈ vals, x.deductions.raw + delTo x.addr rem + P x.addr ≤ x.shares.raw

theorem delegStep_ded {P : Addr → Int} {ws : List PoolWeight} {acc acc' : Acc} {d : Addr × Dec} {t : List (Addr × Dec)}
    (hinv : DedInv P (d :: t) acc.vals) (hd : 0 ≤ d.2.raw) (h : delegStep ws acc d = .ok acc') :
    DedInv P t acc'.vals := by
  have weaken : ∀ x ∈ acc.vals, x.deductions.raw + delTo x.addr t + P x.addr ≤ x.shares.raw := by
    intro x hx
    have := hinv x hx
    simp only [delTo] at this
    split at this <;> omega
  unfold delegStep at h
  cases hf : findVal acc.vals d.1 with
  | none => simp only [hf, Res.ok.injEq] at h; subst h; exact weaken
  | some val =>
    simp only [hf] at h
    by_cases hz : val.shares.raw = 0
    · simp [hz] at h
    · simp only [hz, if_false] at h
      cases hp : parseWeights ws with
      | none => simp [hp] at h
      | some pws =>
        simp only [hp, Res.ok.injEq] at h
        subst h
        intro x hx
        rcases updVal_mem' _ _ _ _ hx with hx | ⟨v, hv, hva, rfl⟩
        · exact weaken x hx
        · have := hinv v hv
          simp only [delTo, hva, if_true] at this
          simp only [Dec.add, hva]
          omega

theorem delegLoop_ded {P : Addr → Int} {ws : List PoolWeight} : ∀ (ds : List (Addr × Dec)) (acc acc' : Acc),
    DedInv P ds acc.vals → (∀ d ∈ ds, 0 ≤ d.2.raw) → delegLoop ws ds acc = .ok acc' → DedInv P [] acc'.vals := by
  intro ds
  induction ds with
  | nil => intro acc acc' hi _ h; simp only [delegLoop, Res.ok.injEq] at h; subst h; exact hi
  | cons d t ih =>
    intro acc acc' hi hd h
    simp only [delegLoop] at h
    obtain ⟨a1, h1, h2⟩ := Bank.bind_ok h
    exact ih a1 acc' (delegStep_ded hi (hd d List.mem_cons_self) h1) (fun x hx => hd x (List.mem_cons_of_mem _ hx)) h2

theorem voteStep_ded {dels : List (Addr × Addr × Dec)} {acc acc' : Acc} {v : Vote} {t : List Vote}
    (hinv : ∀ x ∈ acc.vals, x.deductions.raw + pot dels x.addr (v :: t) ≤ x.shares.raw)
    (hd : ∀ d ∈ dels, 0 ≤ d.2.2.raw) (h : voteStep dels acc v = .ok acc') :
    ∀ x ∈ acc'.vals, x.deductions.raw + pot dels x.addr t ≤ x.shares.raw := by
  have hdels : ∀ d ∈ delsOf dels v.sender, 0 ≤ d.2.raw := by
    intro d hdm
    simp only [delsOf, List.mem_map, List.mem_filter] at hdm
    obtain ⟨x, ⟨hx, _⟩, rfl⟩ := hdm
    exact hd x hx
  have h0 : DedInv (fun a => pot dels a t) (delsOf dels v.sender) acc.vals := by
    intro x hx
    have := hinv x hx
    simp only [pot] at this
    show x.deductions.raw + delTo x.addr (delsOf dels v.sender) + pot dels x.addr t ≤ x.shares.raw
    omega
  have key : ∀ vals1, DedInv (fun a => pot dels a t) (delsOf dels v.sender) vals1 →
      delegLoop v.weights (delsOf dels v.sender) { acc with vals := vals1 } = .ok acc' →
      ∀ x ∈ acc'.vals, x.deductions.raw + pot dels x.addr t ≤ x.shares.raw := by
    intro vals1 hi h1 x hx
    have := delegLoop_ded _ { acc with vals := vals1 } acc' hi hdels h1 x hx
    simp only [delTo] at this
    omega
  unfold voteStep at h
  refine key _ ?_ h
  cases findVal acc.vals v.sender with
  | none => exact h0
  | some _ =>
    intro x hx
    rcases updVal_mem' _ _ _ _ hx with hx | ⟨y, hy, _, rfl⟩
    · exact h0 x hx
    · exact h0 y hy

theorem voteLoop_ded {dels : List (Addr × Addr × Dec)} (hd : ∀ d ∈ dels, 0 ≤ d.2.2.raw) :
    ∀ (vs : List Vote) (acc acc' : Acc),
    (∀ x ∈ acc.vals, x.deductions.raw + pot dels x.addr vs ≤ x.shares.raw) →
    voteLoop dels vs acc = .ok acc' → ∀ x ∈ acc'.vals, x.deductions.raw ≤ x.shares.raw := by
  intro vs
  induction vs with
  | nil =>
    intro acc acc' hi h
    simp only [voteLoop, Res.ok.injEq] at h
    subst h
    intro x hx
    have := hi x hx
    simp only [pot] at this
    omega
  | cons v t ih =>
    intro acc acc' hi h
    simp only [voteLoop] at h
    obtain ⟨a1, h1, h2⟩ := Bank.bind_ok h
    exact ih a1 acc' (voteStep_ded hi hd h1) h2

/-- `C17.DeductionsLeShares` (assumed by C17's each_token_once theorems) follows from the staking boundary
    assumptions and the one-vote-per-sender property of the store -/
theorem deductionsLeShares_of_bounded {stk : Staking} {votes : List Vote} (hs : StakingOK stk) (hb : DelsBounded stk)
    (hv : SendersDistinct votes) : DeductionsLeShares stk votes := by
  intro a1 h1
  refine voteLoop_ded hs.dels_nn votes _ a1 ?_ h1
  intro x hx
  simp only [initVals, List.mem_map] at hx
  obtain ⟨v, hvm, rfl⟩ := hx
  have h2 := pot_le stk.dels v.1 votes hs.dels_nn hv
  have h3 := hb v hvm
  simp only [Dec.zero]
  omega

/-- the staking boundary assumption of this section -/
structure StakingSound (stk : Staking) : Prop where
  ok : StakingOK stk
  bounded : DelsBounded stk

/-- reachable with `StakingSound` at every block -/
abbrev ReachableSound : St → Prop := ReachableBy StakingSound

theorem ReachableSound.ok {s : St} (hr : ReachableSound s) : ReachableOK s := hr.mono (fun _ h => h.ok)

theorem toCounts_nonneg (r : Results) (hr : NonnegRes r) : ∀ c ∈ toCounts r, 0 ≤ c.2 := by
  induction r with
  | nil => intro c hc; simp [toCounts] at hc
  | cons x t ih =>
    obtain ⟨h0, ht⟩ := hr
    intro c hc
    simp only [toCounts, List.map_cons, List.mem_cons] at hc
    rcases hc with rfl | hc
    · exact (truncateInt_nonneg_bounds x.2 h0).2.2
    · exact ih ht c hc

/-- every count of a tally is ≥ 0 -/
theorem tally_nonneg {stk : Staking} {votes : List Vote} {c : List (Nat × Int)} (hs : StakingOK stk)
    (hv : ∀ v ∈ votes, ValidWeights v.weights) (hd : DeductionsLeShares stk votes) (h : tally stk votes = .ok c) :
    ∀ x ∈ c, 0 ≤ x.2 := by
  unfold tally at h
  obtain ⟨a, h1, h2⟩ := Bank.bind_ok h
  by_cases hz : stk.totalBonded = 0
  · simp only [hz, if_true, Res.ok.injEq] at h2; subst h2; intro x hx; simp at hx
  · simp only [hz, if_false, Res.ok.injEq] at h2
    subst h2
    exact toCounts_nonneg a.res (tallyAcc_ok hs hv hd h1).res_nn

/-- all stored gauge counts (in the epochs and in the gauge store) are ≥ 0 -/
def CountsNN (s : St) : Prop :=
  (∀ e ∈ s.epochs, ∀ g ∈ e.gauges, 0 ≤ g.count) ∧ (∀ g ∈ s.gauges, 0 ≤ g.count)

theorem setEpoch_mem (es : List Epoch) (e x : Epoch) (h : x ∈ setEpoch es e) : x = e ∨ x ∈ es := by
  induction es with
  | nil => simp [setEpoch] at h; exact Or.inl h
  | cons y t ih =>
    unfold setEpoch at h
    by_cases h1 : e.id < y.id
    · simp only [h1, if_true] at h
      rcases List.mem_cons.mp h with h | h
      · exact Or.inl h
      · exact Or.inr h
    · simp only [h1, if_false] at h
      by_cases h2 : e.id = y.id
      · simp only [h2, if_true] at h
        rcases List.mem_cons.mp h with h | h
        · exact Or.inl h
        · exact Or.inr (List.mem_cons_of_mem _ h)
      · simp only [h2, if_false] at h
        rcases List.mem_cons.mp h with h | h
        · exact Or.inr (by rw [h]; exact List.mem_cons_self)
        · rcases ih h with h | h
          · exact Or.inl h
          · exact Or.inr (List.mem_cons_of_mem _ h)

theorem createEpoch_countsNN {s s' : St} {h : Int} {stk : Staking} {p n : Nat} (hs : StakingOK stk)
    (hv : VotesValid s) (hd : DeductionsLeShares stk s.votes) (hc : CountsNN s)
    (he : createEpoch s h stk p n = .ok s') : CountsNN s' := by
  unfold createEpoch at he
  obtain ⟨c, h1, h2⟩ := Bank.bind_ok he
  have hnn := tally_nonneg hs hv hd h1
  by_cases hemp : c.isEmpty = true
  · simp only [hemp, if_true, Res.ok.injEq] at h2; subst h2; exact hc
  · simp only [hemp, Bool.false_eq_true, if_false, Res.ok.injEq] at h2
    subst h2
    have hnew : ∀ g ∈ c.map (fun r => (⟨p, r.1, r.2⟩ : GaugeRec)), 0 ≤ g.count := by
      intro g hg
      simp only [List.mem_map] at hg
      obtain ⟨r, hr, rfl⟩ := hg
      exact hnn r hr
    refine ⟨?_, ?_⟩
    · intro e hem g hg
      rcases setEpoch_mem _ _ _ hem with rfl | hem
      · exact hnew g hg
      · exact hc.1 e hem g hg
    · intro g hg
      rcases foldl_setGauge_mem _ _ _ hg with hg | hg
      · exact hc.2 g hg
      · exact hnew g hg

theorem prune_countsNN (s : St) (hc : CountsNN s) : CountsNN (prune s) := by
  unfold prune
  by_cases h : s.epochs.length > 2
  · simp only [h, if_true]
    cases hes : s.epochs with
    | nil => exact hc
    | cons e t =>
      refine ⟨?_, ?_⟩
      · intro x hx g hg
        simp only [removeEpoch, List.mem_filter] at hx
        exact hc.1 x (by rw [hes]; exact hx.1) g hg
      · intro g hg
        exact hc.2 g (foldl_removeGauge_mem _ _ _ hg).1
  · simp only [h, if_false]; exact hc

theorem endBlocker_countsNN {s s' : St} {h : Int} {stk : Staking} (hs : StakingOK stk)
    (hv : VotesValid s) (hd : DeductionsLeShares stk s.votes) (hc : CountsNN s)
    (he : endBlocker s h stk = .ok s') : CountsNN s' := by
  unfold endBlocker at he
  cases hl : lastEpoch s.epochs with
  | none =>
    simp only [hl] at he
    cases hce : createEpoch s h stk 0 1 with
    | ok s1 => simp only [hce, Res.ok.injEq] at he; subst he; exact createEpoch_countsNN hs hv hd hc hce
    | err e => simp only [hce, Res.ok.injEq] at he; subst he; exact hc
    | panic k => simp [hce] at he
  | some e =>
    simp only [hl] at he
    by_cases hh : h ≥ e.endBlock
    · simp only [hh, if_true] at he
      cases hce : createEpoch s h stk e.id (e.id + 1) with
      | ok s1 =>
        simp only [hce, Res.ok.injEq] at he
        subst he
        exact prune_countsNN _ (createEpoch_countsNN hs hv hd hc hce)
      | err e => simp only [hce, Res.ok.injEq] at he; subst he; exact hc
      | panic k => simp [hce] at he
    · simp only [hh, if_false, Res.ok.injEq] at he; subst he; exact hc

theorem countsNN_congr {s s1 : St} (he : s1.epochs = s.epochs) (hg : s1.gauges = s.gauges) (hc : CountsNN s) :
    CountsNN s1 := by
  unfold CountsNN
  rw [he, hg]
  exact hc

theorem step_countsNN (s : St) (op : Op) (hv : VotesValid s) (hd : SendersDistinct s.votes) (hc : CountsNN s)
    (hop : OpSat StakingSound op) : CountsNN (step s op).1 := by
  cases op with
  | addPool id => exact hc
  | vote a okS ws =>
    simp only [step]
    cases voteGauge s.pools s.votes okS a ws with
    | ok vs => exact hc
    | err e => exact hc
    | panic k => exact hc
  | block h fc oks stk =>
    have hss : StakingSound stk := hop
    rcases step_block_cases s h fc oks stk with h0 | ⟨s1, ⟨hvs, hes, hgs⟩, h1 | h1 | h1⟩
    · rw [h0]; exact hc
    · obtain ⟨s2, hend, h2⟩ := h1
      rw [h2]
      have hv1 : VotesValid s1 := by intro v hvm; rw [hvs] at hvm; exact hv v hvm
      have hd1 : DeductionsLeShares stk s1.votes := by
        rw [hvs]; exact deductionsLeShares_of_bounded hss.ok hss.bounded hd
      exact endBlocker_countsNN hss.ok hv1 hd1 (countsNN_congr hes hgs hc) hend
    · rw [h1]; exact countsNN_congr hes hgs hc
    · rw [h1]; exact countsNN_congr (s1 := { s1 with halted := true }) hes hgs hc

/-- **gauge_counts_nonneg**: in every state reachable with sound staking views, every gauge count of every stored
    epoch (and of the gauge store) is ≥ 0 -/
theorem gauge_counts_nonneg {s : St} (hr : ReachableSound s) : CountsNN s := by
  induction hr with
  | init eb => exact ⟨by intro e he; simp at he, by intro g hg; simp at hg⟩
  | step op hr' hop ih =>
    exact step_countsNN _ op (weights_valid hr'.reachable) (senders_distinct hr'.reachable) ih hop

theorem totalCount_nonneg (gs : List GaugeRec) (h : ∀ g ∈ gs, 0 ≤ g.count) : 0 ≤ totalCount gs := by
  induction gs with
  | nil => simp [totalCount]
  | cons g t ih =>
    have := ih (fun x hx => h x (List.mem_cons_of_mem _ hx))
    have := h g List.mem_cons_self
    simp only [totalCount]
    omega

/-- with a zero total the weight `count.Quo(0)` is totalised as 0 in the model (`BeginBlocker` returns before
    the loop in that case, so Go never evaluates it) -/
theorem allocation_total_zero (b0 c : Int) : allocation b0 c 0 = 0 := by
  simp [allocation, gaugeWeight, Dec.quo, Dec.ofInt, Dec.tquo, Dec.chopRound, Dec.chopRoundNN, Dec.isZero]

/-- **allocations_nonneg**: every allocation `BeginBlocker` computes for the last epoch from a non-negative
    fee-collector balance is ≥ 0, so `sdk.NewCoin` cannot panic on a negative amount -/
theorem allocations_nonneg {s : St} (hr : ReachableSound s) {e : Epoch} (he : lastEpoch s.epochs = some e)
    (b0 : Int) (hb : 0 ≤ b0) : ∀ g ∈ e.gauges, 0 ≤ allocation b0 g.count (totalCount e.gauges) := by
  have hc := (gauge_counts_nonneg hr).1 e (List.mem_of_getLast? he)
  have hT := totalCount_nonneg e.gauges hc
  intro g hg
  by_cases hz : totalCount e.gauges = 0
  · rw [hz, allocation_total_zero]
  · exact (allocation_bound b0 g.count (totalCount e.gauges) hb (hc g hg) (by omega)).1

theorem setFc_bal (b : Bank) (fc : Int) : (setFc b fc).bal feeCollector bond = fc := by
  simp [setFc, Bank.credit]

/-- the same at the block level: in a block whose fee-collector balance `fc` is ≥ 0, every allocation that
    `BeginBlocker` computes (from the state `s0` it runs on) is ≥ 0 -/
theorem block_allocations_nonneg {s : St} (hr : ReachableSound s) (fc : Int) (hfc : 0 ≤ fc) {e : Epoch}
    (he : lastEpoch s.epochs = some e) :
    ∀ g ∈ e.gauges, 0 ≤ allocation ((setFc s.bank fc).bal feeCollector bond) g.count (totalCount e.gauges) := by
  rw [setFc_bal]
  exact allocations_nonneg hr he fc hfc

/-! ## 4. non-vacuity, and necessity of the hypotheses

String parsing does not reduce in the kernel (as in C17), so the parse of the stored weight "1" is a hypothesis of
the examples that need it; the driver executes the real parser on every run. -/

/-- validator v1: 100 tokens, 100 shares; 70 self-delegated, 30 delegated by d1 -/
def exStk : Staking :=
  { vals := [("v1", 100, Dec.ofInt 100)], dels := [("v1", "v1", Dec.ofInt 70), ("d1", "v1", Dec.ofInt 30)],
    totalBonded := 100 }

theorem exStk_sound : StakingSound exStk := by
  refine ⟨⟨by decide, by decide⟩, ?_⟩
  intro v hv
  simp only [exStk, List.mem_singleton] at hv
  subst hv
  decide

/-- end to end: pool 0 is created, validator v1 votes 1.0 on it, and the block at height 10 creates epoch 1 with
    gauge count 70 (own delegation) + 30 (remaining power) = 100 > 0 -/
example (h1 : Dec.ofString? "1" = some Dec.one) :
    (run { epochBlocks := 5 } [.addPool 0, .vote "v1" true [⟨0, "1"⟩], .block 10 0 [] exStk]).epochs
      = [⟨1, 10, 15, [⟨0, 0, 100⟩]⟩] := by
  have hp : parseWeights [⟨0, "1"⟩] = some [(0, Dec.one)] := by simp [parseWeights, h1]
  have e1 : ¬ (Dec.ofInt 100).raw = 0 := by decide
  have e2 : (Gauge.power (ofInt 70) 100 (ofInt 100)).mul one = ofInt 70 := by decide
  have e3 : ¬ Dec.one.isNegative = true := by decide
  have e4 : ¬ (Dec.zero.add Dec.one).gt Dec.one = true := by decide
  simp [run, step, voteGauge, sumWeights, allPoolsExist, setVote, h1, e3, e4, beginBlocker,
    endBlocker, exStk, lastEpoch, createEpoch, tally, tallyAcc, voteLoop, voteStep, delegLoop, delegStep, delsOf,
    findVal, updVal, initVals, valLoop, valStep, hp, Res.bind, addWeighted, addTo, toCounts, setEpoch, e1, e2]
  decide

/-- … that history satisfies the hypotheses of the theorems above (so they are not vacuous), hence did not halt -/
example : ReachableSound (run { epochBlocks := 5 } [.addPool 0, .vote "v1" true [⟨0, "1"⟩], .block 10 0 [] exStk]) :=
  ReachableBy.run _ (ReachableBy.init 5) (by
    intro op hop
    simp only [List.mem_cons, List.mem_nil_iff, or_false] at hop
    rcases hop with rfl | rfl | rfl
    · trivial
    · trivial
    · exact exStk_sound)

/-- `StakingOK` is necessary: a voting bonded validator with ZERO delegator shares makes `Tally` divide by zero —
    EndBlocker panics and the chain halts (and stays halted) -/
def votedSt : St := { votes := [⟨"v1", [⟨0, "1"⟩]⟩] }
def badStk : Staking := { vals := [("v1", 100, Dec.zero)], dels := [], totalBonded := 100 }
example : ¬ StakingOK badStk := fun h => absurd (h.vals_ok _ List.mem_cons_self).2 (by decide)
example : endBlocker votedSt 10 badStk = .panic .divZero := by rfl
example : (step votedSt (.block 10 0 [] badStk)).1.halted = true := by rfl
example : (run votedSt [.block 10 0 [] badStk, .block 11 0 [] exStk]).halted = true := by rfl

/-- `DelsBounded` is necessary for section 3: a staking view that satisfies `StakingOK` but in which delegator d1
    holds 150 shares of a validator with only 100 delegator shares.  v1 votes pool 0, d1 votes pool 1: the validator's
    remaining power is −50, the stored gauge count of pool 0 is −50, and the allocation computed from a balance of
    100 is −50 (`sdk.NewCoin` would panic in the next BeginBlocker). -/
def overStk : Staking :=
  { vals := [("v1", 100, Dec.ofInt 100)], dels := [("d1", "v1", Dec.ofInt 150)], totalBonded := 100 }
example : StakingOK overStk := ⟨by decide, by decide⟩
example : ¬ DelsBounded overStk := fun h => absurd (h _ List.mem_cons_self) (by decide)
example (h1 : Dec.ofString? "1" = some Dec.one) :
    ∃ s', endBlocker { votes := [⟨"v1", [⟨0, "1"⟩]⟩, ⟨"d1", [⟨1, "1"⟩]⟩] } 10 overStk = .ok s' ∧
      s'.epochs = [⟨1, 10, 15, [⟨0, 0, -50⟩, ⟨0, 1, 150⟩]⟩] := by
  have hp0 : parseWeights [⟨0, "1"⟩] = some [(0, Dec.one)] := by simp [parseWeights, h1]
  have hp1 : parseWeights [⟨1, "1"⟩] = some [(1, Dec.one)] := by simp [parseWeights, h1]
  have e1 : ¬ (Dec.ofInt 100).raw = 0 := by decide
  have e2 : ((Gauge.power (ofInt 150) 100 (ofInt 100)).mul one).truncateInt = 150 := by decide
  have e3 : ((Gauge.power ((ofInt 100).sub (zero.add (ofInt 150))) 100 (ofInt 100)).mul one).truncateInt = -50 := by
    decide
  simp [endBlocker, overStk, lastEpoch, createEpoch, tally, tallyAcc, voteLoop, voteStep, delegLoop, delegStep, delsOf,
    findVal, updVal, initVals, valLoop, valStep, hp0, hp1, Res.bind, addWeighted, addTo, toCounts, setEpoch, e1, e2, e3]
example : allocation 100 (-50) (totalCount [⟨0, 0, -50⟩, ⟨0, 1, 150⟩]) = -50 := by decide

end Sunrise.C01Gauge

#print axioms Sunrise.C01Gauge.endBlocker_no_panic
#print axioms Sunrise.C01Gauge.block_never_halts
#print axioms Sunrise.C01Gauge.never_halted
#print axioms Sunrise.C01Gauge.run_never_halts
#print axioms Sunrise.C01Gauge.deductionsLeShares_of_bounded
#print axioms Sunrise.C01Gauge.gauge_counts_nonneg
#print axioms Sunrise.C01Gauge.allocations_nonneg
#print axioms Sunrise.C01Gauge.block_allocations_nonneg
