import SunriseVerif.Model.FeeAnte
import SunriseVerif.Gen.KernelsTieFee
/-!
Tie between `Model/FeeAnte.lean` (`burn`) and x/fee/keeper/keeper_burn.go: the burn amount is already the regenerated
kernel `Gen.KernelsFee.burnAmount` (called by the model); the skip guard `burnAmount.IsZero()` is regenerated here.
-/
namespace Sunrise.TieFee
open Sunrise Sunrise.Gen.KernelsTieFee

/-- keeper_burn.go:31 `if burnAmount.IsZero() { continue }` — `burn`'s `if amt = 0` -/
theorem burn_skipZero_eq_gen (amt : Int) : decide (amt = 0) = burn_skipZero amt := by
  unfold burn_skipZero Int.isZeroB; by_cases h : amt = 0 <;> simp [h]

/-- the model skips a coin exactly under the regenerated guard -/
theorem burn_skips_gen (cfg : FeeAnte.Cfg) (b : Bank) (c : FeeAnte.Coin) (r : List FeeAnte.Coin) (hd : c.denom = cfg.feeDenom)
    (h : burn_skipZero (Gen.KernelsFee.burnAmount cfg.burnRatio c.amount) = true) :
    FeeAnte.burn cfg b (c :: r) = FeeAnte.burn cfg b r := by
  rw [← burn_skipZero_eq_gen] at h
  simp only [decide_eq_true_eq] at h
  simp [FeeAnte.burn, hd, h]

example : burn_skipZero 0 = true ∧ burn_skipZero 1 = false := by decide

end Sunrise.TieFee
