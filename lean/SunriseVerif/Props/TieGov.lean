import SunriseVerif.Model.GovTally
import SunriseVerif.Gen.KernelsTieGov
/-!
Tie between `Model/GovTally.lean` and app/gov/gov.go: the validator power, the share-class bonded accumulation and the
turnout rescaling (numerator, denominator, the positive-denominator guard of C16-F2) are REGENERATED
(`Gen/KernelsTieGov.lean`) and proved equal to `power`, `step1`'s accumulation and `rescale`.
-/
namespace Sunrise.TieGov
open Sunrise Sunrise.GovTally Sunrise.Gen.KernelsTieGov

/-- gov.go:134 `len(val.Vote) == 0` — `ballot3`'s `(s.vote v.addr).isEmpty` -/
theorem validatorSkipped_eq_gen (os : List WOpt) : os.isEmpty = gov_validatorSkipped (os.length : Int) := by
  unfold gov_validatorSkipped; cases os <;> simp <;> omega

/-- gov.go:138-139 `sharesAfterDeductions.MulInt(val.BondedTokens).Quo(val.DelegatorShares)` — `ballot3`'s power -/
theorem validatorPower_eq_gen (v : Val) (ded : Dec) :
    power (v.shares.sub ded) v = gov_validatorPower (gov_sharesAfterDeductions v.shares ded) v.bonded v.shares := rfl

/-- gov.go:54 `shareclassBonded.Add(delegation.GetShares().MulInt(val.BondedTokens).Quo(val.DelegatorShares))` — `step1` -/
theorem scBondedStep_eq_gen (acc shares : Dec) (v : Val) :
    acc.add (power shares v) = gov_shareclassBondedStep acc shares v.bonded v.shares := rfl

/-- the model's panic flag `v.shares.raw != 0` is the regenerated `_ok` of both divisions by the validator's shares -/
theorem power_ok_eq_gen (acc x : Dec) (v : Val) :
    (v.shares.raw != 0) = gov_validatorPower_ok x v.bonded v.shares
    ∧ (v.shares.raw != 0) = gov_shareclassBondedStep_ok acc x v.bonded v.shares := by
  unfold gov_validatorPower_ok gov_shareclassBondedStep_ok Dec.isZero
  constructor <;> simp [bne]

/-- gov.go:164-168 — `rescale` is the regenerated guard, numerator, denominator and quotient -/
theorem rescale_eq_gen (totalVP : Dec) (bonded : Int) (scBonded : Dec) :
    rescale totalVP bonded scBonded =
      if gov_rescale (gov_denominator bonded scBonded)
      then gov_turnout (gov_numerator totalVP bonded) (gov_denominator bonded scBonded) else totalVP := rfl

/-- the guard of gov.go:165 protects the division of gov.go:167 (C16-F2: all bonded stake non-voting) -/
theorem rescale_guard_implies_turnout_ok (n d : Dec) (h : gov_rescale d = true) : gov_turnout_ok n d = true := by
  unfold gov_turnout_ok Dec.isZero
  unfold gov_rescale Dec.isPositive at h
  simp only [gt_iff_lt, decide_eq_true_eq] at h
  have : d.raw ≠ 0 := by omega
  simp [this]

example : gov_rescale (gov_denominator 5 (Dec.ofInt 5)) = false ∧ gov_rescale (gov_denominator 5 (Dec.ofInt 4)) = true := by decide

end Sunrise.TieGov
